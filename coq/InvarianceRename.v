(* C15, specification level, part 4: renaming.  An injective renaming of the modifier (= parameter) names, applied to the
   modifiers and to the measurement's parameter configurations, gives the same expected data and the same likelihood
   terms at the correspondingly renamed parameter/auxiliary functions.  An injective renaming of the channel names keeps
   every channel's rates and permutes the blocks of the expected data and the terms. *)
From Coq Require Import Bool Arith Lia Permutation Ring Field String List.
Require Import PV.Num PV.Sort PV.Spec PV.Impl PV.Ref PV.RefineMonoid PV.Invariance PV.InvarianceSpec.
Import ListNotations.
Local Open Scope list_scope.

Lemma filter_map_comm {A B} (p : B -> bool) (F : A -> B) l : filter p (map F l) = map F (filter (fun a => p (F a)) l).
Proof. induction l as [|a l IH]; simpl; auto. destruct (p (F a)); simpl; now rewrite IH. Qed.
Lemma map_flat_map2 {A B C} (g : B -> C) (h : A -> list B) l : map g (flat_map h l) = flat_map (fun a => map g (h a)) l.
Proof. induction l as [|a l IH]; simpl; auto. now rewrite map_app, IH. Qed.
Lemma existsb_map {A B} (p : B -> bool) (F : A -> B) l : existsb p (map F l) = existsb (fun a => p (F a)) l.
Proof. induction l as [|a l IH]; simpl; auto. now rewrite IH. Qed.
Lemma existsb_ext2 {A} (p q : A -> bool) l : (forall a, p a = q a) -> existsb p l = existsb q l.
Proof. intros H. induction l as [|a l IH]; simpl; auto. now rewrite H, IH. Qed.
Lemma find_ext2 {A} (p q : A -> bool) l : (forall a, p a = q a) -> find p l = find q l.
Proof. intros H. induction l as [|a l IH]; simpl; auto. now rewrite H, IH. Qed.
Lemma filter_ext2 {A} (p q : A -> bool) l : (forall a, p a = q a) -> filter p l = filter q l.
Proof. intros H. induction l as [|a l IH]; simpl; auto. now rewrite H, IH. Qed.
Lemma nodup_map_inj (f : string -> string) l : (forall a b, f a = f b -> a = b) ->
  nodup string_dec (map f l) = map f (nodup string_dec l).
Proof. intros Hi. induction l as [|a l IH]; simpl; auto.
  destruct (in_dec string_dec (f a) (map f l)) as [H|H], (in_dec string_dec a l) as [H'|H']; simpl; try now rewrite IH.
  - exfalso. apply in_map_iff in H. destruct H as [x [Hx Hin]]. apply Hi in Hx. subst. contradiction.
  - exfalso. apply H. now apply in_map. Qed.

Section RenamePars.
  Variable N : Num.
  Notation V := (V N).
  Notation "0" := (n0 N). Notation "1" := (n1 N).
  Infix "+" := (nadd N). Infix "*" := (nmul N).
  Variable interp_add interp_mul : string -> V -> V -> V -> V -> V.
  Variables ncode hcode : string.
  Variables clip_s clip_b : option V.
  Notation spec := (spec N). Notation channel := (channel N). Notation sample := (sample N). Notation modifier := (modifier N).
  Notation mfac := (mod_factor N interp_mul ncode).
  Notation mdel := (mod_delta N interp_add hcode).
  Notation srate := (sample_rate N interp_add interp_mul ncode hcode clip_s).
  Notation rrate := (ref_rate N interp_add interp_mul ncode hcode clip_s clip_b).
  Notation rexp := (ref_expected N interp_add interp_mul ncode hcode clip_s clip_b).
  Notation rmain := (ref_main_terms N interp_add interp_mul ncode hcode clip_s clip_b).
  Notation rterms := (ref_terms N interp_add interp_mul ncode hcode clip_s clip_b).

  Variable f : string -> string.
  Hypothesis Hinj : forall a b, f a = f b -> a = b.
  Definition ren_mod (m : modifier) : modifier := {| m_name := f (m_name m); m_type := m_type m; m_data := m_data m |}.
  Definition ren_sample (s : sample) : sample := {| s_name := s_name s; s_data := s_data s; s_mods := map ren_mod (s_mods s) |}.
  Definition ren_chan (c : channel) : channel := {| c_name := c_name c; c_samples := map ren_sample (c_samples c) |}.
  Definition ren_pc (p : parcfg N) : parcfg N :=
    {| pc_name := f (pc_name p); pc_inits := pc_inits p; pc_bounds := pc_bounds p; pc_auxdata := pc_auxdata p;
       pc_factors := pc_factors p; pc_sigmas := pc_sigmas p; pc_fixed := pc_fixed p |}.
  Definition rename_parameters (sp : spec) : spec :=
    {| channels := map ren_chan (channels sp); parameters := map ren_pc (parameters sp); poi := option_map f (poi sp) |}.

  Variable sp : spec.
  Variables theta theta' : string -> nat -> V.
  Hypothesis Hth : forall n k, theta' (f n) k = theta n k.
  Notation sp' := (rename_parameters sp).

  Lemma feqb a b : String.eqb (f a) (f b) = String.eqb a b.
  Proof. destruct (String.eqb a b) eqn:E.
    - apply String.eqb_eq in E. subst. apply String.eqb_refl.
    - apply String.eqb_neq. intros H. apply Hinj in H. apply String.eqb_neq in E. contradiction. Qed.
  Lemma ren_has s n t : has_mod N (ren_sample s) (f n) t = has_mod N s n t.
  Proof. unfold has_mod. simpl. rewrite existsb_map. apply existsb_ext2. intros m. simpl. now rewrite feqb. Qed.
  Lemma ren_chan_has c n t : chan_has N (ren_chan c) (f n) t = chan_has N c n t.
  Proof. unfold chan_has. simpl. rewrite existsb_map. apply existsb_ext2. intros s. apply ren_has. Qed.
  Lemma ren_nbins c : chan_nbins N (ren_chan c) = chan_nbins N c.
  Proof. unfold chan_nbins. simpl. destruct (c_samples c); reflexivity. Qed.
  Lemma ren_stat_offset n c : stat_offset N sp' (f n) (ren_chan c) = stat_offset N sp n c.
  Proof. unfold stat_offset. simpl. rewrite filter_map_comm, map_map. f_equal.
    rewrite (filter_ext2 _ (fun c' => chan_has N c' n Staterror && (c_name c' <? c_name c)%string)).
    - apply map_ext. intros c'. apply ren_nbins.
    - intros c'. now rewrite ren_chan_has. Qed.
  Lemma ren_factor c s m b : mfac sp' theta' (ren_chan c) (ren_sample s) (ren_mod m) b = mfac sp theta c s m b.
  Proof. unfold mod_factor. simpl. destruct (m_type m); rewrite ?ren_stat_offset, ?Hth; auto. Qed.
  Lemma ren_delta s m b : mdel theta' (ren_sample s) (ren_mod m) b = mdel theta s m b.
  Proof. unfold mod_delta. simpl. destruct (m_type m); auto. destruct (m_data m); auto. now rewrite Hth. Qed.
  Lemma ren_srate c s b : srate sp' theta' (ren_chan c) (ren_sample s) b = srate sp theta c s b.
  Proof. unfold sample_rate. simpl. rewrite !map_map. f_equal. f_equal; [f_equal|f_equal; f_equal]; apply map_ext; intros m; [apply ren_factor|apply ren_delta]. Qed.
  Lemma ren_rate c b : rrate sp' theta' (ren_chan c) b = rrate sp theta c b.
  Proof. unfold ref_rate. simpl. rewrite map_map. f_equal. f_equal. apply map_ext. intros s. apply ren_srate. Qed.
  Lemma ren_sorted : sorted_channels N sp' = map ren_chan (sorted_channels N sp).
  Proof. unfold sorted_channels. simpl. rewrite (ssort_map (@c_name N) ren_chan). reflexivity. Qed.

  Theorem rename_parameters_expected : rexp sp' theta' = rexp sp theta.
  Proof. unfold ref_expected. rewrite ren_sorted, flat_map_map2. apply flat_map_ext. intros c. rewrite ren_nbins.
    apply map_ext. intros b. apply ren_rate. Qed.

  (* ---- terms ---- *)
  Variables obs aux aux' : string -> nat -> V.
  Hypothesis Haux : forall n k, aux' (f n) k = aux n k.

  Lemma ren_main : rmain sp' theta' obs = rmain sp theta obs.
  Proof. unfold ref_main_terms. rewrite ren_sorted, flat_map_map2. apply flat_map_ext. intros c. rewrite ren_nbins.
    apply map_ext. intros b. now rewrite ren_rate. Qed.
  Lemma ren_tnames t c : chan_tnames N t (ren_chan c) = map f (chan_tnames N t c).
  Proof. unfold chan_tnames. simpl. rewrite flat_map_map2, map_flat_map2. apply flat_map_ext. intros s. simpl.
    rewrite flat_map_map2, map_flat_map2. apply flat_map_ext. intros m. simpl. destruct (mtype_eqb (m_type m) t); reflexivity. Qed.
  Lemma ren_names_with t : names_with N sp' t = map f (names_with N sp t).
  Proof. rewrite !names_with_is. simpl. rewrite flat_map_map2. rewrite <- nodup_map_inj by auto. f_equal.
    rewrite map_flat_map2. apply flat_map_ext. intros c. apply ren_tnames. Qed.
  Lemma ren_alpha : alpha_names N sp' = map f (alpha_names N sp).
  Proof. unfold alpha_names. rewrite !ren_names_with, <- map_app. now apply nodup_map_inj. Qed.
  Lemma ren_user_cfg n : user_cfg N sp' (f n) = option_map ren_pc (user_cfg N sp n).
  Proof. unfold user_cfg. simpl. rewrite find_map. f_equal. apply find_ext2. intros p. simpl. apply feqb. Qed.
  Lemma ren_sigmas n k : user_sigmas2 N sp' (f n) k = user_sigmas2 N sp n k.
  Proof. unfold user_sigmas2. rewrite ren_user_cfg. destruct (user_cfg N sp n); reflexivity. Qed.
  Lemma ren_ufactor n k : user_factor N sp' (f n) k = user_factor N sp n k.
  Proof. unfold user_factor. rewrite ren_user_cfg. destruct (user_cfg N sp n); reflexivity. Qed.
  Lemma ren_stat_unc s n b : stat_unc N (ren_sample s) (f n) b = stat_unc N s n b.
  Proof. unfold stat_unc. simpl. rewrite find_map.
    rewrite (find_ext2 _ (fun m => String.eqb (m_name m) n && mtype_eqb (m_type m) Staterror)) by (intros m; simpl; now rewrite feqb).
    destruct (find _ (s_mods s)); reflexivity. Qed.
  Lemma ren_stat_delta2 n c b : stat_delta2 N (f n) (ren_chan c) b = stat_delta2 N n c b.
  Proof. unfold stat_delta2. simpl. rewrite filter_map_comm.
    rewrite (filter_ext2 _ (fun s => has_mod N s n Staterror)) by (intros s; apply ren_has).
    rewrite !map_map. simpl.
    rewrite (map_ext (fun x => if rpos N (rsum N (map (fun s => nth b (s_data s) 0) (filter (fun s => has_mod N s n Staterror) (c_samples c))))
                               then nmul N (ndiv N (stat_unc N (ren_sample x) (f n) b) (rsum N (map (fun s => nth b (s_data s) 0) (filter (fun s => has_mod N s n Staterror) (c_samples c)))))
                                           (ndiv N (stat_unc N (ren_sample x) (f n) b) (rsum N (map (fun s => nth b (s_data s) 0) (filter (fun s => has_mod N s n Staterror) (c_samples c))))) else 0)
                    (fun x => if rpos N (rsum N (map (fun s => nth b (s_data s) 0) (filter (fun s => has_mod N s n Staterror) (c_samples c))))
                               then nmul N (ndiv N (stat_unc N x n b) (rsum N (map (fun s => nth b (s_data s) 0) (filter (fun s => has_mod N s n Staterror) (c_samples c)))))
                                           (ndiv N (stat_unc N x n b) (rsum N (map (fun s => nth b (s_data s) 0) (filter (fun s => has_mod N s n Staterror) (c_samples c))))) else 0))
      by (intros x; now rewrite ren_stat_unc).
    reflexivity. Qed.
  Lemma ren_stat_block n c : stat_block N sp' theta' aux' (f n) (ren_chan c) = stat_block N sp theta aux n c.
  Proof. unfold stat_block. rewrite ren_chan_has, ren_nbins. destruct (chan_has N c n Staterror); auto. apply map_ext. intros b. cbv zeta.
    now rewrite ren_stat_offset, Haux, Hth, ren_sigmas, ren_stat_delta2. Qed.
  Lemma ren_mod_shape c s m : mod_shape_terms N sp' theta' aux' (ren_chan c) (ren_sample s) (ren_mod m) = mod_shape_terms N sp theta aux c s m.
  Proof. unfold mod_shape_terms. simpl m_type. simpl m_data. simpl m_name. rewrite ren_nbins. destruct (m_type m); auto. destruct (m_data m); auto.
    apply map_ext. intros b. now rewrite Haux, Hth, ren_ufactor. Qed.
  Lemma ren_chan_shape c : chan_shape_terms N sp' theta' aux' (ren_chan c) = chan_shape_terms N sp theta aux c.
  Proof. unfold chan_shape_terms. simpl c_samples. rewrite flat_map_map2. apply flat_map_ext. intros s. simpl s_mods. rewrite flat_map_map2.
    apply flat_map_ext. intros m. apply ren_mod_shape. Qed.

  Theorem rename_parameters_terms : rterms sp' theta' obs aux' = rterms sp theta obs aux.
  Proof. unfold ref_terms. rewrite ren_main. f_equal. rewrite !ref_cterms_is. f_equal; [|f_equal; [|f_equal]].
    - unfold ct_alpha. rewrite ren_alpha, map_map. apply map_ext. intros n. now rewrite Haux, Hth.
    - unfold ct_lumi. rewrite ren_names_with, map_map. apply map_ext. intros n. now rewrite Haux, Hth, ren_sigmas.
    - unfold ct_stat. rewrite ren_names_with, flat_map_map2. apply flat_map_ext. intros n. rewrite ren_sorted, flat_map_map2.
      apply flat_map_ext. intros c. apply ren_stat_block.
    - unfold ct_shape. simpl channels. rewrite flat_map_map2. apply flat_map_ext. intros c. apply ren_chan_shape. Qed.
End RenamePars.

(* 2a. in one piece; the terms are even equal as lists, hence a fortiori as multisets *)
Theorem rename_parameters_invariant : forall N ia im nc hc cs cb (f : string -> string), (forall a b, f a = f b -> a = b) ->
  forall (sp : spec N) theta theta', (forall n k, theta' (f n) k = theta n k) ->
  ref_expected N ia im nc hc cs cb (rename_parameters N f sp) theta' = ref_expected N ia im nc hc cs cb sp theta /\
  forall obs aux aux', (forall n k, aux' (f n) k = aux n k) ->
    ref_terms N ia im nc hc cs cb (rename_parameters N f sp) theta' obs aux' = ref_terms N ia im nc hc cs cb sp theta obs aux /\
    Permutation (ref_terms N ia im nc hc cs cb (rename_parameters N f sp) theta' obs aux') (ref_terms N ia im nc hc cs cb sp theta obs aux).
Proof. intros N ia im nc hc cs cb f Hi sp theta theta' Ht. split; [now apply rename_parameters_expected|].
  intros obs aux aux' Ha. assert (E := rename_parameters_terms N ia im nc hc cs cb f Hi sp theta theta' Ht obs aux aux' Ha).
  split; auto. now rewrite E. Qed.

(* ------------------------------------------------------------------ renaming of channels *)
Section RenameChans.
  Variable N : Num.
  Notation V := (V N).
  Notation "0" := (n0 N). Notation "1" := (n1 N).
  Infix "+" := (nadd N). Infix "*" := (nmul N).
  Variable interp_add interp_mul : string -> V -> V -> V -> V -> V.
  Variables ncode hcode : string.
  Variables clip_s clip_b : option V.
  Notation spec := (spec N). Notation channel := (channel N). Notation sample := (sample N). Notation modifier := (modifier N).
  Notation mfac := (mod_factor N interp_mul ncode).
  Notation srate := (sample_rate N interp_add interp_mul ncode hcode clip_s).
  Notation rrate := (ref_rate N interp_add interp_mul ncode hcode clip_s clip_b).
  Notation rexp := (ref_expected N interp_add interp_mul ncode hcode clip_s clip_b).
  Notation rmain := (ref_main_terms N interp_add interp_mul ncode hcode clip_s clip_b).
  Notation rterms := (ref_terms N interp_add interp_mul ncode hcode clip_s clip_b).

  Variable g : string -> string.
  Definition renc (c : channel) : channel := {| c_name := g (c_name c); c_samples := c_samples c |}.
  Definition rename_channels (sp : spec) : spec := {| channels := map renc (channels sp); parameters := parameters sp; poi := poi sp |}.

  Variable sp : spec.
  Variable theta : string -> nat -> V.
  Notation sp' := (rename_channels sp).
  (* a staterror parameter belongs to one channel (pyhf's own specifications name them staterror_<channel>); without this
     the component layout of a shared staterror follows the sorted channel names and a renaming re-pairs its components:
     see rename_channels_shared_staterror_refuted *)
  Definition stat_local : Prop := forall c c' n, In c (channels sp) -> In c' (channels sp) ->
    chan_has N c n Staterror = true -> chan_has N c' n Staterror = true -> c_name c = c_name c'.
  Hypothesis Hlocal : stat_local.

  Lemma ltb_irrefl x : String.ltb x x = false.
  Proof. unfold String.ltb. now rewrite str_compare_refl. Qed.
  Lemma filter_nil {A} (p : A -> bool) l : (forall x, In x l -> p x = false) -> filter p l = [].
  Proof. induction l as [|a l IH]; intros H; simpl; auto. rewrite (H a) by now left. apply IH. intros; apply H; now right. Qed.
  Lemma local_offset n c : In c (channels sp) -> chan_has N c n Staterror = true -> stat_offset N sp n c = O.
  Proof. intros Hc Hh. unfold stat_offset. rewrite filter_nil; auto. intros a Ha.
    destruct (chan_has N a n Staterror) eqn:Ea; auto. simpl. rewrite (Hlocal a c n Ha Hc Ea Hh). apply ltb_irrefl. Qed.
  Lemma local_offset' n c : In c (channels sp) -> chan_has N c n Staterror = true -> stat_offset N sp' n (renc c) = O.
  Proof. intros Hc Hh. unfold stat_offset. rewrite filter_nil; auto. intros a Ha. simpl in Ha. apply in_map_iff in Ha. destruct Ha as [a0 [<- Ha0]].
    change (chan_has N (renc a0) n Staterror) with (chan_has N a0 n Staterror).
    destruct (chan_has N a0 n Staterror) eqn:Ea; auto. simpl. rewrite (Hlocal a0 c n Ha0 Hc Ea Hh). apply ltb_irrefl. Qed.

  Lemma renc_factor c s m b : In c (channels sp) -> In s (c_samples c) -> In m (s_mods s) -> mfac sp' theta (renc c) s m b = mfac sp theta c s m b.
  Proof. intros Hc Hs Hm. unfold mod_factor. destruct (m_type m) eqn:Et; auto.
    assert (Hh : chan_has N c (m_name m) Staterror = true).
    { unfold chan_has. apply existsb_exists. exists s. split; auto. unfold has_mod. apply existsb_exists. exists m. split; auto.
      now rewrite String.eqb_refl, Et. }
    now rewrite local_offset, local_offset'. Qed.
  Lemma renc_rate c b : In c (channels sp) -> rrate sp' theta (renc c) b = rrate sp theta c b.
  Proof. intros Hc. unfold ref_rate. f_equal. f_equal. simpl c_samples. apply map_ext_in. intros s Hs. unfold sample_rate. f_equal. f_equal. f_equal.
    apply map_ext_in. intros m Hm. now apply renc_factor. Qed.
  Lemma renc_sorted : Permutation (sorted_channels N sp') (map renc (sorted_channels N sp)).
  Proof. unfold sorted_channels, ssort. simpl. rewrite isort_perm. apply Permutation_map. symmetry. apply isort_perm. Qed.
  Lemma sorted_in c : In c (sorted_channels N sp) -> In c (channels sp).
  Proof. unfold sorted_channels, ssort. apply isort_in. Qed.

  (* 2b. per channel the rates are unchanged; the expected data are the same blocks in the order of the new names *)
  Theorem rename_channels_expected : Permutation (rexp sp' theta) (rexp sp theta).
  Proof. unfold ref_expected. rewrite (Permutation_flat_map _ renc_sorted), flat_map_map2. apply Permutation_refl'.
    apply flat_map_ext_in2. intros c Hc. apply sorted_in in Hc. change (chan_nbins N (renc c)) with (chan_nbins N c).
    apply map_ext. intros b. now apply renc_rate. Qed.

  Variables obs obs' aux : string -> nat -> V.
  Hypothesis Hobs : forall c b, In c (channels sp) -> obs' (g (c_name c)) b = obs (c_name c) b.
  Lemma renc_main : Permutation (rmain sp' theta obs') (rmain sp theta obs).
  Proof. unfold ref_main_terms. rewrite (Permutation_flat_map _ renc_sorted), flat_map_map2. apply Permutation_refl'.
    apply flat_map_ext_in2. intros c Hc. apply sorted_in in Hc. change (chan_nbins N (renc c)) with (chan_nbins N c).
    apply map_ext. intros b. simpl c_name. now rewrite Hobs, renc_rate. Qed.
  Lemma renc_names_with t : names_with N sp' t = names_with N sp t.
  Proof. rewrite !names_with_is. simpl. now rewrite flat_map_map2. Qed.
  Lemma renc_stat_block n c : In c (channels sp) -> stat_block N sp' theta aux n (renc c) = stat_block N sp theta aux n c.
  Proof. intros Hc. unfold stat_block. change (chan_has N (renc c) n Staterror) with (chan_has N c n Staterror).
    destruct (chan_has N c n Staterror) eqn:E; auto. now rewrite local_offset, local_offset'. Qed.
  Theorem rename_channels_terms : Permutation (rterms sp' theta obs' aux) (rterms sp theta obs aux).
  Proof. unfold ref_terms. apply Permutation_app; [apply renc_main|]. rewrite !ref_cterms_is.
    apply Permutation_app; [|apply Permutation_app; [|apply Permutation_app]].
    - unfold ct_alpha, alpha_names. now rewrite !renc_names_with.
    - unfold ct_lumi. now rewrite renc_names_with.
    - unfold ct_stat. rewrite renc_names_with.
      apply (@Forall2_flat_map_perm _ _ eq); [apply Forall2_refl_in; auto|]. intros n n' _ _ <-.
      rewrite (Permutation_flat_map _ renc_sorted), flat_map_map2. apply Permutation_refl'.
      apply flat_map_ext_in2. intros c Hc. apply sorted_in in Hc. now apply renc_stat_block.
    - unfold ct_shape. simpl channels. rewrite flat_map_map2. apply Permutation_refl'. apply flat_map_ext. intros c. reflexivity. Qed.
End RenameChans.

Theorem rename_channels_invariant : forall N ia im nc hc cs cb (g : string -> string) (sp : spec N), stat_local N sp ->
  forall theta : string -> nat -> V N,
  (forall c b, In c (channels sp) -> ref_rate N ia im nc hc cs cb (rename_channels N g sp) theta (renc N g c) b = ref_rate N ia im nc hc cs cb sp theta c b) /\
  Permutation (ref_expected N ia im nc hc cs cb (rename_channels N g sp) theta) (ref_expected N ia im nc hc cs cb sp theta) /\
  forall obs obs' aux : string -> nat -> V N, (forall c b, In c (channels sp) -> obs' (g (c_name c)) b = obs (c_name c) b) ->
    Permutation (ref_terms N ia im nc hc cs cb (rename_channels N g sp) theta obs' aux) (ref_terms N ia im nc hc cs cb sp theta obs aux).
Proof. intros N ia im nc hc cs cb g sp Hl theta. split; [|split].
  - intros c b Hc. now apply renc_rate.
  - now apply rename_channels_expected.
  - intros obs obs' aux Ho. now apply rename_channels_terms. Qed.
