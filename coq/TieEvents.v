(* C11 - tie to the source: the definitions translated on every run from pyhf/events.py and pyhf/tensor/manager.py
   (coq/gen/EventsGen.v, written by harness/props/c11_tie.py) coincide with what the hand model of Events.v says:
   part 1 - the weak-reference callback registry (generic in the world);
   part 2 - set_backend against a hand-written generic specification (generic in every opaque function: which slot each comparison
            reads, which event fires under which condition, the order swap / default events / events / _setup are pinned for ALL
            instantiations);
   part 3 - the instantiation at the state of Events.v: the translated register wrapper around the translated set_backend, with
            `trigger(name)()` composed from the translated trigger and Callables.__call__, IS Events.set_backend.
   The proofs succeed only while the translated text means what the model says. *)
From Coq Require Import Bool Arith Lia String List.
Require Import PV.Events PV.EventsThms PV.gen.EventsGen.
Import ListNotations.
Local Open Scope string_scope.
Local Open Scope list_scope.

(* ====================================================================================================================== *)
(* Part 1 : events.py                                                                                                       *)
(* ====================================================================================================================== *)
Lemma fold_snoc_filter_map {X Y : Type} (p : X -> bool) (g : X -> Y) (l : list X) (acc : list Y) :
  fold_left (fun s x => if p x then s ++ [g x] else s) l acc = acc ++ map g (filter p l).
Proof. revert acc. induction l as [|a r IH]; intros acc; simpl; [now rewrite app_nil_r|].
  rewrite IH. destruct (p a); simpl; [now rewrite <- app_assoc|reflexivity]. Qed.

Section Registry.
Variables W A : Type.
Variable deref : W -> wref -> option objref.
Variable call_method : W -> fref -> objref -> A -> W.
Variable call_func : W -> fref -> A -> W.

(* a registered reference is alive: a plain function always, a bound method while its object is *)
Definition cb_alive (w : W) (c : cbref) : bool :=
  match snd c with None => true | Some o => match deref w o with Some _ => true | None => false end end.
(* one callback of a round *)
Definition cb_invoke (a : A) (w : W) (c : cbref) : W :=
  match snd c with
  | None => call_func w (fst c) a
  | Some o => match deref w o with Some ob => call_method w (fst c) ob a | None => w end
  end.

(* Callables._flush keeps exactly the live references, in order *)
Theorem tie_flush w cbs : gen_flush W A deref call_method call_func w cbs = filter (cb_alive w) cbs.
Proof. unfold gen_flush. cbv zeta.
  match goal with |- fold_left ?F _ _ = _ => set (F0 := F) end.
  assert (G : forall acc, fold_left F0 cbs acc = acc ++ filter (cb_alive w) cbs).
  { induction cbs as [|[f [o|]] r IH]; intros acc; simpl; [now rewrite app_nil_r| |].
    - rewrite IH. unfold F0. unfold cb_alive at 2. cbn [fst snd]. destruct (deref w o); [now rewrite <- app_assoc|reflexivity].
    - rewrite IH. unfold F0. unfold cb_alive at 2. cbn [fst snd]. now rewrite <- app_assoc. }
  apply G. Qed.

(* Callables.__call__: every reference that is alive WHEN ITS TURN COMES is invoked, in subscription order, on the world the earlier
   callbacks left; the list is only flushed AFTER the round, against the world the round left *)
Theorem tie_callables_call w cbs a :
  gen_callables_call W A deref call_method call_func w cbs a
  = (fold_left (cb_invoke a) cbs w, filter (cb_alive (fold_left (cb_invoke a) cbs w)) cbs).
Proof. unfold gen_callables_call. cbv zeta.
  match goal with |- (fold_left ?F _ _, _) = _ => assert (E : forall l w0, fold_left F l w0 = fold_left (cb_invoke a) l w0) end.
  { induction l as [|[f [o|]] r IH]; intros w0; simpl; [reflexivity| |]; rewrite IH; reflexivity. }
  rewrite E. f_equal. exact (tie_flush _ cbs). Qed.

(* Callables.append: at the end; a bound method by weak references to its function and to its object, a plain function alone *)
Theorem tie_append_method cbs f o : gen_append_method cbs f o = cbs ++ [(f, Some o)].
Proof. reflexivity. Qed.
Theorem tie_append_function cbs f : gen_append_function cbs f = cbs ++ [(f, None)].
Proof. reflexivity. Qed.
End Registry.

(* subscribe: the callback is appended to the entry of its event (a new entry at the end of the table when the event is new);
   every other entry is untouched *)
Definition entry (events : list (string * list cbref)) (e : string) : list cbref := match assoc e events with Some l => l | None => [] end.
Lemma setdefault_upd_entry {X} (d : list (string * list X)) k f e :
  assoc e (setdefault_upd d k f) = if String.eqb e k then Some (f (match assoc k d with Some l => l | None => [] end)) else assoc e d.
Proof. induction d as [|[k' l] r IH]; simpl.
  - destruct (String.eqb e k); reflexivity.
  - destruct (String.eqb k k') eqn:Ek; simpl.
    + apply String.eqb_eq in Ek. subst k'. destruct (String.eqb e k); reflexivity.
    + destruct (String.eqb e k') eqn:Ee.
      * apply String.eqb_eq in Ee. subst k'. rewrite String.eqb_sym in Ek. now rewrite Ek.
      * rewrite IH. reflexivity. Qed.
Theorem tie_subscribe_method events event f o e :
  entry (gen_subscribe_method events event f o) e = if String.eqb e event then entry events event ++ [(f, Some o)] else entry events e.
Proof. unfold gen_subscribe_method, entry. rewrite setdefault_upd_entry. destruct (String.eqb e event); reflexivity. Qed.
Theorem tie_subscribe_function events event f e :
  entry (gen_subscribe_function events event f) e = if String.eqb e event then entry events event ++ [(f, None)] else entry events e.
Proof. unfold gen_subscribe_function, entry. rewrite setdefault_upd_entry. destruct (String.eqb e event); reflexivity. Qed.

(* trigger: noop for a disabled event or one nobody subscribed to, otherwise the Callables of the event - never python None *)
Lemma mem_str_assoc {X} e (d : list (string * X)) : mem_str e (map fst d) = match assoc e d with Some _ => true | None => false end.
Proof. unfold mem_str. induction d as [|[k v] r IH]; simpl; [reflexivity|]. destruct (String.eqb e k); [reflexivity|exact IH]. Qed.
Theorem tie_trigger events disabled event :
  gen_trigger events disabled event
  = if mem_str event disabled then CNoop else match assoc event events with Some cbs => CCallables cbs | None => CNoop end.
Proof. unfold gen_trigger. rewrite mem_str_assoc. destruct (mem_str event disabled); simpl; [reflexivity|].
  destruct (assoc event events); reflexivity. Qed.

(* disable / enable *)
Theorem tie_disable disabled event : gen_disable disabled event = if mem_str event disabled then disabled else disabled ++ [event].
Proof. reflexivity. Qed.
Theorem tie_enable disabled event :
  gen_enable disabled event = match set_remove event disabled with Some d => Ok d | None => Err PyKeyError end.
Proof. reflexivity. Qed.
Lemma enable_after_disable disabled event : mem_str event disabled = false ->
  gen_enable (gen_disable disabled event) event = Ok disabled.
Proof. intro H. rewrite tie_disable, H, tie_enable. unfold mem_str in H.
  induction disabled as [|a r IH]; simpl in *; [now rewrite String.eqb_refl|].
  destruct (String.eqb event a); [discriminate|]. simpl in H. specialize (IH H).
  destruct (set_remove event (r ++ [event])); [|discriminate]. now inversion IH. Qed.

(* register: `before` event, the function itself, `after` event, the function's result handed back *)
Theorem tie_register_wrapper (W A R : Type) fire run event (w : W) (a : A) :
  gen_register_wrapper W A R fire run event w a
  = let w1 := fire w (event ++ "::before")%string in let r := run w1 a in (fire (fst r) (event ++ "::after")%string, snd r).
Proof. reflexivity. Qed.

(* ====================================================================================================================== *)
(* Part 2 : tensor/manager.py:set_backend against a generic specification                                                   *)
(* ====================================================================================================================== *)
Section SetBackend.
Variables W tobj oobj bcls ocls : Type.
Variable lower : string -> string.
Variable getb : string -> option bcls.
Variable newb : bcls -> option string -> tobj.
Variables bname bprec : tobj -> string.
Variable binst : tobj -> bcls -> bool.
Variable geto : string -> option ocls.
Variable newo : W -> ocls -> W * oobj.
Variable oname : oobj -> string.
Variable oinst : oobj -> ocls -> bool.
Variable oneq : oobj -> oobj -> bool.
Variables cur dflt : W -> tobj * oobj.
Variables set_cur set_dflt : W -> tobj * oobj -> W.
Variable fire : W -> string -> W.
Variable setup : W -> tobj -> W.

Inductive barg := BStr (s : string) | BObj (t : tobj).
Inductive optarg := ONone | OStr (s : string) | OObj (o : oobj).

Definition bind {X Y} (r : result X) (k : X -> result Y) : result Y := match r with Ok x => k x | Err e => Err e end.

(* `if precision:` - a non-empty text is lowered, must be a supported precision and becomes the keyword of the backend constructor;
   result: (what later comparisons see as `precision`, the keyword) *)
Definition prec_step (precision : option string) : result (option string * option string) :=
  match precision with
  | None => Ok (None, None)
  | Some p => if negb (String.eqb p "") then
                (if negb (mem_str (lower p) ["32b"; "64b"]) then Err Unsupported else Ok (Some (lower p), Some (lower p)))
              else Ok (Some p, None)
  end.
(* a text names the backend class (unknown name: InvalidBackend); an object is taken as it is *)
Definition backend_step (b : barg) (kw : option string) : result tobj :=
  match b with
  | BStr s => match getb (lower s ++ "_backend")%string with None => Err InvalidBackend | Some c => Ok (newb c kw) end
  | BObj t => Ok t
  end.
(* a custom object may not carry the name of a supported backend / optimizer *)
Definition bad_name_b (nb : tobj) : bool := match getb (bname nb ++ "_backend")%string with None => false | Some c => negb (binst nb c) end.
Definition bad_name_o (no : oobj) : bool := match geto (oname no ++ "_optimizer")%string with None => false | Some c => negb (oinst no c) end.
(* a precision argument wins over the precision of the object *)
Definition precision_wins (nb : tobj) (prec kw : option string) : result tobj :=
  match prec with
  | Some p => if negb (String.eqb (bprec nb) p)
              then match getb (bname nb ++ "_backend")%string with None => Err PyTypeError | Some c => Ok (newb c kw) end
              else Ok nb
  | None => Ok nb
  end.
(* None: a NEW scipy optimizer object; a text: a NEW object of the named class; an object: itself *)
Definition optimizer_step (o : optarg) (w : W) : result (W * oobj) :=
  match o with
  | ONone => match geto "scipy_optimizer" with None => Err PyTypeError | Some c => Ok (newo w c) end
  | OStr s => match geto (lower (lower s) ++ "_optimizer")%string with
              | None => Err InvalidOptimizer
              | Some c => let r := newo w c in if bad_name_o (snd r) then Err PyAttributeError else Ok r
              end
  | OObj x => if bad_name_o x then Err PyAttributeError else Ok (w, x)
  end.
Definition tl_differs (nb : tobj) (slot : tobj * oobj) : bool :=
  orb (negb (String.eqb (bname nb) (bname (fst slot)))) (negb (String.eqb (bprec nb) (bprec (fst slot)))).
(* the change tests read the CURRENT slot before it is overwritten; the state is swapped; with default=True the default slot is compared
   (after the swap), its two events fire and it is set to the current slot; then 'tensorlib_changed' iff name or precision changed, then
   'optimizer_changed' iff the optimizer object differs; _setup() of the new backend last, after all callbacks *)
Definition commit (nb : tobj) (no : oobj) (default : bool) (w : W) : W :=
  let tc := tl_differs nb (cur w) in
  let oc := oneq (snd (cur w)) no in
  let w1 := set_cur w (nb, no) in
  let w2 := if default then
              let dtc := tl_differs nb (dflt w1) in
              let doc := oneq (snd (dflt w1)) no in
              let wa := if dtc then fire w1 "default_tensorlib_changed" else w1 in
              let wb := if doc then fire wa "default_optimizer_changed" else wa in
              set_dflt wb (cur wb)
            else w1 in
  let w3 := if tc then fire w2 "tensorlib_changed" else w2 in
  let w4 := if oc then fire w3 "optimizer_changed" else w3 in
  setup w4 nb.

Definition set_backend_spec (b : barg) (o : optarg) (precision : option string) (default : bool) (w : W) : result W :=
  bind (prec_step precision) (fun pk =>
  bind (backend_step b (snd pk)) (fun nb0 =>
  if bad_name_b nb0 then Err PyAttributeError else
  bind (precision_wins nb0 (fst pk) (snd pk)) (fun nb =>
  bind (optimizer_step o w) (fun wo => Ok (commit nb (snd wo) default (fst wo)))))).

(* follow the control flow of the translated text: split on the outermost test of the left-hand side only *)
Ltac step_lhs :=
  match goal with
  | |- (match ?x with _ => _ end) = _ => destruct x; cbv beta iota zeta; cbn [fst snd]
  end.
Ltac tie_sb := unfold set_backend_spec, bind, prec_step, backend_step, precision_wins, optimizer_step, bad_name_b, bad_name_o, commit, tl_differs;
  cbv beta iota zeta; cbn [fst snd]; repeat step_lhs; try reflexivity.

Local Notation G f := (f W tobj oobj bcls ocls lower getb newb bname bprec binst geto newo oname oinst oneq cur dflt set_cur set_dflt fire setup).

(* set_backend("name", "optimizer name", precision="..") *)
Theorem tie_set_backend_str_str_str backend custom_optimizer precision default w :
  G gen_set_backend_str_str_str backend custom_optimizer precision default w
  = set_backend_spec (BStr backend) (OStr custom_optimizer) (Some precision) default w.
Proof. unfold gen_set_backend_str_str_str. tie_sb. Qed.
(* set_backend("name", <optimizer object>, precision="..") *)
Theorem tie_set_backend_str_obj_str backend custom_optimizer precision default w :
  G gen_set_backend_str_obj_str backend custom_optimizer precision default w
  = set_backend_spec (BStr backend) (OObj custom_optimizer) (Some precision) default w.
Proof. unfold gen_set_backend_str_obj_str. tie_sb. Qed.
(* set_backend("name") *)
Theorem tie_set_backend_str_none_none backend default w :
  G gen_set_backend_str_none_none backend default w = set_backend_spec (BStr backend) ONone None default w.
Proof. unfold gen_set_backend_str_none_none. tie_sb. Qed.
(* set_backend(<backend object>, <optimizer object>)  - what the command line does *)
Theorem tie_set_backend_obj_obj_none backend custom_optimizer default w :
  G gen_set_backend_obj_obj_none backend custom_optimizer default w = set_backend_spec (BObj backend) (OObj custom_optimizer) None default w.
Proof. unfold gen_set_backend_obj_obj_none. tie_sb. Qed.
End SetBackend.

(* ====================================================================================================================== *)
(* Part 3 : the instantiation at the state of Events.v                                                                      *)
(* ====================================================================================================================== *)
(* the world: the state of the hand model, the `default` slot (which the hand model does not have: it is arbitrary here, so nothing
   below may depend on it) and the log of observed events *)
Record world := mkW { w_s : state; w_dflt : tlib * (oname * nat); w_log : list ev }.

Definition bstr (b : bname) : string := match b with Numpy => "numpy" | Jax => "jax" | Pytorch => "pytorch" | Tensorflow => "tensorflow" end.
Definition pstr (p : prec) : string := match p with B64 => "64b" | B32 => "32b" end.
Definition ostr (o : oname) : string := match o with Scipy => "scipy" | Minuit => "minuit" end.

Definition lower_i (s : string) : string := s.                       (* the names used are lower case already *)
Definition getb_i (s : string) : option bname :=
  if String.eqb s "numpy_backend" then Some Numpy else if String.eqb s "jax_backend" then Some Jax
  else if String.eqb s "pytorch_backend" then Some Pytorch else if String.eqb s "tensorflow_backend" then Some Tensorflow else None.
Definition newb_i (c : bname) (kw : option string) : tlib :=
  (c, match kw with Some k => if String.eqb k "32b" then B32 else B64 | None => B64 end).
Definition bname_i (t : tlib) : string := bstr (fst t).
Definition bprec_i (t : tlib) : string := pstr (snd t).
Definition binst_i (t : tlib) (c : bname) : bool := bname_eqb (fst t) c.
Definition geto_i (s : string) : option oname :=
  if String.eqb s "scipy_optimizer" then Some Scipy else if String.eqb s "minuit_optimizer" then Some Minuit else None.
Definition with_opt (s : state) (t : tlib) (o : oname * nat) (nxt : nat) : state :=
  {| cur_tl := t; cur_opt := o; next_opt := nxt; next_tree := next_tree s; heap := heap s; registry := registry s |}.
Definition newo_i (w : world) (c : oname) : world * (oname * nat) :=
  (mkW (with_opt (w_s w) (cur_tl (w_s w)) (cur_opt (w_s w)) (S (next_opt (w_s w)))) (w_dflt w) (w_log w), (c, next_opt (w_s w))).
Definition oname_i (o : oname * nat) : string := ostr (fst o).
Definition oinst_i (o : oname * nat) (c : oname) : bool := oname_eqb (fst o) c.
Definition oneq_i (a b : oname * nat) : bool := negb (oname_eqb (fst a) (fst b) && Nat.eqb (snd a) (snd b)).
Definition cur_i (w : world) : tlib * (oname * nat) := (cur_tl (w_s w), cur_opt (w_s w)).
Definition dflt_i (w : world) : tlib * (oname * nat) := w_dflt w.
Definition set_cur_i (w : world) (v : tlib * (oname * nat)) : world :=
  mkW (with_opt (w_s w) (fst v) (snd v) (next_opt (w_s w))) (w_dflt w) (w_log w).
Definition set_dflt_i (w : world) (v : tlib * (oname * nat)) : world := mkW (w_s w) v (w_log w).
Definition setup_i (w : world) (t : tlib) : world := w.

(* the registry of 'tensorlib_changed': bound methods `_precompute` (function identity 0) of the objects of the heap *)
Definition mref (id : nat) : cbref := (0, Some id).
Definition events_of (s : state) : list (string * list cbref) := [("tensorlib_changed", map mref (registry s))].
Definition ids_of (cbs : list cbref) : list nat := flat_map (fun c => match snd c with Some i => [i] | None => [] end) cbs.
Definition deref_i (w : world) (r : wref) : option objref := if is_live (w_s w) r then Some r else None.
Definition call_method_i (w : world) (f : fref) (o : objref) (_ : unit) : world :=
  mkW (precompute (w_s w) o) (w_dflt w) (w_log w ++ [EvPre o]).
Definition call_func_i (w : world) (f : fref) (_ : unit) : world := w.
Definition logw (w : world) (l : list ev) : world := mkW (w_s w) (w_dflt w) (w_log w ++ l).
(* `events.trigger(name)()`: the translated trigger, then - when it hands back a Callables - the translated Callables.__call__, whose
   flushed list is stored back as the registry *)
Definition fire_i (w : world) (name : string) : world :=
  let w1 := logw w [EvTrigger name] in
  match gen_trigger (events_of (w_s w1)) [] name with
  | CCallables cbs => let r := gen_callables_call world unit deref_i call_method_i call_func_i w1 cbs tt in
                      mkW (with_registry (w_s (fst r)) (ids_of (snd r))) (w_dflt (fst r)) (w_log (fst r))
  | _ => w1
  end.

Lemma precompute_live s id j : is_live (precompute s id) j = is_live s j.
Proof. apply is_live_skel. destruct (precompute_frame s id) as [[_ [_ [_ [_ [_ [H _]]]]]] _]. exact H. Qed.
Lemma filter_live_precompute s id l : filter (is_live (precompute s id)) l = filter (is_live s) l.
Proof. apply filter_ext. intro j. apply precompute_live. Qed.

Lemma round_fold reg : forall w,
  fold_left (cb_invoke world unit deref_i call_method_i call_func_i tt) (map mref reg) w
  = mkW (round_state (w_s w) reg) (w_dflt w) (w_log w ++ map EvPre (filter (is_live (w_s w)) reg)).
Proof. induction reg as [|id r IH]; intros [s d l]; simpl.
  - now rewrite app_nil_r.
  - unfold cb_invoke at 2, mref at 2, deref_i. cbn [fst snd w_s]. destruct (is_live s id) eqn:El.
    + rewrite IH. unfold call_method_i. cbn [w_s w_dflt w_log map]. rewrite filter_live_precompute, <- app_assoc. reflexivity.
    + rewrite IH. reflexivity. Qed.

Lemma ids_of_filter (p : nat -> bool) reg : ids_of (filter (fun c => match snd c with Some o => p o | None => true end) (map mref reg)) = filter p reg.
Proof. induction reg as [|id r IH]; simpl; [reflexivity|]. destruct (p id); simpl; now rewrite IH. Qed.

Lemma fire_tl w : fire_i w "tensorlib_changed"
  = mkW (fst (call_round (w_s w))) (w_dflt w) (w_log w ++ EvTrigger "tensorlib_changed" :: snd (call_round (w_s w))).
Proof. destruct w as [s d l]. unfold fire_i. cbv zeta. rewrite tie_trigger. cbn [logw w_s w_dflt w_log mem_str existsb events_of assoc String.eqb Ascii.eqb Bool.eqb].
  rewrite tie_callables_call, round_fold. cbn [fst snd w_s w_dflt w_log]. unfold call_round. cbn [fst snd].
  unfold logw. cbn [w_s w_dflt w_log].
  assert (R : registry (round_state s (registry s)) = registry s) by exact (proj1 (proj2 (round_frame s (registry s)))).
  rewrite R. f_equal.
  - f_equal. rewrite <- (ids_of_filter (is_live (round_state s (registry s))) (registry s)). f_equal. apply filter_ext.
    intros [f [o|]]; unfold cb_alive, deref_i; cbn [snd w_s]; [|reflexivity]. destruct (is_live (round_state s (registry s)) o); reflexivity.
  - rewrite <- app_assoc. reflexivity. Qed.
Lemma fire_other w name : String.eqb name "tensorlib_changed" = false -> fire_i w name = logw w [EvTrigger name].
Proof. intro H. unfold fire_i. cbv zeta. rewrite tie_trigger. unfold events_of. cbn [mem_str existsb assoc]. rewrite H. reflexivity. Qed.

Local Notation GI f := (f world tlib (oname * nat)%type bname oname lower_i getb_i newb_i bname_i bprec_i binst_i geto_i newo_i oname_i oinst_i oneq_i
                          cur_i dflt_i set_cur_i set_dflt_i fire_i setup_i).

(* the argument set_backend is given for an optimizer of the hand model: its name as a text, or the current optimizer object *)
Definition sb_call (b : bname) (p : prec) (o : oarg) (w : world) : result world :=
  match o with
  | OByName n => GI gen_set_backend_str_str_str (bstr b) (ostr n) (pstr p) false w
  | OCurrent => GI gen_set_backend_str_obj_str (bstr b) (cur_opt (w_s w)) (pstr p) false w
  end.

Lemma bname_eqb_str a b : String.eqb (bstr a) (bstr b) = bname_eqb a b.
Proof. destruct a, b; reflexivity. Qed.
Lemma prec_eqb_str a b : String.eqb (pstr a) (pstr b) = prec_eqb a b.
Proof. destruct a, b; reflexivity. Qed.

Definition commit_i := commit world tlib (oname * nat)%type bname_i bprec_i oneq_i cur_i dflt_i set_cur_i set_dflt_i fire_i setup_i.
Lemma spec_byname b p n w :
  GI set_backend_spec (BStr tlib (bstr b)) (OStr (oname * nat) (ostr n)) (Some (pstr p)) false w
  = Ok (commit_i (b, p) (snd (newo_i w n)) false (fst (newo_i w n))).
Proof. destruct b, p, n; reflexivity. Qed.
Lemma spec_current b p w :
  GI set_backend_spec (BStr tlib (bstr b)) (OObj (oname * nat) (cur_opt (w_s w))) (Some (pstr p)) false w
  = Ok (commit_i (b, p) (cur_opt (w_s w)) false w).
Proof. unfold commit_i, set_backend_spec, bind, optimizer_step, bad_name_o, oname_i, oinst_i. destruct (cur_opt (w_s w)) as [[|] k]; destruct b, p; reflexivity. Qed.

Lemma commit_model b p no s nxt d l :
  commit_i (b, p) no false (mkW (with_opt s (cur_tl s) (cur_opt s) nxt) d l)
  = (let w1 := mkW (with_opt s (b, p) no nxt) d l in
     let w2 := if tl_changed s b p then fire_i w1 "tensorlib_changed" else w1 in
     if oneq_i (cur_opt s) no then fire_i w2 "optimizer_changed" else w2).
Proof. unfold commit_i, commit, tl_differs, setup_i, cur_i, set_cur_i, bname_i, bprec_i, tl_changed. cbn [fst snd w_s w_dflt w_log with_opt cur_tl cur_opt next_opt].
  rewrite bname_eqb_str, prec_eqb_str. reflexivity. Qed.

(* the translated set_backend never fails on these arguments, and does what the model says to state and log *)
Lemma sb_call_model b p o s d l :
  sb_call b p o (mkW s d l)
  = Ok (let '(nopt, nxt) := new_optimizer s o in
        let w1 := mkW (with_opt s (b, p) nopt nxt) d l in
        let w2 := if tl_changed s b p then fire_i w1 "tensorlib_changed" else w1 in
        if opt_changed s o then fire_i w2 "optimizer_changed" else w2).
Proof. unfold sb_call. destruct o as [n|].
  - rewrite tie_set_backend_str_str_str, spec_byname. unfold newo_i. cbn [fst snd w_s w_dflt w_log]. rewrite commit_model. reflexivity.
  - rewrite tie_set_backend_str_obj_str, spec_current. cbn [w_s].
    replace s with (with_opt s (cur_tl s) (cur_opt s) (next_opt s)) at 2 by (destruct s; reflexivity).
    rewrite commit_model. reflexivity.
Qed.

(* what the decorated function does when python calls it: the register wrapper around the translated body *)
Definition run_sb (b : bname) (p : prec) (o : oarg) (w : world) (_ : unit) : world * unit :=
  (match sb_call b p o w with Ok w' => w' | Err _ => w end, tt).

(* THE TIE of set_backend: on every state of the hand model, every default slot and every log, the translated
   `@events.register('change_backend') def set_backend(..)` - with `trigger(name)()` being the translated trigger followed by the translated
   Callables.__call__ on the registry - produces exactly the state and the events of Events.set_backend *)
Theorem tie_set_backend_model b p o s d l :
  gen_register_wrapper world unit unit fire_i (run_sb b p o) gen_set_backend_event (mkW s d l) tt
  = (mkW (fst (set_backend s b p o)) d (l ++ snd (set_backend s b p o)), tt).
Proof. rewrite tie_register_wrapper. cbv zeta. unfold gen_set_backend_event.
  rewrite (fire_other _ "change_backend::before") by reflexivity. unfold run_sb, logw. cbn [w_s w_dflt w_log fst snd].
  rewrite sb_call_model. unfold set_backend. destruct (new_optimizer s o) as [nopt nxt] eqn:En.
  destruct (tl_changed s b p); destruct (opt_changed s o);
    repeat (rewrite fire_tl || (rewrite fire_other by reflexivity)); unfold logw; cbn [w_s w_dflt w_log fst snd];
    try (destruct (call_round _) as [s2 l2] eqn:Ec; cbn [fst snd]);
    f_equal; f_equal; cbn [app]; repeat rewrite <- app_assoc; reflexivity. Qed.

(* subscribing `_precompute` of object id to 'tensorlib_changed' is the model's subscribe; no other event is touched *)
Theorem tie_subscribe_model s id :
  entry (gen_subscribe_method (events_of s) "tensorlib_changed" 0 id) "tensorlib_changed" = map mref (registry (subscribe s id)).
Proof. rewrite tie_subscribe_method. cbn. unfold mref at 2. now rewrite map_app. Qed.

(* the first subscription of an event creates its entry *)
Example subscribe_new_event : gen_subscribe_method [] "tensorlib_changed" 0 7 = [("tensorlib_changed", [(0, Some 7)])].
Proof. reflexivity. Qed.

(* non-vacuity of the registry theorems: a round over [method of object 0; method of object 1 (collected); a plain function 5; method of object 2
   (collected DURING the round, by the callback of object 0)].  The world: the list of calls made so far; object 2 dies once anything was called *)
Example round_example :
  gen_callables_call (list (nat * option nat)) unit
    (fun w r => match r with 1 => None | 2 => match w with [] => Some 2 | _ => None end | _ => Some r end)
    (fun w f o _ => w ++ [(f, Some o)]) (fun w f _ => w ++ [(f, None)])
    [] [(9, Some 0); (9, Some 1); (5, None); (9, Some 2)] tt
  = ([(9, Some 0); (5, None)], [(9, Some 0); (5, None)]).
Proof. vm_compute. reflexivity. Qed.

(* non-vacuity of the set_backend theorems: a numpy/64b world with one live subscriber, switched to jax/32b by name with a named optimizer *)
Definition demo_cls : cfacts :=
  {| cf_name := "demo"; cf_has_pre := true; cf_cached := ["x"]; cf_refreshed := ["x"]; cf_read := ["x"]; cf_subscribes := true; cf_conditional := false;
     cf_members := []; cf_members_before := true; cf_pre_members := []; cf_hazards := []; cf_pre_guarded := false; cf_unguarded_eval := [];
     cf_shape_attrs := []; cf_shape_refreshed := [] |}.
Definition demo_state : state :=
  {| cur_tl := (Numpy, B64); cur_opt := (Scipy, 0); next_opt := 1; next_tree := 1; heap := [new_obj demo_cls 0 true 0 []]; registry := [0] |}.
Example set_backend_example :
  w_log (fst (gen_register_wrapper world unit unit fire_i (run_sb Jax B32 (OByName Minuit)) gen_set_backend_event
                (mkW demo_state ((Numpy, B64), (Scipy, 0)) []) tt))
  = [EvTrigger "change_backend::before"; EvTrigger "tensorlib_changed"; EvPre 0; EvTrigger "optimizer_changed"; EvTrigger "change_backend::after"].
Proof. vm_compute. reflexivity. Qed.
(* ... and with the `default` flag: the default slot is compared after the swap, its events come first, it ends up equal to the current slot *)
Example set_backend_default_example :
  let w := mkW demo_state ((Numpy, B64), (Scipy, 0)) [] in
  match sb_call Jax B32 (OByName Minuit) w, GI gen_set_backend_str_str_str "jax" "minuit" "32b" true w with
  | Ok a, Ok b => w_log a = [EvTrigger "tensorlib_changed"; EvPre 0; EvTrigger "optimizer_changed"]
                  /\ w_log b = [EvTrigger "default_tensorlib_changed"; EvTrigger "default_optimizer_changed"; EvTrigger "tensorlib_changed"; EvPre 0;
                                EvTrigger "optimizer_changed"]
                  /\ w_dflt b = ((Jax, B32), (Minuit, 1)) /\ w_dflt a = ((Numpy, B64), (Scipy, 0))
  | _, _ => False
  end.
Proof. vm_compute. repeat split; reflexivity. Qed.
