(* readxml.__FILECACHE__ as a state machine.
   state  = file system (export directory -> XML documents, ROOT file content, stat signature)
          + cache (resolved path -> opened file content, signature recorded when it was opened)
   ops    = Export dir x c | Import dir | Clear | Remove dir
   The cache logic is import_root_histogram's, literally:
       signature = (st_mtime_ns, st_size, st_ino) or None on OSError
       cached = filecache.get(fullpath)
       if cached is None or (len(cached) > 2 and cached[2] != signature):  open, store (f, keys, signature)
       else: reuse
   Signatures are abstract stamps; the one assumption about the operating system is that a file that is written
   gets a signature different from every earlier one of that path (modelled by a clock). *)
From Coq Require Import Bool Arith Lia String List.
Require Import PV.Json.
Import ListNotations.
Local Open Scope list_scope.

Section Cache.
Variables (X C R : Type).
Variable rd : X -> C -> R.         (* value-level parse of the XML documents against an opened ROOT file *)
Variable nofile : R.               (* FileNotFoundError *)

Record fentry := mkF { f_xml : X; f_root : C; f_sig : nat }.
Inductive centry := CNew (c : C) (sg : option nat) | CLegacy (c : C).   (* CLegacy: a 2-tuple put there by a caller *)
Record state := mkSt { st_fs : list (string * fentry); st_cache : list (string * centry); st_clock : nat }.
Inductive op := Export (dir : string) (x : X) (c : C) | Import (dir : string) | Clear | Remove (dir : string).

Definition osig_eqb (a b : option nat) : bool :=
  match a, b with Some x, Some y => Nat.eqb x y | None, None => true | _, _ => false end.
Definition sig_of (st : state) (dir : string) : option nat := option_map f_sig (assoc dir (st_fs st)).
Definition reopen (st : state) (dir : string) : option (C * list (string * centry)) :=
  match assoc dir (st_fs st) with
  | Some fe => Some (f_root fe, (dir, CNew (f_root fe) (sig_of st dir)) :: st_cache st)
  | None => None       (* uproot.open raises *)
  end.
(* current code *)
Definition open_file (st : state) (dir : string) : option (C * list (string * centry)) :=
  match assoc dir (st_cache st) with
  | None => reopen st dir
  | Some (CNew c sg) => if osig_eqb sg (sig_of st dir) then Some (c, st_cache st) else reopen st dir
  | Some (CLegacy c) => Some (c, st_cache st)
  end.
(* the pinned tree: `if fullpath not in filecache` *)
Definition open_file_old (st : state) (dir : string) : option (C * list (string * centry)) :=
  match assoc dir (st_cache st) with
  | None => reopen st dir
  | Some (CNew c _) => Some (c, st_cache st)
  | Some (CLegacy c) => Some (c, st_cache st)
  end.

Section Run.
Variable opn : state -> string -> option (C * list (string * centry)).

Definition import (st : state) (dir : string) : R * state :=
  match assoc dir (st_fs st) with
  | None => (nofile, st)                                   (* the XML documents are read from disk on every parse *)
  | Some fe => match opn st dir with
               | Some (c, cache') => (rd (f_xml fe) c, mkSt (st_fs st) cache' (st_clock st))
               | None => (nofile, st)
               end
  end.
Definition fs_remove (dir : string) (fs : list (string * fentry)) := filter (fun kv => negb (String.eqb dir (fst kv))) fs.
Definition step (st : state) (o : op) : state :=
  match o with
  | Export dir x c => mkSt ((dir, mkF x c (st_clock st)) :: st_fs st) (st_cache st) (S (st_clock st))
  | Import dir => snd (import st dir)
  | Clear => mkSt (st_fs st) [] (st_clock st)
  | Remove dir => mkSt (fs_remove dir (st_fs st)) (st_cache st) (st_clock st)
  end.
Definition run (ops : list op) (st : state) : state := fold_left step ops st.
End Run.

(* what a parse without any cache returns *)
Definition fresh (st : state) (dir : string) : R :=
  match assoc dir (st_fs st) with Some fe => rd (f_xml fe) (f_root fe) | None => nofile end.

Definition inv (st : state) : Prop :=
  (forall dir fe, assoc dir (st_fs st) = Some fe -> f_sig fe < st_clock st) /\
  (forall dir e, assoc dir (st_cache st) = Some e ->
     exists c s, e = CNew c (Some s) /\ s < st_clock st /\
                 forall fe, assoc dir (st_fs st) = Some fe -> f_sig fe = s -> f_root fe = c).

Lemma assoc_remove dir d fs : assoc dir (fs_remove d fs) = if String.eqb d dir then None else assoc dir fs.
Proof. unfold fs_remove. induction fs as [|[k v] r IH]; simpl; [now destruct (String.eqb d dir)|].
  destruct (String.eqb_spec d k) as [E|E]; simpl.
  - subst k. rewrite IH. destruct (String.eqb_spec d dir) as [E2|E2]; auto.
    destruct (String.eqb_spec dir d); [congruence|auto].
  - rewrite IH. destruct (String.eqb_spec dir k) as [E3|E3]; auto. subst k.
    destruct (String.eqb_spec d dir); [congruence|auto]. Qed.

Lemma open_file_inv st dir c cache' : inv st -> open_file st dir = Some (c, cache') ->
  inv (mkSt (st_fs st) cache' (st_clock st)) /\ forall fe, assoc dir (st_fs st) = Some fe -> c = f_root fe.
Proof.
  intros [I1 I2] H. unfold open_file in H.
  assert (Hre : reopen st dir = Some (c, cache') ->
          inv (mkSt (st_fs st) cache' (st_clock st)) /\ forall fe, assoc dir (st_fs st) = Some fe -> c = f_root fe).
  { unfold reopen, sig_of. destruct (assoc dir (st_fs st)) as [fe|] eqn:Ef; [|discriminate]. intros Hr. inversion Hr; subst; clear Hr.
    split; [|intros fe' Hfe; congruence]. split; simpl; [exact I1|].
    intros d e. destruct (String.eqb_spec d dir) as [E|E].
    - subst d. intros He. inversion He; subst. exists (f_root fe), (f_sig fe). split; [reflexivity|]. split; [eapply I1; eauto|].
      intros fe' Hfe _. congruence.
    - apply I2. }
  destruct (assoc dir (st_cache st)) as [[c0 sg|c0]|] eqn:Ec; [| |auto].
  - destruct (I2 _ _ Ec) as [c1 [s [E1 [E2 E3]]]]. inversion E1; subst c1 sg.
    destruct (osig_eqb (Some s) (sig_of st dir)) eqn:Es; [|auto].
    inversion H; subst; clear H. split; [split; assumption|].
    intros fe Hfe. unfold sig_of in Es. rewrite Hfe in Es. simpl in Es. apply Nat.eqb_eq in Es. symmetry. apply E3; auto.
  - destruct (I2 _ _ Ec) as [c1 [s [E1 _]]]. discriminate.
Qed.

Lemma step_inv st o : inv st -> inv (step open_file st o).
Proof.
  intros I. pose proof I as [I1 I2]. destruct o as [d x c|d| |d]; simpl.
  - split; simpl.
    + intros dir fe. destruct (String.eqb_spec dir d); [intros H; inversion H; subst; simpl; lia|]. intros H. apply I1 in H. lia.
    + intros dir e He. destruct (I2 _ _ He) as [c0 [s [E1 [E2 E3]]]]. exists c0, s. split; [auto|]. split; [lia|].
      intros fe. destruct (String.eqb_spec dir d); [intros H; inversion H; subst; simpl; lia|]. apply E3.
  - unfold import. destruct (assoc d (st_fs st)) as [fe|]; [|exact I].
    destruct (open_file st d) as [[c cache']|] eqn:Eo; [|exact I]. simpl. now apply (open_file_inv st d c cache' I).
  - split; simpl; [exact I1|]. intros dir e H. discriminate.
  - split; simpl.
    + intros dir fe. rewrite assoc_remove. destruct (String.eqb d dir); [discriminate|]. apply I1.
    + intros dir e He. destruct (I2 _ _ He) as [c0 [s [E1 [E2 E3]]]]. exists c0, s. split; [auto|]. split; [auto|].
      intros fe. rewrite assoc_remove. destruct (String.eqb d dir); [discriminate|]. apply E3.
Qed.

Lemma run_inv ops : forall st, inv st -> inv (run open_file ops st).
Proof. induction ops as [|o ops IH]; intros st I; simpl; auto. apply IH. now apply step_inv. Qed.

Lemma import_fresh st dir : inv st -> fst (import open_file st dir) = fresh st dir.
Proof.
  intros I. unfold import, fresh. destruct (assoc dir (st_fs st)) as [fe|] eqn:Ef; [|reflexivity].
  destruct (open_file st dir) as [[c cache']|] eqn:Eo.
  - simpl. destruct (open_file_inv _ _ _ _ I Eo) as [_ Hc]. now rewrite (Hc fe Ef).
  - exfalso. unfold open_file, reopen in Eo. rewrite Ef in Eo.
    destruct (assoc dir (st_cache st)) as [[c0 sg|c0]|]; try discriminate. destruct (osig_eqb sg (sig_of st dir)); discriminate.
Qed.

(* after every history of exports, imports, cache clears and removals, a parse returns what is on disk now *)
Theorem import_reads_current_file : forall ops st0 dir, inv st0 ->
  fst (import open_file (run open_file ops st0) dir) = fresh (run open_file ops st0) dir.
Proof. intros. apply import_fresh. now apply run_inv. Qed.

Definition init (fs : list (string * fentry)) (clock : nat) : state := mkSt fs [] clock.
Lemma init_inv fs clock : (forall dir fe, assoc dir fs = Some fe -> f_sig fe < clock) -> inv (init fs clock).
Proof. intros H. split; simpl; [exact H|]. intros dir e He. discriminate. Qed.

(* the file on disk is the one of the last export *)
Definition touches (dir : string) (o : op) : bool :=
  match o with Export d _ _ => String.eqb dir d | Remove d => String.eqb d dir | _ => false end.
Lemma step_fs opn st o dir : touches dir o = false -> assoc dir (st_fs (step opn st o)) = assoc dir (st_fs st).
Proof. destruct o as [d x c|d| |d]; simpl; intros H.
  - now rewrite H.
  - unfold import. destruct (assoc d (st_fs st)); [|reflexivity]. destruct (opn st d) as [[c cache']|]; reflexivity.
  - reflexivity.
  - rewrite assoc_remove. now rewrite H. Qed.
Lemma run_fs opn ops : forall st dir, forallb (fun o => negb (touches dir o)) ops = true ->
  assoc dir (st_fs (run opn ops st)) = assoc dir (st_fs st).
Proof. induction ops as [|o ops IH]; intros st dir H; simpl in *; auto. apply andb_true_iff in H. destruct H as [H1 H2].
  rewrite (IH _ _ H2). apply step_fs. now destruct (touches dir o). Qed.

Theorem import_after_export : forall ops1 ops2 st0 dir x c, inv st0 ->
  forallb (fun o => negb (touches dir o)) ops2 = true ->
  fst (import open_file (run open_file (ops1 ++ Export dir x c :: ops2) st0) dir) = rd x c.
Proof.
  intros ops1 ops2 st0 dir x c I H. rewrite import_reads_current_file by assumption.
  unfold fresh.
  assert (E : assoc dir (st_fs (run open_file (ops1 ++ Export dir x c :: ops2) st0)) = Some (mkF x c (st_clock (run open_file ops1 st0)))).
  { unfold run. rewrite fold_left_app. cbn [fold_left].
    apply eq_trans with (assoc dir (st_fs (step open_file (fold_left (step open_file) ops1 st0) (Export dir x c)))).
    - apply (run_fs open_file ops2 _ dir H).
    - simpl. now rewrite String.eqb_refl. }
  rewrite E. reflexivity. Qed.

End Cache.

(* ---- the pinned tree's cache (keyed by path only) does not have the property ---- *)
Definition demo_ops : list (op unit nat) := [Export unit nat "d" tt 5; Import unit nat "d"; Export unit nat "d" tt 7].
Theorem import_reads_current_file_refuted_old :
  exists ops dir, let st := run unit nat nat (fun _ c => c) 0 (open_file_old unit nat) ops (init unit nat [] 0) in
    fst (import unit nat nat (fun _ c => c) 0 (open_file_old unit nat) st dir) <> fresh unit nat nat (fun _ c => c) 0 st dir.
Proof. exists demo_ops, "d"%string. vm_compute. discriminate. Qed.
(* the same history on the current logic returns the second export *)
Example import_current_demo :
  let st := run unit nat nat (fun _ c => c) 0 (open_file unit nat) demo_ops (init unit nat [] 0) in
  fst (import unit nat nat (fun _ c => c) 0 (open_file unit nat) st "d"%string) = 7.
Proof. vm_compute. reflexivity. Qed.
