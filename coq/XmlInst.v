(* Instances of the generic round-trip theorems at Qc (the executed model) and R, witnesses, non-vacuity examples,
   and the printers used by the correspondence run. *)
From Coq Require Import Bool Arith Lia String Ascii ZArith QArith Qcanon Reals Ring Field List.
Require Import PV.Num PV.Sort PV.Json PV.Xml PV.XmlThms PV.XmlCache.
Import ListNotations.
Local Open Scope string_scope.
Local Open Scope list_scope.

Lemma Qc_eqb_spec : forall a b : V QcNum, neqb QcNum a b = true <-> a = b.
Proof. intros a b. simpl. split; [apply Qc_eq_bool_correct|]. intros ->. unfold Qc_eq_bool. destruct (Qc_eq_dec b b); congruence. Qed.
Lemma R_eqb_spec : forall a b : V RNum, neqb RNum a b = true <-> a = b.
Proof. intros a b. simpl. unfold reqb. destruct (Req_EM_T a b); split; auto; discriminate. Qed.

Definition roundtrip_model_Qc := roundtrip_model QcNum Qcft Qc_eqb_spec.
Definition roundtrip_model_R := roundtrip_model RNum Rfield R_eqb_spec.
Definition roundtrip_likelihood_partial_Qc := roundtrip_likelihood_partial QcNum Qcft Qc_eqb_spec.
Definition roundtrip_likelihood_partial_R := roundtrip_likelihood_partial RNum Rfield R_eqb_spec.
Definition normfactor_recovered_Qc := normfactor_recovered QcNum Qcft Qc_eqb_spec.
Definition normfactor_recovered_R := normfactor_recovered RNum Rfield R_eqb_spec.
Definition expected_channel_canonical_Qc := expected_channel_canonical QcNum Qc_eqb_spec.
Definition expected_channel_canonical_R := expected_channel_canonical RNum R_eqb_spec.

(* ---------- a concrete workspace: lumi 2 +- 1/5, every expressible modifier type, two measurements ---------- *)
Definition q (n : Z) (d : positive) : Qc := mkq n d.
Definition WS := @mkWs QcNum. Definition CH := @mkChannel QcNum. Definition SA := @mkSample QcNum. Definition MO := @mkMod QcNum.
Definition PA := @mkParam QcNum. Definition ME := @mkMeas QcNum.
Definition DH := @DHisto QcNum. Definition DN := @DNormsys QcNum. Definition DNF := @DNormfactor QcNum. Definition DSS := @DShapesys QcNum.
Definition DST := @DStaterror QcNum. Definition DSF := @DShapefactor QcNum. Definition DL := @DLumi QcNum.
Definition demo_ws : workspace QcNum :=
  WS
    [CH "ch1"
       [SA "sig" [q 5 1; q 15 2] [MO "mu" DNF; MO "lumi" DL];
        SA "bkg" [q 50 1; q 0 1]
          [MO "st" (DST [q 3 1; q 1 1]); MO "ss" (DSS [q 2 1; q 1 1]);
           MO "ns" (DN (q 9 10) (q 11 10)); MO "hs" (DH [q 45 1; q 1 10] [q 55 1; q 1 1]);
           MO "sf" DSF]]]
    [("ch1", [q 52 1; q 8 1])]
    [ME "m1" "mu" [PA "lumi" (Some [q 2 1]) (Some [(q 1 1, q 3 1)]) (Some [q 2 1]) (Some [q 1 5]) None;
                       PA "mu" (Some [q 3 2]) (Some [(q 0 1, q 7 1)]) None None None;
                       PA "ns" None None None None (Some true)];
     ME "m2" "mu" [PA "lumi" (Some [q 2 1]) (Some [(q 1 1, q 3 1)]) (Some [q 2 1]) (Some [q 1 5]) (Some true);
                       PA "mu" None None None None (Some true)]].

Example demo_guards : guardsb QcNum demo_ws = true.
Proof. vm_compute. reflexivity. Qed.
Lemma guardsb_sound ws : guardsb QcNum ws = true ->
  (exists x f, write QcNum ws = inl (x, f)) /\ w_obs QcNum ws <> [] /\ stat_ok QcNum ws /\ names_ok QcNum ws.
Proof. unfold guardsb. intros H. apply andb_true_iff in H. destruct H as [H H4]. apply andb_true_iff in H. destruct H as [H H3].
  apply andb_true_iff in H. destruct H as [H1 H2]. split; [|split; [|split]].
  - apply is_ok_inv in H1. destruct H1 as [[x f] E]. eauto.
  - destruct (w_obs QcNum ws); [discriminate|discriminate].
  - now apply stat_okb_sound.
  - now apply names_okb_sound. Qed.
Example roundtrip_nonvacuous :
  (exists x f, write QcNum demo_ws = inl (x, f)) /\ w_obs QcNum demo_ws <> [] /\ stat_ok QcNum demo_ws /\ names_ok QcNum demo_ws.
Proof. apply guardsb_sound. exact demo_guards. Qed.

Definition sigmas_of (ws : workspace QcNum) : list Qc := map (fun m => snd (lumi_cfg QcNum (me_params QcNum m) (1%Qc, 0%Qc))) (w_meas QcNum ws).
Definition sigma_lost (rel : bool) (ws : workspace QcNum) : bool :=
  match write_gen QcNum rel ws with
  | inl (x, f) => match read QcNum x f with
                  | inl ws' => negb (olist_eqb (neqb QcNum) (Some (sigmas_of ws')) (Some (sigmas_of ws)))
                  | inr _ => false end
  | inr _ => false end.

(* the pinned tree wrote LumiRelErr = sigmas[0] (absolute): the round trip does not recover sigma when Lumi <> 1 *)
Example sigma_lost_old : sigma_lost false demo_ws = true.
Proof. vm_compute. reflexivity. Qed.
Theorem roundtrip_lumi_refuted_old :
  exists ws x f ws', write_gen QcNum false ws = inl (x, f) /\ w_obs QcNum ws <> [] /\ stat_ok QcNum ws /\ names_ok QcNum ws /\
                     read QcNum x f = inl ws' /\ sigmas_of ws' <> sigmas_of ws.
Proof.
  exists demo_ws. pose proof sigma_lost_old as H. unfold sigma_lost in H.
  destruct (write_gen QcNum false demo_ws) as [[x f]|]; [|discriminate]. exists x, f.
  destruct (read QcNum x f) as [ws'|]; [|discriminate]. exists ws'.
  destruct roundtrip_nonvacuous as [_ [A [B C]]]. repeat split; auto.
  apply (olist_neq QcNum Qc_eqb_spec). now apply negb_true_iff in H.
Qed.
(* ... and the current formula does recover it on the same workspace (sigma 1/5 at lumi 2) *)
Example roundtrip_lumi_demo : sigma_lost true demo_ws = false.
Proof. vm_compute. reflexivity. Qed.

(* ---------- printers ---------- *)
Inductive o := OS (s : string) | OQ (n : Z) (d : positive) | OL (l : list o) | ON | OB (b : bool) | OE (e : err).
Definition sq (x : Qc) : o := OQ (Qnum x) (Qden x).
Definition sql (l : list Qc) : o := OL (map sq l).
Definition sopt {A} (f : A -> o) (x : option A) : o := match x with Some a => f a | None => ON end.
Definition show_mod (m : modifier QcNum) : o :=
  OL [OS (m_name QcNum m); OS (mtype QcNum (m_data QcNum m));
      match m_data QcNum m with
      | DHisto lo hi => OL [sql lo; sql hi] | DNormsys lo hi => OL [sq lo; sq hi]
      | DShapesys d => sql d | DStaterror d => sql d | _ => ON end].
Definition show_sample (s : sample QcNum) : o := OL [OS (s_name QcNum s); sql (s_data QcNum s); OL (map show_mod (s_mods QcNum s))].
Definition show_channel (c : channel QcNum) : o := OL [OS (c_name QcNum c); OL (map show_sample (c_samples QcNum c))].
Definition show_param (p : param QcNum) : o :=
  OL [OS (p_name QcNum p); sopt sql (p_inits QcNum p); sopt (fun l => OL (map (fun b => OL [sq (fst b); sq (snd b)]) l)) (p_bounds QcNum p);
      sopt sql (p_auxdata QcNum p); sopt sql (p_sigmas QcNum p); sopt OB (p_fixed QcNum p)].
Definition show_meas (m : measurement QcNum) : o := OL [OS (me_name QcNum m); OS (me_poi QcNum m); OL (map show_param (me_params QcNum m))].
Definition show_ws (w : workspace QcNum) : o :=
  OL [OL (map show_channel (w_channels QcNum w)); OL (map (fun ob => OL [OS (fst ob); sql (snd ob)]) (w_obs QcNum w));
      OL (map show_meas (w_meas QcNum w))].
Definition show_res (r : res (workspace QcNum)) : o := match r with inl w => OL [OS "ok"; show_ws w] | inr e => OL [OS "err"; OE e] end.
Definition show_xmeas (m : xmeas QcNum) : o :=
  OL [OS (xm_name QcNum m); sq (xm_lumi QcNum m); sq (xm_relerr QcNum m); OS (xm_poi QcNum m); OL (map OS (xm_const QcNum m))].

(* one export + import: the XML-level measurement attributes and file content (diagnostics), and the re-imported workspace *)
Definition cycle (ws : workspace QcNum) : o :=
  match write QcNum ws with
  | inr e => OL [OS "write-err"; OE e]
  | inl (x, f) => OL [OS "written"; OL (map show_xmeas (x_meas QcNum x)); OL (map (fun kv => OL [OS (fst kv); sql (snd kv)]) f);
                      show_res (read QcNum x f)]
  end.

(* histories *)
Definition xop := op (xdoc QcNum) (rootfile QcNum).
Inductive hop := HExport (dir : string) (ws : workspace QcNum) | HImport (dir : string) | HClear | HRemove (dir : string).
Definition rdq (x : xdoc QcNum) (c : rootfile QcNum) : res (workspace QcNum) := read QcNum x c.
Definition nofileq : res (workspace QcNum) := inr ENoFile.
Fixpoint history (opn : state (xdoc QcNum) (rootfile QcNum) -> string -> option (rootfile QcNum * list (string * centry (rootfile QcNum))))
         (ops : list hop) (st : state (xdoc QcNum) (rootfile QcNum)) : list o :=
  match ops with
  | [] => []
  | HExport d ws :: r =>
      match write QcNum ws with
      | inl (x, f) => OS "exported" :: history opn r (step _ _ _ rdq nofileq opn st (Export _ _ d x f))
      | inr e => OL [OS "write-err"; OE e] :: history opn r st
      end
  | HImport d :: r => show_res (fst (import _ _ _ rdq nofileq opn st d)) :: history opn r (step _ _ _ rdq nofileq opn st (Import _ _ d))
  | HClear :: r => OS "cleared" :: history opn r (step _ _ _ rdq nofileq opn st (Clear _ _))
  | HRemove d :: r => OS "removed" :: history opn r (step _ _ _ rdq nofileq opn st (Remove _ _ d))
  end.
Definition run_history (ops : list hop) : list o := history (open_file _ _) ops (init _ _ [] 0).
(* the reference: every import equals a parse of what is on disk, i.e. of the last export to that directory *)
Fixpoint last_export (ops : list hop) (d : string) (acc : option (workspace QcNum)) : option (workspace QcNum) :=
  match ops with
  | [] => acc
  | HExport d' ws :: r => last_export r d (if String.eqb d d' then (match write QcNum ws with inl _ => Some ws | inr _ => acc end) else acc)
  | HRemove d' :: r => last_export r d (if String.eqb d d' then None else acc)
  | _ :: r => last_export r d acc
  end.
