(* Insertion sort by a key with a boolean total order; sorted permutations with distinct keys are equal.
   Instances: strings (String.leb = Python's code-point order on ASCII) and pairs of strings. *)
From Coq Require Import Bool Arith Lia Permutation Sorting.Sorted String Ascii NArith List.
Import ListNotations.
Local Open Scope list_scope.

Section Sort.
  Variable K : Type.
  Variable leb : K -> K -> bool.
  Hypothesis leb_total : forall a b, leb a b = true \/ leb b a = true.
  Hypothesis leb_trans : forall a b c, leb a b = true -> leb b c = true -> leb a c = true.
  Hypothesis leb_antisym : forall a b, leb a b = true -> leb b a = true -> a = b.
  Variable A : Type.
  Variable key : A -> K.

  Definition le (a b : A) : Prop := leb (key a) (key b) = true.

  Fixpoint insert (x : A) (l : list A) : list A :=
    match l with
    | [] => [x]
    | y :: t => if leb (key x) (key y) then x :: l else y :: insert x t
    end.
  Definition isort (l : list A) : list A := fold_right insert [] l.

  Lemma insert_perm x l : Permutation (insert x l) (x :: l).
  Proof. induction l as [|y t IH]; simpl; auto. destruct (leb (key x) (key y)); auto.
    rewrite IH. apply perm_swap. Qed.
  Lemma isort_perm l : Permutation (isort l) l.
  Proof. induction l as [|x t IH]; simpl; auto. rewrite insert_perm. auto. Qed.

  Lemma insert_sorted x l : StronglySorted le l -> StronglySorted le (insert x l).
  Proof.
    induction l as [|y t IH]; simpl; intros H.
    - repeat constructor.
    - inversion H as [|? ? Ht Hy]; subst.
      destruct (leb (key x) (key y)) eqn:E.
      + constructor; auto. constructor; auto.
        eapply Forall_impl; [|exact Hy]. intros a Ha. unfold le in *. eapply leb_trans; eauto.
      + constructor; auto.
        assert (Hyx : leb (key y) (key x) = true) by (destruct (leb_total (key x) (key y)); congruence).
        eapply Permutation_Forall; [symmetry; apply insert_perm|]. constructor; auto.
  Qed.
  Lemma isort_sorted l : StronglySorted le (isort l).
  Proof. induction l; simpl; [constructor|]. now apply insert_sorted. Qed.

  Lemma sorted_perm_eq l l' :
    NoDup (map key l) -> StronglySorted le l -> StronglySorted le l' -> Permutation l l' -> l = l'.
  Proof.
    revert l'. induction l as [|x t IH]; intros l' Hnd Hs Hs' Hp.
    - apply Permutation_nil in Hp. now subst.
    - destruct l' as [|x' t']; [apply Permutation_sym, Permutation_nil in Hp; discriminate|].
      inversion Hs as [|? ? Hst Hx]; subst. inversion Hs' as [|? ? Hst' Hx']; subst.
      inversion Hnd as [|? ? Hni Hnd']; subst.
      assert (Hxx : x = x').
      { assert (H1 : In x (x' :: t')) by (eapply Permutation_in; [exact Hp|now left]).
        assert (H2 : In x' (x :: t)) by (eapply Permutation_in; [symmetry; exact Hp|now left]).
        destruct H1 as [->|H1]; auto. destruct H2 as [->|H2]; auto.
        rewrite Forall_forall in Hx, Hx'. specialize (Hx _ H2). specialize (Hx' _ H1).
        assert (Hk : key x = key x') by (apply leb_antisym; auto).
        exfalso. apply Hni. rewrite Hk. now apply in_map. }
      subst x'. f_equal. apply IH; auto. eapply Permutation_cons_inv; eauto.
  Qed.

  Theorem isort_perm_eq l l' : NoDup (map key l) -> Permutation l l' -> isort l = isort l'.
  Proof.
    intros Hnd Hp. apply sorted_perm_eq; try apply isort_sorted.
    - eapply Permutation_NoDup; [|exact Hnd]. apply Permutation_map. symmetry. apply isort_perm.
    - rewrite isort_perm, Hp. symmetry. apply isort_perm.
  Qed.

  Lemma isort_sorted_id l : NoDup (map key l) -> StronglySorted le l -> isort l = l.
  Proof. intros Hnd Hs. apply sorted_perm_eq; auto using isort_sorted, isort_perm.
    eapply Permutation_NoDup; [|exact Hnd]. apply Permutation_map. symmetry. apply isort_perm. Qed.

  Lemma isort_idem l : NoDup (map key l) -> isort (isort l) = isort l.
  Proof. intros Hnd. apply isort_sorted_id; [|apply isort_sorted].
    eapply Permutation_NoDup; [|exact Hnd]. apply Permutation_map. symmetry. apply isort_perm. Qed.

  Lemma isort_in x l : In x (isort l) <-> In x l.
  Proof. split; apply Permutation_in; [|symmetry]; apply isort_perm. Qed.
  Lemma isort_length l : length (isort l) = length l.
  Proof. apply Permutation_length, isort_perm. Qed.
End Sort.

(* ---------- strings ---------- *)
Lemma ascii_compare_trans a b c : Ascii.compare a b = Lt -> Ascii.compare b c = Lt -> Ascii.compare a c = Lt.
Proof. unfold Ascii.compare. rewrite !N.compare_lt_iff. apply N.lt_trans. Qed.
Lemma ascii_compare_refl a : Ascii.compare a a = Eq.
Proof. unfold Ascii.compare. apply N.compare_refl. Qed.
Lemma str_compare_refl s : String.compare s s = Eq.
Proof. induction s; simpl; auto. now rewrite ascii_compare_refl. Qed.

Lemma str_compare_lt_trans : forall a b c, String.compare a b = Lt -> String.compare b c = Lt -> String.compare a c = Lt.
Proof.
  induction a as [|x a IH]; intros [|y b] [|z c]; simpl; try discriminate; auto.
  destruct (Ascii.compare x y) eqn:E1; try discriminate;
  destruct (Ascii.compare y z) eqn:E2; try discriminate; intros H1 H2.
  - apply Ascii.compare_eq_iff in E1, E2. subst. rewrite ascii_compare_refl. eapply IH; eauto.
  - apply Ascii.compare_eq_iff in E1. subst. now rewrite E2.
  - apply Ascii.compare_eq_iff in E2. subst. now rewrite E1.
  - now rewrite (ascii_compare_trans _ _ _ E1 E2).
Qed.

Lemma str_leb_trans a b c : String.leb a b = true -> String.leb b c = true -> String.leb a c = true.
Proof.
  unfold String.leb. destruct (String.compare a b) eqn:E1; try discriminate;
  destruct (String.compare b c) eqn:E2; try discriminate; intros _ _.
  - apply String.compare_eq_iff in E1, E2. subst. now rewrite str_compare_refl.
  - apply String.compare_eq_iff in E1. subst. now rewrite E2.
  - apply String.compare_eq_iff in E2. subst. now rewrite E1.
  - now rewrite (str_compare_lt_trans _ _ _ E1 E2).
Qed.
Lemma str_leb_refl a : String.leb a a = true.
Proof. unfold String.leb. now rewrite str_compare_refl. Qed.

Definition ssort {A} (key : A -> string) := isort string String.leb A key.
Definition ssort_perm_eq {A} (key : A -> string) :=
  isort_perm_eq string String.leb String.leb_total str_leb_trans String.leb_antisym A key.

(* pairs of strings, lexicographic (Python tuple order) *)
Definition pair_leb (p q : string * string) : bool :=
  match String.compare (fst p) (fst q) with
  | Lt => true | Gt => false | Eq => String.leb (snd p) (snd q) end.
Lemma pair_leb_total p q : pair_leb p q = true \/ pair_leb q p = true.
Proof. unfold pair_leb. rewrite (String.compare_antisym (fst q) (fst p)).
  destruct (String.compare (fst p) (fst q)) eqn:E; simpl; auto.
  apply String.compare_eq_iff in E. apply String.leb_total. Qed.
Lemma pair_leb_antisym p q : pair_leb p q = true -> pair_leb q p = true -> p = q.
Proof. unfold pair_leb. rewrite (String.compare_antisym (fst q) (fst p)).
  destruct (String.compare (fst p) (fst q)) eqn:E; simpl; try discriminate.
  apply String.compare_eq_iff in E. intros H1 H2. destruct p, q; simpl in *. subst.
  f_equal. now apply String.leb_antisym. Qed.
Lemma pair_leb_trans p q r : pair_leb p q = true -> pair_leb q r = true -> pair_leb p r = true.
Proof. unfold pair_leb.
  destruct (String.compare (fst p) (fst q)) eqn:E1; try discriminate;
  destruct (String.compare (fst q) (fst r)) eqn:E2; try discriminate.
  - apply String.compare_eq_iff in E1, E2. rewrite E1, E2, str_compare_refl. apply str_leb_trans.
  - apply String.compare_eq_iff in E1. rewrite E1, E2. auto.
  - apply String.compare_eq_iff in E2. rewrite <- E2, E1. auto.
  - rewrite (str_compare_lt_trans _ _ _ E1 E2). auto.
Qed.
Definition psort {A} (key : A -> string * string) := isort (string * string) pair_leb A key.
Definition psort_perm_eq {A} (key : A -> string * string) :=
  isort_perm_eq (string * string) pair_leb pair_leb_total pair_leb_trans pair_leb_antisym A key.

(* sorted(set(l)) *)
Definition sort_uniq (l : list string) : list string := ssort (fun x => x) (nodup string_dec l).
Lemma sort_uniq_in l x : In x (sort_uniq l) <-> In x l.
Proof. unfold sort_uniq, ssort. rewrite isort_in. apply nodup_In. Qed.
Lemma sort_uniq_nodup l : NoDup (sort_uniq l).
Proof. unfold sort_uniq, ssort. eapply Permutation_NoDup; [symmetry; apply isort_perm|]. apply NoDup_nodup. Qed.

Lemma sort_uniq_ext l l' : (forall x, In x l <-> In x l') -> sort_uniq l = sort_uniq l'.
Proof.
  intros H. unfold sort_uniq. apply ssort_perm_eq.
  - rewrite map_id. apply NoDup_nodup.
  - apply NoDup_Permutation; try apply NoDup_nodup. intros x. rewrite !nodup_In. apply H.
Qed.
