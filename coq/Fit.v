(* C05 - fits return a feasible, honest, optimal point.  This file collects the pieces
     FitWrap : infer/mle.py + optimize/common.py + optimize/mixins.py + _TensorViewer.stitch  (bookkeeping, any mask)
     FitCert : KKT optimality certificate for affine-rate Poisson likelihoods with Gaussian penalties (over R)
     FitRate : the rate model of the restricted family and its reduction to the affine form
   and defines the functions the check evaluates in Qc on every fit. *)
From Coq Require Import ZArith QArith Qcanon Bool List.
Require Export PV.Num PV.FitWrap PV.FitCert PV.FitRate.
Import ListNotations.
Local Open Scope list_scope.

(* ---- the wrapper model run on a recorded optimiser answer ---- *)
Definition const_optimiser (x : list Qc) (f : Qc) (unc : option (list Qc)) :
  bool -> (list Qc -> Qc) -> kwargs Qc -> optres Qc Qc :=
  fun _ _ _ => {| o_x := x; o_fun := f; o_success := true; o_unc := unc |}.

(* the kwargs handed to the optimiser by shim, for the same inputs *)
Definition shim_kwargs (poi : option (nat * Qc)) (npars : nat) (init : list Qc) (bounds : list (Qc * Qc))
  (mask : list bool) (do_stitch : bool) : kwargs Qc :=
  let init' := match poi with Some (p, v) => upd p v init | None => init end in
  let mask' := match poi with Some (p, _) => upd p true mask | None => mask end in
  fst (shim Qc 0%Qc npars init' bounds (fvals_from Qc 0 init' mask') do_stitch).

Definition run_fit (poi : option (nat * Qc)) (npars : nat) (init : list Qc) (bounds : list (Qc * Qc))
  (mask : list bool) (do_stitch : bool) (rawx : list Qc) (rawf : Qc) (unc : option (list Qc)) :=
  let opt := const_optimiser rawx rawf unc in
  let obj := fun _ : list Qc => 0%Qc in
  match poi with
  | Some (p, v) => fixed_poi_fit Qc 0%Qc Qc qleb opt (Some p) v obj npars init bounds mask false do_stitch
  | None => fit Qc 0%Qc Qc qleb opt obj npars init bounds mask false do_stitch
  end.

Definition out_fit (r : fit_err + fitres Qc Qc) :=
  match r with
  | inl (ValueError i) => (1%Z, Z.of_nat i, [], [])
  | inl UnspecifiedPOI => (2%Z, 0%Z, [], [])
  | inl FailedMinimization => (3%Z, 0%Z, [], [])
  | inr res => (0%Z, 0%Z, map qout (r_x Qc Qc res), match r_unc Qc Qc res with Some u => map qout u | None => [] end)
  end.
Definition out_kwargs (k : kwargs Qc) :=
  (map qout (k_x0 Qc k), map (fun b => qout (fst b)) (k_bounds Qc k), map (fun b => qout (snd b)) (k_bounds Qc k),
   map (fun iv => (Z.of_nat (fst iv), qout (snd iv))) (k_fixed Qc k)).

(* ---- feasibility and the certificate, all exact ----
   ref   : a vector holding the supplied values at the fixed coordinates (anything elsewhere)
   w     : a feasible witness proposed by the (untrusted) polisher, shared by all fits of one problem
   star  : the returned point of one fit
   certified excess of f at star over every feasible point:  gapbound terms star w + eps terms w box
   (theorem kkt_certificate_gap); twice_nll = 2 f + const. *)
Definition problem_cert (M : model QcNum) (mask : list bool) (bounds : list (Qc * Qc)) (ref w : list Qc) :=
  let m := length ref in
  let box := pinned_box QcNum mask ref bounds in
  match affine_terms QcNum m mask ref M with
  | None => (false, false, (0%Z, 1%positive))
  | Some terms =>
      let wok := Nat.eqb (length w) m && shapes_okb QcNum m terms && in_boxb QcNum w box && rates_posb QcNum terms w in
      (true, wok, qout (if wok then eps QcNum terms w box else 0%Qc))
  end.
Definition fit_cert (M : model QcNum) (mask : list bool) (bounds : list (Qc * Qc)) (ref star w : list Qc) :=
  let m := length ref in
  match affine_terms QcNum m mask ref M with
  | None => (in_boxb QcNum star bounds, false, (0%Z, 1%positive))
  | Some terms =>
      let pos := rates_posb QcNum terms star in
      (in_boxb QcNum star bounds, pos, qout (if pos then gapbound QcNum terms star w else 0%Qc))
  end.

(* rates of the own model at a point (diagnostics / validation of the harness-side layout) *)
Definition model_rates (M : model QcNum) (x : list Qc) : list (Z * positive) :=
  map (fun nb => qout (bin_rate QcNum x (snd nb))) (m_bins QcNum M).

(* closed form of the counting experiment, evaluated exactly *)
Definition qclip (lo hi x : Qc) : Qc := if qltb x lo then lo else if qltb hi x then hi else x.
Definition counting_muhat (n s b lo hi : Qc) : Z * positive := qout (qclip lo hi ((n - b) / s)%Qc).
