(* pyhf.cli at model level: every subcommand is  emit (render (library (args_of_options ...)))  ;
   plus the vocabulary of the fact tables extracted from src/pyhf/cli/*.py on every run (coq/gen/FactsC19.v) and the
   hand-written documentation table of which option has to reach which library-call argument. *)
From Coq Require Import Bool Arith String List.
Require Import PV.Sort PV.Json.
Import ListNotations.
Local Open Scope string_scope.
Local Open Scope list_scope.
Local Open Scope nat_scope.

(* ---------- extracted facts: one record per click parameter of a command ---------- *)
Record optfact := mkOpt {
  o_cmd : string;                 (* "cls", "patchset extract", ... *)
  o_param : string;               (* python parameter name click binds it to *)
  o_decls : list string;          (* "--test-poi", "-p", "--patch", ... ; the bare name for arguments *)
  o_is_arg : bool;
  o_default : string;             (* source text of default=..., "<unset>" if absent *)
  o_choices : list string;        (* click.Choice values, or the source text of a non-literal choice list *)
  o_flag : bool;
  o_multiple : bool;
  o_used : bool;                  (* the parameter (or a value derived from it) reaches a call argument / subscript / condition *)
  o_sinks : list (string * string)   (* (callee, slot): slot = keyword name, "argN", "**" ; ("<if>", callee called under the condition) *)
}.

Definition pair_eqb (a b : string * string) : bool := String.eqb (fst a) (fst b) && String.eqb (snd a) (snd b).
Definition every_consumed (t : list optfact) : bool := forallb o_used t.
Definition unconsumed (t : list optfact) : list (string * string) :=
  map (fun o => (o_cmd o, o_param o)) (filter (fun o => negb (o_used o)) t).
Definition reaches (t : list optfact) (d : string * string * (string * string)) : bool :=
  let '(cmd, param, sink) := d in
  existsb (fun o => String.eqb (o_cmd o) cmd && String.eqb (o_param o) param && existsb (pair_eqb sink) (o_sinks o)) t.
Definition all_reach (t : list optfact) (ds : list (string * string * (string * string))) : bool := forallb (reaches t) ds.
Definition not_reaching (t : list optfact) (ds : list (string * string * (string * string))) := filter (fun d => negb (reaches t d)) ds.
Definition has_cmd (t : list optfact) (c : string) : bool := existsb (fun o => String.eqb (o_cmd o) c) t.
Definition declared (t : list optfact) (cmd decl : string) : bool :=
  existsb (fun o => String.eqb (o_cmd o) cmd && existsb (String.eqb decl) (o_decls o)) t.

Lemma every_consumed_spec t : every_consumed t = true <-> forall o, In o t -> o_used o = true.
Proof. unfold every_consumed. apply forallb_forall. Qed.
Lemma every_consumed_unconsumed t : every_consumed t = true <-> unconsumed t = [].
Proof. unfold every_consumed, unconsumed. induction t as [|o t IH]; simpl; [tauto|].
  destruct (o_used o); simpl; [exact IH|split; discriminate]. Qed.

(* ---------- the documentation: the subcommands and where their options have to arrive ---------- *)
Definition commands_expected : list string :=
  ["cls"; "fit"; "inspect"; "prune"; "rename"; "combine"; "sort"; "digest";
   "patchset extract"; "patchset apply"; "patchset verify"; "patchset inspect"; "json2xml"; "xml2json"].

Definition documented : list (string * string * (string * string)) :=
  [ ("cls", "measurement", ("ws.model", "measurement_name"));
    ("cls", "patch", ("ws.model", "patches"));
    ("cls", "test_poi", ("hypotest", "arg0"));
    ("cls", "test_stat", ("hypotest", "test_stat"));
    ("cls", "calctype", ("hypotest", "calctype"));
    ("cls", "backend", ("<if>", "set_backend"));
    ("cls", "optimizer", ("set_backend", "arg1"));
    ("cls", "optconf", ("set_backend", "arg1"));
    ("cls", "output_file", ("open", "arg0"));
    ("cls", "workspace", ("click.open_file", "arg0"));
    ("fit", "measurement", ("ws.model", "measurement_name"));
    ("fit", "patch", ("ws.model", "patches"));
    ("fit", "value", ("mle.fit", "return_fitted_val"));
    ("fit", "backend", ("<if>", "set_backend"));
    ("fit", "optimizer", ("set_backend", "arg1"));
    ("fit", "optconf", ("set_backend", "arg1"));
    ("fit", "output_file", ("open", "arg0"));
    ("inspect", "measurement", ("ws.model", "measurement_name"));
    ("inspect", "measurement", ("ws.get_measurement", "measurement_name"));
    ("inspect", "output_file", ("open", "arg0"));
    ("prune", "channel", ("ws.prune", "channels"));
    ("prune", "sample", ("ws.prune", "samples"));
    ("prune", "modifier", ("ws.prune", "modifiers"));
    ("prune", "modifier_type", ("ws.prune", "modifier_types"));
    ("prune", "measurement", ("ws.prune", "measurements"));
    ("prune", "output_file", ("open", "arg0"));
    ("rename", "channel", ("ws.rename", "channels"));
    ("rename", "sample", ("ws.rename", "samples"));
    ("rename", "modifier", ("ws.rename", "modifiers"));
    ("rename", "measurement", ("ws.rename", "measurements"));
    ("rename", "output_file", ("open", "arg0"));
    ("combine", "join", ("Workspace.combine", "join"));
    ("combine", "merge_channels", ("Workspace.combine", "merge_channels"));
    ("combine", "workspace_one", ("click.open_file", "arg0"));
    ("combine", "workspace_two", ("click.open_file", "arg0"));
    ("combine", "output_file", ("open", "arg0"));
    ("digest", "algorithm", ("utils.digest", "algorithm"));
    ("digest", "output_json", ("<if>", "json.dumps"));
    ("sort", "output_file", ("open", "arg0"));
    ("patchset extract", "name", ("patchset.__getitem__", "arg0"));
    ("patchset extract", "with_metadata", ("<if>", ""));
    ("patchset extract", "output_file", ("open", "arg0"));
    ("patchset apply", "name", ("patchset.apply", "arg1"));
    ("patchset apply", "background_only", ("patchset.apply", "arg0"));
    ("patchset apply", "output_file", ("open", "arg0"));
    ("patchset verify", "background_only", ("patchset.verify", "arg0"));
    ("json2xml", "output_dir", ("writexml.writexml", "arg1"));
    ("json2xml", "specroot", ("writexml.writexml", "arg1"));
    ("json2xml", "dataroot", ("writexml.writexml", "arg2"));
    ("json2xml", "resultprefix", ("writexml.writexml", "arg3"));
    ("json2xml", "patch", ("jsonpatch.JsonPatch", "arg0"));
    ("json2xml", "workspace", ("writexml.writexml", "arg0"));
    ("xml2json", "entrypoint_xml", ("readxml.parse", "arg0"));
    ("xml2json", "basedir", ("readxml.parse", "arg1"));
    ("xml2json", "mount", ("readxml.parse", "mounts"));
    ("xml2json", "track_progress", ("readxml.parse", "track_progress"));
    ("xml2json", "validation_as_error", ("readxml.parse", "validation_as_error"));
    ("xml2json", "output_file", ("open", "arg0")) ].

(* the option spellings the property names *)
Definition documented_decls : list (string * string) :=
  [ ("cls", "--measurement"); ("cls", "--patch"); ("cls", "-p"); ("cls", "--test-poi"); ("cls", "--test-stat"); ("cls", "--calctype");
    ("cls", "--backend"); ("cls", "--optimizer"); ("cls", "--optconf"); ("cls", "--output-file");
    ("fit", "--measurement"); ("fit", "--patch"); ("fit", "--value"); ("fit", "--backend"); ("fit", "--optimizer"); ("fit", "--optconf");
    ("fit", "--output-file"); ("inspect", "--measurement"); ("inspect", "--output-file");
    ("prune", "--channel"); ("prune", "--sample"); ("prune", "--modifier"); ("prune", "--modifier-type"); ("prune", "--measurement");
    ("rename", "--channel"); ("rename", "--sample"); ("rename", "--modifier"); ("rename", "--measurement");
    ("combine", "--join"); ("combine", "--merge-channels"); ("digest", "--algorithm"); ("digest", "--json"); ("sort", "--output-file");
    ("patchset extract", "--name"); ("patchset extract", "--with-metadata"); ("patchset apply", "--name");
    ("json2xml", "--output-dir"); ("json2xml", "--specroot"); ("json2xml", "--dataroot"); ("json2xml", "--resultprefix"); ("json2xml", "--patch");
    ("xml2json", "--basedir"); ("xml2json", "--mount"); ("xml2json", "--output-file") ].


(* ---------- order facts: which call is the LAST to set pyhf's global backend/optimizer state ---------- *)
(* cli_state_order (generated): per command, for every set_backend call in source order, the parameters reaching it *)
Definition last_carries (t : list (string * list (list string))) (d : string * list string) : bool :=
  match assoc (fst d) t with
  | Some calls => match rev calls with
                  | lastc :: _ => forallb (fun p => existsb (String.eqb p) lastc) (snd d)
                  | [] => false end
  | None => false end.
(* the optimiser and its settings must be carried by the last state-setting call: nothing resets them afterwards *)
Definition last_state_documented : list (string * list string) :=
  [ ("cls", ["optimizer"; "optconf"]); ("fit", ["optimizer"; "optconf"]) ].
(* cli_multi_loops (generated): (command, multiple-option, variable, accumulates) for each variable a `for` loop over the values
   of a repeatable option assigns and the code after the loop reads: it must be folded over all values, not keep the last *)
Definition non_accumulating (t : list (string * string * string * bool)) := filter (fun x => negb (snd x)) t.

(* ---------- model of a subcommand ---------- *)
Section Command.
Variable dumps : json -> string.       (* json.dumps(., indent=4) of a tree whose keys are already sorted *)
Variable newline : string.
Definition render (j : json) : string := dumps (canon j).        (* json.dumps(..., indent=4, sort_keys=True) *)

(* sort_keys: the text does not depend on the order in which the library built its dicts *)
Lemma render_key_order_insensitive a b : wfj a -> wfj b -> jsame a b = true -> render a = render b.
Proof. intros Ha Hb H. unfold render. now rewrite (canon_same a b Ha Hb H). Qed.

Variables (I E : Type).
Variable library : I -> json + E.       (* the library call of the subcommand on the parsed inputs/options *)

Record outcome := mkOut { exit_code : nat; stdout : string; files : list (string * string) }.
(* if output_file is None: click.echo(json.dumps(...)) else: json.dump(..., out_file) *)
Definition emit (out : option string) (j : json) : outcome :=
  match out with
  | None => mkOut 0 (render j ++ newline)%string []
  | Some f => mkOut 0 "" [(f, render j)]
  end.
Definition run_cmd (inp : I) (out : option string) : outcome :=
  match library inp with
  | inl j => emit out j
  | inr _ => mkOut 1 "" []            (* the exception propagates: non-zero exit, nothing written *)
  end.

Theorem exit_iff_library_ok inp out : exit_code (run_cmd inp out) = 0 <-> exists j, library inp = inl j.
Proof. unfold run_cmd. destruct (library inp) as [j|e]; simpl.
  - destruct out; simpl; split; eauto.
  - split; [discriminate|intros [j H]; discriminate]. Qed.
Theorem file_equals_stdout inp f :
  exit_code (run_cmd inp None) = 0 ->
  exists txt, files (run_cmd inp (Some f)) = [(f, txt)] /\ stdout (run_cmd inp None) = (txt ++ newline)%string.
Proof. unfold run_cmd. destruct (library inp) as [j|e]; simpl; [|discriminate]. intros _. eauto. Qed.
Theorem output_is_library_value inp j : library inp = inl j -> stdout (run_cmd inp None) = (render j ++ newline)%string.
Proof. unfold run_cmd. intros ->. reflexivity. Qed.
End Command.

Example exit_nonvacuous : exists (lib : unit -> json + unit), exit_code (run_cmd (fun _ => ""%string) "" unit unit lib tt None) = 0.
Proof. exists (fun _ => inl JNull). reflexivity. Qed.
