(* C10: the auxiliary part of the batched expected data (the expected values of the constraint terms, in auxdata order)
   and the full batched expected_data = main part ++ auxiliary part, row by row. *)
From Coq Require Import Bool Arith Lia String List.
Require Import PV.Num PV.Sort PV.Spec PV.Impl PV.Config PV.Batch PV.RefineParams PV.RefineLayout.
Import ListNotations.
Local Open Scope list_scope.

Section BatchAux.
  Variable N : Num.
  Variable interp_add interp_mul : string -> V N -> V N -> V N -> V N -> V N.
  Variable sp : spec N.
  Variable st : settings N.
  Variable md : model N.

  (* batched model: the auxiliary expectations of row r read the flattened (N, npars) tensor at r * npars + i *)
  Definition expected_auxdata_batched (rows : list (list (V N))) : list (list (V N)) :=
    map (fun r => expected_auxdata_hot N md (parf_batched N (md_npars N md) rows r)) (seq 0 (length rows)).
  (* Model.expected_data: main part, then auxiliary part, per row *)
  Definition expected_data (pars : list (V N)) : list (V N) :=
    expected_actualdata N interp_add interp_mul sp st md pars ++ expected_auxdata N md pars.
  Definition expected_data_batched (rows : list (list (V N))) : list (list (V N)) :=
    map (fun r => expected_actualdata_hot N interp_add interp_mul sp (cfg_channels N sp) (cfg_samples N sp) (cfg_modifiers N sp) st md
                                          (parf_batched N (md_npars N md) rows r)
                  ++ expected_auxdata_hot N md (parf_batched N (md_npars N md) rows r)) (seq 0 (length rows)).

  (* the auxiliary expectations read the parameter vector only inside the slices of the parameter sets *)
  Lemma expected_auxdata_local (par par' : nat -> V N) :
    (forall p i, In p (md_psets N md) -> i < p_n N p -> par (p_start N p + i) = par' (p_start N p + i)) ->
    expected_auxdata_hot N md par = expected_auxdata_hot N md par'.
  Proof.
    intros H. unfold expected_auxdata_hot. apply flat_map_ext_in. intros p Hp.
    destruct (p_type N p); auto; unfold tab; apply map_ext_in; intros i Hi; apply in_seq in Hi; rewrite (H p i Hp) by lia; reflexivity.
  Qed.

  Hypothesis Hb : build N sp = Ok md.
  Variable rows : list (list (V N)).
  Hypothesis Hrows : forall row, In row rows -> length row = md_npars N md.

  Lemma batched_row_aux r : r < length rows ->
    expected_auxdata_hot N md (parf_batched N (md_npars N md) rows r) = expected_auxdata N md (nth r rows []).
  Proof.
    intros Hr. unfold expected_auxdata. apply expected_auxdata_local. intros p i Hp Hi.
    unfold parf_batched, parf. apply nth_concat_rows; auto.
    pose proof (tiles_bound N _ 0 (accepted_tiles N sp md Hb) p Hp) as [_ Hle]. pose proof (accepted_npars_ge N sp md Hb). lia.
  Qed.

  Theorem batched_expected_auxdata : expected_auxdata_batched rows = map (expected_auxdata N md) rows.
  Proof.
    unfold expected_auxdata_batched. rewrite (map_seq_nth (expected_auxdata N md) [] rows).
    apply map_ext_in. intros r Hrin. apply in_seq in Hrin. apply batched_row_aux. lia.
  Qed.

  Theorem batched_expected_data_whole : expected_data_batched rows = map expected_data rows.
  Proof.
    unfold expected_data_batched. rewrite (map_seq_nth expected_data [] rows).
    apply map_ext_in. intros r Hrin. apply in_seq in Hrin. assert (Hr : r < length rows) by lia. unfold expected_data.
    rewrite (batched_row_aux r Hr). f_equal.
    exact (batched_row_expected N interp_add interp_mul sp st md Hb rows Hrows r Hr).
  Qed.

  (* the batch dimension is the leading one: one row of N_main + N_aux entries per parameter row *)
  Theorem batched_expected_data_rows : length (expected_data_batched rows) = length rows.
  Proof. unfold expected_data_batched. now rewrite map_length, seq_length. Qed.
End BatchAux.

(* non-vacuity on the 3-channel example of RefineLayout.v (13 parameters; shapesys and staterror constraint blocks) *)
Example layout_example_batched_whole : forall ia im md rows, build QcNum layout_example_spec = Ok md ->
  (forall row, In row rows -> length row = 13) ->
  expected_data_batched QcNum ia im layout_example_spec layout_example_st md rows =
  map (expected_data QcNum ia im layout_example_spec layout_example_st md) rows.
Proof.
  intros ia im md rows Hb Hrows. apply batched_expected_data_whole; auto.
  destruct layout_example_accepted as (md' & Hb' & Hn & _). rewrite Hb in Hb'. inversion Hb'; subst. now rewrite Hn.
Qed.
