(* Interpolation functions plugged into the engine for execution.
   Additive codes (0, 2, 4p) are polynomial: generic over Num, exact in Qc.
   Multiplicative codes (1, 4) need real powers: in Qc they are exact for integer alpha (both codes reduce to
   (hi/nom)^alpha resp. (lo/nom)^(-alpha) there, and to 1 at alpha = 0); other points come from an oracle table
   supplied by the harness; a missing entry yields the sentinel -1 (never a valid factor), fail closed. *)
From Coq Require Import Bool ZArith QArith Qcanon String List.
Require Import PV.Num.
Import ListNotations.

Section Add.
  Variable N : Num.
  Notation V := (V N).
  Infix "+" := (nadd N). Infix "*" := (nmul N). Infix "-" := (nsub N). Infix "/" := (ndiv N).
  Definition c (z : Z) : V := nofZ N z.
  Definition code0 (lo nom hi a : V) : V := if nltb N (c 0) a then (hi - nom) * a else (nom - lo) * a.
  Definition code2 (lo nom hi a : V) : V :=
    let qa := (c 1 / c 2) * (hi + lo) - nom in
    let qb := (c 1 / c 2) * (hi - lo) in
    if nltb N (c 1) a then (qb + c 2 * qa) * (a - c 1) + (qa + qb)
    else if nleb N (nopp N (c 1)) a then qa * a * a + qb * a
    else (qb - c 2 * qa) * (a + c 1) + (qa - qb).
  Definition code4p (lo nom hi a : V) : V :=
    let du := hi - nom in let dd := nom - lo in
    let S := (c 1 / c 2) * (du + dd) in
    let A := (c 1 / c 16) * (du - dd) in
    if nltb N (c 1) a then du * a
    else if nltb N a (nopp N (c 1)) then dd * a
    else a * (S + a * A * (c 15 + a * a * (nopp N (c 10) + a * a * c 3))).
  Definition interp_add_gen (code : string) : V -> V -> V -> V -> V :=
    if String.eqb code "code0" then code0 else if String.eqb code "code2" then code2 else code4p.
End Add.

Definition qpowZ (b : Qc) (z : Z) : Qc :=
  match z with Z0 => 1%Qc | Zpos p => Qcpower b (Pos.to_nat p) | Zneg p => Qcinv (Qcpower b (Pos.to_nat p)) end.
Definition is_int (a : Qc) : bool := Pos.eqb (Qden a) 1.
Definition itbl := list ((string * Qc * Qc * Qc) * Qc).        (* (code, lo, hi, alpha) |-> factor, nominal = 1 *)
Fixpoint tlook (t : itbl) (code : string) (lo hi a : Qc) : option Qc :=
  match t with
  | [] => None
  | ((c0, l0, h0, a0), v) :: r =>
      if String.eqb c0 code && Qc_eq_bool l0 lo && Qc_eq_bool h0 hi && Qc_eq_bool a0 a then Some v else tlook r code lo hi a
  end.
Definition interp_mul_q (t : itbl) (code : string) (lo nom hi a : Qc) : Qc :=
  match tlook t code lo hi a with
  | Some v => v
  | None => if is_int a then (if qltb 0%Qc a then qpowZ (hi / nom)%Qc (Qnum a) else qpowZ (lo / nom)%Qc (- Qnum a)%Z)
            else (Q2Qc (-1 # 1))
  end.
