(* C05/C13 - a small self-contained expected-rate model for the restricted model family used by the fit
   certificate and the gradient check (independent of the big engine):
     rate of one bin = sum over samples of (nominal + sum of histosys deltas) * product of the sample's
                       multiplicative parameters (normfactor, shapefactor, shapesys, staterror, lumi).
   Written once over `Num`: executed at Qc, at dual numbers over Qc (exact derivatives), analysed at R. *)
From Coq Require Import ZArith QArith Qcanon Reals Lra Lia Bool List.
Require Import PV.Num PV.FitCert.
Import ListNotations.
Local Open Scope list_scope.

Section Rate.
  Variable N : Num.
  Notation T := (V N).
  Notation "0" := (n0 N). Notation "1" := (n1 N).
  Infix "+" := (nadd N). Infix "*" := (nmul N). Infix "-" := (nsub N). Infix "/" := (ndiv N).

  Definition par (x : list T) (i : nat) : T := nth i x 0.

  (* additive histosys piece of one sample in one bin: interpolation code, down / up templates, parameter index *)
  Inductive icode := Code0 | Code2 | Code4p.
  Record hsys := { h_code : icode; h_lo : T; h_hi : T; h_par : nat }.
  Definition two := 1 + 1.
  Definition ofnat (k : nat) : T := nofZ N (Z.of_nat k).
  (* interpolators/code0.py, code2.py, code4p.py : the scalar function each tensor expression realises
     (same comparisons, so the same branch is taken on the breakpoints) *)
  Definition delta (h : hsys) (nom alpha : T) : T :=
    let up := h_hi h - nom in let dn := nom - h_lo h in
    match h_code h with
    | Code0 => if nltb N 0 alpha then up * alpha else dn * alpha
    | Code2 =>
        let a := (h_hi h + h_lo h) / two - nom in
        let b := (h_hi h - h_lo h) / two in
        if nltb N 1 alpha then (b + two * a) * (alpha - 1) + (a + b)
        else if nleb N (0 - 1) alpha then a * alpha * alpha + b * alpha
        else (b - two * a) * (alpha + 1) + (a - b)
    | Code4p =>
        let S := (up + dn) / two in
        let A := (up - dn) / ofnat 16 in
        if nltb N alpha (0 - 1) then dn * alpha
        else if nltb N 1 alpha then up * alpha
        else let q := alpha * alpha in
             (q * (q * (q * ofnat 3 - ofnat 10) + ofnat 15)) * A + alpha * S
    end.

  (* one sample in one bin *)
  Record cell := { c_nom : T; c_hs : list hsys; c_fac : list nat }.
  Fixpoint prod_par (x : list T) (idx : list nat) : T :=
    match idx with [] => 1 | i :: r => par x i * prod_par x r end.
  Definition cell_rate (x : list T) (c : cell) : T :=
    (fold_right (fun h acc => delta h (c_nom c) (par x (h_par h)) + acc) (c_nom c) (c_hs c)) * prod_par x (c_fac c).
  Definition bin_rate (x : list T) (cells : list cell) : T :=
    fold_right (fun c acc => cell_rate x c + acc) 0 cells.

  (* the whole objective's ingredients: main bins with their observed counts, Poisson auxiliary terms
     (rate tau * gamma, observed aux), Gaussian terms (weight 1/sigma^2, aux, parameter index) *)
  Record model := {
    m_bins : list (T * list cell);            (* (n_b, cells) *)
    m_pois : list (T * T * nat);              (* (aux, tau, parameter index) *)
    m_gaus : list (T * T * nat)               (* (w, aux, parameter index) *)
  }.


  (* ---- reduction to the affine form of FitCert when the mask leaves at most one free factor per sample ---- *)
  Fixpoint split_fac (mask : list bool) (x : list T) (idx : list nat) : T * list nat :=
    match idx with
    | [] => (1, [])
    | i :: r => let '(k, fr) := split_fac mask x r in
                if nth i mask false then (par x i * k, fr) else (k, i :: fr)
    end.
  Fixpoint unit_vec (m i : nat) (v : T) : list T :=
    match m with O => [] | S m' => match i with O => v :: repeat 0 m' | S i' => 0 :: unit_vec m' i' v end end.
  Definition affine_cell (m : nat) (mask : list bool) (x : list T) (c : cell) : option (T * list T) :=
    match c_hs c with
    | _ :: _ => None
    | [] => let '(k, fr) := split_fac mask x (c_fac c) in
            match fr with
            | [] => Some (c_nom c * k, repeat 0 m)
            | [i] => if Nat.ltb i m then Some (0, unit_vec m i (c_nom c * k)) else None
            | _ => None end
    end.
  Fixpoint affine_bin (m : nat) (mask : list bool) (x : list T) (cells : list cell) : option (T * list T) :=
    match cells with
    | [] => Some (0, repeat 0 m)
    | c :: r => match affine_cell m mask x c, affine_bin m mask x r with
                | Some (k1, a1), Some (k2, a2) => Some (k1 + k2, vadd N a1 a2)
                | _, _ => None end
    end.
  Fixpoint omap {X Y} (f : X -> option Y) (l : list X) : option (list Y) :=
    match l with [] => Some [] | a :: r => match f a, omap f r with Some b, Some r' => Some (b :: r') | _, _ => None end end.
  Definition affine_terms (m : nat) (mask : list bool) (x : list T) (M : model) : option (list (term N)) :=
    match omap (fun nb => match affine_bin m mask x (snd nb) with
                          | Some (c, a) => Some (TPois (fst nb) c a) | None => None end) (m_bins M) with
    | None => None
    | Some bins =>
        Some (bins
              ++ map (fun p => let '(aux, tau, i) := p in TPois aux 0 (unit_vec m i tau)) (m_pois M)
              ++ map (fun g => let '(w, aux, i) := g in TGauss w aux 0 (unit_vec m i 1)) (m_gaus M))
    end.
  (* box of the certificate: fixed coordinates are pinned to their value *)
  Fixpoint pinned_box (mask : list bool) (x : list T) (bounds : list (T * T)) : list (T * T) :=
    match x, bounds with
    | xi :: x', b :: b' => (match mask with true :: _ => (xi, xi) | _ => b end) :: pinned_box (tl mask) x' b'
    | _, _ => [] end.
End Rate.

Arguments Build_hsys {N}. Arguments Build_cell {N}. Arguments Build_model {N}.

(* ============================================================================================ *)
(* soundness of the reduction over R: on the pinned box the negative log-likelihood of the rate model IS the
   affine-argument function the certificate talks about *)
Local Open Scope R_scope.
Definition nllM (M : model RNum) (x : list R) : R :=
  fold_right (fun nb acc => nllterm (fst nb) (bin_rate RNum x (snd nb)) + acc) 0 (m_bins RNum M)
  + (fold_right (fun p acc => let '(aux, tau, i) := p in nllterm aux (tau * par RNum x i) + acc) 0 (m_pois RNum M)
  + fold_right (fun g acc => let '(w, aux, i) := g in w / 2 * ((par RNum x i - aux) * (par RNum x i - aux)) + acc) 0 (m_gaus RNum M)).

Definition agree (mask : list bool) (x0 x : list R) : Prop :=
  forall i, nth i mask false = true -> par RNum x i = par RNum x0 i.

Lemma split_fac_sound mask x0 x idx : agree mask x0 x ->
  prod_par RNum x idx = fst (split_fac RNum mask x0 idx) * prod_par RNum x (snd (split_fac RNum mask x0 idx)).
Proof. intros Ha. induction idx as [|i r IH]; simpl; [ring|].
  destruct (split_fac RNum mask x0 r) as [k fr] eqn:E. simpl in IH.
  destruct (nth i mask false) eqn:Em; simpl; rewrite IH.
  - rewrite (Ha i Em). ring.
  - ring. Qed.

Lemma dot_unit m : forall i (v : R) (x : list R), length x = m -> (i < m)%nat ->
  dot RNum (unit_vec RNum m i v) x = v * par RNum x i.
Proof. induction m as [|m IH]; intros i v x Hl Hi; [lia|].
  destruct x as [|a x]; [discriminate|]. simpl in Hl. destruct i as [|i]; simpl.
  - rewrite sadd_R, smul_R. rewrite (dot_zero m x). unfold par. simpl. ring.
  - rewrite sadd_R, smul_R. rewrite IH by lia. unfold par. simpl. ring. Qed.
Lemma unit_vec_length m : forall i (v : R), length (unit_vec RNum m i v) = m.
Proof. induction m; intros [|i] v; simpl; auto. now rewrite repeat_length. Qed.

Lemma affine_cell_sound m mask x0 x c k a : agree mask x0 x -> length x = m ->
  affine_cell RNum m mask x0 c = Some (k, a) -> cell_rate RNum x c = k + dot RNum a x /\ length a = m.
Proof. intros Ha Hl. unfold affine_cell, cell_rate. destruct (c_hs RNum c); [|discriminate]. simpl.
  rewrite (split_fac_sound mask x0 x _ Ha). destruct (split_fac RNum mask x0 (c_fac RNum c)) as [kk fr]. simpl.
  destruct fr as [|i [|j fr]]; try discriminate.
  - intros E. injection E as <- <-. simpl. rewrite (dot_zero m x), repeat_length. split; [ring|reflexivity].
  - destruct (Nat.ltb i m) eqn:Lt; [|discriminate]. apply Nat.ltb_lt in Lt. intros E. injection E as <- <-.
    rewrite dot_unit by auto. rewrite unit_vec_length. simpl. split; [ring|reflexivity]. Qed.

Lemma affine_bin_sound m mask x0 x : agree mask x0 x -> length x = m -> forall cells k a,
  affine_bin RNum m mask x0 cells = Some (k, a) -> bin_rate RNum x cells = k + dot RNum a x /\ length a = m.
Proof. intros Ha Hl. induction cells as [|c r IH]; intros k a E; simpl in E.
  - injection E as <- <-. simpl. rewrite (dot_zero m x), repeat_length. split; [ring|reflexivity].
  - destruct (affine_cell RNum m mask x0 c) as [[k1 a1]|] eqn:E1; [|discriminate].
    destruct (affine_bin RNum m mask x0 r) as [[k2 a2]|] eqn:E2; [|discriminate]. injection E as <- <-.
    destruct (affine_cell_sound m mask x0 x c k1 a1 Ha Hl E1) as [C1 L1]. destruct (IH k2 a2 eq_refl) as [C2 L2].
    assert (L12 : length a1 = length a2) by (rewrite L1, L2; reflexivity).
    split; [|rewrite (vadd_length a1 a2 L12); exact L1]. rewrite (dot_vadd a1 a2 x L12).
    change (bin_rate RNum x (c :: r)) with (cell_rate RNum x c + bin_rate RNum x r). rewrite C1, C2. simpl. ring. Qed.

Lemma fR_app l1 l2 x : fR (l1 ++ l2) x = fR l1 x + fR l2 x.
Proof. induction l1; simpl; [ring|]. rewrite IHl1. ring. Qed.


Definition idx_ok (m : nat) (M : model RNum) : Prop :=
  Forall (fun p => (snd p < m)%nat) (m_pois RNum M) /\ Forall (fun g => (snd g < m)%nat) (m_gaus RNum M).

Definition bin_term (m : nat) (mask : list bool) (x0 : list R) (nb : R * list (cell RNum)) : option termR :=
  match affine_bin RNum m mask x0 (snd nb) with Some (c, a) => Some (@TPois RNum (fst nb) c a) | None => None end.
Definition pois_term (m : nat) (p : R * R * nat) : termR := let '(aux, tau, i) := p in @TPois RNum aux 0 (unit_vec RNum m i tau).
Definition gaus_term (m : nat) (g : R * R * nat) : termR := let '(w, aux, i) := g in @TGauss RNum w aux 0 (unit_vec RNum m i 1).
Lemma affine_terms_unfold m mask x0 M :
  affine_terms RNum m mask x0 M =
  match omap (bin_term m mask x0) (m_bins RNum M) with
  | None => None
  | Some bins => Some (bins ++ map (pois_term m) (m_pois RNum M) ++ map (gaus_term m) (m_gaus RNum M)) end.
Proof. reflexivity. Qed.

Lemma bins_sound m mask x0 x : agree mask x0 x -> length x = m -> forall l bl, omap (bin_term m mask x0) l = Some bl ->
  fold_right (fun nb acc => nllterm (fst nb) (bin_rate RNum x (snd nb)) + acc) 0 l = fR bl x
  /\ Forall (fun t => length (coefs RNum t) = m) bl.
Proof. intros Ha Hl. induction l as [|nb l IH]; intros bl Eo.
  - simpl in Eo. inversion Eo. simpl. split; [reflexivity|constructor].
  - change (omap (bin_term m mask x0) (nb :: l)) with
      (match bin_term m mask x0 nb, omap (bin_term m mask x0) l with Some b, Some r' => Some (b :: r') | _, _ => None end) in Eo.
    destruct (bin_term m mask x0 nb) as [t|] eqn:Ef; [|discriminate Eo].
    destruct (omap (bin_term m mask x0) l) as [bl'|] eqn:El; [|discriminate Eo].
    inversion Eo as [Eb']. destruct (IH bl' eq_refl) as [I1 I2]. unfold bin_term in Ef.
    destruct (affine_bin RNum m mask x0 (snd nb)) as [[c a]|] eqn:Eb; [|discriminate Ef]. inversion Ef as [Et].
    destruct (affine_bin_sound m mask x0 x Ha Hl (snd nb) c a Eb) as [C L].
    simpl. rewrite I1, C. unfold nllterm. split; [reflexivity|constructor; auto]. Qed.

Lemma pois_sound m x : length x = m -> forall l, Forall (fun p : R * R * nat => (snd p < m)%nat) l ->
  fold_right (fun p acc => let '(aux, tau, i) := p in nllterm aux (tau * par RNum x i) + acc) 0 l = fR (map (pois_term m) l) x
  /\ Forall (fun t => length (coefs RNum t) = m) (map (pois_term m) l).
Proof. intros Hl l. induction 1 as [|[[aux tau] i] l Hi Hr IH]; simpl; [split; [reflexivity|constructor]|]. simpl in Hi.
  destruct IH as [I1 I2]. rewrite I1. rewrite (dot_unit m i tau x Hl Hi). unfold nllterm. split.
  - replace (0 + tau * par RNum x i) with (tau * par RNum x i) by ring. reflexivity.
  - constructor; auto. simpl. apply unit_vec_length. Qed.
Lemma gaus_sound m x : length x = m -> forall l, Forall (fun g : R * R * nat => (snd g < m)%nat) l ->
  fold_right (fun g acc => let '(w, aux, i) := g in w / 2 * ((par RNum x i - aux) * (par RNum x i - aux)) + acc) 0 l = fR (map (gaus_term m) l) x
  /\ Forall (fun t => length (coefs RNum t) = m) (map (gaus_term m) l).
Proof. intros Hl l. induction 1 as [|[[w aux] i] l Hi Hr IH]; simpl; [split; [reflexivity|constructor]|]. simpl in Hi.
  destruct IH as [I1 I2]. rewrite I1. rewrite (dot_unit m i 1 x Hl Hi). split.
  - change (V RNum) with R in *. ring.
  - constructor; auto. simpl. apply unit_vec_length. Qed.

Theorem affine_sound m mask x0 M terms x : agree mask x0 x -> length x = m -> idx_ok m M ->
  affine_terms RNum m mask x0 M = Some terms ->
  nllM M x = fR terms x /\ Forall (fun t => length (coefs RNum t) = m) terms.
Proof. intros Ha Hl [Hp Hg]. rewrite affine_terms_unfold.
  destruct (omap (bin_term m mask x0) (m_bins RNum M)) as [bins|] eqn:E; [|discriminate]. intros T. inversion T as [Et]. clear T Et.
  unfold nllM. rewrite !fR_app.
  destruct (bins_sound m mask x0 x Ha Hl _ _ E) as [B1 B2]. destruct (pois_sound m x Hl _ Hp) as [P1 P2].
  destruct (gaus_sound m x Hl _ Hg) as [G1 G2]. rewrite B1, P1, G1. split; [reflexivity|].
  apply Forall_app. split; [exact B2|]. apply Forall_app. split; assumption. Qed.

(* the certificate at the level of the rate model: for every theta that keeps the fixed coordinates of `ref` *)
Theorem kkt_certificate_model m mask ref M terms star w box :
  idx_ok m M -> affine_terms RNum m mask ref M = Some terms ->
  length star = m -> length w = m -> agree mask ref star -> agree mask ref w ->
  Forall (fun t => term_ok t star) terms -> in_box w box -> Forall (fun t => term_ok t w) terms ->
  forall theta, agree mask ref theta -> in_box theta box -> Forall (fun t => term_ok t theta) terms ->
  nllM M star - nllM M theta <= gapbound RNum terms star w + eps RNum terms w box.
Proof. intros Hi Ht Ls Lw As Aw Oks Bw Okw theta At Bt Okt.
  assert (Lt : length theta = m) by (rewrite (in_box_length _ _ Bt), <- (in_box_length _ _ Bw); exact Lw).
  destruct (affine_sound m mask ref M terms star As Ls Hi Ht) as [E1 S].
  destruct (affine_sound m mask ref M terms theta At Lt Hi Ht) as [E2 _].
  rewrite E1, E2. apply kkt_certificate_gap; auto. now rewrite Lw. Qed.
