(* C05/C13 - a small self-contained expected-rate model for the restricted model family used by the fit
   certificate and the gradient check (independent of the big engine):
     rate of one bin = sum over samples of (nominal + sum of histosys deltas) * product of the sample's
                       multiplicative parameters (normfactor, shapefactor, shapesys, staterror, lumi).
   Written once over `Num`: executed at Qc, at dual numbers over Qc (exact derivatives), analysed at R. *)
From Coq Require Import ZArith QArith Qcanon Reals Lra Lia Bool List.
Require Import PV.Num PV.FitCert.
Import ListNotations.
Local Open Scope list_scope.

Section Rate.
  Variable N : Num.
  Notation T := (V N).
  Notation "0" := (n0 N). Notation "1" := (n1 N).
  Infix "+" := (nadd N). Infix "*" := (nmul N). Infix "-" := (nsub N). Infix "/" := (ndiv N).

  Definition par (x : list T) (i : nat) : T := nth i x 0.

  (* additive histosys piece of one sample in one bin: interpolation code, down / up templates, parameter index *)
  Inductive icode := Code0 | Code2 | Code4p.
  Record hsys := { h_code : icode; h_lo : T; h_hi : T; h_par : nat }.
  Definition two := 1 + 1.
  Definition ofnat (k : nat) : T := nofZ N (Z.of_nat k).
  (* interpolators/code0.py, code2.py, code4p.py : the scalar function each tensor expression realises
     (same comparisons, so the same branch is taken on the breakpoints) *)
  Definition delta (h : hsys) (nom alpha : T) : T :=
    let up := h_hi h - nom in let dn := nom - h_lo h in
    match h_code h with
    | Code0 => if nltb N 0 alpha then up * alpha else dn * alpha
    | Code2 =>
        let a := (h_hi h + h_lo h) / two - nom in
        let b := (h_hi h - h_lo h) / two in
        if nltb N 1 alpha then (b + two * a) * (alpha - 1) + (a + b)
        else if nleb N (0 - 1) alpha then a * alpha * alpha + b * alpha
        else (b - two * a) * (alpha + 1) + (a - b)
    | Code4p =>
        let S := (up + dn) / two in
        let A := (up - dn) / ofnat 16 in
        if nltb N alpha (0 - 1) then dn * alpha
        else if nltb N 1 alpha then up * alpha
        else let q := alpha * alpha in
             (q * (q * (q * ofnat 3 - ofnat 10) + ofnat 15)) * A + alpha * S
    end.

  (* one sample in one bin *)
  Record cell := { c_nom : T; c_hs : list hsys; c_fac : list nat }.
  Fixpoint prod_par (x : list T) (idx : list nat) : T :=
    match idx with [] => 1 | i :: r => par x i * prod_par x r end.
  Definition cell_rate (x : list T) (c : cell) : T :=
    (fold_right (fun h acc => delta h (c_nom c) (par x (h_par h)) + acc) (c_nom c) (c_hs c)) * prod_par x (c_fac c).
  Definition bin_rate (x : list T) (cells : list cell) : T :=
    fold_right (fun c acc => cell_rate x c + acc) 0 cells.

  (* the whole objective's ingredients: main bins with their observed counts, Poisson auxiliary terms
     (rate tau * gamma, observed aux), Gaussian terms (weight 1/sigma^2, aux, parameter index) *)
  Record model := {
    m_bins : list (T * list cell);            (* (n_b, cells) *)
    m_pois : list (T * T * nat);              (* (aux, tau, parameter index) *)
    m_gaus : list (T * T * nat)               (* (w, aux, parameter index) *)
  }.


  (* ---- reduction to the affine form of FitCert when the mask leaves at most one free factor per sample ---- *)
  Fixpoint split_fac (mask : list bool) (x : list T) (idx : list nat) : T * list nat :=
    match idx with
    | [] => (1, [])
    | i :: r => let '(k, fr) := split_fac mask x r in
                if nth i mask false then (par x i * k, fr) else (k, i :: fr)
    end.
  Fixpoint unit_vec (m i : nat) (v : T) : list T :=
    match m with O => [] | S m' => match i with O => v :: repeat 0 m' | S i' => 0 :: unit_vec m' i' v end end.
  Definition affine_cell (m : nat) (mask : list bool) (x : list T) (c : cell) : option (T * list T) :=
    match c_hs c with
    | _ :: _ => None
    | [] => let '(k, fr) := split_fac mask x (c_fac c) in
            match fr with
            | [] => Some (c_nom c * k, repeat 0 m)
            | [i] => if Nat.ltb i m then Some (0, unit_vec m i (c_nom c * k)) else None
            | _ => None end
    end.
  Fixpoint affine_bin (m : nat) (mask : list bool) (x : list T) (cells : list cell) : option (T * list T) :=
    match cells with
    | [] => Some (0, repeat 0 m)
    | c :: r => match affine_cell m mask x c, affine_bin m mask x r with
                | Some (k1, a1), Some (k2, a2) => Some (k1 + k2, vadd N a1 a2)
                | _, _ => None end
    end.
  Fixpoint omap {X Y} (f : X -> option Y) (l : list X) : option (list Y) :=
    match l with [] => Some [] | a :: r => match f a, omap f r with Some b, Some r' => Some (b :: r') | _, _ => None end end.
  Definition affine_terms (m : nat) (mask : list bool) (x : list T) (M : model) : option (list (term N)) :=
    match omap (fun nb => match affine_bin m mask x (snd nb) with
                          | Some (c, a) => Some (TPois (fst nb) c a) | None => None end) (m_bins M) with
    | None => None
    | Some bins =>
        Some (bins
              ++ map (fun p => let '(aux, tau, i) := p in TPois aux 0 (unit_vec m i tau)) (m_pois M)
              ++ map (fun g => let '(w, aux, i) := g in TGauss w aux 0 (unit_vec m i 1)) (m_gaus M))
    end.
  (* box of the certificate: fixed coordinates are pinned to their value *)
  Fixpoint pinned_box (mask : list bool) (x : list T) (bounds : list (T * T)) : list (T * T) :=
    match x, bounds with
    | xi :: x', b :: b' => (match mask with true :: _ => (xi, xi) | _ => b end) :: pinned_box (tl mask) x' b'
    | _, _ => [] end.
End Rate.

Arguments Build_hsys {N}. Arguments Build_cell {N}. Arguments Build_model {N}.
