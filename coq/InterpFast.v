(* C03 - hand model of the vectorised interpolators (pyhf/interpolators/code{0,1,2,4,4p}.py, classes
   code0 .. code4p): literal transcription of `__init__` / `_precompute` / `_precompute_alphasets` /
   `__call__`, specialised to one (set s, histogram h, alpha index a, bin b) cell, and the per-instance
   shape cache as a state machine.

   Conventions of the transcription
   * einsum 'sa,shb->shab' (x, y)   : cell value x[s][a] * y[s][h][b]   (same operand order)
   * tensorlib.where(c, x, y)       : pointwise `if`
   * astensor(t, dtype="bool")      : t <> 0                                     ([nonzero])
   * tensorlib.ones / zeros         : n1 / n0 ; python literals: nofZ / nofQ (exact value of the literal)
   * tensorlib.power(x, k), literal non-negative integer k : [npow] (x * ... * x) ; power(x, y) otherwise: [tpow]
   * the cached tensors (mask_on, mask_off, bases_up, bases_dn, ones) are *arguments* of the cell functions;
     the state machine below supplies them from the cache it maintains. *)
From Coq Require Import ZArith Bool Lia List.
Require Import PV.Num PV.TNum.
Import ListNotations.
Local Open Scope list_scope.

Section Cells.
  Variable T : TNum.
  Notation V := (V T).
  Notation "0" := (n0 T).
  Notation "1" := (n1 T).
  Infix "+" := (nadd T).
  Infix "*" := (nmul T).
  Infix "-" := (nsub T).
  Infix "/" := (ndiv T).
  Notation "- x" := (nopp T x).
  Notation "x <? y" := (nltb T x y).
  Notation "x <=? y" := (nleb T x y).
  Notation Z2V := (nofZ T).

  Definition nonzero (x : V) : bool := negb (neqb T x 0).
  Definition triple := (V * V * V)%type.             (* (down, nominal, up) of one bin *)

  (* ---- code0.py ------------------------------------------------------------------------ *)
  Definition fast0_cell (on off bu bd one : V) (t : triple) (alpha : V) : V :=
    let '(lo, nom, hi) := t in
    let deltas_up := hi - nom in
    let deltas_dn := nom - lo in
    let broadcast_helper := 1 in
    let where_alphasets_positive := if 0 <? alpha then on else off in
    let alphas_times_deltas_up := alpha * deltas_up in
    let alphas_times_deltas_dn := alpha * deltas_dn in
    let masks := nonzero (where_alphasets_positive * broadcast_helper) in
    if masks then alphas_times_deltas_up else alphas_times_deltas_dn.

  (* ---- code1.py ------------------------------------------------------------------------ *)
  Definition deltas_up_mul (t : triple) : V := let '(lo, nom, hi) := t in hi / nom.
  Definition deltas_dn_mul (t : triple) : V := let '(lo, nom, hi) := t in lo / nom.

  Definition fast1_cell (on off bu bd one : V) (t : triple) (alpha : V) : V :=
    let broadcast_helper := 1 in
    let where_alphasets_positive := if 0 <? alpha then on else off in
    let exponents := nabs alpha * broadcast_helper in
    let masks := nonzero (where_alphasets_positive * broadcast_helper) in
    let bases := if masks then bu else bd in
    tpow T bases exponents.

  (* ---- code2.py ------------------------------------------------------------------------ *)
  Definition fast2_cell (on off bu bd one : V) (t : triple) (alpha : V) : V :=
    let '(lo, nom, hi) := t in
    let a := nofQ 1 2 * (hi + lo) - nom in
    let b := nofQ 1 2 * (hi - lo) in
    let b_plus_2a := b + Z2V 2 * a in
    let b_minus_2a := b - Z2V 2 * a in
    let broadcast_helper := 1 in
    let where_alphasets_gt1 := if Z2V 1 <? alpha then on else off in
    let where_alphasets_not_lt1 := if Z2V (-1) <=? alpha then on else off in
    let value_gt1 := (alpha - on) * b_plus_2a + on * (a + b) in
    let value_btwn := alpha * alpha * a + alpha * b in
    let value_lt1 := (alpha + on) * b_minus_2a + on * (a - b) in
    let masks_gt1 := nonzero (where_alphasets_gt1 * broadcast_helper) in
    let masks_not_lt1 := nonzero (where_alphasets_not_lt1 * broadcast_helper) in
    let results_gt1_btwn := if masks_gt1 then value_gt1 else value_btwn in
    if masks_not_lt1 then results_gt1_btwn else value_lt1.

  (* ---- code4.py ------------------------------------------------------------------------ *)
  (* the typed-in inverse matrix, as a function of alpha0 (shape of every entry as in the source) *)
  Definition A_inverse (alpha0 : V) : list (list V) :=
    [[Z2V 15 / (Z2V 16 * alpha0); (- Z2V 15) / (Z2V 16 * alpha0); (- Z2V 7) / Z2V 16; (- Z2V 7) / Z2V 16;
      Z2V 1 / Z2V 16 * alpha0; (- Z2V 1) / Z2V 16 * alpha0];
     [Z2V 3 / (Z2V 2 * npow alpha0 2); Z2V 3 / (Z2V 2 * npow alpha0 2); (- Z2V 9) / (Z2V 16 * alpha0);
      Z2V 9 / (Z2V 16 * alpha0); Z2V 1 / Z2V 16; Z2V 1 / Z2V 16];
     [(- Z2V 5) / (Z2V 8 * npow alpha0 3); Z2V 5 / (Z2V 8 * npow alpha0 3); Z2V 5 / (Z2V 8 * npow alpha0 2);
      Z2V 5 / (Z2V 8 * npow alpha0 2); (- Z2V 1) / (Z2V 8 * alpha0); Z2V 1 / (Z2V 8 * alpha0)];
     [Z2V 3 / (Z2V (-2) * npow alpha0 4); Z2V 3 / (Z2V (-2) * npow alpha0 4); (- Z2V 7) / (Z2V (-8) * npow alpha0 3);
      Z2V 7 / (Z2V (-8) * npow alpha0 3); (- Z2V 1) / (Z2V 8 * npow alpha0 2); (- Z2V 1) / (Z2V 8 * npow alpha0 2)];
     [Z2V 3 / (Z2V 16 * npow alpha0 5); (- Z2V 3) / (Z2V 16 * npow alpha0 5); (- Z2V 3) / (Z2V 16 * npow alpha0 4);
      (- Z2V 3) / (Z2V 16 * npow alpha0 4); Z2V 1 / (Z2V 16 * npow alpha0 3); (- Z2V 1) / (Z2V 16 * npow alpha0 3)];
     [Z2V 1 / (Z2V 2 * npow alpha0 6); Z2V 1 / (Z2V 2 * npow alpha0 6); (- Z2V 5) / (Z2V 16 * npow alpha0 5);
      Z2V 5 / (Z2V 16 * npow alpha0 5); Z2V 1 / (Z2V 16 * npow alpha0 4); Z2V 1 / (Z2V 16 * npow alpha0 4)]].

  (* einsum over one contracted index: x0*y0 + x1*y1 + ... (no initial zero) *)
  Fixpoint dot_from (acc : V) (xs ys : list V) : V :=
    match xs, ys with
    | x :: xs', y :: ys' => dot_from (acc + x * y) xs' ys'
    | _, _ => acc
    end.
  Definition dot (xs ys : list V) : V :=
    match xs, ys with
    | x :: xs', y :: ys' => dot_from (x * y) xs' ys'
    | _, _ => 0
    end.

  (* __init__: b vector and the six coefficients of one (s, h, b) cell *)
  Definition code4_b (alpha0 : V) (t : triple) : list V :=
    let deltas_up := deltas_up_mul t in
    let deltas_dn := deltas_dn_mul t in
    let broadcast_helper := 1 in
    let alpha0_t := broadcast_helper * alpha0 in
    let deltas_up_alpha0 := tpow T deltas_up alpha0_t in
    let deltas_dn_alpha0 := tpow T deltas_dn alpha0_t in
    [deltas_up_alpha0 - broadcast_helper;
     deltas_dn_alpha0 - broadcast_helper;
     tln T deltas_up * deltas_up_alpha0;
     (- tln T deltas_dn) * deltas_dn_alpha0;
     npow (tln T deltas_up) 2 * deltas_up_alpha0;
     npow (tln T deltas_dn) 2 * deltas_dn_alpha0].
  (* einsum 'rc,shb,cshb->rshb' (A_inverse, broadcast_helper, b) *)
  Definition code4_coefficients (alpha0 : V) (t : triple) : list V :=
    let b := code4_b alpha0 t in
    map (fun row => dot (map (fun x => x * 1) row) b) (A_inverse alpha0).

  Definition fast4_cell (alpha0 : V) (on off bu bd one : V) (t : triple) (alpha : V) : V :=
    let broadcast_helper := 1 in
    let coefficients := code4_coefficients alpha0 t in
    let where_alphasets_gtalpha0 := if alpha0 <=? alpha then on else off in
    let masks_gtalpha0 := nonzero (where_alphasets_gtalpha0 * broadcast_helper) in
    let where_alphasets_not_ltalpha0 := if (- alpha0) <? alpha then on else off in
    let masks_not_ltalpha0 := nonzero (where_alphasets_not_ltalpha0 * broadcast_helper) in
    let exponents := nabs alpha * broadcast_helper in
    let masked_exponents := if alpha0 <=? exponents then exponents else one in
    let alphasets_powers := [alpha; npow alpha 2; npow alpha 3; npow alpha 4; npow alpha 5; npow alpha 6] in
    let value_btwn := 1 + dot coefficients alphasets_powers in
    let results_gtalpha0_btwn := if masks_gtalpha0 then bu else value_btwn in
    let bases := if masks_not_ltalpha0 then results_gtalpha0_btwn else bd in
    tpow T bases masked_exponents.

  (* ---- code4p.py ----------------------------------------------------------------------- *)
  Definition fast4p_cell (on off bu bd one : V) (t : triple) (alpha : V) : V :=
    let '(lo, nom, hi) := t in
    let deltas_up := hi - nom in
    let deltas_dn := nom - lo in
    let S := nofQ 1 2 * (deltas_up + deltas_dn) in
    let A := nofQ 1 16 * (deltas_up - deltas_dn) in
    let broadcast_helper := 1 in
    let where_alphasets_greater_p1 := if Z2V 1 <? alpha then on else off in
    let where_alphasets_smaller_m1 := if alpha <? Z2V (-1) then on else off in
    let alphas_times_deltas_up := alpha * deltas_up in
    let alphas_times_deltas_dn := alpha * deltas_dn in
    let asquare := npow alpha 2 in
    let tmp1 := asquare * Z2V 3 - Z2V 10 in
    let tmp2 := asquare * tmp1 + Z2V 15 in
    let tmp3 := asquare * tmp2 in
    let tmp3_times_A := tmp3 * A in
    let alphas_times_S := alpha * S in
    let deltas := tmp3_times_A + alphas_times_S in
    let masks_p1 := nonzero (where_alphasets_greater_p1 * broadcast_helper) in
    let masks_m1 := nonzero (where_alphasets_smaller_m1 * broadcast_helper) in
    if masks_m1 then alphas_times_deltas_dn else (if masks_p1 then alphas_times_deltas_up else deltas).

  (* the canonical content of the cache for one cell, and the stateless per-cell functions *)
  Definition canon (cell : V -> V -> V -> V -> V -> triple -> V -> V) (dup ddn : triple -> V) (t : triple) (alpha : V) : V :=
    cell 1 0 (1 * dup t) (1 * ddn t) (1 * 1) t alpha.
  Definition no_base (t : triple) : V := 0.
  Definition fast_code0 lo nom hi alpha := canon fast0_cell no_base no_base (lo, nom, hi) alpha.
  Definition fast_code1 lo nom hi alpha := canon fast1_cell deltas_up_mul deltas_dn_mul (lo, nom, hi) alpha.
  Definition fast_code2 lo nom hi alpha := canon fast2_cell no_base no_base (lo, nom, hi) alpha.
  Definition fast_code4 alpha0 lo nom hi alpha := canon (fast4_cell alpha0) deltas_up_mul deltas_dn_mul (lo, nom, hi) alpha.
  Definition fast_code4p lo nom hi alpha := canon fast4p_cell no_base no_base (lo, nom, hi) alpha.

  (* ======================================================================================= *)
  (* the per-instance shape cache as a state machine                                          *)
  (* ======================================================================================= *)
  Section Machine.
    Variable cell : V -> V -> V -> V -> V -> triple -> V -> V.   (* on off bases_up bases_dn ones, triple, alpha *)
    Variables dup ddn : triple -> V.                             (* deltas_up / deltas_dn (codes 1 and 4) *)
    Variable hs : list (list (list triple)).                     (* histogramssets [s][h][b] *)

    Record istate := mkState {
      st_shape : nat * nat;                                      (* self.alphasets_shape *)
      st_on : list (list V); st_off : list (list V);             (* mask_on, mask_off  [s][a] *)
      st_bu : list (list (list (list V)));                       (* bases_up [s][h][a][b] *)
      st_bd : list (list (list (list V)));
      st_ones : list (list (list (list V)))
    }.

    Definition full2 (sh : nat * nat) (x : V) : list (list V) := repeat (repeat x (snd sh)) (fst sh).
    Definition einsum_sa_shb (x : list (list V)) (y : list (list (list V))) : list (list (list (list V))) :=
      map (fun p => map (fun yb => map (fun xa => map (fun yv => xa * yv) yb) (fst p)) (snd p)) (combine x y).

    (* everything `_precompute` / `_precompute_alphasets` derive from a shape.  (Codes 0, 2, 4p keep only the
       two masks; their cell functions ignore the other three components.) *)
    Definition refresh (sh : nat * nat) : istate :=
      mkState sh (full2 sh 1) (full2 sh 0)
              (einsum_sa_shb (full2 sh 1) (map (map (map dup)) hs))
              (einsum_sa_shb (full2 sh 1) (map (map (map ddn)) hs))
              (einsum_sa_shb (full2 sh 1) (map (map (map (fun _ => 1))) hs)).

    Definition init : istate := refresh (length hs, 1%nat).        (* __init__: shape (nsysts, 1), then _precompute *)
    Definition precompute (st : istate) : istate := refresh (st_shape st).   (* tensorlib_changed event *)
    Definition shape_eqb (a b : nat * nat) : bool := Nat.eqb (fst a) (fst b) && Nat.eqb (snd a) (snd b).
    Definition precompute_alphasets (st : istate) (sh : nat * nat) : istate :=
      if shape_eqb sh (st_shape st) then st else refresh sh.

    Definition shape_of (alphas : list (list V)) : nat * nat := (length alphas, length (hd [] alphas)).
    Definition get2 (t : list (list V)) s a : V := nth a (nth s t []) 0.
    Definition get4 (t : list (list (list (list V)))) s h a b : V := nth b (nth a (nth h (nth s t []) []) []) 0.
    Definition get_triple s h b : triple := nth b (nth h (nth s hs []) []) (0, 0, 0).

    (* every array operation of __call__ is elementwise on tensors of shape [s][h][a][b] *)
    Definition run_call (st : istate) (alphas : list (list V)) : list (list (list (list V))) :=
      map (fun s =>
        map (fun h =>
          map (fun a =>
            map (fun b =>
              cell (get2 (st_on st) s a) (get2 (st_off st) s a)
                   (get4 (st_bu st) s h a b) (get4 (st_bd st) s h a b) (get4 (st_ones st) s h a b)
                   (get_triple s h b) (get2 alphas s a))
              (seq 0 (length (nth h (nth s hs []) []))))
            (seq 0 (snd (shape_of alphas))))
          (seq 0 (length (nth s hs []))))
        (seq 0 (fst (shape_of alphas))).

    Definition call (st : istate) (alphas : list (list V)) : istate * list (list (list (list V))) :=
      let st' := precompute_alphasets st (shape_of alphas) in (st', run_call st' alphas).

    Inductive event := EvCall (alphas : list (list V)) | EvBackendChanged.
    Definition step (st : istate) (e : event) : istate :=
      match e with EvCall al => fst (call st al) | EvBackendChanged => precompute st end.
    Definition run (evs : list event) : istate := fold_left step evs init.

    (* the stateless function: no cache, one cell function applied at every index *)
    Definition stateless (alphas : list (list V)) : list (list (list (list V))) :=
      map (fun p => map (fun histo => map (fun alpha => map (fun t => canon cell dup ddn t alpha) histo) (fst p)) (snd p))
          (combine alphas hs).

    Definition Inv (st : istate) : Prop := st = refresh (st_shape st).
    Definition rect (alphas : list (list V)) : Prop := forall row, In row alphas -> length row = length (hd [] alphas).

    Lemma Inv_init : Inv init.
    Proof. reflexivity. Qed.
    Lemma Inv_precompute st : Inv (precompute st).
    Proof. reflexivity. Qed.
    Lemma Inv_precompute_alphasets st sh : Inv st -> Inv (precompute_alphasets st sh).
    Proof. intro H. unfold precompute_alphasets. destruct (shape_eqb sh (st_shape st)); [exact H | reflexivity]. Qed.
    Lemma Inv_call st al : Inv st -> Inv (fst (call st al)).
    Proof. apply Inv_precompute_alphasets. Qed.
    Lemma Inv_step st e : Inv st -> Inv (step st e).
    Proof. destruct e; simpl; [apply Inv_call | intros _; apply Inv_precompute]. Qed.
    Lemma Inv_run evs : Inv (run evs).
    Proof.
      unfold run. generalize Inv_init. generalize init. induction evs as [|e evs IH]; intros st H; simpl; auto.
      apply IH. apply Inv_step; auto.
    Qed.

    Lemma shape_eqb_eq a b : shape_eqb a b = true -> a = b.
    Proof. destruct a, b. unfold shape_eqb; simpl. intro H. apply andb_prop in H. destruct H as [H1 H2].
      apply Nat.eqb_eq in H1, H2. congruence. Qed.

    Lemma call_state st al : Inv st -> fst (call st al) = refresh (shape_of al).
    Proof.
      intro H. unfold call, precompute_alphasets; simpl.
      destruct (shape_eqb (shape_of al) (st_shape st)) eqn:E; auto.
      apply shape_eqb_eq in E. rewrite E. exact H.
    Qed.

    (* ---- index bookkeeping ---- *)
    Lemma nth_repeat_lt {A} (x d : A) n i : (i < n)%nat -> nth i (repeat x n) d = x.
    Proof. revert i; induction n; intros i Hi; [lia|]. destruct i; simpl; auto. apply IHn; lia. Qed.

    Lemma get2_full2 sh x s a : (s < fst sh)%nat -> (a < snd sh)%nat -> get2 (full2 sh x) s a = x.
    Proof. intros Hs Ha. unfold get2, full2. rewrite (nth_repeat_lt _ _ _ _ Hs). apply nth_repeat_lt; auto. Qed.

    Lemma map_seq_nth {A B} (f : A -> B) (l : list A) d : map f l = map (fun i => f (nth i l d)) (seq 0 (length l)).
    Proof.
      induction l as [|x l IH]; simpl; auto. f_equal. rewrite IH at 1. rewrite <- seq_shift, map_map. reflexivity.
    Qed.

    Lemma nth_map_lt {A B} (f : A -> B) l i d d' : (i < length l)%nat -> nth i (map f l) d = f (nth i l d').
    Proof. revert i; induction l; simpl; intros i Hi; [lia|]. destruct i; auto. apply IHl; lia. Qed.

    Lemma get4_einsum sh (y : list (list (list V))) s h a b :
      fst sh = length y -> (s < fst sh)%nat -> (a < snd sh)%nat -> (h < length (nth s y []))%nat ->
      (b < length (nth h (nth s y []) []))%nat ->
      get4 (einsum_sa_shb (full2 sh 1) y) s h a b = 1 * nth b (nth h (nth s y []) []) 0.
    Proof.
      intros Hy Hs Ha Hh Hb. unfold get4, einsum_sa_shb.
      assert (Hlen : length (full2 sh 1) = fst sh) by (unfold full2; apply repeat_length).
      rewrite (nth_map_lt _ _ _ _ ([], [])) by (rewrite combine_length, Hlen; lia).
      rewrite combine_nth by lia.
      simpl fst; simpl snd.
      rewrite (nth_map_lt _ _ _ _ []) by auto.
      assert (Hrow : nth s (full2 sh 1) [] = repeat 1 (snd sh)) by (unfold full2; apply nth_repeat_lt; auto).
      rewrite Hrow.
      rewrite (nth_map_lt _ _ _ _ 0) by (rewrite repeat_length; auto).
      rewrite (nth_repeat_lt _ _ _ _ Ha).
      rewrite (nth_map_lt _ _ _ _ 0) by auto.
      reflexivity.
    Qed.

    Lemma nth3_map (f : triple -> V) s h b :
      (s < length hs)%nat -> (h < length (nth s hs []))%nat -> (b < length (nth h (nth s hs []) []))%nat ->
      nth b (nth h (nth s (map (map (map f)) hs) []) []) 0 = f (get_triple s h b)
      /\ length (nth s (map (map (map f)) hs) []) = length (nth s hs [])
      /\ length (nth h (nth s (map (map (map f)) hs) []) []) = length (nth h (nth s hs []) []).
    Proof.
      intros Hs Hh Hb. unfold get_triple.
      rewrite (nth_map_lt _ _ _ _ []) by auto.
      rewrite map_length.
      rewrite (nth_map_lt _ _ _ _ []) by auto.
      rewrite map_length.
      rewrite (nth_map_lt _ _ _ _ (0, 0, 0)) by auto.
      auto.
    Qed.

    Lemma get4_refresh (f : triple -> V) sh s h a b :
      fst sh = length hs -> (s < fst sh)%nat -> (a < snd sh)%nat -> (h < length (nth s hs []))%nat ->
      (b < length (nth h (nth s hs []) []))%nat ->
      get4 (einsum_sa_shb (full2 sh 1) (map (map (map f)) hs)) s h a b = 1 * f (get_triple s h b).
    Proof.
      intros Hy Hs Ha Hh Hb.
      destruct (nth3_map f s h b) as (E1 & E2 & E3); try lia.
      rewrite get4_einsum; try (rewrite ?map_length; lia); try lia.
      rewrite E1; reflexivity.
    Qed.

    Lemma run_call_refresh alphas : rect alphas -> length alphas = length hs ->
      run_call (refresh (shape_of alphas)) alphas = stateless alphas.
    Proof.
      intros Hrect Hlen. unfold run_call, stateless.
      rewrite (map_seq_nth _ (combine alphas hs) ([], [])).
      rewrite combine_length, <- Hlen, Nat.min_id.
      simpl fst at 1.
      apply map_ext_in. intros s Hs. apply in_seq in Hs. simpl in Hs.
      rewrite combine_nth by auto. simpl fst; simpl snd.
      rewrite (map_seq_nth _ (nth s hs []) []).
      apply map_ext_in. intros h Hh. apply in_seq in Hh. simpl in Hh.
      assert (Hrow : length (nth s alphas []) = snd (shape_of alphas)).
      { simpl. apply Hrect. apply nth_In. lia. }
      rewrite (map_seq_nth _ (nth s alphas []) 0). rewrite Hrow.
      apply map_ext_in. intros a Ha. apply in_seq in Ha. simpl in Ha.
      rewrite (map_seq_nth _ (nth h (nth s hs []) []) (0, 0, 0)).
      apply map_ext_in. intros b Hb. apply in_seq in Hb. simpl in Hb.
      unfold canon. simpl st_on; simpl st_off; simpl st_bu; simpl st_bd; simpl st_ones.
      rewrite !get2_full2 by (simpl; lia).
      rewrite !get4_refresh by (simpl; lia).
      reflexivity.
    Qed.

    Theorem call_history_independent evs alphas : rect alphas -> length alphas = length hs ->
      snd (call (run evs) alphas) = stateless alphas.
    Proof.
      intros Hrect Hlen.
      assert (E : fst (call (run evs) alphas) = refresh (shape_of alphas)) by (apply call_state, Inv_run).
      unfold call in *. simpl in *. rewrite E. apply run_call_refresh; auto.
    Qed.

    (* in particular: same answer as a freshly constructed interpolator *)
    Corollary call_same_as_fresh evs alphas : rect alphas -> length alphas = length hs ->
      snd (call (run evs) alphas) = snd (call init alphas).
    Proof.
      intros Hrect Hlen. rewrite (call_history_independent evs), (call_history_independent []); auto.
    Qed.
  End Machine.
End Cells.
