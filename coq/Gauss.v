(* C07 / C04 - the Gaussian integral  int_0^oo exp(-x^2) dx = sqrt PI / 2,  proved in Coquelicot, and with it the premise
   `gauss_total_stmt` of AsymptPhi.v (the normal cdf tends to 0 at minus infinity).
   Route:  F t = (int_0^t exp(-x^2) dx)^2 ,  G t = int_0^1 exp(-t^2 (1+x^2)) / (1+x^2) dx.
   F' t = 2 exp(-t^2) int_0^t exp(-x^2) dx = (x = t y) int_0^1 2 t exp(-t^2 (1+y^2)) dy = - G' t
   (differentiation under the integral sign), so F + G = G 0 = atan 1 = PI/4 ; 0 <= G t <= exp(-t^2). *)
From Coq Require Import Reals Lra List.
From Coquelicot Require Import Coquelicot.
From Interval Require Import Tactic.
Require Import PV.Num PV.Asympt PV.AsymptPhi.
Import ListNotations.
Local Open Scope R_scope.

Definition gexp (x : R) : R := exp (- (x * x)).
Lemma gexp_pos x : 0 < gexp x. Proof. apply exp_pos. Qed.
Lemma gexp_continuous x : continuous gexp x.
Proof. apply (ex_derive_continuous gexp x). unfold gexp. auto_derive. trivial. Qed.
Lemma gexp_ex_RInt a b : ex_RInt gexp a b.
Proof. apply (ex_RInt_continuous gexp). intros z _. apply gexp_continuous. Qed.
Definition gI (t : R) : R := RInt gexp 0 t.
Lemma gI_derive (t : R) : is_derive gI t (gexp t).
Proof. apply (is_derive_RInt gexp gI 0 t).
  - apply filter_forall. intro b. apply (RInt_correct gexp 0 b). apply gexp_ex_RInt.
  - apply gexp_continuous. Qed.
Lemma gI_0 : gI 0 = 0.
Proof. unfold gI. rewrite RInt_point. reflexivity. Qed.
Lemma gI_nonneg t : 0 <= t -> 0 <= gI t.
Proof. intro H. apply RInt_ge_0; [assumption|apply gexp_ex_RInt|]. intros x _. left. apply gexp_pos. Qed.

Definition gK (t x : R) : R := exp (- (t * t * (1 + x * x))) / (1 + x * x).
Definition gdK (t x : R) : R := - (2 * t) * exp (- (t * t * (1 + x * x))).
Definition gG (t : R) : R := RInt (gK t) 0 1.

Lemma sq1_pos x : 0 < 1 + x * x.
Proof. pose proof (Rle_0_sqr x) as H. unfold Rsqr in H. lra. Qed.

Lemma gK_continuous t x : continuous (gK t) x.
Proof. apply (ex_derive_continuous (gK t) x). unfold gK. auto_derive. pose proof (sq1_pos x). repeat split; trivial; lra. Qed.
Lemma gK_ex_RInt t a b : ex_RInt (gK t) a b.
Proof. apply (ex_RInt_continuous (gK t)). intros z _. apply gK_continuous. Qed.
Lemma gdK_continuous t x : continuous (gdK t) x.
Proof. apply (ex_derive_continuous (gdK t) x). unfold gdK. auto_derive. trivial. Qed.
Lemma gdK_ex_RInt t a b : ex_RInt (gdK t) a b.
Proof. apply (ex_RInt_continuous (gdK t)). intros z _. apply gdK_continuous. Qed.

Lemma gdK_cont2 t x : continuity_2d_pt gdK t x.
Proof. unfold gdK.
  apply continuity_2d_pt_mult.
  - apply continuity_2d_pt_opp. apply continuity_2d_pt_mult; [apply continuity_2d_pt_const|apply continuity_2d_pt_id1].
  - apply (continuity_1d_2d_pt_comp exp (fun t x => - (t * t * (1 + x * x)))).
    + apply derivable_continuous_pt. apply derivable_pt_exp.
    + apply continuity_2d_pt_opp. apply continuity_2d_pt_mult.
      * apply continuity_2d_pt_mult; apply continuity_2d_pt_id1.
      * apply continuity_2d_pt_plus; [apply continuity_2d_pt_const|apply continuity_2d_pt_mult; apply continuity_2d_pt_id2]. Qed.

Lemma gdK_alt (t x : R) : - ((1 * t + t * 1) * (1 + x * x)) * exp (- (t * t * (1 + x * x))) * / (1 + x * x) = gdK t x.
Proof. unfold gdK. pose proof (sq1_pos x). field; lra. Qed.

Lemma gG_derive (t : R) : is_derive gG t (RInt (gdK t) 0 1).
Proof. unfold gG, gK. auto_derive.
  - split; [|split; [|trivial]].
    + apply filter_forall. intro s. apply (gK_ex_RInt s 0 1).
    + intros x _. apply (continuity_2d_pt_ext gdK); [|apply gdK_cont2].
      intros s y. symmetry. apply gdK_alt.
  - apply RInt_ext. intros x _. apply gdK_alt. Qed.

(* substitution x = t y *)
Lemma gI_subst (t : R) : RInt (fun y => t * gexp (t * y)) 0 1 = gI t.
Proof. unfold gI. pose proof (RInt_comp_lin gexp t 0 0 1) as H.
  replace (t * 0 + 0) with 0 in H by ring. replace (t * 1 + 0) with t in H by ring.
  rewrite <- H by apply gexp_ex_RInt. apply RInt_ext. intros y _. unfold scal; simpl; unfold mult; simpl.
  replace (t * y + 0) with (t * y) by ring. reflexivity. Qed.

Lemma gsub_ex_RInt (t a b : R) : ex_RInt (fun y => t * gexp (t * y)) a b.
Proof. apply (ex_RInt_continuous (fun y => t * gexp (t * y))). intros z _.
  apply (ex_derive_continuous (fun y => t * gexp (t * y)) z). unfold gexp. auto_derive. trivial. Qed.

Lemma gdK_RInt (t : R) : RInt (gdK t) 0 1 = - (2 * gexp t * gI t).
Proof. rewrite <- gI_subst.
  replace (- (2 * gexp t * RInt (fun y => t * gexp (t * y)) 0 1)) with (scal (- (2 * gexp t)) (RInt (fun y => t * gexp (t * y)) 0 1))
    by (unfold scal; simpl; unfold mult; simpl; ring).
  rewrite <- (RInt_scal (fun y => t * gexp (t * y)) 0 1 (- (2 * gexp t)) (gsub_ex_RInt t 0 1)).
  apply RInt_ext. intros y _. unfold scal; simpl; unfold mult; simpl. unfold gdK, gexp.
  replace (- (t * t * (1 + y * y))) with (- (t * t) + - (t * y * (t * y))) by ring. rewrite exp_plus. ring. Qed.

Lemma Derive_gI : forall z, Derive (fun x : R => gI x) z = gexp z.
Proof. intro z. apply is_derive_unique. apply gI_derive. Qed.

Definition gF (t : R) : R := gI t * gI t.
Lemma gF_derive (t : R) : is_derive gF t (2 * gexp t * gI t).
Proof. unfold gF. auto_derive.
  - split; [eexists; apply gI_derive|]. split; [eexists; apply gI_derive|trivial].
  - rewrite Derive_gI. ring. Qed.

Definition gH (t : R) : R := gF t + gG t.
Lemma gH_derive (t : R) : is_derive gH t 0.
Proof. unfold gH. replace 0 with (2 * gexp t * gI t + RInt (gdK t) 0 1) by (rewrite gdK_RInt; ring).
  apply (is_derive_plus gF gG t). apply gF_derive. apply gG_derive. Qed.

Lemma gH_const (t : R) : gH t = gH 0.
Proof. destruct (MVT_gen gH 0 t (fun _ => 0)) as (c & _ & E).
  - intros z _. apply gH_derive.
  - intros z _. apply continuity_pt_filterlim. apply (ex_derive_continuous gH z). eexists. apply gH_derive.
  - lra. Qed.

Lemma gG_0 : gG 0 = PI / 4.
Proof. unfold gG.
  assert (H : is_RInt (fun x => / (1 + Rsqr x)) 0 1 (minus (atan 1) (atan 0))).
  { apply (is_RInt_derive atan (fun x => / (1 + Rsqr x)) 0 1).
    - intros x _. apply is_derive_atan.
    - intros x _. apply (ex_derive_continuous (fun x => / (1 + Rsqr x)) x). auto_derive. pose proof (sq1_pos x). unfold Rsqr. lra. }
  apply (@is_RInt_unique R_CompleteNormedModule) in H. rewrite atan_1, atan_0 in H. unfold minus, plus, opp in H; simpl in H.
  assert (E : forall x : R, gK 0 x = / (1 + Rsqr x)).
  { intro x. unfold gK, Rsqr. replace (- (0 * 0 * (1 + x * x))) with 0 by ring. rewrite exp_0. pose proof (sq1_pos x). field. lra. }
  replace (PI / 4) with (PI / 4 + - 0) by ring. rewrite <- H. apply RInt_ext. intros x _. apply E. Qed.

Lemma gH_val (t : R) : gF t + gG t = PI / 4.
Proof. change (gH t = PI / 4). rewrite gH_const. unfold gH, gF. rewrite gI_0, gG_0. ring. Qed.

Lemma gG_bound (t : R) : 0 <= gG t <= gexp t.
Proof. unfold gG. split.
  - apply RInt_ge_0; [lra|apply gK_ex_RInt|]. intros x _. unfold gK. left. apply Rdiv_lt_0_compat; [apply exp_pos|apply sq1_pos].
  - replace (gexp t) with (RInt (fun _ => gexp t) 0 1) by (rewrite RInt_const; unfold scal; simpl; unfold mult; simpl; ring).
    apply RInt_le; [lra|apply gK_ex_RInt|apply ex_RInt_const|]. intros x _. unfold gK, gexp.
    pose proof (sq1_pos x) as Hx. pose proof (Rle_0_sqr x) as Hx2. unfold Rsqr in Hx2.
    apply Rle_trans with (exp (- (t * t * (1 + x * x)))).
    + apply Rle_div_l; [assumption|]. pose proof (exp_pos (- (t * t * (1 + x * x)))). nra.
    + destruct (Req_dec (t * t * (x * x)) 0) as [E | E].
      * right. f_equal. nra.
      * left. apply exp_increasing. pose proof (Rle_0_sqr t) as Ht. unfold Rsqr in Ht. nra. Qed.

(* ---- from F + G = PI/4 and 0 <= G <= exp(-t^2): the half-line integral of exp(-x^2) ---- *)
Definition gc : R := sqrt PI / 2.
Lemma gc_pos : 0 < gc.
Proof. unfold gc. pose proof (sqrt_lt_R0 PI PI_RGT_0). lra. Qed.
Lemma gc_sqr : gc * gc = PI / 4.
Proof. unfold gc. pose proof (sqrt_sqrt PI (Rlt_le _ _ PI_RGT_0)) as H. lra. Qed.

Lemma gI_bounds (t : R) : 0 <= t -> gc - gexp t / gc <= gI t <= gc.
Proof. intro Ht. pose proof (gH_val t) as E. unfold gF in E. pose proof (gG_bound t) as [G0 G1].
  pose proof (gI_nonneg t Ht) as I0. pose proof gc_pos as C0. pose proof gc_sqr as C2.
  assert (P : (gc - gI t) * (gc + gI t) = gG t) by lra.
  assert (U : gI t <= gc).
  { destruct (Rle_dec (gI t) gc) as [H | H]; [assumption|]. exfalso.
    assert (0 < (gI t - gc) * (gc + gI t)) by (apply Rmult_lt_0_compat; lra). lra. }
  split; [|assumption].
  assert (L : (gc - gI t) * gc <= gexp t).
  { assert ((gc - gI t) * gc <= (gc - gI t) * (gc + gI t)) by (apply Rmult_le_compat_l; lra). lra. }
  assert (gc - gI t <= gexp t / gc); [|lra].
  apply Rle_div_r; assumption. Qed.

(* the half-line Gaussian integral:  int_0^t exp(-x^2) dx  ->  sqrt PI / 2 *)
Theorem gauss_integral : is_lim gI p_infty (sqrt PI / 2).
Proof. apply is_lim_spec. intro eps. destruct eps as [eps Heps]. simpl.
  pose proof gc_pos as C0.
  exists (Rmax 1 (/ (eps * gc))). intros t Ht.
  assert (H1 : 1 < t) by (eapply Rle_lt_trans; [apply Rmax_l|exact Ht]).
  assert (H2 : / (eps * gc) < t) by (eapply Rle_lt_trans; [apply Rmax_r|exact Ht]).
  destruct (gI_bounds t ltac:(lra)) as [L U]. fold gc.
  assert (Hec : 0 < eps * gc) by (apply Rmult_lt_0_compat; assumption).
  assert (Hg : gexp t < eps * gc).
  { unfold gexp. rewrite exp_Ropp. pose proof (exp_ineq1_le (t * t)) as He.
    assert (Ht2 : t < 1 + t * t) by nra.
    rewrite <- (Rinv_involutive (eps * gc)) by lra.
    apply Rinv_lt_contravar; [|lra].
    apply Rmult_lt_0_compat; [apply Rinv_0_lt_compat; assumption|apply exp_pos]. }
  assert (gexp t / gc < eps).
  { apply Rlt_div_l; assumption. }
  rewrite Rabs_left1 by lra. lra. Qed.

(* ---- rescaling x = u / sqrt 2 : int_0^x nphi = gI (x / sqrt 2) / sqrt PI ---- *)
Lemma sqrt2_pos : 0 < sqrt 2. Proof. apply sqrt_lt_R0. lra. Qed.
Lemma sqrtPI_pos : 0 < sqrt PI. Proof. apply sqrt_lt_R0. apply PI_RGT_0. Qed.

Lemma nphi_alt (y : R) : nphi y = / sqrt PI * (/ sqrt 2 * gexp (/ sqrt 2 * y + 0)).
Proof. unfold nphi, gexp. pose proof sqrt2_pos as H2. pose proof sqrtPI_pos as HP.
  rewrite sqrt_mult by (pose proof PI_RGT_0; lra).
  replace (- ((/ sqrt 2 * y + 0) * (/ sqrt 2 * y + 0))) with (- (y * y) / 2).
  - field. lra.
  - replace ((/ sqrt 2 * y + 0) * (/ sqrt 2 * y + 0)) with (y * y / (sqrt 2 * sqrt 2)) by (field; lra).
    rewrite sqrt_sqrt by lra. field. Qed.

Lemma gsub2_ex_RInt (a b : R) : ex_RInt (fun y => / sqrt 2 * gexp (/ sqrt 2 * y + 0)) a b.
Proof. apply (ex_RInt_continuous (fun y => / sqrt 2 * gexp (/ sqrt 2 * y + 0))). intros z _.
  apply (ex_derive_continuous (fun y => / sqrt 2 * gexp (/ sqrt 2 * y + 0)) z). unfold gexp. auto_derive. trivial. Qed.

Lemma nphi_RInt (x : R) : RInt nphi 0 x = gI (x / sqrt 2) / sqrt PI.
Proof. pose proof sqrt2_pos as H2. unfold gI.
  pose proof (RInt_comp_lin gexp (/ sqrt 2) 0 0 x) as H.
  replace (/ sqrt 2 * 0 + 0) with 0 in H by ring. replace (/ sqrt 2 * x + 0) with (x / sqrt 2) in H by (field; lra).
  rewrite <- H by apply gexp_ex_RInt.
  pose proof (RInt_scal (fun y => / sqrt 2 * gexp (/ sqrt 2 * y + 0)) 0 x (/ sqrt PI) (gsub2_ex_RInt 0 x)) as E.
  etransitivity; [apply RInt_ext; intros y _; apply nphi_alt|].
  etransitivity; [exact E|]. unfold scal; simpl; unfold mult; simpl. unfold Rdiv. apply Rmult_comm. Qed.

Lemma gexp_scaled (x : R) : gexp (x / sqrt 2) = exp (- (x * x) / 2).
Proof. unfold gexp. pose proof sqrt2_pos as H2. f_equal.
  replace (x / sqrt 2 * (x / sqrt 2)) with (x * x / (sqrt 2 * sqrt 2)) by (field; lra).
  rewrite sqrt_sqrt by lra. field. Qed.

(* quantitative tails of the normal cdf *)
Theorem NPhi_upper_tail : forall x, 0 <= x -> 1 - 2 / PI * exp (- (x * x) / 2) <= NPhi x <= 1.
Proof. intros x Hx. unfold NPhi. rewrite nphi_RInt. pose proof sqrt2_pos as H2. pose proof sqrtPI_pos as HP.
  assert (Hx2 : 0 <= x / sqrt 2) by (apply Rmult_le_pos; [assumption|left; apply Rinv_0_lt_compat; assumption]).
  destruct (gI_bounds (x / sqrt 2) Hx2) as [L U]. rewrite gexp_scaled in L. unfold gc in *.
  pose proof (sqrt_sqrt PI (Rlt_le _ _ PI_RGT_0)) as HPP.
  set (e := exp _) in *. set (I := gI _) in *. set (r := sqrt PI) in *.
  assert (E1 : r / 2 / r = 1 / 2) by (field; lra).
  assert (E2 : e / (r / 2) / r = 2 / PI * e) by (rewrite <- HPP; field; lra).
  assert (M1 : (r / 2 - e / (r / 2)) / r <= I / r) by (apply Rmult_le_compat_r; [left; apply Rinv_0_lt_compat; assumption|assumption]).
  assert (M2 : I / r <= r / 2 / r) by (apply Rmult_le_compat_r; [left; apply Rinv_0_lt_compat; assumption|assumption]).
  unfold Rdiv in M1 at 1. rewrite Rmult_minus_distr_r in M1. fold (r / 2 / r) in M1. fold (e / (r / 2) / r) in M1. lra. Qed.

Theorem NPhi_lower_tail : forall x, 0 <= x -> 0 <= NPhi (- x) <= 2 / PI * exp (- (x * x) / 2).
Proof. intros x Hx. rewrite NPhi_sym. pose proof (NPhi_upper_tail x Hx). lra. Qed.

Lemma exp_tail_small : forall eps, 0 < eps -> forall x, Rmax 1 (2 / eps) <= x -> 2 / PI * exp (- (x * x) / 2) < eps.
Proof. intros eps Heps x Hx.
  assert (H1 : 1 <= x) by (eapply Rle_trans; [apply Rmax_l|exact Hx]).
  assert (H2 : 2 / eps <= x) by (eapply Rle_trans; [apply Rmax_r|exact Hx]).
  replace (- (x * x) / 2) with (- (x * x / 2)) by field. rewrite exp_Ropp.
  pose proof (exp_ineq1_le (x * x / 2)) as He. pose proof PI2_1 as HPI.
  assert (Hxe : / eps < 1 + x * x / 2).
  { assert (2 / eps <= x * x) by nra. unfold Rdiv in *. lra. }
  assert (Hie : 0 < / eps) by (apply Rinv_0_lt_compat; assumption).
  assert (Hlt : / exp (x * x / 2) < eps).
  { rewrite <- (Rinv_involutive eps) by lra. apply Rinv_lt_contravar; [|lra].
    apply Rmult_lt_0_compat; [assumption|apply exp_pos]. }
  assert (Hpos : 0 < / exp (x * x / 2)) by (apply Rinv_0_lt_compat; apply exp_pos).
  assert (H2PI : 0 < 2 / PI < 1).
  { split; [apply Rdiv_lt_0_compat; lra|]. apply Rlt_div_l; lra. }
  nra. Qed.

(* the premise of AsymptPhi.v, now a theorem *)
Theorem gauss_total : gauss_total_stmt.
Proof. intros eps Heps. exists (- Rmax 1 (2 / eps)). intros t Ht.
  assert (H1 : 1 <= Rmax 1 (2 / eps)) by apply Rmax_l.
  destruct (NPhi_lower_tail (- t) ltac:(lra)) as [L U]. rewrite Ropp_involutive in L, U.
  pose proof (exp_tail_small eps Heps (- t) ltac:(lra)) as S.
  rewrite Rabs_pos_eq by assumption. lra. Qed.

Theorem NPhi_limit_m : is_lim NPhi m_infty 0.
Proof. apply is_lim_spec. intro eps. destruct eps as [eps Heps]. simpl.
  destruct (gauss_total eps Heps) as [s Hs]. exists s. intros x Hx. rewrite Rminus_0_r. apply Hs. lra. Qed.

Theorem NPhi_limit_p : is_lim NPhi p_infty 1.
Proof. apply is_lim_spec. intro eps. destruct eps as [eps Heps]. simpl.
  exists (Rmax 1 (2 / eps)). intros x Hx.
  assert (H1 : 1 <= Rmax 1 (2 / eps)) by apply Rmax_l.
  destruct (NPhi_upper_tail x ltac:(lra)) as [L U].
  pose proof (exp_tail_small eps Heps x ltac:(lra)) as S.
  rewrite Rabs_left1 by lra. lra. Qed.

Theorem nphi_half_integral : is_lim (fun x => RInt nphi 0 x) p_infty (1 / 2).
Proof. apply is_lim_spec. intro eps. destruct eps as [eps Heps]. simpl.
  destruct (proj2 (is_lim_spec NPhi p_infty 1) NPhi_limit_p (mkposreal eps Heps)) as [M HM]. simpl in HM.
  exists M. intros x Hx. specialize (HM x Hx). unfold NPhi in HM.
  eapply Rle_lt_trans; [|exact HM]. right. f_equal. lra. Qed.

Theorem NPhi_bounds : forall x, 0 < NPhi x < 1.
Proof. intro x. split; [apply (NPhi_positive gauss_total)|].
  pose proof (NPhi_positive gauss_total (- x)) as H. rewrite NPhi_sym in H. lra. Qed.

(* ---- the C07 consequences with no premise left ---- *)
Theorem NPhi_positive_unconditional : cdf_positive NPhi.
Proof. exact (NPhi_positive gauss_total). Qed.
Theorem mills_unconditional : forall x, 0 <= nphi x + x * NPhi x.
Proof. exact (mills_all gauss_total). Qed.
Theorem NPhi_logconcave_unconditional : cdf_logconcave NPhi.
Proof. exact (NPhi_logconcave gauss_total). Qed.
Theorem ordering_unconditional : forall k b q qA, known b -> 0 <= q -> 0 <= qA ->
  exists sb bb s, run_obs RNum NPhi sqrt k b q qA = inr (Some sb, Some bb, Some s) /\
    0 <= sb /\ sb <= bb /\ bb <= 1 /\ 0 <= s /\ s <= 1.
Proof. exact (ordering_concrete gauss_total). Qed.
Theorem band_monotone_unconditional : forall k b q qA, known b -> 0 <= qA ->
  nondecr (band_of (run_exp RNum NPhi sqrt k b q qA) 0) /\ nondecr (band_of (run_exp RNum NPhi sqrt k b q qA) 1) /\
  nondecr (band_of (run_exp RNum NPhi sqrt k b q qA) 2).
Proof. exact (band_monotone_concrete gauss_total). Qed.

(* non-vacuity / content: the tail bound is sharp enough to pin values *)
Example NPhi_upper_tail_at_3 : 99 / 100 <= NPhi 3 <= 1.
Proof. destruct (NPhi_upper_tail 3 ltac:(lra)) as [L U]. split; [|exact U].
  eapply Rle_trans; [|exact L]. interval. Qed.
Example NPhi_lower_tail_at_3 : 0 <= NPhi (- 3) <= 1 / 100.
Proof. destruct (NPhi_lower_tail 3 ltac:(lra)) as [L U]. split; [exact L|].
  eapply Rle_trans; [exact U|]. interval. Qed.
