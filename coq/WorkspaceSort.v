(* Workspace.sorted: idempotent, canonical under permutation of every list. *)
From Coq Require Import Bool Arith Lia Permutation Sorting.Sorted String Ascii QArith Qcanon List.
Require Import PV.Sort PV.Json PV.Workspace PV.WorkspaceThms.
Import ListNotations.
Local Open Scope string_scope.
Local Open Scope nat_scope.
Local Open Scope list_scope.

Definition PermR {A} (R : A -> A -> Prop) (l l' : list A) : Prop := exists l2, Permutation l l2 /\ Forall2 R l2 l'.

Section SortMore.
  Variable K : Type.
  Variable leb : K -> K -> bool.
  Hypothesis leb_total : forall a b, leb a b = true \/ leb b a = true.
  Hypothesis leb_trans : forall a b c, leb a b = true -> leb b c = true -> leb a c = true.
  Hypothesis leb_antisym : forall a b, leb a b = true -> leb b a = true -> a = b.
  Variable A : Type.
  Variable key : A -> K.

  Lemma insert_head x l : Forall (fun y => leb (key x) (key y) = true) l -> insert K leb A key x l = x :: l.
  Proof. destruct l as [|y t]; simpl; auto. intros H. inversion H; subst. now rewrite H2. Qed.
  (* a sorted list is a fixed point of the sort (no distinctness needed: the sort is stable) *)
  Lemma isort_fix l : StronglySorted (le K leb A key) l -> isort K leb A key l = l.
  Proof. induction 1 as [|x t Ht IH Hx]; simpl; auto. rewrite IH. now apply insert_head. Qed.
  Lemma isort_idem' l : isort K leb A key (isort K leb A key l) = isort K leb A key l.
  Proof. apply isort_fix. now apply isort_sorted. Qed.

  (* sorting commutes with maps that keep the key *)
  Variable g : A -> A.
  Hypothesis g_key : forall x, key (g x) = key x.
  Lemma insert_map x l : insert K leb A key (g x) (map g l) = map g (insert K leb A key x l).
  Proof. induction l as [|y t IH]; simpl; auto. rewrite !g_key. destruct (leb (key x) (key y)); simpl; auto. now rewrite IH. Qed.
  Lemma isort_map l : isort K leb A key (map g l) = map g (isort K leb A key l).
  Proof. induction l as [|x t IH]; simpl; auto. now rewrite IH, insert_map. Qed.
End SortMore.

Section SortCanon.
  Variable K : Type.
  Variable leb : K -> K -> bool.
  Hypothesis leb_total : forall a b, leb a b = true \/ leb b a = true.
  Hypothesis leb_trans : forall a b c, leb a b = true -> leb b c = true -> leb a c = true.
  Hypothesis leb_antisym : forall a b, leb a b = true -> leb b a = true -> a = b.
  Variables (A B : Type) (key : A -> K) (g : A -> B) (R : A -> A -> Prop).
  Hypothesis R_key : forall x y, R x y -> key x = key y.
  Hypothesis R_g : forall x y, R x y -> g x = g y.

  Lemma insert_F2 x x' l l' : R x x' -> Forall2 R l l' -> Forall2 R (insert K leb A key x l) (insert K leb A key x' l').
  Proof. intros Hx H. induction H as [|y y' t t' Hy Ht IH]; simpl; [repeat constructor; auto|].
    rewrite <- (R_key _ _ Hx), <- (R_key _ _ Hy). destruct (leb (key x) (key y)); repeat constructor; auto. Qed.
  Lemma isort_F2 l l' : Forall2 R l l' -> Forall2 R (isort K leb A key l) (isort K leb A key l').
  Proof. induction 1; simpl; [constructor|]. now apply insert_F2. Qed.
  Lemma map_F2 l l' : Forall2 R l l' -> map g l = map g l'.
  Proof. induction 1; simpl; auto. f_equal; auto. Qed.

  Lemma sort_canon l l' : NoDup (map key l) -> PermR R l l' -> map g (isort K leb A key l) = map g (isort K leb A key l').
  Proof. intros Hnd [l2 [Hp Hf]]. rewrite (isort_perm_eq K leb leb_total leb_trans leb_antisym A key l l2 Hnd Hp).
    apply map_F2. now apply isort_F2. Qed.
End SortCanon.

Definition ssort_idem {A} (key : A -> string) := isort_idem' string String.leb String.leb_total str_leb_trans A key.
Definition psort_idem {A} (key : A -> string * string) := isort_idem' (string * string) pair_leb pair_leb_total pair_leb_trans A key.
Definition ssort_map {A} (key : A -> string) := isort_map string String.leb A key.

(* ---------- idempotence ---------- *)
Lemma sort_sample_idem s : sort_sample (sort_sample s) = sort_sample s.
Proof. unfold sort_sample. simpl. f_equal. apply psort_idem. Qed.
Lemma sort_channel_idem c : sort_channel (sort_channel c) = sort_channel c.
Proof. unfold sort_channel. simpl. f_equal. unfold ssort. rewrite (ssort_map s_name sort_sample) by reflexivity.
  rewrite ssort_idem. rewrite map_map. apply map_ext. intros s. apply sort_sample_idem. Qed.
Lemma sort_measurement_idem m : sort_measurement (sort_measurement m) = sort_measurement m.
Proof. unfold sort_measurement. simpl. f_equal. apply ssort_idem. Qed.
Lemma sorted_spec_idem w : sorted_spec (sorted_spec w) = sorted_spec w.
Proof. unfold sorted_spec. simpl. f_equal.
  - unfold ssort. rewrite (ssort_map c_name sort_channel) by reflexivity. rewrite ssort_idem, map_map. apply map_ext. intros c. apply sort_channel_idem.
  - apply ssort_idem.
  - unfold ssort. rewrite (ssort_map me_name sort_measurement) by reflexivity. rewrite ssort_idem, map_map. apply map_ext. intros c. apply sort_measurement_idem. Qed.

Theorem sorted_idempotent w w1 : sorted w = Ok w1 -> sorted w1 = Ok w1.
Proof. unfold sorted. intros H. apply construct_true_ok in H. destruct H as [-> H]. rewrite sorted_spec_idem. now apply construct_ok. Qed.

(* sorted never fails on, and never invalidates, a valid workspace *)
Lemma forallb_perm {A} (f : A -> bool) l l' : Permutation l l' -> forallb f l = forallb f l'.
Proof. induction 1; simpl; auto; [now rewrite IHPermutation|destruct (f x), (f y); reflexivity|congruence]. Qed.
Lemma nonempty_perm {A} (l l' : list A) : Permutation l l' -> nonempty l = nonempty l'.
Proof. intros H. destruct l, l'; auto; [apply Permutation_nil in H; discriminate|apply Permutation_sym, Permutation_nil in H; discriminate]. Qed.
Lemma ssort_perm {A} (key : A -> string) l : Permutation (ssort key l) l.
Proof. apply isort_perm. Qed.
Lemma psort_perm {A} (key : A -> string * string) l : Permutation (psort key l) l.
Proof. apply isort_perm. Qed.

Lemma forallb_map' {A B} (f : B -> bool) (g : A -> B) l : forallb f (map g l) = forallb (fun x => f (g x)) l.
Proof. induction l; simpl; congruence. Qed.
Lemma forallb_ext' {A} (f g : A -> bool) l : (forall x, f x = g x) -> forallb f l = forallb g l.
Proof. intros H. induction l; simpl; congruence. Qed.
Lemma nonempty_map {A B} (g : A -> B) l : nonempty (map g l) = nonempty l.
Proof. destruct l; reflexivity. Qed.

Lemma sort_sample_ok s : sample_ok (sort_sample s) = sample_ok s.
Proof. unfold sample_ok, sort_sample. simpl. f_equal. apply forallb_perm, psort_perm. Qed.
Lemma sort_channel_ok c : channel_ok (sort_channel c) = channel_ok c.
Proof. unfold channel_ok, sort_channel. simpl. rewrite forallb_map', nonempty_map. f_equal.
  - apply nonempty_perm, ssort_perm.
  - rewrite (forallb_perm _ _ _ (ssort_perm s_name (c_samples c))). apply forallb_ext'. intros s. apply sort_sample_ok. Qed.
Lemma sort_measurement_ok m : measurement_ok (sort_measurement m) = measurement_ok m.
Proof. unfold measurement_ok, sort_measurement. simpl. apply forallb_perm, ssort_perm. Qed.
Lemma sorted_spec_ok w : schema_ok (sorted_spec w) = schema_ok w.
Proof. unfold schema_ok, sorted_spec. simpl. rewrite !forallb_map', !nonempty_map.
  rewrite (nonempty_perm _ _ (ssort_perm c_name (w_channels w))), (nonempty_perm _ _ (ssort_perm me_name (w_measurements w))),
          (nonempty_perm _ _ (ssort_perm o_name (w_observations w))).
  rewrite (forallb_perm _ _ _ (ssort_perm c_name (w_channels w))), (forallb_perm _ _ _ (ssort_perm me_name (w_measurements w))),
          (forallb_perm _ _ _ (ssort_perm o_name (w_observations w))).
  rewrite (forallb_ext' _ channel_ok _ sort_channel_ok), (forallb_ext' _ measurement_ok _ sort_measurement_ok). reflexivity. Qed.

(* sorting a valid workspace always succeeds with a valid workspace *)
Theorem sorted_total w : schema_ok w = true -> sorted w = Ok (sorted_spec w) /\ schema_ok (sorted_spec w) = true.
Proof. intros H. assert (H' : schema_ok (sorted_spec w) = true) by now rewrite sorted_spec_ok. split; auto. unfold sorted. now apply construct_ok. Qed.

(* ---------- canonical form: the same workspace with every list permuted sorts to the same document ---------- *)
Definition sample_rel (s s' : sample) : Prop :=
  s_name s = s_name s' /\ s_data s = s_data s' /\ Permutation (s_mods s) (s_mods s') /\ NoDup (map mod_key (s_mods s)).
Definition channel_rel (c c' : channel) : Prop :=
  c_name c = c_name c' /\ PermR sample_rel (c_samples c) (c_samples c') /\ NoDup (map s_name (c_samples c)).
Definition measurement_rel (m m' : measurement) : Prop :=
  me_name m = me_name m' /\ me_poi m = me_poi m' /\ Permutation (me_params m) (me_params m') /\ NoDup (map p_name (me_params m)).
(* w' lists the same items as w (names distinct inside every list of w), in any order at every level *)
Definition ws_rel (w w' : workspace) : Prop :=
  PermR channel_rel (w_channels w) (w_channels w') /\ NoDup (map c_name (w_channels w)) /\
  Permutation (w_observations w) (w_observations w') /\ NoDup (map o_name (w_observations w)) /\
  PermR measurement_rel (w_measurements w) (w_measurements w') /\ NoDup (map me_name (w_measurements w)) /\
  w_version w = w_version w'.

Lemma sort_sample_rel s s' : sample_rel s s' -> sort_sample s = sort_sample s'.
Proof. intros (H1 & H2 & H3 & H4). unfold sort_sample. rewrite H1, H2. f_equal. now apply psort_perm_eq. Qed.
Lemma sort_channel_rel c c' : channel_rel c c' -> sort_channel c = sort_channel c'.
Proof. intros (H1 & H2 & H3). unfold sort_channel. rewrite H1. f_equal. unfold ssort.
  apply (sort_canon string String.leb String.leb_total str_leb_trans String.leb_antisym sample sample s_name sort_sample sample_rel); auto.
  - intros x y H. apply H.
  - apply sort_sample_rel. Qed.
Lemma sort_measurement_rel m m' : measurement_rel m m' -> sort_measurement m = sort_measurement m'.
Proof. intros (H1 & H2 & H3 & H4). unfold sort_measurement. rewrite H1, H2. f_equal. now apply ssort_perm_eq. Qed.

Theorem sorted_canonical w w' : ws_rel w w' -> sorted w = sorted w'.
Proof. intros (H1 & H2 & H3 & H4 & H5 & H6 & H7). unfold sorted. f_equal. unfold sorted_spec. rewrite H7. f_equal.
  - unfold ssort. apply (sort_canon string String.leb String.leb_total str_leb_trans String.leb_antisym channel channel c_name sort_channel channel_rel); auto.
    + intros x y H. apply H.
    + apply sort_channel_rel.
  - now apply ssort_perm_eq.
  - unfold ssort. apply (sort_canon string String.leb String.leb_total str_leb_trans String.leb_antisym measurement measurement me_name sort_measurement measurement_rel); auto.
    + intros x y H. apply H.
    + apply sort_measurement_rel. Qed.

(* the relation is inhabited by genuinely different listings *)
Example ws_rel_nontrivial :
  let s1 := {| s_name := "a"; s_data := [1%Qc]; s_mods := [{| m_name := "x"; m_type := "normfactor"; m_data := MNull |};
                                                            {| m_name := "k"; m_type := "normfactor"; m_data := MNull |}] |} in
  let s1' := {| s_name := "a"; s_data := [1%Qc]; s_mods := [{| m_name := "k"; m_type := "normfactor"; m_data := MNull |};
                                                             {| m_name := "x"; m_type := "normfactor"; m_data := MNull |}] |} in
  let s2 := {| s_name := "b"; s_data := [1%Qc; 1%Qc]; s_mods := [] |} in
  let w := {| w_channels := [{| c_name := "c"; c_samples := [s1; s2] |}]; w_observations := []; w_measurements := []; w_version := "1.0.0" |} in
  let w' := {| w_channels := [{| c_name := "c"; c_samples := [s2; s1'] |}]; w_observations := []; w_measurements := []; w_version := "1.0.0" |} in
  ws_rel w w' /\ w <> w'.
Proof. cbn zeta. split; [|discriminate]. unfold ws_rel. simpl. repeat split; auto; try (repeat constructor; simpl; intuition discriminate).
  - eexists. split; [apply Permutation_refl|]. constructor; [|constructor]. split; [reflexivity|]. simpl. split.
    + eexists. split; [apply perm_swap|]. constructor; [|constructor; [|constructor]].
      * repeat split; auto. constructor.
      * repeat split; auto; [apply perm_swap|]. repeat constructor; simpl; intuition discriminate.
    + repeat constructor; simpl; intuition discriminate.
  - eexists. split; [apply Permutation_refl|constructor]. Qed.
