(* C15, specification level, part 2: rewrites that replace one channel of a specification by an equivalent one
   (zero sample added, null systematic added, two identical samples merged) and the signal rescaling. *)
From Coq Require Import Bool Arith Lia Permutation Ring Field String List.
Require Import PV.Num PV.Sort PV.Spec PV.Impl PV.Ref PV.RefineMonoid PV.Invariance PV.InvarianceSpec.
Import ListNotations.
Local Open Scope list_scope.

Definition with_channels {N} (sp : spec N) (chs : list (channel N)) : spec N :=
  {| channels := chs; parameters := parameters sp; poi := poi sp |}.

Definition with_samples {N} (c : channel N) (l : list (sample N)) : channel N := {| c_name := c_name c; c_samples := l |}.

Section Replace.
  Variable N : Num.
  Notation V := (V N).
  Hypothesis Hring : ring_theory (n0 N) (n1 N) (nadd N) (nmul N) (nsub N) (nopp N) eq.
  Add Ring NR4 : Hring.
  Notation "0" := (n0 N). Notation "1" := (n1 N).
  Infix "+" := (nadd N). Infix "*" := (nmul N).
  Variable interp_add interp_mul : string -> V -> V -> V -> V -> V.
  Variables ncode hcode : string.
  Variables clip_s clip_b : option V.
  Notation spec := (spec N). Notation channel := (channel N). Notation sample := (sample N). Notation modifier := (modifier N).
  Notation mfac := (mod_factor N interp_mul ncode).
  Notation mdel := (mod_delta N interp_add hcode).
  Notation srate := (sample_rate N interp_add interp_mul ncode hcode clip_s).
  Notation rrate := (ref_rate N interp_add interp_mul ncode hcode clip_s clip_b).
  Notation rexp := (ref_expected N interp_add interp_mul ncode hcode clip_s clip_b).
  Notation rmain := (ref_main_terms N interp_add interp_mul ncode hcode clip_s clip_b).
  Notation rterms := (ref_terms N interp_add interp_mul ncode hcode clip_s clip_b).

  Definition one_rel (c0 c0' c c' : channel) : Prop := c = c' \/ (c = c0 /\ c' = c0').
  Lemma replace_Forall2 pre post c0 c0' : Forall2 (one_rel c0 c0') (pre ++ c0 :: post) (pre ++ c0' :: post).
  Proof. apply Forall2_app; [|constructor]; try (apply Forall2_refl_in; intros; now left). now right. Qed.

  Lemma mod_shape_terms_change (sp sp' : spec) theta aux c c' s s' m :
    parameters sp = parameters sp' -> chan_nbins N c = chan_nbins N c' -> s_data s = s_data s' ->
    mod_shape_terms N sp theta aux c s m = mod_shape_terms N sp' theta aux c' s' m.
  Proof. intros Hp Hb Hd. unfold mod_shape_terms, user_factor, user_cfg, shapesys_tau. now rewrite Hp, Hb, Hd. Qed.
  Lemma chan_shape_terms_change (sp sp' : spec) theta aux c c' :
    parameters sp = parameters sp' -> chan_nbins N c = chan_nbins N c' -> c_samples c = c_samples c' ->
    chan_shape_terms N sp theta aux c = chan_shape_terms N sp' theta aux c'.
  Proof. intros Hp Hb Hs. unfold chan_shape_terms. rewrite Hs. apply flat_map_ext. intros s. apply flat_map_ext. intros m.
    now apply mod_shape_terms_change. Qed.
  Lemma chan_cong_refl (sp sp' : spec) theta aux c : parameters sp = parameters sp' -> chan_cong N sp sp' theta aux c c.
  Proof. intros Hp. repeat split; auto. now rewrite (chan_shape_terms_change sp sp' theta aux c c Hp). Qed.
  Lemma user_sigmas2_params (sp sp' : spec) n k : parameters sp = parameters sp' -> user_sigmas2 N sp n k = user_sigmas2 N sp' n k.
  Proof. intros Hp. unfold user_sigmas2, user_cfg. now rewrite Hp. Qed.

  Section One.
    Variable sp : spec.
    Variables pre post : list channel.
    Variables c0 c0' : channel.
    Hypothesis Hch : channels sp = pre ++ c0 :: post.
    Hypothesis Hnd : NoDup (map c_name (channels sp)).
    Hypothesis Hsim : chan_sim N c0 c0'.
    Let sp' := with_channels sp (pre ++ c0' :: post).

    Lemma one_PermRel : PermRel (one_rel c0 c0') (channels sp) (channels sp').
    Proof. apply PermRel_Forall2. rewrite Hch. apply replace_Forall2. Qed.
    Lemma one_sim c c' : In c (channels sp) -> In c' (channels sp') -> one_rel c0 c0' c c' -> chan_sim N c c'.
    Proof. intros _ _ [->|[-> ->]]; auto. apply chan_sim_refl. Qed.

    (* the expected data only see the rates of the replaced channel *)
    Theorem replace_channel_expected theta :
      (forall b, b < chan_nbins N c0 -> rrate sp theta c0' b = rrate sp theta c0 b) -> rexp sp' theta = rexp sp theta.
    Proof. intros Hr. symmetry. apply (ref_expected_congr N interp_add interp_mul ncode hcode clip_s clip_b sp sp' (one_rel c0 c0') Hnd one_PermRel one_sim).
      intros c c' _ _ [->|[-> ->]] b Hb; auto. symmetry. now apply Hr. Qed.
    Theorem replace_channel_main_terms theta obs :
      (forall b, b < chan_nbins N c0 -> rrate sp theta c0' b = rrate sp theta c0 b) -> rmain sp' theta obs = rmain sp theta obs.
    Proof. intros Hr. symmetry. apply (ref_main_terms_congr N interp_add interp_mul ncode hcode clip_s clip_b sp sp' (one_rel c0 c0') Hnd one_PermRel one_sim).
      intros c c' _ _ [->|[-> ->]] b Hb; auto. symmetry. now apply Hr. Qed.
    Theorem replace_channel_cterms_rest theta aux : chan_cong N sp sp' theta aux c0 c0' ->
      Permutation (ct_lumi N sp' theta aux ++ ct_stat N sp' theta aux ++ ct_shape N sp' theta aux)
                  (ct_lumi N sp theta aux ++ ct_stat N sp theta aux ++ ct_shape N sp theta aux).
    Proof. intros Hc. symmetry. apply (ref_cterms_rest_congr N sp sp' (one_rel c0 c0') theta aux Hnd one_PermRel one_sim).
      - intros c c' _ _ [->|[-> ->]]; auto. now apply chan_cong_refl.
      - intros n k. now apply user_sigmas2_params. Qed.
    Lemma replace_alpha_in n : In n (alpha_names N sp') <->
      (In n (chan_tnames N Normsys c0') \/ In n (chan_tnames N Histosys c0')) \/
      exists c, In c (pre ++ post) /\ (In n (chan_tnames N Normsys c) \/ In n (chan_tnames N Histosys c)).
    Proof. rewrite alpha_names_in. unfold sp'. simpl. split.
      - intros [c [Hc H]]. apply in_app_or in Hc. destruct Hc as [Hc|[<-|Hc]]; auto; right; exists c; split; auto; apply in_or_app; auto.
      - intros [H|[c [Hc H]]]; [exists c0'; split; auto; apply in_or_app; right; now left|].
        exists c. split; auto. apply in_app_or in Hc. apply in_or_app. destruct Hc; auto. right. now right. Qed.
    Lemma orig_alpha_in n : In n (alpha_names N sp) <->
      (In n (chan_tnames N Normsys c0) \/ In n (chan_tnames N Histosys c0)) \/
      exists c, In c (pre ++ post) /\ (In n (chan_tnames N Normsys c) \/ In n (chan_tnames N Histosys c)).
    Proof. rewrite alpha_names_in, Hch. split.
      - intros [c [Hc H]]. apply in_app_or in Hc. destruct Hc as [Hc|[<-|Hc]]; auto; right; exists c; split; auto; apply in_or_app; auto.
      - intros [H|[c [Hc H]]]; [exists c0; split; auto; apply in_or_app; right; now left|].
        exists c. split; auto. apply in_app_or in Hc. apply in_or_app. destruct Hc; auto. right. now right. Qed.

    (* all terms, given how the list of normsys/histosys names changes *)
    Theorem replace_channel_terms_gen theta obs aux (A : list (term N)) :
      (forall b, b < chan_nbins N c0 -> rrate sp theta c0' b = rrate sp theta c0 b) ->
      chan_cong N sp sp' theta aux c0 c0' ->
      Permutation (ct_alpha N sp' theta aux) (A ++ ct_alpha N sp theta aux) ->
      Permutation (rterms sp' theta obs aux) (A ++ rterms sp theta obs aux).
    Proof. intros Hr Hc Ha. unfold ref_terms. rewrite (replace_channel_main_terms theta obs Hr).
      rewrite (Permutation_app_swap_app A). apply Permutation_app_head.
      rewrite !ref_cterms_is. rewrite (app_assoc A). apply Permutation_app; auto. now apply replace_channel_cterms_rest. Qed.
    (* all terms, when the replaced channel lists the same normsys/histosys names *)
    Theorem replace_channel_terms theta obs aux :
      (forall b, b < chan_nbins N c0 -> rrate sp theta c0' b = rrate sp theta c0 b) ->
      chan_cong N sp sp' theta aux c0 c0' ->
      (forall n, In n (chan_tnames N Normsys c0') \/ In n (chan_tnames N Histosys c0') <-> In n (chan_tnames N Normsys c0) \/ In n (chan_tnames N Histosys c0)) ->
      Permutation (rterms sp' theta obs aux) (rterms sp theta obs aux).
    Proof. intros Hr Hc Ha. apply (replace_channel_terms_gen theta obs aux []); auto. simpl.
      apply ct_alpha_perm. intros n. rewrite replace_alpha_in, orig_alpha_in, Ha. reflexivity. Qed.
  End One.
End Replace.

(* ------------------------------------------------------------------ 3. a sample with zero yields and no modifiers *)
Section Zero.
  Variable N : Num.
  Notation V := (V N).
  Hypothesis Hring : ring_theory (n0 N) (n1 N) (nadd N) (nmul N) (nsub N) (nopp N) eq.
  Add Ring NR5 : Hring.
  Notation "0" := (n0 N). Notation "1" := (n1 N).
  Infix "+" := (nadd N). Infix "*" := (nmul N).
  Variable interp_add interp_mul : string -> V -> V -> V -> V -> V.
  Variables ncode hcode : string.
  Variables clip_s clip_b : option V.
  Notation spec := (spec N). Notation channel := (channel N). Notation sample := (sample N). Notation modifier := (modifier N).
  Notation srate := (sample_rate N interp_add interp_mul ncode hcode clip_s).
  Notation rrate := (ref_rate N interp_add interp_mul ncode hcode clip_s clip_b).
  Notation rexp := (ref_expected N interp_add interp_mul ncode hcode clip_s clip_b).
  Notation rterms := (ref_terms N interp_add interp_mul ncode hcode clip_s clip_b).

  Definition add_sample (s0 : sample) (c : channel) : channel := {| c_name := c_name c; c_samples := s0 :: c_samples c |}.

  Variable sp : spec.
  Variables pre post : list channel.
  Variable c0 : channel.
  Variable s0 : sample.
  Hypothesis Hch : channels sp = pre ++ c0 :: post.
  Hypothesis Hnd : NoDup (map c_name (channels sp)).
  Hypothesis Hmods : s_mods s0 = [].
  Hypothesis Hlen : length (s_data s0) = chan_nbins N c0.
  Hypothesis Hzero : forall b, nth b (s_data s0) 0 = 0.
  Hypothesis Hclip : match clip_s with None => True | Some cv => nltb N 0 cv = false end.

  Lemma zero_has n t : has_mod N s0 n t = false. Proof. unfold has_mod. now rewrite Hmods. Qed.
  Lemma zero_sim : chan_sim N c0 (add_sample s0 c0).
  Proof. repeat split; auto. intros n. unfold chan_has. simpl. now rewrite zero_has. Qed.
  Lemma zero_rate theta b : rrate sp theta (add_sample s0 c0) b = rrate sp theta c0 b.
  Proof. rewrite (zero_sample_invariant N Hring interp_add interp_mul ncode hcode clip_s clip_b sp theta (add_sample s0 c0) s0 b (c_samples c0)); auto. Qed.
  Lemma zero_tnames t : chan_tnames N t (add_sample s0 c0) = chan_tnames N t c0.
  Proof. unfold chan_tnames. simpl. now rewrite Hmods. Qed.
  Lemma zero_cong theta aux : chan_cong N sp (with_channels sp (pre ++ add_sample s0 c0 :: post)) theta aux c0 (add_sample s0 c0).
  Proof. repeat split; try (rewrite zero_tnames; auto).
    - intros n b _ _. unfold stat_delta2. simpl. now rewrite zero_has.
    - unfold chan_shape_terms at 2. simpl. rewrite Hmods. simpl. apply Permutation_refl'. apply flat_map_ext. intros s. apply flat_map_ext. intros m.
      apply mod_shape_terms_change; auto. Qed.

  Theorem zero_sample_invariant_spec theta obs aux :
    rexp (with_channels sp (pre ++ add_sample s0 c0 :: post)) theta = rexp sp theta /\
    Permutation (rterms (with_channels sp (pre ++ add_sample s0 c0 :: post)) theta obs aux) (rterms sp theta obs aux).
  Proof. split.
    - apply (replace_channel_expected N interp_add interp_mul ncode hcode clip_s clip_b sp pre post c0 _ Hch Hnd zero_sim). intros b _. apply zero_rate.
    - apply (replace_channel_terms N interp_add interp_mul ncode hcode clip_s clip_b sp pre post c0 _ Hch Hnd zero_sim).
      + intros b _. apply zero_rate.
      + apply zero_cong.
      + intros n. now rewrite !zero_tnames. Qed.
End Zero.

Lemma fm_cons {A B} (f : A -> list B) a l : flat_map f (a :: l) = f a ++ flat_map f l.
Proof. reflexivity. Qed.

(* ------------------------------------------------------------------ 4. a systematic whose variations equal the nominal *)
Section Null.
  Variable N : Num.
  Notation V := (V N).
  Hypothesis Hring : ring_theory (n0 N) (n1 N) (nadd N) (nmul N) (nsub N) (nopp N) eq.
  Add Ring NR6 : Hring.
  Notation "0" := (n0 N). Notation "1" := (n1 N).
  Infix "+" := (nadd N). Infix "*" := (nmul N).
  Variable interp_add interp_mul : string -> V -> V -> V -> V -> V.
  Variables ncode hcode : string.
  Variables clip_s clip_b : option V.
  Notation spec := (spec N). Notation channel := (channel N). Notation sample := (sample N). Notation modifier := (modifier N).
  Notation srate := (sample_rate N interp_add interp_mul ncode hcode clip_s).
  Notation rrate := (ref_rate N interp_add interp_mul ncode hcode clip_s clip_b).
  Notation rexp := (ref_expected N interp_add interp_mul ncode hcode clip_s clip_b).
  Notation rterms := (ref_terms N interp_add interp_mul ncode hcode clip_s clip_b).

  Definition add_mod (m0 : modifier) (s : sample) : sample := {| s_name := s_name s; s_data := s_data s; s_mods := m0 :: s_mods s |}.
  (* a normsys whose factor is 1 at every alpha (C03: lo = hi = 1), or a histosys whose shift is 0 at every alpha (C03: lo = hi = nominal) *)
  Definition null_mod (s : sample) (m0 : modifier) : Prop :=
    match m_type m0, m_data m0 with
    | Normsys, MDNorm lo hi => forall a, interp_mul ncode lo 1 hi a = 1
    | Histosys, MDHisto lo hi => forall b a, interp_add hcode (nth b lo 0) (nth b (s_data s) 0) (nth b hi 0) a = 0
    | _, _ => False end.

  Variable sp : spec.
  Variables pre post : list channel.
  Variable c0 : channel.
  Variables spre spost : list sample.
  Variable s1 : sample.
  Variable m0 : modifier.
  Hypothesis Hch : channels sp = pre ++ c0 :: post.
  Hypothesis Hsm : c_samples c0 = spre ++ s1 :: spost.
  Hypothesis Hnd : NoDup (map c_name (channels sp)).
  Hypothesis Hnull : null_mod s1 m0.
  Let c0' : channel := with_samples c0 (spre ++ add_mod m0 s1 :: spost).
  Let sp' : spec := with_channels sp (pre ++ c0' :: post).

  Lemma null_type : m_type m0 = Normsys \/ m_type m0 = Histosys.
  Proof. unfold null_mod in Hnull. destruct (m_type m0); auto; contradiction. Qed.
  Lemma null_has n t : t <> Normsys -> t <> Histosys -> has_mod N (add_mod m0 s1) n t = has_mod N s1 n t.
  Proof. intros H1 H2. unfold has_mod. simpl. destruct null_type as [E|E]; rewrite E; destruct t; try contradiction; simpl; now rewrite andb_false_r. Qed.
  Lemma null_nbins : chan_nbins N c0 = chan_nbins N c0'.
  Proof. unfold chan_nbins. rewrite Hsm. simpl. destruct spre; reflexivity. Qed.
  Lemma null_sim : chan_sim N c0 c0'.
  Proof. split; [reflexivity|]. split; [apply null_nbins|]. intros n. unfold chan_has. rewrite Hsm. simpl. rewrite !existsb_app. simpl.
    rewrite null_has; auto; discriminate. Qed.
  Lemma null_factor theta c b : mod_factor N interp_mul ncode sp theta c (add_mod m0 s1) m0 b = 1.
  Proof. unfold mod_factor. unfold null_mod in Hnull. destruct (m_type m0); try contradiction; auto. destruct (m_data m0); try contradiction; auto. Qed.
  Lemma null_delta theta b : mod_delta N interp_add hcode theta (add_mod m0 s1) m0 b = 0.
  Proof. unfold mod_delta. unfold null_mod in Hnull. destruct (m_type m0); try contradiction; auto. destruct (m_data m0); try contradiction; auto. Qed.
  Lemma null_srate theta c b : srate sp theta c (add_mod m0 s1) b = srate sp theta c s1 b.
  Proof. rewrite (neutral_modifier_invariant N Hring interp_add interp_mul ncode hcode clip_s sp theta c (add_mod m0 s1) m0 b (s_mods s1)); auto.
    - apply null_factor. - apply null_delta. Qed.
  Lemma null_rate theta b : rrate sp theta c0' b = rrate sp theta c0 b.
  Proof. unfold ref_rate. rewrite Hsm. simpl. rewrite !map_app. simpl. rewrite (null_srate theta c0' b). reflexivity. Qed.
  Lemma null_tnames_in t n : In n (chan_tnames N t c0') <-> (m_type m0 = t /\ n = m_name m0) \/ In n (chan_tnames N t c0).
  Proof. unfold chan_tnames. rewrite Hsm. simpl. rewrite !flat_map_app. simpl. rewrite !in_app_iff.
    destruct (mtype_eqb (m_type m0) t) eqn:E.
    - apply mtype_eqb_eq in E. simpl. intuition.
    - assert (m_type m0 <> t) by (intros H; apply mtype_eqb_eq in H; congruence). simpl. intuition. Qed.
  Lemma null_tnames_other t : t <> Normsys -> t <> Histosys -> forall n, In n (chan_tnames N t c0) <-> In n (chan_tnames N t c0').
  Proof. intros H1 H2 n. rewrite null_tnames_in. destruct null_type as [E|E]; rewrite E; intuition congruence. Qed.
  Lemma null_tnames_alpha n : In n (chan_tnames N Normsys c0') \/ In n (chan_tnames N Histosys c0') <->
    n = m_name m0 \/ (In n (chan_tnames N Normsys c0) \/ In n (chan_tnames N Histosys c0)).
  Proof. rewrite !null_tnames_in. destruct null_type as [E|E]; rewrite E; intuition congruence. Qed.
  Lemma null_cong theta aux : chan_cong N sp sp' theta aux c0 c0'.
  Proof. split; [|split; [|split]].
    - intros n b _ _. apply (stat_delta2_congr N Hring). apply PermRel_Forall2. rewrite Hsm. simpl.
      apply Forall2_app; [apply Forall2_refl_in; intros; apply samp_stat_sim_refl|]. constructor; [|apply Forall2_refl_in; intros; apply samp_stat_sim_refl].
      split; [reflexivity|]. split; [intros n'; symmetry; apply null_has; discriminate|].
      intros n' b'. unfold stat_unc. simpl. destruct null_type as [E|E]; rewrite E; simpl; now rewrite andb_false_r.
    - apply null_tnames_other; discriminate.
    - apply null_tnames_other; discriminate.
    - assert (E1 : chan_shape_terms N sp theta aux c0 = chan_shape_terms N sp' theta aux c0'); [|now rewrite E1].
      unfold chan_shape_terms. rewrite Hsm. change (c_samples c0') with (spre ++ add_mod m0 s1 :: spost). rewrite !flat_map_app.
      rewrite !fm_cons. f_equal; [|f_equal].
      + apply flat_map_ext. intros s. apply flat_map_ext. intros m. apply mod_shape_terms_change; auto. apply null_nbins.
      + assert (E0 : mod_shape_terms N sp' theta aux c0' (add_mod m0 s1) m0 = []).
        { unfold mod_shape_terms. destruct null_type as [E|E]; now rewrite E. }
        change (s_mods (add_mod m0 s1)) with (m0 :: s_mods s1). rewrite fm_cons, E0. simpl. apply flat_map_ext. intros m. apply mod_shape_terms_change; auto. apply null_nbins.
      + apply flat_map_ext. intros s. apply flat_map_ext. intros m. apply mod_shape_terms_change; auto. apply null_nbins.
  Qed.

  Theorem null_systematic_invariant_spec theta obs aux :
    rexp sp' theta = rexp sp theta /\
    (In (m_name m0) (alpha_names N sp) -> Permutation (rterms sp' theta obs aux) (rterms sp theta obs aux)) /\
    (~ In (m_name m0) (alpha_names N sp) ->
       Permutation (rterms sp' theta obs aux) (TNorm (aux (m_name m0) O) (theta (m_name m0) O) 1 :: rterms sp theta obs aux)).
  Proof. split; [|split].
    - apply (replace_channel_expected N interp_add interp_mul ncode hcode clip_s clip_b sp pre post c0 c0' Hch Hnd null_sim). intros b _. apply null_rate.
    - intros Hin. apply (replace_channel_terms_gen N interp_add interp_mul ncode hcode clip_s clip_b sp pre post c0 c0' Hch Hnd null_sim theta obs aux []).
      + intros b _. apply null_rate.
      + apply null_cong.
      + simpl. apply ct_alpha_perm. intros n.
        rewrite (replace_alpha_in N sp pre post c0'), (orig_alpha_in N sp pre post c0 Hch), null_tnames_alpha.
        rewrite (orig_alpha_in N sp pre post c0 Hch) in Hin. split; [|tauto]. intros [[->|H]|H]; auto.
    - intros Hn. apply (replace_channel_terms_gen N interp_add interp_mul ncode hcode clip_s clip_b sp pre post c0 c0' Hch Hnd null_sim theta obs aux [TNorm (aux (m_name m0) O) (theta (m_name m0) O) 1]).
      + intros b _. apply null_rate.
      + apply null_cong.
      + simpl. apply ct_alpha_new; auto. intros n.
        rewrite (replace_alpha_in N sp pre post c0'), (orig_alpha_in N sp pre post c0 Hch), null_tnames_alpha. tauto.
  Qed.
End Null.

(* ------------------------------------------------------------------ 6. two samples with identical modifiers merged into one *)
Section Merge.
  Variable N : Num.
  Notation V := (V N).
  Hypothesis Hring : ring_theory (n0 N) (n1 N) (nadd N) (nmul N) (nsub N) (nopp N) eq.
  Add Ring NR7 : Hring.
  Notation "0" := (n0 N). Notation "1" := (n1 N).
  Infix "+" := (nadd N). Infix "*" := (nmul N).
  Variable interp_add interp_mul : string -> V -> V -> V -> V -> V.
  Variables ncode hcode : string.
  Variable clip_b : option V.
  Notation spec := (spec N). Notation channel := (channel N). Notation sample := (sample N). Notation modifier := (modifier N).
  (* no per-sample clip *)
  Notation srate := (sample_rate N interp_add interp_mul ncode hcode None).
  Notation rrate := (ref_rate N interp_add interp_mul ncode hcode None clip_b).
  Notation rexp := (ref_expected N interp_add interp_mul ncode hcode None clip_b).
  Notation rmain := (ref_main_terms N interp_add interp_mul ncode hcode None clip_b).

  Fixpoint vadd (l1 l2 : list V) : list V := match l1, l2 with a :: t1, b :: t2 => (a + b) :: vadd t1 t2 | _, _ => [] end.
  Lemma vadd_length l1 l2 : length l1 = length l2 -> length (vadd l1 l2) = length l1.
  Proof. revert l2. induction l1 as [|a t IH]; intros [|b t2] H; simpl in *; auto; try discriminate. Qed.
  Lemma vadd_nth l1 l2 b : length l1 = length l2 -> nth b (vadd l1 l2) 0 = nth b l1 0 + nth b l2 0.
  Proof. revert l2 b. induction l1 as [|a t IH]; intros [|c t2] b H; simpl in *; try discriminate.
    - destruct b; ring.
    - destruct b; auto. Qed.
  Definition merged (s1 s2 : sample) : sample := {| s_name := s_name s1; s_data := vadd (s_data s1) (s_data s2); s_mods := s_mods s1 |}.

  Variable sp : spec.
  Variables pre post : list channel.
  Variable c0 : channel.
  Variables spre spost : list sample.
  Variables s1 s2 : sample.
  Hypothesis Hch : channels sp = pre ++ c0 :: post.
  Hypothesis Hsm : c_samples c0 = spre ++ s1 :: s2 :: spost.
  Hypothesis Hnd : NoDup (map c_name (channels sp)).
  Hypothesis Hmods : s_mods s2 = s_mods s1.
  Hypothesis Hlen : length (s_data s1) = length (s_data s2).
  Hypothesis Hnohisto : forall m, In m (s_mods s1) -> m_type m <> Histosys.
  Let c0' : channel := with_samples c0 (spre ++ merged s1 s2 :: spost).
  Let sp' : spec := with_channels sp (pre ++ c0' :: post).

  Lemma nohisto_delta theta (s : sample) b : rsum N (map (fun m => mod_delta N interp_add hcode theta s m b) (s_mods s1)) = 0.
  Proof. change (rsum N ?l) with (foldm V (nadd N) 0 l). apply foldm_neutral; [intros; ring|]. intros m Hm. unfold mod_delta.
    specialize (Hnohisto m Hm). destruct (m_type m); auto. contradiction. Qed.
  Lemma merge_srate theta c b : srate sp theta c (merged s1 s2) b = srate sp theta c s1 b + srate sp theta c s2 b.
  Proof. unfold sample_rate, rclip. rewrite Hmods. change (s_mods (merged s1 s2)) with (s_mods s1). rewrite !nohisto_delta.
    change (s_data (merged s1 s2)) with (vadd (s_data s1) (s_data s2)). rewrite vadd_nth by auto.
    assert (E : forall s s', map (fun m => mod_factor N interp_mul ncode sp theta c s m b) (s_mods s1) = map (fun m => mod_factor N interp_mul ncode sp theta c s' m b) (s_mods s1)) by reflexivity.
    rewrite (E (merged s1 s2) s1), (E s2 s1). ring. Qed.
  Lemma merge_nbins : chan_nbins N c0 = chan_nbins N c0'.
  Proof. unfold chan_nbins. rewrite Hsm. unfold c0', with_samples. cbn [c_samples]. destruct spre; cbn [app]; auto. unfold merged; cbn [s_data]. now rewrite vadd_length. Qed.
  Lemma merge_sim : chan_sim N c0 c0'.
  Proof. split; [reflexivity|]. split; [apply merge_nbins|]. intros n. unfold chan_has. rewrite Hsm. unfold c0', with_samples. cbn [c_samples].
    rewrite !existsb_app. cbn [existsb]. assert (E1 : has_mod N (merged s1 s2) n Staterror = has_mod N s1 n Staterror) by reflexivity.
    assert (E2 : has_mod N s2 n Staterror = has_mod N s1 n Staterror) by (unfold has_mod; now rewrite Hmods).
    rewrite E1, E2. destruct (has_mod N s1 n Staterror); reflexivity. Qed.
  Lemma merge_rate theta b : rrate sp theta c0' b = rrate sp theta c0 b.
  Proof. unfold ref_rate. f_equal. rewrite Hsm. unfold c0' at 2, with_samples. cbn [c_samples]. rewrite !map_app. cbn [map].
    change (rsum N ?l) with (foldm V (nadd N) 0 l).
    assert (Ha : forall a b0 c1, nadd N a (nadd N b0 c1) = nadd N (nadd N a b0) c1) by (intros; ring).
    assert (He : forall a, nadd N 0 a = a) by (intros; ring).
    rewrite !(foldm_app V (nadd N) 0 Ha He). f_equal. cbn [foldm fold_right]. rewrite (merge_srate theta c0' b).
    assert (E : forall s, srate sp theta c0' s b = srate sp theta c0 s b) by reflexivity. rewrite !E.
    change (map (fun s => srate sp theta c0' s b) spost) with (map (fun s => srate sp theta c0 s b) spost).
    generalize (fold_right (nadd N) 0 (map (fun s => srate sp theta c0 s b) spost)). intros x. ring. Qed.

  (* the expected data and the Poisson terms of the main measurement are unchanged (the MC-statistical constraint
     terms of the two samples are a different matter and are not claimed) *)
  Theorem merge_identical_samples_invariant theta obs :
    (forall b, rrate sp theta c0' b = rrate sp theta c0 b) /\ rexp sp' theta = rexp sp theta /\ rmain sp' theta obs = rmain sp theta obs.
  Proof. split; [apply merge_rate|split].
    - apply (replace_channel_expected N interp_add interp_mul ncode hcode None clip_b sp pre post c0 c0' Hch Hnd merge_sim). intros b _. apply merge_rate.
    - apply (replace_channel_main_terms N interp_add interp_mul ncode hcode None clip_b sp pre post c0 c0' Hch Hnd merge_sim). intros b _. apply merge_rate.
  Qed.
End Merge.

(* ------------------------------------------------------------------ 7. signal yields times k, signal strength divided by k *)
Section RescaleSpec.
  Variable N : Num.
  Notation V := (V N).
  Hypothesis Hfield : field_theory (n0 N) (n1 N) (nadd N) (nmul N) (nsub N) (nopp N) (ndiv N) (ninv N) eq.
  Add Field NF2 : Hfield.
  Notation "0" := (n0 N). Notation "1" := (n1 N).
  Infix "+" := (nadd N). Infix "*" := (nmul N). Infix "/" := (ndiv N).
  Variable interp_add interp_mul : string -> V -> V -> V -> V -> V.
  Variables ncode hcode : string.
  Variables clip_s clip_b : option V.
  Notation spec := (spec N). Notation channel := (channel N). Notation sample := (sample N). Notation modifier := (modifier N).
  Notation mfac := (mod_factor N interp_mul ncode).
  Notation mdel := (mod_delta N interp_add hcode).
  Notation srate := (sample_rate N interp_add interp_mul ncode hcode clip_s).
  Notation rrate := (ref_rate N interp_add interp_mul ncode hcode clip_s clip_b).
  Notation rexp := (ref_expected N interp_add interp_mul ncode hcode clip_s clip_b).
  Notation rmain := (ref_main_terms N interp_add interp_mul ncode hcode clip_s clip_b).

  Variable mu : string.
  Variable k : V.
  Hypothesis Hk : k <> 0.
  Definition scale_sample (s : sample) : sample :=
    if has_mod N s mu Normfactor then {| s_name := s_name s; s_data := map (fun x => k * x) (s_data s); s_mods := s_mods s |} else s.
  Definition scale_channel (c : channel) : channel := with_samples c (map scale_sample (c_samples c)).
  Definition rescale_signal (sp : spec) : spec := with_channels sp (map scale_channel (channels sp)).
  Definition rescale_theta (theta : string -> nat -> V) (n : string) (j : nat) : V := if String.eqb n mu then theta n j / k else theta n j.

  Variable sp : spec.
  Variable theta : string -> nat -> V.
  Hypothesis Hnd : NoDup (map c_name (channels sp)).
  (* the name mu is used for the normfactor only, once per sample, and signal samples carry no histosys *)
  Hypothesis Honly : forall c s m, In c (channels sp) -> In s (c_samples c) -> In m (s_mods s) -> m_name m = mu -> m_type m = Normfactor.
  Hypothesis Honce : forall c s, In c (channels sp) -> In s (c_samples c) -> has_mod N s mu Normfactor = true -> NoDup (map mkey (s_mods s)).
  Hypothesis Hnohisto : forall c s m, In c (channels sp) -> In s (c_samples c) -> has_mod N s mu Normfactor = true -> In m (s_mods s) -> m_type m <> Histosys.

  Lemma scale_mods s : s_mods (scale_sample s) = s_mods s.
  Proof. unfold scale_sample. destruct (has_mod N s mu Normfactor); reflexivity. Qed.
  Lemma scale_len s : length (s_data (scale_sample s)) = length (s_data s).
  Proof. unfold scale_sample. destruct (has_mod N s mu Normfactor); auto. simpl. apply map_length. Qed.
  Lemma scale_nbins c : chan_nbins N c = chan_nbins N (scale_channel c).
  Proof. unfold chan_nbins, scale_channel, with_samples. cbn [c_samples]. destruct (c_samples c) as [|s t]; auto. cbn [map]. now rewrite scale_len. Qed.
  Lemma scale_sim c : chan_sim N c (scale_channel c).
  Proof. split; [reflexivity|]. split; [apply scale_nbins|]. intros n. unfold chan_has, scale_channel, with_samples. cbn [c_samples].
    induction (c_samples c) as [|s t IH]; auto. cbn [map existsb]. rewrite IH. f_equal. unfold has_mod. now rewrite scale_mods. Qed.

  Lemma other_factor (sp0 : spec) c s m b : m_name m <> mu -> mfac sp0 (rescale_theta theta) c s m b = mfac sp0 theta c s m b.
  Proof. intros Hn. apply String.eqb_neq in Hn. unfold mod_factor, rescale_theta. rewrite Hn. reflexivity. Qed.
  Lemma other_delta s m b : m_name m <> mu -> mdel (rescale_theta theta) s m b = mdel theta s m b.
  Proof. intros Hn. apply String.eqb_neq in Hn. unfold mod_delta, rescale_theta. rewrite Hn. reflexivity. Qed.
  Lemma nth_scaled l b : nth b (map (fun x => k * x) l) 0 = k * nth b l 0.
  Proof. revert b. induction l as [|a t IH]; intros [|b]; simpl; auto; ring. Qed.

  (* a sample that does not carry the normfactor mu does not mention mu at all *)
  Lemma background_rate c s b : In c (channels sp) -> In s (c_samples c) -> has_mod N s mu Normfactor = false ->
    srate sp (rescale_theta theta) c (scale_sample s) b = srate sp theta c s b.
  Proof. intros Hc Hs Hh. unfold scale_sample. rewrite Hh.
    assert (Hno : forall m, In m (s_mods s) -> m_name m <> mu).
    { intros m Hm E. assert (has_mod N s mu Normfactor = true); [|congruence]. unfold has_mod. apply existsb_exists. exists m. split; auto.
      rewrite E, String.eqb_refl, (Honly c s m Hc Hs Hm E). reflexivity. }
    unfold sample_rate. f_equal. f_equal.
    - f_equal. apply map_ext_in. intros m Hm. apply other_factor. auto.
    - f_equal. f_equal. apply map_ext_in. intros m Hm. apply other_delta. auto. Qed.

  Lemma signal_rate c s b : In c (channels sp) -> In s (c_samples c) -> has_mod N s mu Normfactor = true ->
    srate sp (rescale_theta theta) c (scale_sample s) b = srate sp theta c s b.
  Proof. intros Hc Hs Hh. unfold scale_sample. rewrite Hh.
    assert (Hh' := Hh). unfold has_mod in Hh'. apply existsb_exists in Hh'. destruct Hh' as [m [Hm Hmm]]. apply andb_prop in Hmm. destruct Hmm as [Hmn Hmt].
    apply String.eqb_eq in Hmn. apply mtype_eqb_eq in Hmt.
    destruct (in_split _ _ Hm) as [l1 [l2 Hl]].
    assert (Hnd1 : NoDup (map mkey (l1 ++ m :: l2))) by (rewrite <- Hl; eapply Honce; eauto).
    assert (Hno : forall m', In m' (l1 ++ l2) -> m_name m' <> mu).
    { intros m' Hm' E. rewrite map_app in Hnd1. simpl in Hnd1. apply NoDup_remove_2 in Hnd1. apply Hnd1. rewrite <- map_app.
      assert (Hin : In m' (s_mods s)) by (rewrite Hl; apply in_app_or in Hm'; apply in_or_app; destruct Hm'; auto; right; now right).
      assert (Ek : mkey m = mkey m') by (unfold mkey; now rewrite Hmn, E, Hmt, (Honly c s m' Hc Hs Hin E)).
      rewrite Ek. now apply in_map. }
    assert (Hd : forall th (s' : sample), s_mods s' = s_mods s -> rsum N (map (fun m' => mdel th s' m' b) (s_mods s)) = 0).
    { intros th s' _. change (rsum N ?l) with (foldm V (nadd N) 0 l). apply foldm_neutral; [intros; ring|]. intros m' Hm'. unfold mod_delta.
      assert (Ht := Hnohisto c s m' Hc Hs Hh Hm'). destruct (m_type m'); auto. contradiction. }
    unfold sample_rate. f_equal. cbn [s_mods s_data]. rewrite !Hd by reflexivity. rewrite nth_scaled. rewrite Hl.
    rewrite !map_app. cbn [map]. change (rprod N ?l) with (foldm V (nmul N) 1 l).
    assert (Ha : forall a b0 c1, nmul N a (nmul N b0 c1) = nmul N (nmul N a b0) c1) by (intros; ring).
    assert (He : forall a, nmul N 1 a = a) by (intros; ring).
    rewrite !(foldm_app V (nmul N) 1 Ha He). cbn [foldm fold_right].
    assert (E1 : forall (s' : sample) l, incl l (l1 ++ l2) -> map (fun m' => mfac sp (rescale_theta theta) c s' m' b) l = map (fun m' => mfac sp theta c s m' b) l).
    { intros s' l Hi. apply map_ext_in. intros m' Hm'. rewrite other_factor; auto. }
    rewrite (E1 _ l1), (E1 _ l2) by (intros x Hx; apply in_or_app; auto).
    assert (Em : forall s' th, mfac sp th c s' m b = th mu O). { intros s' th. unfold mod_factor. now rewrite Hmt, Hmn. }
    rewrite !Em. unfold rescale_theta. rewrite String.eqb_refl.
    generalize (fold_right (nmul N) 1 (map (fun m' => mfac sp theta c s m' b) l1)).
    generalize (fold_right (nmul N) 1 (map (fun m' => mfac sp theta c s m' b) l2)). intros P2 P1. field. exact Hk. Qed.

  Lemma rescale_rate c b : In c (channels sp) -> rrate sp (rescale_theta theta) (scale_channel c) b = rrate sp theta c b.
  Proof. intros Hc. unfold ref_rate. f_equal. f_equal. unfold scale_channel, with_samples. cbn [c_samples]. rewrite map_map.
    apply map_ext_in. intros s Hs.
    assert (E : srate sp (rescale_theta theta) {| c_name := c_name c; c_samples := map scale_sample (c_samples c) |} (scale_sample s) b
                = srate sp (rescale_theta theta) c (scale_sample s) b) by reflexivity. rewrite E.
    destruct (has_mod N s mu Normfactor) eqn:Hh; [now apply signal_rate|now apply background_rate]. Qed.

  Theorem signal_rescale_covariant_spec obs :
    rexp (rescale_signal sp) (rescale_theta theta) = rexp sp theta /\
    rmain (rescale_signal sp) (rescale_theta theta) obs = rmain sp theta obs.
  Proof.
    assert (HP : PermRel (fun c c' => c' = scale_channel c) (channels sp) (channels (rescale_signal sp))).
    { apply PermRel_Forall2. unfold rescale_signal, with_channels. cbn [channels]. apply Forall2_map_r. auto. }
    assert (Hs : forall c c', In c (channels sp) -> In c' (channels (rescale_signal sp)) -> c' = scale_channel c -> chan_sim N c c').
    { intros c c' _ _ ->. apply scale_sim. }
    split; symmetry.
    - apply (ref_expected_congr N interp_add interp_mul ncode hcode clip_s clip_b sp (rescale_signal sp) _ Hnd HP Hs).
      intros c c' Hc _ -> b _. symmetry. now apply rescale_rate.
    - apply (ref_main_terms_congr N interp_add interp_mul ncode hcode clip_s clip_b sp (rescale_signal sp) _ Hnd HP Hs).
      intros c c' Hc _ -> b _. symmetry. now apply rescale_rate.
  Qed.
End RescaleSpec.
