(* C20: what an accepted specification is guaranteed to satisfy (the contrapositive of every refusal class),
   derived from the chain of checks in Impl.build. *)
From Coq Require Import Bool Arith Lia String List.
Require Import PV.Num PV.Sort PV.Spec PV.Impl.
Import ListNotations.
Local Open Scope list_scope.

Lemma has_dup_false_NoDup l : has_dup l = false <-> NoDup l.
Proof.
  induction l as [|x t IH]; simpl; [split; [constructor|reflexivity]|].
  rewrite orb_false_iff, IH. split.
  - intros [H1 H2]. constructor; auto. intros Hin.
    assert (existsb (String.eqb x) t = true) by (apply existsb_exists; exists x; split; auto; apply String.eqb_refl). congruence.
  - intros H. inversion H; subst. split; auto. destruct (existsb (String.eqb x) t) eqn:E; auto.
    apply existsb_exists in E. destruct E as [y [Hy He]]. apply String.eqb_eq in He. subst. contradiction.
Qed.
Lemma pair_eqb_eq a b : pair_eqb a b = true <-> a = b.
Proof. destruct a, b; unfold pair_eqb; simpl. rewrite andb_true_iff, !String.eqb_eq. split; [intros [-> ->]; auto|intros H; inversion H; auto]. Qed.
Lemma has_dup_pair_false_NoDup l : has_dup_pair l = false <-> NoDup l.
Proof.
  induction l as [|x t IH]; simpl; [split; [constructor|reflexivity]|].
  rewrite orb_false_iff, IH. split.
  - intros [H1 H2]. constructor; auto. intros Hin.
    assert (existsb (pair_eqb x) t = true) by (apply existsb_exists; exists x; split; auto; now apply pair_eqb_eq). congruence.
  - intros H. inversion H; subst. split; auto. destruct (existsb (pair_eqb x) t) eqn:E; auto.
    apply existsb_exists in E. destruct E as [y [Hy He]]. apply pair_eqb_eq in He. subst. contradiction.
Qed.

Section Wf.
  Variable N : Num.
  Variable sp : spec N.
  Notation chs := (cfg_channels N sp).
  Notation smps := (cfg_samples N sp).
  Notation mods := (cfg_modifiers N sp).

  (* everything the chain of checks has established when build succeeds *)
  Record accepted_facts : Prop := {
    af_dups : listing_dups N sp = false;
    af_shapesys : has_dup (shapesys_names_listed N sp) = false;
    af_nominal : nominal_lengths_ok N sp chs smps = true;
    af_histo : lengths_ok N sp chs smps mods Histosys (mdlo N) = true /\ lengths_ok N sp chs smps mods Histosys (mdhi N) = true;
    af_shapesys_len : lengths_ok N sp chs smps mods Shapesys (mdlist N) = true;
    af_stat_len : lengths_ok N sp chs smps mods Staterror (mdlist N) = true;
    af_stat_masks : forallb (stat_masks_consistent N sp chs smps) (mods_of mods Staterror) = true;
    af_user : user_dups N sp = false;
    af_params : exists ps, reduce_all N sp (required_all N sp chs smps mods) 0 = Ok ps /\ ps <> [] }.

  Lemma build_ok_facts m : build N sp = Ok m -> accepted_facts.
  Proof.
    unfold build, build_hot. intros H.
    destruct (listing_dups N sp) eqn:E1; [discriminate|].
    destruct (has_dup (shapesys_names_listed N sp)) eqn:E2; [discriminate|].
    destruct (nominal_lengths_ok N sp chs smps) eqn:E3; [|discriminate]. simpl in H.
    destruct (lengths_ok N sp chs smps mods Histosys (mdlo N)) eqn:E4; [|discriminate].
    destruct (lengths_ok N sp chs smps mods Histosys (mdhi N)) eqn:E5; [|discriminate]. simpl in H.
    destruct (lengths_ok N sp chs smps mods Shapesys (mdlist N)) eqn:E6; [|discriminate]. simpl in H.
    destruct (lengths_ok N sp chs smps mods Staterror (mdlist N)) eqn:E7; [|discriminate]. simpl in H.
    match type of H with context [if negb ?b then _ else _] => destruct b eqn:E8; [|discriminate] end. simpl in H.
    destruct (forallb (stat_masks_consistent N sp chs smps) (mods_of mods Staterror)) eqn:E9; [|discriminate]. simpl in H.
    destruct (user_dups N sp) eqn:E10; [discriminate|].
    destruct (reduce_all N sp (required_all N sp chs smps mods) 0) as [ps|] eqn:E11; [|discriminate]. simpl in H.
    destruct (check_all (pset_create_ok N) ps); [|discriminate]. simpl in H.
    destruct ps as [|p0 ps']; [discriminate|].
    constructor; auto. exists (p0 :: ps'). split; auto. discriminate.
  Qed.

  (* ---- the refusal classes, as guarantees about accepted specifications ---- *)
  Theorem accepted_distinct_channels m : build N sp = Ok m -> NoDup (map c_name (channels sp)).
  Proof. intros H. destruct (build_ok_facts m H) as [Hd _ _ _ _ _ _ _ _]. unfold listing_dups in Hd.
    apply orb_false_iff in Hd. destruct Hd as [Hd _]. apply orb_false_iff in Hd. destruct Hd as [Hd _].
    now apply has_dup_false_NoDup. Qed.

  Theorem accepted_distinct_samples m c : build N sp = Ok m -> In c (channels sp) -> NoDup (map s_name (c_samples c)).
  Proof. intros H Hc. destruct (build_ok_facts m H) as [Hd _ _ _ _ _ _ _ _]. unfold listing_dups in Hd.
    apply orb_false_iff in Hd. destruct Hd as [Hd _]. apply orb_false_iff in Hd. destruct Hd as [_ Hd].
    apply has_dup_false_NoDup. destruct (has_dup (map s_name (c_samples c))) eqn:E; auto.
    assert (existsb (fun c => has_dup (map s_name (c_samples c))) (channels sp) = true) by (apply existsb_exists; eauto). congruence. Qed.

  Theorem accepted_distinct_modifiers m c s : build N sp = Ok m -> In c (channels sp) -> In s (c_samples c) -> NoDup (map mkey (s_mods s)).
  Proof. intros H Hc Hs. destruct (build_ok_facts m H) as [Hd _ _ _ _ _ _ _ _]. unfold listing_dups in Hd.
    apply orb_false_iff in Hd. destruct Hd as [_ Hd].
    apply has_dup_pair_false_NoDup. destruct (has_dup_pair (map mkey (s_mods s))) eqn:E; auto.
    assert (existsb (fun s => has_dup_pair (map mkey (s_mods s))) (all_samples N sp) = true).
    { apply existsb_exists. exists s. split; auto. unfold all_samples. apply in_flat_map. eauto. } congruence. Qed.

  Theorem accepted_shapesys_unique m : build N sp = Ok m -> NoDup (shapesys_names_listed N sp).
  Proof. intros H. destruct (build_ok_facts m H) as [_ Hd _ _ _ _ _ _ _]. now apply has_dup_false_NoDup. Qed.

  Theorem accepted_one_config_per_parameter m : build N sp = Ok m -> NoDup (map pc_name (parameters sp)).
  Proof. intros H. destruct (build_ok_facts m H) as [_ _ _ _ _ _ _ Hd _]. now apply has_dup_false_NoDup. Qed.

  Theorem accepted_has_parameters m : build N sp = Ok m -> md_psets N m <> [].
  Proof.
    unfold build, build_hot. intros H.
    repeat match type of H with
           | context [if ?b then _ else _] => destruct b; try discriminate H
           end.
    destruct (reduce_all N sp (required_all N sp chs smps mods) 0) as [ps|]; [|discriminate]. simpl in H.
    destruct (check_all (pset_create_ok N) ps); [|discriminate]. simpl in H.
    destruct ps as [|p0 ps']; [discriminate|].
    repeat match type of H with
           | context [bind ?r _] => destruct r; simpl in H; try discriminate H
           end.
    inversion H; subst; simpl. discriminate.
  Qed.

  (* every listed sample of an accepted spec has the bin count of its channel, once names are known distinct *)
  Lemma forallb_in {A} (f : A -> bool) l x : forallb f l = true -> In x l -> f x = true.
  Proof. intros H Hin. rewrite forallb_forall in H. auto. Qed.

  Theorem accepted_cell_lengths m cn sn s : build N sp = Ok m -> In cn chs -> In sn smps ->
    cell N sp cn sn = Some s -> length (s_data s) = nbins N sp cn.
  Proof.
    intros H Hc Hs Hcell. destruct (build_ok_facts m H) as [_ _ Hn _ _ _ _ _ _].
    unfold nominal_lengths_ok in Hn. apply (forallb_in _ _ cn) in Hn; auto. cbv beta in Hn. apply (forallb_in _ _ sn) in Hn; auto.
    cbv beta in Hn. rewrite Hcell in Hn. now apply Nat.eqb_eq.
  Qed.

  Theorem accepted_modifier_lengths m cn sn k md : build N sp = Ok m -> In cn chs -> In sn smps ->
    cellmod N sp cn sn k = Some md ->
    (In k (mods_of mods Histosys) -> length (mdlo N md) = nbins N sp cn /\ length (mdhi N md) = nbins N sp cn) /\
    (In k (mods_of mods Shapesys) -> length (mdlist N md) = nbins N sp cn) /\
    (In k (mods_of mods Staterror) -> length (mdlist N md) = nbins N sp cn).
  Proof.
    intros H Hc Hs Hm. destruct (build_ok_facts m H) as [_ _ _ [Hl Hh] Hy Ht _ _ _].
    assert (G : forall t f, lengths_ok N sp chs smps mods t f = true -> In k (mods_of mods t) -> length (f md) = nbins N sp cn).
    { intros t f Hok Hk. unfold lengths_ok in Hok. apply (forallb_in _ _ k) in Hok; auto. cbv beta in Hok.
      apply (forallb_in _ _ sn) in Hok; auto. cbv beta in Hok. apply (forallb_in _ _ cn) in Hok; auto. cbv beta in Hok. rewrite Hm in Hok. now apply Nat.eqb_eq. }
    split; [intros Hk; split; eauto|]. split; intros Hk; eauto.
  Qed.

  (* a POI, when given, names a one-component parameter of the model *)
  Theorem accepted_poi_defined m nm : build N sp = Ok m -> poi sp = Some nm -> nm <> ""%string ->
    exists p, find_pset N (md_psets N m) nm = Some p /\ p_n N p <= 1 /\ md_poi N m = Some (p_start N p).
  Proof.
    unfold build, build_hot. intros H Hp Hne.
    repeat match type of H with
           | context [if ?b then _ else _] => destruct b; try discriminate H
           end.
    destruct (reduce_all N sp (required_all N sp chs smps mods) 0) as [ps|]; [|discriminate]. simpl in H.
    destruct (check_all (pset_create_ok N) ps); [|discriminate]. simpl in H.
    destruct ps as [|p0 ps']; [discriminate|].
    destruct (collect (inits_of N) (p0 :: ps')); [|discriminate]. simpl in H.
    destruct (check_all (reindex_ok N sp chs smps (p0 :: ps')) (mods_of mods Shapesys)); [|discriminate]. simpl in H.
    destruct (check_all (reindex_ok N sp chs smps (p0 :: ps')) (mods_of mods Staterror)); [|discriminate]. simpl in H.
    unfold set_poi in H. rewrite Hp in H.
    destruct (String.eqb_spec nm ""); [contradiction|].
    destruct (find_pset N (p0 :: ps') nm) as [p|] eqn:Ef; [|discriminate].
    destruct (Nat.ltb 1 (p_n N p)) eqn:El; [discriminate|]. simpl in H. inversion H; subst; simpl.
    exists p. repeat split; auto. apply Nat.ltb_ge in El. lia.
  Qed.

  (* ---- parameter reconciliation: conflicting definitions, wrong-length overrides, missing required settings ---- *)
  Ltac agree_step H :=
    match type of H with
    | context [if negb ?b then _ else _] => let E := fresh "Eag" in destruct b eqn:E; simpl negb in H; cbv iota in H; [|discriminate H]
    end.

  Lemma user_merge_ok {A} n (d : optv (list A)) u r : user_merge n d u = Ok r ->
    r <> PyNone /\
    (forall l, u = Some l -> r = Val l /\ d <> Undef /\ (d = PyNone -> length l = n) /\ (forall dl, d = Val dl -> dl <> [] -> length l = length dl)) /\
    (u = None -> r = d).
  Proof.
    unfold user_merge. destruct u as [l|]; destruct d as [| |dl]; try discriminate.
    - destruct (Nat.eqb (length l) n) eqn:E; [|discriminate]. intros H; inversion H; subst. apply Nat.eqb_eq in E.
      split; [discriminate|]. split; [|discriminate]. intros l0 Hl; inversion Hl; subst. repeat split; auto; try discriminate.
    - destruct dl as [|x dl].
      + intros H; inversion H; subst. split; [discriminate|]. split; [|discriminate]. intros l0 Hl; inversion Hl; subst.
        repeat split; auto; try discriminate. intros dl0 Hd Hne. inversion Hd; subst. contradiction.
      + destruct (Nat.eqb (length l) (length (x :: dl))) eqn:E; [|discriminate]. intros H; inversion H; subst. apply Nat.eqb_eq in E.
        split; [discriminate|]. split; [|discriminate]. intros l0 Hl; inversion Hl; subst.
        repeat split; auto; try discriminate. intros dl0 Hd _. now inversion Hd.
    - intros H; inversion H; subst. split; [discriminate|]. split; [discriminate|auto].
    - intros H; inversion H; subst. split; [discriminate|]. split; [discriminate|auto].
  Qed.

  Theorem reduce_one_consistent name rs start p : reduce_one N sp name rs start = Ok p ->
    agree ptype_eqb (map (r_type N) rs) = true /\ agree Nat.eqb (map (r_n N) rs) = true /\
    agree Bool.eqb (map (r_scalar N) rs) = true /\
    p_inits N p <> PyNone /\ p_bounds N p <> PyNone /\ p_aux N p <> PyNone /\ p_var N p <> PyNone.
  Proof.
    unfold reduce_one. intros H. destruct rs as [|r0 rs']; [discriminate|]. unfold bind in H.
    do 4 agree_step H.
    destruct (user_merge (r_n N r0) (r_inits N r0) _) as [xi|] eqn:Ei; [|discriminate]. agree_step H.
    destruct (user_merge (r_n N r0) (r_bounds N r0) _) as [xb|] eqn:Eb; [|discriminate]. agree_step H.
    destruct (user_merge (r_n N r0) (r_aux N r0) _) as [xa|] eqn:Ea; [|discriminate]. agree_step H.
    destruct (user_merge (r_n N r0) (r_factors N r0) _) as [xf|] eqn:Ef; [|discriminate]. agree_step H.
    destruct (user_merge (r_n N r0) (r_var N r0) _) as [xv|] eqn:Ev; [|discriminate]. agree_step H.
    inversion H; subst; simpl.
    repeat split; auto; [apply (user_merge_ok _ _ _ _ Ei)|apply (user_merge_ok _ _ _ _ Eb)|apply (user_merge_ok _ _ _ _ Ea)|apply (user_merge_ok _ _ _ _ Ev)].
  Qed.

  (* shapefactor parameters of different sizes are different requirements *)
  Lemma req_shapefactor_size_conflict n n' : n <> n' -> agree Nat.eqb (map (r_n N) [req_shapefactor N n; req_shapefactor N n']) = false.
  Proof. intros H. simpl. destruct (Nat.eqb_spec n n'); [contradiction|reflexivity]. Qed.

  Theorem override_lengths_checked name r0 rs start p u : reduce_one N sp name (r0 :: rs) start = Ok p -> find_user N sp name = Some u ->
    (forall l dl, pc_inits u = Some l -> r_inits N r0 = Val dl -> dl <> [] -> length l = length dl) /\
    (forall l dl, pc_bounds u = Some l -> r_bounds N r0 = Val dl -> dl <> [] -> length l = length dl) /\
    (forall l dl, pc_auxdata u = Some l -> r_aux N r0 = Val dl -> dl <> [] -> length l = length dl) /\
    (forall l dl, pc_factors u = Some l -> r_factors N r0 = Val dl -> dl <> [] -> length l = length dl) /\
    (forall l, pc_inits u = Some l -> r_inits N r0 = PyNone -> length l = r_n N r0) /\
    (forall l, pc_auxdata u = Some l -> r_aux N r0 = PyNone -> length l = r_n N r0) /\
    (forall l, pc_sigmas u = Some l -> r_var N r0 = PyNone -> length l = r_n N r0).
  Proof.
    unfold reduce_one. intros H Hu. rewrite Hu in H. unfold usr, bind in H.
    do 4 agree_step H.
    destruct (user_merge (r_n N r0) (r_inits N r0) _) as [xi|] eqn:Ei; [|discriminate]. agree_step H.
    destruct (user_merge (r_n N r0) (r_bounds N r0) _) as [xb|] eqn:Eb; [|discriminate]. agree_step H.
    destruct (user_merge (r_n N r0) (r_aux N r0) _) as [xa|] eqn:Ea; [|discriminate]. agree_step H.
    destruct (user_merge (r_n N r0) (r_factors N r0) _) as [xf|] eqn:Ef; [|discriminate]. agree_step H.
    destruct (user_merge (r_n N r0) (r_var N r0) _) as [xv|] eqn:Ev; [|discriminate]. agree_step H.
    apply user_merge_ok in Ei, Eb, Ea, Ef, Ev.
    destruct Ei as (_ & Ei & _). destruct Eb as (_ & Eb & _). destruct Ea as (_ & Ea & _). destruct Ef as (_ & Ef & _). destruct Ev as (_ & Ev & _).
    repeat split.
    - intros l dl Hl Hd Hne. destruct (Ei l Hl) as (_ & _ & _ & G). eauto.
    - intros l dl Hl Hd Hne. destruct (Eb l Hl) as (_ & _ & _ & G). eauto.
    - intros l dl Hl Hd Hne. destruct (Ea l Hl) as (_ & _ & _ & G). eauto.
    - intros l dl Hl Hd Hne. destruct (Ef l Hl) as (_ & _ & _ & G). eauto.
    - intros l Hl Hd. destruct (Ei l Hl) as (_ & _ & G & _). eauto.
    - intros l Hl Hd. destruct (Ea l Hl) as (_ & _ & G & _). eauto.
    - intros l Hl Hd. rewrite Hl in Ev. simpl in Ev. destruct (Ev _ eq_refl) as (_ & _ & G & _). rewrite map_length in G. eauto.
  Qed.
End Wf.
