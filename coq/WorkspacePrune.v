(* prune and rename: exactness, preservation, inverse renaming. *)
From Coq Require Import Bool Arith Lia Permutation Sorting.Sorted String Ascii QArith Qcanon List.
Require Import PV.Sort PV.Json PV.Workspace PV.WorkspaceThms.
Import ListNotations.
Local Open Scope string_scope.
Local Open Scope nat_scope.
Local Open Scope list_scope.

(* ---------- specification of pruning, written with plain filters ---------- *)
Definition hit (names : list string) (x : string) : Prop := In x names.
Definition prune_modifiers_ref (mods types : list string) (l : list modifier) : list modifier :=
  filter (fun m => negb (mem_str (m_name m) mods) && negb (mem_str (m_type m) types)) l.
Definition prune_sample_ref mods types (s : sample) : sample :=
  {| s_name := s_name s; s_data := s_data s; s_mods := prune_modifiers_ref mods types (s_mods s) |}.
Definition prune_channel_ref mods types samples (c : channel) : channel :=
  {| c_name := c_name c;
     c_samples := map (prune_sample_ref mods types) (filter (fun s => negb (mem_str (s_name s) samples)) (c_samples c)) |}.
Definition prune_measurement_ref mods (m : measurement) : measurement :=
  {| me_name := me_name m; me_poi := me_poi m; me_params := filter (fun p => negb (mem_str (p_name p) mods)) (me_params m) |}.
Definition prune_ref (w : workspace) (mods types samples chans meas : list string) : workspace :=
  {| w_channels := map (prune_channel_ref mods types samples) (filter (fun c => negb (mem_str (c_name c) chans)) (w_channels w));
     w_observations := filter (fun o => negb (mem_str (o_name o) chans)) (w_observations w);
     w_measurements := map (prune_measurement_ref mods) (filter (fun m => negb (mem_str (me_name m) meas)) (w_measurements w));
     w_version := w_version w |}.

Lemma rget_nil x : rget [] x = x.
Proof. reflexivity. Qed.
Lemma map_id_ext {A} (f : A -> A) l : (forall x, In x l -> f x = x) -> map f l = l.
Proof. intros H. rewrite <- (map_id l) at 2. now apply map_ext_in. Qed.

Lemma pr_modifier_nil m : pr_modifier [] m = m.
Proof. destruct m; reflexivity. Qed.
Lemma pr_pconfig_nil p : pr_pconfig [] p = p.
Proof. destruct p; reflexivity. Qed.
Lemma pr_observation_nil o : pr_observation [] o = o.
Proof. destruct o; reflexivity. Qed.

Lemma pr_spec_prune w mods types samples chans meas :
  pr_spec w mods types samples chans meas [] [] [] [] = prune_ref w mods types samples chans meas.
Proof. unfold pr_spec, prune_ref. f_equal.
  - apply map_ext. intros c. unfold pr_channel, prune_channel_ref. f_equal.
    apply map_ext. intros s. unfold pr_sample, prune_sample_ref. f_equal.
    unfold prune_modifiers_ref, keep. apply map_id_ext. intros m _. apply pr_modifier_nil.
  - unfold keep. apply map_id_ext. intros o _. apply pr_observation_nil.
  - apply map_ext. intros m. unfold pr_measurement, prune_measurement_ref. f_equal.
    unfold keep. apply map_id_ext. intros p _. apply pr_pconfig_nil. Qed.

(* pruning returns exactly the filtered workspace ... *)
Theorem prune_exact vd w mods types samples chans meas w' :
  prune vd w mods types samples chans meas = Ok w' -> w' = prune_ref w mods types samples chans meas.
Proof. unfold prune, prune_and_rename. repeat (match goal with |- (if ?c then _ else _) = _ -> _ => destruct c; [discriminate|] end).
  intros H. apply construct_true_ok in H. destruct H as [-> _]. apply pr_spec_prune. Qed.

(* ... in which nothing that was named survives, at any level ... *)
Theorem prune_ref_removed w mods types samples chans meas :
  let w' := prune_ref w mods types samples chans meas in
  (forall c, In c (w_channels w') -> ~ In (c_name c) chans) /\
  (forall o, In o (w_observations w') -> ~ In (o_name o) chans) /\
  (forall s, In s (all_samples w') -> ~ In (s_name s) samples) /\
  (forall m, In m (all_mods w') -> ~ In (m_name m) mods /\ ~ In (m_type m) types) /\
  (forall m, In m (w_measurements w') -> ~ In (me_name m) meas /\ forall p, In p (me_params m) -> ~ In (p_name p) mods).
Proof. cbn zeta. repeat split.
  - intros c Hc. simpl in Hc. apply in_map_iff in Hc. destruct Hc as [c0 [<- Hc]]. apply filter_In in Hc. destruct Hc as [_ Hc].
    apply negb_true_iff, mem_str_false in Hc. exact Hc.
  - intros o Ho. simpl in Ho. apply filter_In in Ho. destruct Ho as [_ Ho]. now apply negb_true_iff, mem_str_false in Ho.
  - intros s Hs. unfold all_samples in Hs. apply in_flat_map in Hs. destruct Hs as [c [Hc Hs]]. simpl in Hc.
    apply in_map_iff in Hc. destruct Hc as [c0 [<- _]]. simpl in Hs. apply in_map_iff in Hs. destruct Hs as [s0 [<- Hs]].
    apply filter_In in Hs. destruct Hs as [_ Hs]. now apply negb_true_iff, mem_str_false in Hs.
  - unfold all_mods, all_samples in H. apply in_flat_map in H. destruct H as [s [Hs Hm]]. apply in_flat_map in Hs. destruct Hs as [c [Hc Hs]].
    simpl in Hc. apply in_map_iff in Hc. destruct Hc as [c0 [<- _]]. simpl in Hs. apply in_map_iff in Hs. destruct Hs as [s0 [<- _]].
    simpl in Hm. apply filter_In in Hm. destruct Hm as [_ Hm]. apply andb_true_iff in Hm. destruct Hm as [Hm _].
    now apply negb_true_iff, mem_str_false in Hm.
  - unfold all_mods, all_samples in H. apply in_flat_map in H. destruct H as [s [Hs Hm]]. apply in_flat_map in Hs. destruct Hs as [c [Hc Hs]].
    simpl in Hc. apply in_map_iff in Hc. destruct Hc as [c0 [<- _]]. simpl in Hs. apply in_map_iff in Hs. destruct Hs as [s0 [<- _]].
    simpl in Hm. apply filter_In in Hm. destruct Hm as [_ Hm]. apply andb_true_iff in Hm. destruct Hm as [_ Hm].
    now apply negb_true_iff, mem_str_false in Hm.
  - simpl in H. apply in_map_iff in H. destruct H as [m0 [<- Hm]]. apply filter_In in Hm. destruct Hm as [_ Hm].
    now apply negb_true_iff, mem_str_false in Hm.
  - intros p Hp. simpl in H. apply in_map_iff in H. destruct H as [m0 [<- _]]. simpl in Hp. apply filter_In in Hp. destruct Hp as [_ Hp].
    now apply negb_true_iff, mem_str_false in Hp. Qed.

(* ... and whatever was not named is still there, unchanged and in the original order *)
Definition sample_untouched mods types samples (s : sample) : Prop :=
  ~ In (s_name s) samples /\ forall m, In m (s_mods s) -> ~ In (m_name m) mods /\ ~ In (m_type m) types.
Definition channel_untouched mods types samples chans (c : channel) : Prop :=
  ~ In (c_name c) chans /\ forall s, In s (c_samples c) -> sample_untouched mods types samples s.

Lemma filter_all {A} (f : A -> bool) l : (forall x, In x l -> f x = true) -> filter f l = l.
Proof. induction l as [|a t IH]; simpl; auto. intros H. rewrite (H a (or_introl eq_refl)). f_equal. apply IH. intros x Hx. apply H. now right. Qed.

Lemma prune_sample_untouched mods types samples s : sample_untouched mods types samples s -> prune_sample_ref mods types s = s.
Proof. intros [_ H]. destruct s as [n d ms]. unfold prune_sample_ref. simpl in *. f_equal. apply filter_all. intros m Hm.
  destruct (H m Hm) as [H1 H2]. apply mem_str_false in H1, H2. now rewrite H1, H2. Qed.
Lemma prune_channel_untouched mods types samples chans c : channel_untouched mods types samples chans c ->
  prune_channel_ref mods types samples c = c.
Proof. intros [_ H]. destruct c as [n ss]. unfold prune_channel_ref. simpl in *. f_equal.
  rewrite filter_all.
  - apply map_id_ext. intros s Hs. apply (prune_sample_untouched mods types samples). auto.
  - intros s Hs. destruct (H s Hs) as [H1 _]. apply mem_str_false in H1. now rewrite H1. Qed.

Theorem prune_preserves_rest w mods types samples chans meas :
  let w' := prune_ref w mods types samples chans meas in
  (forall c, In c (w_channels w) -> channel_untouched mods types samples chans c -> In c (w_channels w')) /\
  (forall o, In o (w_observations w) -> ~ In (o_name o) chans -> In o (w_observations w')) /\
  (forall m, In m (w_measurements w) -> ~ In (me_name m) meas -> (forall p, In p (me_params m) -> ~ In (p_name p) mods) -> In m (w_measurements w')) /\
  (forall c, In c (w_channels w) -> ~ In (c_name c) chans -> exists c', In c' (w_channels w') /\ c_name c' = c_name c) /\
  map c_name (w_channels w') = filter (fun n => negb (mem_str n chans)) (map c_name (w_channels w)) /\
  map o_name (w_observations w') = filter (fun n => negb (mem_str n chans)) (map o_name (w_observations w)) /\
  map me_name (w_measurements w') = filter (fun n => negb (mem_str n meas)) (map me_name (w_measurements w)) /\
  (forall m, In m (w_measurements w') -> exists m0, In m0 (w_measurements w) /\ me_name m = me_name m0 /\ me_poi m = me_poi m0) /\
  w_version w' = w_version w.
Proof. cbn zeta. repeat split.
  - intros c Hc Hu. simpl. apply in_map_iff. exists c. split; [now apply (prune_channel_untouched mods types samples chans)|].
    apply filter_In. split; auto. destruct Hu as [Hu _]. apply mem_str_false in Hu. now rewrite Hu.
  - intros o Ho Hn. simpl. apply filter_In. split; auto. apply mem_str_false in Hn. now rewrite Hn.
  - intros m Hm Hn Hp. simpl. apply in_map_iff. exists m. split.
    + destruct m as [n poi ps]. unfold prune_measurement_ref. simpl in *. f_equal. apply filter_all. intros p Hp'.
      specialize (Hp p Hp'). apply mem_str_false in Hp. now rewrite Hp.
    + apply filter_In. split; auto. apply mem_str_false in Hn. now rewrite Hn.
  - intros c Hc Hn. exists (prune_channel_ref mods types samples c). split; auto. simpl. apply in_map_iff. exists c. split; auto.
    apply filter_In. split; auto. apply mem_str_false in Hn. now rewrite Hn.
  - simpl. rewrite map_map. simpl. induction (w_channels w) as [|c t IH]; simpl; auto. destruct (negb (mem_str (c_name c) chans)); simpl; congruence.
  - simpl. induction (w_observations w) as [|c t IH]; simpl; auto. destruct (negb (mem_str (o_name c) chans)); simpl; congruence.
  - simpl. rewrite map_map. simpl. induction (w_measurements w) as [|c t IH]; simpl; auto. destruct (negb (mem_str (me_name c) meas)); simpl; congruence.
  - intros m Hm. simpl in Hm. apply in_map_iff in Hm. destruct Hm as [m0 [<- Hm]]. apply filter_In in Hm. exists m0. simpl. tauto.
Qed.

Lemma prune_ref_nothing w : prune_ref w [] [] [] [] [] = w.
Proof. destruct w as [cs os ms v]. unfold prune_ref. simpl. f_equal.
  - rewrite filter_all; auto. apply map_id_ext. intros c _. apply (prune_channel_untouched [] [] [] []). split; auto. intros s _. split; auto.
  - apply filter_all. auto.
  - rewrite filter_all; auto. apply map_id_ext. intros m _. destruct m as [n p ps]. unfold prune_measurement_ref. simpl. f_equal. apply filter_all; auto. Qed.

(* ---------- the names a workspace knows ---------- *)
Lemma psort_uniq_in l p : In p (psort_uniq l) <-> In p l.
Proof. unfold psort_uniq, psort. rewrite isort_in. apply nodup_In. Qed.
Lemma ws_channels_in w n : In n (ws_channels w) <-> exists c, In c (w_channels w) /\ c_name c = n.
Proof. unfold ws_channels. rewrite sort_uniq_in, in_map_iff. split; intros [c H]; exists c; tauto. Qed.
Lemma ws_samples_in w n : In n (ws_samples w) <-> exists s, In s (all_samples w) /\ s_name s = n.
Proof. unfold ws_samples. rewrite sort_uniq_in, in_map_iff. split; intros [c H]; exists c; tauto. Qed.
Lemma ws_modifiers_in w p : In p (ws_modifiers w) <-> exists m, In m (all_mods w) /\ mod_key m = p.
Proof. unfold ws_modifiers. rewrite psort_uniq_in, in_map_iff. split; intros [c H]; exists c; tauto. Qed.
Lemma ws_measurements_in w n : In n (ws_measurement_names w) <-> exists m, In m (w_measurements w) /\ me_name m = n.
Proof. unfold ws_measurement_names. rewrite in_map_iff. split; intros [c H]; exists c; tauto. Qed.

Lemma dict_set_keys {B} k (v : B) d n : In n (map fst (dict_set k v d)) <-> In n (map fst d) \/ n = k.
Proof. induction d as [|[k' v'] t IH]; simpl; [intuition|]. destruct (String.eqb_spec k k'); simpl.
  - subst. intuition.
  - rewrite IH. intuition. Qed.
Lemma dict_of_pairs_keys {B} (l : list (string * B)) n : In n (map fst (dict_of_pairs l)) <-> In n (map fst l).
Proof. unfold dict_of_pairs.
  assert (G : forall d, In n (map fst (fold_left (fun d kv => dict_set (fst kv) (snd kv) d) l d)) <-> In n (map fst d) \/ In n (map fst l)).
  { induction l as [|kv t IH]; intros d; simpl; [tauto|]. rewrite IH, dict_set_keys. intuition. }
  rewrite G. simpl. tauto. Qed.

Lemma all_known_iff names known : all_known names known = true <-> forall n, In n names -> In n known.
Proof. unfold all_known. rewrite forallb_forall. split; intros H n Hn; [apply mem_str_iff|apply mem_str_iff]; auto. Qed.

Definition all_names_known (w : workspace) (mods types samples chans meas : list string) : Prop :=
  (forall t, In t types -> exists m, In m (all_mods w) /\ m_type m = t) /\
  (forall n, In n mods -> exists m, In m (all_mods w) /\ m_name m = n) /\
  (forall n, In n samples -> exists s, In s (all_samples w) /\ s_name s = n) /\
  (forall n, In n chans -> exists c, In c (w_channels w) /\ c_name c = n) /\
  (forall n, In n meas -> exists m, In m (w_measurements w) /\ me_name m = n).

Lemma known_types_in w t : In t (known_types false w) <-> exists m, In m (all_mods w) /\ m_type m = t.
Proof. unfold known_types. rewrite in_map_iff. split.
  - intros [p [E Hp]]. apply ws_modifiers_in in Hp. destruct Hp as [m [Hm Hk]]. exists m. split; auto. subst. reflexivity.
  - intros [m [Hm E]]. exists (mod_key m). split; auto. apply ws_modifiers_in. eauto. Qed.
Lemma known_mod_names_in w n : In n (map fst (dict_of_pairs (ws_modifiers w))) <-> exists m, In m (all_mods w) /\ m_name m = n.
Proof. rewrite dict_of_pairs_keys, in_map_iff. split.
  - intros [p [E Hp]]. apply ws_modifiers_in in Hp. destruct Hp as [m [Hm Hk]]. exists m. split; auto. subst. reflexivity.
  - intros [m [Hm E]]. exists (mod_key m). split; auto. apply ws_modifiers_in. eauto. Qed.

(* prune succeeds exactly when every listed name exists and what remains is a valid workspace
   (for the source form in which modifier types are looked up among all (name, type) pairs) *)
Theorem prune_accepts_iff w mods types samples chans meas :
  (exists w', prune false w mods types samples chans meas = Ok w') <->
  (all_names_known w mods types samples chans meas /\ schema_ok (prune_ref w mods types samples chans meas) = true).
Proof. unfold prune, prune_and_rename. simpl map. rewrite !app_nil_r. rewrite pr_spec_prune.
  destruct (all_known types (known_types false w)) eqn:E1; simpl.
  2:{ split; [intros [w' H]; discriminate|]. intros [(H & _) _]. exfalso.
      assert (all_known types (known_types false w) = true) by (apply all_known_iff; intros t Ht; apply known_types_in; auto). congruence. }
  destruct (all_known mods _) eqn:E2; simpl.
  2:{ split; [intros [w' H]; discriminate|]. intros [(_ & H & _) _]. exfalso.
      assert (all_known mods (map fst (dict_of_pairs (ws_modifiers w))) = true) by (apply all_known_iff; intros t Ht; apply known_mod_names_in; auto). congruence. }
  destruct (all_known samples _) eqn:E3; simpl.
  2:{ split; [intros [w' H]; discriminate|]. intros [(_ & _ & H & _) _]. exfalso.
      assert (all_known samples (ws_samples w) = true) by (apply all_known_iff; intros t Ht; apply ws_samples_in; auto). congruence. }
  destruct (all_known chans _) eqn:E4; simpl.
  2:{ split; [intros [w' H]; discriminate|]. intros [(_ & _ & _ & H & _) _]. exfalso.
      assert (all_known chans (ws_channels w) = true) by (apply all_known_iff; intros t Ht; apply ws_channels_in; auto). congruence. }
  destruct (all_known meas _) eqn:E5; simpl.
  2:{ split; [intros [w' H]; discriminate|]. intros [(_ & _ & _ & _ & H) _]. exfalso.
      assert (all_known meas (ws_measurement_names w) = true) by (apply all_known_iff; intros t Ht; apply ws_measurements_in; auto). congruence. }
  rewrite all_known_iff in E1, E2, E3, E4, E5. split.
  - intros [w' H]. apply construct_true_ok in H. destruct H as [_ H]. split; auto. repeat split; intros n Hn.
    + apply known_types_in; auto.
    + apply known_mod_names_in; auto.
    + apply ws_samples_in; auto.
    + apply ws_channels_in; auto.
    + apply ws_measurements_in; auto.
  - intros [_ H]. eexists. apply construct_ok. exact H. Qed.

(* with `dict(self.modifiers).values()` a type that is present can be refused: one name used with two types *)
Definition two_type_ws : workspace :=
  {| w_channels := [{| c_name := "c"; c_samples := [{| s_name := "s"; s_data := [1%Qc];
        s_mods := [{| m_name := "x"; m_type := "histosys"; m_data := MHistosys [1%Qc] [1%Qc] |};
                   {| m_name := "x"; m_type := "normsys"; m_data := MNormsys 1%Qc 1%Qc |}] |}] |}];
     w_observations := [{| o_name := "c"; o_data := [1%Qc] |}];
     w_measurements := [{| me_name := "m"; me_poi := "x"; me_params := [] |}];
     w_version := "1.0.0" |}.
Theorem prune_accepts_iff_refuted_via_dict :
  all_names_known two_type_ws [] ["histosys"] [] [] [] /\ schema_ok (prune_ref two_type_ws [] ["histosys"] [] [] []) = true /\
  prune true two_type_ws [] ["histosys"] [] [] [] = Err InvalidWorkspaceOperation /\
  (exists w', prune false two_type_ws [] ["histosys"] [] [] [] = Ok w').
Proof. split; [|split; [reflexivity|split; [reflexivity|eexists; reflexivity]]].
  unfold all_names_known. split; [|repeat split; intros n []].
  intros t [<-|[]]. eexists. split; [simpl; left; reflexivity|reflexivity]. Qed.

(* ---------- renaming and its inverse ---------- *)
Definition inv (m : list (string * string)) : list (string * string) := map (fun kv => (snd kv, fst kv)) m.
Lemma inv_fst m : map fst (inv m) = map snd m.
Proof. unfold inv. rewrite map_map. reflexivity. Qed.
Lemma inv_snd m : map snd (inv m) = map fst m.
Proof. unfold inv. rewrite map_map. reflexivity. Qed.
Lemma inv_in m a b : In (a, b) (inv m) <-> In (b, a) m.
Proof. unfold inv. rewrite in_map_iff. split.
  - intros [[x y] [E H]]. simpl in E. inversion E; subst. exact H.
  - intros H. exists (b, a). auto. Qed.

Lemma rget_inv m x : NoDup (map fst m) -> NoDup (map snd m) -> ~ In x (map snd m) -> rget (inv m) (rget m x) = x.
Proof. intros H1 H2 Hx. unfold rget at 2. destruct (assoc x m) as [y|] eqn:E.
  - apply assoc_in in E. unfold rget. rewrite (in_assoc y (inv m) x); auto; [now rewrite inv_fst|now apply inv_in].
  - unfold rget. destruct (assoc x (inv m)) as [z|] eqn:E2; auto. apply assoc_in in E2. exfalso. apply Hx.
    rewrite <- inv_fst. apply (in_map fst) in E2. exact E2. Qed.
Lemma rget_hit m k v : NoDup (map fst m) -> In (k, v) m -> rget m k = v.
Proof. intros H1 H2. unfold rget. now rewrite (in_assoc k m v). Qed.

Definition rename_injective (m : list (string * string)) : Prop := NoDup (map fst m) /\ NoDup (map snd m).
Definition rename_fresh (w : workspace) (rm rs rc rme : list (string * string)) : Prop :=
  (forall m, In m (all_mods w) -> ~ In (m_name m) (map snd rm)) /\
  (forall me p, In me (w_measurements w) -> In p (me_params me) -> ~ In (p_name p) (map snd rm)) /\
  (forall me, In me (w_measurements w) -> ~ In (me_poi me) (map snd rm)) /\
  (forall s, In s (all_samples w) -> ~ In (s_name s) (map snd rs)) /\
  (forall c, In c (w_channels w) -> ~ In (c_name c) (map snd rc)) /\
  (forall o, In o (w_observations w) -> ~ In (o_name o) (map snd rc)) /\
  (forall me, In me (w_measurements w) -> ~ In (me_name me) (map snd rme)).

Definition rn_spec (w : workspace) rm rs rc rme : workspace := pr_spec w [] [] [] [] [] rm rs rc rme.

Lemma keep_nil x : keep [] x = true.
Proof. reflexivity. Qed.
Lemma filter_true {A} (f : A -> bool) l : (forall x, f x = true) -> filter f l = l.
Proof. intros H. apply filter_all. auto. Qed.

Lemma in_all_mods w c s m : In c (w_channels w) -> In s (c_samples c) -> In m (s_mods s) -> In m (all_mods w).
Proof. intros Hc Hs Hm. unfold all_mods, all_samples. apply in_flat_map. exists s. split; auto. apply in_flat_map. exists c. auto. Qed.
Lemma in_all_samples w c s : In c (w_channels w) -> In s (c_samples c) -> In s (all_samples w).
Proof. intros Hc Hs. unfold all_samples. apply in_flat_map. exists c. auto. Qed.

Lemma rn_roundtrip w rm rs rc rme :
  rename_injective rm -> rename_injective rs -> rename_injective rc -> rename_injective rme -> rename_fresh w rm rs rc rme ->
  rn_spec (rn_spec w rm rs rc rme) (inv rm) (inv rs) (inv rc) (inv rme) = w.
Proof. intros [M1 M2] [S1 S2] [C1 C2] [E1 E2] (F1 & F2 & F3 & F4 & F5 & F6 & F7).
  destruct w as [cs os ms v]. unfold rn_spec, pr_spec. simpl in *. f_equal.
  - rewrite !filter_true by (intros; apply keep_nil). rewrite map_map. apply map_id_ext. intros c Hc.
    destruct c as [cn ss]. unfold pr_channel. simpl. f_equal; [apply rget_inv; auto; apply (F5 _ Hc)|].
    rewrite !filter_true by (intros; apply keep_nil). rewrite map_map. apply map_id_ext. intros s Hs.
    destruct s as [sn d mods]. unfold pr_sample. simpl. f_equal.
    + apply rget_inv; auto. apply (F4 {| s_name := sn; s_data := d; s_mods := mods |}).
      apply (in_all_samples {| w_channels := cs; w_observations := os; w_measurements := ms; w_version := v |} _ _ Hc Hs).
    + rewrite !filter_true by (intros; reflexivity). rewrite map_map. apply map_id_ext. intros m Hm.
      destruct m as [mn mt md]. unfold pr_modifier. simpl. f_equal. apply rget_inv; auto.
      apply (F1 {| m_name := mn; m_type := mt; m_data := md |}).
      apply (in_all_mods {| w_channels := cs; w_observations := os; w_measurements := ms; w_version := v |} _ _ _ Hc Hs Hm).
  - rewrite !filter_true by (intros; apply keep_nil). rewrite map_map. apply map_id_ext. intros o Ho.
    destruct o as [n d]. unfold pr_observation. simpl. f_equal. apply rget_inv; auto. apply (F6 _ Ho).
  - rewrite !filter_true by (intros; apply keep_nil). rewrite map_map. apply map_id_ext. intros m Hm.
    destruct m as [n poi ps]. unfold pr_measurement. simpl. f_equal.
    + apply rget_inv; auto. apply (F7 _ Hm).
    + apply rget_inv; auto. apply (F3 _ Hm).
    + rewrite !filter_true by (intros; apply keep_nil). rewrite map_map. apply map_id_ext. intros p Hp.
      destruct p. unfold pr_pconfig. simpl. f_equal. apply rget_inv; auto. apply (F2 _ _ Hm Hp). Qed.

(* members of the renamed workspace *)
Lemma rn_channels w rm rs rc rme : w_channels (rn_spec w rm rs rc rme) = map (pr_channel [] [] [] rm rs rc) (w_channels w).
Proof. unfold rn_spec, pr_spec. simpl. now rewrite filter_true by (intros; apply keep_nil). Qed.
Lemma rn_measurements w rm rs rc rme : w_measurements (rn_spec w rm rs rc rme) = map (pr_measurement [] rm rme) (w_measurements w).
Proof. unfold rn_spec, pr_spec. simpl. now rewrite filter_true by (intros; apply keep_nil). Qed.
Lemma rn_all_samples w rm rs rc rme s : In s (all_samples w) -> In (pr_sample [] [] rm rs s) (all_samples (rn_spec w rm rs rc rme)).
Proof. unfold all_samples. rewrite rn_channels. intros H. apply in_flat_map in H. destruct H as [c [Hc Hs]].
  apply in_flat_map. exists (pr_channel [] [] [] rm rs rc c). split; [now apply in_map|]. simpl.
  rewrite filter_true by (intros; apply keep_nil). now apply in_map. Qed.
Lemma rn_all_mods w rm rs rc rme m : In m (all_mods w) -> In (pr_modifier rm m) (all_mods (rn_spec w rm rs rc rme)).
Proof. unfold all_mods. intros H. apply in_flat_map in H. destruct H as [s [Hs Hm]].
  apply in_flat_map. exists (pr_sample [] [] rm rs s). split; [now apply rn_all_samples|]. simpl.
  rewrite filter_true by (intros; reflexivity). now apply in_map. Qed.

Lemma rename_checks w rm rs rc rme w' : rename w rm rs rc rme = Ok w' ->
  w' = rn_spec w rm rs rc rme /\ schema_ok w' = true /\
  (forall n, In n (map fst rm) -> exists m, In m (all_mods w) /\ m_name m = n) /\
  (forall n, In n (map fst rs) -> exists s, In s (all_samples w) /\ s_name s = n) /\
  (forall n, In n (map fst rc) -> exists c, In c (w_channels w) /\ c_name c = n) /\
  (forall n, In n (map fst rme) -> exists m, In m (w_measurements w) /\ me_name m = n).
Proof. unfold rename, prune_and_rename. simpl app. cbn [all_known forallb negb].
  destruct (all_known (map fst rm) _) eqn:E2; [|discriminate]. destruct (all_known (map fst rs) _) eqn:E3; [|discriminate].
  destruct (all_known (map fst rc) _) eqn:E4; [|discriminate]. destruct (all_known (map fst rme) _) eqn:E5; [|discriminate]. cbn [negb].
  intros H. apply construct_true_ok in H. destruct H as [-> H]. rewrite all_known_iff in E2, E3, E4, E5.
  split; [reflexivity|]. split; [exact H|]. repeat split; intros n Hn.
  - apply known_mod_names_in; auto.
  - apply ws_samples_in; auto.
  - apply ws_channels_in; auto.
  - apply ws_measurements_in; auto. Qed.

Lemma snd_has_key (m : list (string * string)) v : In v (map snd m) -> exists k, In (k, v) m.
Proof. intros H. apply in_map_iff in H. destruct H as [[k v'] [E H]]. simpl in E. subst. eauto. Qed.

(* an injective renaming onto unused names is undone by renaming with the inverse maps *)
Theorem rename_inverse w rm rs rc rme w' :
  schema_ok w = true ->
  rename_injective rm -> rename_injective rs -> rename_injective rc -> rename_injective rme -> rename_fresh w rm rs rc rme ->
  rename w rm rs rc rme = Ok w' ->
  rename w' (inv rm) (inv rs) (inv rc) (inv rme) = Ok w.
Proof. intros Sw Im Is Ic Ie Fr H. apply rename_checks in H. destruct H as (-> & Sw' & K1 & K2 & K3 & K4).
  unfold rename, prune_and_rename. simpl app. cbn [all_known forallb negb]. rewrite !inv_fst.
  assert (A1 : all_known (map snd rm) (map fst (dict_of_pairs (ws_modifiers (rn_spec w rm rs rc rme)))) = true).
  { apply all_known_iff. intros v Hv. apply known_mod_names_in. destruct (snd_has_key _ _ Hv) as [k Hk].
    destruct (K1 k) as [m [Hm Hn]]; [apply (in_map fst) in Hk; exact Hk|]. exists (pr_modifier rm m). split; [now apply rn_all_mods|].
    simpl. rewrite Hn. apply rget_hit; [apply Im|exact Hk]. }
  assert (A2 : all_known (map snd rs) (ws_samples (rn_spec w rm rs rc rme)) = true).
  { apply all_known_iff. intros v Hv. apply ws_samples_in. destruct (snd_has_key _ _ Hv) as [k Hk].
    destruct (K2 k) as [s [Hs Hn]]; [apply (in_map fst) in Hk; exact Hk|]. exists (pr_sample [] [] rm rs s). split; [now apply rn_all_samples|].
    simpl. rewrite Hn. apply rget_hit; [apply Is|exact Hk]. }
  assert (A3 : all_known (map snd rc) (ws_channels (rn_spec w rm rs rc rme)) = true).
  { apply all_known_iff. intros v Hv. apply ws_channels_in. destruct (snd_has_key _ _ Hv) as [k Hk].
    destruct (K3 k) as [c [Hc Hn]]; [apply (in_map fst) in Hk; exact Hk|]. exists (pr_channel [] [] [] rm rs rc c). split; [rewrite rn_channels; now apply in_map|].
    simpl. rewrite Hn. apply rget_hit; [apply Ic|exact Hk]. }
  assert (A4 : all_known (map snd rme) (ws_measurement_names (rn_spec w rm rs rc rme)) = true).
  { apply all_known_iff. intros v Hv. apply ws_measurements_in. destruct (snd_has_key _ _ Hv) as [k Hk].
    destruct (K4 k) as [m [Hm Hn]]; [apply (in_map fst) in Hk; exact Hk|]. exists (pr_measurement [] rm rme m). split; [rewrite rn_measurements; now apply in_map|].
    simpl. rewrite Hn. apply rget_hit; [apply Ie|exact Hk]. }
  rewrite A1, A2, A3, A4. cbn [negb].
  fold (rn_spec (rn_spec w rm rs rc rme) (inv rm) (inv rs) (inv rc) (inv rme)). rewrite rn_roundtrip; auto.
  now apply construct_ok. Qed.

(* non-vacuity: a renaming that satisfies all premises *)
Example rename_inverse_applies :
  exists w', rename two_type_ws [("x", "y")] [] [("c", "d")] [] = Ok w' /\ rename_fresh two_type_ws [("x", "y")] [] [("c", "d")] [] /\
             rename w' (inv [("x", "y")]) (inv []) (inv [("c", "d")]) (inv []) = Ok two_type_ws.
Proof. eexists. split; [reflexivity|]. split; [|reflexivity].
  repeat split; simpl; intros; intuition (subst; simpl in *; try discriminate; intuition discriminate). Qed.
