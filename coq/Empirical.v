(* pyhf.infer.calculators: EmpiricalDistribution (pvalue, expected_value), ToyCalculator (distributions, pvalues);
   pyhf.probability.Simultaneous.sample through tensor.common._TensorViewer (stitch / split).
   The random samplers themselves are NOT modelled (validated statistically by the harness, never proved). *)
From Coq Require Import Bool Arith Lia ZArith QArith Qcanon Qreals Reals Lra Permutation String List.
Require Import PV.Num PV.Sort PV.UpperLimit.
Import ListNotations.
Local Open Scope list_scope.

(* ====================================================================================== *)
(* Part 1 : model over the number record                                                   *)
(* ====================================================================================== *)
Section Model.
  Variable N : Num.
  Notation V := (V N).

  (* ---------- EmpiricalDistribution.pvalue:  sum(where(samples >= value, 1, 0)) / shape(samples)[0] ---------- *)
  Definition indicator_ge (value s : V) : Z := if nleb N value s then 1%Z else 0%Z.
  Definition count_ge (samples : list V) (value : V) : Z := fold_right Z.add 0%Z (map (indicator_ge value) samples).
  Definition pvalue (samples : list V) (value : V) : V :=
    ndiv N (nofZ N (count_ge samples value)) (nofZ N (Z.of_nat (length samples))).

  (* ---------- EmpiricalDistribution.expected_value: percentile(samples, normal_cdf(nsigma) * 100, 'linear').
     numpy (function_base._quantile, method linear): virtual index (n-1)*q/100, previous = floor, next = previous + 1,
     both clipped to [0, n-1], gamma = virtual - previous, lerp(sorted[previous], sorted[next], gamma).
     [q100] is the value normal_cdf(nsigma) * 100 (the normal cdf is property C04/C07). *)
  Definition sortV (l : list V) : list V := isort V (nleb N) V (fun x => x) l.
  (* floor of a non-negative idx, capped at cap:  largest j <= cap with j <= idx *)
  Fixpoint floor_upto (idx : V) (k : nat) (i : nat) : nat :=
    match k with
    | O => i
    | S k' => if nleb N (nofZ N (Z.of_nat (S i))) idx then floor_upto idx k' (S i) else i
    end.
  Definition percentile_linear (samples : list V) (q100 : V) : option V :=
    match samples with
    | [] => None                                     (* numpy: IndexError / nan on empty input *)
    | _ =>
      if orb (nltb N q100 (n0 N)) (nltb N (nofZ N 100) q100) then None      (* ValueError: Percentiles must be in the range [0, 100] *)
      else
        let a := sortV samples in
        let n := length a in
        let virt := nmul N (ndiv N q100 (nofZ N 100)) (nofZ N (Z.of_nat (n - 1))) in
        let prev := floor_upto virt (n - 1) 0 in
        let next := Nat.min (S prev) (n - 1) in
        let gamma := nsub N virt (nofZ N (Z.of_nat prev)) in
        let lo := nth prev a (n0 N) in
        let hi := nth next a (n0 N) in
        Some (nadd N lo (nmul N (nsub N hi lo) gamma))
    end.
  Definition expected_value := percentile_linear.

  (* ---------- ToyCalculator ---------- *)
  Inductive test_stat := TQtilde | TQ | TQ0.
  Variable Pars Data : Type.
  (* stubs: the conditional fit at a fixed POI, the sampler (k-th draw of the run from the pdf at given parameters:
     ntoys pseudo-datasets) and the test statistic function *)
  Variable fixed_poi_fit : V -> Pars.
  Variable sampler : nat -> Pars -> nat -> list Data.
  Variable teststat_func : test_stat -> V -> Data -> V.

  Definition distributions (ts : test_stat) (ntoys : nat) (poi_test : V) : list V * list V :=
    let signal_pars := fixed_poi_fit poi_test in
    let signal_sample := sampler 0 signal_pars ntoys in
    let bkg_pars := fixed_poi_fit (match ts with TQ0 => n1 N | _ => n0 N end) in
    let bkg_sample := sampler 1 bkg_pars ntoys in
    let signal_teststat := map (teststat_func ts poi_test) signal_sample in
    let bkg_teststat := map (teststat_func ts poi_test) bkg_sample in
    (signal_teststat, bkg_teststat).

  (* ToyCalculator.pvalues *)
  Definition toy_pvalues (teststat : V) (sb b : list V) : V * V * V :=
    let CLsb := pvalue sb teststat in
    let CLb := pvalue b teststat in
    (CLsb, CLb, ndiv N CLsb CLb).
End Model.

Arguments indicator_ge {N}. Arguments count_ge {N}. Arguments pvalue {N}. Arguments percentile_linear {N}. Arguments expected_value {N}.
Arguments sortV {N}. Arguments floor_upto {N}. Arguments distributions {N Pars Data}. Arguments toy_pvalues {N}.

(* ====================================================================================== *)
(* Part 2 : the empirical p-value                                                          *)
(* ====================================================================================== *)
Section PValue.
  Variable N : Num.

  (* the integer the code sums up is the number of samples >= value (ties counted) *)
  Lemma count_ge_filter (samples : list (V N)) value :
    count_ge samples value = Z.of_nat (length (filter (fun s => nleb N value s) samples)).
  Proof. unfold count_ge. induction samples as [|s t IH]; [reflexivity|]. cbn [map fold_right filter]. rewrite IH. unfold indicator_ge.
    destruct (nleb N value s); cbn [length]; lia. Qed.

  Theorem pvalue_is_tail_fraction (samples : list (V N)) value :
    pvalue samples value =
    ndiv N (nofZ N (Z.of_nat (length (filter (fun s => nleb N value s) samples)))) (nofZ N (Z.of_nat (length samples))).
  Proof. unfold pvalue. now rewrite count_ge_filter. Qed.

  Lemma count_ge_bounds (samples : list (V N)) value : (0 <= count_ge samples value <= Z.of_nat (length samples))%Z.
  Proof. rewrite count_ge_filter.
    assert (Hle : (length (filter (fun s => nleb N value s) samples) <= length samples)%nat).
    { induction samples as [|s t IH]; [auto|]. cbn [filter]. destruct (nleb N value s); cbn [length]; lia. }
    lia. Qed.
End PValue.

Section PValueReal.
  Local Open Scope R_scope.
  Notation pv := (@pvalue RNum).

  Theorem pvalue_range (samples : list R) (value : R) : samples <> [] -> 0 <= pv samples value <= 1.
  Proof. intros Hn. unfold pvalue. cbn [ndiv nofZ RNum].
    pose proof (count_ge_bounds RNum samples value) as [H0 H1].
    assert (Hlen : (0 < Z.of_nat (length samples))%Z) by (destruct samples; [congruence|cbn [length]; lia]).
    apply IZR_le in H0. apply IZR_le in H1. apply IZR_lt in Hlen.
    change (V RNum) with R in *. set (c := IZR (@count_ge RNum samples value)) in *. set (n := IZR (Z.of_nat (length samples))) in *.
    split.
    - apply Rmult_le_pos; [lra|]. left. now apply Rinv_0_lt_compat.
    - apply (Rmult_le_reg_r n); [lra|]. unfold Rdiv. rewrite Rmult_assoc, Rinv_l; lra. Qed.

  Lemma count_ge_antitone (samples : list R) (v v' : R) : v <= v' -> (@count_ge RNum samples v' <= @count_ge RNum samples v)%Z.
  Proof. intros Hv. unfold count_ge. induction samples as [|s t IH]; [reflexivity|]. cbn [map fold_right].
    assert (Hs : (@indicator_ge RNum v' s <= @indicator_ge RNum v s)%Z).
    { unfold indicator_ge. cbn [nleb RNum]. destruct (rleb v' s) eqn:E1; destruct (rleb v s) eqn:E2; try lia.
      apply rleb_le in E1. apply rleb_false in E2. lra. }
    lia. Qed.

  (* a larger observed statistic never has a larger p-value *)
  Theorem pvalue_antitone (samples : list R) (v v' : R) : v <= v' -> pv samples v' <= pv samples v.
  Proof. intros Hv. unfold pvalue. cbn [ndiv nofZ RNum]. pose proof (count_ge_antitone samples v v' Hv) as Hc. apply IZR_le in Hc.
    destruct samples as [|s t].
    - cbn [length Z.of_nat]. unfold Rdiv. rewrite Rinv_0. lra.
    - assert (Hlen : (0 < Z.of_nat (length (s :: t)))%Z) by (cbn [length]; lia). apply IZR_lt in Hlen.
      unfold Rdiv. apply Rmult_le_compat_r; [left; now apply Rinv_0_lt_compat|exact Hc]. Qed.

  (* ties: a value equal to sampled statistics counts them;  beyond the sample range the p-value is exactly 0 or 1 *)
  Theorem pvalue_above_all (samples : list R) (value : R) : samples <> [] -> (forall s, In s samples -> s < value) -> pv samples value = 0.
  Proof. intros Hn Hall. rewrite pvalue_is_tail_fraction.
    assert (Hf : filter (fun s => nleb RNum value s) samples = []).
    { induction samples as [|s t IH]; [reflexivity|]. cbn [filter nleb RNum]. destruct (rleb value s) eqn:E.
      - apply rleb_le in E. specialize (Hall s (or_introl eq_refl)). lra.
      - destruct t; [reflexivity|]. apply IH; [discriminate|]. intros x Hx. apply Hall. now right. }
    rewrite Hf. cbn [length Z.of_nat ndiv nofZ RNum]. unfold Rdiv. lra. Qed.
  Theorem pvalue_below_all (samples : list R) (value : R) : samples <> [] -> (forall s, In s samples -> value <= s) -> pv samples value = 1.
  Proof. intros Hn Hall. rewrite pvalue_is_tail_fraction.
    assert (Hf : filter (fun s => nleb RNum value s) samples = samples).
    { clear Hn. induction samples as [|s t IH]; [reflexivity|]. cbn [filter nleb RNum]. destruct (rleb value s) eqn:E.
      - f_equal. apply IH. intros x Hx. apply Hall. now right.
      - apply rleb_false in E. specialize (Hall s (or_introl eq_refl)). lra. }
    rewrite Hf. cbn [ndiv nofZ RNum]. change (V RNum) with R in *. unfold Rdiv. apply Rinv_r.
    assert (Hlen : (0 < Z.of_nat (length samples))%Z) by (destruct samples; [congruence|cbn [length]; lia]). apply IZR_lt in Hlen. lra. Qed.
End PValueReal.

(* ====================================================================================== *)
(* Part 3 : which hypothesis each toy sample is drawn from                                 *)
(* ====================================================================================== *)
Section Toys.
  Variable N : Num.
  Variable Pars Data : Type.
  Variable fixed_poi_fit : V N -> Pars.
  Variable sampler : nat -> Pars -> nat -> list Data.
  Variable teststat_func : test_stat -> V N -> Data -> V N.

  (* specification: the POI value of the hypothesis a role is generated under *)
  Inductive role := SignalLike | BackgroundLike.
  Definition hypothesis_poi (ts : test_stat) (r : role) (poi_test : V N) : V N :=
    match r with
    | SignalLike => poi_test
    | BackgroundLike => match ts with TQ0 => n1 N | _ => n0 N end
    end.
  Definition draw_index (r : role) : nat := match r with SignalLike => 0 | BackgroundLike => 1 end.
  Definition toys_of (ts : test_stat) (r : role) (ntoys : nat) (poi_test : V N) : list (V N) :=
    map (teststat_func ts poi_test) (sampler (draw_index r) (fixed_poi_fit (hypothesis_poi ts r poi_test)) ntoys).

  (* signal-like toys are generated at the conditional fit at the tested POI, background-like toys at the conditional fit at
     0 (1 for q0); the statistic of every toy is evaluated at the tested POI; one statistic per pseudo-dataset *)
  Theorem toy_hypotheses ts ntoys poi_test :
    distributions fixed_poi_fit sampler teststat_func ts ntoys poi_test
    = (toys_of ts SignalLike ntoys poi_test, toys_of ts BackgroundLike ntoys poi_test).
  Proof. unfold distributions, toys_of. destruct ts; reflexivity. Qed.

  Theorem toy_counts ts ntoys poi_test :
    (forall k p, length (sampler k p ntoys) = ntoys) ->
    length (fst (distributions fixed_poi_fit sampler teststat_func ts ntoys poi_test)) = ntoys /\
    length (snd (distributions fixed_poi_fit sampler teststat_func ts ntoys poi_test)) = ntoys.
  Proof. intros Hs. rewrite toy_hypotheses. unfold toys_of. cbn [fst snd]. now rewrite !map_length, !Hs. Qed.

  (* CLs+b and CLb are the tail fractions of the two toy distributions at the observed statistic *)
  Theorem toy_pvalues_are_tail_fractions (t : V N) sb b :
    let frac l := ndiv N (nofZ N (Z.of_nat (length (filter (fun s => nleb N t s) l)))) (nofZ N (Z.of_nat (length l))) in
    toy_pvalues t sb b = (frac sb, frac b, ndiv N (frac sb) (frac b)).
  Proof. cbv zeta. unfold toy_pvalues. now rewrite !pvalue_is_tail_fraction. Qed.
End Toys.

(* ====================================================================================== *)
(* Part 4 : layout of a joint sample (Simultaneous.sample = tv.stitch of the per-term samples) *)
(* ====================================================================================== *)
Section Viewer.
  Local Open Scope nat_scope.
  Variable A : Type.
  Variable d : A.

  (* argsort of a duplicate-free index list, by its specification: entry i is the position of value i *)
  Fixpoint index_of (i : nat) (l : list nat) : nat :=
    match l with [] => 0 | x :: t => if Nat.eqb x i then 0 else S (index_of i t) end.
  Definition gather (data : list A) (idx : list nat) : list A := map (fun j => nth j data d) idx.
  Definition sorted_indices (parts : list (list nat)) : list nat :=
    map (fun i => index_of i (concat parts)) (seq 0 (length (concat parts))).
  Definition stitch (parts : list (list nat)) (ds : list (list A)) : list A := gather (concat ds) (sorted_indices parts).
  Definition split (parts : list (list nat)) (data : list A) : list (list A) := map (gather data) parts.

  Lemma nth_gather data idx n : n < length idx -> nth n (gather data idx) d = nth (nth n idx 0) data d.
  Proof. intros Hn. unfold gather.
    rewrite (nth_indep (map (fun j => nth j data d) idx) d ((fun j => nth j data d) 0)) by (now rewrite map_length).
    exact (map_nth (fun j => nth j data d) idx 0 n). Qed.

  Definition is_partition (parts : list (list nat)) : Prop :=
    NoDup (concat parts) /\ forall j, In j (concat parts) -> j < length (concat parts).

  Lemma index_of_nth l : NoDup l -> forall m, m < length l -> index_of (nth m l 0) l = m.
  Proof. induction 1 as [|x t Hx Ht IH]; intros m Hm; [simpl in Hm; lia|].
    destruct m as [|m]; simpl; [now rewrite Nat.eqb_refl|]. simpl in Hm.
    destruct (Nat.eqb_spec x (nth m t 0)) as [He|_].
    - exfalso. apply Hx. rewrite He. apply nth_In. lia.
    - f_equal. apply IH. lia. Qed.

  Lemma gather_stitch_concat parts ds : is_partition parts -> length (concat ds) = length (concat parts) ->
    gather (stitch parts ds) (concat parts) = concat ds.
  Proof. intros [Hnd Hlt] Hlen. unfold gather at 1.
    apply nth_ext with (d := d) (d' := d); [now rewrite map_length|].
    intros m Hm. rewrite map_length in Hm.
    rewrite (nth_indep _ d ((fun j => nth j (stitch parts ds) d) 0)) by (now rewrite map_length).
    rewrite (map_nth (fun j => nth j (stitch parts ds) d) (concat parts) 0 m).
    set (j := nth m (concat parts) 0). assert (Hj : j < length (concat parts)) by (apply Hlt, nth_In, Hm).
    unfold stitch, gather, sorted_indices. rewrite map_map.
    rewrite (nth_indep _ d ((fun i => nth (index_of i (concat parts)) (concat ds) d) 0)) by (now rewrite map_length, seq_length).
    rewrite (map_nth (fun i => nth (index_of i (concat parts)) (concat ds) d) (seq 0 (length (concat parts))) 0 j).
    rewrite seq_nth by exact Hj. cbn [Nat.add]. unfold j. now rewrite index_of_nth. Qed.

  Lemma concat_blocks_eq (l1 l2 : list (list A)) : map (@length A) l1 = map (@length A) l2 -> concat l1 = concat l2 -> l1 = l2.
  Proof. revert l2. induction l1 as [|a t IH]; intros [|b t2] Hl Hc; try discriminate; auto.
    simpl in Hl, Hc. injection Hl as Hab Ht. 
    assert (Ha : a = b /\ concat t = concat t2).
    { clear IH Ht. revert b Hab Hc. induction a as [|x a IHa]; intros [|y b] Hab Hc; try discriminate; auto.
      simpl in Hab, Hc. injection Hab as Hab. injection Hc as Hxy Hc. destruct (IHa b Hab Hc) as [-> Hr]. subst. auto. }
    destruct Ha as [-> Hc']. f_equal. now apply IH. Qed.
  Lemma concat_gather data parts : concat (map (gather data) parts) = gather data (concat parts).
  Proof. unfold gather. induction parts as [|p t IH]; simpl; auto. now rewrite IH, map_app. Qed.

  Lemma len_concat {B} (l : list (list B)) : length (concat l) = list_sum (map (@length B) l).
  Proof. induction l as [|a t IH]; simpl; auto. now rewrite app_length, IH. Qed.

  (* the viewer lemma: split and stitch are mutually inverse on a partition *)
  Theorem split_stitch parts ds : is_partition parts -> map (@length A) ds = map (@length nat) parts ->
    split parts (stitch parts ds) = ds.
  Proof. intros Hp Hl. apply concat_blocks_eq.
    - unfold split. rewrite map_map. rewrite Hl. apply map_ext. intros p. unfold gather. now rewrite map_length.
    - unfold split. rewrite concat_gather. apply gather_stitch_concat; auto.
      rewrite !len_concat. now rewrite Hl. Qed.

  (* sample_layout: position p of term k of the joint sample (target index parts[k][p]) holds the p-th value drawn from term k *)
  Theorem sample_layout parts ds k p : is_partition parts -> map (@length A) ds = map (@length nat) parts ->
    k < length parts -> p < length (nth k parts []) ->
    nth (nth p (nth k parts []) 0) (stitch parts ds) d = nth p (nth k ds []) d.
  Proof. intros Hp Hl Hk Hpp. pose proof (split_stitch parts ds Hp Hl) as Hs.
    assert (Hk' : nth k (split parts (stitch parts ds)) [] = nth k ds []) by now rewrite Hs.
    unfold split in Hk'. 
    rewrite (nth_indep _ [] (gather (stitch parts ds) [])) in Hk' by (now rewrite map_length).
    rewrite (map_nth (gather (stitch parts ds)) parts [] k) in Hk'.
    rewrite <- Hk'. unfold gather.
    rewrite (nth_indep (map (fun j => nth j (stitch parts ds) d) (nth k parts [])) d ((fun j => nth j (stitch parts ds) d) 0))
      by (now rewrite map_length).
    now rewrite (map_nth (fun j => nth j (stitch parts ds) d) (nth k parts []) 0 p). Qed.
End Viewer.

Section ModelViewer.
Local Open Scope nat_scope.
(* the viewer pyhf builds for a model: main data then auxiliary data (fullpdf_tv = _tensorviewer_from_sizes [nmain; naux]) *)
Lemma two_block_partition nmain naux : is_partition [seq 0 nmain; seq nmain naux].
Proof. unfold is_partition. cbn [concat]. rewrite app_nil_r. rewrite <- seq_app. split; [apply seq_NoDup|].
  intros j Hj. apply in_seq in Hj. rewrite seq_length. lia. Qed.

(* in a joint sample the first nmain columns are the main (Poisson) draws and the next naux columns the auxiliary draws, in order *)
Theorem joint_sample_layout {A} (dflt : A) (main aux : list A) :
  stitch A dflt [seq 0 (length main); seq (length main) (length aux)] [main; aux] = main ++ aux.
Proof. pose proof (split_stitch A dflt [seq 0 (length main); seq (length main) (length aux)] [main; aux]
                     (two_block_partition _ _)) as Hs.
  assert (Hl : map (@length A) [main; aux] = map (@length nat) [seq 0 (length main); seq (length main) (length aux)])
    by (cbn [map]; now rewrite !seq_length).
  specialize (Hs Hl). unfold split in Hs. cbn [map] in Hs. injection Hs as Hm Ha.
  set (st := stitch A dflt _ _) in *.
  assert (Hlen : length st = length main + length aux).
  { unfold st, stitch, gather, sorted_indices. rewrite !map_length, seq_length. cbn [concat]. rewrite app_nil_r, app_length, !seq_length. lia. }
  apply nth_ext with (d := dflt) (d' := dflt); [rewrite app_length; exact Hlen|].
  intros n Hn. rewrite Hlen in Hn. destruct (Nat.lt_ge_cases n (length main)) as [Hlt|Hge].
  - rewrite app_nth1 by exact Hlt.
    assert (He : nth n (gather A dflt st (seq 0 (length main))) dflt = nth n main dflt) by now rewrite Hm.
    rewrite nth_gather in He by (now rewrite seq_length). now rewrite seq_nth in He.
  - rewrite app_nth2 by exact Hge.
    assert (He : nth (n - length main) (gather A dflt st (seq (length main) (length aux))) dflt = nth (n - length main) aux dflt) by now rewrite Ha.
    rewrite nth_gather in He by (rewrite seq_length; lia). rewrite seq_nth in He by lia.
    replace (length main + (n - length main)) with n in He by lia. exact He. Qed.
End ModelViewer.


(* ====================================================================================== *)
(* Part 5 : the executed instance (Qc) computes the real-number p-value                    *)
(* ====================================================================================== *)
Section PValueExecuted.
  Local Open Scope R_scope.
  Lemma q2r_ofZ z : q2r (nofZ QcNum z) = IZR z.
  Proof. cbn [nofZ QcNum]. unfold mkq, q2r. rewrite this_Q2Qc, q2r_red. unfold Q2R. cbn [Qnum Qden]. rewrite RMicromega.Rinv_1. reflexivity. Qed.

  Lemma count_ge_q2r (samples : list Qc) (v : Qc) : @count_ge RNum (map q2r samples) (q2r v) = @count_ge QcNum samples v.
  Proof. unfold count_ge. induction samples as [|s t IH]; [reflexivity|]. cbn [map fold_right]. rewrite IH. f_equal.
    unfold indicator_ge. cbn [nleb RNum QcNum]. now rewrite q2r_leb. Qed.

  Theorem pvalue_q2r (samples : list Qc) (v : Qc) : q2r (@pvalue QcNum samples v) = @pvalue RNum (map q2r samples) (q2r v).
  Proof. unfold pvalue. cbn [ndiv QcNum RNum]. rewrite q2r_div, !q2r_ofZ, count_ge_q2r, map_length. reflexivity. Qed.

  (* hence the range and monotonicity theorems hold for the rationals computed in the correspondence *)
  Corollary pvalue_range_executed (samples : list Qc) (v : Qc) : samples <> [] -> 0 <= q2r (@pvalue QcNum samples v) <= 1.
  Proof. intros Hn. rewrite pvalue_q2r. apply pvalue_range. destruct samples; [congruence|discriminate]. Qed.
End PValueExecuted.


(* ====================================================================================== *)
(* Part 6 : examples (non-vacuity of the premises, behaviour on ties)                      *)
(* ====================================================================================== *)
Section Examples.
  Definition z (n : Z) : Qc := mkq n 1.
  (* ties are counted: three of the four samples are >= 2 *)
  Example pvalue_ties : qout (@pvalue QcNum [z 1; z 2; z 2; z 3] (z 2)) = (3%Z, 4%positive).
  Proof. vm_compute. reflexivity. Qed.
  Example pvalue_outside : (qout (@pvalue QcNum [z 1; z 2; z 2; z 3] (z 4)), qout (@pvalue QcNum [z 1; z 2; z 2; z 3] (z 0))) = ((0%Z, 1%positive), (1%Z, 1%positive)).
  Proof. vm_compute. reflexivity. Qed.
  (* the median of 3,1,2,2,5,4,4,4 by the linear rule: index 3.5 of the sorted vector -> (3 + 4) / 2 *)
  Example percentile_median : option_map qout (@percentile_linear QcNum [z 3; z 1; z 2; z 2; z 5; z 4; z 4; z 4] (z 50)) = Some (7%Z, 2%positive).
  Proof. vm_compute. reflexivity. Qed.
  Example percentile_ends :
    (option_map qout (@percentile_linear QcNum [z 3; z 1; z 2] (z 0)), option_map qout (@percentile_linear QcNum [z 3; z 1; z 2] (z 100)),
     option_map qout (@percentile_linear QcNum [z 3; z 1; z 2] (z 101)))
    = (Some (1%Z, 1%positive), Some (3%Z, 1%positive), None).
  Proof. vm_compute. reflexivity. Qed.

  (* a partition that is not in order: term 0 owns target positions 2 and 0, term 1 owns position 1 *)
  Example stitch_example : stitch nat 0%nat [[2; 0]; [1]]%nat [[10; 20]; [30]]%nat = [20; 30; 10]%nat
                           /\ split nat 0%nat [[2; 0]; [1]]%nat [20; 30; 10]%nat = [[10; 20]; [30]]%nat.
  Proof. split; reflexivity. Qed.
  Example is_partition_example : is_partition [[2; 0]; [1]]%nat.
  Proof. split; [repeat constructor; simpl; intuition discriminate|]. simpl. intros j Hj. intuition lia. Qed.

  (* toy dataflow with concrete stubs: parameters = the POI the fit was run at, datasets = (parameters, toy index) *)
  Example toy_example :
    @distributions QcNum Qc (Qc * nat) (fun poi => poi) (fun k pars n => map (fun i => (pars, i)) (seq 0 n))
                   (fun ts poi d => (fst d + poi)%Qc) TQtilde 2 (z 3)
    = ([(z 3 + z 3)%Qc; (z 3 + z 3)%Qc], [(0 + z 3)%Qc; (0 + z 3)%Qc]).
  Proof. reflexivity. Qed.
  Example toy_example_q0 :
    fst (snd (@distributions QcNum Qc (Qc * nat) (fun poi => poi) (fun k pars n => map (fun i => (pars, i)) (seq 0 n))
                   (fun ts poi d => fst d) TQ0 1 (z 0)), fst (@distributions QcNum Qc (Qc * nat) (fun poi => poi) (fun k pars n => map (fun i => (pars, i)) (seq 0 n))
                   (fun ts poi d => fst d) TQ0 1 (z 0)))
    = [1%Qc].
  Proof. reflexivity. Qed.
End Examples.

