(* C04 - the number record the probability primitives are translated over: field operations plus exp, ln, sqrt, pi.
   `xlogy`, `gammaln` (and the library density `norm.pdf`) are not part of it: they enter the generated definitions as
   Section variables. *)
From Coq Require Import ZArith Reals.

Record PNum := mkPNum {
  pV : Type;
  pofZ : Z -> pV;
  padd : pV -> pV -> pV; psub : pV -> pV -> pV; pmul : pV -> pV -> pV; pdiv : pV -> pV -> pV; popp : pV -> pV;
  pexp : pV -> pV; pln : pV -> pV; psqrt : pV -> pV; ppi : pV
}.
(* a python float literal is a dyadic rational n/d *)
Definition pofQ (P : PNum) (n : Z) (d : positive) : pV P := pdiv P (pofZ P n) (pofZ P (Zpos d)).
Definition psquare (P : PNum) (x : pV P) : pV P := pmul P x x.

Definition RP : PNum := mkPNum R IZR Rplus Rminus Rmult Rdiv Ropp exp ln sqrt PI.

(* what the translated bodies call but the record does not provide: library special functions *)
Record PExt (P : PNum) := mkPExt {
  e_xlogy : pV P -> pV P -> pV P;            (* scipy.special.xlogy / jax.scipy.special.xlogy *)
  e_gammaln : pV P -> pV P;                  (* scipy.special.gammaln / jax.scipy.special.gammaln *)
  e_norm_pdf : pV P -> pV P -> pV P -> pV P; (* scipy.stats.norm.pdf(x, loc, scale) / jax.scipy.stats.norm.pdf *)
  e_erfc : pV P -> pV P                      (* torch.erfc *)
}.
Arguments e_xlogy {P}. Arguments e_gammaln {P}. Arguments e_norm_pdf {P}. Arguments e_erfc {P}.
