(* TNum: the number record extended with the transcendental operations used by the
   interpolation codes (general power, natural logarithm).  Two instances:
     QcT : executable; powers with an integer exponent are exact, everything else returns the
           value [qpoison] (the harness never sends such points to the Qc instance; a poison value
           can only produce a disagreement, never hide one);
     RT  : the analytic instance.  [rpow x y] is [exp (y * ln x)] (= IEEE pow for x > 0) and [x]
           when [y = 1] (so that power(x, 1) = x also for x <= 0, as in every array library).
           pow of a non-positive base with an exponent other than 1, nan/inf: not modelled. *)
From Coq Require Import ZArith QArith Qcanon Reals Ring Field Bool Lra List.
Require Import PV.Num.
Import ListNotations.

Record TNum := mkTNum {
  tn :> Num;
  tpow : V tn -> V tn -> V tn;
  tln : V tn -> V tn
}.

(* ---------- derived generic operations ---------- *)
Section Derived.
  Variable N : Num.
  Fixpoint npow (x : V N) (n : nat) : V N :=
    match n with O => n1 N | S k => nmul N x (npow x k) end.
  Definition nabs (x : V N) : V N := if nltb N x (n0 N) then nopp N x else x.
  (* exact value of a python float literal / integer ratio *)
  Definition nofQ (n : Z) (d : positive) : V N := ndiv N (nofZ N n) (nofZ N (Zpos d)).
End Derived.
Arguments npow {N} x n.
Arguments nabs {N} x.
Arguments nofQ {N} n d.

(* ---------- laws, stated as predicates ---------- *)
(* strict total order compatible with opposite; nleb is the negation of the converse nltb *)
Record num_order (N : Num) : Prop := mkOrder {
  ord_leb : forall a b, nleb N a b = negb (nltb N b a);
  ord_irrefl : forall a, nltb N a a = false;
  ord_trans : forall a b c, nltb N a b = true -> nltb N b c = true -> nltb N a c = true;
  ord_total : forall a b, nltb N a b = false -> nltb N b a = false -> a = b;
  ord_opp : forall a b, nltb N (nopp N a) (nopp N b) = nltb N b a;
  ord_0_1 : nltb N (n0 N) (n1 N) = true;
  ord_add : forall a b c, nltb N a b = true -> nltb N (nadd N a c) (nadd N b c) = true;
  ord_mul : forall a b, nltb N (n0 N) a = true -> nltb N (n0 N) b = true -> nltb N (n0 N) (nmul N a b) = true
}.

(* nofZ is the canonical map from the integers *)
Record num_ofZ (N : Num) : Prop := mkOfZ {
  ofZ_0 : nofZ N 0%Z = n0 N;
  ofZ_1 : nofZ N 1%Z = n1 N;
  ofZ_add : forall a b, nofZ N (a + b)%Z = nadd N (nofZ N a) (nofZ N b);
  ofZ_opp : forall a, nofZ N (- a)%Z = nopp N (nofZ N a)
}.

Record tnum_laws (T : TNum) : Prop := mkTLaws {
  tl_ring : num_ring T;
  tl_field : num_field T;
  tl_order : num_order T;
  tl_ofZ : num_ofZ T;
  tl_eqb : forall a b, neqb T a b = true <-> a = b;
  tl_pow_1 : forall x, tpow T x (n1 T) = x
}.

(* ---------- Qc instance ---------- *)
Definition qpoison : Qc := mkq (-(2 ^ 200)) 1.
Definition qpowZ (x : Qc) (z : Z) : Qc :=
  match z with
  | Z0 => 1%Qc
  | Zpos p => Qcpower x (Pos.to_nat p)
  | Zneg p => Qcinv (Qcpower x (Pos.to_nat p))
  end.
Definition qpow (x y : Qc) : Qc :=
  match Qden y with
  | xH => if qleb x 0 then (if Qc_eq_bool y 1 then x else qpoison) else qpowZ x (Qnum y)
  | _ => qpoison
  end.
Definition QcT : TNum := mkTNum QcNum qpow (fun _ => qpoison).

(* ---------- R instance ---------- *)
Definition rpow (x y : R) : R := if Req_EM_T y 1 then x else exp (y * ln x).
Definition RT : TNum := mkTNum RNum rpow ln.

Lemma rpow_pos x y : (0 < x)%R -> rpow x y = exp (y * ln x).
Proof. intro H. unfold rpow. destruct (Req_EM_T y 1) as [->|_]; [|reflexivity].
  rewrite Rmult_1_l, exp_ln; auto. Qed.

Lemma rltb_true a b : (a < b)%R -> rltb a b = true.
Proof. intro; apply rltb_lt; auto. Qed.
Lemma rltb_false a b : (b <= a)%R -> rltb a b = false.
Proof. intro H. unfold rltb. destruct (Rlt_dec a b); auto; lra. Qed.
Lemma rleb_true a b : (a <= b)%R -> rleb a b = true.
Proof. intro; apply rleb_le; auto. Qed.
Lemma rleb_false a b : (b < a)%R -> rleb a b = false.
Proof. intro H. unfold rleb. destruct (Rle_dec a b); auto; lra. Qed.

Lemma RNum_order : num_order RNum.
Proof.
  constructor; simpl; intros.
  - unfold rltb, rleb. destruct (Rlt_dec b a), (Rle_dec a b); simpl; auto; lra.
  - apply rltb_false; lra.
  - apply rltb_lt in H, H0. apply rltb_true; lra.
  - unfold rltb in *. destruct (Rlt_dec a b), (Rlt_dec b a); try discriminate; lra.
  - unfold rltb. destruct (Rlt_dec (-a) (-b)), (Rlt_dec b a); auto; lra.
  - apply rltb_true; lra.
  - apply rltb_lt in H. apply rltb_true; lra.
  - apply rltb_lt in H, H0. apply rltb_true. apply Rmult_lt_0_compat; auto.
Qed.

Lemma RNum_ofZ : num_ofZ RNum.
Proof.
  constructor; simpl; intros; auto.
  - apply plus_IZR.
  - apply opp_IZR.
Qed.

Lemma RT_laws : tnum_laws RT.
Proof.
  constructor.
  - exact RNum_ring.
  - exact RNum_field.
  - exact RNum_order.
  - exact RNum_ofZ.
  - intros a b. simpl. unfold reqb. destruct (Req_EM_T a b); split; auto; discriminate.
  - intro x. simpl. unfold rpow. destruct (Req_EM_T 1 1); auto; lra.
Qed.

Lemma nabs_R x : @nabs RNum x = Rabs x.
Proof. unfold nabs; simpl. unfold rltb, Rabs. destruct (Rlt_dec x 0), (Rcase_abs x); auto; lra. Qed.
Lemma npow_R x n : @npow RNum x n = (x ^ n)%R.
Proof. induction n; simpl; auto. Qed.

(* ---------- Qc order laws ---------- *)
Lemma qltb_qleb a b : qltb a b = negb (qleb b a).
Proof. unfold qltb, qleb, Qccompare. rewrite <- (Qcompare_antisym b a).
  destruct (Qcompare b a); reflexivity. Qed.

Lemma qltb_irrefl a : qltb a a = false.
Proof. unfold qltb. assert (H : (a ?= a)%Qc = Eq) by (apply Qceq_alt; reflexivity). rewrite H; auto. Qed.

Lemma QcNum_order : num_order QcNum.
Proof.
  constructor; simpl; intros.
  - rewrite qltb_qleb. rewrite negb_involutive. reflexivity.
  - apply qltb_irrefl.
  - apply qltb_lt in H, H0. apply qltb_lt. eapply Qclt_trans; eauto.
  - unfold qltb, Qccompare in *. rewrite <- (Qcompare_antisym a b) in H0.
    destruct (Qcompare a b) eqn:E; simpl in *; try discriminate.
    apply Qc_is_canon. apply Qeq_alt. exact E.
  - rewrite !qltb_qleb. f_equal.
    destruct (qleb a b) eqn:E.
    + apply qleb_le. apply Qcopp_le_compat. apply qleb_le; auto.
    + destruct (qleb (- b) (- a)) eqn:E2; auto. apply qleb_le in E2.
      apply Qcopp_le_compat in E2. rewrite !Qcopp_involutive in E2. apply qleb_le in E2. congruence.
  - reflexivity.
  - apply qltb_lt in H. apply qltb_lt. apply (proj2 (Qclt_minus_iff (a + c) (b + c))).
    replace (b + c + - (a + c))%Qc with (b + - a)%Qc by ring. apply (proj1 (Qclt_minus_iff a b)); auto.
  - apply qltb_lt in H, H0. apply qltb_lt.
    replace (Q2Qc 0) with (Q2Qc 0 * b)%Qc by ring. apply Qcmult_lt_compat_r; auto.
Qed.

Lemma mkq_add a b : mkq (a + b) 1 = (mkq a 1 + mkq b 1)%Qc.
Proof. apply Qc_is_canon. unfold mkq, Qcplus, Q2Qc; cbn [this]. rewrite !Qred_correct.
  unfold Qeq, Qplus; cbn [Qnum Qden]. rewrite Pos.mul_1_l. ring. Qed.
Lemma mkq_opp a : mkq (- a) 1 = (- mkq a 1)%Qc.
Proof. apply Qc_is_canon. unfold mkq, Qcopp, Q2Qc; cbn [this]. rewrite !Qred_correct.
  unfold Qeq, Qopp; cbn [Qnum Qden]. ring. Qed.

Lemma QcNum_ofZ : num_ofZ QcNum.
Proof.
  constructor; simpl; intros.
  - apply Qc_is_canon; reflexivity.
  - apply Qc_is_canon; reflexivity.
  - apply mkq_add.
  - apply mkq_opp.
Qed.

Lemma QcT_laws : tnum_laws QcT.
Proof.
  constructor.
  - exact QcNum_ring.
  - exact QcNum_field.
  - exact QcNum_order.
  - exact QcNum_ofZ.
  - intros a b. simpl. split.
    + apply Qc_eq_bool_correct.
    + intros ->. unfold Qc_eq_bool. destruct (Qc_eq_dec b b); auto; congruence.
  - intro x. simpl. unfold qpow. change (Qden 1%Qc) with 1%positive. cbv iota.
    destruct (qleb x 0); [reflexivity|]. change (Qnum 1%Qc) with 1%Z. simpl.
    apply Qcmult_1_r.
Qed.

(* ---------- tactics shared by the analysis and by the correspondence files written by the harness ---------- *)
Lemma rpow_1 x y : y = 1%R -> rpow x y = x.
Proof. intros ->. unfold rpow. destruct (Req_EM_T 1 1); auto; lra. Qed.
Lemma rpow_n1 x y : y <> 1%R -> rpow x y = exp (y * ln x).
Proof. intro H. unfold rpow. destruct (Req_EM_T y 1); auto; contradiction. Qed.

(* unfold the record projections of the real instance *)
Ltac rsimp := cbn [tn RT RNum V n0 n1 nadd nmul nsub nopp ndiv ninv nltb nleb neqb nofZ tpow tln nofQ npow nabs].
(* decide comparisons between concrete / hypothesis-bounded reals *)
Ltac cmp := repeat first [rewrite rltb_true by lra | rewrite rltb_false by lra | rewrite rleb_true by lra | rewrite rleb_false by lra].
Ltac rpow_res := repeat first [rewrite rpow_1 by lra | rewrite rpow_n1 by lra].
