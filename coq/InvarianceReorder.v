(* C15, specification level, part 3: listing order.  A specification whose channel list, sample lists, modifier lists
   and measurement parameter list are permuted has the same expected data (as a list: channels are laid out in sorted
   name order) and the same multiset of likelihood terms; through the C01 refinement the implementation model of the
   two specifications computes the same expected data when the two parameter vectors agree by NAME. *)
From Coq Require Import Bool Arith Lia Permutation Ring Field String List.
Require Import PV.Num PV.Sort PV.Spec PV.Impl PV.Ref PV.RefineMonoid PV.RefineLookup PV.RefineRates PV.RefineTop PV.Wf
               PV.Invariance PV.InvarianceSpec.
Import ListNotations.
Local Open Scope list_scope.

Lemma Permutation_PermRel_eq {A} (l l' : list A) : Permutation l l' -> PermRel eq l l'.
Proof. intros H. exists l'. split; auto. apply Forall2_refl_in. auto. Qed.
Lemma PermRel_nil_r {A B} (R : A -> B -> Prop) l : PermRel R l [] -> l = [].
Proof. intros [l1 [Hp Hf]]. inversion Hf; subst. now apply Permutation_sym, Permutation_nil in Hp. Qed.

Section Reorder.
  Variable N : Num.
  Notation V := (V N).
  Hypothesis Hring : ring_theory (n0 N) (n1 N) (nadd N) (nmul N) (nsub N) (nopp N) eq.
  Add Ring NR8 : Hring.
  Notation "0" := (n0 N). Notation "1" := (n1 N).
  Infix "+" := (nadd N). Infix "*" := (nmul N).
  Variable interp_add interp_mul : string -> V -> V -> V -> V -> V.
  Variables ncode hcode : string.
  Variables clip_s clip_b : option V.
  Notation spec := (spec N). Notation channel := (channel N). Notation sample := (sample N). Notation modifier := (modifier N).
  Notation srate := (sample_rate N interp_add interp_mul ncode hcode clip_s).
  Notation rrate := (ref_rate N interp_add interp_mul ncode hcode clip_s clip_b).
  Notation rexp := (ref_expected N interp_add interp_mul ncode hcode clip_s clip_b).
  Notation rmain := (ref_main_terms N interp_add interp_mul ncode hcode clip_s clip_b).
  Notation rterms := (ref_terms N interp_add interp_mul ncode hcode clip_s clip_b).

  (* the rewrite: every list of the specification permuted *)
  Definition samp_reorder (s s' : sample) : Prop := s_name s = s_name s' /\ s_data s = s_data s' /\ Permutation (s_mods s) (s_mods s').
  Definition chan_reorder (c c' : channel) : Prop := c_name c = c_name c' /\ PermRel samp_reorder (c_samples c) (c_samples c').
  Definition spec_reorder (sp sp' : spec) : Prop :=
    PermRel chan_reorder (channels sp) (channels sp') /\ Permutation (parameters sp) (parameters sp').

  Lemma has_mod_reorder s s' n t : samp_reorder s s' -> has_mod N s n t = has_mod N s' n t.
  Proof. intros [_ [_ Hp]]. unfold has_mod. apply (PermRel_existsb _ _ _ _ (Permutation_PermRel_eq _ _ Hp)). now intros x x' _ _ <-. Qed.
  Lemma stat_offset_name (sp : spec) n c c' : c_name c = c_name c' -> stat_offset N sp n c = stat_offset N sp n c'.
  Proof. intros H. unfold stat_offset. now rewrite H. Qed.

  Variables sp sp' : spec.
  Hypothesis Hre : spec_reorder sp sp'.
  Hypothesis Hnd : NoDup (map c_name (channels sp)).
  Hypothesis Hbins : forall c s, In c (channels sp) -> In s (c_samples c) -> length (s_data s) = chan_nbins N c.

  Lemma reorder_nbins c c' : In c (channels sp) -> chan_reorder c c' -> chan_nbins N c = chan_nbins N c'.
  Proof. intros Hc [_ HP]. unfold chan_nbins at 2. destruct (c_samples c') as [|s' t'] eqn:E.
    - apply PermRel_nil_r in HP. unfold chan_nbins. now rewrite HP.
    - destruct (PermRel_in_r _ _ s' HP) as [s [Hs [_ [Hd _]]]]; [now left|]. rewrite <- Hd. symmetry. now apply Hbins. Qed.
  Lemma reorder_sim c c' : In c (channels sp) -> In c' (channels sp') -> chan_reorder c c' -> chan_sim N c c'.
  Proof. intros Hc _ Hr. split; [apply Hr|]. split; [now apply reorder_nbins|]. intros n. unfold chan_has. destruct Hr as [_ HP].
    apply (PermRel_existsb _ _ _ _ HP). intros s s' _ _ Hs. now apply has_mod_reorder. Qed.
  Lemma reorder_rate theta c c' b : chan_reorder c c' -> rrate sp theta c b = rrate sp theta c' b.
  Proof. intros [Hn HP]. unfold ref_rate. f_equal. change (rsum N ?l) with (foldm V (nadd N) 0 l).
    apply (@PermRel_foldm _ _ samp_reorder V (nadd N) 0); auto; try (intros; ring).
    intros s s' _ _ [Hsn [Hsd Hsm]].
    rewrite (sample_rate_perm_modifiers N Hring interp_add interp_mul ncode hcode clip_s sp theta c s s' b Hsn Hsd Hsm).
    apply (sample_rate_change N); auto. intros n. now apply stat_offset_name. Qed.

  Theorem reorder_invariant_expected theta : rexp sp' theta = rexp sp theta.
  Proof. symmetry. destruct Hre as [HP _].
    apply (ref_expected_congr N interp_add interp_mul ncode hcode clip_s clip_b sp sp' chan_reorder Hnd HP reorder_sim).
    intros c c' _ _ Hr b _. now apply reorder_rate. Qed.
  Theorem reorder_invariant_main_terms theta obs : rmain sp' theta obs = rmain sp theta obs.
  Proof. symmetry. destruct Hre as [HP _].
    apply (ref_main_terms_congr N interp_add interp_mul ncode hcode clip_s clip_b sp sp' chan_reorder Hnd HP reorder_sim).
    intros c c' _ _ Hr b _. now apply reorder_rate. Qed.

  (* ---- constraint terms: additionally one modifier per (name, type) in a sample, one configuration per parameter ---- *)
  Hypothesis Hmk : forall c s, In c (channels sp) -> In s (c_samples c) -> NoDup (map mkey (s_mods s)).
  Hypothesis Hpc : NoDup (map pc_name (parameters sp)).

  Lemma reorder_user_cfg n : user_cfg N sp n = user_cfg N sp' n.
  Proof. unfold user_cfg. destruct Hre as [_ Hp]. apply find_perm_unique; auto. intros x y Hx Hy Ex Ey.
    apply String.eqb_eq in Ex, Ey. apply (NoDup_map_inj_in pc_name (parameters sp)); auto. congruence. Qed.
  Lemma reorder_sigmas n k : user_sigmas2 N sp n k = user_sigmas2 N sp' n k.
  Proof. unfold user_sigmas2. now rewrite reorder_user_cfg. Qed.
  Lemma reorder_factor n k : user_factor N sp n k = user_factor N sp' n k.
  Proof. unfold user_factor. now rewrite reorder_user_cfg. Qed.
  Lemma reorder_stat_unc c s s' n b : In c (channels sp) -> In s (c_samples c) -> samp_reorder s s' -> stat_unc N s n b = stat_unc N s' n b.
  Proof. intros Hc Hs [_ [_ Hp]]. unfold stat_unc. rewrite (find_perm_unique _ _ _ Hp); auto.
    intros x y Hx Hy Ex Ey. apply andb_prop in Ex, Ey. destruct Ex as [E1 E2], Ey as [E3 E4].
    apply String.eqb_eq in E1, E3. apply mtype_eqb_eq in E2, E4. apply (NoDup_map_inj_in mkey (s_mods s)); auto; [now apply (Hmk c)|].
    unfold mkey. congruence. Qed.
  Lemma reorder_tnames t c c' : chan_reorder c c' -> Permutation (chan_tnames N t c) (chan_tnames N t c').
  Proof. intros [_ HP]. unfold chan_tnames. apply (PermRel_flat_map_perm _ _ _ _ HP). intros s s' _ _ [_ [_ Hp]].
    now apply Permutation_flat_map. Qed.
  Lemma reorder_tnames_iff t c c' n : chan_reorder c c' -> In n (chan_tnames N t c) <-> In n (chan_tnames N t c').
  Proof. intros Hr. split; apply Permutation_in; [|symmetry]; now apply reorder_tnames. Qed.
  Lemma reorder_cong theta aux c c' : In c (channels sp) -> In c' (channels sp') -> chan_reorder c c' -> chan_cong N sp sp' theta aux c c'.
  Proof. intros Hc Hc' Hr. split; [|split; [|split]]; try (intros n; now apply reorder_tnames_iff).
    - intros n b _ _. apply (stat_delta2_congr N Hring). destruct Hr as [_ HP].
      apply (PermRel_weaken samp_reorder (samp_stat_sim N)); auto. intros s s' Hs _ Hss. split; [apply Hss|]. split.
      + intros n'. now apply has_mod_reorder.
      + intros n' b'. now apply (reorder_stat_unc c).
    - assert (Hb := reorder_nbins c c' Hc Hr). destruct Hr as [_ HP]. unfold chan_shape_terms.
      apply (PermRel_flat_map_perm _ _ _ _ HP). intros s s' _ _ [_ [Hd Hp]].
      rewrite (Permutation_flat_map _ Hp). apply Permutation_refl'. apply flat_map_ext. intros m.
      unfold mod_shape_terms, shapesys_tau. rewrite Hb, Hd. destruct (m_type m); auto. destruct (m_data m); auto.
      apply map_ext. intros b. now rewrite reorder_factor. Qed.
  Lemma reorder_alpha n : In n (alpha_names N sp) <-> In n (alpha_names N sp').
  Proof. destruct Hre as [HP _]. rewrite !alpha_names_in. split.
    - intros [c [Hc H]]. destruct (PermRel_in_l _ _ c HP Hc) as [c' [Hc' Hr]]. exists c'. split; auto.
      now rewrite <- !(reorder_tnames_iff _ c c' n Hr).
    - intros [c' [Hc' H]]. destruct (PermRel_in_r _ _ c' HP Hc') as [c [Hc Hr]]. exists c. split; auto.
      now rewrite !(reorder_tnames_iff _ c c' n Hr). Qed.

  Theorem reorder_invariant_terms theta obs aux : Permutation (rterms sp' theta obs aux) (rterms sp theta obs aux).
  Proof. unfold ref_terms. rewrite reorder_invariant_main_terms. apply Permutation_app_head. rewrite !ref_cterms_is. symmetry.
    apply Permutation_app; [apply ct_alpha_perm, reorder_alpha|]. destruct Hre as [HP _].
    apply (ref_cterms_rest_congr N sp sp' chan_reorder theta aux Hnd HP reorder_sim (reorder_cong theta aux) reorder_sigmas). Qed.
End Reorder.

(* 1. the theorem in one piece *)
Theorem reorder_invariant : forall N, ring_theory (n0 N) (n1 N) (nadd N) (nmul N) (nsub N) (nopp N) eq ->
  forall ia im nc hc cs cb (sp sp' : spec N), spec_reorder N sp sp' ->
  NoDup (map c_name (channels sp)) ->
  (forall c s, In c (channels sp) -> In s (c_samples c) -> length (s_data s) = chan_nbins N c) ->
  (forall theta, ref_expected N ia im nc hc cs cb sp' theta = ref_expected N ia im nc hc cs cb sp theta) /\
  ((forall c s, In c (channels sp) -> In s (c_samples c) -> NoDup (map mkey (s_mods s))) -> NoDup (map pc_name (parameters sp)) ->
   forall theta obs aux, Permutation (ref_terms N ia im nc hc cs cb sp' theta obs aux) (ref_terms N ia im nc hc cs cb sp theta obs aux)).
Proof. intros N Hr ia im nc hc cs cb sp sp' Hre Hnd Hb. split.
  - intros theta. now apply reorder_invariant_expected.
  - intros Hmk Hpc theta obs aux. now apply reorder_invariant_terms. Qed.

(* every listed sample of an accepted specification has the bin count of its channel *)
Lemma accepted_uniform_bins N (sp : spec N) md : build N sp = Ok md ->
  forall c s, In c (channels sp) -> In s (c_samples c) -> length (s_data s) = chan_nbins N c.
Proof.
  intros Hb c s Hc Hs.
  assert (Hchan := accepted_distinct_channels N sp md Hb).
  assert (Hsamp := fun c => accepted_distinct_samples N sp md c Hb).
  assert (Hcell := cell_present N sp Hchan Hsamp c s Hc Hs).
  rewrite (accepted_cell_lengths N sp md (c_name c) (s_name s) s Hb); auto.
  - rewrite (nbins_is N sp Hchan c Hc). reflexivity.
  - unfold cfg_channels. apply sort_uniq_in. now apply in_map.
  - unfold cfg_samples. apply sort_uniq_in. apply in_map. unfold all_samples. apply in_flat_map. exists c. auto.
Qed.

(* 1, implementation level (through C01): the implementation models of a specification and of any re-listing of it
   compute the same expected data at parameter vectors that agree by parameter NAME *)
Theorem reorder_invariant_impl : forall N, ring_theory (n0 N) (n1 N) (nadd N) (nmul N) (nsub N) (nopp N) eq ->
  forall ia im (sp sp' : spec N) st md md' pars pars',
  spec_reorder N sp sp' ->
  build N sp = Ok md -> build N sp' = Ok md' ->
  shape_ok N sp -> shape_ok N sp' -> clip_guard N st -> layout_okb N sp md = true -> layout_okb N sp' md' = true ->
  (forall n k, theta N md (parf N pars) n k = theta N md' (parf N pars') n k) ->
  expected_actualdata N ia im sp st md pars = expected_actualdata N ia im sp' st md' pars'.
Proof.
  intros N Hr ia im sp sp' st md md' pars pars' Hre Hb Hb' Hs Hs' Hc Hl Hl' Ht.
  rewrite (expected_refines_accepted N Hr ia im sp st md pars Hb Hs Hc Hl).
  rewrite (expected_refines_accepted N Hr ia im sp' st md' pars' Hb' Hs' Hc Hl').
  rewrite (reorder_invariant_expected N Hr ia im _ _ _ _ sp sp' Hre (accepted_distinct_channels N sp md Hb) (accepted_uniform_bins N sp md Hb)).
  now apply ref_expected_ext.
Qed.

(* non-vacuity, generically: every specification has the re-listing with all four kinds of lists reversed *)
Section Reverse.
  Variable N : Num.
  Definition rev_sample (s : sample N) : sample N := {| s_name := s_name s; s_data := s_data s; s_mods := rev (s_mods s) |}.
  Definition rev_chan (c : channel N) : channel N := {| c_name := c_name c; c_samples := rev (map rev_sample (c_samples c)) |}.
  Definition rev_spec (sp : spec N) : spec N :=
    {| channels := rev (map rev_chan (channels sp)); parameters := rev (parameters sp); poi := poi sp |}.
  Lemma rev_PermRel {A} (R : A -> A -> Prop) (F : A -> A) l : (forall x, R x (F x)) -> PermRel R l (rev (map F l)).
  Proof. intros H. exists (rev l). split; [apply Permutation_rev|]. rewrite <- map_rev. apply Forall2_map_r. auto. Qed.
  Lemma rev_spec_reorder sp : spec_reorder N sp (rev_spec sp).
  Proof. split; [|apply Permutation_rev]. apply rev_PermRel. intros c. split; [reflexivity|]. apply rev_PermRel. intros s.
    split; [reflexivity|]. split; [reflexivity|]. apply Permutation_rev. Qed.
End Reverse.
