(* C15: non-vacuity of InvarianceMore.v / InvarianceMoreImpl.v -- every theorem instantiated on concrete specifications over
   exact rationals, the hypotheses discharged (boolean witnesses evaluated by the VM), the rewritten specification accepted
   by `build`, the implementation model's term list really computed (logpdf_terms = Ok). *)
From Coq Require Import Bool Arith Lia Permutation Ring Field Ascii String QArith Qcanon List.
Require Import PV.Num PV.Sort PV.Spec PV.Impl PV.Ref PV.InterpQ PV.Run PV.EngineRun PV.RefineRates PV.RefineTop PV.Wf PV.RefineLayout
               PV.RefineTerms PV.RefineTermsBlocks PV.RefineTermsFinal PV.RefineTermsTop PV.RefineTermsFull
               PV.Invariance PV.InvarianceSpec PV.InvarianceRewrite PV.InvarianceReorder PV.InvarianceRename PV.InvarianceSplit
               PV.InvarianceExamples PV.InvarianceMore PV.InvarianceMoreImpl.
Import ListNotations.
Local Open Scope list_scope.
Local Open Scope string_scope.

(* ------------------------------------------------------------------ (b) merge with a shared staterror: 3^2 + 4^2 = 5^2 *)
Definition ex_lumi_m : modifier Q := mk_mod "lumi" Lumi dnone.
Definition ex_sys_m : modifier Q := mk_mod "sys" Normsys (dnorm (mkq 9 10) (mkq 11 10)).
Definition ex_stat_m (l : list Qc) : modifier Q := mk_mod "stat_SR" Staterror (dlist l).
Definition ex_m1 : sample Q := mk_sample "b1" [q 30; q 40] [ex_lumi_m; ex_sys_m; ex_stat_m [q 3; q 4]].
Definition ex_m2 : sample Q := mk_sample "b2" [q 20; q 25] [ex_lumi_m; ex_sys_m; ex_stat_m [q 4; q 3]].
Definition ex_m12 : sample Q := mk_sample "b12" [q 50; q 65] [ex_lumi_m; ex_sys_m; ex_stat_m [q 5; q 5]].
Definition ex_SR7 : channel Q := mk_chan "SR" [ex_signal; ex_m1; ex_m2].
Definition ex_spec7 : spec Q := Build_spec (N:=Q) [ex_SR7; ex_CR] [ex_lumi_cfg; ex_mu_cfg] (Some "mu").
Definition ex_spec7m : spec Q := with_channels ex_spec7 ([] ++ with_samples ex_SR7 ([ex_signal] ++ ex_m12 :: []) :: [ex_CR]).

Ltac sim_list := repeat (constructor; [repeat split; try reflexivity; intros H; exfalso; apply H; reflexivity|]); constructor.
Lemma ex7_sim2 : Forall2 (mod_sim Q) (s_mods ex_m1) (s_mods ex_m2). Proof. sim_list. Qed.
Lemma ex7_simm : Forall2 (mod_sim Q) (s_mods ex_m1) (s_mods ex_m12). Proof. sim_list. Qed.
Lemma ex7_no : forall m, In m (s_mods ex_m1) -> m_type m <> Histosys /\ m_type m <> Shapesys.
Proof. intros m Hm. in_cases Hm; split; discriminate. Qed.
Lemma ex7_quad : forall n b, has_mod Q ex_m1 n Staterror = true -> (b < length (s_data ex_m1))%nat ->
  nmul Q (stat_unc Q ex_m12 n b) (stat_unc Q ex_m12 n b) =
  nadd Q (nmul Q (stat_unc Q ex_m1 n b) (stat_unc Q ex_m1 n b)) (nmul Q (stat_unc Q ex_m2 n b) (stat_unc Q ex_m2 n b)).
Proof. intros n b Hh Hb. destruct (String.eqb_spec "stat_SR" n) as [<-|ne].
  - destruct b as [|[|b]]; [vm_compute; reflexivity|vm_compute; reflexivity|simpl in Hb; lia].
  - exfalso. apply String.eqb_neq in ne. unfold has_mod in Hh. cbn [ex_m1 mk_sample s_mods existsb ex_lumi_m ex_sys_m ex_stat_m mk_mod m_name m_type mtype_eqb] in Hh.
    rewrite ne in Hh. rewrite !andb_false_r in Hh. discriminate. Qed.
Lemma ex7_bins : forall s, In s (c_samples ex_SR7) -> length (s_data s) = chan_nbins Q ex_SR7.
Proof. intros s Hs. in_cases Hs; reflexivity. Qed.
Lemma ex7_nodup : NoDup (map c_name (channels ex_spec7)). Proof. apply nodup_names. reflexivity. Qed.

Example merge_samples_invariant_full_nonvacuous :
  qout (stat_delta2 Q "stat_SR" ex_SR7 0) = (1%Z, 100%positive) /\
  length (c_samples ex_SR7) = 3%nat /\ length (c_samples (with_samples ex_SR7 ([ex_signal] ++ ex_m12 :: []))) = 2%nat /\
  rexp ex_spec7m ex_theta = rexp ex_spec7 ex_theta /\
  Permutation (rterms ex_spec7m ex_theta ex_obs ex_aux) (rterms ex_spec7 ex_theta ex_obs ex_aux).
Proof.
  split; [vm_compute; reflexivity|]. split; [reflexivity|]. split; [reflexivity|].
  destruct (merge_samples_invariant_full Q Qcrt QcNum_div ia im "code1" "code0" None ex_spec7 [] [ex_CR] ex_SR7 [ex_signal] [] ex_m1 ex_m2 ex_m12
              eq_refl eq_refl ex7_nodup ex7_sim2 ex7_simm eq_refl eq_refl ex7_no ex7_quad ex7_bins ex_theta ex_obs ex_aux) as [_ [H1 H2]].
  split; assumption.
Qed.

(* the special case `merged` (no staterror on the two samples): all terms *)
Example merge_identical_samples_invariant_terms_nonvacuous :
  let sp' := with_channels ex_spec6 ([] ++ with_samples ex_SR6 ([ex_signal] ++ merged Q ex_b1 ex_b2 :: []) :: [ex_CR]) in
  Permutation (rterms sp' ex_theta ex_obs ex_aux) (rterms ex_spec6 ex_theta ex_obs ex_aux).
Proof.
  cbv zeta. apply (merge_identical_samples_invariant_terms Q Qcrt QcNum_div ia im "code1" "code0" None ex_spec6 [] [ex_CR] ex_SR6 [ex_signal] [] ex_b1 ex_b2); auto.
  - apply nodup_names. reflexivity.
  - intros m Hm. in_cases Hm; repeat split; discriminate.
  - intros s Hs. in_cases Hs; reflexivity.
Qed.

(* (b) signal rescaling: the whole term list, constraint terms included, is literally unchanged *)
Example signal_rescale_covariant_terms_nonvacuous :
  length (ref_cterms Q ex_spec ex_theta ex_aux) = 6%nat /\
  ref_cterms Q (rescale_signal Q "mu" (q 2) ex_spec) (rescale_theta Q "mu" (q 2) ex_theta) ex_aux = ref_cterms Q ex_spec ex_theta ex_aux /\
  rterms (rescale_signal Q "mu" (q 2) ex_spec) (rescale_theta Q "mu" (q 2) ex_theta) ex_obs ex_aux = rterms ex_spec ex_theta ex_obs ex_aux.
Proof.
  split; [vm_compute; reflexivity|].
  apply (signal_rescale_covariant_terms Q Qcft ia im "code1" "code0" None None "mu" (q 2)).
  - intros E. vm_compute in E. discriminate.
  - apply ex_nodup_channels.
  - intros c s m Hc Hs Hm E. in_cases Hc; in_cases Hs; in_cases Hm; try reflexivity; vm_compute in E; discriminate.
  - intros c s Hc Hs _. now apply (ex_nodup_mods c s).
  - intros c s m Hc Hs Hh Hm. in_cases Hc; in_cases Hs; try (vm_compute in Hh; discriminate); in_cases Hm; repeat split; discriminate.
Qed.

(* ------------------------------------------------------------------ (c) implementation level *)
(* parameter and data vectors laid out from name-indexed functions, following the model's own parameter sets *)
Definition pars_of (thf : string -> nat -> Qc) (m : model Q) : list Qc :=
  flat_map (fun p => map (thf (p_name Q p)) (seq 0 (p_n Q p))) (md_psets Q m).
Definition data_of (sp : spec Q) (obsf auxf : string -> nat -> Qc) (m : model Q) : list Qc :=
  flat_map (fun cn => map (obsf cn) (seq 0 (nbins Q sp cn))) (cfg_channels Q sp) ++
  flat_map (fun p => if constrained Q p then map (auxf (p_name Q p)) (seq 0 (p_n Q p)) else []) (md_psets Q m).

Definition agree_b (sp : spec Q) (f g : string -> nat -> Qc) : bool :=
  forallb (fun nk => Qc_eq_bool (f (fst nk) (snd nk)) (g (fst nk) (snd nk))) (read_list Q sp).
Lemma agree_b_sound sp f g : agree_b sp f g = true -> agree_on Q sp f g.
Proof. intros H n k Hin. unfold agree_b in H. rewrite forallb_forall in H. specialize (H _ Hin). now apply Qc_eq_bool_correct in H. Qed.
Definition obs_agree_b (sp : spec Q) (f g : string -> nat -> Qc) : bool :=
  forallb (fun c => forallb (fun b => Qc_eq_bool (f (c_name c) b) (g (c_name c) b)) (seq 0 (chan_nbins Q c))) (channels sp).
Lemma obs_agree_b_sound sp f g : obs_agree_b sp f g = true -> obs_agree Q sp f g.
Proof. intros H c b Hc Hb. unfold obs_agree_b in H. rewrite forallb_forall in H. specialize (H _ Hc). rewrite forallb_forall in H.
  assert (Hin : In b (seq 0 (chan_nbins Q c))) by (apply in_seq; lia). specialize (H _ Hin). now apply Qc_eq_bool_correct in H. Qed.
Lemma ex_list_shape_ok (sp : spec Q) : forallb (fun c => forallb (fun s => forallb (fun m =>
    match m_type m, m_data m with Shapesys, MDList _ => true | Shapesys, _ => false | Staterror, MDList _ => true | Staterror, _ => false | _, _ => true end)
    (s_mods s)) (c_samples c)) (channels sp) = true -> list_shape_ok Q sp.
Proof. intros H c s m Hc Hs Hm. rewrite forallb_forall in H. specialize (H c Hc). rewrite forallb_forall in H. specialize (H s Hs).
  rewrite forallb_forall in H. specialize (H m Hm). destruct (m_type m); auto; destruct (m_data m); try discriminate; eauto. Qed.
Lemma build2 (sp sp' : spec Q) (P : model Q -> model Q -> bool) :
  (match build Q sp, build Q sp' with Ok m, Ok m' => P m m' | _, _ => false end) = true ->
  forall md md', build Q sp = Ok md -> build Q sp' = Ok md' -> P md md' = true.
Proof. intros H md md' E E'. now rewrite E, E' in H. Qed.

Section Chk.
  Variables sp sp' : spec Q.
  Variables thf thf' obsf obsf' auxf auxf' : string -> nat -> Qc.
  Variable ren : string -> string.
  Variable tr : (string -> nat -> Qc) -> string -> nat -> Qc.
  Definition c_pars (m : model Q) := pars_of thf m.
  Definition c_pars' (m' : model Q) := pars_of thf' m'.
  Definition c_data (m : model Q) := data_of sp obsf auxf m.
  Definition c_data' (m' : model Q) := data_of sp' obsf' auxf' m'.
  Definition impl_chk (m m' : model Q) : bool :=
    agree_b sp (fun n k => theta Q m' (parf Q (c_pars' m')) (ren n) k) (tr (theta Q m (parf Q (c_pars m)))) &&
    obs_agree_b sp (obs_by_name Q sp' (c_data' m')) (obs_by_name Q sp (c_data m)) &&
    agree_b sp (fun n k => aux_of_data Q sp' m' (c_data' m') (ren n) k) (aux_of_data Q sp m (c_data m)) &&
    is_ok (logpdf_terms Q ia im sp ex_st m (c_pars m) (c_data m)) && is_ok (logpdf_terms Q ia im sp' ex_st m' (c_pars' m') (c_data' m')).
  Lemma impl_chk_sound m m' : impl_chk m m' = true ->
    agree_on Q sp (fun n k => theta Q m' (parf Q (c_pars' m')) (ren n) k) (tr (theta Q m (parf Q (c_pars m)))) /\
    obs_agree Q sp (obs_by_name Q sp' (c_data' m')) (obs_by_name Q sp (c_data m)) /\
    agree_on Q sp (fun n k => aux_of_data Q sp' m' (c_data' m') (ren n) k) (aux_of_data Q sp m (c_data m)) /\
    is_ok (logpdf_terms Q ia im sp ex_st m (c_pars m) (c_data m)) = true /\ is_ok (logpdf_terms Q ia im sp' ex_st m' (c_pars' m') (c_data' m')) = true.
  Proof. unfold impl_chk. intros H. apply andb_prop in H. destruct H as [H H5]. apply andb_prop in H. destruct H as [H H4].
    apply andb_prop in H. destruct H as [H H3]. apply andb_prop in H. destruct H as [H1 H2].
    repeat split; auto; [now apply agree_b_sound|now apply obs_agree_b_sound|now apply agree_b_sound]. Qed.
End Chk.
Definition idn (n : string) : string := n.
Definition idt (t : string -> nat -> Qc) : string -> nat -> Qc := t.

(* 3. zero sample *)
Definition ex_sp3 : spec Q := with_channels ex_spec ([] ++ add_sample Q ex_empty ex_SR :: [ex_CR]).
Definition chk3 := impl_chk ex_spec ex_sp3 ex_theta ex_theta ex_obs ex_obs ex_aux ex_aux idn idt.
Lemma chk3_ok : (match build Q ex_spec, build Q ex_sp3 with Ok m, Ok m' => chk3 m m' | _, _ => false end) = true.
Proof. vm_compute. reflexivity. Qed.
Example zero_sample_invariant_impl_nonvacuous :
  is_ok (build Q ex_spec) = true /\ is_ok (build Q ex_sp3) = true /\
  forall md md', build Q ex_spec = Ok md -> build Q ex_sp3 = Ok md' ->
    let pars := pars_of ex_theta md in let pars' := pars_of ex_theta md' in
    let data := data_of ex_spec ex_obs ex_aux md in let data' := data_of ex_sp3 ex_obs ex_aux md' in
    is_ok (logpdf_terms Q ia im ex_spec ex_st md pars data) = true /\ is_ok (logpdf_terms Q ia im ex_sp3 ex_st md' pars' data') = true /\
    expected_actualdata Q ia im ex_sp3 ex_st md' pars' = expected_actualdata Q ia im ex_spec ex_st md pars /\
    forall l l', logpdf_terms Q ia im ex_spec ex_st md pars data = Ok l -> logpdf_terms Q ia im ex_sp3 ex_st md' pars' data' = Ok l' -> Permutation l' l.
Proof.
  split; [vm_compute; reflexivity|]. split; [vm_compute; reflexivity|]. intros md md' E E'. cbv zeta.
  destruct (impl_chk_sound _ _ _ _ _ _ _ _ _ _ md md' (build2 ex_spec ex_sp3 chk3 chk3_ok md md' E E')) as (Ht & Ho & Ha & Hok & Hok').
  split; [exact Hok|]. split; [exact Hok'|].
  destruct (zero_sample_invariant_impl Q Qcrt QcNum_eqb_sound QcNum_div ia im ex_st I ex_spec [] [ex_CR] ex_SR ex_empty md md'
              (pars_of ex_theta md) (pars_of ex_theta md')) as [H1 H2]; auto.
  - intros [|[|[|b]]]; reflexivity.
  - apply ex_shape_ok. reflexivity.
  - apply ex_shape_ok. reflexivity.
  - split; [exact H1|]. intros l l' Hl Hl'. apply (H2 (data_of ex_spec ex_obs ex_aux md) (data_of ex_sp3 ex_obs ex_aux md') l l'); auto; try (apply ex_list_shape_ok; reflexivity). split; [exact Ho|exact Ha].
Qed.

(* 4. a null histosys with a NEW name: the rewritten model has one more parameter and one more constraint term *)
Definition ex_newh : modifier Q := mk_mod "newh" Histosys (dhisto [q 50; q 60] [q 50; q 60]).
Definition ex_sp4 : spec Q := with_channels ex_spec ([] ++ with_samples ex_SR ([ex_signal] ++ add_mod Q ex_newh ex_bkg :: []) :: [ex_CR]).
Definition chk4 := impl_chk ex_spec ex_sp4 ex_theta ex_theta ex_obs ex_obs ex_aux ex_aux idn idt.
Lemma chk4_ok : (match build Q ex_spec, build Q ex_sp4 with Ok m, Ok m' => chk4 m m' && Nat.eqb (md_npars Q m') (S (md_npars Q m)) | _, _ => false end) = true.
Proof. vm_compute. reflexivity. Qed.
Example null_systematic_invariant_impl_nonvacuous :
  is_ok (build Q ex_spec) = true /\ is_ok (build Q ex_sp4) = true /\
  forall md md', build Q ex_spec = Ok md -> build Q ex_sp4 = Ok md' ->
    let pars := pars_of ex_theta md in let pars' := pars_of ex_theta md' in
    let data := data_of ex_spec ex_obs ex_aux md in let data' := data_of ex_sp4 ex_obs ex_aux md' in
    md_npars Q md' = S (md_npars Q md) /\
    is_ok (logpdf_terms Q ia im ex_spec ex_st md pars data) = true /\ is_ok (logpdf_terms Q ia im ex_sp4 ex_st md' pars' data') = true /\
    expected_actualdata Q ia im ex_sp4 ex_st md' pars' = expected_actualdata Q ia im ex_spec ex_st md pars /\
    forall l l', logpdf_terms Q ia im ex_spec ex_st md pars data = Ok l -> logpdf_terms Q ia im ex_sp4 ex_st md' pars' data' = Ok l' ->
      Permutation l' (TNorm (aux_of_data Q ex_sp4 md' data' "newh" O) (theta Q md' (parf Q pars') "newh" O) 1%Qc :: l).
Proof.
  split; [vm_compute; reflexivity|]. split; [vm_compute; reflexivity|]. intros md md' E E'. cbv zeta.
  assert (HC := build2 ex_spec ex_sp4 (fun m m' => chk4 m m' && Nat.eqb (md_npars Q m') (S (md_npars Q m))) chk4_ok md md' E E').
  apply andb_prop in HC. destruct HC as [HC Hn]. apply Nat.eqb_eq in Hn.
  destruct (impl_chk_sound _ _ _ _ _ _ _ _ _ _ md md' HC) as (Ht & Ho & Ha & Hok & Hok').
  split; [exact Hn|]. split; [exact Hok|]. split; [exact Hok'|].
  destruct (null_systematic_invariant_impl Q Qcrt QcNum_eqb_sound QcNum_div ia im ex_st I ex_spec [] [ex_CR] ex_SR [ex_signal] [] ex_bkg ex_newh md md'
              (pars_of ex_theta md) (pars_of ex_theta md')) as [H1 H2]; auto.
  - apply (ex_null_histo "newh").
  - apply ex_shape_ok. reflexivity.
  - apply ex_shape_ok. reflexivity.
  - split; [exact H1|]. intros l l' Hl Hl'.
    destruct (H2 (data_of ex_spec ex_obs ex_aux md) (data_of ex_sp4 ex_obs ex_aux md') l l') as [_ H3]; auto; try (apply ex_list_shape_ok; reflexivity); [split; [exact Ho|exact Ha]|].
    apply H3. vm_compute. intuition discriminate.
Qed.

(* 6. merge of two backgrounds sharing a staterror *)
Definition chk7 := impl_chk ex_spec7 ex_spec7m ex_theta ex_theta ex_obs ex_obs ex_aux ex_aux idn idt.
Lemma chk7_ok : (match build Q ex_spec7, build Q ex_spec7m with Ok m, Ok m' => chk7 m m' | _, _ => false end) = true.
Proof. vm_compute. reflexivity. Qed.
Example merge_samples_invariant_impl_nonvacuous :
  is_ok (build Q ex_spec7) = true /\ is_ok (build Q ex_spec7m) = true /\
  forall md md', build Q ex_spec7 = Ok md -> build Q ex_spec7m = Ok md' ->
    let pars := pars_of ex_theta md in let pars' := pars_of ex_theta md' in
    let data := data_of ex_spec7 ex_obs ex_aux md in let data' := data_of ex_spec7m ex_obs ex_aux md' in
    is_ok (logpdf_terms Q ia im ex_spec7 ex_st md pars data) = true /\ is_ok (logpdf_terms Q ia im ex_spec7m ex_st md' pars' data') = true /\
    expected_actualdata Q ia im ex_spec7m ex_st md' pars' = expected_actualdata Q ia im ex_spec7 ex_st md pars /\
    forall l l', logpdf_terms Q ia im ex_spec7 ex_st md pars data = Ok l -> logpdf_terms Q ia im ex_spec7m ex_st md' pars' data' = Ok l' -> Permutation l' l.
Proof.
  split; [vm_compute; reflexivity|]. split; [vm_compute; reflexivity|]. intros md md' E E'. cbv zeta.
  destruct (impl_chk_sound _ _ _ _ _ _ _ _ _ _ md md' (build2 ex_spec7 ex_spec7m chk7 chk7_ok md md' E E')) as (Ht & Ho & Ha & Hok & Hok').
  split; [exact Hok|]. split; [exact Hok'|].
  destruct (merge_samples_invariant_impl Q Qcrt QcNum_eqb_sound QcNum_div ia im ex_st I ex_spec7 [] [ex_CR] ex_SR7 [ex_signal] [] ex_m1 ex_m2 ex_m12 md md'
              (pars_of ex_theta md) (pars_of ex_theta md') eq_refl eq_refl eq_refl ex7_sim2 ex7_simm eq_refl ex7_no ex7_quad E E') as [H1 H2]; auto.
  - apply ex_shape_ok. reflexivity.
  - apply ex_shape_ok. reflexivity.
  - split; [exact H1|]. intros l l' Hl Hl'. apply (H2 (data_of ex_spec7 ex_obs ex_aux md) (data_of ex_spec7m ex_obs ex_aux md') l l'); auto; try (apply ex_list_shape_ok; reflexivity). split; [exact Ho|exact Ha].
Qed.

(* 7. signal yields doubled, signal strength halved *)
Definition ex_sp8 : spec Q := rescale_signal Q "mu" (q 2) ex_spec.
Definition chk8 := impl_chk ex_spec ex_sp8 ex_theta (rescale_theta Q "mu" (q 2) ex_theta) ex_obs ex_obs ex_aux ex_aux idn (rescale_theta Q "mu" (q 2)).
Lemma chk8_ok : (match build Q ex_spec, build Q ex_sp8 with Ok m, Ok m' => chk8 m m' | _, _ => false end) = true.
Proof. vm_compute. reflexivity. Qed.
Example signal_rescale_covariant_impl_nonvacuous :
  is_ok (build Q ex_spec) = true /\ is_ok (build Q ex_sp8) = true /\
  forall md md', build Q ex_spec = Ok md -> build Q ex_sp8 = Ok md' ->
    let pars := pars_of ex_theta md in let pars' := pars_of (rescale_theta Q "mu" (q 2) ex_theta) md' in
    let data := data_of ex_spec ex_obs ex_aux md in let data' := data_of ex_sp8 ex_obs ex_aux md' in
    pars' <> pars /\
    is_ok (logpdf_terms Q ia im ex_spec ex_st md pars data) = true /\ is_ok (logpdf_terms Q ia im ex_sp8 ex_st md' pars' data') = true /\
    expected_actualdata Q ia im ex_sp8 ex_st md' pars' = expected_actualdata Q ia im ex_spec ex_st md pars /\
    forall l l', logpdf_terms Q ia im ex_spec ex_st md pars data = Ok l -> logpdf_terms Q ia im ex_sp8 ex_st md' pars' data' = Ok l' -> Permutation l' l.
Proof.
  split; [vm_compute; reflexivity|]. split; [vm_compute; reflexivity|]. intros md md' E E'. cbv zeta.
  destruct (impl_chk_sound _ _ _ _ _ _ _ _ _ _ md md' (build2 ex_spec ex_sp8 chk8 chk8_ok md md' E E')) as (Ht & Ho & Ha & Hok & Hok').
  split.
  { assert (HD := build2 ex_spec ex_sp8 (fun m m' => negb (forallb (fun ab => Qc_eq_bool (fst ab) (snd ab))
                     (combine (pars_of (rescale_theta Q "mu" (q 2) ex_theta) m') (pars_of ex_theta m)))) ltac:(vm_compute; reflexivity) md md' E E').
    cbv beta in HD. intros Eq. rewrite Eq in HD. apply negb_true_iff in HD. assert (HT : forallb (fun ab : Qc * Qc => Qc_eq_bool (fst ab) (snd ab)) (combine (pars_of ex_theta md) (pars_of ex_theta md)) = true).
    { generalize (pars_of ex_theta md). induction l as [|a l IH]; simpl; auto. rewrite IH, andb_true_r. unfold Qc_eq_bool. destruct (Qc_eq_dec a a); auto. }
    congruence. }
  split; [exact Hok|]. split; [exact Hok'|].
  destruct (signal_rescale_covariant_impl Q Qcft QcNum_eqb_sound ia im ex_st I "mu" (q 2)) with (sp := ex_spec) (md := md) (md' := md')
              (pars := pars_of ex_theta md) (pars' := pars_of (rescale_theta Q "mu" (q 2) ex_theta) md') as [H1 H2]; auto.
  - intros Eq. vm_compute in Eq. discriminate.
  - intros c s m Hc Hs Hm Eq. in_cases Hc; in_cases Hs; in_cases Hm; try reflexivity; vm_compute in Eq; discriminate.
  - intros c s m Hc Hs Hh Hm. in_cases Hc; in_cases Hs; try (vm_compute in Hh; discriminate); in_cases Hm; repeat split; discriminate.
  - apply ex_shape_ok. reflexivity.
  - apply ex_shape_ok. reflexivity.
  - split; [exact H1|]. intros l l' Hl Hl'. apply (H2 (data_of ex_spec ex_obs ex_aux md) (data_of ex_sp8 ex_obs ex_aux md') l l'); auto; apply ex_list_shape_ok; reflexivity.
Qed.

(* 2a. parameters renamed by prefixing "p_" *)
Definition ex_sp2 : spec Q := rename_parameters Q ex_f ex_spec.
Definition chk2 := impl_chk ex_spec ex_sp2 ex_theta (ex_unprefix ex_theta) ex_obs ex_obs ex_aux (ex_unprefix ex_aux) ex_f idt.
Lemma chk2_ok : (match build Q ex_spec, build Q ex_sp2 with Ok m, Ok m' => chk2 m m' | _, _ => false end) = true.
Proof. vm_compute. reflexivity. Qed.
Example rename_parameters_invariant_impl_nonvacuous :
  is_ok (build Q ex_spec) = true /\ is_ok (build Q ex_sp2) = true /\
  forall md md', build Q ex_spec = Ok md -> build Q ex_sp2 = Ok md' ->
    let pars := pars_of ex_theta md in let pars' := pars_of (ex_unprefix ex_theta) md' in
    let data := data_of ex_spec ex_obs ex_aux md in let data' := data_of ex_sp2 ex_obs (ex_unprefix ex_aux) md' in
    is_ok (logpdf_terms Q ia im ex_spec ex_st md pars data) = true /\ is_ok (logpdf_terms Q ia im ex_sp2 ex_st md' pars' data') = true /\
    expected_actualdata Q ia im ex_sp2 ex_st md' pars' = expected_actualdata Q ia im ex_spec ex_st md pars /\
    forall l l', logpdf_terms Q ia im ex_spec ex_st md pars data = Ok l -> logpdf_terms Q ia im ex_sp2 ex_st md' pars' data' = Ok l' -> Permutation l' l.
Proof.
  split; [vm_compute; reflexivity|]. split; [vm_compute; reflexivity|]. intros md md' E E'. cbv zeta.
  destruct (impl_chk_sound _ _ _ _ _ _ _ _ _ _ md md' (build2 ex_spec ex_sp2 chk2 chk2_ok md md' E E')) as (Ht & Ho & Ha & Hok & Hok').
  split; [exact Hok|]. split; [exact Hok'|].
  destruct (rename_parameters_invariant_impl Q Qcrt QcNum_eqb_sound QcNum_div ia im ex_st I ex_f ex_spec md md'
              (pars_of ex_theta md) (pars_of (ex_unprefix ex_theta) md')) as [H1 H2]; auto.
  - intros a b Eq. unfold ex_f in Eq. now inversion Eq.
  - apply ex_shape_ok. reflexivity.
  - apply ex_shape_ok. reflexivity.
  - split; [exact H1|]. intros l l' Hl Hl'. apply (H2 (data_of ex_spec ex_obs ex_aux md) (data_of ex_sp2 ex_obs (ex_unprefix ex_aux) md') l l'); auto; apply ex_list_shape_ok; reflexivity.
Qed.
