(* C18 - tie to the source: the definitions translated on every run from pyhf/writexml.py, pyhf/readxml.py and pyhf/compat.py
   (coq/gen/XmlGen.v, written by harness/props/c18_tie.py) coincide with the hand model of Xml.v / XmlCache.v - as functions on the
   workspace / XML ASTs, for every number record N.  The proofs succeed only while the translated text means what the model says. *)
From Coq Require Import Bool Arith Lia String Ascii ZArith List.
Require Import PV.Num PV.Sort PV.Json PV.Xml PV.XmlCache PV.XmlThms PV.XmlInst PV.gen.XmlGen.
Import ListNotations.
Local Open Scope string_scope.
Local Open Scope nat_scope.
Local Open Scope list_scope.

(* ---------- readings of python constructs ---------- *)
Lemma foldM_ext {X S} (f g : S -> X -> res S) l : (forall s x, f s x = g s x) -> forall s, foldM f l s = foldM g l s.
Proof. intros E. induction l as [|x t IH]; intros s; simpl; [reflexivity|]. rewrite E. destruct (g s x); [apply IH|reflexivity]. Qed.

(* a fold whose accumulator is a result (the hand model) against a loop that stops at the first error (the translation) *)
Lemma fold_left_res_foldM {X S} (f : S -> X -> res S) l : forall acc,
  fold_left (fun a x => bind a (fun s => f s x)) l acc = match acc with inl s => foldM f l s | inr e => inr e end.
Proof. induction l as [|x t IH]; intros acc; simpl; [now destruct acc|]. rewrite IH. destruct acc as [s|e]; simpl; [|reflexivity].
  destruct (f s x); reflexivity. Qed.

Lemma zipw_ext {A B C} (f g : A -> B -> C) : (forall a b, f a b = g a b) -> forall l l', zipw f l l' = zipw g l l'.
Proof. intros E. induction l as [|a t IH]; intros [|b t']; simpl; try reflexivity. now rewrite E, IH. Qed.
Lemma map_combine_zipw {A B C} (f : A -> B -> C) : forall l l', map (fun p => f (fst p) (snd p)) (combine l l') = zipw f l l'.
Proof. induction l as [|a t IH]; intros [|b t']; simpl; try reflexivity. now rewrite IH. Qed.

Section Tie.
Variable N : Num.

(* ---------- _make_hist_name ---------- *)
Theorem tie_make_hist_name c s m sfx : gen_make_hist_name c s m "hist" sfx = hist_name [c; s; m] sfx.
Proof. reflexivity. Qed.
Lemma hist_name_default c s sfx : hist_name [c; s; ""] sfx = hist_name [c; s] sfx.
Proof. unfold hist_name. simpl. destruct (nonempty c), (nonempty s); reflexivity. Qed.

(* ---------- _export_root_histogram ---------- *)
Theorem tie_export_root_histogram f k d : gen_export_root_histogram N f k d = export_one N (inl f) (k, d).
Proof. unfold gen_export_root_histogram, export_one, rf_set, bind, ret. simpl. destruct (hmem N k f); reflexivity. Qed.

(* ---------- build_modifier ---------- *)
Lemma safe_div_where (a b : V N) : (if negb (neqb N b (n0 N)) then ndiv N a b else n0 N) = safe_div N a b.
Proof. unfold safe_div. destruct (neqb N b (n0 N)); reflexivity. Qed.

Definition nf_body (name : string) (a : V N * V N * V N) (p : param N) : res (V N * V N * V N) :=
  let '(val, low, high) := a in
  if String.eqb (p_name N p) name then
    bind (hd_err (match p_inits N p with Some l => l | None => [val] end)) (fun v =>
    bind (hd_err (match p_bounds N p with Some l => l | None => [(low, high)] end)) (fun b => ret (v, fst b, snd b)))
  else ret a.

Theorem tie_build_modifier ws m c s d : gen_build_modifier N ws m c s d = build_modifier N ws c s d m.
Proof. unfold gen_build_modifier, build_modifier. destruct (String.eqb (m_name N m) "lumi"); [reflexivity|].
  destruct (m_data N m) as [lo hi|lo hi| |dd|dd| |]; try reflexivity.
  - (* normfactor: Val / Low / High from the first measurement *)
    unfold nf_settings. destruct (w_meas N ws) as [|m0 ms]; [reflexivity|].
    change (fold_left (nf_step N (m_name N m)) (me_params N m0) (ret (n1 N, n0 N, nofZ N 10)))
      with (fold_left (fun a x => bind a (fun s0 => nf_body (m_name N m) s0 x)) (me_params N m0) (inl (n1 N, n0 N, nofZ N 10))).
    rewrite fold_left_res_foldM.
    match goal with |- match foldM ?F _ _ with _ => _ end = _ => rewrite (foldM_ext F (nf_body (m_name N m))) end.
    + unfold bind. destruct (foldM _ _ _) as [[[v l] h]|e]; reflexivity.
    + intros [[v l] h] p. unfold nf_body, hd_err, bind, ret. cbn [fst snd]. destruct (String.eqb (p_name N p) (m_name N m)); [|reflexivity].
      destruct (match p_inits N p with Some y => y | None => [v] end); [reflexivity|].
      destruct (match p_bounds N p with Some y => y | None => [(l, h)] end); reflexivity.
  - (* shapesys: absolute -> relative, pairwise *)
    destruct (Nat.eqb (length dd) (length d)); [|reflexivity]. unfold ret. do 4 f_equal.
    rewrite (map_combine_zipw (fun a b => if negb (neqb N b (n0 N)) then ndiv N a b else n0 N)). apply zipw_ext. intros; apply safe_div_where.
  - (* staterror *)
    destruct (Nat.eqb (length dd) (length d)); [|reflexivity]. unfold ret. do 4 f_equal. apply zipw_ext. intros; apply safe_div_where.
Qed.

(* ---------- build_sample ---------- *)
Lemma mtype_lumi (m : modifier N) : String.eqb (mtype_of N m) "lumi" = is_lumi_type N m.
Proof. unfold mtype_of, is_lumi_type. destruct (m_data N m); reflexivity. Qed.

Definition sample_step ws c sn sd (st : xsample N * rootfile N) (m : modifier N) : res (xsample N * rootfile N) :=
  match build_modifier N ws c sn sd m with
  | inr e => inr e
  | inl r => inl (mkXs N (xs_name N (fst st)) (xs_hist N (fst st)) (xs_nbt N (fst st) || is_lumi_type N m) (xs_mods N (fst st) ++ ocons (fst r) []),
                  snd st ++ snd r)
  end.
Lemma sample_loop ws c sn sd : forall ms st,
  foldM (sample_step ws c sn sd) ms st =
  match build_mods N ws c sn sd ms with
  | inr e => inr e
  | inl a => inl (mkXs N (xs_name N (fst st)) (xs_hist N (fst st)) (xs_nbt N (fst st) || existsb (is_lumi_type N) ms) (xs_mods N (fst st) ++ fst a),
                  snd st ++ snd a)
  end.
Proof. induction ms as [|m t IH]; intros [xs lg]; simpl.
  - rewrite orb_false_r, !app_nil_r. now destruct xs.
  - unfold sample_step at 1. unfold bind. destruct (build_modifier N ws c sn sd m) as [[o l1]|e]; [|reflexivity].
    rewrite IH. cbn [fst snd xs_name xs_hist xs_nbt xs_mods]. destruct (build_mods N ws c sn sd t) as [[xm l2]|e]; [|reflexivity].
    cbn [fst snd ret]. rewrite orb_assoc, <- !app_assoc. destruct o; reflexivity. Qed.

Theorem tie_build_sample ws s c : gen_build_sample N ws s c = build_sample N ws c s.
Proof. unfold gen_build_sample, build_sample.
  match goal with |- match foldM ?F _ _ with _ => _ end = _ => rewrite (foldM_ext F (sample_step ws c (s_name N s) (s_data N s))) end.
  - rewrite sample_loop. unfold bind, ret. destruct (build_mods N ws c (s_name N s) (s_data N s) (s_mods N s)) as [[a l]|e]; [|reflexivity].
    cbn [fst snd xs_name xs_hist xs_nbt xs_mods]. rewrite !tie_make_hist_name, !hist_name_default. reflexivity.
  - intros [xs lg] m. rewrite tie_build_modifier. unfold sample_step. destruct (build_modifier N ws c (s_name N s) (s_data N s) m) as [[o l]|e]; [|reflexivity].
    cbn [fst snd]. rewrite mtype_lumi. destruct o; destruct (is_lumi_type N m); cbn [ocons fst snd xs_name xs_hist xs_nbt xs_mods];
      rewrite ?orb_true_r, ?orb_false_r, ?app_nil_r; destruct xs; reflexivity. Qed.

(* ---------- build_data (with the `if obsspec:` of build_channel, as the hand model has it) ---------- *)
Lemma find_first_find {X} (p : X -> bool) l : find_first p l = find p l.
Proof. induction l as [|a t IH]; simpl; [reflexivity|]. now rewrite IH. Qed.

Theorem tie_build_data ws c :
  (if lnonempty (w_obs N ws) then match gen_build_data N (w_obs N ws) c with inl r => inl (Some (fst r), snd r) | inr e => inr e end
   else inl (None, [])) = build_data N ws c.
Proof. unfold build_data, gen_build_data, find_obs. rewrite find_first_find. destruct (w_obs N ws) as [|o t]; [reflexivity|].
  cbn [lnonempty]. destruct (find _ (o :: t)) as [ob|]; [|reflexivity].
  cbn [fst snd ret]. rewrite !tie_make_hist_name, !hist_name_default. reflexivity. Qed.

(* ---------- build_channel ---------- *)
Definition channel_step ws c (st : xchannel N * rootfile N) (x : sample N) : res (xchannel N * rootfile N) :=
  match build_sample N ws c x with
  | inr e => inr e
  | inl r => inl (mkXc N (xc_name N (fst st)) (xc_data N (fst st)) (xc_samples N (fst st) ++ [fst r]), snd st ++ snd r)
  end.
Lemma channel_loop ws c : forall ss st,
  foldM (channel_step ws c) ss st =
  match build_samples N ws c ss with
  | inr e => inr e
  | inl a => inl (mkXc N (xc_name N (fst st)) (xc_data N (fst st)) (xc_samples N (fst st) ++ fst a), snd st ++ snd a)
  end.
Proof. induction ss as [|x t IH]; intros [xc lg]; simpl.
  - rewrite !app_nil_r. now destruct xc.
  - unfold channel_step at 1. unfold bind. destruct (build_sample N ws c x) as [[xs l1]|e]; [|reflexivity].
    rewrite IH. cbn [fst snd xc_name xc_data xc_samples]. destruct (build_samples N ws c t) as [[xm l2]|e]; [|reflexivity].
    cbn [fst snd ret]. now rewrite <- !app_assoc. Qed.

Theorem tie_build_channel ws ch : gen_build_channel N ws ch (w_obs N ws) = build_channel N ws ch.
Proof. unfold build_channel. rewrite <- tie_build_data. unfold gen_build_channel. destruct (lnonempty (w_obs N ws)).
  - destruct (gen_build_data N (w_obs N ws) (c_name N ch)) as [[h lg]|e]; [|reflexivity]. cbn [bind fst snd].
    match goal with |- match foldM ?F _ _ with _ => _ end = _ => rewrite (foldM_ext F (channel_step ws (c_name N ch))) end.
    + rewrite channel_loop. destruct (build_samples N ws (c_name N ch) (c_samples N ch)) as [[a l]|e]; reflexivity.
    + intros [xc l0] x. rewrite tie_build_sample. reflexivity.
  - cbn [bind fst snd].
    match goal with |- match foldM ?F _ _ with _ => _ end = _ => rewrite (foldM_ext F (channel_step ws (c_name N ch))) end.
    + rewrite channel_loop. destruct (build_samples N ws (c_name N ch) (c_samples N ch)) as [[a l]|e]; reflexivity.
    + intros [xc l0] x. rewrite tie_build_sample. reflexivity. Qed.

(* ---------- build_measurement ---------- *)
Definition bm_body (mt : list (string * string)) (a : list string * V N * V N) (p : param N) : res (list string * V N * V N) :=
  let '(fixed, lumi, lumierr) := a in
  bind (if is_fixed N p then bind (rootname mt (p_name N p)) (fun rn => ret (fixed ++ [rn])) else ret fixed) (fun fixed' =>
  if String.eqb (p_name N p) "lumi" then
    match p_auxdata N p, p_sigmas N p with
    | Some (l :: _), Some (s :: _) => if neqb N l (n0 N) then inr EZeroDiv else ret (fixed', l, ndiv N s l)
    | _, _ => inr ELumiCfg
    end
  else ret (fixed', lumi, lumierr)).

Theorem tie_build_measurement m mt : gen_build_measurement N m mt = build_measurement N mt m.
Proof. unfold gen_build_measurement, build_measurement, build_measurement_gen.
  change (fold_left (bm_step N true mt) (me_params N m) (ret ([], n1 N, n0 N)))
    with (fold_left (fun a x => bind a (fun s0 => bm_body mt s0 x)) (me_params N m) (inl ([], n1 N, n0 N))).
  rewrite fold_left_res_foldM.
  match goal with |- match foldM ?F _ _ with _ => _ end = _ => rewrite (foldM_ext F (bm_body mt)) end.
  - unfold bind. destruct (foldM _ _ _) as [[[fx lu] le]|e]; [|reflexivity]. cbn [fst snd ret]. now destruct fx.
  - intros [[fx lu] le] p. unfold bm_body, is_fixed, rootname, prefix_of, bind, ret. cbn [fst snd].
    destruct (p_fixed N p) as [[|]|]; destruct (String.eqb (p_name N p) "lumi"); try destruct (dict_get (p_name N p) mt);
      try reflexivity;
      destruct (p_auxdata N p) as [[|a ?]|]; try reflexivity; destruct (p_sigmas N p) as [[|sg ?]|]; try reflexivity;
      destruct (neqb N a (n0 N)); reflexivity. Qed.

(* ---------- import_root_histogram: which key is looked up ---------- *)
(* the reader also tries "/" ++ name (an empty HistoPath joined with the name); the model looks the name up only: they agree on files
   none of whose keys starts with "/" - every file the writer produces (keys start with "hist") *)
Definition keys_ok (f : rootfile N) : Prop := forall n, assoc (String "/" n) f = None.
Definition keys_okb (f : rootfile N) : bool := forallb (fun kv => match fst kv with String "/" _ => false | _ => true end) f.
Lemma keys_okb_sound f : keys_okb f = true -> keys_ok f.
Proof. unfold keys_okb, keys_ok. induction f as [|[k v] t IH]; intros H n; [reflexivity|].
  cbn [forallb fst] in H. apply andb_true_iff in H. destruct H as [H1 H2]. cbn [assoc].
  destruct (String.eqb_spec (String "/" n) k) as [E|E]; [subst k; simpl in H1; discriminate|now apply IH]. Qed.
Lemma mem_assoc {A} k (f : list (string * A)) : mem_str k (map fst f) = match assoc k f with Some _ => true | None => false end.
Proof. unfold mem_str. induction f as [|[k' v] t IH]; simpl; [reflexivity|]. destruct (String.eqb k k'); [reflexivity|exact IH]. Qed.

Theorem tie_root_lookup f name : keys_ok f -> gen_root_lookup N f name = lookup_hist N f name.
Proof. intros K. unfold gen_root_lookup, lookup_hist. rewrite !mem_assoc. destruct (assoc name f); [reflexivity|].
  change (join "/" [""; name]) with (String "/" name). now rewrite K. Qed.

(* ---------- import_root_histogram: the cache (readxml.__FILECACHE__) against PV.XmlCache.open_file ---------- *)
Theorem tie_import_root_histogram (X : Type) (st : state X (rootfile N)) dir name :
  gen_import_root_histogram N X st dir name =
  match open_file X (rootfile N) st dir with
  | None => inr ENoFile
  | Some (c, cache') => match gen_root_lookup N c name with inl v => inl (v, cache') | inr e => inr e end
  end.
Proof. unfold gen_import_root_histogram, open_file, reopen, sig_of, gen_root_lookup.
  destruct (assoc dir (st_fs X (rootfile N) st)) as [fe|]; destruct (assoc dir (st_cache X (rootfile N) st)) as [[c sg|c]|];
    cbn [option_map centry_len centry_sig centry_file Nat.ltb Nat.leb andb negb];
    try (destruct sg as [sg|]; cbn [osig_eqb negb]; try destruct (Nat.eqb sg (f_sig X (rootfile N) fe)); cbn [negb]);
    repeat match goal with |- context [if ?c then _ else _] => destruct c end;
    repeat match goal with |- context [match assoc ?k ?f with _ => _ end] => destruct (assoc k f) end; reflexivity. Qed.

(* ---------- process_sample ---------- *)
Definition mod_step file cname data (st : list (modifier N) * list (param N)) (x : xmod N) : res (list (modifier N) * list (param N)) :=
  match process_mod N file cname data x with
  | inr e => inr e
  | inl a => inl (fst st ++ [fst a], snd st ++ snd a)
  end.
Lemma mod_loop file cname data : forall xs st,
  foldM (mod_step file cname data) xs st =
  match process_mods N file cname data xs with
  | inr e => inr e
  | inl r => inl (fst st ++ fst r, snd st ++ snd r)
  end.
Proof. induction xs as [|x t IH]; intros [ms ps]; simpl.
  - now rewrite !app_nil_r.
  - unfold mod_step at 1. unfold bind. destruct (process_mod N file cname data x) as [[m l1]|e]; [|reflexivity].
    rewrite IH. cbn [fst snd]. destruct (process_mods N file cname data t) as [[ms2 l2]|e]; [|reflexivity].
    cbn [fst snd ret]. now rewrite <- !app_assoc. Qed.

Theorem tie_process_sample file cname xs : keys_ok file -> gen_process_sample N file cname xs = process_sample N file cname xs.
Proof. intros K. unfold gen_process_sample, process_sample. rewrite (tie_root_lookup _ _ K). unfold bind at 1.
  destruct (lookup_hist N file (xs_hist N xs)) as [data|e]; [|reflexivity].
  match goal with |- match foldM ?F _ _ with _ => _ end = _ => rewrite (foldM_ext F (mod_step file cname data)) end.
  - rewrite mod_loop. unfold bind, ret. destruct (process_mods N file cname data (xs_mods N xs)) as [[ms ps]|e]; [|reflexivity].
    cbn [fst snd app]. reflexivity.
  - intros [ms ps] x. unfold mod_step, process_mod. cbn [fst snd]. destruct x as [nm hi lo|nm v lo hi|nm hl hh|hn|nm hn|nm];
      rewrite ?(tie_root_lookup _ _ K); unfold bind, ret; cbn [fst snd]; rewrite ?app_nil_r; try reflexivity.
    + destruct (lookup_hist N file hl); [|reflexivity]. destruct (lookup_hist N file hh); [|reflexivity]. cbn [fst snd]. now rewrite app_nil_r.
    + destruct (lookup_hist N file hn) as [ext|]; [|reflexivity]. unfold stat_abs.
      change (zipw (fun x_a x_b : V N => nmul N x_a x_b) ext data) with (zipw (nmul N) ext data).
      destruct (zipw (nmul N) ext data); cbn [lnonempty negb fst snd]; [reflexivity|]. now rewrite app_nil_r.
    + destruct (lookup_hist N file hn) as [rel|]; [|reflexivity]. cbn [fst snd]. rewrite app_nil_r. unfold shape_abs.
      now rewrite (map_combine_zipw (fun a b => nmul N a b)). Qed.

(* ---------- process_data / process_channel ---------- *)
Theorem tie_process_data file h : keys_ok file -> gen_process_data N file h = lookup_hist N file h.
Proof. intros K. unfold gen_process_data. rewrite (tie_root_lookup _ _ K). now destruct (lookup_hist N file h). Qed.

Definition samples_step file cname (st : list (param N) * list (sample N)) (x : xsample N) : res (list (param N) * list (sample N)) :=
  match process_sample N file cname x with
  | inr e => inr e
  | inl r => inl (fst st ++ snd r, snd st ++ [fst r])
  end.
Lemma samples_loop file cname : forall xs st,
  foldM (samples_step file cname) xs st =
  match process_samples N file cname xs with
  | inr e => inr e
  | inl r => inl (fst st ++ snd r, snd st ++ fst r)
  end.
Proof. induction xs as [|x t IH]; intros [ps ss]; simpl.
  - now rewrite !app_nil_r.
  - unfold samples_step at 1. unfold bind. destruct (process_sample N file cname x) as [[sa l1]|e]; [|reflexivity].
    rewrite IH. cbn [fst snd]. destruct (process_samples N file cname t) as [[ss2 l2]|e]; [|reflexivity].
    cbn [fst snd ret]. now rewrite <- !app_assoc. Qed.

Theorem tie_process_channel file xc : keys_ok file -> gen_process_channel N file xc = process_channel N file xc.
Proof. intros K. unfold gen_process_channel, process_channel. destruct (xc_data N xc) as [h|]; [|reflexivity].
  cbn [olist lnonempty]. rewrite (tie_process_data _ _ K). unfold bind at 1. destruct (lookup_hist N file h) as [d|e]; [|reflexivity].
  match goal with |- match foldM ?F _ _ with _ => _ end = _ => rewrite (foldM_ext F (samples_step file (xc_name N xc))) end.
  - rewrite samples_loop. unfold bind, ret. destruct (process_samples N file (xc_name N xc) (xc_samples N xc)) as [[ss ps]|e]; reflexivity.
  - intros [ps ss] x. rewrite (tie_process_sample _ _ _ K). unfold samples_step. now destruct (process_sample N file (xc_name N xc) x) as [[sa l]|e]. Qed.

End Tie.

(* ---------- compat.interpret_rootname ---------- *)
Lemma strip_first c p s r : strip_prefix (String c p) s = Some r -> exists s', s = String c s'.
Proof. destruct s as [|d s']; simpl; [discriminate|]. destruct (Ascii.eqb_spec c d); [subst; eauto|discriminate]. Qed.
Lemma gamma_not_alpha s r : strip_prefix "gamma_" s = Some r -> strip_prefix "alpha_" s = None.
Proof. intros H. apply strip_first in H. destruct H as [s' ->]. reflexivity. Qed.
Lemma alpha_not_lumi s r : strip_prefix "alpha_" s = Some r -> String.eqb s "Lumi" = false.
Proof. intros H. apply strip_first in H. destruct H as [s' ->]. reflexivity. Qed.
Lemma gamma_not_lumi s r : strip_prefix "gamma_" s = Some r -> String.eqb s "Lumi" = false.
Proof. intros H. apply strip_first in H. destruct H as [s' ->]. reflexivity. Qed.

(* the hand model `interp` is interpret_rootname as process_measurements uses it: the name of a scalar parameter, ValueError otherwise
   (`if not param_interpretation['is_scalar']: raise ValueError`; for a gamma_ name the hand model says ENonScalar whichever of the two
   ValueErrors python raises, whatever the regular expression for gamma_ names yields) *)
Theorem tie_interpret_rootname rxg s :
  interp s = match gen_interpret_rootname rxg s with
             | inl i => if tri_truth (i_is_scalar i) then inl (i_name i) else inr ENonScalar
             | inr e => inr (if starts_with "gamma_" s then ENonScalar else e)
             end.
Proof. unfold interp, gen_interpret_rootname, starts_with, rx_alpha.
  destruct (strip_prefix "gamma_" s) as [r|] eqn:G.
  - rewrite (gamma_not_alpha s r G), (gamma_not_lumi s r G). destruct (rxg s); reflexivity.
  - destruct (strip_prefix "alpha_" s) as [r|] eqn:A.
    + rewrite (alpha_not_lumi s r A). destruct (nonempty r); reflexivity.
    + cbn [orb negb]. destruct (String.eqb s "Lumi"); reflexivity. Qed.

Lemma interpret_rootname_error rxg s e : gen_interpret_rootname rxg s = inr e -> e = EConfusing.
Proof. unfold gen_interpret_rootname.
  repeat match goal with |- context [if ?c then _ else _] => destruct c | |- context [match ?x with Some _ => _ | None => _ end] => destruct x end;
    intros H; inversion H; reflexivity. Qed.

(* ---------- process_measurements ---------- *)
(* both ENonScalar and EConfusing are python's ValueError: the hand model says ENonScalar for every gamma_ name, python raises ValueError at
   one of two places (see tie_interpret_rootname); the tie is stated up to that identification *)
Definition verr (e : err) : err := match e with ENonScalar => EConfusing | e => e end.
Definition map_err {A} (f : err -> err) (r : res A) : res A := match r with inl a => inl a | inr e => inr (f e) end.

Section Meas.
Variable N : Num.
Variable rxg : string -> option (string * nat).
Notation names m := (map (p_name N) m).

Lemma dict_set_names m p : names (dict_set N m p) = if mem_str (p_name N p) (names m) then names m else names m ++ [p_name N p].
Proof. unfold mem_str. induction m as [|q r IH]; simpl; [reflexivity|].
  destruct (String.eqb_spec (p_name N q) (p_name N p)) as [E|E]; simpl.
  - rewrite E, String.eqb_refl. reflexivity.
  - rewrite IH. destruct (String.eqb_spec (p_name N p) (p_name N q)); [congruence|]. simpl.
    destruct (existsb (String.eqb (p_name N p)) (names r)); reflexivity. Qed.
Lemma mem_str_In s l : mem_str s l = true <-> In s l.
Proof. unfold mem_str. rewrite existsb_exists. split.
  - intros [x [H1 H2]]. apply String.eqb_eq in H2. now subst.
  - intros H. exists s. split; [assumption|apply String.eqb_refl]. Qed.
Lemma nodup_snoc {A} (l : list A) x : NoDup l -> ~ In x l -> NoDup (l ++ [x]).
Proof. induction l as [|a t IH]; intros H Hx; simpl; [constructor; [intros []|constructor]|].
  inversion H; subst. constructor.
  - rewrite in_app_iff. intros [Hin|[Hin|[]]]; [auto|subst; apply Hx; now left].
  - apply IH; [assumption|]. intros Hin; apply Hx; now right. Qed.
Lemma dict_set_nodup m p : NoDup (names m) -> NoDup (names (dict_set N m p)).
Proof. intros H. rewrite dict_set_names. destruct (mem_str (p_name N p) (names m)) eqn:E; [assumption|].
  apply nodup_snoc; [assumption|]. intros Hin. apply mem_str_In in Hin. congruence. Qed.
Lemma dict_of_nodup l : NoDup (names (dict_of N l)).
Proof. unfold dict_of. assert (G : forall l m, NoDup (names m) -> NoDup (names (fold_left (dict_set N) l m))).
  { induction l0 as [|p t IH]; intros m H; simpl; [assumption|]. apply IH. now apply dict_set_nodup. }
  apply G. constructor. Qed.

Lemma dict_pop_spec k : forall m, NoDup (names m) ->
  NoDup (names (snd (dict_pop N k m))) /\ ~ In k (names (snd (dict_pop N k m))) /\
  (forall q, fst (dict_pop N k m) = Some q -> p_name N q = k).
Proof. induction m as [|q r IH]; intros H; simpl.
  - repeat split; [constructor|intros []|discriminate].
  - inversion H as [|? ? H1 H2]; subst. destruct (String.eqb_spec (p_name N q) k) as [E|E]; simpl.
    + repeat split; [assumption|now rewrite <- E|]. intros q0 Hq. inversion Hq; now subst.
    + destruct (IH H2) as [A [B C]]. destruct (dict_pop N k r) as [o r'] eqn:Ep. simpl in *. repeat split.
      * constructor; [|assumption]. intros Hin. apply H1.
        clear - Hin Ep. revert o r' Ep Hin. induction r as [|a t IHt]; intros o r' Ep Hin; simpl in Ep.
        -- inversion Ep; subst. destruct Hin.
        -- destruct (String.eqb (p_name N a) k).
           ++ inversion Ep; subst. now right.
           ++ destruct (dict_pop N k t) as [o2 r2] eqn:E2. inversion Ep; subst. destruct Hin as [Hin|Hin]; [now left|right; eapply IHt; eauto].
      * intros [Hk|Hk]; [congruence|auto].
      * exact C. Qed.

Lemma pm_set_absent m k v : ~ In k (names m) -> pm_set N m k v = m ++ [v].
Proof. induction m as [|q r IH]; intros H; simpl; [reflexivity|].
  destruct (String.eqb_spec (p_name N q) k) as [E|E]; [exfalso; apply H; now left|]. rewrite IH; [reflexivity|]. intros Hin; apply H; now right. Qed.

(* the loop over the names of a ParamSetting, as the translation has it: state (dict of the channel-level configs, the measurement) *)
Definition const_step (st : list (param N) * measurement N) (rn : string) : res (list (param N) * measurement N) :=
  match gen_interpret_rootname rxg rn with
  | inr e => inr e
  | inl i =>
      if negb (tri_truth (i_is_scalar i)) then inr ENonScalar else
      if String.eqb (i_name i) "lumi" then
        match me_params N (snd st) with
        | [] => inr EIndex
        | h :: _ => inl (fst st, @mkMeas N (me_name N (snd st)) (me_poi N (snd st)) (update_at 0 (fun _ => set_fixed N h) (me_params N (snd st))))
        end
      else inl (pm_set N (snd (dict_pop N (i_name i) (fst st))) (i_name i)
                  (set_fixed N (match fst (dict_pop N (i_name i) (fst st)) with Some p => p | None => param_default N (i_name i) end)), snd st)
  end.

Definition pc_body (st : param N * list (param N)) (rn : string) : res (param N * list (param N)) :=
  bind (interp rn) (fun nm =>
  if String.eqb nm "lumi" then ret (set_fixed N (fst st), snd st)
  else let '(po, rest) := dict_pop N nm (snd st) in
       ret (fst st, rest ++ [set_fixed N (match po with Some p => p | None => param_default N nm end)])).

Lemma const_loop nm poi : forall l lp pm, NoDup (names pm) ->
  map_err verr (foldM const_step l (pm, @mkMeas N nm poi [lp])) =
  map_err verr (match foldM pc_body l (lp, pm) with inl st => inl (snd st, @mkMeas N nm poi [fst st]) | inr e => inr e end).
Proof. induction l as [|rn t IH]; intros lp pm ND; [reflexivity|]. cbn [foldM].
  unfold const_step at 1, pc_body at 1. rewrite (tie_interpret_rootname rxg rn). unfold bind, ret.
  destruct (gen_interpret_rootname rxg rn) as [i|e] eqn:Eg; [|apply interpret_rootname_error in Eg; subst e; cbn; now destruct (starts_with "gamma_" rn)].
  destruct (tri_truth (i_is_scalar i)); cbn [negb]; [|reflexivity].
  destruct (String.eqb (i_name i) "lumi").
  - cbn [snd fst me_params me_name me_poi update_at]. apply IH. exact ND.
  - cbn [fst snd]. destruct (dict_pop_spec (i_name i) pm ND) as [A [B C]].
    destruct (dict_pop N (i_name i) pm) as [po rest] eqn:Ep. cbn [fst snd] in *. rewrite (pm_set_absent _ _ _ B). apply IH.
    rewrite map_app. cbn [map set_fixed p_name]. apply nodup_snoc; [assumption|].
    destruct po as [p|]; [now rewrite (C p eq_refl)|exact B]. Qed.

Lemma poi_text s : (if nonempty s then s else "") = s.
Proof. now destruct s. Qed.

Lemma process_measurement_foldM others xm :
  process_measurement N others xm =
  match foldM pc_body (xm_const N xm) (lumi_param N (xm_lumi N xm) (nmul N (xm_lumi N xm) (xm_relerr N xm)), dict_of N others) with
  | inl st => inl (@mkMeas N (xm_name N xm) (xm_poi N xm) (fst st :: snd st))
  | inr e => inr e
  end.
Proof. unfold process_measurement.
  change (fold_left (process_const N) (xm_const N xm) (ret (lumi_param N (xm_lumi N xm) (nmul N (xm_lumi N xm) (xm_relerr N xm)), dict_of N others)))
    with (fold_left (fun a x => bind a (fun s0 => pc_body s0 x)) (xm_const N xm) (inl (lumi_param N (xm_lumi N xm) (nmul N (xm_lumi N xm) (xm_relerr N xm)), dict_of N others))).
  rewrite fold_left_res_foldM. unfold bind, ret. now destruct (foldM pc_body _ _). Qed.

(* one Measurement element, as the translation has it *)
Definition meas_of (others : list (param N)) (x : xmeas N) : res (measurement N) :=
  let m0 := @mkMeas N (xm_name N x) (xm_poi N x) [lumi_param N (xm_lumi N x) (nmul N (xm_lumi N x) (xm_relerr N x))] in
  if lnonempty (xm_const N x) then
    match foldM const_step (xm_const N x) (dict_of N others, m0) with
    | inr e => inr e
    | inl r => inl (@mkMeas N (me_name N (snd r)) (me_poi N (snd r)) (me_params N (snd r) ++ fst r))
    end
  else inl (@mkMeas N (me_name N m0) (me_poi N m0) (me_params N m0 ++ dict_of N others)).

Lemma meas_of_tie others x : map_err verr (meas_of others x) = map_err verr (process_measurement N others x).
Proof. unfold meas_of. rewrite process_measurement_foldM.
  pose proof (const_loop (xm_name N x) (xm_poi N x) (xm_const N x) (lumi_param N (xm_lumi N x) (nmul N (xm_lumi N x) (xm_relerr N x)))
                (dict_of N others) (dict_of_nodup others)) as H.
  destruct (xm_const N x) as [|rn t]; [reflexivity|]. cbn [lnonempty].
  destruct (foldM const_step (rn :: t) _) as [[pm' m']|e1]; destruct (foldM pc_body (rn :: t) _) as [[lp' pm2]|e2]; cbn in H; inversion H; subst; try reflexivity. cbn. now f_equal. Qed.

Lemma outer_loop {X M} (G H : X -> res M) : (forall x, map_err verr (G x) = map_err verr (H x)) -> forall l acc,
  map_err verr (foldM (fun a x => match G x with inl m => inl (a ++ [m]) | inr e => inr e end) l acc) =
  map_err verr (match mapM H l with inl ys => inl (acc ++ ys) | inr e => inr e end).
Proof. intros E. induction l as [|x t IH]; intros acc; simpl; [now rewrite app_nil_r|].
  specialize (E x). unfold bind. destruct (G x) as [m|e1]; destruct (H x) as [m2|e2]; cbn in E; inversion E; subst; [|cbn; now rewrite H1].
  rewrite IH. destruct (mapM H t); cbn; [now rewrite <- app_assoc|reflexivity]. Qed.

Theorem tie_process_measurements doc others :
  map_err verr (gen_process_measurements N rxg doc others) = map_err verr (mapM (process_measurement N others) (x_meas N doc)).
Proof. unfold gen_process_measurements.
  replace (if lnonempty others then others else []) with others by now destruct others.
  match goal with |- map_err verr (match foldM ?F _ _ with _ => _ end) = _ =>
    rewrite (foldM_ext F (fun a x => match meas_of others x with inl m => inl (a ++ [m]) | inr e => inr e end)) end.
  - pose proof (outer_loop (meas_of others) (process_measurement N others) (meas_of_tie others) (x_meas N doc) []) as H. cbn [app] in H.
    destruct (foldM _ (x_meas N doc) []); destruct (mapM _ (x_meas N doc)); exact H.
  - intros a x. unfold meas_of. rewrite !poi_text. destruct (lnonempty (xm_const N x)); [|reflexivity].
    match goal with |- match foldM ?F _ _ with _ => _ end = _ => rewrite (foldM_ext F const_step) end.
    + now destruct (foldM const_step _ _).
    + intros [pm m] rn. unfold const_step. destruct (gen_interpret_rootname rxg rn); reflexivity. Qed.

End Meas.

(* ---------- compat.paramset_to_rootnames ---------- *)
(* Xml.v has no model of it (the writer has its own prefix table, tied above through build_measurement); its specification, and: on scalar
   parameter sets it is inverted by interpret_rootname (the hand model interp, tied above) under the guard of C18_name_guard *)
Definition rootnames_spec (name : string) (is_scalar constrained : bool) (n : nat) : string + list string :=
  if String.eqb name "lumi" then inl "Lumi"
  else if is_scalar then inl ((if constrained then "alpha_" else "") +s+ name)
  else inr (map (fun i => "gamma_" +s+ name +s+ "_" +s+ nat_text i) (seq 0 n)).
Theorem tie_paramset_to_rootnames name sc co n : gen_paramset_to_rootnames name sc co n = rootnames_spec name sc co n.
Proof. unfold gen_paramset_to_rootnames, rootnames_spec. destruct (String.eqb name "lumi"), sc, co; reflexivity. Qed.
Theorem paramset_rootname_inverted name co n :
  name = "lumi" \/ (co = true /\ name <> "") \/
  (co = false /\ strip_prefix "alpha_" name = None /\ strip_prefix "gamma_" name = None /\ name <> "Lumi") ->
  match gen_paramset_to_rootnames name true co n with inl rn => interp rn = inl name | inr _ => False end.
Proof. rewrite tie_paramset_to_rootnames. unfold rootnames_spec. destruct (String.eqb_spec name "lumi") as [E|E]; [subst; reflexivity|].
  intros [H|[[H1 H2]|[H1 [H2 [H3 H4]]]]]; [contradiction| |]; subst co.
  - unfold interp. change (strip_prefix "gamma_" ("alpha_" +s+ name)) with (@None string). rewrite (strip_prefix_app "alpha_" name).
    destruct name; [contradiction|reflexivity].
  - cbn [String.append]. unfold interp. rewrite H3, H2. destruct (String.eqb_spec name "Lumi"); [contradiction|reflexivity]. Qed.
Example ex_paramset_rootnames : gen_paramset_to_rootnames "foo" false true 2 = inr ["gamma_foo_0"; "gamma_foo_1"].
Proof. reflexivity. Qed.
Example ex_paramset_inverted : interp "alpha_jes" = inl "jes" /\ gen_paramset_to_rootnames "jes" true true 1 = inl "alpha_jes".
Proof. split; reflexivity. Qed.

(* ---------- clear_filecache ---------- *)
Theorem tie_clear_filecache N (X R : Type) (rd : X -> rootfile N -> R) nofile opn st :
  gen_clear_filecache N X st = step X (rootfile N) R rd nofile opn st (Clear X (rootfile N)).
Proof. reflexivity. Qed.

(* ---------- dedupe_parameters ---------- *)
(* python groups the configs by name and compares every config of a group with the first one; the hand model compares every pair of equal
   names: the same for an equality test that decides equality of numbers *)
Section Dedupe.
Variable N : Num.
Hypothesis Heqb : forall a b : V N, neqb N a b = true <-> a = b.
Notation name := (p_name N).

Lemma zipw_forallb_eq {A} (e : A -> A -> bool) (He : forall a b, e a b = true -> a = b) :
  forall l l', length l = length l' -> forallb (fun x => x) (zipw e l l') = true -> l = l'.
Proof. induction l as [|a t IH]; intros [|b t'] HL H; simpl in *; try discriminate; [reflexivity|].
  apply andb_true_iff in H. destruct H as [H1 H2]. f_equal; [now apply He|apply IH; [lia|assumption]]. Qed.
Lemma olist_eqb_eq {A} (e : A -> A -> bool) (He : forall a b, e a b = true -> a = b) o o' : olist_eqb e o o' = true -> o = o'.
Proof. destruct o as [l|], o' as [l'|]; simpl; try discriminate; [|reflexivity]. intros H. apply andb_true_iff in H. destruct H as [H1 H2].
  apply Nat.eqb_eq in H1. f_equal. now apply (zipw_forallb_eq e He). Qed.
Lemma param_eqb_eq p q : param_eqb N p q = true -> p = q.
Proof.
  assert (E1 : forall a b : V N, neqb N a b = true -> a = b) by (intros; now apply Heqb).
  assert (E2 : forall a b : V N * V N, neqb N (fst a) (fst b) && neqb N (snd a) (snd b) = true -> a = b).
  { intros [a1 a2] [b1 b2] Hab. apply andb_true_iff in Hab. destruct Hab as [X Y]. simpl in *. apply Heqb in X, Y. now subst. }
  destruct p as [n i b a s f], q as [n' i' b' a' s' f']. unfold param_eqb. simpl. intros H.
  repeat rewrite andb_true_iff in H. destruct H as [[[[[H1 H2] H3] H4] H5] H6].
  apply String.eqb_eq in H1. apply (olist_eqb_eq _ E1) in H2. apply (olist_eqb_eq _ E2) in H3. apply (olist_eqb_eq _ E1) in H4.
  apply (olist_eqb_eq _ E1) in H5. subst. f_equal.
  destruct f as [x|], f' as [y|]; simpl in H6; try discriminate; [|reflexivity]. f_equal. now apply Bool.eqb_prop. Qed.
Lemma param_eqb_true p q : param_eqb N p q = true <-> p = q.
Proof. split; [apply param_eqb_eq|]. intros ->. apply param_eqb_refl. exact Heqb. Qed.

(* ---- duplicates.setdefault(p['name'], []).append(p): the configs grouped by name ---- *)
Definition sel (k : string) (l : list (param N)) : list (param N) := filter (fun p => String.eqb (name p) k) l.
Definition grouped (d : list (string * list (param N))) (seen : list (param N)) : Prop :=
  forall k, assoc k d = if mem_str k (map name seen) then Some (sel k seen) else None.

Lemma mem_str_iff' s l : mem_str s l = true <-> In s l.
Proof. unfold mem_str. rewrite existsb_exists. split.
  - intros [x [H1 H2]]. apply String.eqb_eq in H2. now subst.
  - intros H. exists s. split; [assumption|apply String.eqb_refl]. Qed.
Lemma mem_assoc' {A} k (f : list (string * A)) : mem_str k (map fst f) = match assoc k f with Some _ => true | None => false end.
Proof. unfold mem_str. induction f as [|[k' v] t IH]; simpl; [reflexivity|]. destruct (String.eqb k k'); [reflexivity|exact IH]. Qed.
Lemma assoc_map_upd {A} k k' (x : A) : forall d,
  assoc k' (map (fun kv : string * list A => if String.eqb (fst kv) k then (fst kv, snd kv ++ [x]) else kv) d)
  = match assoc k' d with Some g => Some (if String.eqb k' k then g ++ [x] else g) | None => None end.
Proof. induction d as [|[a g] t IH]; simpl; [reflexivity|].
  destruct (String.eqb_spec a k) as [E|E]; simpl; destruct (String.eqb_spec k' a) as [E2|E2]; try exact IH.
  - subst. now rewrite String.eqb_refl.
  - subst a. destruct (String.eqb_spec k' k); [congruence|reflexivity]. Qed.
Lemma assoc_app_single {A} k k' (v : A) : forall d,
  assoc k' (d ++ [(k, v)]) = match assoc k' d with Some g => Some g | None => if String.eqb k' k then Some v else None end.
Proof. induction d as [|[a g] t IH]; simpl; [reflexivity|]. destruct (String.eqb k' a); [reflexivity|exact IH]. Qed.
Lemma assoc_dl_append {A} (d : list (string * list A)) k x k' :
  assoc k' (dl_append d k x) = if String.eqb k' k then Some (match assoc k d with Some g => g ++ [x] | None => [x] end) else assoc k' d.
Proof. unfold dl_append. rewrite mem_assoc'. destruct (assoc k d) as [g|] eqn:E.
  - rewrite assoc_map_upd. destruct (String.eqb_spec k' k) as [E2|E2]; [subst; now rewrite E|]. now destruct (assoc k' d).
  - rewrite assoc_app_single. destruct (String.eqb_spec k' k) as [E2|E2]; [subst; now rewrite E|]. now destruct (assoc k' d). Qed.

Lemma sel_app k l l' : sel k (l ++ l') = sel k l ++ sel k l'.
Proof. apply filter_app. Qed.
Lemma mem_str_app s l l' : mem_str s (l ++ l') = mem_str s l || mem_str s l'.
Proof. unfold mem_str. apply existsb_app. Qed.
Lemma sel_nil k l : mem_str k (map name l) = false -> sel k l = [].
Proof. unfold mem_str, sel. induction l as [|p t IH]; simpl; [reflexivity|]. intros H. apply orb_false_iff in H. destruct H as [H1 H2].
  rewrite String.eqb_sym, H1. now apply IH. Qed.

Lemma grouped_step d seen p : grouped d seen -> grouped (dl_append d (name p) p) (seen ++ [p]).
Proof. intros G k. rewrite assoc_dl_append, map_app, mem_str_app, sel_app. cbn [map sel filter mem_str existsb]. rewrite orb_false_r.
  destruct (String.eqb_spec k (name p)) as [E|E].
  - subst k. rewrite String.eqb_refl, orb_true_r. rewrite (G (name p)). destruct (mem_str (name p) (map name seen)) eqn:M; [reflexivity|].
    now rewrite (sel_nil _ _ M).
  - rewrite orb_false_r. destruct (String.eqb_spec (name p) k); [congruence|]. rewrite app_nil_r. apply G. Qed.
Lemma grouped_fold : forall l seen d, grouped d seen -> grouped (fold_left (fun s p => dl_append s (name p) p) l d) (seen ++ l).
Proof. induction l as [|p t IH]; intros seen d G; simpl; [now rewrite app_nil_r|].
  replace (seen ++ p :: t) with ((seen ++ [p]) ++ t) by now rewrite <- app_assoc. apply IH. now apply grouped_step. Qed.
Lemma grouped_all l : grouped (fold_left (fun s p => dl_append s (name p) p) l []) l.
Proof. apply (grouped_fold l [] []). intros k. reflexivity. Qed.

(* ---- the loop over the groups: no state, the first group with two different configs raises ---- *)
Lemma foldM_unit {X} (c1 c2 : X -> bool) (e : err) : forall l,
  foldM (fun (_ : unit) k => if c1 k then inl tt else if c2 k then inr e else inl tt) l tt = if forallb (fun k => c1 k || negb (c2 k)) l then inl tt else inr e.
Proof. induction l as [|k t IH]; simpl; [reflexivity|]. destruct (c1 k); simpl; [exact IH|]. destruct (c2 k); simpl; [reflexivity|exact IH]. Qed.

Definition pair_ok (l : list (param N)) : bool :=
  forallb (fun p => forallb (fun q => negb (String.eqb (name p) (name q)) || param_eqb N p q) l) l.

Theorem tie_dedupe_parameters l : gen_dedupe_parameters N l = dedupe N l.
Proof. unfold gen_dedupe_parameters, dedupe. cbv zeta. set (d := fold_left _ l []).
  pose proof (grouped_all l) as G. fold d in G.
  rewrite (foldM_unit (fun k => Nat.eqb (length (match assoc k d with Some y => y | None => [] end)) 1)
             (fun k => existsb (fun b => b) (map (fun x_p => negb (param_eqb N x_p (nth 0 (match assoc k d with Some y => y | None => [] end) (dflt_param N))))
                                                (tl (match assoc k d with Some y => y | None => [] end)))) EDedupe).
  fold (pair_ok l).
  match goal with |- (match (if ?a then _ else _) with _ => _ end) = (if ?b then _ else _) => assert (E : a = b) end.
  2: { rewrite E. now destruct (pair_ok l). }
  apply Bool.eq_true_iff_eq. unfold pair_ok. rewrite !forallb_forall. split.
  - (* every group uniform -> every pair of equal names equal *)
    intros H p Hp. apply forallb_forall. intros q Hq. destruct (String.eqb_spec (name p) (name q)) as [E|E]; [|reflexivity]. simpl.
    apply param_eqb_true.
    assert (M : mem_str (name p) (map name l) = true).
    { unfold mem_str. apply existsb_exists. exists (name p). split; [now apply in_map|apply String.eqb_refl]. }
    pose proof (G (name p)) as Gp. rewrite M in Gp.
    assert (K : In (name p) (map fst d)). { apply mem_str_iff'. rewrite mem_assoc', Gp. reflexivity. }
    specialize (H _ K). rewrite Gp in H.
    assert (Ip : In p (sel (name p) l)) by (apply filter_In; split; [assumption|apply String.eqb_refl]).
    assert (Iq : In q (sel (name p) l)) by (apply filter_In; split; [assumption|rewrite E; apply String.eqb_refl]).
    destruct (sel (name p) l) as [|a t]; [destruct Ip|]. cbn [length tl nth] in H.
    assert (U : forall x, In x (a :: t) -> x = a).
    { intros x [Hx|Hx]; [now subst|]. apply orb_true_iff in H. destruct H as [H|H].
      - destruct t; [destruct Hx|discriminate].
      - apply negb_true_iff in H. rewrite <- not_true_iff_false in H. destruct (param_eqb N x a) eqn:Ex; [now apply param_eqb_true|].
        exfalso. apply H. apply existsb_exists. exists true. split; [|reflexivity]. apply in_map_iff. exists x. split; [now rewrite Ex|assumption]. }
    now rewrite (U p Ip), (U q Iq).
  - (* every pair of equal names equal -> every group uniform *)
    intros H k K. apply mem_str_iff' in K. rewrite mem_assoc' in K. pose proof (G k) as Gk.
    destruct (assoc k d) as [g|] eqn:Ea; [|discriminate].
    destruct (mem_str k (map name l)); [|discriminate]. inversion Gk; subst g. clear Gk.
    apply orb_true_iff. right. apply negb_true_iff. apply not_true_iff_false. intros Hex. apply existsb_exists in Hex.
    destruct Hex as [b [Hb1 Hb2]]. subst b. apply in_map_iff in Hb1. destruct Hb1 as [x [Hx1 Hx2]]. apply negb_true_iff in Hx1.
    destruct (sel k l) as [|a t] eqn:Es; [destruct Hx2|]. cbn [tl nth] in *.
    assert (Ia : In a (sel k l)) by (rewrite Es; now left). assert (Ix : In x (sel k l)) by (rewrite Es; now right).
    apply filter_In in Ia, Ix. destruct Ia as [Ia1 Ia2], Ix as [Ix1 Ix2]. apply String.eqb_eq in Ia2, Ix2.
    pose proof (H x Ix1) as Hx. rewrite forallb_forall in Hx. specialize (Hx a Ia1). rewrite Ix2, Ia2, String.eqb_refl in Hx. simpl in Hx. congruence. Qed.
End Dedupe.

(* ---------- non-vacuity: the translated functions on concrete inputs; the hypothesis keys_ok on a written file ---------- *)
Definition no_rx (s : string) : option (string * nat) := None.
Example ex_keys_ok : exists x f, write QcNum demo_ws = inl (x, f) /\ keys_ok QcNum f.
Proof. assert (H : match write QcNum demo_ws with inl (x, f) => keys_okb QcNum f | inr _ => false end = true) by (vm_compute; reflexivity).
  destruct (write QcNum demo_ws) as [[x f]|e]; [|discriminate]. exists x, f. split; [reflexivity|]. now apply keys_okb_sound. Qed.
Example ex_build_modifier_staterror :
  gen_build_modifier QcNum demo_ws (MO "st" (DST [q 3 1; q 1 1])) "ch1" "bkg" [q 50 1; q 0 1]
  = inl (Some (XStatError QcNum "histch1_bkg_st"), [("histch1_bkg_st", [q 3 50; q 0 1])]).
Proof. vm_compute. reflexivity. Qed.
Example ex_build_modifier_normfactor :
  gen_build_modifier QcNum demo_ws (MO "mu" DNF) "ch1" "sig" [q 5 1] = inl (Some (XNormFactor QcNum "mu" (q 3 2) (q 0 1) (q 7 1)), []).
Proof. vm_compute. reflexivity. Qed.
Example ex_build_modifier_shape_mismatch :
  gen_build_modifier QcNum demo_ws (MO "ss" (DSS [q 2 1])) "ch1" "bkg" [q 50 1; q 0 1] = inr EShape.
Proof. vm_compute. reflexivity. Qed.
Example ex_build_measurement :
  gen_build_measurement QcNum (ME "m2" "mu" [PA "lumi" (Some [q 2 1]) None (Some [q 2 1]) (Some [q 1 5]) (Some true); PA "ns" None None None None (Some true)])
    [("ns", "normsys")]
  = inl (mkXm QcNum "m2" (q 2 1) (q 1 10) "mu" ["Lumi"; "alpha_ns"]).
Proof. vm_compute. reflexivity. Qed.
Example ex_export_duplicate : gen_export_root_histogram QcNum [("h", [q 1 1])] "h" [q 2 1] = inr EDupHist.
Proof. reflexivity. Qed.
Example ex_interpret_alpha : gen_interpret_rootname no_rx "alpha_x" = inl (mkInterp (Some true) (Some true) "x" None).
Proof. reflexivity. Qed.
Example ex_interpret_lumi : gen_interpret_rootname no_rx "Lumi" = inl (mkInterp (Some false) (Some true) "lumi" None).
Proof. reflexivity. Qed.
Example ex_interpret_gamma : gen_interpret_rootname (fun _ => Some ("foo", 0)) "gamma_foo_0" = inl (mkInterp None (Some false) "foo" (Some 0)).
Proof. reflexivity. Qed.
Example ex_interpret_confusing : gen_interpret_rootname no_rx "alpha_" = inr EConfusing.
Proof. reflexivity. Qed.
(* the cache: after export - import - re-export into the same directory the file is opened again (its signature changed) *)
Definition ex_state : state unit (rootfile QcNum) :=
  run unit (rootfile QcNum) nat (fun _ _ => 0) 0 (open_file unit (rootfile QcNum))
      [Export unit (rootfile QcNum) "d" tt [("h", [q 5 1])]; Import unit (rootfile QcNum) "d"; Export unit (rootfile QcNum) "d" tt [("h", [q 7 1])]]
      (init unit (rootfile QcNum) [] 0).
Example ex_import_reopens : match gen_import_root_histogram QcNum unit ex_state "d" "h" with inl r => fst r = [q 7 1] | inr _ => False end.
Proof. vm_compute. reflexivity. Qed.
Example ex_process_measurements :
  match gen_process_measurements QcNum no_rx (mkXd QcNum [] [mkXm QcNum "m" (q 2 1) (q 1 10) "mu" ["Lumi"; "alpha_ns"]]) [PA "mu" (Some [q 1 1]) None None None None] with
  | inl [m] => (me_name QcNum m, me_poi QcNum m, map (fun p => (p_name QcNum p, p_fixed QcNum p, option_map (map qout) (p_sigmas QcNum p))) (me_params QcNum m))
               = ("m", "mu", [("lumi", Some true, Some [(1%Z, 5%positive)]); ("mu", None, None); ("ns", Some true, None)])
  | _ => False
  end.
Proof. vm_compute. reflexivity. Qed.
Example ex_process_measurements_gamma :
  gen_process_measurements QcNum (fun _ => Some ("x", 0)) (mkXd QcNum [] [mkXm QcNum "m" (q 1 1) (q 0 1) "mu" ["gamma_x_0"]]) [] = inr ENonScalar.
Proof. vm_compute. reflexivity. Qed.
Example ex_dedupe_refuses : gen_dedupe_parameters QcNum [PA "mu" (Some [q 1 1]) None None None None; PA "k" None None None None None; PA "mu" (Some [q 2 1]) None None None None] = inr EDedupe.
Proof. vm_compute. reflexivity. Qed.
Example ex_dedupe_accepts :
  match gen_dedupe_parameters QcNum [PA "mu" (Some [q 1 1]) None None None None; PA "k" None None None None None; PA "mu" (Some [q 1 1]) None None None None] with
  | inl l => map (p_name QcNum) l = ["mu"; "k"] | inr _ => False end.
Proof. vm_compute. reflexivity. Qed.
Definition tie_dedupe_parameters_Qc := tie_dedupe_parameters QcNum Qc_eqb_spec.
Definition tie_dedupe_parameters_R := tie_dedupe_parameters RNum R_eqb_spec.
