(* C13 - gradients handed to optimisers are the true gradient.
   (1) dual numbers as an instance of `Num`: evaluating any expression built from + - * / at a dual number
       computes the value and the exact directional derivative (sum, product and quotient rules proved against
       Coquelicot's is_derive);
   (2) the chain rule through stitching: perturbing free coordinate j of the optimiser's vector perturbs exactly
       coordinate variable_idx[j] of the stitched vector;
   (3) derivative formulas of the log-density building blocks;
   (4) the exact gradient of twice_nll for the restricted family of FitRate, evaluated at Qc duals by the check. *)
From Coq Require Import ZArith QArith Qcanon Reals Lra Lia Bool Permutation List.
From Coquelicot Require Import Coquelicot.
Require Import PV.Num PV.FitWrap PV.FitCert PV.FitRate.
Import ListNotations.
Local Open Scope list_scope.

(* ------------------------------------------------------------------------------------------ *)
(* (1) dual numbers *)
Section Dual.
  Variable N : Num.
  Notation T := (V N).
  Definition dual : Type := (T * T)%type.
  Definition d_add (a b : dual) : dual := (nadd N (fst a) (fst b), nadd N (snd a) (snd b)).
  Definition d_sub (a b : dual) : dual := (nsub N (fst a) (fst b), nsub N (snd a) (snd b)).
  Definition d_opp (a : dual) : dual := (nopp N (fst a), nopp N (snd a)).
  Definition d_mul (a b : dual) : dual :=
    (nmul N (fst a) (fst b), nadd N (nmul N (snd a) (fst b)) (nmul N (fst a) (snd b))).
  Definition d_div (a b : dual) : dual :=
    (ndiv N (fst a) (fst b),
     ndiv N (nsub N (nmul N (snd a) (fst b)) (nmul N (fst a) (snd b))) (nmul N (fst b) (fst b))).
  Definition d_inv (a : dual) : dual :=
    (ninv N (fst a), ndiv N (nopp N (snd a)) (nmul N (fst a) (fst a))).
  Definition d_const (c : T) : dual := (c, n0 N).
  (* comparisons look at the value: a piecewise definition differentiates the branch the comparison selects *)
  Definition DualNum : Num :=
    mkNum dual (d_const (n0 N)) (d_const (n1 N)) d_add d_mul d_sub d_opp d_div d_inv
          (fun a b => nltb N (fst a) (fst b)) (fun a b => nleb N (fst a) (fst b)) (fun a b => neqb N (fst a) (fst b) && neqb N (snd a) (snd b))
          (fun z => d_const (nofZ N z)).
End Dual.

(* expressions over constants C, evaluated in any Num through an injection of the constants *)
Inductive expr (C : Type) :=
| EVar (i : nat) | EConst (c : C)
| EAdd (a b : expr C) | ESub (a b : expr C) | EMul (a b : expr C) | EDiv (a b : expr C) | EOpp (a : expr C).
Arguments EVar {C}. Arguments EConst {C}. Arguments EAdd {C}. Arguments ESub {C}. Arguments EMul {C}. Arguments EDiv {C}. Arguments EOpp {C}.

Fixpoint eval {C} (N : Num) (inj : C -> V N) (env : nat -> V N) (e : expr C) : V N :=
  match e with
  | EVar i => env i
  | EConst c => inj c
  | EAdd a b => nadd N (eval N inj env a) (eval N inj env b)
  | ESub a b => nsub N (eval N inj env a) (eval N inj env b)
  | EMul a b => nmul N (eval N inj env a) (eval N inj env b)
  | EDiv a b => ndiv N (eval N inj env a) (eval N inj env b)
  | EOpp a => nopp N (eval N inj env a)
  end.

Local Open Scope R_scope.

(* every denominator is non-zero at the point *)
Fixpoint defined (env : nat -> R) (e : expr R) : Prop :=
  match e with
  | EVar _ | EConst _ => True
  | EAdd a b | ESub a b | EMul a b => defined env a /\ defined env b
  | EDiv a b => defined env a /\ defined env b /\ eval RNum (fun c => c) env b <> 0
  | EOpp a => defined env a
  end.

Definition evalR (env : nat -> R) (e : expr R) : R := eval RNum (fun c => c) env e.
Definition evalD (env dir : nat -> R) (e : expr R) : R * R :=
  eval (DualNum RNum) (fun c => (c, 0)) (fun i => (env i, dir i)) e.

Lemma evalD_value env dir e : fst (evalD env dir e) = evalR env e.
Proof. unfold evalD, evalR. induction e; simpl in *; try reflexivity; try (now rewrite IHe1, IHe2); now rewrite IHe. Qed.

(* the structure-preserving property: the second component is the derivative along dir *)
Theorem dual_is_derivative env dir e : defined env e ->
  is_derive (fun t => evalR (fun i => env i + t * dir i) e) 0 (snd (evalD env dir e)).
Proof.
  assert (E0 : forall e, evalR (fun i => env i + 0 * dir i) e = evalR env e).
  { intros e0. unfold evalR. induction e0 as [i|c|a IHa b IHb|a IHa b IHb|a IHa b IHb|a IHa b IHb|a IHa]; simpl in *;
      rewrite ?IHa, ?IHb; try reflexivity. ring. }
  induction e as [i|c|a IHa b IHb|a IHa b IHb|a IHa b IHb|a IHa b IHb|a IHa]; intros Hd; simpl in *.
  - unfold evalR. simpl. auto_derive; [exact I|ring].
  - unfold evalR. simpl. auto_derive; [exact I|reflexivity].
  - destruct Hd as [Ha Hb]. apply (is_derive_plus (fun t => evalR _ a) (fun t => evalR _ b)); auto.
  - destruct Hd as [Ha Hb]. apply (is_derive_minus (fun t => evalR _ a) (fun t => evalR _ b)); auto.
  - destruct Hd as [Ha Hb].
    pose proof (is_derive_mult (fun t => evalR (fun i => env i + t * dir i) a) (fun t => evalR (fun i => env i + t * dir i) b) 0 _ _
                  (IHa Ha) (IHb Hb) Rmult_comm) as M.
    simpl in M. rewrite !E0 in M. rewrite <- !evalD_value with (dir := dir) in M. exact M.
  - destruct Hd as [Ha [Hb Hnz]].
    assert (Hnz' : evalR (fun i => env i + 0 * dir i) b <> 0) by (rewrite E0; exact Hnz).
    pose proof (is_derive_div (fun t => evalR (fun i => env i + t * dir i) a) (fun t => evalR (fun i => env i + t * dir i) b) 0 _ _
                  (IHa Ha) (IHb Hb) Hnz') as M.
    simpl in M. rewrite !E0 in M. rewrite <- !evalD_value with (dir := dir) in M.
    replace (fst (evalD env dir b) * (fst (evalD env dir b) * 1)) with (fst (evalD env dir b) * fst (evalD env dir b)) in M by ring.
    exact M.
  - apply (is_derive_opp (fun t => evalR _ a)); auto.
Qed.

(* the rules themselves, for the record *)
Lemma dual_sum_rule (a b : R * R) : d_add RNum a b = (fst a + fst b, snd a + snd b).
Proof. reflexivity. Qed.
Lemma dual_product_rule (a b : R * R) : d_mul RNum a b = (fst a * fst b, snd a * fst b + fst a * snd b).
Proof. reflexivity. Qed.
Lemma dual_quotient_rule (a b : R * R) :
  d_div RNum a b = (fst a / fst b, (snd a * fst b - fst a * snd b) / (fst b * fst b)).
Proof. reflexivity. Qed.

Example dual_is_derivative_nonvacuous :
  let e := EDiv (EMul (EVar 0) (EVar 1)) (EAdd (EVar 0) (EConst 3)) in
  defined (fun _ => 1) e /\ evalD (fun _ => 1) (fun i => if Nat.eqb i 0 then 1 else 0) e = (1 / 4, 3 / 16).
Proof. simpl. split; [repeat split; lra|]. unfold evalD. simpl. unfold d_div, d_mul, d_add. simpl. f_equal; field. Qed.

(* ------------------------------------------------------------------------------------------ *)
(* (3) building blocks of the log-likelihood *)
Theorem dlogpois n lam lg : 0 < lam ->
  is_derive (fun l => n * ln l - l - lg) lam (n / lam - 1).
Proof. intros H. auto_derive; [lra|]. field. lra. Qed.

Theorem dlognorm x mu sigma : 0 < sigma ->
  is_derive (fun m => - ((x - m) * (x - m)) / (2 * (sigma * sigma)) - ln sigma - ln (2 * PI) / 2) mu ((x - mu) / (sigma * sigma)).
Proof. intros H. auto_derive; [nra|]. field. lra. Qed.

(* chain rule for one Poisson term of twice_nll along a differentiable rate *)
Theorem twice_nll_pois_chain (lam : R -> R) (dlam n lg : R) :
  is_derive lam 0 dlam -> 0 < lam 0 ->
  is_derive (fun t => -2 * (n * ln (lam t) - lam t - lg)) 0 (2 * (1 - n / lam 0) * dlam).
Proof. intros Hl Hp.
  pose proof (is_derive_comp (fun l => -2 * (n * ln l - l - lg)) lam 0 (-2 * (n / lam 0 - 1)) dlam) as C.
  assert (D : is_derive (fun l => -2 * (n * ln l - l - lg)) (lam 0) (-2 * (n / lam 0 - 1))).
  { auto_derive; [lra|]. field. lra. }
  specialize (C D Hl). simpl in C.
  replace (2 * (1 - n / lam 0) * dlam) with (scal dlam (-2 * (n / lam 0 - 1))); [exact C|].
  unfold scal; simpl; unfold mult; simpl. ring. Qed.

Theorem twice_nll_norm_chain (m : R -> R) (dm x sigma : R) :
  is_derive m 0 dm -> 0 < sigma ->
  is_derive (fun t => -2 * (- ((x - m t) * (x - m t)) / (2 * (sigma * sigma)) - ln sigma - ln (2 * PI) / 2)) 0
            (2 * (/ (sigma * sigma)) * (m 0 - x) * dm).
Proof. intros Hm Hs.
  pose proof (is_derive_comp (fun u => -2 * (- ((x - u) * (x - u)) / (2 * (sigma * sigma)) - ln sigma - ln (2 * PI) / 2)) m 0
                (2 * (/ (sigma * sigma)) * (m 0 - x)) dm) as C.
  assert (D : is_derive (fun u => -2 * (- ((x - u) * (x - u)) / (2 * (sigma * sigma)) - ln sigma - ln (2 * PI) / 2)) (m 0)
                        (2 * (/ (sigma * sigma)) * (m 0 - x))).
  { auto_derive; [nra|]. field. lra. }
  specialize (C D Hm). simpl in C.
  replace (2 * / (sigma * sigma) * (m 0 - x) * dm) with (scal dm (2 * / (sigma * sigma) * (m 0 - x))); [exact C|].
  unfold scal; simpl; unfold mult; simpl. ring. Qed.

(* ------------------------------------------------------------------------------------------ *)
(* (4) exact gradient of twice_nll for the restricted family: the rate model of FitRate evaluated at dual numbers.
   twice_nll = 2 * [ sum_b (lam_b - n_b ln lam_b) + sum_k (tau_k x_k - aux_k ln (tau_k x_k)) + sum_g w_g/2 (x_g - aux_g)^2 ] + const *)
Local Close Scope R_scope.
Section ModelGrad.
  Variable N : Num.
  Notation T := (V N).
  Notation DN := (DualNum N).
  Definition inj (c : T) : V DN := (c, n0 N).
  Definition inj_hsys (h : hsys N) : hsys DN :=
    @Build_hsys DN (h_code N h) (inj (h_lo N h)) (inj (h_hi N h)) (h_par N h).
  Definition inj_cell (c : cell N) : cell DN :=
    @Build_cell DN (inj (c_nom N c)) (map inj_hsys (c_hs N c)) (c_fac N c).
  Fixpoint seed_from (i j : nat) (x : list T) : list (V DN) :=
    match x with [] => [] | v :: r => (v, if Nat.eqb i j then n1 N else n0 N) :: seed_from (S i) j r end.
  (* value and derivative along coordinate j of the rate of one bin *)
  Definition rate_dual (x : list T) (j : nat) (cells : list (cell N)) : V DN :=
    bin_rate DN (seed_from 0 j x) (map inj_cell cells).

  Definition two_ : T := nadd N (n1 N) (n1 N).
  Definition grad_coord (M : model N) (x : list T) (j : nat) : T :=
    let main := fold_right (fun nb acc =>
                  let r := rate_dual x j (snd nb) in
                  sadd N (nmul N (nsub N (n1 N) (ndiv N (fst nb) (fst r))) (snd r)) acc) (n0 N) (m_bins N M) in
    let pois := fold_right (fun p acc => let '(aux, tau, i) := p in
                  if Nat.eqb i j then sadd N (nmul N (nsub N (n1 N) (ndiv N aux (nmul N tau (par N x i)))) tau) acc else acc)
                  (n0 N) (m_pois N M) in
    let gaus := fold_right (fun g acc => let '(w, aux, i) := g in
                  if Nat.eqb i j then sadd N (nmul N w (nsub N (par N x i) aux)) acc else acc) (n0 N) (m_gaus N M) in
    nmul N two_ (nadd N main (nadd N pois gaus)).
  Definition model_grad (M : model N) (x : list T) : list T := map (grad_coord M x) (seq 0 (length x)).
  Definition model_rates_dual (M : model N) (x : list T) (j : nat) : list (V DN) :=
    map (fun nb => rate_dual x j (snd nb)) (m_bins N M).
End ModelGrad.

(* ------------------------------------------------------------------------------------------ *)
(* (2) chain rule through stitching *)
Local Open Scope nat_scope.
Section Stitched.
  Variable npars : nat.
  Variable fv : list (nat * R).                (* fixed_vals: (index, value) *)
  Hypothesis Hnd : NoDup (map fst fv).
  Hypothesis Hlt : forall i, In i (map fst fv) -> i < npars.
  Notation fidx := (map fst fv).
  Notation vidx := (variable_idx npars (map fst fv)).
  Definition stitched (free : list R) : list R := stitch R 0%R (mk_viewer [fidx; vidx]) [map snd fv; free].

  (* a vector of the right length is the stitched vector iff it has the fixed values at fixed_idx and
     the free values, in order, at variable_idx *)
  Lemma stitched_unique free y : length free = length vidx -> length y = npars ->
    (forall k, k < length fv -> nth (nth k fidx 0) y 0%R = nth k (map snd fv) 0%R) ->
    gather R 0%R y vidx = free -> y = stitched free.
  Proof. intros Hf Hy H1 H2.
    destruct (stitch_two R 0%R npars fv free Hnd Hlt (map snd fv) ltac:(now rewrite map_length) Hf) as [L [S1 S2]].
    fold (stitched free) in L, S1, S2.
    apply (nth_ext _ _ 0%R 0%R); [lia|]. intros i Hi. rewrite Hy in Hi.
    pose proof (partition_perm npars fidx Hnd Hlt) as P. simpl in P. rewrite app_nil_r in P.
    assert (Hin : In i (fidx ++ vidx)) by (eapply Permutation_in; [symmetry; exact P|apply in_seq; lia]).
    apply in_app_or in Hin. destruct Hin as [Hin|Hin].
    - destruct (In_nth _ _ 0 Hin) as [k [Hk Ek]]. rewrite map_length in Hk. rewrite <- Ek. rewrite H1, S1; auto.
    - destruct (In_nth _ _ 0 Hin) as [k [Hk Ek]]. rewrite <- Ek.
      rewrite <- (nth_gather R 0%R y vidx k Hk), <- (nth_gather R 0%R (stitched free) vidx k Hk). now rewrite H2, S2.
  Qed.

  Lemma vidx_not_fixed i : In i vidx -> ~ In i fidx.
  Proof. intros H. apply filter_In in H. destruct H as [_ H]. apply negb_true_iff in H. intros C. apply mem_In in C. congruence. Qed.
  Lemma vidx_nodup : NoDup vidx.
  Proof. apply NoDup_filter, seq_NoDup. Qed.

  (* perturbing free coordinate j perturbs exactly coordinate variable_idx[j] of the stitched vector *)
  Lemma stitched_perturb free j t : length free = length vidx -> j < length vidx ->
    stitched (upd j (nth j free 0 + t)%R free) = upd (nth j vidx 0) (nth (nth j vidx 0%nat) (stitched free) 0 + t)%R (stitched free).
  Proof. intros Hf Hj. set (i := nth j vidx 0). set (x := stitched free).
    destruct (stitch_two R 0%R npars fv free Hnd Hlt (map snd fv) ltac:(now rewrite map_length) Hf) as [L [S1 S2]].
    fold (stitched free) in L, S1, S2. fold x in L, S1, S2.
    assert (Hi_in : In i vidx) by (apply nth_In; exact Hj).
    assert (Hxi : nth i x 0%R = nth j free 0%R).
    { unfold i. rewrite <- (nth_gather R 0%R x vidx j Hj). now rewrite S2. }
    symmetry. apply stitched_unique.
    - now rewrite upd_length.
    - now rewrite upd_length.
    - intros k Hk. rewrite upd_other; [apply S1; exact Hk|].
      intros E. apply (vidx_not_fixed i Hi_in). rewrite E. apply nth_In. now rewrite map_length.
    - apply (nth_ext _ _ 0%R 0%R); [unfold gather; rewrite map_length, upd_length; lia|].
      intros k Hk. unfold gather in Hk. rewrite map_length in Hk. rewrite nth_gather by exact Hk.
      destruct (Nat.eq_dec k j) as [->|Hne].
      + fold i.
        assert (Hil : i < length x).
        { rewrite L. apply filter_In in Hi_in. destruct Hi_in as [Hs _]. apply in_seq in Hs. lia. }
        rewrite (upd_same 0%R x i _ Hil). rewrite upd_same by lia. now rewrite Hxi.
      + rewrite upd_other.
        * rewrite upd_other by auto. rewrite <- (nth_gather R 0%R x vidx k Hk). now rewrite S2.
        * intros E. apply Hne. symmetry. apply (proj1 (NoDup_nth vidx 0) vidx_nodup); auto.
  Qed.

  (* stitched_gradient: the derivative of free |-> f (stitch fixed free) along free coordinate j is the
     partial derivative of f along coordinate variable_idx[j] at the stitched point *)
  Theorem stitched_gradient (f : list R -> R) free j d : length free = length vidx -> j < length vidx ->
    let x := stitched free in let i := nth j vidx 0 in
    is_derive (fun t => f (upd i (nth i x 0 + t)%R x)) 0%R d ->
    is_derive (fun t => f (stitched (upd j (nth j free 0 + t)%R free))) 0%R d.
  Proof. intros Hf Hj x i H. eapply is_derive_ext; [|exact H].
    intros t. simpl. unfold x, i. now rewrite stitched_perturb. Qed.
End Stitched.

(* ------------------------------------------------------------------------------------------ *)
(* (5) the rate model meets the dual-number theorem: for cells without histosys pieces the rate of a bin is a
   + * expression of the parameters, so the second component of rate_dual is its partial derivative.
   (cells with histosys pieces additionally need the derivative of the interpolation code in the regime the
   comparison selects - property C03 - and are covered by the correspondence only: hence `_partial`.) *)
Local Open Scope R_scope.
Fixpoint prod_expr (idx : list nat) : expr R :=
  match idx with [] => EConst 1 | i :: r => EMul (EVar i) (prod_expr r) end.
Definition cell_expr (c : cell RNum) : expr R := EMul (EConst (c_nom RNum c)) (prod_expr (c_fac RNum c)).
Fixpoint bin_expr (cells : list (cell RNum)) : expr R :=
  match cells with [] => EConst 0 | c :: r => EAdd (cell_expr c) (bin_expr r) end.
Definition plain (c : cell RNum) : Prop := c_hs RNum c = [].

Lemma prod_expr_R x idx : evalR (par RNum x) (prod_expr idx) = prod_par RNum x idx.
Proof. induction idx as [|i r IH]; simpl; [reflexivity|]. unfold evalR in *. simpl. f_equal. exact IH. Qed.
Lemma bin_expr_R x cells : List.Forall plain cells -> evalR (par RNum x) (bin_expr cells) = bin_rate RNum x cells.
Proof. induction 1 as [|c r Hc Hr IH]; simpl; [reflexivity|]. unfold evalR in *. simpl. f_equal; [|exact IH].
  unfold cell_rate. rewrite Hc. simpl. f_equal. apply prod_expr_R. Qed.

Lemma prod_expr_D (xd : list (R * R)) idx :
  eval (DualNum RNum) (fun c => (c, 0)) (par (DualNum RNum) xd) (prod_expr idx) = prod_par (DualNum RNum) xd idx.
Proof. induction idx as [|i r IH]; simpl; [reflexivity|]. f_equal. exact IH. Qed.
Lemma bin_expr_D (xd : list (R * R)) cells : List.Forall plain cells ->
  eval (DualNum RNum) (fun c => (c, 0)) (par (DualNum RNum) xd) (bin_expr cells) = bin_rate (DualNum RNum) xd (map (inj_cell RNum) cells).
Proof. induction 1 as [|c r Hc Hr IH]; simpl; [reflexivity|]. f_equal; [|exact IH].
  unfold cell_rate. simpl. rewrite Hc. simpl. f_equal. apply prod_expr_D. Qed.

(* the point moved by t along coordinate j, and the seeded dual point *)
Fixpoint moved_from (i j : nat) (t : R) (x : list R) : list R :=
  match x with [] => [] | v :: r => (v + t * (if Nat.eqb i j then 1 else 0)) :: moved_from (S i) j t r end.
Definition dirj (x : list R) (j i : nat) : R := if Nat.eqb i j then (if Nat.ltb i (length x) then 1 else 0) else 0.

Lemma par_moved x j t : forall s i, par RNum (moved_from s j t x) i = par RNum x i + t * (if Nat.eqb (s + i) j then (if Nat.ltb i (length x) then 1 else 0) else 0).
Proof. induction x as [|v x IH]; intros s i.
  - unfold par; simpl. destruct i; destruct (Nat.eqb _ j); simpl; ring.
  - destruct i as [|i].
    + unfold par; simpl. rewrite Nat.add_0_r. destruct (Nat.eqb s j); ring.
    + change (par RNum (moved_from s j t (v :: x)) (S i)) with (par RNum (moved_from (S s) j t x) i).
      change (par RNum (v :: x) (S i)) with (par RNum x i). rewrite (IH (S s) i).
      replace (S s + i)%nat with (s + S i)%nat by lia.
      change (Nat.ltb (S i) (length (v :: x))) with (Nat.ltb i (length x)). reflexivity. Qed.
Lemma par_seed x j : forall s i, par (DualNum RNum) (seed_from RNum s j x) i
  = (par RNum x i, if Nat.eqb (s + i) j then (if Nat.ltb i (length x) then 1 else 0) else 0).
Proof. induction x as [|v x IH]; intros s i.
  - unfold par; simpl. destruct i; simpl; repeat match goal with |- context [if ?b then _ else _] => destruct b end; reflexivity.
  - destruct i as [|i].
    + unfold par; simpl. rewrite Nat.add_0_r. destruct (Nat.eqb s j); reflexivity.
    + change (par (DualNum RNum) (seed_from RNum s j (v :: x)) (S i)) with (par (DualNum RNum) (seed_from RNum (S s) j x) i).
      change (par RNum (v :: x) (S i)) with (par RNum x i). rewrite (IH (S s) i).
      replace (S s + i)%nat with (s + S i)%nat by lia.
      change (Nat.ltb (S i) (length (v :: x))) with (Nat.ltb i (length x)). reflexivity. Qed.

Lemma eval_ext {C} N (inj : C -> V N) env env' (e : expr C) : (forall i, env i = env' i) -> eval N inj env e = eval N inj env' e.
Proof. intros H. induction e; simpl; auto; try (now rewrite IHe1, IHe2); now rewrite IHe. Qed.
Lemma plain_defined env cells : defined env (bin_expr cells).
Proof. assert (P : forall idx, defined env (prod_expr idx)) by (induction idx; simpl; auto).
  induction cells; simpl; auto; repeat split; auto. Qed.

Theorem rate_dual_is_derivative_partial x j cells : List.Forall plain cells ->
  fst (rate_dual RNum x j cells) = bin_rate RNum x cells /\
  is_derive (fun t => bin_rate RNum (moved_from 0 j t x) cells) 0 (snd (rate_dual RNum x j cells)).
Proof. intros Hp. unfold rate_dual. rewrite <- (bin_expr_D _ cells Hp).
  rewrite (eval_ext (DualNum RNum) _ _ (fun i => (par RNum x i, dirj x j i))) by (intros i; rewrite par_seed; reflexivity).
  split; [exact (eq_trans (evalD_value (par RNum x) (dirj x j) (bin_expr cells)) (bin_expr_R x cells Hp))|].
  eapply is_derive_ext; [|exact (dual_is_derivative (par RNum x) (dirj x j) (bin_expr cells) (plain_defined _ _))].
  intros t. simpl. rewrite <- (bin_expr_R _ cells Hp). unfold evalR.
  apply (eval_ext RNum (fun c : R => c) _ _ (bin_expr cells)).
  intros i. rewrite (par_moved x j t 0 i). reflexivity. Qed.
