(* C12: the parameter of interest is addressed through the same slice layout as every other parameter.
   poi_index is the START OF THE POI's SLICE (the sum of the sizes of the parameter sets before it), not its position in
   par_order: the two differ as soon as a multi-component set precedes the POI, which happens for every POI that is a
   one-component bin-wise set (one-bin shapefactor / shapesys / staterror) in a model with larger channels. *)
From Coq Require Import Bool Arith Lia String List.
Require Import PV.Num PV.Sort PV.Spec PV.Impl PV.Config PV.RefineParams.
Import ListNotations.
Local Open Scope list_scope.

Section ConfigPoi.
  Variable N : Num.
  Variable sp : spec N.

  (* find returns the first set with that name *)
  Lemma find_pset_nth : forall ps name p, find_pset N ps name = Some p ->
    exists k, nth_error ps k = Some p /\ p_name N p = name /\
              forall j q, j < k -> nth_error ps j = Some q -> p_name N q <> name.
  Proof.
    unfold find_pset. induction ps as [|q t IH]; intros name p H; simpl in H; [discriminate|].
    destruct (String.eqb (p_name N q) name) eqn:E.
    - inversion H; subst. exists 0. split; [reflexivity|]. split; [now apply String.eqb_eq|]. intros j q' Hj; lia.
    - destruct (IH name p H) as (k & Hk & Hn & Hfirst). exists (S k). split; [exact Hk|]. split; [exact Hn|].
      intros j q' Hj Hq. destruct j; simpl in Hq.
      + inversion Hq; subst. intros Heq. apply String.eqb_neq in E. contradiction.
      + apply (Hfirst j q'); auto. lia.
  Qed.

  (* what set_poi returns *)
  Theorem set_poi_some ps i : set_poi N sp ps = Ok (Some i) ->
    exists nm p, poi sp = Some nm /\ nm <> ""%string /\ find_pset N ps nm = Some p /\ p_n N p <= 1 /\ i = p_start N p.
  Proof.
    unfold set_poi. destruct (poi sp) as [nm|]; [|discriminate].
    destruct (String.eqb nm "") eqn:E; [discriminate|].
    destruct (find_pset N ps nm) as [p|] eqn:Ef; [|discriminate].
    destruct (Nat.ltb 1 (p_n N p)) eqn:El; [discriminate|]. intros H; inversion H; subst.
    exists nm, p. apply String.eqb_neq in E. apply Nat.ltb_ge in El. repeat split; auto.
  Qed.
  Theorem set_poi_none ps : set_poi N sp ps = Ok None -> poi sp = None \/ poi sp = Some ""%string.
  Proof.
    unfold set_poi. destruct (poi sp) as [nm|]; [|auto].
    destruct (String.eqb nm "") eqn:E; [apply String.eqb_eq in E; subst; auto|].
    destruct (find_pset N ps nm) as [p|]; [|discriminate]. destruct (Nat.ltb 1 (p_n N p)); discriminate.
  Qed.
  (* a parameter of interest with more than one component, or one that no modifier defines, is refused with InvalidModel *)
  Theorem set_poi_refusal ps e : set_poi N sp ps = Err e -> e = EInvalidModel /\
    exists nm, poi sp = Some nm /\ (find_pset N ps nm = None \/ exists p, find_pset N ps nm = Some p /\ 1 < p_n N p).
  Proof.
    unfold set_poi. destruct (poi sp) as [nm|]; [|discriminate].
    destruct (String.eqb nm ""); [discriminate|].
    destruct (find_pset N ps nm) as [p|] eqn:Ef.
    - destruct (Nat.ltb 1 (p_n N p)) eqn:El; [|discriminate]. intros H; inversion H; subst. split; auto.
      exists nm. split; auto. right. exists p. split; auto. now apply Nat.ltb_lt.
    - intros H; inversion H; subst. split; auto. exists nm. auto.
  Qed.

  (* the index is the offset of the POI's slice in the tiling *)
  Theorem poi_index_is_slice_start ps start i : tiles N start ps -> set_poi N sp ps = Ok (Some i) ->
    exists nm k p, poi sp = Some nm /\ nth_error ps k = Some p /\ p_name N p = nm /\ p_n N p <= 1 /\
                   i = p_start N p /\ i = (start + total N (firstn k ps))%nat /\
                   forall j q, j < k -> nth_error ps j = Some q -> p_name N q <> nm.
  Proof.
    intros Ht H. destruct (set_poi_some ps i H) as (nm & p & Hp & _ & Hf & Hn & Hi).
    destruct (find_pset_nth ps nm p Hf) as (k & Hk & Hname & Hfirst).
    exists nm, k, p. repeat split; auto. rewrite Hi. exact (tiles_spec N ps start Ht k p Hk).
  Qed.

  (* for an accepted specification *)
  Theorem accepted_poi_index md i : build N sp = Ok md -> md_poi N md = Some i ->
    exists nm k p, poi sp = Some nm /\ nth_error (md_psets N md) k = Some p /\ p_name N p = nm /\ p_n N p <= 1 /\
                   i = p_start N p /\ i = total N (firstn k (md_psets N md)) /\ (i + p_n N p <= md_npars N md)%nat.
  Proof.
    intros Hb Hi. destruct (build_ok_parts N sp md Hb) as (inits & _ & _ & _ & _ & _ & _ & _ & Hpoi).
    rewrite Hi in Hpoi. pose proof (accepted_tiles N sp md Hb) as Ht.
    destruct (poi_index_is_slice_start _ 0 i Ht Hpoi) as (nm & k & p & H1 & H2 & H3 & H4 & H5 & H6 & _).
    exists nm, k, p. repeat split; auto.
    pose proof (tiles_bound N _ 0 Ht p (nth_error_In _ _ H2)) as [_ Hle]. pose proof (accepted_npars_ge N sp md Hb). lia.
  Qed.
End ConfigPoi.

(* non-vacuity, and the distinction the theorem draws: a one-bin shapefactor as the parameter of interest, registered after a
   three-bin shapefactor: position 2 in par_order, index 4 in the parameter vector *)
From Coq Require Import ZArith.
Definition poi_example_spec : spec QcNum :=
  Build_spec (N:=QcNum)
    [ Build_channel (N:=QcNum) "CR"
        [ Build_sample (N:=QcNum) "bkg" [mkq 100 1; mkq 80 1; mkq 60 1]
            [ Build_modifier (N:=QcNum) "sf_shape" Shapefactor (@MDNone QcNum);
              Build_modifier (N:=QcNum) "JES" Normsys (@MDNorm QcNum (mkq 7 8) (mkq 9 8)) ] ];
      Build_channel (N:=QcNum) "SR"
        [ Build_sample (N:=QcNum) "bkg" [mkq 20 1]
            [ Build_modifier (N:=QcNum) "sf2" Shapefactor (@MDNone QcNum);
              Build_modifier (N:=QcNum) "JES" Normsys (@MDNorm QcNum (mkq 3 4) (mkq 5 4)) ] ] ]
    [ Build_parcfg (N:=QcNum) "sf2" (Some [mkq 5 2]) (Some [(mkq 1 2, mkq 7 1)]) None None None None ]
    (Some "sf2"%string).
Example poi_example_index :
  match build QcNum poi_example_spec with
  | Ok md => md_poi QcNum md = Some 4%nat /\ map (p_name QcNum) (md_psets QcNum md) = ["JES"; "sf_shape"; "sf2"]%string /\
             map (p_start QcNum) (md_psets QcNum md) = [0; 1; 4]%nat /\ md_npars QcNum md = 5%nat
  | Err _ => False end.
Proof. vm_compute. repeat split; reflexivity. Qed.
