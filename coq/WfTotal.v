(* C20, the other half: model construction (Impl.build) is TOTAL up to pyhf's own exceptions, and it accepts exactly the
   well-formed specifications.  Everything holds for every number record N and EVERY specification: no premise, not even the
   schema-level ones (non-empty data, modifier data of the shape of its type) is needed.

     is_pyhf_exception e            := e is not EPy _ (EPy = KeyError / TypeError / IndexError / ValueError of the transcription)
     wf_spec N sp : bool            := conjunction of one boolean per consistency class that build checks (DESIGN Appendix B numbers):
        wf_channels_distinct (1)  wf_samples_distinct (2)  wf_modifiers_distinct (3)  wf_sample_lengths (4)  wf_modifier_lengths (5)
        wf_shapesys_unique (6)  wf_staterror_masks (7)  wf_requirements_agree (9, and 8: shared shapefactor sizes are among the r_n)
        wf_one_config_per_parameter + wf_overrides_fit (10)  wf_poi (11)  wf_settings_present (12)  wf_has_parameters (13)
        (class 2's "at least one sample per channel" is a schema rule; build does not check it and does not need it)
     build_char                     : match build N sp with Ok _ => wf_spec = true | Err e => is_pyhf_exception e = true /\ wf_spec = false end
     build_never_python_exception   : forall s, build N sp <> Err (EPy s)                                   (A)
     build_error_is_pyhf_exception  : build N sp = Err e -> is_pyhf_exception e = true
     accepted_implies_wf, wf_implies_accepted, accepted_iff_wf, refused_iff_not_wf, refused_with_pyhf_exception   (B, both directions, all classes)
     per class (refused := exists e, build N sp = Err e /\ is_pyhf_exception e = true), whatever else the specification contains:
        dup_channel_refused, dup_sample_refused, dup_modifier_refused, shapesys_reuse_refused, sample_length_mismatch_refused,
        modifier_length_mismatch_refused, staterror_mask_mismatch_refused, duplicate_parameter_config_refused,
        conflicting_paramset_refused, override_misfit_refused, missing_setting_refused, no_parameters_refused,
        undefined_poi_refused, nonscalar_poi_refused, and in terms of listed modifiers: shared_shapefactor_size_refused,
        lumi_without_settings_refused, poi_not_a_modifier_refused
   How the non-pyhf failure sites are excluded (each after the checks that precede it in build_hot):
     first_carrier = None (KeyError)      key_has_carrier: with distinct names a key of the sorted modifier list is declared in the cell of
                                          its listed modifier
     reduce_one _ [] _ (IndexError)       required_all_nonempty (a shapefactor name of first_decls has a size in sf_sizes)
     pset_create_ok / inits_of            reduce_one_char + required_shape: user_merge never returns PyNone, and returns Val when the template's
                                          entry is not Undef; constrained templates have aux (and factors), all have inits or PyNone
     reindex_ok                           last_carrier_exists; pset_of_requirement; reindex_shapesys_ok (the name is listed once: one declared cell,
                                          size = bin count by the two length checks); reindex_staterror_ok (mask row of the last carrier = mask
                                          row of the first carrier by stat_masks_consistent, size = length stat_vars)
   user_merge_char / reduce_one_char / reduce_all_char express success of the reconciliation as the booleans setting_present, override_fits,
   agree_all.  Examples total_* : an accepted specification with every modifier type and six single-fault variants, each failing exactly one class. *)
From Coq Require Import Bool Arith Lia Permutation String List.
Require Import PV.Num PV.Sort PV.Spec PV.Impl PV.Ref PV.Wf PV.Config PV.RefineLookup PV.RefineParams.
Import ListNotations.
Local Open Scope list_scope.

Definition is_pyhf_exception (e : err) : bool := match e with EPy _ => false | _ => true end.

(* ---------------------------------------------------------------- generic *)
Lemma check_all_ok {A} (f : A -> result unit) l : (forall x, In x l -> f x = Ok tt) -> check_all f l = Ok tt.
Proof. induction l as [|a l IH]; simpl; intros H; auto. rewrite (H a) by auto. simpl. apply IH. intros x Hx. apply H. auto. Qed.
Lemma collect_ok {A B} (f : A -> result (list B)) l : (forall x, In x l -> exists r, f x = Ok r) -> exists r, collect f l = Ok r.
Proof.
  induction l as [|a l IH]; simpl; intros H; [eauto|]. destruct (H a (or_introl eq_refl)) as [r Hr]. rewrite Hr. simpl.
  destruct IH as [r' Hr']; [intros x Hx; apply H; auto|]. rewrite Hr'. simpl. eauto.
Qed.
Lemma sum_single (cn : string) (v : nat) : forall l, NoDup l -> In cn l ->
  fold_right Nat.add 0 (map (fun x => if String.eqb x cn then v else 0) l) = v.
Proof.
  induction l as [|a l IH]; intros Hnd Hin; [destruct Hin|]. inversion Hnd as [|? ? Hni Hnd']; subst. simpl.
  destruct (String.eqb_spec a cn) as [e|ne].
  - subst a. assert (Z : fold_right Nat.add 0 (map (fun x => if String.eqb x cn then v else 0) l) = 0).
    { clear IH Hnd Hnd' Hin. induction l as [|b l IH]; simpl; auto. destruct (String.eqb_spec b cn) as [e|ne]; [subst; exfalso; apply Hni; now left|].
      apply IH. intros H. apply Hni. now right. }
    rewrite Z. lia.
  - destruct Hin as [Hin|Hin]; [contradiction|]. simpl. now apply IH.
Qed.

(* ---------------------------------------------------------------- user_merge: success is two boolean classes *)
Section Merge.
  Context {A : Type}.
  (* class 12: a setting without default must be configured *)
  Definition setting_present (d : optv (list A)) (u : option (list A)) : bool :=
    match d, u with PyNone, None => false | _, _ => true end.
  (* class 10: an override only for attributes the parameter set defines, of the right length *)
  Definition override_fits (n : nat) (d : optv (list A)) (u : option (list A)) : bool :=
    match u with
    | None => true
    | Some l => match d with Undef => false | PyNone => Nat.eqb (length l) n
                        | Val [] => true | Val dl => Nat.eqb (length l) (length dl) end
    end.
  Lemma user_merge_char n d u :
    match user_merge n d u with
    | Ok r => setting_present d u && override_fits n d u = true /\ r <> PyNone /\ (d <> Undef -> exists l, r = Val l)
    | Err e => e = EInvalidModel /\ setting_present d u && override_fits n d u = false
    end.
  Proof.
    unfold user_merge, setting_present, override_fits. destruct u as [l|]; destruct d as [| |dl]; simpl; auto.
    - destruct (Nat.eqb (length l) n); simpl; auto. repeat split; [discriminate|eauto].
    - destruct dl as [|x dl]; [repeat split; [discriminate|eauto]|].
      destruct (Nat.eqb (length l) (length (x :: dl))); simpl; auto. repeat split; [discriminate|eauto].
    - repeat split; [discriminate|]. intros H; contradiction.
    - repeat split; [discriminate|eauto].
  Qed.
End Merge.

(* ---------------------------------------------------------------- reduce_one / reduce_all: success as booleans *)
Section ReduceChar.
  Variable N : Num.
  Variable sp : spec N.
  Notation req := (req N).

  (* class 9 (and 8: the sizes of a shared shapefactor are among the r_n) *)
  Definition agree_all (rs : list req) : bool :=
    agree ptype_eqb (map (r_type N) rs) && agree Nat.eqb (map (r_n N) rs) && agree Bool.eqb (map (r_scalar N) rs) &&
    agree (optv_eqb (list_eqb (veqb N))) (map (r_inits N) rs) && agree (optv_eqb (list_eqb (vv_eqb N))) (map (r_bounds N) rs) &&
    agree (optv_eqb (list_eqb (veqb N))) (map (r_aux N) rs) && agree (optv_eqb (list_eqb (veqb N))) (map (r_factors N) rs) &&
    agree (optv_eqb (list_eqb (veqb N))) (map (r_var N) rs) && agree fixedv_eqb (map (r_fixed N) rs).
  Definition usigmas (u : option (parcfg N)) : option (list (V N)) := option_map (map (fun s => nmul N s s)) (usr N u pc_sigmas).
  Definition settings_present (name : string) (r0 : req) : bool :=
    let u := find_user N sp name in
    setting_present (r_inits N r0) (usr N u pc_inits) && setting_present (r_bounds N r0) (usr N u pc_bounds) &&
    setting_present (r_aux N r0) (usr N u pc_auxdata) && setting_present (r_factors N r0) (usr N u pc_factors) &&
    setting_present (r_var N r0) (usigmas u).
  Definition overrides_fit (name : string) (r0 : req) : bool :=
    let u := find_user N sp name in
    override_fits (r_n N r0) (r_inits N r0) (usr N u pc_inits) && override_fits (r_n N r0) (r_bounds N r0) (usr N u pc_bounds) &&
    override_fits (r_n N r0) (r_aux N r0) (usr N u pc_auxdata) && override_fits (r_n N r0) (r_factors N r0) (usr N u pc_factors) &&
    override_fits (r_n N r0) (r_var N r0) (usigmas u).
  Definition reduce_okb (name : string) (rs : list req) : bool :=
    match rs with [] => false | r0 :: _ => agree_all rs && settings_present name r0 && overrides_fit name r0 end.

  Ltac agree_case E :=
    match goal with
    | |- context [if negb ?b then _ else _] => destruct b eqn:E; simpl negb; cbv iota;
        [|split; [reflexivity|rewrite ?andb_false_r, ?andb_false_l; reflexivity]]
    end.
  Ltac merge_case n d u x E :=
    let C := fresh "C" in pose proof (user_merge_char n d u) as C; destruct (user_merge n d u) as [x|x] eqn:E; try rewrite E in C; unfold bind at 1;
    [|destruct C as [-> C]; split; [reflexivity|]].

  Lemma reduce_one_char name r0 rs start :
    match reduce_one N sp name (r0 :: rs) start with
    | Ok p => reduce_okb name (r0 :: rs) = true /\ p_type N p = r_type N r0 /\ p_n N p = r_n N r0 /\
              p_aux N p <> PyNone /\
              (r_aux N r0 <> Undef -> exists l, p_aux N p = Val l) /\ (r_factors N r0 <> Undef -> exists l, p_factors N p = Val l) /\
              (r_inits N r0 <> Undef -> exists l, p_inits N p = Val l)
    | Err e => is_pyhf_exception e = true /\ reduce_okb name (r0 :: rs) = false
    end.
  Proof.
    unfold reduce_one, reduce_okb, agree_all, settings_present, overrides_fit, usigmas.
    remember (find_user N sp name) as u eqn:Hequ. remember (r0 :: rs) as l eqn:Heql.
    agree_case E1. agree_case E2. agree_case E3. agree_case E4.
    merge_case (r_n N r0) (r_inits N r0) (usr N u pc_inits) xi Ei. 2:{ apply andb_false_iff in C. destruct C as [C|C]; rewrite C; rewrite ?andb_false_r, ?andb_false_l; reflexivity. }
    agree_case E5.
    merge_case (r_n N r0) (r_bounds N r0) (usr N u pc_bounds) xb Eb. 2:{ apply andb_false_iff in C0. destruct C0 as [C0|C0]; rewrite C0; rewrite ?andb_false_r, ?andb_false_l; reflexivity. }
    agree_case E6.
    merge_case (r_n N r0) (r_aux N r0) (usr N u pc_auxdata) xa Ea. 2:{ apply andb_false_iff in C1. destruct C1 as [C1|C1]; rewrite C1; rewrite ?andb_false_r, ?andb_false_l; reflexivity. }
    agree_case E7.
    merge_case (r_n N r0) (r_factors N r0) (usr N u pc_factors) xf Ef. 2:{ apply andb_false_iff in C2. destruct C2 as [C2|C2]; rewrite C2; rewrite ?andb_false_r, ?andb_false_l; reflexivity. }
    agree_case E8.
    merge_case (r_n N r0) (r_var N r0) (option_map (map (fun s => nmul N s s)) (usr N u pc_sigmas)) xv Ev. 2:{ apply andb_false_iff in C3. destruct C3 as [C3|C3]; rewrite C3; rewrite ?andb_false_r, ?andb_false_l; reflexivity. }
    agree_case E9.
    cbn [p_type p_n p_aux p_factors p_inits].
    destruct C as (C & _ & Ci). destruct C0 as (C0 & _). destruct C1 as (C1 & Ca1 & Ca2). destruct C2 as (C2 & _ & Cf). destruct C3 as (C3 & _).
    apply andb_true_iff in C, C0, C1, C2, C3. destruct C as [-> ->], C0 as [-> ->], C1 as [-> ->], C2 as [-> ->], C3 as [-> ->].
    repeat split; auto.
  Qed.

  Definition reduce_all_okb (l : list (string * list req)) : bool := forallb (fun nr => reduce_okb (fst nr) (snd nr)) l.
  Lemma reduce_all_char : forall l start, (forall name rs, In (name, rs) l -> rs <> []) ->
    match reduce_all N sp l start with
    | Ok ps => reduce_all_okb l = true /\ length ps = length l
    | Err e => is_pyhf_exception e = true /\ reduce_all_okb l = false
    end.
  Proof.
    induction l as [|[name rs] t IH]; intros start Hne; simpl; [auto|].
    destruct rs as [|r0 rs']; [exfalso; apply (Hne name []); [left|]; reflexivity|].
    pose proof (reduce_one_char name r0 rs' start) as C. destruct (reduce_one N sp name (r0 :: rs') start) as [p|e]; simpl.
    - destruct C as (C & _). specialize (IH (start + p_n N p) (fun n r H => Hne n r (or_intror H))).
      destruct (reduce_all N sp t (start + p_n N p)) as [ps|e]; simpl.
      + destruct IH as [IH1 IH2]. unfold reduce_all_okb in *. simpl. rewrite IH1. simpl in C. rewrite C. auto.
      + destruct IH as [IH1 IH2]. split; auto. unfold reduce_all_okb in *. simpl. rewrite IH2. apply andb_false_r.
    - destruct C as [C1 C2]. split; auto. unfold reduce_all_okb. simpl. simpl in C2. rewrite C2. reflexivity.
  Qed.
End ReduceChar.

(* ---------------------------------------------------------------- the checks that precede parameter reconciliation *)
Section Total.
  Variable N : Num.
  Variable sp : spec N.
  Notation chs := (cfg_channels N sp).
  Notation smps := (cfg_samples N sp).
  Notation mods := (cfg_modifiers N sp).
  Notation reqall := (required_all N sp chs smps mods).
  Notation requ := (required N sp chs smps mods).
  Notation walk := (walk_decls N sp chs smps mods).
  Notation firsts := (first_decls N sp chs smps mods).

  Lemma dups_false_nodup : listing_dups N sp = false ->
    NoDup (map c_name (channels sp)) /\
    (forall c, In c (channels sp) -> NoDup (map s_name (c_samples c))) /\
    (forall c s, In c (channels sp) -> In s (c_samples c) -> NoDup (map mkey (s_mods s))).
  Proof.
    unfold listing_dups. intros Hd. apply orb_false_iff in Hd. destruct Hd as [Hd H3]. apply orb_false_iff in Hd. destruct Hd as [H1 H2].
    split; [now apply has_dup_false_NoDup|]. split.
    - intros c Hc. apply has_dup_false_NoDup. destruct (has_dup (map s_name (c_samples c))) eqn:E; auto.
      assert (existsb (fun c => has_dup (map s_name (c_samples c))) (channels sp) = true) by (apply existsb_exists; eauto). congruence.
    - intros c s Hc Hs. apply has_dup_pair_false_NoDup. destruct (has_dup_pair (map mkey (s_mods s))) eqn:E; auto.
      assert (existsb (fun s => has_dup_pair (map mkey (s_mods s))) (all_samples N sp) = true).
      { apply existsb_exists. exists s. split; auto. unfold all_samples. apply in_flat_map. eauto. } congruence.
  Qed.

  Section Distinct.
  Hypothesis Hdups : listing_dups N sp = false.
  Let Hchan := proj1 (dups_false_nodup Hdups).
  Let Hsamp := proj1 (proj2 (dups_false_nodup Hdups)).
  Let Hmods := proj2 (proj2 (dups_false_nodup Hdups)).

  Lemma d_listed_cell c s m : listed N sp c s m -> cell N sp (c_name c) (s_name s) = Some s.
  Proof. intros (Hc & Hs & _). exact (cell_present N sp Hchan Hsamp c s Hc Hs). Qed.
  Lemma d_listed_cellmod c s m : listed N sp c s m -> cellmod N sp (c_name c) (s_name s) (mkey m) = Some m.
  Proof.
    intros Hl. unfold cellmod. rewrite (d_listed_cell c s m Hl). destruct Hl as (Hc & Hs & Hm).
    exact (smod_present N sp Hmods c s m Hc Hs Hm).
  Qed.
  Lemma d_listed_declared c s m : listed N sp c s m -> declared N sp (c_name c) (s_name s) (mkey m) = true.
  Proof. intros Hl. unfold declared. now rewrite (d_listed_cellmod c s m Hl). Qed.
  Lemma d_listed_carries c s m : listed N sp c s m -> carries N sp chs (mkey m) (s_name s) = true.
  Proof.
    intros Hl. unfold carries. apply existsb_exists. exists (c_name c). split; [apply (listed_names N sp c s m Hl)|apply (d_listed_declared c s m Hl)].
  Qed.
  Lemma d_listed_walk c s m : listed N sp c s m -> In (m_name m, (c_name c, s_name s, m)) (walk (m_type m)).
  Proof.
    intros Hl. apply walk_decls_in. destruct (listed_names N sp c s m Hl) as (H1 & H2 & H3 & _).
    repeat split; auto. exact (d_listed_cellmod c s m Hl).
  Qed.

  (* a key of the sorted modifier list is carried by some sample: first/last carrier exist (the KeyError / IndexError sites) *)
  Lemma key_has_carrier t k : In k (mods_of mods t) -> exists sn, In sn smps /\ carries N sp chs k sn = true.
  Proof.
    intros Hk. destruct (mods_of_listed N sp t k Hk) as (c & s & m & Hl & <- & _).
    exists (s_name s). split; [apply (listed_names N sp c s m Hl)|apply (d_listed_carries c s m Hl)].
  Qed.
  Lemma first_carrier_exists t k : In k (mods_of mods t) -> exists s0, first_carrier N sp chs smps k = Some s0.
  Proof. intros Hk. destruct (key_has_carrier t k Hk) as (sn & H1 & H2). exact (find_exists _ _ sn H1 H2). Qed.
  Lemma last_carrier_exists t k : In k (mods_of mods t) ->
    exists sl, last_carrier N sp chs smps k = Some sl /\ In sl smps /\ carries N sp chs k sl = true.
  Proof.
    intros Hk. destruct (key_has_carrier t k Hk) as (sn & H1 & H2).
    assert (E : exists sl, last_carrier N sp chs smps k = Some sl).
    { unfold last_carrier, last_find. apply (find_exists _ _ sn); auto. now apply in_rev in H1. }
    destruct E as [sl E]. exists sl. split; auto. unfold last_carrier in E. apply last_find_some in E. exact E.
  Qed.
  Lemma first_carrier_check : forallb (fun k => match first_carrier N sp chs smps k with Some _ => true | None => false end) (mods_of mods Staterror) = true.
  Proof. apply forallb_forall. intros k Hk. destruct (first_carrier_exists Staterror k Hk) as [s0 ->]. reflexivity. Qed.

  (* the name of every key is a required parameter set *)
  Lemma key_first_decl t k : In k (mods_of mods t) -> exists cn sn m, In (fst k, (cn, sn, m)) (firsts t).
  Proof.
    intros Hk. destruct (mods_of_listed N sp t k Hk) as (c & s & m & Hl & <- & <-).
    apply first_decl_exists. apply in_map_iff. exists (m_name m, (c_name c, s_name s, m)). split; auto. apply (d_listed_walk c s m Hl).
  Qed.
  End Distinct.

  (* ---- every requirement list is non-empty (the IndexError site of reduce_paramsets_requirements) ---- *)
  Lemma sf_sizes_nonempty name : In name (map fst (walk Shapefactor)) -> sf_sizes N sp chs smps mods name <> [].
  Proof.
    intros H Z. apply in_map_iff in H. destruct H as [d [E Hd]].
    assert (Hin : In (match cell N sp (fst (fst (snd d))) (snd (fst (snd d))) with Some s => length (s_data s) | None => O end)
                     (sf_sizes N sp chs smps mods name)).
    { unfold sf_sizes. apply nodup_In. apply in_flat_map. exists d. split; auto. rewrite E, String.eqb_refl. now left. }
    rewrite Z in Hin. destruct Hin.
  Qed.
  Lemma required_nonempty t name rs : In (name, rs) (requ t) -> rs <> [].
  Proof.
    intros H. destruct t; unfold required in H; apply in_map_iff in H; destruct H as [d [E H]].
    - destruct d as [n' [[cn sn] m]]. inversion E; subst. discriminate.
    - destruct d as [n' [[cn sn] m]]. inversion E; subst. discriminate.
    - destruct d as [n' [[cn sn] m]]. inversion E; subst. discriminate.
    - destruct d as [n' [[cn sn] m]]. inversion E; subst. discriminate.
    - inversion E; subst. intros Z. apply map_eq_nil in Z. revert Z. apply sf_sizes_nonempty.
      apply first_decls_names. apply in_map. exact H.
    - destruct d as [n' [[cn sn] m]]. inversion E; subst. discriminate.
    - inversion E; subst. discriminate.
  Qed.
  Definition lists_nonempty (acc : list (string * list (req N))) : Prop := forall n l, In (n, l) acc -> l <> [].
  Lemma merge_req_nonempty : forall acc name rs, rs <> [] -> lists_nonempty acc -> lists_nonempty (merge_req N acc name rs).
  Proof.
    unfold lists_nonempty. induction acc as [|[n0 l0] t IH]; simpl; intros name rs Hrs Hacc n l Hin.
    - destruct Hin as [E|[]]. inversion E; subst. auto.
    - destruct (String.eqb n0 name).
      + destruct Hin as [E|Hin]; [|eapply Hacc; eauto]. inversion E; subst. intros Z. apply app_eq_nil in Z. tauto.
      + destruct Hin as [E|Hin]; [eapply Hacc; eauto|]. eapply IH; eauto.
  Qed.
  Lemma merge_list_nonempty : forall l acc, lists_nonempty l -> lists_nonempty acc -> lists_nonempty (merge_list acc l).
  Proof.
    unfold merge_list. induction l as [|[n rs] l IH]; simpl; intros acc Hl Hacc; auto.
    apply IH; [intros n' l' H; apply (Hl n' l'); right; exact H|]. apply merge_req_nonempty; auto. apply (Hl n rs). now left.
  Qed.
  Lemma required_all_nonempty : lists_nonempty reqall.
  Proof.
    rewrite required_all_flat. apply merge_list_nonempty; [|intros n l []].
    intros n l H. apply in_flat_map in H. destruct H as [t [_ H]]. eapply required_nonempty; eauto.
  Qed.

  (* ---- constrained requirement templates carry their auxiliary data; every template has inits or asks for them ---- *)
  Definition req_shape_ok (r : req N) : Prop :=
    r_inits N r <> Undef /\ (r_type N r = PNormal -> r_aux N r <> Undef) /\
    (r_type N r = PPoisson -> r_aux N r <> Undef /\ r_factors N r <> Undef).
  Lemma required_shape t name rs r : In (name, rs) (requ t) -> In r rs -> req_shape_ok r.
  Proof.
    unfold req_shape_ok. intros H Hr. destruct t; unfold required in H; apply in_map_iff in H; destruct H as [d [E H]].
    - destruct d as [n' [[cn sn] m]]. inversion E; subst. destruct Hr as [<-|[]]. simpl. repeat split; discriminate.
    - destruct d as [n' [[cn sn] m]]. inversion E; subst. destruct Hr as [<-|[]]. simpl. repeat split; discriminate.
    - destruct d as [n' [[cn sn] m]]. inversion E; subst. destruct Hr as [<-|[]]. simpl. repeat split; discriminate.
    - destruct d as [n' [[cn sn] m]]. inversion E; subst. destruct Hr as [<-|[]]. simpl. repeat split; discriminate.
    - inversion E; subst. apply in_map_iff in Hr. destruct Hr as [n [<- _]]. simpl. repeat split; discriminate.
    - destruct d as [n' [[cn sn] m]]. inversion E; subst. destruct Hr as [<-|[]]. simpl. repeat split; discriminate.
    - inversion E; subst. destruct Hr as [<-|[]]. simpl. repeat split; discriminate.
  Qed.
  Lemma required_all_shape name rs r : In (name, rs) reqall -> In r rs -> req_shape_ok r.
  Proof.
    intros H Hr. assert (Hq : req_in reqall name r) by (exists rs; auto).
    apply required_all_in in Hq. destruct Hq as (t & rs2 & H1 & H2). eapply required_shape; eauto.
  Qed.

  (* ---- parameter sets made from the requirement list can be created (TypeError / KeyError sites of the constructors) ---- *)
  Lemma reduced_pset_creatable name rs start p : In (name, rs) reqall -> reduce_one N sp name rs start = Ok p ->
    pset_create_ok N p = Ok tt /\ exists l, inits_of N p = Ok l.
  Proof.
    intros Hin Hr. destruct rs as [|r0 rs']; [discriminate Hr|].
    destruct (required_all_shape name (r0 :: rs') r0 Hin (or_introl eq_refl)) as (Si & Sn & Sp).
    pose proof (reduce_one_char N sp name r0 rs' start) as C. rewrite Hr in C.
    destruct C as (_ & Ht & _ & _ & Ca & Cf & Ci). split.
    - unfold pset_create_ok. rewrite Ht. destruct (r_type N r0) eqn:Et; auto.
      + destruct (Ca (Sn eq_refl)) as [l ->]. reflexivity.
      + destruct (Sp eq_refl) as [S1 S2]. destruct (Ca S1) as [l ->]. destruct (Cf S2) as [l' ->]. reflexivity.
    - unfold inits_of. destruct (Ci Si) as [l ->]. eauto.
  Qed.
  Lemma reduced_psets_creatable ps : reduce_all N sp reqall 0 = Ok ps ->
    check_all (pset_create_ok N) ps = Ok tt /\ exists inits, collect (inits_of N) ps = Ok inits.
  Proof.
    intros H.
    assert (G : forall p, In p ps -> pset_create_ok N p = Ok tt /\ exists l, inits_of N p = Ok l).
    { intros p Hp. apply In_nth_error in Hp. destruct Hp as [i Hi].
      destruct (reduce_all_origin N sp _ _ _ H i p Hi) as (name & rs & st & Hl & Hr).
      apply nth_error_In in Hl. eapply reduced_pset_creatable; eauto. }
    split; [apply check_all_ok|apply collect_ok]; intros p Hp; apply (G p Hp).
  Qed.

  (* the parameter set of a requirement *)
  Lemma pset_of_requirement ps t name rs r : reduce_all N sp reqall 0 = Ok ps -> In (name, rs) (requ t) -> In r rs ->
    exists p, find_pset N ps name = Some p /\ p_n N p = r_n N r /\ p_type N p = r_type N r.
  Proof.
    intros H Hin Hr. assert (Hq : req_in reqall name r) by (apply required_all_in; eauto).
    destruct Hq as (rs' & Hin' & Hr').
    destruct (reduce_all_find N sp _ _ _ (required_all_nodup N sp) H name rs' Hin') as (p & i & st & Hf & _ & _ & Hone).
    destruct (reduce_one_fields N sp _ _ _ _ Hone) as (_ & _ & Hall). destruct (Hall r Hr') as (H1 & H2 & _).
    exists p. auto.
  Qed.

  (* ---- the access-field re-indexing of shapesys / staterror (IndexError / KeyError / ValueError sites) ---- *)
  Section Reindex.
  Hypothesis Hdups : listing_dups N sp = false.
  Hypothesis Hss : has_dup (shapesys_names_listed N sp) = false.
  Hypothesis Hnom : nominal_lengths_ok N sp chs smps = true.
  Hypothesis Hsslen : lengths_ok N sp chs smps mods Shapesys (mdlist N) = true.
  Hypothesis Hmasks : forallb (stat_masks_consistent N sp chs smps) (mods_of mods Staterror) = true.
  Variable ps : list (pset N).
  Hypothesis Hps : reduce_all N sp reqall 0 = Ok ps.

  Lemma d_shapesys_unique c s m c' s' m' : listed N sp c s m -> listed N sp c' s' m' ->
    m_type m = Shapesys -> m_type m' = Shapesys -> m_name m = m_name m' -> c = c' /\ s = s' /\ m = m'.
  Proof.
    intros (Hc & Hs & Hm) (Hc' & Hs' & Hm') Ht Ht' Hn.
    pose proof (proj1 (has_dup_false_NoDup _) Hss) as Hnd. rewrite shapesys_names_by_channel in Hnd.
    assert (I1 : In (m_name m) (ssn_mod N m)) by (unfold ssn_mod; rewrite Ht; now left).
    assert (I1' : In (m_name m) (ssn_mod N m')) by (unfold ssn_mod; rewrite Ht', Hn; now left).
    assert (I2 : In (m_name m) (ssn_sample N s)) by (apply in_flat_map; eauto).
    assert (I2' : In (m_name m) (ssn_sample N s')) by (apply in_flat_map; eauto).
    assert (I3 : In (m_name m) (ssn_chan N c)) by (apply in_flat_map; eauto).
    assert (I3' : In (m_name m) (ssn_chan N c')) by (apply in_flat_map; eauto).
    assert (Ec : c = c') by (eapply (NoDup_flat_map_inj (ssn_chan N)); eauto). subst c'.
    pose proof (NoDup_flat_map_block _ _ c Hnd Hc) as Hnd2.
    assert (Es : s = s') by (eapply (NoDup_flat_map_inj (ssn_sample N)); eauto). subst s'.
    pose proof (NoDup_flat_map_block _ _ s Hnd2 Hs) as Hnd3.
    assert (Em : m = m') by (eapply (NoDup_flat_map_inj (ssn_mod N)); eauto). auto.
  Qed.

  (* a declared cell of a shapesys key is THE cell of its one listed modifier *)
  Lemma d_shapesys_declared_only c s m cn' sn' : listed N sp c s m -> m_type m = Shapesys ->
    declared N sp cn' sn' (mkey m) = true -> cn' = c_name c /\ sn' = s_name s.
  Proof.
    intros Hl Ht. unfold declared. destruct (cellmod N sp cn' sn' (mkey m)) as [m'|] eqn:E; [|discriminate]. intros _.
    apply cellmod_listed in E. destruct E as (c2 & s2 & Hl2 & <- & <- & Ek).
    assert (Hn2 : m_name m = m_name m') by (apply (f_equal fst) in Ek; simpl in Ek; auto).
    assert (Ht2 : m_type m' = Shapesys).
    { apply (f_equal snd) in Ek. simpl in Ek. rewrite Ht in Ek. now apply tyname_inj. }
    destruct (d_shapesys_unique c s m c2 s2 m' Hl Hl2 Ht Ht2 Hn2) as (-> & -> & _). auto.
  Qed.

  Lemma chs_nodup' : NoDup chs.
  Proof. apply sort_uniq_nodup. Qed.

  Lemma reindex_shapesys_ok k : In k (mods_of mods Shapesys) -> reindex_ok N sp chs smps ps k = Ok tt.
  Proof.
    intros Hk. destruct (mods_of_listed N sp Shapesys k Hk) as (c & s & m & Hl & Ek & Ht). subst k.
    destruct (listed_names N sp c s m Hl) as (Hcn & Hsn & _ & _).
    pose proof (d_listed_cellmod Hdups c s m Hl) as Hcm. pose proof (d_listed_cell Hdups c s m Hl) as Hcell.
    (* the first declaration is this cell *)
    destruct (key_first_decl Hdups Shapesys (mkey m) Hk) as (cn' & sn' & m' & Hd). simpl fst in Hd.
    pose proof (first_decls_in N sp _ _ Hd) as Hd'. apply walk_decls_in in Hd'. destruct Hd' as (_ & _ & _ & Hcm').
    assert (Hdec : declared N sp cn' sn' (mkey m) = true).
    { unfold declared. unfold mkey at 1. rewrite Ht. simpl tyname. change ("shapesys"%string) with (tyname Shapesys). now rewrite Hcm'. }
    destruct (d_shapesys_declared_only c s m cn' sn' Hl Ht Hdec) as [-> ->].
    assert (Em : m' = m).
    { unfold mkey in Hcm. rewrite Ht in Hcm. rewrite Hcm' in Hcm. now inversion Hcm. }
    subst m'.
    (* its paramset has the bin count of the channel *)
    assert (Hreq : In (m_name m, [req_shapesys N (s_data s) (mdlist N m)]) (requ Shapesys)).
    { unfold required. apply in_map_iff. exists (m_name m, (c_name c, s_name s, m)). split; auto. now rewrite Hcell. }
    destruct (pset_of_requirement ps Shapesys _ _ _ Hps Hreq (or_introl eq_refl)) as (p & Hf & Hn & _).
    assert (Hlen1 : length (s_data s) = nbins N sp (c_name c)).
    { unfold nominal_lengths_ok in Hnom. rewrite forallb_forall in Hnom. specialize (Hnom _ Hcn). rewrite forallb_forall in Hnom.
      specialize (Hnom _ Hsn). rewrite Hcell in Hnom. now apply Nat.eqb_eq. }
    assert (Hlen2 : length (mdlist N m) = nbins N sp (c_name c)).
    { unfold lengths_ok in Hsslen. rewrite forallb_forall in Hsslen. specialize (Hsslen _ Hk). rewrite forallb_forall in Hsslen.
      specialize (Hsslen _ Hsn). rewrite forallb_forall in Hsslen. specialize (Hsslen _ Hcn). rewrite Hcm in Hsslen. now apply Nat.eqb_eq. }
    assert (Hpn : p_n N p = nbins N sp (c_name c)).
    { rewrite Hn. simpl. rewrite zip3_length, Hlen1, Hlen2. apply Nat.min_id. }
    (* the last carrier is this sample and its mask row has exactly the bins of the channel *)
    destruct (last_carrier_exists Hdups Shapesys (mkey m) Hk) as (sl & Hsl & Hslin & Hslc).
    assert (Esl : sl = s_name s).
    { unfold carries in Hslc. apply existsb_exists in Hslc. destruct Hslc as [cn' [_ Hd2]].
      now destruct (d_shapesys_declared_only c s m cn' sl Hl Ht Hd2). }
    subst sl. unfold reindex_ok. rewrite Hsl. simpl fst. rewrite Hf.
    assert (Hcount : count_true (maskrow N sp chs (mkey m) (s_name s)) = p_n N p).
    { rewrite count_true_maskrow, Hpn. rewrite <- (sum_single (c_name c) (nbins N sp (c_name c)) chs chs_nodup' Hcn).
      f_equal. apply map_ext_in. intros x Hx. unfold wbins. destruct (String.eqb_spec x (c_name c)) as [e|ne].
      - subst x. now rewrite (d_listed_declared Hdups c s m Hl).
      - destruct (declared N sp x (s_name s) (mkey m)) eqn:Ed; auto. destruct (d_shapesys_declared_only c s m x (s_name s) Hl Ht Ed). contradiction. }
    rewrite Hcount, Nat.eqb_refl. reflexivity.
  Qed.

  Lemma reindex_staterror_ok k : In k (mods_of mods Staterror) -> reindex_ok N sp chs smps ps k = Ok tt.
  Proof.
    intros Hk.
    assert (Hreq : In (fst k, [req_staterror N (stat_vars N sp chs smps k)]) (requ Staterror)).
    { unfold required. apply in_map_iff. exists k. split; auto. }
    destruct (pset_of_requirement ps Staterror _ _ _ Hps Hreq (or_introl eq_refl)) as (p & Hf & Hn & _).
    destruct (first_carrier_exists Hdups Staterror k Hk) as [s0 Hs0].
    destruct (last_carrier_exists Hdups Staterror k Hk) as (sl & Hsl & Hslin & Hslc).
    unfold reindex_ok. rewrite Hsl, Hf.
    assert (Hrow : maskrow N sp chs k sl = maskrow N sp chs k s0).
    { rewrite forallb_forall in Hmasks. specialize (Hmasks k Hk). unfold stat_masks_consistent in Hmasks. rewrite Hs0 in Hmasks.
      rewrite forallb_forall in Hmasks. specialize (Hmasks sl Hslin). rewrite Hslc in Hmasks. simpl in Hmasks. now apply list_eqb_bool_eq. }
    assert (Hcount : count_true (maskrow N sp chs k sl) = p_n N p).
    { rewrite Hrow, Hn. simpl. symmetry. now apply stat_vars_length. }
    rewrite Hcount, Nat.eqb_refl. reflexivity.
  Qed.
  End Reindex.

  (* ================================================================ wf_spec: one boolean per consistency class that build checks
     (DESIGN Appendix B; the numbers are the class numbers there) *)
  Definition wf_channels_distinct : bool := negb (has_dup (map c_name (channels sp))).                                        (* 1 *)
  Definition wf_samples_distinct : bool := negb (existsb (fun c => has_dup (map s_name (c_samples c))) (channels sp)).        (* 2 *)
  Definition wf_modifiers_distinct : bool := negb (existsb (fun s => has_dup_pair (map mkey (s_mods s))) (all_samples N sp)). (* 3 *)
  Definition wf_shapesys_unique : bool := negb (has_dup (shapesys_names_listed N sp)).                                        (* 6 *)
  Definition wf_sample_lengths : bool := nominal_lengths_ok N sp chs smps.                                                    (* 4 *)
  Definition wf_modifier_lengths : bool :=                                                                                    (* 5 *)
    lengths_ok N sp chs smps mods Histosys (mdlo N) && lengths_ok N sp chs smps mods Histosys (mdhi N) &&
    lengths_ok N sp chs smps mods Shapesys (mdlist N) && lengths_ok N sp chs smps mods Staterror (mdlist N).
  Definition wf_staterror_masks : bool := forallb (stat_masks_consistent N sp chs smps) (mods_of mods Staterror).             (* 7 *)
  Definition wf_one_config_per_parameter : bool := negb (user_dups N sp).                                                     (* 10, names *)
  (* 9, and 8: the sizes demanded for a shapefactor shared between channels are the r_n of its requirements *)
  Definition wf_requirements_agree : bool := forallb (fun nr => agree_all N (snd nr)) reqall.
  Definition wf_settings_present : bool :=                                                                                    (* 12 *)
    forallb (fun nr => match snd nr with r0 :: _ => settings_present N sp (fst nr) r0 | [] => true end) reqall.
  Definition wf_overrides_fit : bool :=                                                                                       (* 10, lengths / defined attributes *)
    forallb (fun nr => match snd nr with r0 :: _ => overrides_fit N sp (fst nr) r0 | [] => true end) reqall.
  Definition wf_has_parameters : bool := match reqall with [] => false | _ => true end.                                      (* 13 *)
  Definition wf_poi : bool :=                                                                                                 (* 11 *)
    match poi sp with
    | None => true
    | Some nm => if String.eqb nm "" then true else
        match find (fun nr => String.eqb (fst nr) nm) reqall with
        | Some (_, r0 :: _) => negb (Nat.ltb 1 (r_n N r0))
        | _ => false end
    end.
  Definition wf_spec : bool :=
    wf_channels_distinct && wf_samples_distinct && wf_modifiers_distinct && wf_shapesys_unique && wf_sample_lengths &&
    wf_modifier_lengths && wf_staterror_masks && wf_one_config_per_parameter && wf_requirements_agree && wf_settings_present &&
    wf_overrides_fit && wf_has_parameters && wf_poi.

  Lemma reduce_all_okb_split : forall l, lists_nonempty l ->
    reduce_all_okb N sp l =
    forallb (fun nr => agree_all N (snd nr)) l &&
    forallb (fun nr => match snd nr with r0 :: _ => settings_present N sp (fst nr) r0 | [] => true end) l &&
    forallb (fun nr => match snd nr with r0 :: _ => overrides_fit N sp (fst nr) r0 | [] => true end) l.
  Proof.
    induction l as [|[name rs] t IH]; intros Hne; [reflexivity|]. unfold reduce_all_okb in *. simpl.
    rewrite IH by (intros n l' H; apply (Hne n l'); right; exact H).
    destruct rs as [|r0 rs']; [exfalso; apply (Hne name []); [left|]; reflexivity|]. unfold reduce_okb.
    destruct (agree_all N (r0 :: rs')), (settings_present N sp name r0), (overrides_fit N sp name r0); simpl; rewrite ?andb_false_r; reflexivity.
  Qed.

  Lemma reduce_all_find_first : forall l start ps nm, reduce_all N sp l start = Ok ps ->
    match find (fun nr => String.eqb (fst nr) nm) l with
    | Some (name, rs) => exists p st, find_pset N ps nm = Some p /\ reduce_one N sp name rs st = Ok p
    | None => find_pset N ps nm = None
    end.
  Proof.
    induction l as [|[name rs] t IH]; intros start ps nm H; simpl in H.
    - inversion H; subst. reflexivity.
    - destruct (reduce_one N sp name rs start) as [p0|e] eqn:E1; simpl in H; [|discriminate].
      destruct (reduce_all N sp t (start + p_n N p0)) as [ps'|e] eqn:E2; simpl in H; [|discriminate].
      inversion H; subst ps. destruct (reduce_one_start N sp _ _ _ _ E1) as [_ Hname]. unfold find_pset. simpl. rewrite Hname.
      destruct (String.eqb name nm); [eauto|]. apply (IH _ _ nm E2).
  Qed.
  Lemma set_poi_char ps : reduce_all N sp reqall 0 = Ok ps ->
    match set_poi N sp ps with Ok _ => wf_poi = true | Err e => e = EInvalidModel /\ wf_poi = false end.
  Proof.
    intros Hps. unfold set_poi, wf_poi. destruct (poi sp) as [nm|]; auto. destruct (String.eqb nm ""); auto.
    pose proof (reduce_all_find_first _ _ _ nm Hps) as F.
    destruct (find (fun nr => String.eqb (fst nr) nm) reqall) as [[name rs]|].
    - destruct F as (p & st & Hf & Hone). rewrite Hf. destruct rs as [|r0 rs']; [discriminate Hone|].
      pose proof (reduce_one_char N sp name r0 rs' st) as C. rewrite Hone in C. destruct C as (_ & _ & Hn & _). rewrite Hn.
      destruct (Nat.ltb 1 (r_n N r0)); simpl; auto.
    - rewrite F. auto.
  Qed.

  Ltac refuse E := split; [reflexivity|]; unfold wf_spec; rewrite E; rewrite ?andb_false_r, ?andb_false_l; reflexivity.

  (* the whole of build, as one case distinction: accepted iff well-formed, refused with one of pyhf's own exceptions otherwise *)
  Theorem build_char :
    match build N sp with
    | Ok md => wf_spec = true
    | Err e => is_pyhf_exception e = true /\ wf_spec = false
    end.
  Proof.
    unfold build, build_hot.
    destruct (listing_dups N sp) eqn:Hd.
    { assert (W : wf_channels_distinct && wf_samples_distinct && wf_modifiers_distinct = false).
      { unfold wf_channels_distinct, wf_samples_distinct, wf_modifiers_distinct. rewrite <- !negb_orb. unfold listing_dups in Hd. now rewrite Hd. }
      refuse W. }
    assert (W1 : wf_channels_distinct && wf_samples_distinct && wf_modifiers_distinct = true).
    { unfold wf_channels_distinct, wf_samples_distinct, wf_modifiers_distinct. rewrite <- !negb_orb. unfold listing_dups in Hd. now rewrite Hd. }
    destruct (has_dup (shapesys_names_listed N sp)) eqn:Hss.
    { assert (W : wf_shapesys_unique = false) by (unfold wf_shapesys_unique; now rewrite Hss). refuse W. }
    assert (W2 : wf_shapesys_unique = true) by (unfold wf_shapesys_unique; now rewrite Hss).
    destruct (nominal_lengths_ok N sp chs smps) eqn:Hnom; simpl negb; cbv iota.
    2:{ assert (W : wf_sample_lengths = false) by exact Hnom. refuse W. }
    assert (W3 : wf_sample_lengths = true) by exact Hnom.
    destruct (lengths_ok N sp chs smps mods Histosys (mdlo N) && lengths_ok N sp chs smps mods Histosys (mdhi N)) eqn:Hh; simpl negb; cbv iota.
    2:{ assert (W : wf_modifier_lengths = false) by (unfold wf_modifier_lengths; now rewrite Hh). refuse W. }
    destruct (lengths_ok N sp chs smps mods Shapesys (mdlist N)) eqn:Hy; simpl negb; cbv iota.
    2:{ assert (W : wf_modifier_lengths = false) by (unfold wf_modifier_lengths; rewrite Hy; now rewrite andb_false_r). refuse W. }
    destruct (lengths_ok N sp chs smps mods Staterror (mdlist N)) eqn:Ht; simpl negb; cbv iota.
    2:{ assert (W : wf_modifier_lengths = false) by (unfold wf_modifier_lengths; rewrite Ht; now rewrite andb_false_r). refuse W. }
    assert (W4 : wf_modifier_lengths = true) by (unfold wf_modifier_lengths; now rewrite Hh, Hy, Ht).
    rewrite (first_carrier_check Hd). simpl negb. cbv iota.
    destruct (forallb (stat_masks_consistent N sp chs smps) (mods_of mods Staterror)) eqn:Hm; simpl negb; cbv iota.
    2:{ assert (W : wf_staterror_masks = false) by exact Hm. refuse W. }
    assert (W5 : wf_staterror_masks = true) by exact Hm.
    destruct (user_dups N sp) eqn:Hu.
    { assert (W : wf_one_config_per_parameter = false) by (unfold wf_one_config_per_parameter; now rewrite Hu). refuse W. }
    assert (W6 : wf_one_config_per_parameter = true) by (unfold wf_one_config_per_parameter; now rewrite Hu).
    pose proof (reduce_all_char N sp reqall 0 required_all_nonempty) as C.
    pose proof (reduce_all_okb_split reqall required_all_nonempty) as S.
    fold wf_requirements_agree wf_settings_present wf_overrides_fit in S.
    destruct (reduce_all N sp reqall 0) as [ps|e] eqn:Hps; unfold bind at 1.
    2:{ destruct C as [C1 C2]. rewrite C2 in S. split; auto. unfold wf_spec. rewrite W1, W2, W3, W4, W5, W6. rewrite !andb_true_l.
        rewrite <- S. reflexivity. }
    destruct C as [C1 C2]. rewrite C1 in S. symmetry in S. apply andb_true_iff in S. destruct S as [S W9]. apply andb_true_iff in S. destruct S as [W7 W8].
    destruct (reduced_psets_creatable ps Hps) as [Hc [inits Hi]]. rewrite Hc. unfold bind at 1.
    destruct ps as [|p0 ps'].
    { assert (W : wf_has_parameters = false). { unfold wf_has_parameters. destruct reqall; [reflexivity|discriminate C2]. } refuse W. }
    assert (W10 : wf_has_parameters = true). { unfold wf_has_parameters. destruct reqall; [discriminate C2|reflexivity]. }
    rewrite Hi. unfold bind at 1.
    rewrite (check_all_ok _ _ (reindex_shapesys_ok Hd Hss Hnom Hy (p0 :: ps') Hps)). unfold bind at 1.
    rewrite (check_all_ok _ _ (reindex_staterror_ok Hd Hm (p0 :: ps') Hps)). unfold bind at 1.
    pose proof (set_poi_char (p0 :: ps') Hps) as P. destruct (set_poi N sp (p0 :: ps')) as [poi_idx|e]; unfold bind.
    - unfold wf_spec. rewrite W1, W2, W3, W4, W5, W6, W7, W8, W9, W10, P. reflexivity.
    - destruct P as [-> P]. refuse P.
  Qed.
End Total.

(* ================================================================ the theorems *)
Section Theorems.
  Variable N : Num.
  Variable sp : spec N.

  (* (A) whatever the specification: construction ends in a model or in one of pyhf's own exceptions *)
  Theorem build_never_python_exception : forall s, build N sp <> Err (EPy s).
  Proof. intros s H. pose proof (build_char N sp) as C. rewrite H in C. destruct C as [C _]. discriminate C. Qed.
  Theorem build_error_is_pyhf_exception e : build N sp = Err e -> is_pyhf_exception e = true.
  Proof. intros H. pose proof (build_char N sp) as C. rewrite H in C. apply C. Qed.

  (* (B) accepted iff well-formed *)
  Theorem accepted_implies_wf md : build N sp = Ok md -> wf_spec N sp = true.
  Proof. intros H. pose proof (build_char N sp) as C. now rewrite H in C. Qed.
  Theorem wf_implies_accepted : wf_spec N sp = true -> exists md, build N sp = Ok md.
  Proof. intros H. pose proof (build_char N sp) as C. destruct (build N sp) as [md|e]; [eauto|]. destruct C as [_ C]. congruence. Qed.
  Theorem accepted_iff_wf : (exists md, build N sp = Ok md) <-> wf_spec N sp = true.
  Proof. split; [intros [md H]; eapply accepted_implies_wf; eauto|apply wf_implies_accepted]. Qed.
  Theorem refused_iff_not_wf : (exists e, build N sp = Err e) <-> wf_spec N sp = false.
  Proof.
    pose proof (build_char N sp) as C. split.
    - intros [e H]. rewrite H in C. apply C.
    - intros H. destruct (build N sp) as [md|e]; [congruence|eauto].
  Qed.
  Theorem refused_with_pyhf_exception : wf_spec N sp = false -> exists e, build N sp = Err e /\ is_pyhf_exception e = true.
  Proof. intros H. pose proof (build_char N sp) as C. destruct (build N sp) as [md|e]; [congruence|]. exists e. split; auto. apply C. Qed.

  (* per class: a specification failing ONE class is refused with a pyhf exception, whatever else it contains *)
  Definition refused : Prop := exists e, build N sp = Err e /\ is_pyhf_exception e = true.
  Lemma class_refused (b : bool) : (wf_spec N sp = true -> b = true) -> b = false -> refused.
  Proof. intros Himp Hb. apply refused_with_pyhf_exception. destruct (wf_spec N sp); auto. rewrite Himp in Hb; auto. Qed.
  Ltac conjunct := unfold wf_spec; intros W; repeat (apply andb_true_iff in W; destruct W as [W ?]); assumption.
  Theorem dup_channel_refused : ~ NoDup (map c_name (channels sp)) -> refused.
  Proof.
    intros H. apply (class_refused (wf_channels_distinct N sp)); [conjunct|]. unfold wf_channels_distinct.
    destruct (has_dup (map c_name (channels sp))) eqn:E; auto. apply has_dup_false_NoDup in E. contradiction.
  Qed.
  Theorem dup_sample_refused c : In c (channels sp) -> ~ NoDup (map s_name (c_samples c)) -> refused.
  Proof.
    intros Hc H. apply (class_refused (wf_samples_distinct N sp)); [conjunct|]. unfold wf_samples_distinct.
    destruct (existsb (fun c => has_dup (map s_name (c_samples c))) (channels sp)) eqn:E; auto. exfalso. apply H. apply has_dup_false_NoDup.
    destruct (has_dup (map s_name (c_samples c))) eqn:E2; auto.
    assert (existsb (fun c => has_dup (map s_name (c_samples c))) (channels sp) = true) by (apply existsb_exists; eauto). congruence.
  Qed.
  Theorem dup_modifier_refused c s : In c (channels sp) -> In s (c_samples c) -> ~ NoDup (map mkey (s_mods s)) -> refused.
  Proof.
    intros Hc Hs H. apply (class_refused (wf_modifiers_distinct N sp)); [conjunct|]. unfold wf_modifiers_distinct.
    destruct (existsb (fun s => has_dup_pair (map mkey (s_mods s))) (all_samples N sp)) eqn:E; auto. exfalso. apply H. apply has_dup_pair_false_NoDup.
    destruct (has_dup_pair (map mkey (s_mods s))) eqn:E2; auto.
    assert (existsb (fun s => has_dup_pair (map mkey (s_mods s))) (all_samples N sp) = true).
    { apply existsb_exists. exists s. split; auto. unfold all_samples. apply in_flat_map. eauto. } congruence.
  Qed.
  Theorem shapesys_reuse_refused : ~ NoDup (shapesys_names_listed N sp) -> refused.
  Proof.
    intros H. apply (class_refused (wf_shapesys_unique N sp)); [conjunct|]. unfold wf_shapesys_unique.
    destruct (has_dup (shapesys_names_listed N sp)) eqn:E; auto. apply has_dup_false_NoDup in E. contradiction.
  Qed.
  Theorem sample_length_mismatch_refused cn sn s : In cn (cfg_channels N sp) -> In sn (cfg_samples N sp) ->
    cell N sp cn sn = Some s -> length (s_data s) <> nbins N sp cn -> refused.
  Proof.
    intros Hc Hs Hcell Hne. apply (class_refused (wf_sample_lengths N sp)); [conjunct|]. unfold wf_sample_lengths.
    destruct (nominal_lengths_ok N sp (cfg_channels N sp) (cfg_samples N sp)) eqn:E; auto. exfalso. apply Hne.
    unfold nominal_lengths_ok in E. rewrite forallb_forall in E. specialize (E _ Hc). rewrite forallb_forall in E. specialize (E _ Hs).
    rewrite Hcell in E. now apply Nat.eqb_eq.
  Qed.
  Theorem modifier_length_mismatch_refused t f cn sn k m :
    (t = Histosys /\ (f = mdlo N \/ f = mdhi N)) \/ ((t = Shapesys \/ t = Staterror) /\ f = mdlist N) ->
    In k (mods_of (cfg_modifiers N sp) t) -> In sn (cfg_samples N sp) -> In cn (cfg_channels N sp) ->
    cellmod N sp cn sn k = Some m -> length (f m) <> nbins N sp cn -> refused.
  Proof.
    intros Htf Hk Hs Hc Hcm Hne. apply (class_refused (wf_modifier_lengths N sp)); [conjunct|].
    assert (G : lengths_ok N sp (cfg_channels N sp) (cfg_samples N sp) (cfg_modifiers N sp) t f = false).
    { destruct (lengths_ok N sp (cfg_channels N sp) (cfg_samples N sp) (cfg_modifiers N sp) t f) eqn:E; auto. exfalso. apply Hne.
      unfold lengths_ok in E. rewrite forallb_forall in E. specialize (E _ Hk). rewrite forallb_forall in E. specialize (E _ Hs).
      rewrite forallb_forall in E. specialize (E _ Hc). rewrite Hcm in E. now apply Nat.eqb_eq. }
    unfold wf_modifier_lengths. destruct Htf as [[-> [-> | ->]]|[[-> | ->] ->]]; rewrite G; rewrite ?andb_false_r, ?andb_false_l; reflexivity.
  Qed.
  Theorem staterror_mask_mismatch_refused : wf_staterror_masks N sp = false -> refused.
  Proof. apply class_refused. conjunct. Qed.
  Theorem duplicate_parameter_config_refused : ~ NoDup (map pc_name (parameters sp)) -> refused.
  Proof.
    intros H. apply (class_refused (wf_one_config_per_parameter N sp)); [conjunct|]. unfold wf_one_config_per_parameter, user_dups.
    destruct (has_dup (map pc_name (parameters sp))) eqn:E; auto. apply has_dup_false_NoDup in E. contradiction.
  Qed.
  Notation reqall := (required_all N sp (cfg_channels N sp) (cfg_samples N sp) (cfg_modifiers N sp)).
  Lemma forallb_false_in {A} (f : A -> bool) l x : In x l -> f x = false -> forallb f l = false.
  Proof. intros Hin Hf. destruct (forallb f l) eqn:E; auto. rewrite forallb_forall in E. rewrite (E x Hin) in Hf. discriminate. Qed.
  Theorem conflicting_paramset_refused name rs : In (name, rs) reqall -> agree_all N rs = false -> refused.
  Proof.
    intros Hin H. apply (class_refused (wf_requirements_agree N sp)); [conjunct|]. unfold wf_requirements_agree.
    apply (forallb_false_in _ _ (name, rs)); auto.
  Qed.
  Theorem override_misfit_refused name r0 rs : In (name, r0 :: rs) reqall -> overrides_fit N sp name r0 = false -> refused.
  Proof.
    intros Hin H. apply (class_refused (wf_overrides_fit N sp)); [conjunct|]. unfold wf_overrides_fit.
    apply (forallb_false_in _ _ (name, r0 :: rs)); auto.
  Qed.
  Theorem missing_setting_refused name r0 rs : In (name, r0 :: rs) reqall -> settings_present N sp name r0 = false -> refused.
  Proof.
    intros Hin H. apply (class_refused (wf_settings_present N sp)); [conjunct|]. unfold wf_settings_present.
    apply (forallb_false_in _ _ (name, r0 :: rs)); auto.
  Qed.
  Theorem no_parameters_refused : reqall = [] -> refused.
  Proof. intros H. apply (class_refused (wf_has_parameters N sp)); [conjunct|]. unfold wf_has_parameters. now rewrite H. Qed.
  Theorem undefined_poi_refused nm : poi sp = Some nm -> nm <> ""%string -> ~ In nm (map fst reqall) -> refused.
  Proof.
    intros Hp Hne Hnin. apply (class_refused (wf_poi N sp)); [conjunct|]. unfold wf_poi. rewrite Hp.
    destruct (String.eqb_spec nm ""); [contradiction|].
    destruct (find (fun nr => String.eqb (fst nr) nm) reqall) as [[name rs]|] eqn:E; auto.
    apply find_some in E. destruct E as [Hin He]. simpl in He. apply String.eqb_eq in He. subst name.
    exfalso. apply Hnin. apply in_map_iff. exists (nm, rs). auto.
  Qed.
  Theorem nonscalar_poi_refused nm r0 rs : poi sp = Some nm -> nm <> ""%string -> In (nm, r0 :: rs) reqall -> 1 < r_n N r0 -> refused.
  Proof.
    intros Hp Hne Hin Hn. apply (class_refused (wf_poi N sp)); [conjunct|]. unfold wf_poi. rewrite Hp.
    destruct (String.eqb_spec nm ""); [contradiction|].
    assert (F : find (fun nr => String.eqb (fst nr) nm) reqall = Some (nm, r0 :: rs)).
    { apply find_unique; auto; [simpl; apply String.eqb_refl|]. intros [n' rs'] Hy He. simpl in He. apply String.eqb_eq in He. subst n'.
      f_equal. pose proof (required_all_nodup N sp) as Hnd.
      assert (G : (nm, rs') = (nm, r0 :: rs)) by (eapply (NoDup_map_inj_in fst); eauto). now inversion G. }
    rewrite F. apply Nat.ltb_lt in Hn. now rewrite Hn.
  Qed.

  (* ---- the same, in terms of what is listed in the specification ---- *)
  (* class 8: a shapefactor shared between channels of different bin counts *)
  Theorem shared_shapefactor_size_refused c s m c' s' m' : listed N sp c s m -> listed N sp c' s' m' ->
    m_type m = Shapefactor -> m_type m' = Shapefactor -> m_name m = m_name m' -> chan_nbins N c <> chan_nbins N c' -> refused.
  Proof.
    intros Hl Hl' Ht Ht' Hn Hne. destruct (build N sp) as [md|e] eqn:Hb.
    - exfalso. destruct (accepted_pset_of_listed N sp md Hb c s m Hl) as (p & i & Hf & _ & _ & _ & _ & He).
      destruct (accepted_pset_of_listed N sp md Hb c' s' m' Hl') as (p' & i' & Hf' & _ & _ & _ & _ & He').
      rewrite <- Hn, Hf in Hf'. inversion Hf'; subst p'. unfold expected_pset in He, He'. rewrite Ht in He. rewrite Ht' in He'.
      destruct He as [_ He], He' as [_ He']. congruence.
    - exists e. split; auto. now apply build_error_is_pyhf_exception.
  Qed.

  (* class 12: a luminosity modifier without luminosity settings in the measurement *)
  Lemma optv_eqb_pynone {A} (eqb : A -> A -> bool) a : optv_eqb eqb a PyNone = true -> a = PyNone.
  Proof. destruct a; simpl; intros H; try discriminate; reflexivity. Qed.
  Lemma optv_eqb_pynone_l {A} (eqb : A -> A -> bool) a : optv_eqb eqb PyNone a = true -> a = PyNone.
  Proof. destruct a; simpl; intros H; try discriminate; reflexivity. Qed.
  Theorem lumi_without_settings_refused c s m : listed N sp c s m -> m_type m = Lumi -> find_user N sp (m_name m) = None -> refused.
  Proof.
    intros Hl Ht Hu. destruct (build N sp) as [md|e] eqn:Hb.
    2:{ exists e. split; auto. now apply build_error_is_pyhf_exception. }
    exfalso. pose proof (listed_walk N sp md Hb c s m Hl) as Hw. rewrite Ht in Hw.
    assert (Hname : In (m_name m) (map fst (walk_decls N sp (cfg_channels N sp) (cfg_samples N sp) (cfg_modifiers N sp) Lumi))).
    { apply in_map_iff. eexists; split; [|exact Hw]; reflexivity. }
    destruct (first_decl_exists N sp _ _ Hname) as (cn' & sn' & m' & Hd).
    assert (Hreq : In (m_name m, [req_lumi N]) (required N sp (cfg_channels N sp) (cfg_samples N sp) (cfg_modifiers N sp) Lumi)).
    { unfold required. apply in_map_iff. exists (m_name m, (cn', sn', m')). split; auto. }
    assert (Hq : req_in reqall (m_name m) (req_lumi N)) by (apply required_all_in; exists Lumi, [req_lumi N]; split; auto; now left).
    destruct Hq as (rs' & Hin' & Hr').
    destruct (reduce_all_find N sp _ _ _ (required_all_nodup N sp) (accepted_reduce N sp md Hb) _ rs' Hin') as (p & i & st & _ & _ & _ & Hone).
    destruct rs' as [|r0 t]; [destruct Hr'|].
    pose proof (reduce_one_char N sp (m_name m) r0 t st) as C. rewrite Hone in C. destruct C as (C & _).
    unfold reduce_okb in C. apply andb_true_iff in C. destruct C as [C _]. apply andb_true_iff in C. destruct C as [Ca Cs].
    assert (Hi : r_inits N r0 = PyNone).
    { destruct Hr' as [->|Hr']; [reflexivity|]. unfold agree_all in Ca.
      repeat (apply andb_true_iff in Ca; destruct Ca as [Ca ?]).
      match goal with H : agree (optv_eqb (list_eqb (veqb N))) (map (r_inits N) (r0 :: t)) = true |- _ => rename H into Hag end.
      simpl in Hag. rewrite forallb_forall in Hag. specialize (Hag (r_inits N (req_lumi N)) (in_map _ _ _ Hr')). simpl in Hag.
      now apply optv_eqb_pynone in Hag. }
    unfold settings_present in Cs. rewrite Hu, Hi in Cs. simpl in Cs. discriminate Cs.
  Qed.

  (* class 11: the POI is not the name of any modifier *)
  Lemma required_name_listed nm : In nm (map fst reqall) -> exists c s m, listed N sp c s m /\ m_name m = nm.
  Proof.
    intros H. apply required_all_names in H. destruct H as [t H]. rewrite required_names in H.
    assert (G : In nm (map fst (walk_decls N sp (cfg_channels N sp) (cfg_samples N sp) (cfg_modifiers N sp) t)) -> exists c s m, listed N sp c s m /\ m_name m = nm).
    { intros Hw. apply in_map_iff in Hw. destruct Hw as [[n [[cn sn] m]] [E Hw]]. simpl in E. subst n.
      apply walk_decls_in in Hw. destruct Hw as (_ & _ & _ & Hcm). apply cellmod_listed in Hcm. destruct Hcm as (c & s & Hl & _ & _ & Ek).
      exists c, s, m. split; auto. apply (f_equal fst) in Ek. exact Ek. }
    destruct t; try (apply G; now apply first_decls_names).
    unfold names_of in H. apply in_map_iff in H. destruct H as [k [E Hk]]. destruct (mods_of_listed N sp Staterror k Hk) as (c & s & m & Hl & Ek & _).
    exists c, s, m. split; auto. subst k. exact E.
  Qed.
  Theorem poi_not_a_modifier_refused nm : poi sp = Some nm -> nm <> ""%string ->
    (forall c s m, listed N sp c s m -> m_name m <> nm) -> refused.
  Proof.
    intros Hp Hne Hno. apply (undefined_poi_refused nm Hp Hne). intros Hin.
    destruct (required_name_listed nm Hin) as (c & s & m & Hl & E). exact (Hno c s m Hl E).
  Qed.
End Theorems.

(* ================================================================ non-vacuity: concrete specifications *)
From Coq Require Import QArith Qcanon.
Local Open Scope nat_scope.
Local Open Scope string_scope.
Definition tq (name : string) (t : mtype) (d : moddata QcNum) : modifier QcNum := Build_modifier (N:=QcNum) name t d.
Definition tl (l : list Z) : list Qc := map (fun z => mkq z 1) l.
Definition total_lumi_cfg : parcfg QcNum :=
  Build_parcfg (N:=QcNum) "lumi" (Some [mkq 1 1]) (Some [(mkq 0 1, mkq 10 1)]) (Some [mkq 1 1]) None (Some [mkq 1 10]) None.
(* every modifier type; staterror shared by two samples over two channels of 2 and 3 bins, shapefactor shared by two 2-bin channels *)
Definition total_channels (vr_bins : list Z) (cr_bkg2_stat : bool) : list (channel QcNum) :=
  [ Build_channel (N:=QcNum) "SR"
      [ Build_sample (N:=QcNum) "sig" (tl [5; 6]%Z) [tq "mu" Normfactor (@MDNone QcNum); tq "sf" Shapefactor (@MDNone QcNum); tq "lumi" Lumi (@MDNone QcNum)];
        Build_sample (N:=QcNum) "bkg" (tl [50; 60]%Z)
          [tq "mcstat" Staterror (@MDList QcNum (tl [5; 6]%Z)); tq "uncorr" Shapesys (@MDList QcNum (tl [3; 4]%Z)); tq "ns" Normsys (@MDNorm QcNum (mkq 9 10) (mkq 11 10))];
        Build_sample (N:=QcNum) "bkg2" (tl [20; 10]%Z) [tq "mcstat" Staterror (@MDList QcNum (tl [2; 1]%Z))] ];
    Build_channel (N:=QcNum) "CR"
      [ Build_sample (N:=QcNum) "bkg" (tl [70; 80; 90]%Z)
          [tq "mcstat" Staterror (@MDList QcNum (tl [7; 8; 9]%Z)); tq "hs" Histosys (@MDHisto QcNum (tl [60; 70; 80]%Z) (tl [80; 90; 100]%Z))];
        Build_sample (N:=QcNum) "bkg2" (tl [7; 8; 9]%Z) (if cr_bkg2_stat then [tq "mcstat" Staterror (@MDList QcNum (tl [1; 1; 1]%Z))] else []) ];
    Build_channel (N:=QcNum) "VR"
      [ Build_sample (N:=QcNum) "sig" (tl vr_bins) [tq "sf" Shapefactor (@MDNone QcNum); tq "mu" Normfactor (@MDNone QcNum)] ] ].
Definition total_example_spec : spec QcNum := Build_spec (N:=QcNum) (total_channels [1; 2]%Z true) [total_lumi_cfg] (Some "mu").
(* one fault each *)
Definition total_no_lumi_settings : spec QcNum := Build_spec (N:=QcNum) (total_channels [1; 2]%Z true) [] (Some "mu").
Definition total_sf_size_conflict : spec QcNum := Build_spec (N:=QcNum) (total_channels [1; 2; 3]%Z true) [total_lumi_cfg] (Some "mu").
Definition total_stat_mask_conflict : spec QcNum := Build_spec (N:=QcNum) (total_channels [1; 2]%Z false) [total_lumi_cfg] (Some "mu").
Definition total_undefined_poi : spec QcNum := Build_spec (N:=QcNum) (total_channels [1; 2]%Z true) [total_lumi_cfg] (Some "nope").
Definition total_dup_channel : spec QcNum :=
  Build_spec (N:=QcNum) (total_channels [1; 2]%Z true ++ total_channels [1; 2]%Z true) [total_lumi_cfg] (Some "mu").
Definition total_long_override : spec QcNum :=
  Build_spec (N:=QcNum) (total_channels [1; 2]%Z true)
    [total_lumi_cfg; Build_parcfg (N:=QcNum) "mu" (Some [mkq 1 1; mkq 1 1]) None None None None None] (Some "mu").

Example total_example_wf : wf_spec QcNum total_example_spec = true.
Proof. vm_compute. reflexivity. Qed.
Example total_example_accepted : exists md, build QcNum total_example_spec = Ok md /\ md_npars QcNum md = 13.
Proof.
  assert (H : match build QcNum total_example_spec with Ok md => md_npars QcNum md = 13 | Err _ => False end) by (vm_compute; reflexivity).
  destruct (build QcNum total_example_spec) as [md|e]; [exists md; auto|destruct H].
Qed.
Example total_no_lumi_settings_refused :
  wf_settings_present QcNum total_no_lumi_settings = false /\ wf_spec QcNum total_no_lumi_settings = false /\
  build QcNum total_no_lumi_settings = Err EInvalidModel.
Proof. repeat split; vm_compute; reflexivity. Qed.
Example total_sf_size_conflict_refused :
  wf_requirements_agree QcNum total_sf_size_conflict = false /\ wf_spec QcNum total_sf_size_conflict = false /\
  build QcNum total_sf_size_conflict = Err EInvalidNameReuse.
Proof. repeat split; vm_compute; reflexivity. Qed.
Example total_stat_mask_conflict_refused :
  wf_staterror_masks QcNum total_stat_mask_conflict = false /\ wf_spec QcNum total_stat_mask_conflict = false /\
  build QcNum total_stat_mask_conflict = Err EInvalidModifier.
Proof. repeat split; vm_compute; reflexivity. Qed.
Example total_undefined_poi_refused :
  wf_poi QcNum total_undefined_poi = false /\ wf_spec QcNum total_undefined_poi = false /\ build QcNum total_undefined_poi = Err EInvalidModel.
Proof. repeat split; vm_compute; reflexivity. Qed.
Example total_dup_channel_refused :
  wf_channels_distinct QcNum total_dup_channel = false /\ wf_spec QcNum total_dup_channel = false /\ build QcNum total_dup_channel = Err EInvalidModel.
Proof. repeat split; vm_compute; reflexivity. Qed.
Example total_long_override_refused :
  wf_overrides_fit QcNum total_long_override = false /\ wf_spec QcNum total_long_override = false /\ build QcNum total_long_override = Err EInvalidModel.
Proof. repeat split; vm_compute; reflexivity. Qed.
(* exactly one class fails in each of the single-fault examples *)
Example total_single_fault_classes :
  let classes sp := [wf_channels_distinct QcNum sp; wf_samples_distinct QcNum sp; wf_modifiers_distinct QcNum sp; wf_shapesys_unique QcNum sp;
                     wf_sample_lengths QcNum sp; wf_modifier_lengths QcNum sp; wf_staterror_masks QcNum sp; wf_one_config_per_parameter QcNum sp;
                     wf_requirements_agree QcNum sp; wf_settings_present QcNum sp; wf_overrides_fit QcNum sp; wf_has_parameters QcNum sp; wf_poi QcNum sp] in
  map (fun sp => length (filter negb (classes sp)))
      [total_example_spec; total_no_lumi_settings; total_sf_size_conflict; total_stat_mask_conflict; total_undefined_poi; total_long_override]
  = [0; 1; 1; 1; 1; 1].
Proof. vm_compute. reflexivity. Qed.
