(* pyhf.infer.intervals.upper_limits : _interp (numpy.interp), linear_grid_scan, toms748_scan
   (f_cached, f, best_bracket, the two bracket-extension loops), upper_limit.
   Part 1: the executable model, written once over the number record [Num].
   Part 2: structural theorems valid for every instance.
   Part 3: order/analysis theorems for the real-number instance.
   Part 4: the executed instance (Qc) is the restriction of the real one (np_interp commutes with Q2R). *)
From Coq Require Import Bool Arith Lia ZArith QArith Qcanon Qreals Reals Lra String Sorting.Sorted List.
Require Import PV.Num.
Import ListNotations.
Local Open Scope list_scope.

(* ====================================================================================== *)
(* Part 1 : model                                                                          *)
(* ====================================================================================== *)
Section Model.
  Variable N : Num.
  Notation V := (V N).
  Local Notation "a +! b" := (nadd N a b) (at level 50, left associativity).
  Local Notation "a -! b" := (nsub N a b) (at level 50, left associativity).
  Local Notation "a *! b" := (nmul N a b) (at level 40, left associativity).
  Local Notation "a /! b" := (ndiv N a b) (at level 40, left associativity).

  (* ---------- numpy.interp(x, xp, fp) for a scalar x (compiled_base.c: arr_interp + binary_search_with_guess).
     The search returns the j with xp[j] <= x < xp[j+1] (linear form used by numpy for short arrays:
     `for (i = 1; i < len && key >= arr[i]; ++i); return i - 1;` -- on increasing xp the bisection form returns the same j). *)
  Fixpoint interp_seg (x : V) (xp fp : list V) : V :=
    match xp, fp with
    | x0 :: xt, f0 :: ft =>
        match xt, ft with
        | x1 :: _, f1 :: _ =>
            if nleb N x1 x then interp_seg x xt ft                          (* key >= arr[i] : keep walking *)
            else if neqb N x0 x then f0                                      (* dx[j] == x_val -> dy[j] *)
            else ((f1 -! f0) /! (x1 -! x0)) *! (x -! x0) +! f0               (* slope*(x_val - dx[j]) + dy[j] *)
        | _, _ => f0                                                         (* j == lenxp - 1 -> dy[j] *)
        end
    | _, _ => n0 N
    end.

  Definition np_interp (x : V) (xp fp : list V) : option V :=
    match xp with
    | [] => None                                                             (* ValueError: array of sample points is empty *)
    | x0 :: _ =>
        if negb (Nat.eqb (length xp) (length fp)) then None                  (* ValueError: fp and xp are not of the same length *)
        else if nltb N (last xp (n0 N)) x then Some (last fp (n0 N))         (* key > arr[len-1] -> right = fp[-1] *)
        else if nltb N x x0 then Some (hd (n0 N) fp)                         (* key < arr[0]     -> left  = fp[0]  *)
        else Some (interp_seg x xp fp)
    end.

  (* ---------- hypotest(mu, data, model, return_expected_set=True, **kw) = (CLs_obs, [CLs_exp]*5) ---------- *)
  Definition hres := (V * list V)%type.
  Variable H : V -> hres.

  (* value[0] if limit == 0 else value[1][limit - 1] *)
  Definition comp (limit : nat) (r : hres) : V :=
    match limit with O => fst r | S k => nth k (snd r) (n0 N) end.

  Definition transpose (ncol : nat) (rows : list (list V)) : list (list V) :=
    map (fun k => map (fun r => nth k r (n0 N)) rows) (seq 0 ncol).

  Fixpoint map2 {A B C} (f : A -> B -> C) (l : list A) (l' : list B) : list C :=
    match l, l' with a :: t, b :: t' => f a b :: map2 f t t' | _, _ => [] end.

  (* ---------- linear_grid_scan ---------- *)
  Definition linear_grid_scan (scan : list V) (level : V) : list (option V) * (list V * list hres) :=
    let results := map H scan in
    let obs := map (fun r => [fst r]) results in
    let exp := map (fun r => map (fun idx => nth idx (snd r) (n0 N)) (seq 0 5)) results in
    let result_array := transpose 6 (map2 (@app V) obs exp) in                 (* concatenate([obs, exp], axis=1).T *)
    let limits := map (fun idx => np_interp level (rev (nth idx result_array [])) (rev scan)) (seq 0 6) in
    (limits, (scan, results)).

  (* ---------- toms748_scan ---------- *)
  Definition cache := list (V * hres).             (* python dict: insertion ordered, keys compared with == *)
  Fixpoint cfind (c : cache) (poi : V) : option hres :=
    match c with [] => None | (k, r) :: t => if neqb N k poi then Some r else cfind t poi end.

  Definition f_cached (c : cache) (poi : V) : cache * hres :=
    match cfind c poi with
    | Some r => (c, r)
    | None => let r := H poi in (c ++ [(poi, r)], r)
    end.

  (* f(poi, level, limit) *)
  Definition f_obj (c : cache) (poi level : V) (limit : nat) : cache * V :=
    let (c', r) := f_cached c poi in (c', comp limit r -! level).

  Fixpoint mask {A} (m : list bool) (l : list A) : list A :=
    match m, l with b :: mt, a :: t => if b then a :: mask mt t else mask mt t | _, _ => [] end.

  (* numpy.argmin / argmax : first index of the extreme value; None = ValueError on an empty sequence *)
  Fixpoint arg_from (better : V -> V -> bool) (best : V) (bi i : nat) (l : list V) : nat :=
    match l with
    | [] => bi
    | v :: t => if better v best then arg_from better v i (S i) t else arg_from better best bi (S i) t
    end.
  Definition argmin (l : list V) : option nat :=
    match l with [] => None | v :: t => Some (arg_from (nltb N) v 0 1 t) end.
  Definition argmax (l : list V) : option nat :=
    match l with [] => None | v :: t => Some (arg_from (fun a b => nltb N b a) v 0 1 t) end.

  Definition best_bracket (c : cache) (level : V) (limit : nat) : option (V * V) :=
    let ks := map fst c in
    let vals := map (fun e => comp limit (snd e) -! level) c in
    let pos := map (fun v => nleb N (n0 N) v) vals in        (* vals >= 0 *)
    let neg := map (fun v => nltb N v (n0 N)) vals in        (* vals < 0  *)
    match argmin (mask pos vals), argmax (mask neg vals) with
    | Some i, Some j => Some (nth i (mask pos ks) (n0 N), nth j (mask neg ks) (n0 N))
    | _, _ => None
    end.

  Definition any_lt (r : hres) (level : V) : bool := existsb (fun v => nltb N v level) (fst r :: snd r).
  (* [ge]: the comparison of the upper extension loop as written in the source (extracted): false = `>`, true = `>=` *)
  Definition any_gt (ge : bool) (r : hres) (level : V) : bool :=
    existsb (fun v => if ge then nleb N level v else nltb N level v) (fst r :: snd r).
  Definition two : V := nofZ N 2.

  (* while np.any(results < level): bounds_low /= 2; results = f_cached(bounds_low)     (fuel: None = still looping) *)
  Fixpoint extend_low (fuel : nat) (level : V) (c : cache) (lo : V) (r : hres) : option (cache * V) :=
    match fuel with
    | O => None
    | S k => if any_lt r level
             then let lo' := lo /! two in let (c', r') := f_cached c lo' in extend_low k level c' lo' r'
             else Some (c, lo)
    end.
  Fixpoint extend_up (ge : bool) (fuel : nat) (level : V) (c : cache) (up : V) (r : hres) : option (cache * V) :=
    match fuel with
    | O => None
    | S k => if any_gt ge r level
             then let up' := up *! two in let (c', r') := f_cached c up' in extend_up ge k level c' up' r'
             else Some (c, up)
    end.

  (* scipy.optimize.toms748(f, a, b, args=(level, limit), ...): external.  It receives the objective (as a function
     of poi), the bracket and the args tuple's curve index, and yields the points at which it evaluated the
     objective (in order) and the root it returns.  Each evaluation goes through f_cached. *)
  Variable toms : nat -> (V -> V) -> V -> V -> list V * V.

  Definition run_toms (c : cache) (level : V) (limit : nat) (a b : V) : cache * V :=
    let (pts, root) := toms limit (fun poi => comp limit (H poi) -! level) a b in
    (fold_left (fun c p => fst (f_cached c p)) pts c, root).

  Fixpoint exp_loop (c : cache) (level : V) (idxs : list nat) : option (cache * list V) :=
    match idxs with
    | [] => Some (c, [])
    | idx :: rest =>
        match best_bracket c level idx with
        | None => None
        | Some (a, b) =>
            let (c', r) := run_toms c level idx a b in
            match exp_loop c' level rest with None => None | Some (c'', rs) => Some (c'', r :: rs) end
        end
    end.

  Record scan_out := { so_obs : V; so_exp : list V; so_points : list V; so_results : list hres;
                       so_brackets : list (V * V) }.   (* so_brackets: diagnostic, the six brackets handed to toms748 *)

  Fixpoint exp_brackets (c : cache) (level : V) (idxs : list nat) : list (V * V) :=
    match idxs with
    | [] => []
    | idx :: rest =>
        match best_bracket c level idx with
        | None => []
        | Some (a, b) => (a, b) :: exp_brackets (fst (run_toms c level idx a b)) level rest
        end
    end.

  Definition toms748_scan (ge : bool) (fuel : nat) (lo up level : V) : option scan_out :=
    let (c0, rlo) := f_cached [] lo in
    match extend_low fuel level c0 lo rlo with
    | None => None
    | Some (c1, lo') =>
        let (c2, rup) := f_cached c1 up in
        match extend_up ge fuel level c2 up rup with
        | None => None
        | Some (c3, up') =>
            let (c4, obs) := run_toms c3 level 0 lo' up' in
            match exp_loop c4 level [1; 2; 3; 4; 5]%nat with
            | None => None
            | Some (c5, exps) =>
                Some {| so_obs := obs; so_exp := exps; so_points := map fst c5; so_results := map snd c5;
                        so_brackets := (lo', up') :: exp_brackets c4 level [1; 2; 3; 4; 5]%nat |}
            end
        end
    end.

  (* ---------- upper_limit: dispatch and forwarding.
     [bind] tables are extracted from the source on every run (gen/FactsC09.v): for the call of each scan function
     inside upper_limit, which callee parameter receives which caller expression. *)
  Definition bindings := list (string * string).
  Fixpoint assoc (k : string) (b : bindings) : option string :=
    match b with [] => None | (k', v) :: t => if String.eqb k k' then Some v else assoc k t end.

  (* the level the callee works with: the caller's, the callee's own default when nothing is passed, None when the
     argument is something the extractor does not understand *)
  Definition eff_level (b : bindings) (callee_default level : V) : option V :=
    match assoc "level" b with
    | None => Some callee_default
    | Some s => if String.eqb s "param:level" then Some level else None
    end.

  Definition all_some {A} (l : list (option A)) : option (list A) :=
    fold_right (fun o acc => match o, acc with Some a, Some t => Some (a :: t) | _, _ => None end) (Some []) l.

  Definition upper_limit (ge : bool) (grid_bind toms_bind : bindings) (grid_default toms_default : V)
             (fuel : nat) (bounds : V * V) (scan : option (list V)) (level : V) : option scan_out :=
    match scan with
    | Some s =>
        match eff_level grid_bind grid_default level with
        | None => None
        | Some lv =>
            let '(limits, (pts, res)) := linear_grid_scan s lv in
            match all_some limits with
            | Some (o :: e) => Some {| so_obs := o; so_exp := e; so_points := pts; so_results := res; so_brackets := [] |}
            | _ => None
            end
        end
    | None =>
        match eff_level toms_bind toms_default level with
        | None => None
        | Some lv => toms748_scan ge fuel (fst bounds) (snd bounds) lv
        end
    end.
End Model.

Arguments interp_seg {N}. Arguments np_interp {N}. Arguments comp {N}. Arguments linear_grid_scan {N}.
Arguments cfind {N}. Arguments f_cached {N}. Arguments best_bracket {N}. Arguments mask {A}.
Arguments argmin {N}. Arguments argmax {N}. Arguments arg_from {N}.
Arguments extend_low {N}. Arguments extend_up {N}. Arguments run_toms {N}. Arguments exp_loop {N}.
Arguments toms748_scan {N}. Arguments upper_limit {N}. Arguments eff_level {N}. Arguments any_lt {N}. Arguments any_gt {N}.
Arguments transpose {N}. Arguments map2 {A B C}. Arguments so_obs {N}. Arguments so_exp {N}. Arguments so_points {N}.
Arguments so_results {N}. Arguments so_brackets {N}. Arguments exp_brackets {N}. Arguments all_some {A}.

(* ====================================================================================== *)
(* Part 2 : structural theorems, any number instance                                       *)
(* ====================================================================================== *)
Section Structural.
  Variable N : Num.
  Variable H : V N -> hres N.
  Variable toms : nat -> (V N -> V N) -> V N -> V N -> list (V N) * V N.

  Definition cache_ok (c : cache N) : Prop := Forall (fun e => snd e = H (fst e)) c.

  Lemma cfind_in c p r : cfind c p = Some r -> exists k, In (k, r) c /\ neqb N k p = true.
  Proof. induction c as [|[k r'] t IH]; simpl; [discriminate|]. destruct (neqb N k p) eqn:E.
    - intros [= <-]. exists k. auto.
    - intros Hf. destruct (IH Hf) as (k' & Hin & Hk). exists k'. auto. Qed.

  Lemma f_cached_ok c p : cache_ok c -> cache_ok (fst (f_cached H c p)).
  Proof. intros Hc. unfold f_cached. destruct (cfind c p); simpl; auto.
    apply Forall_app. split; auto. Qed.

  Lemma f_cached_keys c p : exists extra, fst (f_cached H c p) = c ++ extra.
  Proof. unfold f_cached. destruct (cfind c p); simpl; [exists []; now rewrite app_nil_r|eexists; reflexivity]. Qed.

  Lemma fold_f_cached_ok pts : forall c, cache_ok c -> cache_ok (fold_left (fun c p => fst (f_cached H c p)) pts c).
  Proof. induction pts as [|p t IH]; simpl; intros c Hc; auto. apply IH. now apply f_cached_ok. Qed.

  Lemma run_toms_ok c level k a b : cache_ok c -> cache_ok (fst (run_toms H toms c level k a b)).
  Proof. intros Hc. unfold run_toms. destruct (toms k _ a b) as [pts root]. simpl. now apply fold_f_cached_ok. Qed.

  Lemma extend_low_ok fuel level : forall c lo r c' lo', cache_ok c -> extend_low H fuel level c lo r = Some (c', lo') -> cache_ok c'.
  Proof. induction fuel as [|k IH]; simpl; intros c lo r c' lo' Hc He; [discriminate|].
    destruct (any_lt r level).
    - destruct (f_cached H c (ndiv N lo (two N))) as [c1 r1] eqn:E. eapply IH; [|exact He].
      change c1 with (fst (c1, r1)). rewrite <- E. now apply f_cached_ok.
    - now inversion He; subst. Qed.
  Lemma extend_up_ok ge fuel level : forall c up r c' up', cache_ok c -> extend_up H ge fuel level c up r = Some (c', up') -> cache_ok c'.
  Proof. induction fuel as [|k IH]; simpl; intros c up r c' up' Hc He; [discriminate|].
    destruct (any_gt ge r level).
    - destruct (f_cached H c (nmul N up (two N))) as [c1 r1] eqn:E. eapply IH; [|exact He].
      change c1 with (fst (c1, r1)). rewrite <- E. now apply f_cached_ok.
    - now inversion He; subst. Qed.

  Lemma exp_loop_ok level idxs : forall c c' rs, cache_ok c -> exp_loop H toms c level idxs = Some (c', rs) -> cache_ok c' /\ length rs = length idxs.
  Proof. induction idxs as [|i t IH]; simpl; intros c c' rs Hc He.
    - inversion He; subst. auto.
    - destruct (best_bracket c level i) as [[a b]|]; [|discriminate].
      destruct (run_toms H toms c level i a b) as [c1 r] eqn:E.
      destruct (exp_loop H toms c1 level t) as [[c2 rs2]|] eqn:E2; [|discriminate]. inversion He; subst.
      destruct (IH c1 c' rs2) as [H1 H2]; auto.
      { change c1 with (fst (c1, r)). rewrite <- E. now apply run_toms_ok. }
      split; simpl; auto. Qed.

  Lemma cache_ok_results c : cache_ok c -> map snd c = map H (map fst c).
  Proof. induction 1 as [|e t He _ IH]; simpl; auto. now rewrite He, IH. Qed.

  (* the per-point results handed back are the hypothesis tests at the reported points -- automatic scan *)
  Theorem results_are_hypotests_auto ge fuel lo up level o :
    toms748_scan H toms ge fuel lo up level = Some o ->
    so_results o = map H (so_points o) /\ length (so_exp o) = 5%nat.
  Proof. unfold toms748_scan. destruct (f_cached H [] lo) as [c0 rlo] eqn:E0.
    assert (H0 : cache_ok c0) by (change c0 with (fst (c0, rlo)); rewrite <- E0; apply f_cached_ok; constructor).
    destruct (extend_low H fuel level c0 lo rlo) as [[c1 lo']|] eqn:E1; [|discriminate].
    assert (H1 : cache_ok c1) by (eapply extend_low_ok; eauto).
    destruct (f_cached H c1 up) as [c2 rup] eqn:E2.
    assert (H2 : cache_ok c2) by (change c2 with (fst (c2, rup)); rewrite <- E2; now apply f_cached_ok).
    destruct (extend_up H ge fuel level c2 up rup) as [[c3 up']|] eqn:E3; [|discriminate].
    assert (H3 : cache_ok c3) by (eapply extend_up_ok; eauto).
    destruct (run_toms H toms c3 level 0 lo' up') as [c4 obs] eqn:E4.
    assert (H4 : cache_ok c4) by (change c4 with (fst (c4, obs)); rewrite <- E4; now apply run_toms_ok).
    destruct (exp_loop H toms c4 level [1; 2; 3; 4; 5]%nat) as [[c5 exps]|] eqn:E5; [|discriminate].
    destruct (exp_loop_ok _ _ _ _ _ H4 E5) as [H5 Hl].
    intros [= <-]. simpl. split; [now apply cache_ok_results|exact Hl]. Qed.

  (* -- grid scan *)
  Theorem results_are_hypotests_grid scan level :
    snd (linear_grid_scan H scan level) = (scan, map H scan) /\ length (fst (linear_grid_scan H scan level)) = 6%nat.
  Proof. split; reflexivity. Qed.

  (* -- through upper_limit, whichever mode *)
  Theorem results_are_hypotests ge gb tb dg dt fuel bounds scan level o :
    upper_limit H toms ge gb tb dg dt fuel bounds scan level = Some o ->
    so_results o = map H (so_points o) /\ length (so_exp o) = 5%nat /\
    (forall s, scan = Some s -> so_points o = s).
  Proof. unfold upper_limit. destruct scan as [s|].
    - destruct (eff_level gb dg level) as [lv|]; [|discriminate].
      destruct (linear_grid_scan H s lv) as [limits [pts res]] eqn:E.
      pose proof (results_are_hypotests_grid s lv) as [Hr Hl]. rewrite E in Hr, Hl. simpl in Hr, Hl. inversion Hr; subst.
      destruct (all_some limits) as [[|o' e]|] eqn:Ea; try discriminate. intros [= <-]. simpl.
      split; auto. split; [|intros s' [= ->]; auto].
      assert (Hlen : forall (l : list (option (V N))) l', all_some l = Some l' -> length l' = length l).
      { induction l as [|x t IH]; simpl; intros l' Hl'; [now inversion Hl'|].
        destruct x; [|discriminate]. destruct (all_some t) eqn:Et; [|discriminate]. inversion Hl'; subst. simpl. f_equal. now apply IH. }
      apply Hlen in Ea. simpl in Ea. lia.
    - destruct (eff_level tb dt level) as [lv|]; [|discriminate]. intros Ho.
      destruct (results_are_hypotests_auto _ _ _ _ _ _ Ho). split; auto. split; auto. discriminate. Qed.


  Lemma np_interp_unfold (x : V N) xp fp : xp <> [] ->
    np_interp x xp fp = if negb (Nat.eqb (length xp) (length fp)) then None
                        else if nltb N (last xp (n0 N)) x then Some (last fp (n0 N))
                        else if nltb N x (hd (n0 N) xp) then Some (hd (n0 N) fp)
                        else Some (interp_seg x xp fp).
  Proof. destruct xp; [congruence|reflexivity]. Qed.

  (* ---------- forwarding of the level ---------- *)
  Lemma eff_level_forwarded b d level : assoc "level" b = Some "param:level"%string -> @eff_level N b d level = Some level.
  Proof. unfold eff_level. now intros ->. Qed.
  Lemma eff_level_dropped b d level : assoc "level" b = None -> @eff_level N b d level = Some d.
  Proof. unfold eff_level. now intros ->. Qed.

  (* specification of the dispatch: the scan function chosen by [scan] runs with the caller's level *)
  Definition upper_limit_spec (ge : bool) (fuel : nat) (bounds : V N * V N) (scan : option (list (V N))) (level : V N) : option (scan_out N) :=
    match scan with
    | Some s => let '(limits, (pts, res)) := linear_grid_scan H s level in
                match all_some limits with
                | Some (o :: e) => Some {| so_obs := o; so_exp := e; so_points := pts; so_results := res; so_brackets := [] |}
                | _ => None end
    | None => toms748_scan H toms ge fuel (fst bounds) (snd bounds) level
    end.

  Theorem level_forwarded_of_tables gb tb :
    assoc "level" gb = Some "param:level"%string -> assoc "level" tb = Some "param:level"%string ->
    forall ge dg dt fuel bounds scan level,
      eff_level gb dg level = Some level /\ eff_level tb dt level = Some level /\
      upper_limit H toms ge gb tb dg dt fuel bounds scan level = upper_limit_spec ge fuel bounds scan level.
  Proof. intros Hg Ht ge dg dt fuel bounds scan level. split; [now apply eff_level_forwarded|]. split; [now apply eff_level_forwarded|].
    unfold upper_limit, upper_limit_spec. destruct scan; now rewrite eff_level_forwarded. Qed.

  (* what the defect looked like: a table without the level entry makes the automatic mode solve at the callee's default *)
  Theorem level_dropped_uses_default gb tb : assoc "level" tb = None ->
    forall ge dg dt fuel bounds level level',
      upper_limit H toms ge gb tb dg dt fuel bounds None level = upper_limit H toms ge gb tb dg dt fuel bounds None level'.
  Proof. intros Ht ge dg dt fuel bounds l l'. unfold upper_limit. now rewrite !eff_level_dropped. Qed.

  (* ---------- best_bracket ---------- *)
  Lemma mask_map {A B} (f : A -> B) m l : mask m (map f l) = map f (mask m l).
  Proof. revert l. induction m as [|b mt IH]; intros [|a t]; simpl; auto. destruct b; simpl; now rewrite IH. Qed.
  Lemma mask_filter {A} (p : A -> bool) l : mask (map p l) l = filter p l.
  Proof. induction l as [|a t IH]; simpl; auto. destruct (p a); now rewrite IH. Qed.
  Lemma arg_from_bound better : forall l best bi i, (bi < i)%nat -> (@arg_from N better best bi i l < i + length l)%nat.
  Proof. induction l as [|v t IH]; simpl; intros best bi i Hb; [lia|].
    destruct (better v best); [specialize (IH v i (S i))|specialize (IH best bi (S i))]; lia. Qed.
  Lemma argmin_bound l i : @argmin N l = Some i -> (i < length l)%nat.
  Proof. destruct l as [|v t]; simpl; [discriminate|]. intros [= <-]. pose proof (arg_from_bound (nltb N) t v 0 1)%nat. lia. Qed.
  Lemma argmax_bound l i : @argmax N l = Some i -> (i < length l)%nat.
  Proof. destruct l as [|v t]; simpl; [discriminate|]. intros [= <-].
    pose proof (arg_from_bound (fun a b => nltb N b a) t v 0 1)%nat. lia. Qed.

  Definition gval (level : V N) (k : nat) (r : hres N) : V N := nsub N (comp k r) level.

  Lemma best_bracket_unfold c level k :
    best_bracket c level k =
    let pos := filter (fun e => nleb N (n0 N) (gval level k (snd e))) c in
    let neg := filter (fun e => nltb N (gval level k (snd e)) (n0 N)) c in
    match argmin (map (fun e => gval level k (snd e)) pos), argmax (map (fun e => gval level k (snd e)) neg) with
    | Some i, Some j => Some (nth i (map fst pos) (n0 N), nth j (map fst neg) (n0 N))
    | _, _ => None end.
  Proof. unfold best_bracket. cbv zeta.
    set (g := fun e : V N * hres N => nsub N (comp k (snd e)) level).
    rewrite !(map_map g). rewrite !mask_map.
    rewrite (mask_filter (fun e => nleb N (n0 N) (g e))), (mask_filter (fun e => nltb N (g e) (n0 N))). reflexivity. Qed.

  (* the bracket has a sign change, and exists whenever the cache holds both signs *)
  Theorem best_bracket_valid c level k :
    (forall a b, best_bracket c level k = Some (a, b) ->
       exists ra rb, In (a, ra) c /\ In (b, rb) c /\
                     nleb N (n0 N) (gval level k ra) = true /\ nltb N (gval level k rb) (n0 N) = true) /\
    ((exists e, In e c /\ nleb N (n0 N) (gval level k (snd e)) = true) ->
     (exists e, In e c /\ nltb N (gval level k (snd e)) (n0 N) = true) ->
     exists a b, best_bracket c level k = Some (a, b)).
  Proof. rewrite best_bracket_unfold. cbv zeta.
    set (pos := filter _ c). set (neg := filter _ c). split.
    - intros a b. destruct (argmin _) as [i|] eqn:Ei; [|discriminate]. destruct (argmax _) as [j|] eqn:Ej; [|discriminate].
      apply argmin_bound in Ei. apply argmax_bound in Ej. rewrite map_length in Ei, Ej. intros [= <- <-].
      assert (Hi := nth_In pos (n0 N, (n0 N, [])) Ei). assert (Hj := nth_In neg (n0 N, (n0 N, [])) Ej).
      apply filter_In in Hi, Hj. destruct Hi as [Hi1 Hi2], Hj as [Hj1 Hj2].
      exists (snd (nth i pos (n0 N, (n0 N, [])))), (snd (nth j neg (n0 N, (n0 N, [])))).
      assert (Ha : nth i (map fst pos) (n0 N) = fst (nth i pos (n0 N, (n0 N, [])))) by exact (map_nth fst pos (n0 N, (n0 N, [])) i).
      assert (Hb : nth j (map fst neg) (n0 N) = fst (nth j neg (n0 N, (n0 N, [])))) by exact (map_nth fst neg (n0 N, (n0 N, [])) j).
      rewrite Ha, Hb. rewrite <- !surjective_pairing. auto.
    - intros (e & He1 & He2) (e' & He1' & He2').
      assert (Hp : In e pos) by (apply filter_In; auto). assert (Hn : In e' neg) by (apply filter_In; auto).
      destruct pos as [|p0 pt]; [destruct Hp|]. destruct neg as [|q0 qt]; [destruct Hn|]. simpl. eauto. Qed.
End Structural.

(* ---------- the syntactic facts about the use of [level] inside the two scan functions (extracted each run) ---------- *)
Definition required_level_facts : list string :=
  ["toms_f_minus_level"; "toms_args_level"; "toms_bracket_level"; "toms_loops_level"; "grid_interp_level";
   "level_never_reassigned"; "hypotest_fwd_grid"; "hypotest_fwd_toms"]%string.
Fixpoint bassoc (k : string) (l : list (string * bool)) : option bool :=
  match l with [] => None | (k', v) :: t => if String.eqb k k' then Some v else bassoc k t end.
Definition level_path_ok (fs : list (string * bool)) : bool :=
  forallb (fun k => match bassoc k fs with Some true => true | _ => false end) required_level_facts.


(* ====================================================================================== *)
(* Part 3 : the real-number instance                                                       *)
(* ====================================================================================== *)
Section RealInstance.
  Local Open Scope R_scope.

  Lemma rltb_false a b : rltb a b = false <-> ~ a < b.
  Proof. unfold rltb. destruct (Rlt_dec a b); split; intros; try discriminate; try contradiction; auto. Qed.
  Lemma rleb_false a b : rleb a b = false <-> ~ a <= b.
  Proof. unfold rleb. destruct (Rle_dec a b); split; intros; try discriminate; try contradiction; auto. Qed.
  Lemma reqb_true a b : reqb a b = true <-> a = b.
  Proof. unfold reqb. destruct (Req_EM_T a b); split; intros; try discriminate; try contradiction; auto. Qed.

  (* ---------- sortedness helpers ---------- *)
  Lemma SS_app {A} (R : A -> A -> Prop) l1 l2 :
    StronglySorted R l1 -> StronglySorted R l2 -> (forall a b, In a l1 -> In b l2 -> R a b) -> StronglySorted R (l1 ++ l2).
  Proof. induction l1 as [|x t IH]; simpl; intros H1 H2 H12; auto.
    inversion H1 as [|? ? Ht Hx]; subst. constructor.
    - apply IH; auto.
    - apply Forall_app. split; auto. apply Forall_forall. intros b Hb. apply H12; auto. Qed.
  Lemma SS_rev {A} (R : A -> A -> Prop) l : StronglySorted R l -> StronglySorted (fun a b => R b a) (rev l).
  Proof. induction 1 as [|a t Ht IH Ha]; simpl; [constructor|].
    apply SS_app; auto. { repeat constructor. }
    intros x y Hx [<-|[]]. rewrite Forall_forall in Ha. apply Ha. now apply in_rev. Qed.
  Lemma SS_app_inv {A} (R : A -> A -> Prop) l1 l2 : StronglySorted R (l1 ++ l2) ->
    StronglySorted R l1 /\ StronglySorted R l2 /\ (forall a b, In a l1 -> In b l2 -> R a b).
  Proof. induction l1 as [|x t IH]; simpl; intros Hs.
    - split; [constructor|]. split; auto. intros a b [].
    - inversion Hs as [|? ? Ht Hx]; subst. destruct (IH Ht) as (H1 & H2 & H12). rewrite Forall_app in Hx. destruct Hx as [Hx1 Hx2].
      split; [constructor; auto|]. split; auto. intros a b [<-|Ha] Hb; [|now apply H12]. rewrite Forall_forall in Hx2. now apply Hx2. Qed.
  Lemma rev_mid {A} (l1 l2 : list A) a b : rev (l1 ++ a :: b :: l2) = rev l2 ++ b :: a :: rev l1.
  Proof. rewrite rev_app_distr. simpl. now rewrite <- !app_assoc. Qed.
  Lemma sorted_head_le_last a l d : StronglySorted Rlt (a :: l) -> a <= last (a :: l) d.
  Proof. revert a. induction l as [|b t IH]; intros a Hs; [simpl; lra|].
    inversion Hs as [|? ? Ht Hf]; subst. inversion Hf as [|? ? Hab _]; subst.
    change (last (a :: b :: t) d) with (last (b :: t) d). specialize (IH b Ht). apply Rle_trans with b; [lra|exact IH]. Qed.
  Lemma last_app_cons {A} (l1 : list A) a l2 d : last (l1 ++ a :: l2) d = last (a :: l2) d.
  Proof. induction l1 as [|x t IH]; auto. destruct t as [|y t']; [reflexivity|].
    change (last ((x :: y :: t') ++ a :: l2) d) with (last ((y :: t') ++ a :: l2) d). exact IH. Qed.

  (* ---------- numpy.interp on strictly increasing knots ---------- *)
  Notation iseg := (@interp_seg RNum).
  Notation interp := (@np_interp RNum).

  Lemma interp_seg_cell : forall (p1 q1 : list R) (x0 x1 f0 f1 : R) (p2 q2 : list R) (x : R),
    length p1 = length q1 -> StronglySorted Rlt (p1 ++ x0 :: x1 :: p2) -> x0 <= x < x1 ->
    iseg x (p1 ++ x0 :: x1 :: p2) (q1 ++ f0 :: f1 :: q2) = f0 + (f1 - f0) / (x1 - x0) * (x - x0).
  Proof. induction p1 as [|a p1 IH]; intros [|b q1] x0 x1 f0 f1 p2 q2 x Hl Hs Hx; try discriminate.
    - simpl. destruct (rleb x1 x) eqn:E1; [apply rleb_le in E1; lra|].
      destruct (reqb x0 x) eqn:E2; [apply reqb_true in E2; subst; field; lra|]. ring.
    - simpl in Hl. injection Hl as Hl. specialize (IH q1 x0 x1 f0 f1 p2 q2 x Hl).
      assert (Hs' : StronglySorted Rlt (p1 ++ x0 :: x1 :: p2)) by (simpl in Hs; now inversion Hs).
      specialize (IH Hs' Hx).
      assert (Ha : forall y, In y (p1 ++ x0 :: x1 :: p2) -> a < y).
      { simpl in Hs. inversion Hs as [|? ? _ Hf]; subst. now rewrite Forall_forall in Hf. }
      destruct p1 as [|a' p1]; destruct q1 as [|b' q1]; try discriminate.
      + simpl in *. assert (a < x0) by (apply Ha; auto).
        destruct (rleb x0 x) eqn:E0; [|apply rleb_false in E0; lra]. exact IH.
      + assert (Hsx : a' < x0).
        { apply SS_app_inv in Hs'. destruct Hs' as (_ & _ & H12). apply H12; simpl; auto. }
        simpl app in *.
        change (iseg x (a :: a' :: p1 ++ x0 :: x1 :: p2) (b :: b' :: q1 ++ f0 :: f1 :: q2))
          with (if rleb a' x then iseg x (a' :: p1 ++ x0 :: x1 :: p2) (b' :: q1 ++ f0 :: f1 :: q2)
                else if reqb a x then b else (b' - b) / (a' - a) * (x - a) + b).
        destruct (rleb a' x) eqn:E0; [|apply rleb_false in E0; lra]. exact IH. Qed.

  Theorem np_interp_cell (p1 q1 : list R) (x0 x1 f0 f1 : R) (p2 q2 : list R) (x : R) :
    length p1 = length q1 -> length p2 = length q2 -> StronglySorted Rlt (p1 ++ x0 :: x1 :: p2) -> x0 <= x < x1 ->
    interp x (p1 ++ x0 :: x1 :: p2) (q1 ++ f0 :: f1 :: q2) = Some (f0 + (f1 - f0) / (x1 - x0) * (x - x0)).
  Proof. intros Hl1 Hl2 Hs Hx. rewrite np_interp_unfold by (destruct p1; discriminate). change (V RNum) with R.
    assert (Hlen : length (p1 ++ x0 :: x1 :: p2) = length (q1 ++ f0 :: f1 :: q2)) by (rewrite !app_length; simpl; lia).
    rewrite Hlen, Nat.eqb_refl. simpl negb. cbv iota.
    assert (Hlast : x1 <= last (p1 ++ x0 :: x1 :: p2) 0).
    { rewrite last_app_cons. change (last (x0 :: x1 :: p2) 0) with (last (x1 :: p2) 0). apply sorted_head_le_last.
      apply SS_app_inv in Hs. destruct Hs as (_ & Hs & _). inversion Hs as [|? ? Hs1 _]; subst. exact Hs1. }
    cbn [nltb n0 RNum].
    destruct (rltb (last (p1 ++ x0 :: x1 :: p2) 0) x) eqn:E1; [apply rltb_lt in E1; lra|].
    assert (Hh : hd 0 (p1 ++ x0 :: x1 :: p2) <= x0).
    { destruct p1 as [|a p1]; simpl; [lra|].
      apply SS_app_inv in Hs. destruct Hs as (_ & _ & H12). left. apply (H12 a x0); simpl; auto. }
    destruct (rltb x (hd 0 (p1 ++ x0 :: x1 :: p2))) eqn:E2; [apply rltb_lt in E2; lra|].
    f_equal. now apply interp_seg_cell. Qed.

  (* clamping: outside the knots numpy.interp returns the end values *)
  Theorem np_interp_clamp_right (x : R) (xp fp : list R) : xp <> [] -> length xp = length fp -> last xp 0 < x -> interp x xp fp = Some (last fp 0).
  Proof. intros Hn Hl Hx. rewrite np_interp_unfold by exact Hn. change (V RNum) with R. rewrite Hl, Nat.eqb_refl. simpl negb. cbv iota.
    cbn [nltb n0 RNum]. destruct (rltb (last xp 0) x) eqn:E; auto. apply rltb_false in E. lra. Qed.
  Theorem np_interp_clamp_left (x h : R) (t fp : list R) : length (h :: t) = length fp -> StronglySorted Rlt (h :: t) -> x < h -> interp x (h :: t) fp = Some (hd 0 fp).
  Proof. intros Hl Hs Hx. rewrite np_interp_unfold by discriminate. change (V RNum) with R. rewrite Hl, Nat.eqb_refl. simpl negb. cbv iota. cbn [nltb n0 RNum].
    pose proof (sorted_head_le_last h t 0 Hs).
    destruct (rltb (last (h :: t) 0) x) eqn:E; [apply rltb_lt in E; lra|].
    cbn [hd]. destruct (rltb x h) eqn:E2; [reflexivity|apply rltb_false in E2; lra]. Qed.

  (* ---------- the grid limit of one curve ---------- *)
  Definition grid_limit (level : R) (curve scan : list R) : option R := interp level (rev curve) (rev scan).
  (* where the chord through (a, ca) and (b, cb) meets the level *)
  Definition chord_cross (a ca b cb level : R) : R := b + (a - b) / (ca - cb) * (level - cb).

  Theorem grid_limit_cell level c1 c2 s1 s2 ca cb a b :
    length c1 = length s1 -> length c2 = length s2 -> StronglySorted Rgt (c1 ++ ca :: cb :: c2) -> cb <= level < ca ->
    grid_limit level (c1 ++ ca :: cb :: c2) (s1 ++ a :: b :: s2) = Some (chord_cross a ca b cb level).
  Proof. intros Hl1 Hl2 Hs Hx. unfold grid_limit, chord_cross. rewrite !rev_mid.
    apply np_interp_cell; try (rewrite !rev_length; auto); auto.
    rewrite <- rev_mid. apply (SS_rev Rgt) in Hs. exact Hs. Qed.

  Lemma chord_cross_on_chord a ca b cb level : ca <> cb ->
    (chord_cross a ca b cb level - a) * (cb - ca) = (level - ca) * (b - a).
  Proof. intros Hc. unfold chord_cross. field. lra. Qed.
  (* the piecewise-linear interpolant of the curve takes the value [level] at the reported limit *)
  Lemma chord_value_at_cross a ca b cb level : ca <> cb -> a <> b ->
    ca + (cb - ca) / (b - a) * (chord_cross a ca b cb level - a) = level.
  Proof. intros Hc Hab. unfold chord_cross. field. lra. Qed.
  Lemma chord_cross_between a ca b cb level : cb <= level < ca ->
    Rmin a b <= chord_cross a ca b cb level <= Rmax a b.
  Proof. intros Hx. unfold chord_cross.
    set (lam := (level - cb) / (ca - cb)).
    assert (Hlam : 0 <= lam < 1).
    { unfold lam. split; [apply Rmult_le_pos; [lra|left; apply Rinv_0_lt_compat; lra]|].
      apply (Rmult_lt_reg_r (ca - cb)); [lra|]. unfold Rdiv. rewrite Rmult_assoc, Rinv_l; lra. }
    replace (b + (a - b) / (ca - cb) * (level - cb)) with (b + lam * (a - b)) by (unfold lam; field; lra).
    unfold Rmin, Rmax. destruct (Rle_dec a b); split; nra. Qed.
  Lemma chord_cross_strict a ca b cb level : cb <= level < ca -> a < b -> a < chord_cross a ca b cb level <= b.
  Proof. intros Hx Hab. unfold chord_cross.
    set (lam := (level - cb) / (ca - cb)).
    assert (Hlam : 0 <= lam < 1).
    { unfold lam. split; [apply Rmult_le_pos; [lra|left; apply Rinv_0_lt_compat; lra]|].
      apply (Rmult_lt_reg_r (ca - cb)); [lra|]. unfold Rdiv. rewrite Rmult_assoc, Rinv_l; lra. }
    replace (b + (a - b) / (ca - cb) * (level - cb)) with (b + lam * (a - b)) by (unfold lam; field; lra).
    split; nra. Qed.

  (* ---------- linear_grid_scan: each of the six limits is the grid limit of its own curve ---------- *)
  Variable H : R -> hres RNum.
  Definition curve (k : nat) (scan : list R) : list R := map (fun p => comp k (H p)) scan.

  Lemma map2_map {A B C D} (f : B -> C -> D) (g : A -> B) (h : A -> C) l : map2 f (map g l) (map h l) = map (fun x => f (g x) (h x)) l.
  Proof. induction l as [|x t IH]; simpl; auto. now rewrite IH. Qed.
  Lemma nth_map_seq {A} (f : nat -> A) n k d : (k < n)%nat -> nth k (map f (seq 0 n)) d = f k.
  Proof. intros Hk. rewrite (nth_indep _ d (f 0%nat)) by (now rewrite map_length, seq_length).
    rewrite map_nth, seq_nth; auto. Qed.
  Lemma row_comp k (r : hres RNum) : (k < 6)%nat ->
    nth k (fst r :: map (fun idx => nth idx (snd r) 0) (seq 0 5)) 0 = comp k r.
  Proof. intros Hk. do 6 (destruct k as [|k]; [reflexivity|]). lia. Qed.

  Theorem lgs_limit_is_grid_limit scan level k : (k < 6)%nat ->
    nth k (fst (@linear_grid_scan RNum H scan level)) None = grid_limit level (curve k scan) scan.
  Proof. intros Hk. unfold linear_grid_scan. cbv zeta. cbn [fst].
    rewrite nth_map_seq by exact Hk. unfold grid_limit, curve. f_equal. f_equal.
    unfold transpose. rewrite (nth_map_seq _ 6 k []) by exact Hk.
    rewrite (map2_map (@app R) (fun r : hres RNum => [fst r]) (fun r => map (fun idx => nth idx (snd r) (n0 RNum)) (seq 0 5))).
    rewrite !map_map. apply map_ext. intros p. simpl app. now apply (row_comp k (H p)). Qed.

  (* C09: for a user grid, each reported limit is the point of the crossing cell at which the chord of the
     (strictly decreasing) CLs curve meets the requested level, and it lies inside that cell. *)
  Theorem grid_limit_is_linear_interp level k s1 s2 a b :
    (k < 6)%nat -> StronglySorted Rgt (curve k (s1 ++ a :: b :: s2)) ->
    comp k (H b) <= level < comp k (H a) ->
    let t := chord_cross a (comp k (H a)) b (comp k (H b)) level in
    nth k (fst (@linear_grid_scan RNum H (s1 ++ a :: b :: s2) level)) None = Some t /\
    (t - a) * (comp k (H b) - comp k (H a)) = (level - comp k (H a)) * (b - a) /\
    (a <> b -> comp k (H a) + (comp k (H b) - comp k (H a)) / (b - a) * (t - a) = level).
  Proof. intros Hk Hs Hx t. split; [|split].
    - rewrite lgs_limit_is_grid_limit by exact Hk. unfold curve in *. rewrite map_app in *. simpl map in *.
      apply grid_limit_cell; auto; now rewrite map_length.
    - apply chord_cross_on_chord. lra.
    - intros Hab. apply chord_value_at_cross; auto. lra. Qed.

  Theorem grid_limit_in_crossing_cell level k s1 s2 a b :
    (k < 6)%nat -> StronglySorted Rgt (curve k (s1 ++ a :: b :: s2)) ->
    comp k (H b) <= level < comp k (H a) ->
    exists t, nth k (fst (@linear_grid_scan RNum H (s1 ++ a :: b :: s2) level)) None = Some t /\
              Rmin a b <= t <= Rmax a b /\ (a < b -> a < t <= b).
  Proof. intros Hk Hs Hx. destruct (grid_limit_is_linear_interp level k s1 s2 a b Hk Hs Hx) as (Ht & _).
    eexists. split; [exact Ht|]. split; [now apply chord_cross_between|]. intros Hab. now apply chord_cross_strict. Qed.
End RealInstance.


Section Auto.
  Local Open Scope R_scope.
  Variable H : R -> hres RNum.
  (* scipy.optimize.toms748: external.  [toms k f a b] = (points at which it evaluated f, the root it returns). *)
  Variable toms : nat -> (R -> R) -> R -> R -> list R * R.
  (* its termination tolerance around the returned point:  xtol + rtol * |x|  in scipy *)
  Variable tol : R -> R.

  (* assumed post-condition of the root finder: started on a bracket with f a >= 0 >= f b it returns a point x lying
     between two points u, v not further apart than tol x at which f has opposite signs *)
  Definition toms_post : Prop := forall k (f : R -> R) a b, 0 <= f a -> f b <= 0 ->
    let x := snd (toms k f a b) in
    exists u v, 0 <= f u /\ f v <= 0 /\ Rabs (v - u) <= tol x /\ Rmin u v <= x <= Rmax u v.
  Definition lipschitz (L : R) (f : R -> R) : Prop := forall x y, Rabs (f x - f y) <= L * Rabs (x - y).

  Definition gobj (level : R) (k : nat) (p : R) : R := comp k (H p) - level.

  Lemma lipschitz_nonneg L f : lipschitz L f -> 0 <= L.
  Proof. intros Hl. specialize (Hl 1 0). replace (1 - 0) with 1 in Hl by ring. rewrite (Rabs_pos_eq 1) in Hl by lra.
    pose proof (Rabs_pos (f 1 - f 0)). lra. Qed.

  Lemma between_abs u v x : Rmin u v <= x <= Rmax u v -> Rabs (x - u) <= Rabs (v - u) /\ Rabs (x - v) <= Rabs (v - u).
  Proof. unfold Rmin, Rmax. intros Hx. destruct (Rle_dec u v);
    split; unfold Rabs; repeat destruct (Rcase_abs _); lra. Qed.

  Lemma solves_of_post L k f a b : toms_post -> lipschitz L f -> 0 <= f a -> f b <= 0 ->
    Rabs (f (snd (toms k f a b))) <= L * tol (snd (toms k f a b)).
  Proof. intros Hp Hl Ha Hb. destruct (Hp k f a b Ha Hb) as (u & v & Hu & Hv & Huv & Hx).
    set (x := snd (toms k f a b)) in *. pose proof (lipschitz_nonneg _ _ Hl) as HL.
    destruct (between_abs u v x Hx) as [Hxu Hxv].
    pose proof (Hl x u) as Hlu. pose proof (Hl x v) as Hlv.
    assert (L * Rabs (x - u) <= L * tol x) by (apply Rmult_le_compat_l; lra).
    assert (L * Rabs (x - v) <= L * tol x) by (apply Rmult_le_compat_l; lra).
    assert (Hlu' : Rabs (f x - f u) <= L * tol x) by lra. assert (Hlv' : Rabs (f x - f v) <= L * tol x) by lra.
    clear - Hlu' Hlv' Hu Hv.
    unfold Rabs in Hlu', Hlv' |- *. destruct (Rcase_abs (f x)); destruct (Rcase_abs (f x - f u)); destruct (Rcase_abs (f x - f v)); lra. Qed.

  (* ---------- cache facts for the real instance (keys compared by real equality) ---------- *)
  Lemma f_cached_val c p : cache_ok RNum H c -> snd (@f_cached RNum H c p) = H p.
  Proof. intros Hc. unfold f_cached. destruct (cfind c p) as [r|] eqn:E; [|reflexivity]. simpl.
    destruct (cfind_in RNum c p r E) as (k & Hin & Hk). apply reqb_true in Hk. subst k.
    unfold cache_ok in Hc. rewrite Forall_forall in Hc. exact (Hc _ Hin). Qed.

  Lemma extend_low_spec level fuel : forall c lo r c' lo', cache_ok RNum H c -> r = H lo ->
    @extend_low RNum H fuel level c lo r = Some (c', lo') -> @any_lt RNum (H lo') level = false.
  Proof. induction fuel as [|n IH]; cbn [extend_low]; intros c lo r c' lo' Hc Hr He; [discriminate|].
    destruct (any_lt r level) eqn:Ea.
    - destruct (@f_cached RNum H c (ndiv RNum lo (two RNum))) as [c1 r1] eqn:E. eapply (IH c1 _ r1); [| |exact He].
      + change c1 with (fst (c1, r1)). rewrite <- E. now apply f_cached_ok.
      + change r1 with (snd (c1, r1)). rewrite <- E. now apply f_cached_val.
    - inversion He; subst. exact Ea. Qed.
  Lemma extend_up_spec ge level fuel : forall c up r c' up', cache_ok RNum H c -> r = H up ->
    @extend_up RNum H ge fuel level c up r = Some (c', up') -> @any_gt RNum ge (H up') level = false.
  Proof. induction fuel as [|n IH]; cbn [extend_up]; intros c up r c' up' Hc Hr He; [discriminate|].
    destruct (any_gt ge r level) eqn:Ea.
    - destruct (@f_cached RNum H c (nmul RNum up (two RNum))) as [c1 r1] eqn:E. eapply (IH c1 _ r1); [| |exact He].
      + change c1 with (fst (c1, r1)). rewrite <- E. now apply f_cached_ok.
      + change r1 with (snd (c1, r1)). rewrite <- E. now apply f_cached_val.
    - inversion He; subst. exact Ea. Qed.

  Lemma run_toms_root c level k a b : snd (@run_toms RNum H toms c level k a b) = snd (toms k (gobj level k) a b).
  Proof. unfold run_toms. change (fun poi : V RNum => nsub RNum (comp k (H poi)) level) with (gobj level k).
    now destruct (toms k (gobj level k) a b). Qed.

  Definition solved_by (level : R) (idx : nat) (r : R) : Prop :=
    exists a b, 0 <= gobj level idx a /\ gobj level idx b <= 0 /\ r = snd (toms idx (gobj level idx) a b).

  Lemma exp_loop_spec level idxs : forall c c' rs, cache_ok RNum H c -> @exp_loop RNum H toms c level idxs = Some (c', rs) ->
    Forall2 (solved_by level) idxs rs.
  Proof. induction idxs as [|i t IH]; simpl; intros c c' rs Hc He.
    - inversion He; subst. constructor.
    - destruct (@best_bracket RNum c level i) as [[a b]|] eqn:Eb; [|discriminate].
      destruct (@run_toms RNum H toms c level i a b) as [c1 r] eqn:E.
      destruct (@exp_loop RNum H toms c1 level t) as [[c2 rs2]|] eqn:E2; [|discriminate]. inversion He; subst.
      constructor.
      + destruct (best_bracket_valid RNum c level i) as [Hv _]. destruct (Hv a b Eb) as (ra & rb & Hia & Hib & Hpa & Hnb).
        unfold cache_ok in Hc. rewrite Forall_forall in Hc. pose proof (Hc _ Hia) as Hra. pose proof (Hc _ Hib) as Hrb. simpl in Hra, Hrb. subst ra rb.
        apply rleb_le in Hpa. apply rltb_lt in Hnb. exists a, b. unfold gobj. unfold gval in Hpa, Hnb. simpl in Hpa, Hnb.
        split; [exact Hpa|]. split; [lra|].
        change r with (snd (c1, r)). rewrite <- E. apply run_toms_root.
      + apply (IH c1 c'); auto. change c1 with (fst (c1, r)). rewrite <- E. now apply run_toms_ok. Qed.

  Lemma existsb_false {A} (f : A -> bool) l : existsb f l = false -> forall x, In x l -> f x = false.
  Proof. induction l as [|a t IH]; simpl; intros He x []. - subst. now apply orb_false_iff in He. - apply IH; auto. now apply orb_false_iff in He. Qed.
  Lemma any_lt_false r level : @any_lt RNum r level = false -> forall v, In v (fst r :: snd r) -> level <= v.
  Proof. unfold any_lt. intros He v Hv. pose proof (existsb_false _ _ He v Hv) as Hf. cbn beta in Hf. apply rltb_false in Hf. lra. Qed.
  Lemma any_gt_false ge r level : @any_gt RNum ge r level = false -> forall v, In v (fst r :: snd r) -> v <= level.
  Proof. unfold any_gt. intros He v Hv. pose proof (existsb_false _ _ He v Hv) as Hf. cbn beta in Hf. destruct ge.
    - apply rleb_false in Hf. lra.
    - apply rltb_false in Hf. lra. Qed.
  Lemma any_ge_false r level : @any_gt RNum true r level = false -> forall v, In v (fst r :: snd r) -> v < level.
  Proof. unfold any_gt. intros He v Hv. pose proof (existsb_false _ _ He v Hv) as Hf. cbn beta in Hf. apply rleb_false in Hf. lra. Qed.

  (* every one of the six reported limits is a point returned by the root finder started on a valid bracket of its own curve *)
  Theorem auto_limits_are_bracketed_roots ge fuel lo up level o :
    @toms748_scan RNum H toms ge fuel lo up level = Some o ->
    Forall2 (solved_by level) [0; 1; 2; 3; 4; 5]%nat (so_obs o :: so_exp o).
  Proof. unfold toms748_scan. destruct (@f_cached RNum H [] lo) as [c0 rlo] eqn:E0.
    assert (H0 : cache_ok RNum H c0) by (change c0 with (fst (c0, rlo)); rewrite <- E0; apply f_cached_ok; constructor).
    assert (R0 : rlo = H lo) by (change rlo with (snd (c0, rlo)); rewrite <- E0; apply f_cached_val; constructor).
    destruct (@extend_low RNum H fuel level c0 lo rlo) as [[c1 lo']|] eqn:E1; [|discriminate].
    assert (H1 : cache_ok RNum H c1) by (eapply extend_low_ok; eauto).
    pose proof (extend_low_spec _ _ _ _ _ _ _ H0 R0 E1) as Hlo.
    destruct (@f_cached RNum H c1 up) as [c2 rup] eqn:E2.
    assert (H2 : cache_ok RNum H c2) by (change c2 with (fst (c2, rup)); rewrite <- E2; now apply f_cached_ok).
    assert (R2 : rup = H up) by (change rup with (snd (c2, rup)); rewrite <- E2; now apply f_cached_val).
    destruct (@extend_up RNum H ge fuel level c2 up rup) as [[c3 up']|] eqn:E3; [|discriminate].
    assert (H3 : cache_ok RNum H c3) by (eapply extend_up_ok; eauto).
    pose proof (extend_up_spec _ _ _ _ _ _ _ _ H2 R2 E3) as Hup.
    destruct (@run_toms RNum H toms c3 level 0 lo' up') as [c4 obs] eqn:E4.
    assert (H4 : cache_ok RNum H c4) by (change c4 with (fst (c4, obs)); rewrite <- E4; now apply run_toms_ok).
    destruct (@exp_loop RNum H toms c4 level [1; 2; 3; 4; 5]%nat) as [[c5 exps]|] eqn:E5; [|discriminate].
    intros [= <-]. simpl so_obs. simpl so_exp. constructor.
    - exists lo', up'. unfold gobj. simpl comp.
      pose proof (any_lt_false _ _ Hlo (fst (H lo')) (or_introl eq_refl)).
      pose proof (any_gt_false _ _ _ Hup (fst (H up')) (or_introl eq_refl)).
      split; [apply Rge_le, Rge_minus, Rle_ge; assumption|]. split; [apply Rle_minus; assumption|]. change obs with (snd (c4, obs)). rewrite <- E4. apply run_toms_root.
    - eapply exp_loop_spec; eauto. Qed.

  (* ---------- the automatic scan cannot fail once both extension loops have ended, provided the upper loop stops only
     when every curve is strictly below the level (ge = true).  With the strict comparison of the pinned source
     (ge = false) it can: see auto_scan_exact_hit_refuted below. ---------- *)
  Lemma f_cached_keeps c p e : In e c -> In e (fst (@f_cached RNum H c p)).
  Proof. intros He. destruct (f_cached_keys RNum H c p) as [ex ->]. apply in_or_app. now left. Qed.
  Lemma f_cached_has c p : cache_ok RNum H c -> In (p, H p) (fst (@f_cached RNum H c p)).
  Proof. intros Hc. unfold f_cached. destruct (cfind c p) as [r|] eqn:E; simpl.
    - destruct (cfind_in RNum c p r E) as (k & Hin & Hk). apply reqb_true in Hk. subst k.
      unfold cache_ok in Hc. rewrite Forall_forall in Hc. pose proof (Hc _ Hin) as Hr. simpl in Hr. now subst r.
    - apply in_or_app. right. now left. Qed.
  Lemma extend_low_keeps level fuel : forall c lo r c' lo' e, @extend_low RNum H fuel level c lo r = Some (c', lo') -> In e c -> In e c'.
  Proof. induction fuel as [|n IH]; cbn [extend_low]; intros c lo r c' lo' e He Hin; [discriminate|].
    destruct (any_lt r level).
    - destruct (@f_cached RNum H c (ndiv RNum lo (two RNum))) as [c1 r1] eqn:E. eapply IH; [exact He|].
      change c1 with (fst (c1, r1)). rewrite <- E. now apply f_cached_keeps.
    - now inversion He; subst. Qed.
  Lemma extend_up_keeps ge level fuel : forall c up r c' up' e, @extend_up RNum H ge fuel level c up r = Some (c', up') -> In e c -> In e c'.
  Proof. induction fuel as [|n IH]; cbn [extend_up]; intros c up r c' up' e He Hin; [discriminate|].
    destruct (any_gt ge r level).
    - destruct (@f_cached RNum H c (nmul RNum up (two RNum))) as [c1 r1] eqn:E. eapply IH; [exact He|].
      change c1 with (fst (c1, r1)). rewrite <- E. now apply f_cached_keeps.
    - now inversion He; subst. Qed.
  Lemma extend_low_has level fuel : forall c lo r c' lo', cache_ok RNum H c -> In (lo, H lo) c ->
    @extend_low RNum H fuel level c lo r = Some (c', lo') -> In (lo', H lo') c'.
  Proof. induction fuel as [|n IH]; cbn [extend_low]; intros c lo r c' lo' Hc Hin He; [discriminate|].
    destruct (any_lt r level).
    - destruct (@f_cached RNum H c (ndiv RNum lo (two RNum))) as [c1 r1] eqn:E. eapply (IH c1 _ r1); [| |exact He].
      + change c1 with (fst (c1, r1)). rewrite <- E. now apply f_cached_ok.
      + change c1 with (fst (c1, r1)). rewrite <- E. now apply f_cached_has.
    - now inversion He; subst. Qed.
  Lemma extend_up_has ge level fuel : forall c up r c' up', cache_ok RNum H c -> In (up, H up) c ->
    @extend_up RNum H ge fuel level c up r = Some (c', up') -> In (up', H up') c'.
  Proof. induction fuel as [|n IH]; cbn [extend_up]; intros c up r c' up' Hc Hin He; [discriminate|].
    destruct (any_gt ge r level).
    - destruct (@f_cached RNum H c (nmul RNum up (two RNum))) as [c1 r1] eqn:E. eapply (IH c1 _ r1); [| |exact He].
      + change c1 with (fst (c1, r1)). rewrite <- E. now apply f_cached_ok.
      + change c1 with (fst (c1, r1)). rewrite <- E. now apply f_cached_has.
    - now inversion He; subst. Qed.
  Lemma fold_keeps pts : forall c e, In e c -> In e (fold_left (fun c p => fst (@f_cached RNum H c p)) pts c).
  Proof. induction pts as [|p t IH]; simpl; intros c e He; auto. apply IH. now apply f_cached_keeps. Qed.
  Lemma run_toms_keeps c level k a b e : In e c -> In e (fst (@run_toms RNum H toms c level k a b)).
  Proof. intros He. unfold run_toms. destruct (toms k _ a b) as [pts root]. simpl. now apply fold_keeps. Qed.

  Lemma exp_loop_total level idxs : forall c, cache_ok RNum H c ->
    (forall k, In k idxs -> exists e, In e c /\ nleb RNum (n0 RNum) (gval RNum level k (snd e)) = true) ->
    (forall k, In k idxs -> exists e, In e c /\ nltb RNum (gval RNum level k (snd e)) (n0 RNum) = true) ->
    exists res, @exp_loop RNum H toms c level idxs = Some res.
  Proof. induction idxs as [|i t IH]; intros c Hc Hpos Hneg; [eexists; reflexivity|]. cbn [exp_loop].
    destruct (best_bracket_valid RNum c level i) as [_ Hex].
    destruct (Hex (Hpos i (or_introl eq_refl)) (Hneg i (or_introl eq_refl))) as (a & b & ->).
    destruct (@run_toms RNum H toms c level i a b) as [c1 r] eqn:E.
    assert (Hk : forall e, In e c -> In e c1) by (intros e He; change c1 with (fst (c1, r)); rewrite <- E; now apply run_toms_keeps).
    destruct (IH c1) as [res ->].
    - change c1 with (fst (c1, r)). rewrite <- E. now apply run_toms_ok.
    - intros k Hk'. destruct (Hpos k (or_intror Hk')) as (e & He & Hv). exists e. auto.
    - intros k Hk'. destruct (Hneg k (or_intror Hk')) as (e & He & Hv). exists e. auto.
    - destruct res. eexists. reflexivity. Qed.

  Lemma comp_in_results k (r : hres RNum) : length (snd r) = 5%nat -> (k < 6)%nat -> In (comp k r) (fst r :: snd r).
  Proof. intros Hl Hk. destruct k as [|k]; [now left|]. right. cbn [comp]. apply nth_In. rewrite Hl. lia. Qed.

  Theorem auto_scan_total fuel lo up level :
    (forall p, length (snd (H p)) = 5%nat) ->
    @toms748_scan RNum H toms true fuel lo up level = None ->
    let c0 := fst (@f_cached RNum H [] lo) in
    @extend_low RNum H fuel level c0 lo (H lo) = None \/
    exists c1 lo', @extend_low RNum H fuel level c0 lo (H lo) = Some (c1, lo') /\
                   @extend_up RNum H true fuel level (fst (@f_cached RNum H c1 up)) up (H up) = None.
  Proof. intros Hlen. unfold toms748_scan. destruct (@f_cached RNum H [] lo) as [c0 rlo] eqn:E0. cbn [fst].
    assert (OK0 : cache_ok RNum H c0) by (change c0 with (fst (c0, rlo)); rewrite <- E0; apply f_cached_ok; constructor).
    assert (R0 : rlo = H lo) by (change rlo with (snd (c0, rlo)); rewrite <- E0; apply f_cached_val; constructor).
    assert (I0 : In (lo, H lo) c0) by (change c0 with (fst (c0, rlo)); rewrite <- E0; apply f_cached_has; constructor).
    subst rlo. destruct (@extend_low RNum H fuel level c0 lo (H lo)) as [[c1 lo']|] eqn:E1; [|intros _; now left]. intros Hnone. right. exists c1, lo'. split; [reflexivity|]. revert Hnone.
    assert (OK1 : cache_ok RNum H c1) by (eapply extend_low_ok; eauto).
    pose proof (extend_low_spec _ _ _ _ _ _ _ OK0 eq_refl E1) as Hlo.
    pose proof (extend_low_has _ _ _ _ _ _ _ OK0 I0 E1) as I1.
    destruct (@f_cached RNum H c1 up) as [c2 rup] eqn:E2. cbn [fst].
    assert (OK2 : cache_ok RNum H c2) by (change c2 with (fst (c2, rup)); rewrite <- E2; now apply f_cached_ok).
    assert (R2 : rup = H up) by (change rup with (snd (c2, rup)); rewrite <- E2; now apply f_cached_val).
    assert (I2 : In (up, H up) c2) by (change c2 with (fst (c2, rup)); rewrite <- E2; now apply f_cached_has).
    assert (K2 : forall e, In e c1 -> In e c2) by (intros e He; change c2 with (fst (c2, rup)); rewrite <- E2; now apply f_cached_keeps).
    subst rup. destruct (@extend_up RNum H true fuel level c2 up (H up)) as [[c3 up']|] eqn:E3; [|intros _; reflexivity].
    assert (OK3 : cache_ok RNum H c3) by (eapply extend_up_ok; eauto).
    pose proof (extend_up_spec _ _ _ _ _ _ _ _ OK2 eq_refl E3) as Hup.
    pose proof (extend_up_has _ _ _ _ _ _ _ _ OK2 I2 E3) as I3.
    assert (J3 : In (lo', H lo') c3) by (eapply extend_up_keeps; [exact E3|]; now apply K2).
    destruct (@run_toms RNum H toms c3 level 0 lo' up') as [c4 obs] eqn:E4.
    assert (OK4 : cache_ok RNum H c4) by (change c4 with (fst (c4, obs)); rewrite <- E4; now apply run_toms_ok).
    assert (K4 : forall e, In e c3 -> In e c4) by (intros e He; change c4 with (fst (c4, obs)); rewrite <- E4; now apply run_toms_keeps).
    destruct (exp_loop_total level [1; 2; 3; 4; 5]%nat c4 OK4) as [res Hres].
    - intros k Hk. exists (lo', H lo'). split; [now apply K4|]. cbn [snd]. apply rleb_le. unfold gval. cbn [nsub n0 RNum].
      assert (Hk6 : (k < 6)%nat) by (repeat (destruct Hk as [Hk|Hk]; [lia|]); destruct Hk).
      pose proof (any_lt_false _ _ Hlo _ (comp_in_results k (H lo') (Hlen lo') Hk6)) as Hv.
      apply Rge_le, Rge_minus, Rle_ge. exact Hv.
    - intros k Hk. exists (up', H up'). split; [now apply K4|]. cbn [snd]. apply rltb_lt. unfold gval. cbn [nsub n0 RNum].
      assert (Hk6 : (k < 6)%nat) by (repeat (destruct Hk as [Hk|Hk]; [lia|]); destruct Hk).
      pose proof (any_ge_false _ _ Hup _ (comp_in_results k (H up') (Hlen up') Hk6)) as Hv.
      apply Rlt_minus. exact Hv.
    - rewrite Hres. destruct res. intros Hx. discriminate Hx. Qed.

  (* C09, automatic scan: given the root finder's post-condition, each reported limit solves CLs_k(mu) = level up to L * tol *)
  Theorem auto_limit_solves L ge fuel lo up level o :
    toms_post -> (forall k, (k < 6)%nat -> lipschitz L (fun p => comp k (H p))) ->
    @toms748_scan RNum H toms ge fuel lo up level = Some o ->
    forall k, (k < 6)%nat ->
      let x := nth k (so_obs o :: so_exp o) 0 in Rabs (comp k (H x) - level) <= L * tol x.
  Proof. intros Hp Hl Ho k Hk. pose proof (auto_limits_are_bracketed_roots _ _ _ _ _ _ Ho) as Hf.
    assert (Hg : forall j, (j < 6)%nat -> lipschitz L (gobj level j)).
    { intros j Hj x y. unfold gobj. replace (comp j (H x) - level - (comp j (H y) - level)) with (comp j (H x) - comp j (H y)) by ring. apply (Hl j Hj). }
    assert (Hs : forall j r, (j < 6)%nat -> solved_by level j r -> Rabs (comp j (H r) - level) <= L * tol r).
    { intros j r Hj (a & b & Ha & Hb & ->). apply (solves_of_post L j (gobj level j) a b Hp (Hg j Hj) Ha Hb). }
    assert (Hn : forall (l1 : list nat) (l2 : list R), Forall2 (solved_by level) l1 l2 ->
              forall j, (j < length l1)%nat -> solved_by level (nth j l1 0%nat) (nth j l2 0)).
    { induction 1 as [|a b l1 l2 Hab _ IH]; intros j Hj; simpl in Hj; [lia|]. destruct j; simpl; auto. apply IH. lia. }
    specialize (Hn _ _ Hf k). simpl length in Hn. specialize (Hn Hk).
    assert (Hkk : nth k [0; 1; 2; 3; 4; 5]%nat 0%nat = k) by (do 6 (destruct k as [|k]; [reflexivity|]); lia).
    rewrite Hkk in Hn. apply Hs; assumption. Qed.
End Auto.

(* ---------- ordering of the limits ---------- *)
Section Ordered.
  Local Open Scope R_scope.
  (* two CLs curves ordered pointwise, the upper one strictly decreasing: the points where they meet the level are
     ordered the same way (this is the band ordering -2s <= -1s <= median <= +1s <= +2s of C07 carried to the limits) *)
  Theorem expected_limits_ordered (f g : R -> R) level a b :
    (forall x, f x <= g x) -> (forall x y, x < y -> g y < g x) -> f a = level -> g b = level -> a <= b.
  Proof. intros Hfg Hg Ha Hb. destruct (Rle_dec a b) as [|Hn]; auto. exfalso.
    assert (Hlt : b < a) by lra. specialize (Hg b a Hlt). specialize (Hfg a). lra. Qed.

  (* ... and up to the root-finder accuracy when the limits only solve within delta and g falls at least with slope m *)
  Theorem expected_limits_ordered_approx (f g : R -> R) level delta m a b :
    (forall x, f x <= g x) -> 0 < m -> (forall x y, x <= y -> m * (y - x) <= g x - g y) ->
    Rabs (f a - level) <= delta -> Rabs (g b - level) <= delta -> a <= b + 2 * delta / m.
  Proof. intros Hfg Hm Hg Ha Hb. destruct (Rle_dec a b) as [Hab|Hn].
    - assert (0 <= delta) by (pose proof (Rabs_pos (f a - level)); lra).
      assert (0 <= 2 * delta / m) by (apply Rmult_le_pos; [lra|left; now apply Rinv_0_lt_compat]). lra.
    - assert (Hlt : b <= a) by lra. specialize (Hg b a Hlt). specialize (Hfg a).
      assert (Ha' : level - delta <= f a) by (unfold Rabs in Ha; destruct (Rcase_abs (f a - level)); lra).
      assert (Hb' : g b <= level + delta) by (unfold Rabs in Hb; destruct (Rcase_abs (g b - level)); lra).
      assert (Hd : m * (a - b) <= 2 * delta) by lra.
      apply (Rmult_le_reg_l m); [exact Hm|]. replace (m * (b + 2 * delta / m)) with (m * b + 2 * delta) by (field; lra). lra. Qed.

  (* grid mode, same cell: ordered curve values give ordered chord crossings *)
  Theorem expected_limits_ordered_same_cell a b ca cb da db level :
    a <= b -> ca <= da -> cb <= db -> cb <= level < ca -> db <= level < da ->
    chord_cross a ca b cb level <= chord_cross a da b db level.
  Proof. intros Hab Hca Hcb Hc Hd. unfold chord_cross.
    assert (H1 : (level - cb) / (ca - cb) >= (level - db) / (da - db)).
    { apply Rle_ge. apply (Rmult_le_reg_r ((ca - cb) * (da - db))); [nra|].
      replace ((level - db) / (da - db) * ((ca - cb) * (da - db))) with ((level - db) * (ca - cb)) by (field; lra).
      replace ((level - cb) / (ca - cb) * ((ca - cb) * (da - db))) with ((level - cb) * (da - db)) by (field; lra). nra. }
    replace (b + (a - b) / (ca - cb) * (level - cb)) with (b - (b - a) * ((level - cb) / (ca - cb))) by (field; lra).
    replace (b + (a - b) / (da - db) * (level - db)) with (b - (b - a) * ((level - db) / (da - db))) by (field; lra).
    nra. Qed.
End Ordered.


(* ====================================================================================== *)
(* Part 4 : the executed instance (Qc) is the restriction of the real one                  *)
(* ====================================================================================== *)
Section QcToR.
  Local Open Scope R_scope.
  Definition q2r (x : Qc) : R := Q2R x.

  Lemma q2r_red (q : Q) : Q2R (Qred q) = Q2R q.
  Proof. apply Qeq_eqR, Qred_correct. Qed.
  Lemma this_Q2Qc (q : Q) : this (Q2Qc q) = Qred q.
  Proof. reflexivity. Qed.
  Lemma q2r_add a b : q2r (a + b)%Qc = q2r a + q2r b.
  Proof. unfold q2r, Qcplus. now rewrite this_Q2Qc, q2r_red, Q2R_plus. Qed.
  Lemma q2r_sub a b : q2r (a - b)%Qc = q2r a - q2r b.
  Proof. unfold q2r, Qcminus, Qcplus, Qcopp. rewrite this_Q2Qc, q2r_red, Q2R_plus, this_Q2Qc, q2r_red, Q2R_opp. ring. Qed.
  Lemma q2r_mul a b : q2r (a * b)%Qc = q2r a * q2r b.
  Proof. unfold q2r, Qcmult. now rewrite this_Q2Qc, q2r_red, Q2R_mult. Qed.
  Lemma q2r_0 : q2r 0%Qc = 0.
  Proof. unfold q2r. simpl. unfold Q2R. simpl. lra. Qed.
  Lemma q2r_inj a b : q2r a = q2r b -> a = b.
  Proof. unfold q2r. intros Hq. apply Qc_is_canon. now apply eqR_Qeq. Qed.
  Lemma q2r_div a b : q2r (a / b)%Qc = q2r a / q2r b.
  Proof. unfold Qcdiv. rewrite q2r_mul. unfold Rdiv. f_equal.
    destruct (Qc_eq_dec b 0%Qc) as [->|Hb].
    - replace (/ 0)%Qc with 0%Qc by (apply Qc_is_canon; reflexivity). rewrite q2r_0. now rewrite Rinv_0.
    - unfold q2r, Qcinv. rewrite this_Q2Qc, q2r_red. apply Q2R_inv. intros Hq. apply Hb. apply Qc_is_canon. exact Hq. Qed.
  Lemma q2r_ltb a b : rltb (q2r a) (q2r b) = qltb a b.
  Proof. destruct (qltb a b) eqn:E.
    - apply rltb_lt. apply qltb_lt in E. now apply Qlt_Rlt.
    - apply rltb_false. intros Hlt. apply Rlt_Qlt in Hlt. assert (qltb a b = true) by now apply qltb_lt. congruence. Qed.
  Lemma q2r_leb a b : rleb (q2r a) (q2r b) = qleb a b.
  Proof. destruct (qleb a b) eqn:E.
    - apply rleb_le. apply qleb_le in E. now apply Qle_Rle.
    - apply rleb_false. intros Hle. apply Rle_Qle in Hle. assert (qleb a b = true) by now apply qleb_le. congruence. Qed.
  Lemma q2r_eqb a b : reqb (q2r a) (q2r b) = Qc_eq_bool a b.
  Proof. unfold Qc_eq_bool. destruct (Qc_eq_dec a b) as [->|Hn].
    - now apply reqb_true.
    - unfold reqb. destruct (Req_EM_T (q2r a) (q2r b)) as [He|]; auto. apply q2r_inj in He. contradiction. Qed.

  Lemma interp_seg_q2r x : forall xp fp,
    q2r (@interp_seg QcNum x xp fp) = @interp_seg RNum (q2r x) (map q2r xp) (map q2r fp).
  Proof. induction xp as [|x0 xt IH]; intros [|f0 ft]; try (simpl; apply q2r_0).
    destruct xt as [|x1 xt']; destruct ft as [|f1 ft']; try reflexivity.
    specialize (IH (f1 :: ft')).
    change (@interp_seg QcNum x (x0 :: x1 :: xt') (f0 :: f1 :: ft'))
      with (if qleb x1 x then @interp_seg QcNum x (x1 :: xt') (f1 :: ft')
            else if Qc_eq_bool x0 x then f0 else ((f1 - f0) / (x1 - x0) * (x - x0) + f0)%Qc).
    change (@interp_seg RNum (q2r x) (map q2r (x0 :: x1 :: xt')) (map q2r (f0 :: f1 :: ft')))
      with (if rleb (q2r x1) (q2r x) then @interp_seg RNum (q2r x) (map q2r (x1 :: xt')) (map q2r (f1 :: ft'))
            else if reqb (q2r x0) (q2r x) then q2r f0 else (q2r f1 - q2r f0) / (q2r x1 - q2r x0) * (q2r x - q2r x0) + q2r f0).
    rewrite q2r_leb, q2r_eqb. destruct (qleb x1 x); [exact IH|]. destruct (Qc_eq_bool x0 x); [reflexivity|].
    now rewrite q2r_add, q2r_mul, q2r_div, !q2r_sub. Qed.

  Lemma last_map {A B} (f : A -> B) l d : last (map f l) (f d) = f (last l d).
  Proof. induction l as [|a t IH]; simpl; auto. destruct t; simpl in *; auto. Qed.
  Lemma hd_map {A B} (f : A -> B) l d : hd (f d) (map f l) = f (hd d l).
  Proof. now destruct l. Qed.

  (* numpy.interp evaluated on the rationals handed over by the harness is numpy.interp of the real-number model *)
  Theorem np_interp_q2r x xp fp :
    option_map q2r (@np_interp QcNum x xp fp) = @np_interp RNum (q2r x) (map q2r xp) (map q2r fp).
  Proof. destruct xp as [|x0 xt]; [reflexivity|].
    rewrite (np_interp_unfold QcNum) by discriminate. rewrite (np_interp_unfold RNum) by discriminate.
    rewrite !map_length. change (V QcNum) with Qc in *. change (V RNum) with R. destruct (negb (Nat.eqb (length (x0 :: xt)) (length fp))); [reflexivity|].
    cbn [nltb n0 QcNum RNum]. rewrite <- q2r_0. rewrite !last_map, !hd_map, !q2r_ltb.
    destruct (qltb (last (x0 :: xt) 0%Qc) x); [reflexivity|]. destruct (qltb x (hd 0%Qc (x0 :: xt))); [reflexivity|].
    cbn [option_map]. f_equal. apply interp_seg_q2r. Qed.
  Lemma SS_map_q2r l : StronglySorted (fun x y : Qc => (y < x)%Qc) l -> StronglySorted Rgt (map q2r l).
  Proof. induction 1 as [|a t Ht IH Ha]; simpl; constructor; auto.
    rewrite Forall_forall in *. intros y Hy. apply in_map_iff in Hy. destruct Hy as (z & <- & Hz).
    specialize (Ha z Hz). unfold Rgt, q2r. now apply Qlt_Rlt. Qed.

  (* hence the crossing-cell theorem holds for the values computed by vm_compute in the correspondence *)
  Theorem grid_limit_cell_executed (level : Qc) c1 c2 s1 s2 (ca cb a b : Qc) :
    length c1 = length s1 -> length c2 = length s2 ->
    StronglySorted (fun x y : Qc => (y < x)%Qc) (c1 ++ ca :: cb :: c2) -> (cb <= level)%Qc -> (level < ca)%Qc ->
    option_map q2r (@np_interp QcNum level (rev (c1 ++ ca :: cb :: c2)) (rev (s1 ++ a :: b :: s2)))
    = Some (chord_cross (q2r a) (q2r ca) (q2r b) (q2r cb) (q2r level)).
  Proof. intros Hl1 Hl2 Hs H1 H2. rewrite np_interp_q2r, !map_rev.
    change (grid_limit (q2r level) (map q2r (c1 ++ ca :: cb :: c2)) (map q2r (s1 ++ a :: b :: s2))
            = Some (chord_cross (q2r a) (q2r ca) (q2r b) (q2r cb) (q2r level))).
    rewrite !map_app. simpl map. apply grid_limit_cell; try (rewrite !map_length; auto).
    - apply SS_map_q2r in Hs. rewrite map_app in Hs. exact Hs.
    - split; [now apply Qle_Rle|now apply Qlt_Rlt]. Qed.
End QcToR.


(* ====================================================================================== *)
(* Part 5 : non-vacuity of the premises used above, and a refutation                       *)
(* ====================================================================================== *)
Section Examples.
  Definition q2 := mkq 2 1. Definition q3 := mkq 3 1.
  (* six CLs curves 1/(1+mu), 1/(1+2mu) (twice), 1/(1+mu) (twice), 2/(2+mu): strictly decreasing on mu >= 0 *)
  Definition exH (p : Qc) : hres QcNum :=
    ((1 / (1 + p))%Qc, [(1 / (1 + q2 * p))%Qc; (1 / (1 + q2 * p))%Qc; (1 / (1 + p))%Qc; (1 / (1 + p))%Qc; (q2 / (q2 + p))%Qc]).

  (* grid 0,1,3 at level 1/3: chord crossing 7/3 in the cell [1,3]; exact knot value 1; clamped to the grid end 3 *)
  Example grid_scan_example :
    map (option_map qout) (fst (@linear_grid_scan QcNum exH [0%Qc; 1%Qc; q3] (mkq 1 3)))
    = [Some (7%Z, 3%positive); Some (1%Z, 1%positive); Some (1%Z, 1%positive); Some (7%Z, 3%positive); Some (7%Z, 3%positive); Some (3%Z, 1%positive)].
  Proof. vm_compute. reflexivity. Qed.

  (* an oracle root finder: evaluates the objective at its answer and returns it *)
  Definition exToms (roots : list Qc) (k : nat) (g : Qc -> Qc) (a b : Qc) : list Qc * Qc := let r := nth k roots 0%Qc in ([r], r).
  Definition show (o : option (scan_out QcNum)) :=
    match o with
    | Some o => Some (map qout (so_obs o :: so_exp o), map qout (so_points o), map (fun ab => (qout (fst ab), qout (snd ab))) (so_brackets o))
    | None => None end.

  (* a run of the automatic scan that needs three doublings of the upper bound (level 3/10, bounds (0,1) -> (0,8)) *)
  Example toms748_scan_example :
    show (@toms748_scan QcNum exH (exToms [mkq 7 3; mkq 7 6; mkq 7 6; mkq 7 3; mkq 7 3; mkq 14 3]) false 16 0%Qc 1%Qc (mkq 3 10))
    = Some (map qout [mkq 7 3; mkq 7 6; mkq 7 6; mkq 7 3; mkq 7 3; mkq 14 3],
            map qout [0%Qc; 1%Qc; q2; mkq 4 1; mkq 8 1; mkq 7 3; mkq 7 6; mkq 14 3],
            map (fun ab => (qout (fst ab), qout (snd ab)))
                [(0%Qc, mkq 8 1); (1%Qc, q2); (mkq 7 6, q2); (mkq 7 3, mkq 4 1); (mkq 7 3, mkq 4 1); (mkq 4 1, mkq 8 1)]).
  Proof. vm_compute. reflexivity. Qed.

  (* REFUTED for the source as pinned (strict `>` in the upper extension loop): at level 1/3 the doubling stops at
     bounds_up = 4 where the last curve equals the level exactly; best_bracket then has no point with CLs - level < 0 for
     that curve and the scan fails (python: ValueError: attempt to get argmax of an empty sequence) although both
     extension loops ended and every curve crosses the level inside [0, 4].  With `>=` the same call succeeds. *)
  Theorem auto_scan_exact_hit_refuted :
    exists (H : Qc -> hres QcNum) toms lo up level,
      (exists c lo', @extend_low QcNum H 16 level (fst (@f_cached QcNum H [] lo)) lo (H lo) = Some (c, lo') /\
         exists c' up', @extend_up QcNum H false 16 level (fst (@f_cached QcNum H c up)) up (H up) = Some (c', up')) /\
      @toms748_scan QcNum H toms false 16 lo up level = None /\
      @toms748_scan QcNum H toms true 16 lo up level <> None.
  Proof. exists exH, (exToms [q2; 1%Qc; 1%Qc; q2; q2; mkq 4 1]), 0%Qc, 1%Qc, (mkq 1 3). split; [|split].
    - eexists. eexists. split; [vm_compute; reflexivity|]. eexists. eexists. vm_compute. reflexivity.
    - vm_compute. reflexivity.
    - vm_compute. discriminate. Qed.

  Local Open Scope R_scope.
  Example grid_limit_cell_nonvacuous :
    grid_limit (1/3) ([1] ++ 1/2 :: 1/4 :: []) ([0] ++ 1 :: 3 :: []) = Some (chord_cross 1 (1/2) 3 (1/4) (1/3))
    /\ chord_cross 1 (1/2) 3 (1/4) (1/3) = 7/3.
  Proof. split.
    - apply grid_limit_cell; auto; [|lra]. repeat constructor; unfold Rgt; lra.
    - unfold chord_cross. field. Qed.

  Example expected_limits_ordered_nonvacuous : (1 : R) <= 2.
  Proof. apply (expected_limits_ordered (fun x => 1 - x) (fun x => 2 - x) 0 1 2); intros; lra. Qed.

  (* a root finder call that meets the post-condition: f x = 1 - x on [0,2], exact root, zero tolerance *)
  Example solves_of_post_nonvacuous :
    let toms := fun (_ : nat) (_ : R -> R) (_ _ : R) => (@nil R, 1) in
    let f := fun x : R => 1 - x in
    (exists u v, 0 <= f u /\ f v <= 0 /\ Rabs (v - u) <= 0 /\ Rmin u v <= snd (toms 0%nat f 0 2) <= Rmax u v) /\ lipschitz 1 f /\ 0 <= f 0 /\ f 2 <= 0.
  Proof. cbv zeta. split; [|split; [|split]].
    - exists 1, 1. cbn [snd]. rewrite Rminus_diag_eq by reflexivity. rewrite Rabs_R0. unfold Rmin, Rmax. destruct (Rle_dec 1 1); lra.
    - intros x y. replace (1 - x - (1 - y)) with (-(x - y)) by ring. rewrite Rabs_Ropp. lra.
    - lra.
    - lra. Qed.
End Examples.

