(* C11 - theorems about the model of Events.v: for every finite history of set_backend / create / delete /
   evaluate / interpolator calls, every live object holds what a freshly built one would hold. *)
From Coq Require Import Bool Arith Lia String Sorted List.
Require Import PV.Events.
Import ListNotations.
Local Open Scope string_scope.
Local Open Scope list_scope.

(* ---------- list helpers ---------- *)
Lemma nth_error_upd_nth n f h j :
  nth_error (upd_nth n f h) j = if Nat.eqb j n then option_map f (nth_error h j) else nth_error h j.
Proof. revert n j. induction h as [|o r IH]; intros n j; simpl.
  - destruct (Nat.eqb j n); destruct j; reflexivity.
  - destruct n, j; simpl; auto.
Qed.
Lemma length_upd_nth n f h : length (upd_nth n f h) = length h.
Proof. revert n. induction h as [|o r IH]; intros [|n]; simpl; auto. Qed.

Lemma nth_error_snoc {A} (l : list A) x j :
  nth_error (l ++ [x]) j = if Nat.ltb j (length l) then nth_error l j else if Nat.eqb j (length l) then Some x else None.
Proof. destruct (Nat.ltb j (length l)) eqn:E.
  - apply Nat.ltb_lt in E. now rewrite nth_error_app1.
  - apply Nat.ltb_ge in E. rewrite nth_error_app2 by lia. destruct (Nat.eqb j (length l)) eqn:E2.
    + apply Nat.eqb_eq in E2. subst. now rewrite Nat.sub_diag.
    + apply Nat.eqb_neq in E2. destruct (j - length l) eqn:E3; [lia|]. simpl. now destruct n. Qed.

Lemma nth_error_Some_lt {A} (l : list A) j x : nth_error l j = Some x -> j < length l.
Proof. intro H. apply nth_error_Some. congruence. Qed.

(* ---------- skeleton: everything of an object except its attribute store ---------- *)
Definition skel_eq (a b : obj) : Prop :=
  o_cls a = o_cls b /\ o_tree a = o_tree b /\ o_live a = o_live b /\ o_active a = o_active b /\ o_deps a = o_deps b.
Lemma skel_eq_refl a : skel_eq a a.
Proof. repeat split. Qed.
Lemma skel_eq_trans a b c : skel_eq a b -> skel_eq b c -> skel_eq a c.
Proof. unfold skel_eq. intuition congruence. Qed.

Definition heap_skel (h h' : list obj) : Prop :=
  length h = length h' /\ forall j a, nth_error h j = Some a -> exists b, nth_error h' j = Some b /\ skel_eq a b.
Lemma heap_skel_refl h : heap_skel h h.
Proof. split; auto. intros j a H. exists a. split; auto. apply skel_eq_refl. Qed.
Lemma heap_skel_trans h1 h2 h3 : heap_skel h1 h2 -> heap_skel h2 h3 -> heap_skel h1 h3.
Proof. intros [L1 H1] [L2 H2]. split; [congruence|]. intros j a Ha. destruct (H1 j a Ha) as [b [Hb Sb]].
  destruct (H2 j b Hb) as [c [Hc Sc]]. exists c. split; auto. eapply skel_eq_trans; eauto. Qed.
Lemma heap_skel_back h h' j b : heap_skel h h' -> nth_error h' j = Some b -> exists a, nth_error h j = Some a /\ skel_eq a b.
Proof. intros [L H] Hb. destruct (nth_error h j) as [a|] eqn:Ea.
  - destruct (H j a Ea) as [b' [Hb' S]]. exists a. split; auto. congruence.
  - apply nth_error_None in Ea. apply nth_error_Some_lt in Hb. lia. Qed.

Lemma upd_nth_skel n f h : (forall o, skel_eq o (f o)) -> heap_skel h (upd_nth n f h).
Proof. intro Hf. split; [now rewrite length_upd_nth|]. intros j a Ha. rewrite nth_error_upd_nth, Ha.
  destruct (Nat.eqb j n); simpl; eexists; split; eauto. apply skel_eq_refl. Qed.

(* ---------- precompute ---------- *)
Definition frame (s s' : state) : Prop :=
  cur_tl s' = cur_tl s /\ registry s' = registry s /\ next_tree s' = next_tree s
  /\ cur_opt s' = cur_opt s /\ next_opt s' = next_opt s
  /\ heap_skel (heap s) (heap s')
  /\ (forall j a b, nth_error (heap s) j = Some a -> nth_error (heap s') j = Some b -> o_shape a = o_shape b).
Lemma frame_refl s : frame s s.
Proof. unfold frame. split; [reflexivity|]. split; [reflexivity|]. split; [reflexivity|]. split; [reflexivity|]. split; [reflexivity|].
  split; [apply heap_skel_refl|]. intros j a b Ha Hb. congruence. Qed.
Lemma frame_trans a b c : frame a b -> frame b c -> frame a c.
Proof. intros [A1 [A2 [A3 [A4 [A5 [A6 A7]]]]]] [B1 [B2 [B3 [B4 [B5 [B6 B7]]]]]]. unfold frame.
  split; [congruence|]. split; [congruence|]. split; [congruence|]. split; [congruence|]. split; [congruence|].
  split; [eapply heap_skel_trans; eauto|]. intros j x z Hx Hz. destruct A6 as [_ A6]. destruct (A6 _ _ Hx) as [y [Hy _]].
  rewrite (A7 _ _ _ Hx Hy). eauto. Qed.

Lemma precompute_frame s id :
  frame s (precompute s id) /\ (forall j, j <> id -> nth_error (heap (precompute s id)) j = nth_error (heap s) j).
Proof. unfold precompute. destruct (nth_error (heap s) id) as [o|] eqn:E; [|split; [apply frame_refl|auto]].
  destruct (guarded_off o); [split; [apply frame_refl|auto]|].
  split.
  - unfold frame; simpl. split; [reflexivity|]. split; [reflexivity|]. split; [reflexivity|]. split; [reflexivity|]. split; [reflexivity|].
    split.
    + apply upd_nth_skel. intro x. repeat split.
    + intros j a b Ha. rewrite nth_error_upd_nth, Ha. destruct (Nat.eqb j id); simpl; intro H; inversion H; auto.
  - intros j Hj. simpl. rewrite nth_error_upd_nth. apply Nat.eqb_neq in Hj. now rewrite Hj. Qed.

Lemma attr_current_set c tl sh o keys a :
  o_cls o = c -> o_shape o = sh -> mem a keys = true ->
  attr_current tl (with_attrs o (set_attrs keys (mkval c tl sh true) (o_attrs o))) a = true.
Proof. intros Hc Hs Hm. unfold attr_current. simpl. rewrite lookup_set_attrs, Hm. apply aval_eqb_eq. now subst. Qed.

Lemma precompute_current s id o :
  nth_error (heap s) id = Some o -> is_nil (cf_hazards (o_cls o)) = true ->
  (forall d, In d (o_deps o) -> dep_ok s d = true) ->
  exists o', nth_error (heap (precompute s id)) id = Some o' /\ currentb (cur_tl s) o' = true.
Proof. intros Ho Hh Hd. unfold precompute. rewrite Ho. destruct (guarded_off o) eqn:G.
  - exists o. split; auto. unfold currentb. now rewrite G.
  - simpl. rewrite nth_error_upd_nth, Nat.eqb_refl, Ho. simpl. eexists; split; [reflexivity|].
    assert (Hc : forallb (dep_ok s) (o_deps o) = true) by (apply forallb_forall; auto).
    rewrite Hc, Hh. simpl. unfold currentb. apply orb_true_iff. right. apply forallb_forall. intros a Ha.
    apply attr_current_set; auto. now apply mem_In. Qed.

Lemma currentb_ext tl a b : o_cls a = o_cls b -> o_active a = o_active b -> o_shape a = o_shape b -> o_attrs a = o_attrs b ->
  currentb tl a = currentb tl b.
Proof. intros H1 H2 H3 H4. unfold currentb, guarded_off, attr_current. rewrite H1, H2, H3, H4. reflexivity. Qed.

(* ---------- the structural invariant ---------- *)
Record SInv (F : list cfacts) (s : state) : Prop := {
  si_sorted : StronglySorted lt (registry s);
  si_reg_lt : forall id, In id (registry s) -> id < length (heap s);
  si_live_reg : forall id o, nth_error (heap s) id = Some o -> o_live o = true -> In id (registry s);
  si_deps : forall id o, nth_error (heap s) id = Some o -> forall d, In d (o_deps o) ->
              d < id /\ exists m, nth_error (heap s) d = Some m /\ o_tree m = o_tree o;
  si_tree_live : forall i j a b, nth_error (heap s) i = Some a -> nth_error (heap s) j = Some b -> o_tree a = o_tree b -> o_live a = o_live b;
  si_stamp : forall id o, nth_error (heap s) id = Some o -> o_tree o < next_tree s;
  si_cls : forall id o, nth_error (heap s) id = Some o -> In (o_cls o) F
}.

Definition all_current (s : state) : Prop :=
  forall id o, nth_error (heap s) id = Some o -> o_live o = true -> currentb (cur_tl s) o = true.

Record Inv (F : list cfacts) (s : state) : Prop := { inv_s : SInv F s; inv_cur : all_current s }.

Lemma sinv_skel F s s' : SInv F s -> heap_skel (heap s) (heap s') -> registry s' = registry s -> next_tree s' = next_tree s -> SInv F s'.
Proof. intros [A B C D E G H] HS HR HN. destruct HS as [HL HS'].
  assert (HB : forall j b, nth_error (heap s') j = Some b -> exists a, nth_error (heap s) j = Some a /\ skel_eq a b)
    by (intros; eapply heap_skel_back; eauto; split; auto).
  constructor; rewrite ?HR, ?HN; auto.
  - intros id Hid. rewrite <- HL. auto.
  - intros id o Ho Hl. destruct (HB _ _ Ho) as [a [Ha [_ [_ [L _]]]]]. eapply C; eauto; congruence.
  - intros id o Ho d Hd. destruct (HB _ _ Ho) as [a [Ha [_ [T' [_ [_ Dp]]]]]]. rewrite <- Dp in Hd.
    destruct (D _ _ Ha _ Hd) as [Hlt [m [Hm Tm]]]. split; auto. destruct (HS' _ _ Hm) as [m' [Hm' [_ [Tm' _]]]].
    exists m'. split; auto. congruence.
  - intros i j a b Ha Hb Ht. destruct (HB _ _ Ha) as [a0 [Ha0 [_ [Ta [La _]]]]]. destruct (HB _ _ Hb) as [b0 [Hb0 [_ [Tb [Lb _]]]]].
    rewrite <- La, <- Lb. eapply E; eauto. congruence.
  - intros id o Ho. destruct (HB _ _ Ho) as [a [Ha [_ [Ta _]]]]. rewrite <- Ta. eauto.
  - intros id o Ho. destruct (HB _ _ Ho) as [a [Ha [Ca _]]]. rewrite <- Ca. eauto. Qed.

(* ---------- a registry round ---------- *)
Lemma is_live_skel s s' id : heap_skel (heap s) (heap s') -> is_live s' id = is_live s id.
Proof. intros HS. unfold is_live. destruct (nth_error (heap s) id) as [a|] eqn:Ea.
  - destruct HS as [_ H]. destruct (H _ _ Ea) as [b [Hb [_ [_ [L _]]]]]. now rewrite Hb.
  - destruct (nth_error (heap s') id) as [b|] eqn:Eb; auto. destruct (heap_skel_back _ _ _ _ HS Eb) as [a [Ha _]]. congruence. Qed.

Lemma round_frame s reg : frame s (round_state s reg).
Proof. revert s. induction reg as [|id r IH]; intro s; [apply frame_refl|].
  unfold round_state in *. simpl. destruct (is_live s id); [|apply IH].
  eapply frame_trans; [apply precompute_frame|apply IH]. Qed.

Lemma sorted_split_lt done id todo d :
  StronglySorted lt (done ++ id :: todo) -> In d (done ++ id :: todo) -> d < id -> In d done.
Proof. intros HS Hin Hlt. apply in_app_or in Hin. destruct Hin as [H|H]; auto.
  exfalso. induction done as [|x r IH]; simpl in *.
  - inversion HS; subst. destruct H as [H|H]; [lia|]. rewrite Forall_forall in H3. specialize (H3 _ H). lia.
  - inversion HS; subst. auto. Qed.
Lemma sorted_notin_done done id todo : StronglySorted lt (done ++ id :: todo) -> ~ In id done.
Proof. induction done as [|x r IH]; simpl; intros HS; [tauto|]. inversion HS; subst. intros [H|H].
  - subst. rewrite Forall_forall in H2. specialize (H2 id). assert (id < id) by (apply H2; apply in_or_app; right; left; auto). lia.
  - now apply IH. Qed.

Lemma round_aux : forall todo done s,
  StronglySorted lt (done ++ todo) ->
  (forall id o, nth_error (heap s) id = Some o -> o_live o = true -> forall d, In d (o_deps o) ->
      d < id /\ In d (done ++ todo) /\ is_live s d = true) ->
  (forall id o, nth_error (heap s) id = Some o -> is_nil (cf_hazards (o_cls o)) = true) ->
  (forall id o, In id done -> nth_error (heap s) id = Some o -> o_live o = true -> currentb (cur_tl s) o = true) ->
  forall id o, In id (done ++ todo) -> nth_error (heap (round_state s todo)) id = Some o -> o_live o = true ->
    currentb (cur_tl s) o = true.
Proof. induction todo as [|k todo IH]; intros done s HS Hdeps Hhaz Hdone id o Hin Ho Hl.
  - simpl in Ho. rewrite app_nil_r in Hin. eauto.
  - unfold round_state in Ho. simpl in Ho. fold (round_state (if is_live s k then precompute s k else s) todo) in Ho.
    set (s1 := if is_live s k then precompute s k else s) in *.
    assert (Hfr : cur_tl s1 = cur_tl s /\ heap_skel (heap s) (heap s1) /\ (forall j, j <> k -> nth_error (heap s1) j = nth_error (heap s) j)).
    { unfold s1. destruct (is_live s k).
      - destruct (precompute_frame s k) as [[P1 [_ [_ [_ [_ [P6 _]]]]]] P7]. auto.
      - split; [reflexivity|]. split; [apply heap_skel_refl|auto]. }
    destruct Hfr as [Ht [Hsk Hoth]].
    assert (HS' : StronglySorted lt ((done ++ [k]) ++ todo)) by (now rewrite <- app_assoc).
    rewrite <- Ht. apply (IH (done ++ [k]) s1 HS') with (id := id); auto.
    + intros j a Ha La d Hd. destruct (heap_skel_back _ _ _ _ Hsk Ha) as [a0 [Ha0 [_ [_ [L0 [_ D0]]]]]].
      rewrite <- D0 in Hd. rewrite <- L0 in La. destruct (Hdeps _ _ Ha0 La _ Hd) as [H1 [H2 H3]]. split; auto. split.
      * rewrite <- app_assoc. auto.
      * now rewrite (is_live_skel _ _ _ Hsk).
    + intros j a Ha. destruct (heap_skel_back _ _ _ _ Hsk Ha) as [a0 [Ha0 [C0 _]]]. rewrite <- C0. eauto.
    + intros j a Hj Ha La. rewrite Ht. apply in_app_or in Hj. destruct Hj as [Hj|[Hj|[]]].
      * assert (j <> k) by (intro; subst; eapply sorted_notin_done; eauto). rewrite (Hoth _ H) in Ha. eauto.
      * subst j. unfold s1 in Ha. destruct (is_live s k) eqn:Lk.
        2:{ unfold is_live in Lk. rewrite Ha in Lk. congruence. }
        unfold is_live in Lk. destruct (nth_error (heap s) k) as [ok|] eqn:Ek; [|discriminate].
        destruct (precompute_current s k ok Ek (Hhaz _ _ Ek)) as [o' [Ho' Hc']].
        { intros d Hd. destruct (Hdeps _ _ Ek Lk _ Hd) as [H1 [H2 H3]].
          assert (Hdd : In d done) by (eapply sorted_split_lt; eauto).
          unfold dep_ok. unfold is_live in H3. destruct (nth_error (heap s) d) as [m|] eqn:Em; [|discriminate].
          rewrite H3. simpl. eauto. }
        congruence.
    + rewrite <- app_assoc. auto. Qed.

(* ---------- consequences of facts_ok for one class ---------- *)
Lemma class_ok_parts F I c : class_ok F I c = true ->
  (forall a, In a (read_cached c) -> In a (cf_refreshed c)) /\ cf_subscribes c = true /\ cf_members_before c = true
  /\ is_nil (cf_hazards c) = true /\ is_nil (cf_unguarded_eval c) = true /\ (forall a, In a (cf_shape_attrs c) -> In a (cf_shape_refreshed c)).
Proof. unfold class_ok. rewrite !andb_true_iff. intros [[[[[[[[_ H1] H2] H3] _] _] H4] H5] H6]. repeat split; auto.
  - apply inclb_incl. exact H1.
  - apply inclb_incl. exact H6. Qed.

(* ---------- creation ---------- *)
Fixpoint wf_tree (t : tree) : bool := match t with T _ _ _ sub _ kids => sub && forallb wf_tree kids end.
Definition wf_op (o : op) : bool := match o with Create t => wf_tree t | _ => true end.
Definition wf_hist (h : list op) : bool := forallb wf_op h.

Section tree_ind.
  Variable P : tree -> Prop.
  Hypothesis HT : forall c m a sb sh ks, Forall P ks -> P (T c m a sb sh ks).
  Fixpoint tree_ind' (t : tree) : P t :=
    match t with T c m a sb sh ks =>
      HT c m a sb sh ks ((fix go (l : list tree) : Forall P l := match l with [] => Forall_nil P | x :: r => Forall_cons x (tree_ind' x) (go r) end) ks)
    end.
End tree_ind.

(* what one creation step guarantees *)
Definition ext_heap (s s' : state) : Prop :=
  length (heap s) <= length (heap s') /\ (forall j, j < length (heap s) -> nth_error (heap s') j = nth_error (heap s) j).
Record create_post (F : list cfacts) (stamp : nat) (s s' : state) (ids : list (nat * string)) : Prop := {
  cp_inv : Inv F s';
  cp_tl : cur_tl s' = cur_tl s;
  cp_opt : cur_opt s' = cur_opt s /\ next_opt s' = next_opt s;
  cp_tree : next_tree s' = next_tree s;
  cp_ext : ext_heap s s';
  cp_new : forall j o, length (heap s) <= j -> nth_error (heap s') j = Some o -> o_tree o = stamp /\ o_live o = true;
  cp_ids : forall p, In p ids -> length (heap s) <= fst p < length (heap s')
}.

Lemma ext_heap_refl s : ext_heap s s.
Proof. split; auto. Qed.
Lemma ext_heap_trans a b c : ext_heap a b -> ext_heap b c -> ext_heap a c.
Proof. intros [L1 H1] [L2 H2]. split; [lia|]. intros j Hj. rewrite H2 by lia. auto. Qed.

Definition stamp_live (stamp : nat) (s : state) : Prop :=
  forall j o, nth_error (heap s) j = Some o -> o_tree o = stamp -> o_live o = true.

Lemma create_kids_post F I stamp ks :
  Forall (fun t => forall s, Inv F s -> stamp < next_tree s -> stamp_live stamp s -> wf_tree t = true ->
            let '(s', _, ids) := create F stamp t s in create_post F stamp s s' ids) ks ->
  facts_ok F I = true ->
  forall s acc_l acc_ids s0, Inv F s -> stamp < next_tree s -> stamp_live stamp s -> forallb wf_tree ks = true ->
    ext_heap s0 s -> cur_tl s = cur_tl s0 -> cur_opt s = cur_opt s0 /\ next_opt s = next_opt s0 -> next_tree s = next_tree s0 ->
    (forall j o, length (heap s0) <= j -> nth_error (heap s) j = Some o -> o_tree o = stamp /\ o_live o = true) ->
    (forall p, In p acc_ids -> length (heap s0) <= fst p < length (heap s)) ->
    let '(s', _, ids) := fold_left (fun (acc : cres) k => let '(s, l, ids) := acc in let '(s', l', r) := create F stamp k s in (s', l ++ l', ids ++ r)) ks (s, acc_l, acc_ids) in
    create_post F stamp s0 s' ids.
Proof. intros HF HOK. induction HF as [|k ks Hk HF IH]; intros s acc_l acc_ids s0 HI Hst Hsl Hwf Hext Htl Hopt Htr Hnew Hids; simpl.
  - constructor; auto.
  - simpl in Hwf. apply andb_true_iff in Hwf. destruct Hwf as [Hw1 Hw2].
    specialize (Hk s HI Hst Hsl Hw1). destruct (create F stamp k s) as [[s1 l1] r1].
    destruct Hk as [K1 K2 K3 K4 K5 K6 K7].
    apply IH; auto; try congruence.
    + intros j o Hj Ht. destruct (Nat.lt_ge_cases j (length (heap s))) as [Hlt|Hge].
      * destruct K5 as [_ K5]. rewrite K5 in Hj by auto. eauto.
      * destruct (K6 _ _ Hge Hj). auto.
    + eapply ext_heap_trans; eauto.
    + destruct K3, Hopt. split; congruence.
    + intros j o Hj Ho. destruct (Nat.lt_ge_cases j (length (heap s))) as [Hlt|Hge].
      * destruct K5 as [_ K5]. rewrite K5 in Ho by auto. eauto.
      * eauto.
    + intros p Hp. apply in_app_or in Hp. destruct K5 as [K5 _]. destruct Hext as [He _]. destruct Hp as [Hp|Hp].
      * specialize (Hids _ Hp). lia.
      * specialize (K7 _ Hp). lia. Qed.

Lemma StronglySorted_snoc l k : StronglySorted lt l -> (forall x, In x l -> x < k) -> StronglySorted lt (l ++ [k]).
Proof. induction l as [|a r IH]; simpl; intros HS Hk.
  - constructor; constructor.
  - inversion HS; subst. constructor; [apply IH; auto|]. apply Forall_forall. intros x Hx. apply in_app_or in Hx.
    destruct Hx as [Hx|[Hx|[]]]; [rewrite Forall_forall in H2; auto|subst; auto]. Qed.

Lemma add_obj_inv F I c stamp act sh deps s1 :
  facts_ok F I = true -> Inv F s1 -> In c F -> stamp < next_tree s1 -> stamp_live stamp s1 ->
  (forall d, In d deps -> d < length (heap s1) /\ exists m, nth_error (heap s1) d = Some m /\ o_tree m = stamp) ->
  let id := length (heap s1) in
  let s4 := subscribe (precompute (alloc s1 (new_obj c stamp act sh deps)) id) id in
  Inv F s4 /\ ext_heap s1 s4 /\ length (heap s4) = S id /\ cur_tl s4 = cur_tl s1 /\ cur_opt s4 = cur_opt s1 /\ next_opt s4 = next_opt s1
  /\ next_tree s4 = next_tree s1 /\ registry s4 = registry s1 ++ [id]
  /\ (forall o', nth_error (heap s4) id = Some o' -> o_tree o' = stamp /\ o_live o' = true).
Proof. intros HOK [HS HC] Hc Hst Hsl Hdeps id s4.
  pose proof (facts_ok_class _ _ _ HOK Hc) as Hok. destruct (class_ok_parts _ _ _ Hok) as [_ [_ [_ [Hhaz _]]]].
  set (o := new_obj c stamp act sh deps). set (sa := alloc s1 o).
  destruct (precompute_frame sa id) as [[P1 [P2 [P3 [P4 [P5 [P6 P7]]]]]] P8].
  assert (Hh : heap s4 = heap (precompute sa id)) by reflexivity.
  assert (Hr0 : registry s4 = registry (precompute sa id) ++ [id]) by reflexivity.
  assert (Ht0 : cur_tl s4 = cur_tl (precompute sa id)) by reflexivity.
  assert (Hn0 : next_tree s4 = next_tree (precompute sa id)) by reflexivity.
  assert (Ho0 : cur_opt s4 = cur_opt (precompute sa id)) by reflexivity.
  assert (Hp0 : next_opt s4 = next_opt (precompute sa id)) by reflexivity.
  assert (Hsah : heap sa = heap s1 ++ [o]) by reflexivity.
  assert (Hlen : length (heap s4) = S id).
  { rewrite Hh. destruct P6 as [P6 _]. rewrite <- P6, Hsah, app_length. simpl. unfold id. lia. }
  assert (Hold : forall j, j < id -> nth_error (heap s4) j = nth_error (heap s1) j).
  { intros j Hj. rewrite Hh, P8 by lia. rewrite Hsah, nth_error_app1; auto. }
  assert (Hsa : nth_error (heap sa) id = Some o).
  { rewrite Hsah, nth_error_app2 by (unfold id; lia). unfold id. now rewrite Nat.sub_diag. }
  assert (Hnew : exists o', nth_error (heap s4) id = Some o' /\ skel_eq o o' /\ currentb (cur_tl s1) o' = true).
  { destruct (precompute_current sa id o Hsa Hhaz) as [o' [Ho' Hc']].
    - intros d Hd. destruct (Hdeps d Hd) as [Hlt [m [Hm Tm]]]. unfold dep_ok. rewrite Hsah.
      rewrite nth_error_app1 by auto. rewrite Hm. rewrite (Hsl _ _ Hm Tm). simpl. apply HC with (id := d); auto. eapply Hsl; eauto.
    - exists o'. split; [rewrite Hh; exact Ho'|]. split; auto. destruct P6 as [_ P6]. destruct (P6 _ _ Hsa) as [b [Hb Sb]]. congruence. }
  destruct Hnew as [o' [Ho' [So' Co']]].
  assert (Hcase : forall j x, nth_error (heap s4) j = Some x -> (j < id /\ nth_error (heap s1) j = Some x) \/ (j = id /\ x = o')).
  { intros j x Hx. assert (j < S id) by (rewrite <- Hlen; eapply nth_error_Some_lt; eauto).
    destruct (Nat.eq_dec j id) as [->|Hne]; [right; split; congruence|left]. split; [lia|]. rewrite <- Hold by lia. auto. }
  destruct So' as [S1 [S2 [S3 [S4 S5]]]]. simpl in S1, S2, S3, S4, S5.
  destruct HS as [A B C D E G H].
  assert (Hreg : registry s4 = registry s1 ++ [id]) by (rewrite Hr0, P2; reflexivity).
  assert (Htl : cur_tl s4 = cur_tl s1) by (rewrite Ht0, P1; reflexivity).
  assert (Hnt : next_tree s4 = next_tree s1) by (rewrite Hn0, P3; reflexivity).
  split; [|split; [|split; [exact Hlen|split; [exact Htl|split; [rewrite Ho0, P4; reflexivity|split;
     [rewrite Hp0, P5; reflexivity|split; [exact Hnt|split; [exact Hreg|]]]]]]]].
  - constructor; [constructor|].
    + rewrite Hreg. apply StronglySorted_snoc; auto.
    + rewrite Hreg, Hlen. intros j Hj. apply in_app_or in Hj. destruct Hj as [Hj|[Hj|[]]]; [specialize (B _ Hj); fold id in B; lia|lia].
    + rewrite Hreg. intros j x Hx Hl. apply in_or_app. destruct (Hcase _ _ Hx) as [[Hj Hx1]|[Hj _]]; [left; eauto|right; left; auto].
    + intros j x Hx d Hd. destruct (Hcase _ _ Hx) as [[Hj Hx1]|[Hj Hxo]].
      * destruct (D _ _ Hx1 _ Hd) as [Hlt [m [Hm Tm]]]. split; auto. exists m. split; auto. rewrite Hold by lia. auto.
      * subst x j. rewrite <- S5 in Hd. destruct (Hdeps _ Hd) as [Hlt [m [Hm Tm]]]. split; [exact Hlt|].
        exists m. split; [rewrite Hold by exact Hlt; auto|]. congruence.
    + intros i j a b Ha Hb Ht. destruct (Hcase _ _ Ha) as [[Hi Ha1]|[Hi Hao]]; destruct (Hcase _ _ Hb) as [[Hj Hb1]|[Hj Hbo]].
      * eapply E; eauto.
      * subst b. rewrite <- S3. rewrite <- S2 in Ht. simpl. eapply Hsl; eauto.
      * subst a. rewrite <- S3. rewrite <- S2 in Ht. simpl. symmetry. eapply Hsl; eauto.
      * congruence.
    + rewrite Hnt. intros j x Hx. destruct (Hcase _ _ Hx) as [[Hj Hx1]|[Hj Hxo]]; [eauto|]. subst x. rewrite <- S2. simpl. auto.
    + intros j x Hx. destruct (Hcase _ _ Hx) as [[Hj Hx1]|[Hj Hxo]]; [eauto|]. subst x. rewrite <- S1. simpl. auto.
    + intros j x Hx Hl. rewrite Htl. destruct (Hcase _ _ Hx) as [[Hj Hx1]|[Hj Hxo]]; [apply HC with (id := j); auto|]. subst x. auto.
  - split; [rewrite Hlen; fold id; lia|]. intros j Hj. apply Hold. exact Hj.
  - intros x Hx. rewrite Ho' in Hx. inversion Hx; subst x. split; [rewrite <- S2|rewrite <- S3]; reflexivity. Qed.

Lemma wf_tree_inv c m a sb sh ks : wf_tree (T c m a sb sh ks) = true -> sb = true /\ forallb wf_tree ks = true.
Proof. simpl. intro H. apply andb_true_iff in H. exact H. Qed.

Lemma create_tree_post F I : facts_ok F I = true -> forall t stamp s,
  Inv F s -> stamp < next_tree s -> stamp_live stamp s -> wf_tree t = true ->
  let '(s', _, ids) := create F stamp t s in create_post F stamp s s' ids.
Proof. intros HOK t stamp. induction t as [cls mattr act sub sh kids IHk] using tree_ind'. intros s HI Hst Hsl Hwf.
  destruct (wf_tree_inv _ _ _ _ _ _ Hwf) as [Hsub Hwk]. subst sub.
  cbn [create]. destruct (find_class F cls) as [c|] eqn:Ec.
  2:{ constructor; auto using ext_heap_refl.
      - intros j o Hj Ho. apply nth_error_Some_lt in Ho. lia.
      - intros p []. }
  destruct (find_class_In _ _ _ Ec) as [Hc Hn].
  pose proof (facts_ok_class _ _ _ HOK Hc) as Hok. destruct (class_ok_parts _ _ _ Hok) as [_ [Hsubs [Hmb _]]].
  rewrite Hmb. unfold create_kids.
  pose proof (create_kids_post F I stamp kids IHk HOK s [] [] s HI Hst Hsl Hwk (ext_heap_refl s) eq_refl (conj eq_refl eq_refl) eq_refl) as HK.
  revert HK. match goal with |- context [fold_left ?f kids ?a] => generalize (fold_left f kids a) end. intros [[s1 log1] ids] HK.
  assert (HK' : create_post F stamp s s1 ids).
  { apply HK.
    - intros j o Hj Ho. apply nth_error_Some_lt in Ho. lia.
    - intros p []. }
  clear HK. destruct HK' as [K1 K2 K3 K4 K5 K6 K7].
  assert (Hsl1 : stamp_live stamp s1).
  { intros j o Ho Ht. destruct (Nat.lt_ge_cases j (length (heap s))) as [Hlt|Hge].
    - destruct K5 as [_ K5]. rewrite K5 in Ho by auto. eauto.
    - destruct (K6 _ _ Hge Ho). auto. }
  assert (Hdeps : forall d, In d (deps_of c ids) -> d < length (heap s1) /\ exists m, nth_error (heap s1) d = Some m /\ o_tree m = stamp).
  { intros d Hd. unfold deps_of in Hd. apply in_map_iff in Hd. destruct Hd as [p [Hp1 Hp2]]. apply filter_In in Hp2. destruct Hp2 as [Hp2 _].
    specialize (K7 _ Hp2). subst d. split; [lia|]. destruct (nth_error (heap s1) (fst p)) as [m|] eqn:Em.
    - exists m. split; auto. destruct (K6 _ _ (proj1 K7) Em). auto.
    - apply nth_error_None in Em. lia. }
  assert (Hst1 : stamp < next_tree s1) by (rewrite K4; auto).
  pose proof (add_obj_inv F I c stamp act sh (deps_of c ids) s1 HOK K1 Hc Hst1 Hsl1 Hdeps) as A. cbv zeta in A.
  unfold sub_eff. rewrite Hsubs, orb_true_r. cbn [andb]. cbv zeta.
  set (s4 := subscribe (precompute (alloc s1 (new_obj c stamp act sh (deps_of c ids))) (length (heap s1))) (length (heap s1))) in *.
  destruct A as [A1 [A2 [A3 [A4 [A5 [A6 [A7 [A8 A9]]]]]]]].
  constructor; auto; try congruence; try (destruct K3; split; congruence).
  - eapply ext_heap_trans; eauto.
  - intros j o Hj Ho. destruct (Nat.lt_ge_cases j (length (heap s1))) as [Hlt|Hge].
    + destruct A2 as [_ A2]. rewrite A2 in Ho by auto. eauto.
    + assert (j = length (heap s1)) by (apply nth_error_Some_lt in Ho; lia). subst j. auto.
  - intros p [Hp|[]]. subst p. cbn [fst]. rewrite A3. destruct K5 as [K5 _]. lia. Qed.

(* ---------- the operations preserve the invariant ---------- *)
Lemma StronglySorted_filter (f : nat -> bool) l : StronglySorted lt l -> StronglySorted lt (filter f l).
Proof. induction 1 as [|a r HS IH HF]; simpl; [constructor|]. destruct (f a); auto. constructor; auto.
  apply Forall_forall. intros x Hx. apply filter_In in Hx. rewrite Forall_forall in HF. apply HF. tauto. Qed.

Lemma tl_unchanged s b p : tl_changed s b p = false -> (b, p) = cur_tl s.
Proof. unfold tl_changed. intro H. apply orb_false_iff in H. destruct H as [H1 H2]. apply negb_false_iff in H1, H2.
  apply bname_eqb_eq in H1. apply prec_eqb_eq in H2. destruct (cur_tl s). simpl in *. congruence. Qed.
Lemma tl_changed_iff s b p : tl_changed s b p = true <-> (b, p) <> cur_tl s.
Proof. split.
  - intros H E. unfold tl_changed in H. rewrite <- E in H. simpl in H.
    assert (bname_eqb b b = true) by now apply bname_eqb_eq. assert (prec_eqb p p = true) by now apply prec_eqb_eq.
    rewrite H0, H1 in H. discriminate.
  - intro H. destruct (tl_changed s b p) eqn:E; auto. exfalso. apply H. now apply tl_unchanged. Qed.

Lemma hazards_nil F I s : facts_ok F I = true -> SInv F s -> forall id o, nth_error (heap s) id = Some o -> is_nil (cf_hazards (o_cls o)) = true.
Proof. intros HOK HS id o Ho. pose proof (si_cls _ _ HS _ _ Ho) as Hc. pose proof (facts_ok_class _ _ _ HOK Hc) as Hok.
  now destruct (class_ok_parts _ _ _ Hok) as [_ [_ [_ [Hhaz _]]]]. Qed.

Lemma round_inv F I s tl :
  facts_ok F I = true -> SInv F s ->
  let s1 := {| cur_tl := tl; cur_opt := cur_opt s; next_opt := next_opt s; next_tree := next_tree s; heap := heap s; registry := registry s |} in
  forall co no, Inv F (fst (call_round {| cur_tl := tl; cur_opt := co; next_opt := no; next_tree := next_tree s; heap := heap s; registry := registry s |})).
Proof. intros HOK HS s1 co no. set (s0 := {| cur_tl := tl; cur_opt := co; next_opt := no; next_tree := next_tree s; heap := heap s; registry := registry s |}).
  assert (HS0 : SInv F s0) by (apply (sinv_skel F s s0 HS); auto using heap_skel_refl).
  unfold call_round. cbn [fst]. set (s' := round_state s0 (registry s0)).
  destruct (round_frame s0 (registry s0)) as [R1 [R2 [R3 [R4 [R5 [R6 R7]]]]]]. fold s' in R1, R2, R3, R4, R5, R6, R7.
  assert (HS' : SInv F s') by (apply (sinv_skel F s0 s' HS0); auto).
  assert (Hcur : forall id o, nth_error (heap s') id = Some o -> o_live o = true -> currentb (cur_tl s0) o = true).
  { intros id o Ho Hl. apply (round_aux (registry s0) [] s0) with (id := id); auto.
    - exact (si_sorted _ _ HS0).
    - intros j a Ha La d Hd. destruct (si_deps _ _ HS0 _ _ Ha _ Hd) as [Hlt [m [Hm Tm]]]. split; auto.
      assert (Lm : o_live m = true) by (rewrite (si_tree_live _ _ HS0 _ _ _ _ Hm Ha Tm); auto).
      split; [eapply (si_live_reg _ _ HS0); eauto|]. unfold is_live. now rewrite Hm.
    - intros j a Ha. exact (hazards_nil F I s0 HOK HS0 j a Ha).
    - change (In id (registry s0)). rewrite <- R2. eapply (si_live_reg _ _ HS'); eauto. }
  destruct HS' as [A B C D E G H].
  constructor; [constructor|]; cbn [heap registry with_registry next_tree cur_tl]; auto.
  - now apply StronglySorted_filter.
  - intros id Hid. apply filter_In in Hid. apply B. tauto.
  - intros id o Ho Hl. apply filter_In. split; [eauto|]. unfold is_live. now rewrite Ho.
  - intros id o Ho Hl. cbn [heap with_registry cur_tl] in *. rewrite R1. eauto. Qed.

Lemma set_backend_inv F I s b p o : facts_ok F I = true -> Inv F s -> Inv F (fst (set_backend s b p o)).
Proof. intros HOK [HS HC]. unfold set_backend. destruct (new_optimizer s o) as [nopt nxt]. destruct (tl_changed s b p) eqn:Etc.
  - pose proof (round_inv F I s (b, p) HOK HS nopt nxt) as HR. cbv zeta in HR.
    destruct (call_round _) as [s' l]. exact HR.
  - cbn [fst]. apply tl_unchanged in Etc. constructor.
    + eapply sinv_skel; eauto using heap_skel_refl.
    + intros id x Hx Hl. cbn [cur_tl heap] in *. rewrite Etc. eauto. Qed.

Lemma delete_inv F s k : Inv F s -> Inv F (delete s k).
Proof. intros [[A B C D E G H] HC].
  assert (Hn : forall j x, nth_error (heap (delete s k)) j = Some x -> exists y, nth_error (heap s) j = Some y /\ x = kill k y).
  { intros j x. cbn [heap delete]. rewrite nth_error_map. destruct (nth_error (heap s) j) as [y|]; simpl; intro Hx; inversion Hx. eauto. }
  assert (Hk : forall y, o_cls (kill k y) = o_cls y /\ o_tree (kill k y) = o_tree y /\ o_deps (kill k y) = o_deps y /\ o_attrs (kill k y) = o_attrs y
                         /\ o_active (kill k y) = o_active y /\ o_shape (kill k y) = o_shape y
                         /\ o_live (kill k y) = (o_live y && negb (Nat.eqb (o_tree y) k))).
  { intro y. unfold kill. destruct (Nat.eqb (o_tree y) k); simpl; repeat split; auto using andb_false_r. now rewrite andb_true_r. }
  constructor; [constructor|]; cbn [registry next_tree cur_tl delete]; auto.
  - intros id Hid. cbn [heap delete]. rewrite map_length. auto.
  - intros id x Hx Hl. destruct (Hn _ _ Hx) as [y [Hy ->]]. destruct (Hk y) as [_ [_ [_ [_ [_ [_ L]]]]]]. rewrite L in Hl.
    apply andb_true_iff in Hl. eapply C; eauto. tauto.
  - intros id x Hx d Hd. destruct (Hn _ _ Hx) as [y [Hy ->]]. destruct (Hk y) as [_ [Ty [Dy _]]]. rewrite Dy in Hd.
    destruct (D _ _ Hy _ Hd) as [Hlt [m [Hm Tm]]]. split; auto. exists (kill k m). split.
    + cbn [heap delete]. rewrite nth_error_map, Hm. reflexivity.
    + destruct (Hk m) as [_ [Tm' _]]. congruence.
  - intros i j a b Ha Hb Ht. destruct (Hn _ _ Ha) as [a0 [Ha0 ->]]. destruct (Hn _ _ Hb) as [b0 [Hb0 ->]].
    destruct (Hk a0) as [_ [Ta [_ [_ [_ [_ La]]]]]]. destruct (Hk b0) as [_ [Tb [_ [_ [_ [_ Lb]]]]]]. rewrite La, Lb.
    rewrite Ta, Tb in Ht. rewrite Ht. f_equal. eapply E; eauto.
  - intros id x Hx. destruct (Hn _ _ Hx) as [y [Hy ->]]. destruct (Hk y) as [_ [Ty _]]. rewrite Ty. eauto.
  - intros id x Hx. destruct (Hn _ _ Hx) as [y [Hy ->]]. destruct (Hk y) as [Cy _]. rewrite Cy. eauto.
  - intros id x Hx Hl. destruct (Hn _ _ Hx) as [y [Hy ->]]. destruct (Hk y) as [K1 [K2 [K3 [K4 [K5 [K6 K7]]]]]].
    rewrite K7 in Hl. apply andb_true_iff in Hl. rewrite (currentb_ext _ (kill k y) y); auto. eapply HC; eauto. tauto. Qed.

Lemma mkval_noshape c tl sh sh' cl a : mem a (cf_shape_attrs c) = false -> mkval c tl sh cl a = mkval c tl sh' cl a.
Proof. intro H. unfold mkval. now rewrite H. Qed.

Lemma call_interp_inv F I s id sh : facts_ok F I = true -> Inv F s -> Inv F (call_interp s id sh).
Proof. intros HOK [HS HC]. unfold call_interp. destruct (nth_error (heap s) id) as [o|] eqn:Eo; [|split; auto].
  destruct (negb (o_live o) || guarded_off o || Nat.eqb sh (o_shape o)) eqn:Eg; [split; auto|].
  apply orb_false_iff in Eg. destruct Eg as [Eg Esh]. apply orb_false_iff in Eg. destruct Eg as [Elive Egd].
  apply negb_false_iff in Elive. pose proof (HC _ _ Eo Elive) as Hcur. rewrite Hcur.
  set (f := fun o0 : obj => {| o_cls := o_cls o0; o_tree := o_tree o0; o_live := o_live o0; o_active := o_active o0; o_shape := sh; o_deps := o_deps o0;
        o_attrs := set_attrs (cf_shape_refreshed (o_cls o0)) (mkval (o_cls o0) (cur_tl s) sh true) (o_attrs o0) |}).
  constructor.
  - apply (sinv_skel F s (upd_heap s id f) HS); auto. apply upd_nth_skel. intro x. repeat split.
  - intros j x Hx Hl. cbn [heap upd_heap cur_tl] in *. rewrite nth_error_upd_nth in Hx. destruct (Nat.eqb j id) eqn:Ej.
    2:{ eauto. }
    apply Nat.eqb_eq in Ej. subst j. rewrite Eo in Hx. simpl in Hx. inversion Hx; subst x. clear Hx.
    pose proof (si_cls _ _ HS _ _ Eo) as Hc. pose proof (facts_ok_class _ _ _ HOK Hc) as Hok.
    destruct (class_ok_parts _ _ _ Hok) as [_ [_ [_ [_ [_ Hshape]]]]].
    unfold currentb in *. rewrite Egd in Hcur. simpl in Hcur.
    assert (Hg : guarded_off (f o) = false) by (unfold guarded_off in *; simpl; exact Egd). rewrite Hg. simpl.
    apply forallb_forall. intros a Ha. rewrite forallb_forall in Hcur. specialize (Hcur a Ha).
    unfold attr_current in *. cbn [o_attrs o_cls o_shape f]. rewrite lookup_set_attrs.
    destruct (mem a (cf_shape_refreshed (o_cls o))) eqn:Em; [now apply aval_eqb_eq|].
    destruct (lookup a (o_attrs o)) as [v|]; [|discriminate]. apply aval_eqb_eq in Hcur. subst v. apply aval_eqb_eq.
    apply mkval_noshape. destruct (mem a (cf_shape_attrs (o_cls o))) eqn:Es; auto.
    apply mem_In in Es. apply Hshape in Es. apply mem_In in Es. congruence. Qed.

Lemma create_inv F I s t : facts_ok F I = true -> wf_tree t = true -> Inv F s ->
  Inv F (fst (fst (create F (next_tree s) t (bump_tree s)))).
Proof. intros HOK Hwf [HS HC].
  assert (HI : Inv F (bump_tree s)).
  { constructor; [|exact HC]. destruct HS as [A B C D E G H]. constructor; auto. intros id o Ho. cbn [next_tree bump_tree]. specialize (G _ _ Ho). simpl in *. lia. }
  assert (Hsl : stamp_live (next_tree s) (bump_tree s)).
  { intros j o Ho Ht. pose proof (si_stamp _ _ HS _ _ Ho). simpl in *. lia. }
  pose proof (create_tree_post F I HOK t (next_tree s) (bump_tree s) HI (Nat.lt_succ_diag_r _) Hsl Hwf) as HP.
  destruct (create F (next_tree s) t (bump_tree s)) as [[s' l] ids]. exact (cp_inv _ _ _ _ _ HP). Qed.

Lemma step_inv F I s o : facts_ok F I = true -> wf_op o = true -> Inv F s -> Inv F (fst (step F s o)).
Proof. intros HOK Hwf HI. destruct o as [b p oa|t|k|id| |id sh]; cbn [step].
  - now apply (set_backend_inv F I).
  - pose proof (create_inv F I s t HOK Hwf HI) as H. destruct (create F (next_tree s) t (bump_tree s)) as [[s' l] ids]. exact H.
  - now apply delete_inv.
  - exact HI.
  - exact HI.
  - now apply (call_interp_inv F I). Qed.

Lemma init_inv F : Inv F init_state.
Proof. constructor; [constructor|]; simpl; try (intros [|?]; simpl; intros; discriminate).
  - constructor.
  - intros id []. Qed.

Lemma run_from_inv F I : facts_ok F I = true -> forall h s, wf_hist h = true -> Inv F s -> Inv F (run_from F s h).
Proof. intros HOK. induction h as [|o r IH]; intros s Hwf HI; simpl; auto. simpl in Hwf. apply andb_true_iff in Hwf.
  destruct Hwf as [H1 H2]. apply IH; auto. now apply (step_inv F I). Qed.

(* ---------- the boolean the harness prints really is equality of observations ---------- *)
Lemma obsl_eqb_eq l l' : obsl_eqb l l' = true <-> l = l'.
Proof. revert l'. induction l as [|[a x] t IH]; intros [|[b y] t']; simpl; split; intro H; try discriminate; auto.
  - apply andb_true_iff in H. destruct H as [H H3]. apply andb_true_iff in H. destruct H as [H1 H2].
    apply String.eqb_eq in H1. apply IH in H3. subst. f_equal. f_equal.
    destruct x, y; simpl in H2; try discriminate; auto. apply aval_eqb_eq in H2. now subst.
  - inversion H; subst. rewrite String.eqb_refl. simpl. apply andb_true_iff. split; [|now apply IH].
    destruct y; simpl; auto. now apply aval_eqb_eq. Qed.
Lemma obs_eqb_eq a b : obs_eqb a b = true <-> a = b.
Proof. destruct a, b; simpl; split; intro H; try discriminate; auto.
  - apply obsl_eqb_eq in H. now subst.
  - inversion H. now apply obsl_eqb_eq. Qed.

(* ---------- the theorems ---------- *)
(* for EVERY finite history: every live object's cached attributes carry the current tensorlib (and the shape the
   object's shape cache says), and were computed from members that were themselves up to date *)
Theorem switch_invariant F I : facts_ok F I = true -> forall h, wf_hist h = true ->
  forall id o, nth_error (heap (run F h)) id = Some o -> o_live o = true -> currentb (cur_tl (run F h)) o = true.
Proof. intros HOK h Hwf. exact (inv_cur _ _ (run_from_inv F I HOK h init_state Hwf (init_inv F))). Qed.

Lemma current_eval_fresh F I s id o : facts_ok F I = true -> Inv F s -> nth_error (heap s) id = Some o -> o_live o = true ->
  eval s id = fresh_obs (o_cls o) (cur_tl s) (o_active o) (o_shape o).
Proof. intros HOK [HS HC] Ho Hl. unfold eval. rewrite Ho, Hl. unfold eval_obj, fresh_obs. fold (guarded_off o).
  pose proof (HC _ _ Ho Hl) as Hcur. pose proof (si_cls _ _ HS _ _ Ho) as Hc. pose proof (facts_ok_class _ _ _ HOK Hc) as Hok.
  destruct (class_ok_parts _ _ _ Hok) as [Hrd [_ [_ [_ [Hun _]]]]]. rewrite Hun.
  destruct (guarded_off o) eqn:G; simpl; auto. f_equal. apply map_ext_in. intros a Ha. f_equal.
  unfold currentb in Hcur. rewrite G in Hcur. simpl in Hcur. rewrite forallb_forall in Hcur. specialize (Hcur a (Hrd _ Ha)).
  unfold attr_current in Hcur. destruct (lookup a (o_attrs o)) as [v|]; [|discriminate]. apply aval_eqb_eq in Hcur. now subst. Qed.

(* an object created at any earlier point evaluates exactly as a freshly built one does under the current backend *)
Theorem eval_as_fresh F I : facts_ok F I = true -> forall h, wf_hist h = true ->
  forall id o, nth_error (heap (run F h)) id = Some o -> o_live o = true ->
  eval (run F h) id = fresh_obs (o_cls o) (cur_tl (run F h)) (o_active o) (o_shape o).
Proof. intros HOK h Hwf id o Ho Hl. apply (current_eval_fresh F I); auto. exact (run_from_inv F I HOK h init_state Hwf (init_inv F)). Qed.

(* the single boolean an `EvalAll` step reports is true in every reachable state *)
Theorem eval_all_fresh F I : facts_ok F I = true -> forall h, wf_hist h = true ->
  snd (step F (run F h) EvalAll) = [EvAllObs true].
Proof. intros HOK h Hwf. cbn [step snd]. f_equal. f_equal. apply forallb_forall. intros id _.
  destruct (nth_error (heap (run F h)) id) as [o|] eqn:Eo; auto. destruct (o_live o) eqn:El; auto. simpl.
  apply obs_eqb_eq. now apply (eval_as_fresh F I). Qed.

(* ... in particular any two live objects of the same class and data evaluate identically, whenever they were built *)
Corollary eval_same_as_later_built F I : facts_ok F I = true -> forall h, wf_hist h = true ->
  forall i j a b, nth_error (heap (run F h)) i = Some a -> nth_error (heap (run F h)) j = Some b -> o_live a = true -> o_live b = true ->
  o_cls a = o_cls b -> o_active a = o_active b -> o_shape a = o_shape b -> eval (run F h) i = eval (run F h) j.
Proof. intros HOK h Hwf i j a b Ha Hb La Lb Hc Hact Hsh. rewrite (eval_as_fresh F I HOK h Hwf i a Ha La), (eval_as_fresh F I HOK h Hwf j b Hb Lb).
  now rewrite Hc, Hact, Hsh. Qed.

(* ---------- dead objects ---------- *)
(* liveness of existing objects is never switched back on, whatever the fact table says *)
Definition lm (s s' : state) : Prop :=
  length (heap s) <= length (heap s') /\ (forall j, j < length (heap s) -> is_live s' j = is_live s j)
  /\ cur_opt s' = cur_opt s /\ next_opt s' = next_opt s /\ cur_tl s' = cur_tl s.
Lemma lm_refl s : lm s s.
Proof. unfold lm. auto. Qed.
Lemma lm_trans a b c : lm a b -> lm b c -> lm a c.
Proof. intros [A1 [A2 [A3 [A4 A5]]]] [B1 [B2 [B3 [B4 B5]]]]. unfold lm. split; [lia|]. split; [|split; [congruence|split; congruence]].
  intros j Hj. rewrite B2 by lia. auto. Qed.
Lemma lm_frame s s' : frame s s' -> lm s s'.
Proof. intros [F1 [F2 [F3 [F4 [F5 [F6 F7]]]]]]. unfold lm. split; [destruct F6; lia|]. split; [|auto].
  intros j Hj. now apply is_live_skel. Qed.
Lemma lm_alloc s o : lm s (alloc s o).
Proof. unfold lm. cbn [heap alloc cur_opt next_opt cur_tl]. rewrite app_length. split; [lia|]. split; [|auto].
  intros j Hj. unfold is_live. cbn [heap alloc]. now rewrite nth_error_app1. Qed.
Lemma lm_subscribe s id : lm s (subscribe s id).
Proof. unfold lm, is_live. cbn. auto. Qed.
Lemma lm_setdeps s id d : lm s (upd_heap s id (fun o => set_deps o d)).
Proof. unfold lm. cbn [heap upd_heap cur_opt next_opt cur_tl]. rewrite length_upd_nth. split; [lia|]. split; [|auto].
  intros j Hj. unfold is_live. cbn [heap upd_heap]. rewrite nth_error_upd_nth. destruct (Nat.eqb j id); auto.
  destruct (nth_error (heap s) j); reflexivity. Qed.

Definition only_subs (l : list ev) : Prop := forall e, In e l -> exists id cls, e = EvSub id cls.

Lemma create_kids_lm F stamp ks :
  Forall (fun t => forall s, let '(s', l, _) := create F stamp t s in lm s s' /\ only_subs l) ks ->
  forall s0 s acc_l acc_ids, lm s0 s -> only_subs acc_l ->
    let '(s', l, _) := fold_left (fun (acc : cres) k => let '(s, l, ids) := acc in let '(s', l', r) := create F stamp k s in (s', l ++ l', ids ++ r)) ks (s, acc_l, acc_ids) in
    lm s0 s' /\ only_subs l.
Proof. induction 1 as [|k ks Hk HF IH]; intros s0 s acc_l acc_ids Hlm Hos; simpl; [auto|].
  specialize (Hk s). destruct (create F stamp k s) as [[s1 l1] r1]. destruct Hk as [K1 K2]. apply IH.
  - eapply lm_trans; eauto.
  - intros e He. apply in_app_or in He. destruct He; auto. Qed.

Lemma create_lm F stamp t : forall s, let '(s', l, _) := create F stamp t s in lm s s' /\ only_subs l.
Proof. induction t as [cls mattr act sub sh kids IHk] using tree_ind'. intro s. cbn [create].
  destruct (find_class F cls) as [c|]; [|split; [apply lm_refl|intros e []]].
  destruct (cf_members_before c).
  - unfold create_kids. pose proof (create_kids_lm F stamp kids IHk s s [] [] (lm_refl s) (fun e (H : In e []) => match H with end)) as HK.
    revert HK. match goal with |- context [fold_left ?f kids ?a] => generalize (fold_left f kids a) end. intros [[s1 log1] ids] [K1 K2].
    cbv zeta.
    assert (H2 : lm s (precompute (alloc s1 (new_obj c stamp act sh (deps_of c ids))) (length (heap s1)))).
    { eapply lm_trans; [exact K1|]. eapply lm_trans; [apply lm_alloc|]. apply lm_frame. apply precompute_frame. }
    destruct (sub_eff c sub).
    + split; [eapply lm_trans; [exact H2|apply lm_subscribe]|]. intros e He. apply in_app_or in He. destruct He as [He|[He|[]]]; eauto.
    + split; auto.
  - cbv zeta. set (s1 := alloc s (new_obj c stamp act sh [])).
    assert (H1 : lm s s1) by apply lm_alloc.
    destruct (sub_eff c sub).
    + unfold create_kids.
      pose proof (create_kids_lm F stamp kids IHk s (subscribe s1 (length (heap s))) [] [] (lm_trans _ _ _ H1 (lm_subscribe _ _)) (fun e (H : In e []) => match H with end)) as HK.
      revert HK. match goal with |- context [fold_left ?f kids ?a] => generalize (fold_left f kids a) end. intros [[s3 log3] ids] [K1 K2].
      split.
      * eapply lm_trans; [exact K1|]. eapply lm_trans; [apply lm_setdeps|]. apply lm_frame. apply precompute_frame.
      * intros e He. apply in_app_or in He. destruct He as [[He|[]]|He]; eauto.
    + unfold create_kids.
      pose proof (create_kids_lm F stamp kids IHk s s1 [] [] H1 (fun e (H : In e []) => match H with end)) as HK.
      revert HK. match goal with |- context [fold_left ?f kids ?a] => generalize (fold_left f kids a) end. intros [[s3 log3] ids] [K1 K2].
      split.
      * eapply lm_trans; [exact K1|]. eapply lm_trans; [apply lm_setdeps|]. apply lm_frame. apply precompute_frame.
      * intros e He. simpl in He. auto. Qed.

Definition pre_ids (l : list ev) : list nat := flat_map (fun e => match e with EvPre id => [id] | _ => [] end) l.
Fixpoint log_from (F : list cfacts) (s : state) (h : list op) : list ev :=
  match h with [] => [] | o :: r => snd (step F s o) ++ log_from F (fst (step F s o)) r end.

Lemma in_pre_ids id l : In id (pre_ids l) <-> In (EvPre id) l.
Proof. unfold pre_ids. rewrite in_flat_map. split.
  - intros [e [He Hi]]. destruct e; simpl in Hi; try tauto. destruct Hi as [->|[]]. auto.
  - intro H. exists (EvPre id). simpl. auto. Qed.

Lemma step_dead F s o id : id < length (heap s) -> is_live s id = false ->
  ~ In (EvPre id) (snd (step F s o)) /\ id < length (heap (fst (step F s o))) /\ is_live (fst (step F s o)) id = false.
Proof. intros Hlt Hd. destruct o as [b p oa|t|k|j| |j sh]; cbn [step].
  - unfold set_backend. destruct (new_optimizer s oa) as [nopt nxt].
    set (s1 := {| cur_tl := (b, p); cur_opt := nopt; next_opt := nxt; next_tree := next_tree s; heap := heap s; registry := registry s |}).
    assert (Hd1 : is_live s1 id = false) by exact Hd.
    destruct (tl_changed s b p).
    + unfold call_round. cbn [fst snd]. pose proof (round_frame s1 (registry s1)) as Hf. apply lm_frame in Hf. destruct Hf as [L1 [L2 _]].
      split; [|split].
      * intro Hin. apply in_app_or in Hin. destruct Hin as [[Hin|[]]|Hin]; [discriminate|]. apply in_app_or in Hin. destruct Hin as [[Hin|Hin]|Hin].
        -- discriminate.
        -- apply in_map_iff in Hin. destruct Hin as [x [Hx Hin]]. inversion Hx; subst x. apply filter_In in Hin. destruct Hin. congruence.
        -- apply in_app_or in Hin. destruct Hin as [Hin|[Hin|[]]]; [|discriminate]. destruct (opt_changed s oa); [destruct Hin as [Hin|[]]; discriminate|destruct Hin].
      * cbn [heap with_registry]. change (length (heap s)) with (length (heap s1)) in Hlt. lia.
      * unfold is_live. cbn [heap with_registry]. change (is_live (round_state s1 (registry s1)) id = false). rewrite L2; auto.
    + cbn [fst snd]. split; [|split; auto]. intro Hin. simpl in Hin. destruct Hin as [Hin|Hin]; [discriminate|].
      apply in_app_or in Hin. destruct Hin as [Hin|[Hin|[]]]; [|discriminate]. destruct (opt_changed s oa); [destruct Hin as [Hin|[]]; discriminate|destruct Hin].
  - pose proof (create_lm F (next_tree s) t (bump_tree s)) as HC. destruct (create F (next_tree s) t (bump_tree s)) as [[s' l] ids].
    destruct HC as [[L1 [L2 _]] Hos]. cbn [fst snd]. cbn [heap bump_tree] in L1, L2. split; [|split].
    + intro Hin. destruct (Hos _ Hin) as [a [b Hab]]. discriminate.
    + lia.
    + rewrite L2 by auto. exact Hd.
  - cbn [fst snd]. split; [intros []|]. cbn [heap delete]. rewrite map_length. split; auto.
    unfold is_live in *. cbn [heap delete]. rewrite nth_error_map. destruct (nth_error (heap s) id) as [x|]; simpl; auto.
    unfold kill. destruct (Nat.eqb (o_tree x) k); simpl; auto.
  - cbn [fst snd]. split; [|auto]. destruct (nth_error (heap s) j); [intros [H|[]]; discriminate|intros []].
  - cbn [fst snd]. split; [|auto]. intros [H|[]]; discriminate.
  - cbn [fst snd]. assert (Hci : length (heap (call_interp s j sh)) = length (heap s) /\ is_live (call_interp s j sh) id = is_live s id).
    { unfold call_interp. destruct (nth_error (heap s) j) as [x|] eqn:Ex; auto. destruct (negb (o_live x) || guarded_off x || Nat.eqb sh (o_shape x)); auto.
      cbn [heap upd_heap]. rewrite length_upd_nth. split; auto. unfold is_live. cbn [heap upd_heap]. rewrite nth_error_upd_nth.
      destruct (Nat.eqb id j); auto. destruct (nth_error (heap s) id); reflexivity. }
    destruct Hci as [C1 C2]. split; [|split; [lia|congruence]].
    destruct (nth_error (heap (call_interp s j sh)) j); [intros [H|[]]; discriminate|intros []]. Qed.

(* an object that has been collected is never called again, however the history continues *)
Theorem dead_not_called F : forall h s id, id < length (heap s) -> is_live s id = false -> ~ In (EvPre id) (log_from F s h).
Proof. induction h as [|o r IH]; intros s id Hlt Hd; simpl; [tauto|]. destruct (step_dead F s o id Hlt Hd) as [H1 [H2 H3]].
  intro Hin. apply in_app_or in Hin. destruct Hin; [tauto|]. eapply IH; eauto. Qed.

(* ... and after a round the registry holds no dead reference (so later switches do not meet it again) *)
Theorem registry_flushed s b p o : tl_changed s b p = true -> forall id, In id (registry (fst (set_backend s b p o))) -> is_live (fst (set_backend s b p o)) id = true.
Proof. intros Htc id. unfold set_backend. destruct (new_optimizer s o) as [nopt nxt]. rewrite Htc. unfold call_round. cbn [fst registry with_registry].
  intro Hin. apply filter_In in Hin. destruct Hin as [_ Hl]. unfold is_live in *. exact Hl. Qed.

(* ---------- events fire iff something changed ---------- *)
Theorem event_iff_changed s b p o :
  In (EvTrigger "tensorlib_changed") (snd (set_backend s b p o)) <-> (b, p) <> cur_tl s.
Proof. rewrite <- tl_changed_iff. unfold set_backend. destruct (new_optimizer s o) as [nopt nxt]. destruct (tl_changed s b p).
  - destruct (call_round _) as [s' l]. cbn [snd]. split; auto. intros _. simpl. right. left. reflexivity.
  - cbn [snd]. split; [|discriminate]. intro Hin. simpl in Hin. destruct Hin as [Hin|Hin]; [discriminate|].
    apply in_app_or in Hin. destruct Hin as [Hin|[Hin|[]]]; [|discriminate]. destruct (opt_changed s o); [destruct Hin as [Hin|[]]; discriminate|destruct Hin]. Qed.

Definition tl_triggers (l : list ev) : nat :=
  length (filter (fun e => match e with EvTrigger n => String.eqb n "tensorlib_changed" | _ => false end) l).
Theorem event_at_most_once s b p o : tl_triggers (snd (set_backend s b p o)) = if tl_changed s b p then 1 else 0.
Proof. unfold set_backend. destruct (new_optimizer s o) as [nopt nxt]. destruct (tl_changed s b p).
  - unfold call_round. cbn [snd]. unfold tl_triggers. simpl. rewrite filter_app. rewrite app_length.
    assert (H : forall l, filter (fun e => match e with EvTrigger n => String.eqb n "tensorlib_changed" | _ => false end) (map EvPre l) = []).
    { induction l; simpl; auto. } rewrite H. simpl. destruct (opt_changed s o); reflexivity.
  - cbn [snd]. unfold tl_triggers. destruct (opt_changed s o); reflexivity. Qed.

(* a round calls exactly the live subscribers, in subscription order *)
Theorem round_calls_live_in_order s b p o : tl_changed s b p = true ->
  pre_ids (snd (set_backend s b p o)) = filter (is_live s) (registry s).
Proof. intro Htc. unfold set_backend. destruct (new_optimizer s o) as [nopt nxt]. rewrite Htc. unfold call_round. cbn [snd fst].
  cbn [registry]. unfold pre_ids. simpl. rewrite flat_map_app.
  assert (H : forall l, flat_map (fun e => match e with EvPre id => [id] | _ => [] end) (map EvPre l) = l).
  { induction l; simpl; auto. now f_equal. }
  rewrite H. destruct (opt_changed s o); simpl; rewrite app_nil_r; reflexivity. Qed.

(* the optimizer: compared by object identity *)
Theorem optimizer_event_iff_new_object s b p o :
  In (EvTrigger "optimizer_changed") (snd (set_backend s b p o)) <-> fst (new_optimizer s o) <> cur_opt s.
Proof. assert (Hoc : opt_changed s o = true <-> fst (new_optimizer s o) <> cur_opt s).
  { unfold opt_changed. destruct (cur_opt s) as [n k]. destruct (fst (new_optimizer s o)) as [n' k']. simpl. rewrite negb_true_iff.
    split.
    - intros H E. inversion E; subst. assert (oname_eqb n n = true) by (destruct n; reflexivity). rewrite H0, Nat.eqb_refl in H. discriminate.
    - intro H. destruct (oname_eqb n n' && Nat.eqb k k') eqn:E; auto. exfalso. apply H. apply andb_true_iff in E. destruct E as [E1 E2].
      apply Nat.eqb_eq in E2. destruct n, n'; simpl in E1; try discriminate; subst; reflexivity. }
  rewrite <- Hoc. unfold set_backend. destruct (new_optimizer s o) as [nopt nxt].
  assert (Hpre : forall l, ~ In (EvTrigger "optimizer_changed") (map EvPre l)).
  { intros l Hin. apply in_map_iff in Hin. destruct Hin as [x [Hx _]]. discriminate. }
  destruct (tl_changed s b p); [destruct (call_round _) as [s' l] eqn:Ecr; unfold call_round in Ecr; inversion Ecr; subst|]; cbn [snd];
    destruct (opt_changed s o); split; auto; try discriminate; intro Hin; simpl in Hin.
  - right. right. apply in_or_app. right. left. reflexivity.
  - exfalso. destruct Hin as [Hin|[Hin|Hin]]; try discriminate. apply in_app_or in Hin. destruct Hin as [Hin|[Hin|[]]]; [|discriminate]. eapply Hpre; eauto.
  - right. left. reflexivity.
  - destruct Hin as [Hin|[Hin|[]]]; discriminate. Qed.

Lemma step_opt_fresh F s o : snd (cur_opt s) < next_opt s -> snd (cur_opt (fst (step F s o))) < next_opt (fst (step F s o)).
Proof. intro H. destruct o as [b p oa|t|k|j| |j sh]; cbn [step].
  - unfold set_backend. destruct oa as [n|]; cbn [new_optimizer].
    + destruct (tl_changed s b p); [unfold call_round|]; cbn [fst cur_opt next_opt with_registry];
        [match goal with |- context [round_state ?a ?b] => destruct (round_frame a b) as [_ [_ [_ [R4 [R5 _]]]]]; rewrite R4, R5 end|]; simpl; lia.
    + destruct (tl_changed s b p); [unfold call_round|]; cbn [fst cur_opt next_opt with_registry];
        [match goal with |- context [round_state ?a ?b] => destruct (round_frame a b) as [_ [_ [_ [R4 [R5 _]]]]]; rewrite R4, R5 end|]; simpl; auto.
  - pose proof (create_lm F (next_tree s) t (bump_tree s)) as HC. destruct (create F (next_tree s) t (bump_tree s)) as [[s' l] ids].
    destruct HC as [[_ [_ [L3 [L4 _]]]] _]. cbn [fst]. rewrite L3, L4. exact H.
  - exact H.
  - exact H.
  - exact H.
  - cbn [fst]. unfold call_interp. destruct (nth_error (heap s) j) as [x|]; auto. destruct (negb (o_live x) || guarded_off x || Nat.eqb sh (o_shape x)); auto. Qed.
Lemma run_opt_fresh F h : snd (cur_opt (run F h)) < next_opt (run F h).
Proof. unfold run. assert (H : snd (cur_opt init_state) < next_opt init_state) by (simpl; lia). revert H. generalize init_state.
  induction h as [|o r IH]; intros s H; simpl; auto. apply IH. now apply step_opt_fresh. Qed.

(* given by name (or left to the default) the optimizer is a new object every time: the event always fires ... *)
Theorem optimizer_event_by_name_always F h b p n :
  In (EvTrigger "optimizer_changed") (snd (set_backend (run F h) b p (OByName n))).
Proof. apply optimizer_event_iff_new_object. cbn [new_optimizer fst]. pose proof (run_opt_fresh F h) as H. intro E.
  rewrite <- E in H. simpl in H. lia. Qed.
(* ... and never when the current optimizer object itself is handed back *)
Theorem optimizer_event_current_never s b p : ~ In (EvTrigger "optimizer_changed") (snd (set_backend s b p OCurrent)).
Proof. rewrite optimizer_event_iff_new_object. cbn [new_optimizer fst]. tauto. Qed.
(* so "optimizer_changed fires iff the optimizer's NAME changed" is false of the code (nothing in pyhf subscribes to it) *)
Theorem optimizer_event_iff_name_changed_refuted :
  exists s b p n, n = fst (cur_opt s) /\ In (EvTrigger "optimizer_changed") (snd (set_backend s b p (OByName n))).
Proof. exists init_state, Numpy, B64, Scipy. split; [reflexivity|]. simpl. right. left. reflexivity. Qed.

(* ---------- non-vacuity and sensitivity, on a small table of the same shape as the extracted one ---------- *)
Definition demo_tv : cfacts :=
  {| cf_name := "viewer"; cf_has_pre := true; cf_cached := ["idx"]; cf_refreshed := ["idx"]; cf_read := ["idx"];
     cf_subscribes := true; cf_conditional := false; cf_members := []; cf_members_before := true; cf_pre_members := [];
     cf_hazards := []; cf_pre_guarded := false; cf_unguarded_eval := []; cf_shape_attrs := []; cf_shape_refreshed := [] |}.
Definition demo_interp : cfacts :=
  {| cf_name := "interp"; cf_has_pre := true; cf_cached := ["deltas"; "mask"]; cf_refreshed := ["deltas"; "mask"]; cf_read := ["deltas"; "mask"; "shape"];
     cf_subscribes := true; cf_conditional := true; cf_members := []; cf_members_before := true; cf_pre_members := [];
     cf_hazards := []; cf_pre_guarded := false; cf_unguarded_eval := []; cf_shape_attrs := ["mask"]; cf_shape_refreshed := ["mask"] |}.
Definition demo_mod (before : bool) : cfacts :=
  {| cf_name := "modifier"; cf_has_pre := true; cf_cached := ["indices"; "mask"]; cf_refreshed := ["indices"; "mask"]; cf_read := ["indices"; "mask"; "pv"];
     cf_subscribes := true; cf_conditional := false; cf_members := [("pv", "viewer"); ("interpolator", INTERP)]; cf_members_before := before;
     cf_pre_members := ["pv"]; cf_hazards := []; cf_pre_guarded := true; cf_unguarded_eval := []; cf_shape_attrs := []; cf_shape_refreshed := [] |}.
Definition demo_F (before : bool) := [demo_tv; demo_interp; demo_mod before].
Definition demo_tree (sub : bool) := T "modifier" "" true true 0 [T "viewer" "pv" true true 0 []; T "interp" "interpolator" true sub 1 []].
Definition demo_hist (sub : bool) :=
  [Create (demo_tree sub); SetBackend Pytorch B32 (OByName Minuit); CallInterp 1 7; Create (demo_tree sub);
   SetBackend Jax B64 OCurrent; Delete 0; SetBackend Numpy B64 (OByName Scipy)].

Example demo_facts_ok : facts_ok (demo_F true) ["interp"] = true.
Proof. reflexivity. Qed.
Example demo_wf : wf_hist (demo_hist true) = true.
Proof. reflexivity. Qed.
(* the premises of switch_invariant are satisfiable and the conclusion talks about live objects that went through switches *)
Example demo_live_objects : map (is_live (run (demo_F true) (demo_hist true))) [0; 1; 2; 3; 4; 5] = [false; false; false; true; true; true]
  /\ registry (run (demo_F true) (demo_hist true)) = [3; 4; 5].
Proof. split; reflexivity. Qed.
(* sensitivity 1: if the class subscribed before building the member it reads, the member is refreshed after its owner *)
Example stale_if_subscribed_before_member : exists h id o, wf_hist h = true /\ nth_error (heap (run (demo_F false) h)) id = Some o
  /\ o_live o = true /\ eval (run (demo_F false) h) id <> fresh_obs (o_cls o) (cur_tl (run (demo_F false) h)) (o_active o) (o_shape o).
Proof. exists [Create (demo_tree true); SetBackend Jax B64 OCurrent], 0.
  eexists. split; [reflexivity|]. split; [reflexivity|]. split; [reflexivity|]. vm_compute. discriminate. Qed.
(* sensitivity 2: an interpolator built with subscribe=False is stale after the first switch (why wf_hist is a premise) *)
Example stale_if_not_subscribed : exists h id o, nth_error (heap (run (demo_F true) h)) id = Some o
  /\ o_live o = true /\ eval (run (demo_F true) h) id <> fresh_obs (o_cls o) (cur_tl (run (demo_F true) h)) (o_active o) (o_shape o).
Proof. exists [Create (demo_tree false); SetBackend Jax B64 OCurrent], 1.
  eexists. split; [reflexivity|]. split; [reflexivity|]. vm_compute. discriminate. Qed.
