(* C02, non-vacuity: a concrete two-channel specification (shared staterror over channels of different bin counts,
   normsys+histosys sharing one alpha parameter, a configured lumi, a shapesys) meets every hypothesis of the term-list
   refinement theorem; and the one excluded corner of the auxdata-length statement is really excluded. *)
From Coq Require Import Bool Arith Lia Permutation String QArith Qcanon List.
Require Import PV.Num PV.Sort PV.Spec PV.Impl PV.Ref PV.Wf PV.Config PV.RefineRates PV.RefineTop
               PV.RefineTerms PV.RefineTermsBlocks PV.RefineTermsTop PV.RefineTermsFinal.
Import ListNotations.
Local Open Scope string_scope.
Local Open Scope list_scope.

Notation Mq := (Build_modifier (N:=QcNum)).
Notation Sq := (Build_sample (N:=QcNum)).
Notation Cq := (Build_channel (N:=QcNum)).
Definition qz (z : Z) : Qc := mkq z 1.
Definition ex_spec : spec QcNum :=
  Build_spec (N:=QcNum)
    [ Cq "A" [ Sq "sig" [qz 10; qz 12] [ Mq "mu" Normfactor (@MDNone QcNum); Mq "lumi" Lumi (@MDNone QcNum);
                                        Mq "alpha" Normsys (@MDNorm QcNum (mkq 9 10) (mkq 11 10)); Mq "st" Staterror (@MDList QcNum [qz 1; qz 2]) ];
               Sq "bkg" [qz 50; qz 60] [ Mq "alpha" Histosys (@MDHisto QcNum [qz 45; qz 55] [qz 55; qz 65]);
                                        Mq "st" Staterror (@MDList QcNum [qz 3; qz 4]); Mq "shp" Shapesys (@MDList QcNum [qz 5; qz 6]) ] ];
      Cq "B" [ Sq "sig" [qz 5] [ Mq "st" Staterror (@MDList QcNum [qz 1]) ];
               Sq "bkg" [qz 30] [ Mq "st" Staterror (@MDList QcNum [qz 2]) ] ] ]
    [ Build_parcfg (N:=QcNum) "lumi" (Some [qz 1]) (Some [(qz 0, qz 10)]) (Some [qz 1]) None (Some [mkq 1 10]) None ]
    (Some "mu").
Definition ex_st : settings QcNum := Build_settings QcNum "code4" "code4p" None None.
Definition ex_ia : string -> Qc -> Qc -> Qc -> Qc -> Qc := fun _ lo nom hi a => (a * (hi - lo))%Qc.
Definition ex_im : string -> Qc -> Qc -> Qc -> Qc -> Qc := fun _ lo nom hi a => (nom + a * (hi - lo))%Qc.
Definition ex_pars : list Qc := [mkq 1 2; mkq 11 10; qz 2; mkq 9 10; mkq 6 5; mkq 21 20; mkq 19 20; qz 1].
Definition ex_data : list Qc := [qz 11; qz 13; qz 7; mkq 1 4; mkq 5 4; qz 90; qz 110; mkq 3 2; mkq 1 2; mkq 3 4].

Ltac all_listed :=
  let c := fresh "c" in let s := fresh "s" in let m := fresh "m" in
  let Hc := fresh "Hc" in let Hs := fresh "Hs" in let Hm := fresh "Hm" in
  intros c s m Hc Hs Hm; simpl in Hc;
  repeat (destruct Hc as [<-|Hc];
          [simpl in Hs; repeat (destruct Hs as [<-|Hs];
                                [simpl in Hm; repeat (destruct Hm as [<-|Hm]; [simpl; eauto|]); destruct Hm|]); destruct Hs|]);
  destruct Hc.

Example ex_shape_ok : shape_ok QcNum ex_spec.
Proof. unfold shape_ok. all_listed. Qed.
Example ex_list_shape_ok : list_shape_ok QcNum ex_spec.
Proof. unfold list_shape_ok. all_listed. Qed.

(* observations of the built model, computed inside the VM on results that contain no numbers (booleans, lengths) *)
Definition on_build {A} (sp : spec QcNum) (f : model QcNum -> A) (d : A) : A :=
  match build QcNum sp with Ok m => f m | Err _ => d end.
Definition on_terms {A} (m : model QcNum) (f : list (term QcNum) -> A) (d : A) : A :=
  match logpdf_terms QcNum ex_ia ex_im ex_spec ex_st m ex_pars ex_data with Ok l => f l | Err _ => d end.
Lemma on_build_ok {A} sp (f : model QcNum -> A) d v md : on_build sp f d = v -> build QcNum sp = Ok md -> f md = v.
Proof. unfold on_build. intros H E. now rewrite E in H. Qed.

(* every hypothesis of logpdf_terms_refines_layout holds, the term list is not trivial (3 main + 7 constraint terms of all
   four families), and the block comparison evaluates to true *)
Example logpdf_terms_refines_nonvacuous :
  exists md l, build QcNum ex_spec = Ok md /\ list_shape_ok QcNum ex_spec /\ shape_ok QcNum ex_spec /\ clip_guard QcNum ex_st /\
    layout_ok QcNum ex_spec md /\ logpdf_terms QcNum ex_ia ex_im ex_spec ex_st md ex_pars ex_data = Ok l /\
    length l = 10%nat /\ length (md_auxdata QcNum md) = 7%nat /\ cblocks_okb QcNum ex_spec (md_psets QcNum md) = true /\
    Permutation l (ref_terms QcNum ex_ia ex_im (normsys_code QcNum ex_st) (histosys_code QcNum ex_st) (clip_sample QcNum ex_st)
                             (clip_bin QcNum ex_st) ex_spec (theta QcNum md (parf QcNum ex_pars))
                             (obs_by_name QcNum ex_spec ex_data) (aux_of_data QcNum ex_spec md ex_data)).
Proof.
  assert (H0 : on_build ex_spec (fun m => on_terms m (fun l => Nat.eqb (length l) 10) false
                                 && Nat.eqb (length (md_auxdata QcNum m)) 7
                                 && layout_okb QcNum ex_spec m && cblocks_okb QcNum ex_spec (md_psets QcNum m)) false = true)
    by (vm_compute; reflexivity).
  destruct (build QcNum ex_spec) as [md|e] eqn:E; [|unfold on_build in H0; rewrite E in H0; discriminate].
  apply (on_build_ok _ _ _ _ md) in H0; [|exact E].
  apply andb_true_iff in H0. destruct H0 as [H0 H4]. apply andb_true_iff in H0. destruct H0 as [H0 H3].
  apply andb_true_iff in H0. destruct H0 as [H1 H2]. unfold on_terms in H1.
  destruct (logpdf_terms QcNum ex_ia ex_im ex_spec ex_st md ex_pars ex_data) as [l|e] eqn:El; [|discriminate].
  apply Nat.eqb_eq in H1, H2. pose proof (layout_okb_ok QcNum ex_spec md H3) as Hlay.
  exists md, l. repeat (split; [first [reflexivity|assumption|exact ex_list_shape_ok|exact ex_shape_ok|exact I]|]).
  exact (logpdf_terms_refines_layout_Qc ex_ia ex_im ex_spec ex_st md ex_pars ex_data l E ex_list_shape_ok ex_shape_ok I Hlay El).
Qed.

(* a constrained parameter set of size 0 (empty sample data, refused by pyhf's JSON schema: minItems 1, not by the model code)
   escapes the length check of user-configured auxdata: there are then more auxiliary data than constraint terms *)
Definition zero_bin_aux_spec : spec QcNum :=
  Build_spec (N:=QcNum)
    [ Cq "A" [ Sq "s" [] [ Mq "mu" Normfactor (@MDNone QcNum); Mq "shp" Shapesys (@MDList QcNum []) ] ] ]
    [ Build_parcfg (N:=QcNum) "shp" None None (Some [qz 1; qz 2]) None None None ] None.
Theorem auxdata_length_refuted : exists md, build QcNum zero_bin_aux_spec = Ok md /\
  length (cterms QcNum (fun _ => 0%Qc) (md_psets QcNum md) [] O) <> length (md_auxdata QcNum md).
Proof.
  assert (H0 : on_build zero_bin_aux_spec (fun m => Nat.eqb (length (cterms QcNum (fun _ => 0%Qc) (md_psets QcNum m) [] O))
                                                               (length (md_auxdata QcNum m))) true = false) by (vm_compute; reflexivity).
  destruct (build QcNum zero_bin_aux_spec) as [md|e] eqn:E; [|unfold on_build in H0; rewrite E in H0; discriminate].
  apply (on_build_ok _ _ _ _ md) in H0; [|exact E]. apply Nat.eqb_neq in H0. exists md. auto.
Qed.
