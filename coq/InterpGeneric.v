(* C03 - vectorised = scalar reference, for every number structure satisfying the laws of TNum.v
   (hence for the executed Qc instance and for the real instance the analysis talks about).
   [slow_code*] are the definitions translated from the python source on this run (gen/InterpGen.v);
   [fast_code*] the hand model of the vectorised `__call__` (InterpFast.v). *)
From Coq Require Import ZArith Bool Ring Field Lia List.
Require Import PV.Num PV.TNum PV.InterpFast PV.gen.InterpGen.
Import ListNotations.
Local Open Scope list_scope.

Section Generic.
  Variable T : TNum.
  Hypothesis L : tnum_laws T.
  Notation V := (V T).
  Notation "0" := (n0 T).
  Notation "1" := (n1 T).
  Infix "+" := (nadd T).
  Infix "*" := (nmul T).
  Infix "-" := (nsub T).
  Notation "- x" := (nopp T x).
  Notation "x <? y" := (nltb T x y).
  Notation "x <=? y" := (nleb T x y).

  Infix "/" := (ndiv T).
  Let ft : field_theory 0 1 (nadd T) (nmul T) (nsub T) (nopp T) (ndiv T) (ninv T) eq := tl_field T L.
  Add Field TField : ft.
  Let O := tl_order T L.
  Let Zm := tl_ofZ T L.

  (* ---- integer literals ---- *)
  Fixpoint phiP (p : positive) : V :=
    match p with xH => 1 | xO p => (1 + 1) * phiP p | xI p => 1 + (1 + 1) * phiP p end.
  Definition phiZ (z : Z) : V := match z with Z0 => 0 | Zpos p => phiP p | Zneg p => - phiP p end.

  Lemma ofZ_pos p : nofZ T (Zpos p) = phiP p.
  Proof.
    induction p as [p IH | p IH |]; simpl.
    - replace (Zpos p~1) with (1 + (Zpos p + Zpos p))%Z by lia. rewrite !(ofZ_add _ Zm), (ofZ_1 _ Zm), IH. ring.
    - replace (Zpos p~0) with (Zpos p + Zpos p)%Z by lia. rewrite !(ofZ_add _ Zm), IH. ring.
    - apply (ofZ_1 _ Zm).
  Qed.
  Lemma ofZ_phi z : nofZ T z = phiZ z.
  Proof.
    destruct z as [|p|p]; simpl.
    - apply (ofZ_0 _ Zm).
    - apply ofZ_pos.
    - change (Zneg p) with (- Zpos p)%Z. rewrite (ofZ_opp _ Zm), ofZ_pos. reflexivity.
  Qed.

  (* ---- order facts ---- *)
  Lemma lt_asym a b : a <? b = true -> b <? a = false.
  Proof.
    intro H. destruct (b <? a) eqn:E; auto.
    rewrite <- (ord_irrefl _ O a). symmetry. eapply (ord_trans _ O); eauto.
  Qed.
  Lemma one_neq_zero : 1 <> 0.
  Proof. intro H. generalize (ord_0_1 _ O). rewrite H, (ord_irrefl _ O). discriminate. Qed.
  Lemma opp_0 : - 0 = 0.
  Proof. ring. Qed.
  Lemma opp_opp a : - - a = a.
  Proof. ring. Qed.
  Lemma lt_opp_l a b : ((- a) <? b) = ((- b) <? a).
  Proof. rewrite <- (opp_opp b) at 1. apply (ord_opp _ O). Qed.
  Lemma lt_opp_r a b : (a <? (- b)) = (b <? (- a)).
  Proof. rewrite <- (opp_opp a) at 1. apply (ord_opp _ O). Qed.
  Lemma neg_lt_0 a : 0 <? a = true -> (- a) <? 0 = true.
  Proof. intro H. rewrite lt_opp_l, opp_0. exact H. Qed.
  Lemma m1_lt_1 : nofZ T (-1) <? nofZ T 1 = true.
  Proof.
    rewrite !ofZ_phi; simpl. apply (ord_trans _ O) with 0; [apply neg_lt_0|]; apply (ord_0_1 _ O).
  Qed.
  Lemma not_both a b c : b <? c = true -> a <? b = true -> c <? a = true -> False.
  Proof.
    intros H1 H2 H3. assert (H : a <? a = true).
    { apply (ord_trans _ O) with b; auto. apply (ord_trans _ O) with c; auto. }
    rewrite (ord_irrefl _ O) in H. discriminate.
  Qed.
  (* a < b or a = b or b < a *)
  Lemma lt_cases a b : {a <? b = true} + {a = b} + {b <? a = true}.
  Proof.
    destruct (a <? b) eqn:E1; [left; left; auto|].
    destruct (b <? a) eqn:E2; [right; auto|].
    left; right. apply (ord_total _ O); auto.
  Qed.
  Lemma le_lt_trans a b c : b <? a = false -> b <? c = true -> a <? c = true.
  Proof.
    intros H1 H2. destruct (lt_cases a b) as [[H|H]|H].
    - apply (ord_trans _ O) with b; auto.
    - subst; auto.
    - congruence.
  Qed.
  Lemma lt_le_trans a b c : a <? b = true -> c <? b = false -> a <? c = true.
  Proof.
    intros H1 H2. destruct (lt_cases b c) as [[H|H]|H].
    - apply (ord_trans _ O) with b; auto.
    - subst; auto.
    - congruence.
  Qed.

  (* ---- masks ---- *)
  Lemma nz_on : nonzero T (1 * 1) = true.
  Proof.
    unfold nonzero. replace (1 * 1) with 1 by ring. destruct (neqb T 1 0) eqn:E; auto.
    apply (tl_eqb T L) in E. destruct (one_neq_zero E).
  Qed.
  Lemma nz_off : nonzero T (0 * 1) = false.
  Proof.
    unfold nonzero. replace (0 * 1) with 0 by ring. destruct (neqb T 0 0) eqn:E; auto.
    assert (H : neqb T 0 0 = true) by (apply (tl_eqb T L); auto). congruence.
  Qed.
  Lemma nz_if (c : bool) : nonzero T ((if c then 1 else 0) * 1) = c.
  Proof. destruct c; [apply nz_on | apply nz_off]. Qed.

  Lemma nabs_nonneg a : a <? 0 = false -> nabs a = a.
  Proof. intro H. unfold nabs. rewrite H. reflexivity. Qed.
  Lemma nabs_neg a : a <? 0 = true -> nabs a = - a.
  Proof. intro H. unfold nabs. rewrite H. reflexivity. Qed.

  (* positivity of literals: the structures have characteristic 0 *)
  Lemma pos_neq a : 0 <? a = true -> a <> 0.
  Proof. intros H E. rewrite E, (ord_irrefl _ O) in H. discriminate. Qed.
  Lemma pos_add a b : 0 <? a = true -> 0 <? b = true -> 0 <? (a + b) = true.
  Proof.
    intros Ha Hb. apply (ord_trans _ O) with b; auto.
    replace b with (0 + b) at 1 by ring. apply (ord_add _ O); auto.
  Qed.
  Lemma pos_mul a b : 0 <? a = true -> 0 <? b = true -> 0 <? (a * b) = true.
  Proof. apply (ord_mul _ O). Qed.
  Lemma pos_1 : 0 <? 1 = true.
  Proof. apply (ord_0_1 _ O). Qed.

  Ltac lits := rewrite ?ofZ_phi; cbn [phiZ phiP].
  Ltac nz := apply pos_neq; repeat first [apply pos_add | apply pos_mul | apply pos_1].
  (* algebraic identities between polynomial / rational expressions with literal coefficients *)
  Ltac alg := unfold nofQ, npow; lits; first [ring | (field; repeat split; nz)].

  (* ---------------------------------------------------------------------------------------- *)
  Theorem fast_eq_slow_0 lo nom hi alpha : fast_code0 T lo nom hi alpha = slow_code0 T lo nom hi alpha.
  Proof.
    unfold fast_code0, canon, fast0_cell, slow_code0. cbv zeta. rewrite nz_if.
    lits. destruct (0 <? alpha); alg.
  Qed.

  Theorem fast_eq_slow_1 lo nom hi alpha : fast_code1 T lo nom hi alpha = slow_code1 T lo nom hi alpha.
  Proof.
    unfold fast_code1, canon, fast1_cell, slow_code1, deltas_up_mul, deltas_dn_mul. cbv zeta. rewrite nz_if.
    lits. destruct (0 <? alpha) eqn:E.
    - rewrite nabs_nonneg by (apply lt_asym; auto). f_equal; ring.
    - destruct (lt_cases alpha 0) as [[H|H]|H].
      + rewrite nabs_neg by auto. f_equal; ring.
      + subst. rewrite nabs_nonneg by apply (ord_irrefl _ O). f_equal; ring.
      + congruence.
  Qed.

  Theorem fast_eq_slow_2 lo nom hi alpha : fast_code2 T lo nom hi alpha = slow_code2 T lo nom hi alpha.
  Proof.
    unfold fast_code2, canon, fast2_cell, slow_code2. cbv zeta. rewrite !nz_if.
    rewrite !(ord_leb _ O).
    destruct (nofZ T 1 <? alpha) eqn:E1; destruct (alpha <? nofZ T (-1)) eqn:E2; cbn [negb andb].
    - destruct (not_both _ _ _ m1_lt_1 E2 E1).
    - alg.
    - alg.
    - alg.
  Qed.

  Theorem fast_eq_slow_4p lo nom hi alpha : fast_code4p T lo nom hi alpha = slow_code4p T lo nom hi alpha.
  Proof.
    unfold fast_code4p, canon, fast4p_cell, slow_code4p. cbv zeta. rewrite !nz_if.
    destruct (nofZ T 1 <? alpha) eqn:E1; destruct (alpha <? nofZ T (-1)) eqn:E2.
    - destruct (not_both _ _ _ m1_lt_1 E2 E1).
    - alg.
    - alg.
    - alg.
  Qed.

  (* code 4: the typed-in matrix of the vectorised class is the one of the scalar reference *)
  Lemma dot6 a0 a1 a2 a3 a4 a5 b0 b1 b2 b3 b4 b5 :
    dot T [a0; a1; a2; a3; a4; a5] [b0; b1; b2; b3; b4; b5] = a0 * b0 + a1 * b1 + a2 * b2 + a3 * b3 + a4 * b4 + a5 * b5.
  Proof. reflexivity. Qed.

  Theorem fast_eq_slow_4 alpha0 lo nom hi alpha : 0 <? alpha0 = true ->
    fast_code4 T alpha0 lo nom hi alpha = slow_code4 T alpha0 lo nom hi alpha.
  Proof.
    intro Hpos.
    unfold fast_code4, canon, fast4_cell, slow_code4. cbv zeta. rewrite !nz_if.
    rewrite !(ord_leb _ O).
    replace (nabs alpha * 1) with (nabs alpha) by ring.
    assert (Hneg : (- alpha0) <? 0 = true) by (apply neg_lt_0; auto).
    destruct (alpha <? alpha0) eqn:E1; cbn [negb andb].
    - destruct ((- alpha0) <? alpha) eqn:E2; cbn [negb andb].
      + (* core *)
        assert (E3 : nabs alpha <? alpha0 = true).
        { unfold nabs. destruct (alpha <? 0); auto. rewrite lt_opp_l. exact E2. }
        rewrite E3. cbn [negb]. replace (1 * 1) with 1 by ring. rewrite (tl_pow_1 T L).
        unfold code4_coefficients, code4_b, A_inverse, deltas_up_mul, deltas_dn_mul. cbn [map].
        rewrite !dot6.
        replace (1 * alpha0) with alpha0 by ring.
        lits. unfold npow. ring.
      + (* alpha <= -alpha0 *)
        assert (H0 : alpha <? 0 = true) by (eapply le_lt_trans; eauto).
        rewrite nabs_neg by auto.
        assert (E3 : (- alpha) <? alpha0 = false) by (rewrite lt_opp_l; exact E2).
        rewrite E3. cbn [negb]. unfold deltas_dn_mul. f_equal; ring.
    - (* alpha0 <= alpha *)
      assert (H0 : 0 <? alpha = true) by (eapply lt_le_trans; eauto).
      assert (E2 : (- alpha0) <? alpha = true) by (apply (ord_trans _ O) with 0; auto).
      rewrite E2. rewrite nabs_nonneg by (apply lt_asym; auto). rewrite E1. cbn [negb].
      unfold deltas_up_mul. f_equal; ring.
  Qed.

  (* ---------------------------------------------------------------------------------------- *)
  (* whole tensors: _slow_interpolator_looper, and the vectorised call after any history       *)
  Definition slow_tensor (func : V -> V -> V -> V -> V) (hs : list (list (list (triple T)))) (alphas : list (list V))
    : list (list (list (list V))) :=
    map (fun p => map (fun histo => map (fun alpha => map (fun t : triple T => let '(lo, nom, hi) := t in func lo nom hi alpha) histo)
                                        (fst p)) (snd p))
        (combine alphas hs).

  Lemma stateless_slow cell dup ddn func hs alphas :
    (forall lo nom hi alpha, canon T cell dup ddn (lo, nom, hi) alpha = func lo nom hi alpha) ->
    stateless T cell dup ddn hs alphas = slow_tensor func hs alphas.
  Proof.
    intro H. unfold stateless, slow_tensor.
    apply map_ext; intros [al hset]. apply map_ext; intro histo. apply map_ext; intro alpha.
    apply map_ext; intros [[lo nom] hi]. apply H.
  Qed.

  Section History.
    Variable hs : list (list (list (triple T))).
    Variable evs : list (event T).
    Variable alphas : list (list V).
    Hypothesis Hrect : rect T alphas.
    Hypothesis Hlen : length alphas = length hs.

    Theorem history_0 : snd (call T (fast0_cell T) (no_base T) (no_base T) hs (run T (fast0_cell T) (no_base T) (no_base T) hs evs) alphas)
                        = slow_tensor (slow_code0 T) hs alphas.
    Proof. rewrite call_history_independent by auto. apply stateless_slow. intros; apply fast_eq_slow_0. Qed.
    Theorem history_1 : snd (call T (fast1_cell T) (deltas_up_mul T) (deltas_dn_mul T) hs
                                  (run T (fast1_cell T) (deltas_up_mul T) (deltas_dn_mul T) hs evs) alphas)
                        = slow_tensor (slow_code1 T) hs alphas.
    Proof. rewrite call_history_independent by auto. apply stateless_slow. intros; apply fast_eq_slow_1. Qed.
    Theorem history_2 : snd (call T (fast2_cell T) (no_base T) (no_base T) hs (run T (fast2_cell T) (no_base T) (no_base T) hs evs) alphas)
                        = slow_tensor (slow_code2 T) hs alphas.
    Proof. rewrite call_history_independent by auto. apply stateless_slow. intros; apply fast_eq_slow_2. Qed.
    Theorem history_4 alpha0 : 0 <? alpha0 = true ->
      snd (call T (fast4_cell T alpha0) (deltas_up_mul T) (deltas_dn_mul T) hs
                (run T (fast4_cell T alpha0) (deltas_up_mul T) (deltas_dn_mul T) hs evs) alphas)
      = slow_tensor (slow_code4 T alpha0) hs alphas.
    Proof. intro H. rewrite call_history_independent by auto. apply stateless_slow. intros; apply fast_eq_slow_4; auto. Qed.
    Theorem history_4p : snd (call T (fast4p_cell T) (no_base T) (no_base T) hs (run T (fast4p_cell T) (no_base T) (no_base T) hs evs) alphas)
                        = slow_tensor (slow_code4p T) hs alphas.
    Proof. rewrite call_history_independent by auto. apply stateless_slow. intros; apply fast_eq_slow_4p. Qed.
  End History.
End Generic.
