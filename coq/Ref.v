(* Engine S, reference side: the HistFactory template as written down by a physicist.
   Parameters are addressed by NAME, sums run over the channel's own samples and the sample's own modifiers;
   there are no masks, no global bin index, no sorted global lists (except the documented component layout of a
   staterror parameter shared by several channels: channels in sorted order). *)
From Coq Require Import Bool Arith ZArith Lia String List.
Require Import PV.Num PV.Sort PV.Spec PV.Impl.
Import ListNotations.
Local Open Scope list_scope.

Section Ref.
  Variable N : Num.
  Notation V := (V N).
  Notation "0" := (n0 N). Notation "1" := (n1 N).
  Infix "+" := (nadd N). Infix "*" := (nmul N). Infix "/" := (ndiv N).
  Variable interp_add : string -> V -> V -> V -> V -> V.
  Variable interp_mul : string -> V -> V -> V -> V -> V.
  Variable normsys_code histosys_code : string.
  Variable clip_sample clip_bin : option V.
  Variable sp : spec N.
  Variable theta : string -> nat -> V.        (* component k of the parameter called name *)

  Definition rsum (l : list V) : V := fold_right (nadd N) 0 l.
  Definition rprod (l : list V) : V := fold_right (nmul N) 1 l.
  Definition rmax (a b : V) : V := if nltb N a b then b else a.
  Definition rclip (c : option V) (x : V) : V := match c with Some m => rmax x m | None => x end.

  Definition chan_nbins (c : channel N) : nat := match c_samples c with s :: _ => length (s_data s) | [] => O end.
  Definition has_mod (s : sample N) (name : string) (t : mtype) : bool :=
    existsb (fun m => String.eqb (m_name m) name && mtype_eqb (m_type m) t) (s_mods s).
  Definition chan_has (c : channel N) (name : string) (t : mtype) : bool := existsb (fun s => has_mod s name t) (c_samples c).
  (* offset of channel c inside a staterror parameter: bins of the channels carrying it that sort before c *)
  Definition stat_offset (name : string) (c : channel N) : nat :=
    fold_right Nat.add O (map chan_nbins (filter (fun c' => chan_has c' name Staterror && String.ltb (c_name c') (c_name c)) (channels sp))).

  Definition mod_factor (c : channel N) (s : sample N) (m : modifier N) (b : nat) : V :=
    match m_type m with
    | Normfactor | Lumi => theta (m_name m) O
    | Normsys => match m_data m with MDNorm lo hi => interp_mul normsys_code lo 1 hi (theta (m_name m) O) | _ => 1 end
    | Shapefactor | Shapesys => theta (m_name m) b
    | Staterror => theta (m_name m) (stat_offset (m_name m) c + b)
    | Histosys => 1
    end.
  Definition mod_delta (s : sample N) (m : modifier N) (b : nat) : V :=
    match m_type m, m_data m with
    | Histosys, MDHisto lo hi => interp_add histosys_code (nth b lo 0) (nth b (s_data s) 0) (nth b hi 0) (theta (m_name m) O)
    | _, _ => 0 end.
  Definition sample_rate (c : channel N) (s : sample N) (b : nat) : V :=
    rclip clip_sample (rprod (map (fun m => mod_factor c s m b) (s_mods s)) * (nth b (s_data s) 0 + rsum (map (fun m => mod_delta s m b) (s_mods s)))).
  Definition ref_rate (c : channel N) (b : nat) : V := rclip clip_bin (rsum (map (fun s => sample_rate c s b) (c_samples c))).

  (* channels laid out in sorted name order *)
  Definition sorted_channels : list (channel N) := ssort c_name (channels sp).
  Definition ref_expected : list V := flat_map (fun c => map (ref_rate c) (seq 0 (chan_nbins c))) sorted_channels.

  (* ---- the likelihood template: one Poisson term per bin, one constraint term per constrained component ---- *)
  Variable obs : string -> nat -> V.          (* observed count of bin b of the channel called name *)
  Variable aux : string -> nat -> V.          (* auxiliary datum of component k of the parameter called name *)
  Definition user_cfg (name : string) : option (parcfg N) := find (fun p => String.eqb (pc_name p) name) (parameters sp).
  Definition user_sigmas2 (name : string) (k : nat) : option V :=
    match user_cfg name with Some p => match pc_sigmas p with Some l => Some (nth k l 1 * nth k l 1) | None => None end | None => None end.
  Definition user_factor (name : string) (k : nat) : option V :=
    match user_cfg name with Some p => match pc_factors p with Some l => Some (nth k l 1) | None => None end | None => None end.
  Definition rpos (x : V) : bool := nltb N 0 x.
  Definition rzero (x : V) : bool := neqb N x 0.

  (* staterror width of bin b of channel c: quadrature sum of the relative MC uncertainties of the samples carrying it *)
  Definition stat_unc (s : sample N) (name : string) (b : nat) : V :=
    match find (fun m => String.eqb (m_name m) name && mtype_eqb (m_type m) Staterror) (s_mods s) with
    | Some m => match m_data m with MDList l => nth b l 0 | _ => 0 end | None => 0 end.
  Definition stat_delta2 (name : string) (c : channel N) (b : nat) : V :=
    let carriers := filter (fun s => has_mod s name Staterror) (c_samples c) in
    let tot := rsum (map (fun s => nth b (s_data s) 0) carriers) in
    let v := rsum (map (fun s => if rpos tot then (stat_unc s name b / tot) * (stat_unc s name b / tot) else 0) carriers) in
    if rzero v then 1 else v.
  Definition shapesys_tau (s : sample N) (unc : list V) (b : nat) : V :=
    let nom := nth b (s_data s) 0 in let u := nth b unc 0 in
    if rpos nom && rpos u then (nom * nom) / (u * u) else 1.

  Definition names_with (t : mtype) : list string :=
    nodup string_dec (flat_map (fun c => flat_map (fun s => flat_map (fun m => if mtype_eqb (m_type m) t then [m_name m] else []) (s_mods s)) (c_samples c)) (channels sp)).
  Definition alpha_names : list string := nodup string_dec (names_with Normsys ++ names_with Histosys).

  Definition ref_cterms : list (term N) :=
    map (fun n => TNorm (aux n O) (theta n O) 1) alpha_names
    ++ map (fun n => TNorm (aux n O) (theta n O) (match user_sigmas2 n O with Some v => v | None => 1 end)) (names_with Lumi)
    ++ flat_map (fun n => flat_map (fun c => if chan_has c n Staterror then
          map (fun b => let k := (stat_offset n c + b)%nat in
                        TNorm (aux n k) (theta n k) (match user_sigmas2 n k with Some v => v | None => stat_delta2 n c b end))
              (seq 0 (chan_nbins c)) else []) sorted_channels) (names_with Staterror)
    ++ flat_map (fun c => flat_map (fun s => flat_map (fun m =>
          match m_type m, m_data m with
          | Shapesys, MDList unc => map (fun b => TPois (aux (m_name m) b)
                 (theta (m_name m) b * (match user_factor (m_name m) b with Some f => f | None => shapesys_tau s unc b end)))
                 (seq 0 (chan_nbins c))
          | _, _ => [] end) (s_mods s)) (c_samples c)) (channels sp).
  Definition ref_main_terms : list (term N) :=
    flat_map (fun c => map (fun b => TPois (obs (c_name c) b) (ref_rate c b)) (seq 0 (chan_nbins c))) sorted_channels.
  Definition ref_terms : list (term N) := ref_main_terms ++ ref_cterms.
End Ref.
