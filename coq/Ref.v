(* Engine S, reference side: the HistFactory template as written down by a physicist.
   Parameters are addressed by NAME, sums run over the channel's own samples and the sample's own modifiers;
   there are no masks, no global bin index, no sorted global lists (except the documented component layout of a
   staterror parameter shared by several channels: channels in sorted order). *)
From Coq Require Import Bool Arith ZArith Lia String List.
Require Import PV.Num PV.Sort PV.Spec.
Import ListNotations.
Local Open Scope list_scope.

Section Ref.
  Variable N : Num.
  Notation V := (V N).
  Notation "0" := (n0 N). Notation "1" := (n1 N).
  Infix "+" := (nadd N). Infix "*" := (nmul N). Infix "/" := (ndiv N).
  Variable interp_add : string -> V -> V -> V -> V -> V.
  Variable interp_mul : string -> V -> V -> V -> V -> V.
  Variable normsys_code histosys_code : string.
  Variable clip_sample clip_bin : option V.
  Variable sp : spec N.
  Variable theta : string -> nat -> V.        (* component k of the parameter called name *)

  Definition rsum (l : list V) : V := fold_right (nadd N) 0 l.
  Definition rprod (l : list V) : V := fold_right (nmul N) 1 l.
  Definition rmax (a b : V) : V := if nltb N a b then b else a.
  Definition rclip (c : option V) (x : V) : V := match c with Some m => rmax x m | None => x end.

  Definition chan_nbins (c : channel N) : nat := match c_samples c with s :: _ => length (s_data s) | [] => O end.
  Definition has_mod (s : sample N) (name : string) (t : mtype) : bool :=
    existsb (fun m => String.eqb (m_name m) name && mtype_eqb (m_type m) t) (s_mods s).
  Definition chan_has (c : channel N) (name : string) (t : mtype) : bool := existsb (fun s => has_mod s name t) (c_samples c).
  (* offset of channel c inside a staterror parameter: bins of the channels carrying it that sort before c *)
  Definition stat_offset (name : string) (c : channel N) : nat :=
    fold_right Nat.add O (map chan_nbins (filter (fun c' => chan_has c' name Staterror && String.ltb (c_name c') (c_name c)) (channels sp))).

  Definition mod_factor (c : channel N) (s : sample N) (m : modifier N) (b : nat) : V :=
    match m_type m with
    | Normfactor | Lumi => theta (m_name m) O
    | Normsys => match m_data m with MDNorm lo hi => interp_mul normsys_code lo 1 hi (theta (m_name m) O) | _ => 1 end
    | Shapefactor | Shapesys => theta (m_name m) b
    | Staterror => theta (m_name m) (stat_offset (m_name m) c + b)
    | Histosys => 1
    end.
  Definition mod_delta (s : sample N) (m : modifier N) (b : nat) : V :=
    match m_type m, m_data m with
    | Histosys, MDHisto lo hi => interp_add histosys_code (nth b lo 0) (nth b (s_data s) 0) (nth b hi 0) (theta (m_name m) O)
    | _, _ => 0 end.
  Definition sample_rate (c : channel N) (s : sample N) (b : nat) : V :=
    rclip clip_sample (rprod (map (fun m => mod_factor c s m b) (s_mods s)) * (nth b (s_data s) 0 + rsum (map (fun m => mod_delta s m b) (s_mods s)))).
  Definition ref_rate (c : channel N) (b : nat) : V := rclip clip_bin (rsum (map (fun s => sample_rate c s b) (c_samples c))).

  (* channels laid out in sorted name order *)
  Definition sorted_channels : list (channel N) := ssort c_name (channels sp).
  Definition ref_expected : list V := flat_map (fun c => map (ref_rate c) (seq 0 (chan_nbins c))) sorted_channels.
End Ref.
