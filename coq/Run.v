(* Helpers for the correspondence files written by the harness. *)
From Coq Require Import ZArith QArith Qcanon String List.
Require Import PV.Num.
Import ListNotations.
Inductive Marker := MARK.
Definition qouts (l : list Qc) := map qout l.
Definition qoutss (l : list (list Qc)) := map qouts l.
