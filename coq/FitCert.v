(* C05 (part 2) - optimality certificate for negative log-likelihoods whose Poisson rates are affine in the
   free parameters, plus Gaussian penalty terms.
     f(theta) = sum_t phi_t (c_t + a_t . theta)
        Poisson term  (main bins; Poisson-constrained gammas are such terms too):  phi u = u - n ln u
        Gaussian term (normal-constrained parameters):                             phi u = w/2 (u - aux)^2
   twice_nll = 2 f + (a constant that depends on the data only).
   The gradient and the certificate value are rational functions: they are written once over `Num`
   (executed at Qc by the check, reasoned about at R here). *)
From Coq Require Import ZArith QArith Qcanon Reals Lra Lia Bool List.
Require Import PV.Num.
Import ListNotations.
Local Open Scope list_scope.

Section Generic.
  Variable N : Num.
  Notation T := (V N).
  Notation "0" := (n0 N). Notation "1" := (n1 N).
  Infix "+" := (nadd N). Infix "*" := (nmul N). Infix "-" := (nsub N). Infix "/" := (ndiv N).

  Inductive term :=
  | TPois (n c : T) (a : list T)            (* observed count n, rate c + a.theta *)
  | TGauss (w aux c : T) (a : list T).      (* weight w = 1/sigma^2, auxiliary measurement, argument c + a.theta *)

  (* a + b, skipping the (normalising, hence costly at Qc) addition when one side is literally zero *)
  Definition sadd (a b : T) : T := if neqb N a 0 then b else if neqb N b 0 then a else a + b.
  Definition smul (a b : T) : T := if neqb N a 0 then 0 else if neqb N b 0 then 0 else a * b.
  Fixpoint dot (a x : list T) : T :=
    match a, x with u :: a', v :: x' => sadd (smul u v) (dot a' x') | _, _ => 0 end.
  Fixpoint vadd (a b : list T) : list T :=
    match a, b with u :: a', v :: b' => sadd u v :: vadd a' b' | _, _ => [] end.
  Fixpoint vsub (a b : list T) : list T :=
    match a, b with u :: a', v :: b' => (u - v) :: vsub a' b' | _, _ => [] end.
  Definition scale (k : T) (a : list T) : list T := map (fun u => smul k u) a.

  Definition coefs (t : term) : list T := match t with TPois _ _ a => a | TGauss _ _ _ a => a end.
  Definition arg (t : term) (theta : list T) : T :=
    match t with TPois _ c a => c + dot a theta | TGauss _ _ c a => c + dot a theta end.
  (* derivative of phi_t at u *)
  Definition dphi (t : term) (u : T) : T :=
    match t with TPois n _ _ => 1 - n / u | TGauss w aux _ _ => w * (u - aux) end.

  (* exact gradient of f at theta (a vector of length m) *)
  Fixpoint grad (m : nat) (terms : list term) (theta : list T) : list T :=
    match terms with
    | [] => repeat 0 m
    | t :: r => vadd (scale (dphi t (arg t theta)) (coefs t)) (grad m r theta)
    end.

  (* KKT violation times the room the box leaves in the descent direction, coordinate by coordinate:
     g > 0 wants to go down: room x - lo;   g < 0 wants to go up: room hi - x *)
  Definition eps1 (g x lo hi : T) : T :=
    if nltb N 0 g then g * (x - lo) else if nltb N g 0 then (0 - g) * (hi - x) else 0.
  Fixpoint eps_sum (g x : list T) (box : list (T * T)) : T :=
    match g, x, box with
    | gi :: g', xi :: x', (lo, hi) :: b' => sadd (eps1 gi xi lo hi) (eps_sum g' x' b')
    | _, _, _ => 0 end.
  Definition eps (terms : list term) (theta : list T) (box : list (T * T)) : T :=
    eps_sum (grad (length theta) terms theta) theta box.

  (* the refined certificate with an arbitrary feasible witness point w: g(star).(star - w) + eps(w) *)
  Definition eps_witness (terms : list term) (theta w : list T) (box : list (T * T)) : T :=
    sadd (dot (grad (length theta) terms theta) (vsub theta w)) (eps terms w box).

  (* first-order bound on f(theta) - f(w) that needs no gradient vector:
     sum_t phi_t'(arg_t theta) * (arg_t theta - arg_t w)   ( = grad f(theta) . (theta - w) for affine arguments) *)
  Fixpoint gapbound (terms : list term) (theta w : list T) : T :=
    match terms with
    | [] => 0
    | t :: r => sadd (smul (dphi t (arg t theta)) (arg t theta - arg t w)) (gapbound r theta w)
    end.

  (* executable side conditions *)
  Definition rates_posb (terms : list term) (theta : list T) : bool :=
    forallb (fun t => match t with TPois n _ _ => nltb N 0 (arg t theta) && nleb N 0 n
                               | TGauss w _ _ _ => nleb N 0 w end) terms.
  Fixpoint in_boxb (x : list T) (box : list (T * T)) : bool :=
    match x, box with
    | xi :: x', (lo, hi) :: b' => nleb N lo xi && nleb N xi hi && in_boxb x' b'
    | [], [] => true
    | _, _ => false end.
  Definition shapes_okb (m : nat) (terms : list term) : bool :=
    forallb (fun t => Nat.eqb (length (coefs t)) m) terms.
End Generic.

Arguments TPois {N}. Arguments TGauss {N}.
Arguments sadd : simpl never. Arguments smul : simpl never.

(* ============================================================================================ *)
(* analysis over R *)
Local Open Scope R_scope.

Notation termR := (term RNum).
Notation dotR := (dot RNum).
Definition phi (t : termR) (u : R) : R :=
  match t with TPois n _ _ => u - n * ln u | TGauss w aux _ _ => w / 2 * ((u - aux) * (u - aux)) end.
Fixpoint fR (terms : list termR) (theta : list R) : R :=
  match terms with [] => 0 | t :: r => phi t (arg RNum t theta) + fR r theta end.

(* the per-bin tangent inequality: only ln x <= x - 1 *)
Lemma ln_le_minus1 x : 0 < x -> ln x <= x - 1.
Proof. intros Hx. destruct (Req_dec x 1) as [->|Hne]; [rewrite ln_1; lra|].
  assert (H := exp_ineq1 (x - 1) ltac:(lra)). replace (1 + (x - 1)) with x in H by ring.
  left. rewrite <- (ln_exp (x - 1)). apply ln_increasing; lra. Qed.

Definition nllterm (n lam : R) : R := lam - n * ln lam.
Lemma nllterm_tangent n lam lam' : 0 <= n -> 0 < lam -> 0 < lam' ->
  nllterm n lam >= nllterm n lam' + (lam - lam') * (1 - n / lam').
Proof. intros Hn Hl Hl'. unfold nllterm.
  assert (Hx : 0 < lam / lam') by (apply Rdiv_lt_0_compat; lra).
  pose proof (ln_le_minus1 _ Hx) as H. unfold Rdiv in H at 1. rewrite ln_mult in H by (auto; apply Rinv_0_lt_compat; lra).
  rewrite ln_Rinv in H by lra.
  assert (E : (lam - lam') * (1 - n / lam') = lam - lam' - n * (lam / lam' - 1)) by (field; lra).
  rewrite E. nra. Qed.

Definition term_ok (t : termR) (theta : list R) : Prop :=
  match t with TPois n _ _ => 0 <= n /\ 0 < arg RNum t theta | TGauss w _ _ _ => 0 <= w end.

Lemma phi_tangent t th th' : term_ok t th -> term_ok t th' ->
  phi t (arg RNum t th) >= phi t (arg RNum t th') + dphi RNum t (arg RNum t th') * (arg RNum t th - arg RNum t th').
Proof. destruct t as [n c a|w aux c a]; simpl; intros H H'; change (V RNum) with R in *.
  - destruct H as [Hn Hp], H' as [_ Hp']. simpl in Hp, Hp'.
    pose proof (nllterm_tangent n _ _ Hn Hp Hp') as T. unfold nllterm in T. lra.
  - set (u := c + dot RNum a th). set (u' := c + dot RNum a th').
    clearbody u u'. assert (0 <= w / 2 * ((u - u') * (u - u'))) by (apply Rmult_le_pos; [lra|apply Rle_0_sqr]). nra. Qed.

Lemma sadd_R (a b : R) : sadd RNum a b = a + b.
Proof. unfold sadd. simpl. unfold reqb. destruct (Req_EM_T a 0) as [->|]; [ring|]. destruct (Req_EM_T b 0) as [->|]; [ring|reflexivity]. Qed.
Lemma smul_R (a b : R) : smul RNum a b = a * b.
Proof. unfold smul. simpl. unfold reqb. destruct (Req_EM_T a 0) as [->|]; [ring|]. destruct (Req_EM_T b 0) as [->|]; [ring|reflexivity]. Qed.
Lemma dot_cons (u : R) a (v : R) x : dotR (u :: a) (v :: x) = u * v + dotR a x.
Proof. simpl. now rewrite sadd_R, smul_R. Qed.

(* vector algebra on lists *)
Lemma dot_scale (k : R) (a x : list R) : dotR (scale RNum k a) x = k * dotR a x.
Proof. revert x. induction a as [|u a IH]; intros [|v x]; simpl; try ring. rewrite IH, ?sadd_R, ?smul_R. ring. Qed.
Lemma dot_vadd (a b x : list R) : length a = length b -> dotR (vadd RNum a b) x = dotR a x + dotR b x.
Proof. revert b x. induction a as [|u a IH]; intros [|v b] [|y x] H; simpl in *; try discriminate; try ring.
  rewrite IH by lia. rewrite ?sadd_R, ?smul_R. ring. Qed.
Lemma dot_vsub (a x y : list R) : length x = length y -> dotR a (vsub RNum x y) = dotR a x - dotR a y.
Proof. revert x y. induction a as [|u a IH]; intros [|v x] [|w y] H; simpl in *; try discriminate; try ring.
  rewrite IH by lia. rewrite ?sadd_R, ?smul_R. ring. Qed.
Lemma dot_vsub_swap (a x y : list R) : length x = length y -> dotR a (vsub RNum x y) = - dotR a (vsub RNum y x).
Proof. intros H. rewrite (dot_vsub a x y H), (dot_vsub a y x (eq_sym H)). change (V RNum) with R. simpl. ring. Qed.
Lemma dot_zero m (x : list R) : dotR (repeat 0 m) x = 0.
Proof. revert x. induction m; intros [|v x]; simpl; auto. rewrite IHm, ?sadd_R, ?smul_R. ring. Qed.
Lemma vadd_length a b : length a = length b -> length (vadd RNum a b) = length a.
Proof. revert b. induction a; intros [|v b] H; simpl in *; try discriminate; auto. Qed.
Lemma grad_length m terms th : Forall (fun t => length (coefs RNum t) = m) terms -> length (grad RNum m terms th) = m.
Proof. induction 1 as [|t r Ht Hr IH]; simpl; [apply repeat_length|].
  rewrite vadd_length; unfold scale; rewrite map_length; lia. Qed.

Lemma arg_diff t th th' : length th = length th' ->
  arg RNum t th - arg RNum t th' = dotR (coefs RNum t) (vsub RNum th th').
Proof. intros H. rewrite dot_vsub by exact H. destruct t; simpl; ring. Qed.

(* first-order lower bound of f by its exact gradient (convexity, through the tangent inequality) *)
Theorem tangent_bound m terms th th' :
  Forall (fun t => length (coefs RNum t) = m) terms -> length th = length th' ->
  Forall (fun t => term_ok t th) terms -> Forall (fun t => term_ok t th') terms ->
  fR terms th >= fR terms th' + dotR (grad RNum m terms th') (vsub RNum th th').
Proof. intros Hs Hl. induction Hs as [|t r Ht Hr IH]; intros H H'; simpl.
  - rewrite dot_zero. lra.
  - inversion H; subst. inversion H'; subst.
    rewrite dot_vadd by (unfold scale; rewrite map_length, grad_length; auto).
    rewrite dot_scale. rewrite <- arg_diff by exact Hl.
    pose proof (phi_tangent t th th' H2 H4). specialize (IH H3 H5). lra. Qed.

Definition in_box (x : list R) (box : list (R * R)) : Prop :=
  Forall2 (fun xi b => fst b <= xi <= snd b) x box.

Lemma eps1_bound g x y lo hi : lo <= x <= hi -> lo <= y <= hi -> g * (x - y) <= eps1 RNum g x lo hi.
Proof. intros Hx Hy. unfold eps1. simpl. unfold rltb.
  destruct (Rlt_dec 0 g) as [G|G]; [nra|]. destruct (Rlt_dec g 0) as [G'|G']; [nra|].
  assert (g = 0) by lra. subst. lra. Qed.
Lemma eps1_nonneg g x lo hi : lo <= x <= hi -> 0 <= eps1 RNum g x lo hi.
Proof. intros Hx. unfold eps1. simpl. unfold rltb.
  destruct (Rlt_dec 0 g) as [G|G]; [nra|]. destruct (Rlt_dec g 0) as [G'|G']; [nra|lra]. Qed.

Lemma eps_sum_bound g : forall x y box, in_box x box -> in_box y box ->
  dotR g (vsub RNum x y) <= eps_sum RNum g x box.
Proof. induction g as [|gi g IH]; intros x y box Hx Hy; simpl; [lra|].
  inversion Hx as [|xi b x' box' Hb Hx']; subst; simpl; [inversion Hy; subst; simpl; lra|].
  inversion Hy as [|yi b' y' box'' Hb' Hy']; subst. destruct b as [lo hi]. simpl in *.
  pose proof (eps1_bound gi xi yi lo hi Hb Hb'). specialize (IH x' y' box' Hx' Hy'). rewrite ?sadd_R, ?smul_R. change (V RNum) with R in *. lra. Qed.

Lemma in_box_length x box : in_box x box -> length x = length box.
Proof. induction 1; simpl; auto. Qed.

(* ---- the certificate: a reported point is eps-optimal against EVERY feasible point ---- *)
Theorem kkt_certificate terms star box :
  Forall (fun t => length (coefs RNum t) = length star) terms ->
  in_box star box -> Forall (fun t => term_ok t star) terms ->
  forall theta, in_box theta box -> Forall (fun t => term_ok t theta) terms ->
  fR terms star - fR terms theta <= eps RNum terms star box.
Proof. intros Hs Hb Hok theta Hb' Hok'.
  assert (Hl : length theta = length star) by (rewrite (in_box_length _ _ Hb), (in_box_length _ _ Hb'); reflexivity).
  pose proof (tangent_bound (length star) terms theta star Hs Hl Hok' Hok) as T.
  pose proof (eps_sum_bound (grad RNum (length star) terms star) star theta box Hb Hb') as E.
  unfold eps. assert (X : dotR (grad RNum (length star) terms star) (vsub RNum theta star)
                    = - dotR (grad RNum (length star) terms star) (vsub RNum star theta)).
  { apply dot_vsub_swap. exact Hl. }
  change (V RNum) with R in *. lra. Qed.

(* ---- refined with a witness: any feasible w (proposed by an untrusted polisher) sharpens the bound ---- *)
Theorem kkt_certificate_witness terms star w box :
  Forall (fun t => length (coefs RNum t) = length star) terms ->
  in_box star box -> Forall (fun t => term_ok t star) terms ->
  in_box w box -> Forall (fun t => term_ok t w) terms ->
  forall theta, in_box theta box -> Forall (fun t => term_ok t theta) terms ->
  fR terms star - fR terms theta <= eps_witness RNum terms star w box.
Proof. intros Hs Hb Hok Hbw Hokw theta Hb' Hok'.
  assert (Hlw : length w = length star) by (rewrite (in_box_length _ _ Hb), (in_box_length _ _ Hbw); reflexivity).
  pose proof (tangent_bound (length star) terms w star Hs Hlw Hokw Hok) as T.
  assert (Hs' : Forall (fun t => length (coefs RNum t) = length w) terms) by (now rewrite Hlw).
  pose proof (kkt_certificate terms w box Hs' Hbw Hokw theta Hb' Hok') as K.
  unfold eps_witness. rewrite sadd_R. change (V RNum) with R in *.
  assert (X : dotR (grad RNum (length star) terms star) (vsub RNum w star)
            = - dotR (grad RNum (length star) terms star) (vsub RNum star w)) by (apply dot_vsub_swap; exact Hlw).
  lra. Qed.

(* ---- the form the check evaluates: f(star) - f(w) bounded term by term, plus the KKT residual of the witness ---- *)
Theorem gap_certificate terms star w :
  Forall (fun t => term_ok t star) terms -> Forall (fun t => term_ok t w) terms ->
  fR terms star - fR terms w <= gapbound RNum terms star w.
Proof. induction terms as [|t r IH]; intros H H'; simpl; [lra|].
  inversion H; subst. inversion H'; subst. specialize (IH H3 H5).
  pose proof (phi_tangent t w star H4 H2) as T. rewrite sadd_R, smul_R. change (V RNum) with R in *.
  change (nsub RNum) with Rminus. lra. Qed.

Theorem kkt_certificate_gap terms star w box :
  Forall (fun t => length (coefs RNum t) = length w) terms ->
  Forall (fun t => term_ok t star) terms ->
  in_box w box -> Forall (fun t => term_ok t w) terms ->
  forall theta, in_box theta box -> Forall (fun t => term_ok t theta) terms ->
  fR terms star - fR terms theta <= gapbound RNum terms star w + eps RNum terms w box.
Proof. intros Hs Hok Hbw Hokw theta Hb Hokt.
  pose proof (gap_certificate terms star w Hok Hokw). pose proof (kkt_certificate terms w box Hs Hbw Hokw theta Hb Hokt).
  change (V RNum) with R in *. lra. Qed.

(* non-vacuity: a two-bin, two-parameter instance where every premise holds and eps = 0 at the optimum *)
Example kkt_certificate_nonvacuous :
  let terms : list termR := [@TPois RNum 3 1 [1; 0]; @TPois RNum 5 0 [0; 2]; @TGauss RNum 4 1 0 [0; 1]] in
  let box := [(0, 10); (0, 10)] in
  Forall (fun t => length (coefs RNum t) = 2%nat) terms /\ in_box [2; 5/2] box /\ Forall (fun t => term_ok t [2; 5/2]) terms.
Proof. simpl. repeat split; repeat constructor; simpl; rewrite ?sadd_R, ?smul_R; simpl; try lra. Qed.

(* ---- closed form for the one-bin counting experiment n ~ Pois(mu s + b) on a box ---- *)
Definition clip (lo hi x : R) : R := Rmax lo (Rmin hi x).
Definition counting_nll (n s b mu : R) : R := nllterm n (mu * s + b).

Theorem closed_form_counting n s b lo hi :
  0 <= n -> 0 < s -> lo <= hi -> 0 < lo * s + b ->
  let muhat := clip lo hi ((n - b) / s) in
  lo <= muhat <= hi /\ forall mu, lo <= mu <= hi -> counting_nll n s b muhat <= counting_nll n s b mu.
Proof. intros Hn Hs Hlh Hpos muhat.
  assert (Hin : lo <= muhat <= hi).
  { unfold muhat, clip. split; [apply Rmax_l|]. apply Rmax_lub; [lra|apply Rmin_l]. }
  split; [exact Hin|]. intros mu Hmu. unfold counting_nll.
  assert (Hl : 0 < mu * s + b) by nra. assert (Hl' : 0 < muhat * s + b) by nra.
  pose proof (nllterm_tangent n _ _ Hn Hl Hl') as T.
  cut (0 <= (mu * s + b - (muhat * s + b)) * (1 - n / (muhat * s + b))); [lra|].
  set (x := (n - b) / s) in *. assert (Ex : x * s + b = n) by (unfold x; field; lra).
  assert (D : 1 - n / (muhat * s + b) = (muhat * s + b - n) / (muhat * s + b)) by (field; lra).
  rewrite D. replace (mu * s + b - (muhat * s + b)) with (s * (mu - muhat)) by ring.
  assert (Hinv : 0 < / (muhat * s + b)) by (apply Rinv_0_lt_compat; lra).
  unfold Rdiv. rewrite <- Rmult_assoc. apply Rmult_le_pos; [|lra].
  clear T D Hinv Hl' Hl Hn Hpos. clearbody x. rewrite <- Ex. clear Ex n.
  unfold muhat, clip, Rmax, Rmin in *. clear muhat.
  destruct (Rle_dec hi x) as [C1|C1]; destruct (Rle_dec lo _) as [C2|C2];
  match goal with |- 0 <= s * (mu - ?m) * (?m * s + b - (x * s + b)) =>
    replace (s * (mu - m) * (m * s + b - (x * s + b))) with ((s * s) * ((mu - m) * (m - x))) by ring end;
  (apply Rmult_le_pos; [nra|]); nra. Qed.

Example closed_form_counting_nonvacuous : 0 <= 7 /\ 0 < 2 /\ 0 <= 10 /\ 0 < 0 * 2 + 3.
Proof. lra. Qed.
