(* C11 - property theorems only. *)
From Coq Require Import String List.
Require Import PV.Events PV.EventsThms PV.gen.FactsC11.
Import ListNotations.

(* tie to the source: the table extracted from /repo on this run satisfies the syntactic conditions; set_backend and
   events.Callables still have the statement order the model transcribes *)
Theorem C11_facts_ok : facts_ok facts_c11 interp_classes = true.
Proof. vm_compute. reflexivity. Qed.
Lemma C11_set_backend_shape : set_backend_shape_ok = true.
Proof. reflexivity. Qed.
Lemma C11_callables_shape : callables_shape_ok = true.
Proof. reflexivity. Qed.

Theorem C11_switch_invariant : forall h, wf_hist h = true ->
  forall id o, nth_error (heap (run facts_c11 h)) id = Some o -> o_live o = true -> currentb (cur_tl (run facts_c11 h)) o = true.
Proof. exact (switch_invariant facts_c11 interp_classes C11_facts_ok). Qed.
Theorem C11_eval_as_fresh : forall h, wf_hist h = true ->
  forall id o, nth_error (heap (run facts_c11 h)) id = Some o -> o_live o = true ->
  eval (run facts_c11 h) id = fresh_obs (o_cls o) (cur_tl (run facts_c11 h)) (o_active o) (o_shape o).
Proof. exact (eval_as_fresh facts_c11 interp_classes C11_facts_ok). Qed.
Theorem C11_eval_all_fresh : forall h, wf_hist h = true -> snd (step facts_c11 (run facts_c11 h) EvalAll) = [EvAllObs true].
Proof. exact (eval_all_fresh facts_c11 interp_classes C11_facts_ok). Qed.
Theorem C11_eval_same_as_later_built : forall h, wf_hist h = true ->
  forall i j a b, nth_error (heap (run facts_c11 h)) i = Some a -> nth_error (heap (run facts_c11 h)) j = Some b -> o_live a = true -> o_live b = true ->
  o_cls a = o_cls b -> o_active a = o_active b -> o_shape a = o_shape b -> eval (run facts_c11 h) i = eval (run facts_c11 h) j.
Proof. exact (eval_same_as_later_built facts_c11 interp_classes C11_facts_ok). Qed.
Theorem C11_dead_not_called : forall h s id, id < length (heap s) -> is_live s id = false -> ~ In (EvPre id) (log_from facts_c11 s h).
Proof. exact (dead_not_called facts_c11). Qed.
Theorem C11_registry_flushed : forall s b p o, tl_changed s b p = true ->
  forall id, In id (registry (fst (set_backend s b p o))) -> is_live (fst (set_backend s b p o)) id = true.
Proof. exact registry_flushed. Qed.
Theorem C11_event_iff_changed : forall s b p o, In (EvTrigger "tensorlib_changed") (snd (set_backend s b p o)) <-> (b, p) <> cur_tl s.
Proof. exact event_iff_changed. Qed.
Theorem C11_event_at_most_once : forall s b p o, tl_triggers (snd (set_backend s b p o)) = if tl_changed s b p then 1 else 0.
Proof. exact event_at_most_once. Qed.
Theorem C11_round_calls_live_in_order : forall s b p o, tl_changed s b p = true ->
  pre_ids (snd (set_backend s b p o)) = filter (is_live s) (registry s).
Proof. exact round_calls_live_in_order. Qed.
Theorem C11_optimizer_event_iff_new_object : forall s b p o,
  In (EvTrigger "optimizer_changed") (snd (set_backend s b p o)) <-> fst (new_optimizer s o) <> cur_opt s.
Proof. exact optimizer_event_iff_new_object. Qed.
Theorem C11_optimizer_event_iff_name_changed_refuted :
  exists s b p n, n = fst (cur_opt s) /\ In (EvTrigger "optimizer_changed") (snd (set_backend s b p (OByName n))).
Proof. exact optimizer_event_iff_name_changed_refuted. Qed.

Print Assumptions C11_facts_ok.
Print Assumptions C11_switch_invariant.
Print Assumptions C11_eval_as_fresh.
Print Assumptions C11_eval_all_fresh.
Print Assumptions C11_eval_same_as_later_built.
Print Assumptions C11_dead_not_called.
Print Assumptions C11_registry_flushed.
Print Assumptions C11_event_iff_changed.
Print Assumptions C11_event_at_most_once.
Print Assumptions C11_round_calls_live_in_order.
Print Assumptions C11_optimizer_event_iff_new_object.
Print Assumptions C11_optimizer_event_iff_name_changed_refuted.
