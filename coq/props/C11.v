(* C11 - property theorems only. *)
From Coq Require Import String List.
Require Import PV.Events PV.EventsThms PV.gen.FactsC11 PV.gen.EventsGen PV.TieEvents.
Import ListNotations.
Local Open Scope list_scope.

(* tie to the source: the table extracted from /repo on this run satisfies the syntactic conditions; set_backend and
   events.Callables still have the statement order the model transcribes *)
Theorem C11_facts_ok : facts_ok facts_c11 interp_classes = true.
Proof. vm_compute. reflexivity. Qed.
Lemma C11_set_backend_shape : set_backend_shape_ok = true.
Proof. reflexivity. Qed.
Lemma C11_callables_shape : callables_shape_ok = true.
Proof. reflexivity. Qed.

Theorem C11_switch_invariant : forall h, wf_hist h = true ->
  forall id o, nth_error (heap (run facts_c11 h)) id = Some o -> o_live o = true -> currentb (cur_tl (run facts_c11 h)) o = true.
Proof. exact (switch_invariant facts_c11 interp_classes C11_facts_ok). Qed.
Theorem C11_eval_as_fresh : forall h, wf_hist h = true ->
  forall id o, nth_error (heap (run facts_c11 h)) id = Some o -> o_live o = true ->
  eval (run facts_c11 h) id = fresh_obs (o_cls o) (cur_tl (run facts_c11 h)) (o_active o) (o_shape o).
Proof. exact (eval_as_fresh facts_c11 interp_classes C11_facts_ok). Qed.
Theorem C11_eval_all_fresh : forall h, wf_hist h = true -> snd (step facts_c11 (run facts_c11 h) EvalAll) = [EvAllObs true].
Proof. exact (eval_all_fresh facts_c11 interp_classes C11_facts_ok). Qed.
Theorem C11_eval_same_as_later_built : forall h, wf_hist h = true ->
  forall i j a b, nth_error (heap (run facts_c11 h)) i = Some a -> nth_error (heap (run facts_c11 h)) j = Some b -> o_live a = true -> o_live b = true ->
  o_cls a = o_cls b -> o_active a = o_active b -> o_shape a = o_shape b -> eval (run facts_c11 h) i = eval (run facts_c11 h) j.
Proof. exact (eval_same_as_later_built facts_c11 interp_classes C11_facts_ok). Qed.
Theorem C11_dead_not_called : forall h s id, id < length (heap s) -> is_live s id = false -> ~ In (EvPre id) (log_from facts_c11 s h).
Proof. exact (dead_not_called facts_c11). Qed.
Theorem C11_registry_flushed : forall s b p o, tl_changed s b p = true ->
  forall id, In id (registry (fst (set_backend s b p o))) -> is_live (fst (set_backend s b p o)) id = true.
Proof. exact registry_flushed. Qed.
Theorem C11_event_iff_changed : forall s b p o, In (EvTrigger "tensorlib_changed") (snd (set_backend s b p o)) <-> (b, p) <> cur_tl s.
Proof. exact event_iff_changed. Qed.
Theorem C11_event_at_most_once : forall s b p o, tl_triggers (snd (set_backend s b p o)) = if tl_changed s b p then 1 else 0.
Proof. exact event_at_most_once. Qed.
Theorem C11_round_calls_live_in_order : forall s b p o, tl_changed s b p = true ->
  pre_ids (snd (set_backend s b p o)) = filter (is_live s) (registry s).
Proof. exact round_calls_live_in_order. Qed.
Theorem C11_optimizer_event_iff_new_object : forall s b p o,
  In (EvTrigger "optimizer_changed") (snd (set_backend s b p o)) <-> fst (new_optimizer s o) <> cur_opt s.
Proof. exact optimizer_event_iff_new_object. Qed.
Theorem C11_optimizer_event_iff_name_changed_refuted :
  exists s b p n, n = fst (cur_opt s) /\ In (EvTrigger "optimizer_changed") (snd (set_backend s b p (OByName n))).
Proof. exact optimizer_event_iff_name_changed_refuted. Qed.

(* --- tie to the source: pyhf/events.py and pyhf/tensor/manager.py:set_backend are TRANSLATED to PV.gen.EventsGen on every run
   (harness/props/c11_tie.py); coq/TieEvents.v proves the translated definitions equal to what the hand model says --- *)
(* Callables._flush keeps exactly the references that are alive in the world it is run in, in order *)
Theorem C11_source_is_model_flush : forall (W A : Type) deref call_method call_func (w : W) cbs,
  gen_flush W A deref call_method call_func w cbs = filter (cb_alive W deref w) cbs.
Proof. exact tie_flush. Qed.
(* Callables.__call__: in subscription order, each reference that is alive when its turn comes, on the world the earlier callbacks left; the
   dead references are flushed only AFTER the round, against the world the round left *)
Theorem C11_source_is_model_callables_call : forall (W A : Type) deref call_method call_func (w : W) cbs (a : A),
  gen_callables_call W A deref call_method call_func w cbs a
  = (fold_left (cb_invoke W A deref call_method call_func a) cbs w,
     filter (cb_alive W deref (fold_left (cb_invoke W A deref call_method call_func a) cbs w)) cbs).
Proof. exact tie_callables_call. Qed.
Theorem C11_source_is_model_append : forall cbs f o,
  gen_append_method cbs f o = cbs ++ [(f, Some o)] /\ gen_append_function cbs f = cbs ++ [(f, None)].
Proof. intros cbs f o. exact (conj (tie_append_method cbs f o) (tie_append_function cbs f)). Qed.
Theorem C11_source_is_model_subscribe : forall events event f o e,
  entry (gen_subscribe_method events event f o) e = if String.eqb e event then entry events event ++ [(f, Some o)] else entry events e.
Proof. exact tie_subscribe_method. Qed.
Theorem C11_source_is_model_subscribe_registry : forall s id,
  entry (gen_subscribe_method (events_of s) "tensorlib_changed" 0 id) "tensorlib_changed" = map mref (registry (subscribe s id)).
Proof. exact tie_subscribe_model. Qed.
Theorem C11_source_is_model_trigger : forall events disabled event,
  gen_trigger events disabled event
  = if mem_str event disabled then CNoop else match assoc event events with Some cbs => CCallables cbs | None => CNoop end.
Proof. exact tie_trigger. Qed.
Theorem C11_source_is_model_disable_enable : forall disabled event, mem_str event disabled = false ->
  gen_enable (gen_disable disabled event) event = Ok disabled.
Proof. exact enable_after_disable. Qed.
Theorem C11_source_is_model_register : forall (W A R : Type) fire run event (w : W) (a : A),
  gen_register_wrapper W A R fire run event w a
  = let w1 := fire w (event ++ "::before")%string in let r := run w1 a in (fire (fst r) (event ++ "::after")%string, snd r).
Proof. exact tie_register_wrapper. Qed.
(* set_backend against the generic specification TieEvents.set_backend_spec, for ALL meanings of the opaque functions: which slot every
   comparison reads (cur / dflt), which event fires under which condition, the order swap - default events - events - _setup *)
Theorem C11_source_is_model_set_backend_spec :
  forall (W tobj oobj bcls ocls : Type) lower getb newb bname bprec binst geto newo oname oinst oneq cur dflt set_cur set_dflt fire setup,
  let spec := set_backend_spec W tobj oobj bcls ocls lower getb newb bname bprec binst geto newo oname oinst oneq cur dflt set_cur set_dflt fire setup in
  (forall b o p d w, gen_set_backend_str_str_str W tobj oobj bcls ocls lower getb newb bname bprec binst geto newo oname oinst oneq cur dflt set_cur set_dflt fire setup b o p d w
                     = spec (BStr tobj b) (OStr oobj o) (Some p) d w)
  /\ (forall b o p d w, gen_set_backend_str_obj_str W tobj oobj bcls ocls lower getb newb bname bprec binst geto newo oname oinst oneq cur dflt set_cur set_dflt fire setup b o p d w
                        = spec (BStr tobj b) (OObj oobj o) (Some p) d w)
  /\ (forall b d w, gen_set_backend_str_none_none W tobj oobj bcls ocls lower getb newb bname bprec binst geto newo oname oinst oneq cur dflt set_cur set_dflt fire setup b d w
                    = spec (BStr tobj b) (ONone oobj) None d w)
  /\ (forall b o d w, gen_set_backend_obj_obj_none W tobj oobj bcls ocls lower getb newb bname bprec binst geto newo oname oinst oneq cur dflt set_cur set_dflt fire setup b o d w
                      = spec (BObj tobj b) (OObj oobj o) None d w).
Proof. intros. repeat split; intros; [apply tie_set_backend_str_str_str|apply tie_set_backend_str_obj_str|apply tie_set_backend_str_none_none|apply tie_set_backend_obj_obj_none]. Qed.
(* ... and against Events.set_backend itself: the translated register wrapper around the translated body, events.trigger(name)() being the
   translated trigger followed by the translated Callables.__call__, yields the model's state and the model's events - whatever the default slot holds *)
Theorem C11_source_is_model_set_backend : forall b p o s d l,
  gen_register_wrapper world unit unit fire_i (run_sb b p o) gen_set_backend_event (mkW s d l) tt
  = (mkW (fst (set_backend s b p o)) d (l ++ snd (set_backend s b p o)), tt).
Proof. exact tie_set_backend_model. Qed.

Print Assumptions C11_facts_ok.
Print Assumptions C11_switch_invariant.
Print Assumptions C11_eval_as_fresh.
Print Assumptions C11_eval_all_fresh.
Print Assumptions C11_eval_same_as_later_built.
Print Assumptions C11_dead_not_called.
Print Assumptions C11_registry_flushed.
Print Assumptions C11_event_iff_changed.
Print Assumptions C11_event_at_most_once.
Print Assumptions C11_round_calls_live_in_order.
Print Assumptions C11_optimizer_event_iff_new_object.
Print Assumptions C11_optimizer_event_iff_name_changed_refuted.
Print Assumptions C11_source_is_model_flush.
Print Assumptions C11_source_is_model_callables_call.
Print Assumptions C11_source_is_model_append.
Print Assumptions C11_source_is_model_subscribe.
Print Assumptions C11_source_is_model_subscribe_registry.
Print Assumptions C11_source_is_model_trigger.
Print Assumptions C11_source_is_model_disable_enable.
Print Assumptions C11_source_is_model_register.
Print Assumptions C11_source_is_model_set_backend_spec.
Print Assumptions C11_source_is_model_set_backend.
