(* C04 - property theorems only. *)
From Coq Require Import Reals ZArith.
From Coquelicot Require Import Coquelicot.
Require Import PV.ProbNum PV.ProbThms PV.gen.ProbGen PV.GaussProb.
Open Scope R_scope.

(* tie: the bodies translated from numpy_backend.py / jax_backend.py / pytorch_backend.py on this run, instantiated at R,
   are the hand transcriptions the theorems of ProbThms.v are about *)
Lemma C04_tie_numpy_normal_logpdf : forall E x mu sigma, numpy_normal_logpdf RP E x mu sigma = normal_logpdf_model x mu sigma.
Proof. reflexivity. Qed.
Lemma C04_tie_jax_normal_logpdf : forall E x mu sigma, jax_normal_logpdf RP E x mu sigma = normal_logpdf_model x mu sigma.
Proof. reflexivity. Qed.
Lemma C04_tie_numpy_poisson_logpdf : forall (E : PExt RP) n lam, numpy_poisson_logpdf RP E n lam = poisson_logpdf_model (e_gammaln E) (e_xlogy E) n lam.
Proof. reflexivity. Qed.
Lemma C04_tie_jax_poisson_logpdf : forall (E : PExt RP) n lam, jax_poisson_logpdf RP E n lam = poisson_logpdf_model (e_gammaln E) (e_xlogy E) n lam.
Proof. reflexivity. Qed.
Lemma C04_tie_numpy_poisson : forall (E : PExt RP) n lam, numpy_poisson RP E n lam = poisson_model (e_gammaln E) (e_xlogy E) n lam.
Proof. reflexivity. Qed.
Lemma C04_tie_jax_poisson : forall (E : PExt RP) n lam, jax_poisson RP E n lam = poisson_model (e_gammaln E) (e_xlogy E) n lam.
Proof. reflexivity. Qed.
Lemma C04_tie_numpy_normal : forall (E : PExt RP) x mu sigma, numpy_normal RP E x mu sigma = normal_model (e_norm_pdf E) x mu sigma.
Proof. reflexivity. Qed.
Lemma C04_tie_jax_normal : forall (E : PExt RP) x mu sigma, jax_normal RP E x mu sigma = normal_model (e_norm_pdf E) x mu sigma.
Proof. reflexivity. Qed.
Lemma C04_tie_pytorch_normal_cdf : forall (E : PExt RP) x mu sigma, e_erfc E = erfc_def -> pytorch_normal_cdf RP E x mu sigma = torch_normal_cdf_model x mu sigma.
Proof. intros E x mu sigma H. unfold pytorch_normal_cdf. rewrite H. reflexivity. Qed.

(* the assumptions about the library special functions, as one predicate on the externals *)
Definition special_ok (Gamma : R -> R) (E : PExt RP) : Prop :=
  (forall z, 0 < z -> 0 < Gamma z) /\ (forall z, 0 < z -> e_gammaln E z = ln (Gamma z)) /\ (forall x y, 0 < y -> e_xlogy E x y = x * ln y)
  /\ (forall k : nat, Gamma (INR k + 1) = INR (fact k)) /\ (forall y, e_xlogy E 0 y = 0).

Theorem C04_normal_logpdf_exact : forall E x mu sigma, 0 < sigma ->
  numpy_normal_logpdf RP E x mu sigma = ln (normal_pdf x mu sigma) /\ jax_normal_logpdf RP E x mu sigma = ln (normal_pdf x mu sigma).
Proof. intros E x mu sigma Hs. rewrite C04_tie_numpy_normal_logpdf, C04_tie_jax_normal_logpdf. split; exact (normal_logpdf_exact x mu sigma Hs). Qed.

Theorem C04_poisson_logpdf_exact : forall Gamma E, special_ok Gamma E -> forall n lam, 0 <= n -> 0 < lam ->
  numpy_poisson_logpdf RP E n lam = ln (Rpower lam n * exp (- lam) / Gamma (n + 1))
  /\ jax_poisson_logpdf RP E n lam = ln (Rpower lam n * exp (- lam) / Gamma (n + 1)).
Proof. intros G E [H1 [H2 [H3 _]]] n lam Hn Hl. rewrite C04_tie_numpy_poisson_logpdf, C04_tie_jax_poisson_logpdf.
  split; exact (poisson_logpdf_exact G (e_gammaln E) (e_xlogy E) H1 H2 H3 n lam Hn Hl). Qed.

Theorem C04_poisson_logpdf_pmf : forall Gamma E, special_ok Gamma E -> forall (k : nat) lam, 0 < lam ->
  numpy_poisson_logpdf RP E (INR k) lam = ln (lam ^ k / INR (fact k) * exp (- lam))
  /\ jax_poisson_logpdf RP E (INR k) lam = ln (lam ^ k / INR (fact k) * exp (- lam)).
Proof. intros G E [H1 [H2 [H3 [H4 _]]]] k lam Hl. rewrite C04_tie_numpy_poisson_logpdf, C04_tie_jax_poisson_logpdf.
  split; exact (poisson_logpdf_pmf G (e_gammaln E) (e_xlogy E) H1 H2 H3 H4 k lam Hl). Qed.

Theorem C04_poisson_zero_rate : forall Gamma E, special_ok Gamma E ->
  numpy_poisson RP E 0 0 = 1 /\ jax_poisson RP E 0 0 = 1 /\
  (forall n, 0 < n -> forall eps, 0 < eps -> exists delta, 0 < delta /\ forall lam, 0 < lam < delta ->
     0 < numpy_poisson RP E n lam < eps /\ 0 < jax_poisson RP E n lam < eps).
Proof. intros G E [H1 [H2 [H3 [H4 H5]]]]. rewrite C04_tie_numpy_poisson, C04_tie_jax_poisson.
  destruct (poisson_zero_rate G (e_gammaln E) (e_xlogy E) H2 H3 H4 H5) as [Z1 Z2]. split; [exact Z1|]. split; [exact Z1|].
  intros n Hn eps He. destruct (Z2 n Hn eps He) as [d [Hd Hl]]. exists d. split; [exact Hd|]. intros lam Hlam.
  rewrite C04_tie_numpy_poisson, C04_tie_jax_poisson. split; exact (Hl lam Hlam). Qed.

Theorem C04_nonlog_is_exp : forall E n lam, numpy_poisson RP E n lam = exp (numpy_poisson_logpdf RP E n lam) /\ jax_poisson RP E n lam = exp (jax_poisson_logpdf RP E n lam).
Proof. intros E n lam. split; reflexivity. Qed.

Theorem C04_normal_nonlog_is_exp : forall E : PExt RP, (forall x mu sigma, 0 < sigma -> e_norm_pdf E x mu sigma = normal_pdf x mu sigma) ->
  forall x mu sigma, 0 < sigma -> numpy_normal RP E x mu sigma = exp (numpy_normal_logpdf RP E x mu sigma) /\ jax_normal RP E x mu sigma = exp (jax_normal_logpdf RP E x mu sigma).
Proof. intros E H x mu sigma Hs. rewrite C04_tie_numpy_normal, C04_tie_jax_normal, C04_tie_numpy_normal_logpdf, C04_tie_jax_normal_logpdf.
  split; exact (normal_nonlog_is_exp (e_norm_pdf E) H x mu sigma Hs). Qed.

Theorem C04_Phi_sym : forall x, Phi (- x) = 1 - Phi x.
Proof. exact Phi_sym. Qed.
Theorem C04_Phi_increasing : forall x y, x < y -> Phi x < Phi y.
Proof. exact Phi_increasing. Qed.
Theorem C04_Phi_deriv : forall x, is_derive Phi x (phi x).
Proof. exact Phi_deriv. Qed.
Theorem C04_torch_cdf_formula : forall z, 1 / 2 * erfc_def (- z / sqrt 2) = Phi z.
Proof. exact torch_cdf_formula. Qed.
Theorem C04_pytorch_normal_cdf_exact : forall (E : PExt RP) x mu sigma, e_erfc E = erfc_def -> sigma <> 0 ->
  pytorch_normal_cdf RP E x mu sigma = Phi ((x - mu) / sigma).
Proof. intros E x mu sigma H Hs. rewrite (C04_tie_pytorch_normal_cdf E x mu sigma H). exact (torch_normal_cdf_exact x mu sigma Hs). Qed.

(* --- consequences of the Gaussian integral (Gauss.v, GaussProb.v): Phi is a cdf, with explicit tail bounds --- *)
Theorem C04_Phi_bounds : forall x, 0 < Phi x < 1.
Proof. exact Phi_bounds. Qed.
Theorem C04_Phi_limit_p : is_lim Phi p_infty 1.
Proof. exact Phi_limit_p. Qed.
Theorem C04_Phi_limit_m : is_lim Phi m_infty 0.
Proof. exact Phi_limit_m. Qed.
Theorem C04_phi_half_integral : is_lim (fun x => RInt phi 0 x) p_infty (1 / 2).
Proof. exact phi_half_integral. Qed.
Theorem C04_Phi_upper_tail : forall x, 0 <= x -> 1 - 2 / PI * exp (- x ^ 2 / 2) <= Phi x <= 1.
Proof. exact Phi_upper_tail. Qed.
Theorem C04_Phi_lower_tail : forall x, 0 <= x -> 0 <= Phi (- x) <= 2 / PI * exp (- x ^ 2 / 2).
Proof. exact Phi_lower_tail. Qed.
Theorem C04_erfc_bounds : forall z, 0 < erfc_def z < 2.
Proof. exact erfc_bounds. Qed.
Theorem C04_erfc_upper_tail : forall z, 0 <= z -> 0 <= erfc_def z <= 4 / PI * exp (- z ^ 2).
Proof. exact erfc_upper_tail. Qed.
Theorem C04_erfc_limit_p : is_lim erfc_def p_infty 0.
Proof. exact erfc_limit_p. Qed.
Theorem C04_pytorch_normal_cdf_bounds : forall (E : PExt RP) x mu sigma, e_erfc E = erfc_def -> sigma <> 0 ->
  0 < pytorch_normal_cdf RP E x mu sigma < 1.
Proof. intros E x mu sigma H Hs. rewrite (C04_pytorch_normal_cdf_exact E x mu sigma H Hs). exact (Phi_bounds ((x - mu) / sigma)). Qed.

Print Assumptions C04_normal_logpdf_exact.
Print Assumptions C04_poisson_logpdf_exact.
Print Assumptions C04_poisson_logpdf_pmf.
Print Assumptions C04_poisson_zero_rate.
Print Assumptions C04_nonlog_is_exp.
Print Assumptions C04_normal_nonlog_is_exp.
Print Assumptions C04_Phi_sym.
Print Assumptions C04_Phi_increasing.
Print Assumptions C04_Phi_deriv.
Print Assumptions C04_torch_cdf_formula.
Print Assumptions C04_pytorch_normal_cdf_exact.
Print Assumptions C04_Phi_bounds.
Print Assumptions C04_Phi_limit_p.
Print Assumptions C04_Phi_limit_m.
Print Assumptions C04_phi_half_integral.
Print Assumptions C04_Phi_upper_tail.
Print Assumptions C04_Phi_lower_tail.
Print Assumptions C04_erfc_bounds.
Print Assumptions C04_erfc_upper_tail.
Print Assumptions C04_erfc_limit_p.
Print Assumptions C04_pytorch_normal_cdf_bounds.
