(* C08 - property theorems only. *)
From Coq Require Import Reals List.
Require Import PV.Num PV.Asympt PV.TestStat PV.Hypotest PV.HypotestNuis PV.gen.HypotestGen PV.TieHypotest PV.gen.AsymptGen PV.TieAsympt.
Import ListNotations.

(* all 32 combinations of (is_q0, four flags): the returned items are exactly the requested extras in the
   documented order *)
Theorem C08_layout_documented_order : forall (T C : Type) (dflt : T) is_q0 tail exp expset calcf (p : pvals T) (calc : C),
  assemble T C dflt is_q0 tail exp expset calcf p calc = documented T C dflt is_q0 tail exp expset calcf p calc.
Proof. exact layout_documented_order. Qed.
Theorem C08_layout_length : forall (T C : Type) (dflt : T) is_q0 tail exp expset calcf (p : pvals T) (calc : C),
  length (assemble T C dflt is_q0 tail exp expset calcf p calc)
  = (1 + Nat.b2n tail + Nat.b2n exp + Nat.b2n expset + Nat.b2n calcf)%nat.
Proof. exact layout_length. Qed.
Theorem C08_singleton_unwrapped : forall (T C : Type) (dflt : T) is_q0 tail exp expset calcf (p : pvals T) (calc : C),
  (tail = false /\ exp = false /\ expset = false /\ calcf = false ->
     finish T C (assemble T C dflt is_q0 tail exp expset calcf p calc) = Bare (RScalar (if is_q0 then CLsb_obs T p else CLs_obs T p))) /\
  (tail = true \/ exp = true \/ expset = true \/ calcf = true ->
     finish T C (assemble T C dflt is_q0 tail exp expset calcf p calc) = Tuple (documented T C dflt is_q0 tail exp expset calcf p calc)).
Proof. exact singleton_unwrapped. Qed.

Theorem C08_refused_without_poi : forall (T C : Type) (dflt : T) make_calc fg sf ct q0 a b c d,
  hypotest T C dflt make_calc None fg sf ct q0 a b c d = inl HUnspecifiedPOI.
Proof. exact refused_without_poi. Qed.
Theorem C08_refused_fixed_poi : forall (T C : Type) (dflt : T) make_calc i fg sf ct q0 a b c d,
  nth i (or_default fg sf) false = true -> hypotest T C dflt make_calc (Some i) fg sf ct q0 a b c d = inl HInvalidModel.
Proof. exact refused_fixed_poi. Qed.
Theorem C08_accepted_layout : forall (T C : Type) (dflt : T) make_calc i fg sf ct q0 a b c d calc p,
  nth i (or_default fg sf) false = false -> make_calc ct (or_default fg sf) = Some (calc, inr p) ->
  hypotest T C dflt make_calc (Some i) fg sf ct q0 a b c d = inr (finish T C (documented T C dflt q0 a b c d p calc)).
Proof. exact accepted_layout. Qed.

Theorem C08_asimov_is_expectation : forall (N : Num) (Data Pars : Type) sqrt teststat_func fixed_poi_fit expected_data k poi_test data,
  let '(ts, sA, f, adata) := calc_teststatistic N Data Pars sqrt teststat_func fixed_poi_fit expected_data k poi_test data in
  adata = asimov_of N Data Pars fixed_poi_fit expected_data k data /\
  asimov_pars Pars f = fixed_poi_fit (match k with KQ0 => n1 N | _ => n0 N end) data /\
  (ts, sA) = teststatistic N sqrt k (fst (teststat_func k poi_test data))
                                    (fst (teststat_func k poi_test (asimov_of N Data Pars fixed_poi_fit expected_data k data))) /\
  free_fit_to_data Pars f = snd (snd (teststat_func k poi_test data)) /\
  fixed_poi_fit_to_data Pars f = fst (snd (teststat_func k poi_test data)) /\
  free_fit_to_asimov Pars f = snd (snd (teststat_func k poi_test (asimov_of N Data Pars fixed_poi_fit expected_data k data))) /\
  fixed_poi_fit_to_asimov Pars f = fst (snd (teststat_func k poi_test (asimov_of N Data Pars fixed_poi_fit expected_data k data))).
Proof. exact asimov_is_expectation. Qed.

Local Open Scope R_scope.
(* counting model n ~ Pois(mu s + b), exact fits: Asimov data, observed p-values and expected band *)
Theorem C08_hypotest_counting_analytic : forall Phi s b lo hi C, 0 < s -> lo <= hi -> 0 < lo * s + b ->
  forall k base mu n,
  known base -> 0 <= n -> 0 <= 0 * s + b -> lo <= mu <= hi -> lo <= 0 <= hi -> (k = KQ0 -> lo <= 1 <= hi) ->
  exists exp_band,
  counting_calc Phi s b lo hi C k base mu n = inr (n_asimov s b k,
     (Some (Phi (- (tstat k (q_obs s b lo hi k mu n) (q_asimov s b lo hi k mu) + sqrt (q_asimov s b lo hi k mu)))),
      Some (Phi (- tstat k (q_obs s b lo hi k mu n) (q_asimov s b lo hi k mu))),
      Some (Phi (- (tstat k (q_obs s b lo hi k mu n) (q_asimov s b lo hi k mu) + sqrt (q_asimov s b lo hi k mu)))
            / Phi (- tstat k (q_obs s b lo hi k mu n) (q_asimov s b lo hi k mu)))),
     exp_band) /\
  inr exp_band = run_exp RNum Phi sqrt k base (q_obs s b lo hi k mu n) (q_asimov s b lo hi k mu).
Proof. exact hypotest_counting_analytic. Qed.

(* bins with signal proportional to background behave as one bin with the summed counts *)
Theorem C08_multi_bin_reduction : forall r bins mu,
  Forall (fun p => 0 < fst p) bins -> 0 < mu * r + 1 -> bins <> [] ->
  let B := sumR (map fst bins) in let Nn := sumR (map snd bins) in
  nll_bins r mu bins = ((mu * (r * B) + B) - Nn * ln (mu * (r * B) + B)) + (Nn * ln B - konst bins).
Proof. exact multi_bin_reduction. Qed.

(* --- the one-nuisance counting model ("on/off"): n ~ Pois(mu s + gamma b), auxiliary m ~ Pois(gamma tau); coq/HypotestNuis.v --- *)
(* the closed-form conditional optimum (larger root of the stationarity quadratic) is the arg-min over gamma > 0 *)
Theorem C08_onoff_gamma_cond_is_argmin : forall n m s b tau : R, 0 <= n -> 0 < m -> 0 < s -> 0 < b -> 0 < tau ->
  forall mu g : R, 0 < lam1 s b mu (gamma_cond n m s b tau mu) -> 0 < g -> 0 < lam1 s b mu g ->
  nll_onoff n m s b tau mu (gamma_cond n m s b tau mu) <= nll_onoff n m s b tau mu g.
Proof. exact gamma_cond_is_argmin. Qed.
(* the rate at the conditional optimum is positive for mu >= 0, and for every mu once a count was observed *)
Theorem C08_onoff_rate_positive : forall n m s b tau : R, 0 <= n -> 0 < m -> 0 < s -> 0 < b -> 0 < tau ->
  forall mu : R, 0 <= mu \/ 0 < n -> 0 < lam1 s b mu (gamma_cond n m s b tau mu).
Proof. exact lam1_cond_pos. Qed.
(* the clamped best fit (mu_hat, gamma_cond mu_hat) is the arg-min over the box lo <= mu <= hi, gamma > 0 *)
Theorem C08_onoff_mu_hat_is_argmin : forall n m s b tau lo hi : R, 0 <= n -> 0 < m -> 0 < s -> 0 < b -> 0 < tau -> lo <= hi ->
  0 < lam1 s b (mu_hat n m s b tau lo hi) (gamma_hat n m s b tau lo hi) ->
  forall mu g : R, lo <= mu <= hi -> 0 < g -> 0 < lam1 s b mu g ->
  nll_onoff n m s b tau (mu_hat n m s b tau lo hi) (gamma_hat n m s b tau lo hi) <= nll_onoff n m s b tau mu g.
Proof. exact mu_hat_is_argmin. Qed.
(* in the interior the best fit is the familiar (n - (m/tau) b)/s, m/tau *)
Theorem C08_onoff_free_optimum : forall n m s b tau : R, 0 <= n -> 0 < m -> 0 < s -> 0 < b -> 0 < tau ->
  0 < lam1 s b (mu_free n m s b tau) (gamma_cond n m s b tau (mu_free n m s b tau)) ->
  gamma_cond n m s b tau (mu_free n m s b tau) = m / tau /\
  lam1 s b (mu_free n m s b tau) (gamma_cond n m s b tau (mu_free n m s b tau)) = n.
Proof. exact gamma_cond_at_free. Qed.
(* q, qtilde, q0 (and t, ttilde) of the transcribed test-statistic functions with exact fits = the closed form *)
Theorem C08_onoff_q_closed_form : forall n m s b tau lo hi C : R, 0 <= n -> 0 < m -> 0 < s -> 0 < b -> 0 < tau -> lo <= hi ->
  0 <= lo \/ 0 < n ->
  forall (st : tsname) (mu : R), lo <= mu <= hi -> (st = SQ0 -> lo <= 0 <= hi) ->
  value_of RNum (teststat RNum unit (ofit n m s b tau lo hi C) (ofixed n m s b tau C) (fun _ : unit => Some 0%nat) (fun _ : unit => lo) st mu tt)
  = Some (q_closed_onoff st n m s b tau lo hi mu).
Proof. exact q_closed_form_onoff. Qed.
(* the same under the weakest domain condition: the rate is positive at the conditional optimum of every POI value of the range
   (covers n = 0 with a negative lower POI bound as long as lo s + gamma_cond(lo) b > 0) *)
Theorem C08_onoff_q_closed_form_gen : forall n m s b tau lo hi C : R, 0 <= n -> 0 < m -> 0 < s -> 0 < b -> 0 < tau -> lo <= hi ->
  (forall x : R, lo <= x <= hi -> 0 < lam1 s b x (gamma_cond n m s b tau x)) ->
  forall (st : tsname) (mu : R), lo <= mu <= hi -> (st = SQ0 -> lo <= 0 <= hi) ->
  value_of RNum (teststat RNum unit (ofit n m s b tau lo hi C) (ofixed n m s b tau C) (fun _ : unit => Some 0%nat) (fun _ : unit => lo) st mu tt)
  = Some (q_closed_onoff st n m s b tau lo hi mu).
Proof. exact q_closed_form_onoff_gen. Qed.
(* the Asimov data set: expectation at the conditional fit with the POI at 0 (1 for q0) - instance of C08_asimov_is_expectation *)
Theorem C08_onoff_asimov_is_expectation : forall (s b tau : R) (k : tkind) (n m : R),
  asimov_of RNum (R * R) (list R) (onoff_fixed s b tau) (onoff_expected s b tau) k (n, m)
  = (asimov_n n m s b tau (mu0_of k), asimov_m n m s b tau (mu0_of k)).
Proof. exact onoff_asimov_is_expectation. Qed.
(* the whole chain: Asimov data, observed p-values and expected band of the asymptotic calculator on the on/off model *)
Theorem C08_hypotest_onoff_analytic : forall (Phi : R -> R) (s b tau lo hi C : R), 0 < s -> 0 < b -> 0 < tau -> lo <= hi ->
  forall (k : tkind) (base : basedist) (mu n m : R),
  known base -> 0 <= n -> 0 < m -> 0 <= lo \/ 0 < n -> lo <= mu <= hi -> lo <= 0 <= hi -> (k = KQ0 -> lo <= 1 <= hi) ->
  exists exp_band,
  onoff_calc Phi s b tau lo hi C k base mu (n, m) =
  inr (asimov_n n m s b tau (mu0_of k), asimov_m n m s b tau (mu0_of k),
       (Some (Phi (- (tstat k (q_obs_onoff s b tau lo hi k mu n m) (q_asimov_onoff s b tau lo hi k mu n m) + sqrt (q_asimov_onoff s b tau lo hi k mu n m)))),
        Some (Phi (- tstat k (q_obs_onoff s b tau lo hi k mu n m) (q_asimov_onoff s b tau lo hi k mu n m))),
        Some (Phi (- (tstat k (q_obs_onoff s b tau lo hi k mu n m) (q_asimov_onoff s b tau lo hi k mu n m) + sqrt (q_asimov_onoff s b tau lo hi k mu n m)))
              / Phi (- tstat k (q_obs_onoff s b tau lo hi k mu n m) (q_asimov_onoff s b tau lo hi k mu n m)))),
       exp_band) /\
  inr exp_band = run_exp RNum Phi sqrt k base (q_obs_onoff s b tau lo hi k mu n m) (q_asimov_onoff s b tau lo hi k mu n m).
Proof. exact hypotest_onoff_analytic. Qed.

(* --- tie to the source: the tail of pyhf.infer.hypotest, _check_hypotest_prerequisites (PV.gen.HypotestGen, harness/props/c08.py:
   extract) and the POI value of the Asimov data in AsymptoticCalculator.teststatistic (PV.gen.AsymptGen) are translated on every
   run; they ARE the transcription (Hypotest.v) the theorems above are about --- *)
Theorem C08_source_is_model_assemble : forall (T C : Type) (dflt : T) is_q0 tail exp expset calcf (p : pvals T) (calc : C),
  gen_assemble T C dflt is_q0 tail exp expset calcf p calc = assemble T C dflt is_q0 tail exp expset calcf p calc.
Proof. exact tie_assemble. Qed.
(* `tuple(l) if len(l) > 1 else l[0]` on the (never empty) sequence l = x :: t *)
Theorem C08_source_is_model_finish : forall (T C : Type) (x : ritem T C) t, gen_finish T C x t = finish T C (x :: t).
Proof. exact tie_finish. Qed.
Theorem C08_source_is_model_hypotest_tail : forall (T C : Type) (dflt : T) is_q0 tail exp expset calcf (p : pvals T) (calc : C),
  exists x t, gen_assemble T C dflt is_q0 tail exp expset calcf p calc = x :: t /\
              gen_finish T C x t = finish T C (assemble T C dflt is_q0 tail exp expset calcf p calc).
Proof. exact tie_hypotest_tail. Qed.
Theorem C08_source_is_model_is_q0 : forall ts, gen_is_q0 ts = match ts with Some KQ0 => true | _ => false end.
Proof. exact tie_is_q0. Qed.
Theorem C08_source_is_model_check_prerequisites : forall poi_index fixed_params,
  gen_check_prerequisites poi_index fixed_params = check_prerequisites poi_index fixed_params.
Proof. exact tie_check_prerequisites. Qed.
Theorem C08_source_is_model_asimov_mu : forall (N : Num) Phi sq k, gen_asimov_mu N Phi sq k = match k with KQ0 => n1 N | _ => n0 N end.
Proof. exact tie_asimov_mu. Qed.

Print Assumptions C08_layout_documented_order.
Print Assumptions C08_layout_length.
Print Assumptions C08_singleton_unwrapped.
Print Assumptions C08_refused_without_poi.
Print Assumptions C08_refused_fixed_poi.
Print Assumptions C08_accepted_layout.
Print Assumptions C08_asimov_is_expectation.
Print Assumptions C08_hypotest_counting_analytic.
Print Assumptions C08_multi_bin_reduction.
Print Assumptions C08_source_is_model_assemble.
Print Assumptions C08_source_is_model_finish.
Print Assumptions C08_source_is_model_hypotest_tail.
Print Assumptions C08_source_is_model_is_q0.
Print Assumptions C08_source_is_model_check_prerequisites.
Print Assumptions C08_source_is_model_asimov_mu.
Print Assumptions C08_onoff_gamma_cond_is_argmin.
Print Assumptions C08_onoff_rate_positive.
Print Assumptions C08_onoff_mu_hat_is_argmin.
Print Assumptions C08_onoff_free_optimum.
Print Assumptions C08_onoff_q_closed_form.
Print Assumptions C08_onoff_q_closed_form_gen.
Print Assumptions C08_onoff_asimov_is_expectation.
Print Assumptions C08_hypotest_onoff_analytic.
