(* C14 - property theorems only.  The samplers themselves are validated statistically by the harness, never proved. *)
From Coq Require Import ZArith QArith Qcanon Reals List.
Require Import PV.Num PV.UpperLimit PV.Empirical PV.gen.EmpiricalGen PV.TieEmpirical.
Import ListNotations.

Theorem C14_pvalue_is_tail_fraction : forall (N : Num) (samples : list (V N)) value,
  pvalue samples value =
  ndiv N (nofZ N (Z.of_nat (length (filter (fun s => nleb N value s) samples)))) (nofZ N (Z.of_nat (length samples))).
Proof. exact pvalue_is_tail_fraction. Qed.

Theorem C14_pvalue_range : forall (samples : list R) (value : R), samples <> [] -> (0 <= @pvalue RNum samples value <= 1)%R.
Proof. exact pvalue_range. Qed.

Theorem C14_pvalue_antitone : forall (samples : list R) (v v' : R), (v <= v')%R -> (@pvalue RNum samples v' <= @pvalue RNum samples v)%R.
Proof. exact pvalue_antitone. Qed.

Theorem C14_pvalue_outside_range : forall (samples : list R) (value : R), samples <> [] ->
  ((forall s, In s samples -> (s < value)%R) -> @pvalue RNum samples value = 0%R) /\
  ((forall s, In s samples -> (value <= s)%R) -> @pvalue RNum samples value = 1%R).
Proof. intros samples value Hn. split; [exact (pvalue_above_all samples value Hn)|exact (pvalue_below_all samples value Hn)]. Qed.

Theorem C14_pvalue_executed_is_real : forall (samples : list Qc) (v : Qc),
  q2r (@pvalue QcNum samples v) = @pvalue RNum (map q2r samples) (q2r v).
Proof. exact pvalue_q2r. Qed.

Theorem C14_sample_layout : forall (A : Type) (d : A) parts ds k p,
  is_partition parts -> map (@length A) ds = map (@length nat) parts ->
  (k < length parts)%nat -> (p < length (nth k parts []))%nat ->
  nth (nth p (nth k parts []) 0%nat) (stitch A d parts ds) d = nth p (nth k ds []) d.
Proof. exact sample_layout. Qed.

Theorem C14_split_stitch : forall (A : Type) (d : A) parts ds,
  is_partition parts -> map (@length A) ds = map (@length nat) parts -> split A d parts (stitch A d parts ds) = ds.
Proof. exact split_stitch. Qed.

Theorem C14_joint_sample_layout : forall (A : Type) (dflt : A) (main aux : list A),
  stitch A dflt [seq 0 (length main); seq (length main) (length aux)] [main; aux] = main ++ aux.
Proof. exact @joint_sample_layout. Qed.

Theorem C14_toy_hypotheses : forall (N : Num) (Pars Data : Type) fit sampler tsf ts ntoys poi_test,
  @distributions N Pars Data fit sampler tsf ts ntoys poi_test
  = (toys_of N Pars Data fit sampler tsf ts (SignalLike) ntoys poi_test, toys_of N Pars Data fit sampler tsf ts (BackgroundLike) ntoys poi_test).
Proof. exact toy_hypotheses. Qed.

Theorem C14_toy_pvalues_are_tail_fractions : forall (N : Num) (t : V N) sb b,
  let frac l := ndiv N (nofZ N (Z.of_nat (length (filter (fun s => nleb N t s) l)))) (nofZ N (Z.of_nat (length l))) in
  toy_pvalues t sb b = (frac sb, frac b, ndiv N (frac sb) (frac b)).
Proof. exact toy_pvalues_are_tail_fractions. Qed.

(* --- tie to the source: EmpiricalDistribution.pvalue / expected_value and ToyCalculator.pvalues are translated to
   PV.gen.EmpiricalGen on every run (harness/props/c14.py:extract); they ARE the transcription the theorems above are about --- *)
Theorem C14_source_is_model_pvalue : forall (N : Num) Phi percentile (samples : list (V N)) value,
  gen_pvalue N Phi percentile samples value = pvalue samples value.
Proof. exact tie_pvalue. Qed.
(* expected_value: the percentile of self.samples at normal_cdf(nsigma) * 100, linear interpolation *)
Theorem C14_source_is_model_expected_value : forall (N : Num) Phi (samples : list (V N)) nsigma,
  gen_expected_value N Phi (@percentile_linear N) samples nsigma = expected_value samples (nmul N (Phi nsigma) (nofZ N 100)).
Proof. exact tie_expected_value. Qed.
Theorem C14_source_is_model_expected_value_args : forall (N : Num) Phi percentile (samples : list (V N)) nsigma,
  gen_expected_value N Phi percentile samples nsigma = percentile samples (nmul N (Phi nsigma) (nofZ N 100)).
Proof. exact tie_expected_value_args. Qed.
Theorem C14_source_is_model_toy_pvalues : forall (N : Num) Phi percentile (teststat : V N) sb b,
  gen_toy_pvalues N Phi percentile teststat sb b = toy_pvalues teststat sb b.
Proof. exact tie_toy_pvalues. Qed.

(* ToyCalculator.distributions, translated on every run: the signal-like toys are drawn (first sampling call) from the model at the conditional
   fit at the tested POI, the background-like toys (second sampling call) at the conditional fit at 0 (1 for q0); BOTH fits see the observed data
   and the caller's init / bounds / fixed; every toy statistic is evaluated at the tested POI with the same init / bounds / fixed *)
Theorem C14_source_is_model_distributions : forall (N : Num) (Pars Data Pdf Init Bounds Fixed : Type)
    (fit : V N -> Data -> Pdf -> option Init -> option Bounds -> option Fixed -> Pars) (sample : nat -> Pdf -> Pars -> nat -> list Data)
    (tsf : test_stat -> V N -> Data -> Pdf -> Init -> Bounds -> Fixed -> V N) data pdf init bounds fixed track ts ntoys poi_test,
  gen_distributions N Pars Data Pdf Init Bounds Fixed fit sample tsf data pdf init bounds fixed track ts ntoys poi_test
  = distributions (fun poi => fit poi data pdf (Some init) (Some bounds) (Some fixed)) (fun k pars n => sample k pdf pars n)
                  (fun ts poi d => tsf ts poi d pdf init bounds fixed) ts ntoys poi_test.
Proof. exact tie_distributions. Qed.

Print Assumptions C14_pvalue_is_tail_fraction.
Print Assumptions C14_pvalue_range.
Print Assumptions C14_pvalue_antitone.
Print Assumptions C14_pvalue_outside_range.
Print Assumptions C14_pvalue_executed_is_real.
Print Assumptions C14_sample_layout.
Print Assumptions C14_split_stitch.
Print Assumptions C14_joint_sample_layout.
Print Assumptions C14_toy_hypotheses.
Print Assumptions C14_toy_pvalues_are_tail_fractions.
Print Assumptions C14_source_is_model_pvalue.
Print Assumptions C14_source_is_model_expected_value.
Print Assumptions C14_source_is_model_expected_value_args.
Print Assumptions C14_source_is_model_toy_pvalues.
Print Assumptions C14_source_is_model_distributions.
