(* C03 - property theorems only.  slow_code* / fast_code4_A_inverse / *_alpha0_default come from
   gen/InterpGen.v, regenerated from /repo/src/pyhf/interpolators on every run. *)
From Coq Require Import ZArith Reals List.
From Coquelicot Require Import Coquelicot.
Require Import PV.Num PV.TNum PV.InterpFast PV.InterpGeneric PV.InterpThms PV.gen.InterpGen.
Import ListNotations.
Local Open Scope R_scope.

(* tie to the source: the matrix typed into the vectorised code 4 is the hand model's (and, through
   fast_eq_slow_4 / code4_core, the one typed into the scalar reference); alpha0 defaults to 1 in both *)
Lemma C03_tie_A_inverse : forall T a0, fast_code4_A_inverse T a0 = A_inverse T a0.
Proof. reflexivity. Qed.
Lemma C03_tie_alpha0_default : slow_code4_alpha0_default = 1%Z /\ fast_code4_alpha0_default = 1%Z.
Proof. split; reflexivity. Qed.

(* ---- anchors: neutral at 0, up variation at +1, down variation at -1 ---- *)
Theorem C03_code0_anchors : forall lo nom hi,
  slow_code0 RT lo nom hi 0 = 0 /\ slow_code0 RT lo nom hi 1 = hi - nom /\ slow_code0 RT lo nom hi (-1) = lo - nom.
Proof. exact (fun lo nom hi => conj (code0_at_0 lo nom hi) (conj (code0_at_p1 lo nom hi) (code0_at_m1 lo nom hi))). Qed.
Theorem C03_code1_anchors : forall lo nom hi : R, 0 < lo -> 0 < nom -> 0 < hi ->
  slow_code1 RT lo nom hi 0 = 1 /\ slow_code1 RT lo nom hi 1 = hi / nom /\ slow_code1 RT lo nom hi (-1) = lo / nom.
Proof. exact (fun lo nom hi Hlo Hnom Hhi => conj (code1_at_0 lo nom hi Hlo Hnom Hhi)
                (conj (code1_at_p1 lo nom hi Hlo Hnom Hhi) (code1_at_m1 lo nom hi Hlo Hnom))). Qed.
Theorem C03_code2_anchors : forall lo nom hi,
  slow_code2 RT lo nom hi 0 = 0 /\ slow_code2 RT lo nom hi 1 = hi - nom /\ slow_code2 RT lo nom hi (-1) = lo - nom.
Proof. exact (fun lo nom hi => conj (code2_at_0 lo nom hi) (conj (code2_at_p1 lo nom hi) (code2_at_m1 lo nom hi))). Qed.
(* code 4 reproduces the +-1 anchors when the polynomial core does not extend beyond them (alpha0 <= 1) *)
Theorem C03_code4_anchors : forall a0 lo nom hi : R, 0 < a0 -> 0 < lo -> 0 < nom -> 0 < hi ->
  slow_code4 RT a0 lo nom hi 0 = 1 /\
  (a0 <= 1 -> slow_code4 RT a0 lo nom hi 1 = hi / nom /\ slow_code4 RT a0 lo nom hi (-1) = lo / nom).
Proof. exact (fun a0 lo nom hi Ha Hlo Hnom Hhi => conj (code4_at_0 a0 lo nom hi Ha Hlo Hnom Hhi)
                (fun H => conj (code4_at_p1 a0 lo nom hi Ha Hnom Hhi H) (code4_at_m1 a0 lo nom hi Ha Hlo Hnom H))). Qed.
(* with the constructor default of alpha0 as extracted from the source *)
Theorem C03_code4_default_anchors : forall lo nom hi : R, 0 < lo -> 0 < nom -> 0 < hi ->
  let a0 := IZR slow_code4_alpha0_default in
  slow_code4 RT a0 lo nom hi 0 = 1 /\ slow_code4 RT a0 lo nom hi 1 = hi / nom /\ slow_code4 RT a0 lo nom hi (-1) = lo / nom.
Proof.
  rewrite (proj1 C03_tie_alpha0_default). intros lo nom hi Hlo Hnom Hhi a0.
  repeat split; [apply code4_at_0 | apply code4_at_p1 | apply code4_at_m1]; auto; unfold a0;
    first [exact Rlt_0_1 | apply Rle_refl].
Qed.
Theorem C03_code4p_anchors : forall lo nom hi,
  slow_code4p RT lo nom hi 0 = 0 /\ slow_code4p RT lo nom hi 1 = hi - nom /\ slow_code4p RT lo nom hi (-1) = lo - nom.
Proof. exact (fun lo nom hi => conj (code4p_at_0 lo nom hi) (conj (code4p_at_p1 lo nom hi) (code4p_at_m1 lo nom hi))). Qed.

(* ---- continuity at every alpha ---- *)
Theorem C03_code0_continuous : forall lo nom hi a, continuous (slow_code0 RT lo nom hi) a.
Proof. exact code0_continuous. Qed.
Theorem C03_code1_continuous : forall lo nom hi, 0 < lo -> 0 < nom -> 0 < hi -> forall a, continuous (slow_code1 RT lo nom hi) a.
Proof. exact code1_continuous. Qed.
Theorem C03_code2_continuous : forall lo nom hi a, continuous (slow_code2 RT lo nom hi) a.
Proof. exact code2_continuous. Qed.
Theorem C03_code4_continuous : forall a0 lo nom hi, 0 < a0 -> 0 < lo -> 0 < nom -> 0 < hi ->
  forall a, continuous (slow_code4 RT a0 lo nom hi) a.
Proof. exact code4_continuous. Qed.
Theorem C03_code4p_continuous : forall lo nom hi a, continuous (slow_code4p RT lo nom hi) a.
Proof. exact code4p_continuous. Qed.

(* ---- first and second derivative exist and are continuous at every alpha (codes 4, 4p); code 2 is C1 ---- *)
Theorem C03_code4_C1 : forall a0 lo nom hi, 0 < a0 -> 0 < lo -> 0 < nom -> 0 < hi ->
  forall a, is_derive (slow_code4 RT a0 lo nom hi) a (code4_d1 a0 lo nom hi a) /\ continuous (code4_d1 a0 lo nom hi) a.
Proof. exact code4_C1. Qed.
Theorem C03_code4_C2 : forall a0 lo nom hi, 0 < a0 ->
  forall a, is_derive (code4_d1 a0 lo nom hi) a (code4_d2 a0 lo nom hi a) /\ continuous (code4_d2 a0 lo nom hi) a.
Proof. exact code4_C2. Qed.
Theorem C03_code4_twice_differentiable : forall a0 lo nom hi, 0 < a0 -> 0 < lo -> 0 < nom -> 0 < hi ->
  exists d1 d2 : R -> R, (forall a, is_derive (slow_code4 RT a0 lo nom hi) a (d1 a)) /\ (forall a, is_derive d1 a (d2 a))
                         /\ (forall a, continuous d2 a).
Proof. exact code4_twice_differentiable. Qed.
Theorem C03_code4p_C1 : forall lo nom hi a,
  is_derive (slow_code4p RT lo nom hi) a (code4p_d1 lo nom hi a) /\ continuous (code4p_d1 lo nom hi) a.
Proof. exact code4p_C1. Qed.
Theorem C03_code4p_C2 : forall lo nom hi a,
  is_derive (code4p_d1 lo nom hi) a (code4p_d2 lo nom hi a) /\ continuous (code4p_d2 lo nom hi) a.
Proof. exact code4p_C2. Qed.
Theorem C03_code4p_twice_differentiable : forall lo nom hi,
  exists d1 d2 : R -> R, (forall a, is_derive (slow_code4p RT lo nom hi) a (d1 a)) /\ (forall a, is_derive d1 a (d2 a))
                         /\ (forall a, continuous d2 a).
Proof. exact code4p_twice_differentiable. Qed.
Theorem C03_code2_C1 : forall lo nom hi a,
  is_derive (slow_code2 RT lo nom hi) a (code2_d1 lo nom hi a) /\ continuous (code2_d1 lo nom hi) a.
Proof. exact code2_C1. Qed.

(* ---- code 4: the typed-in matrix is the inverse, hence the six matching conditions, for every alpha0 <> 0 ---- *)
Theorem C03_A_inverse_correct : forall a0 : R, a0 <> 0 ->
  matmul (A_matrix a0) (fast_code4_A_inverse RT a0) = ident6 /\ matmul (fast_code4_A_inverse RT a0) (A_matrix a0) = ident6.
Proof. intros a0 H. rewrite C03_tie_A_inverse. exact (A_inverse_correct a0 H). Qed.
Theorem C03_code4_conditions : forall a0 Eu Ed Lu Ld : R, a0 <> 0 ->
  let c := c4 a0 Eu Ed Lu Ld in
  poly6 c a0 = Eu /\ poly6 c (- a0) = Ed /\ dpoly6 c a0 = Lu * Eu /\ dpoly6 c (- a0) = - Ld * Ed /\
  ddpoly6 c a0 = Lu ^ 2 * Eu /\ ddpoly6 c (- a0) = Ld ^ 2 * Ed.
Proof. exact code4_conditions. Qed.

(* ---- extrapolation ---- *)
Theorem C03_code0_beyond : forall lo nom hi a,
  (1 <= a -> slow_code0 RT lo nom hi a = (hi - nom) + (a - 1) * (hi - nom)) /\
  (a <= -1 -> slow_code0 RT lo nom hi a = (lo - nom) + (a + 1) * (nom - lo)).
Proof. exact code0_beyond. Qed.
Theorem C03_code1_beyond : forall lo nom hi, 0 < lo -> 0 < nom -> 0 < hi -> forall a,
  (1 <= a -> slow_code1 RT lo nom hi a = Rpower (hi / nom) a) /\ (a <= -1 -> slow_code1 RT lo nom hi a = Rpower (lo / nom) (- a)).
Proof. exact code1_beyond. Qed.
Theorem C03_code2_beyond : forall lo nom hi a,
  (1 <= a -> slow_code2 RT lo nom hi a = (hi - nom) + (a - 1) * ((hi - lo) / 2 + 2 * ((hi + lo) / 2 - nom))) /\
  (a <= -1 -> slow_code2 RT lo nom hi a = (lo - nom) + (a + 1) * ((hi - lo) / 2 - 2 * ((hi + lo) / 2 - nom))).
Proof. exact code2_beyond. Qed.
Theorem C03_code2_slopes : forall lo nom hi,
  code2_d1 lo nom hi 1 = (hi - lo) / 2 + 2 * ((hi + lo) / 2 - nom) /\ code2_d1 lo nom hi (-1) = (hi - lo) / 2 - 2 * ((hi + lo) / 2 - nom).
Proof. exact code2_slopes. Qed.
Theorem C03_code4_beyond : forall a0 lo nom hi, 0 < a0 -> 0 < lo -> 0 < nom -> 0 < hi -> forall a,
  (a0 <= a -> slow_code4 RT a0 lo nom hi a = Rpower (hi / nom) a) /\ (a <= - a0 -> slow_code4 RT a0 lo nom hi a = Rpower (lo / nom) (- a)).
Proof. exact code4_beyond. Qed.
Theorem C03_code4p_beyond : forall lo nom hi a,
  (1 <= a -> slow_code4p RT lo nom hi a = (hi - nom) + (a - 1) * (hi - nom)) /\
  (a <= -1 -> slow_code4p RT lo nom hi a = (lo - nom) + (a + 1) * (nom - lo)).
Proof. exact code4p_beyond. Qed.

(* ---- vectorised = scalar reference, for every number structure with the laws (Qc executed, R analysed) ---- *)
Theorem C03_fast_eq_slow_0 : forall T, tnum_laws T -> forall lo nom hi alpha, fast_code0 T lo nom hi alpha = slow_code0 T lo nom hi alpha.
Proof. exact fast_eq_slow_0. Qed.
Theorem C03_fast_eq_slow_1 : forall T, tnum_laws T -> forall lo nom hi alpha, fast_code1 T lo nom hi alpha = slow_code1 T lo nom hi alpha.
Proof. exact fast_eq_slow_1. Qed.
Theorem C03_fast_eq_slow_2 : forall T, tnum_laws T -> forall lo nom hi alpha, fast_code2 T lo nom hi alpha = slow_code2 T lo nom hi alpha.
Proof. exact fast_eq_slow_2. Qed.
Theorem C03_fast_eq_slow_4 : forall T, tnum_laws T -> forall alpha0 lo nom hi alpha, nltb T (n0 T) alpha0 = true ->
  fast_code4 T alpha0 lo nom hi alpha = slow_code4 T alpha0 lo nom hi alpha.
Proof. exact fast_eq_slow_4. Qed.
Theorem C03_fast_eq_slow_4p : forall T, tnum_laws T -> forall lo nom hi alpha, fast_code4p T lo nom hi alpha = slow_code4p T lo nom hi alpha.
Proof. exact fast_eq_slow_4p. Qed.
Theorem C03_laws_hold : tnum_laws QcT /\ tnum_laws RT.
Proof. exact (conj QcT_laws RT_laws). Qed.

(* ---- history: the last call of any sequence of calls / backend changes equals the stateless function ---- *)
Theorem C03_call_history_independent : forall T cell dup ddn hs evs alphas, rect T alphas -> length alphas = length hs ->
  snd (call T cell dup ddn hs (run T cell dup ddn hs evs) alphas) = stateless T cell dup ddn hs alphas.
Proof. exact call_history_independent. Qed.
Theorem C03_history_0 : forall T, tnum_laws T -> forall hs evs alphas, rect T alphas -> length alphas = length hs ->
  snd (call T (fast0_cell T) (no_base T) (no_base T) hs (run T (fast0_cell T) (no_base T) (no_base T) hs evs) alphas)
  = slow_tensor T (slow_code0 T) hs alphas.
Proof. exact history_0. Qed.
Theorem C03_history_1 : forall T, tnum_laws T -> forall hs evs alphas, rect T alphas -> length alphas = length hs ->
  snd (call T (fast1_cell T) (deltas_up_mul T) (deltas_dn_mul T) hs (run T (fast1_cell T) (deltas_up_mul T) (deltas_dn_mul T) hs evs) alphas)
  = slow_tensor T (slow_code1 T) hs alphas.
Proof. exact history_1. Qed.
Theorem C03_history_2 : forall T, tnum_laws T -> forall hs evs alphas, rect T alphas -> length alphas = length hs ->
  snd (call T (fast2_cell T) (no_base T) (no_base T) hs (run T (fast2_cell T) (no_base T) (no_base T) hs evs) alphas)
  = slow_tensor T (slow_code2 T) hs alphas.
Proof. exact history_2. Qed.
Theorem C03_history_4 : forall T, tnum_laws T -> forall hs evs alphas, rect T alphas -> length alphas = length hs ->
  forall alpha0, nltb T (n0 T) alpha0 = true ->
  snd (call T (fast4_cell T alpha0) (deltas_up_mul T) (deltas_dn_mul T) hs
            (run T (fast4_cell T alpha0) (deltas_up_mul T) (deltas_dn_mul T) hs evs) alphas)
  = slow_tensor T (slow_code4 T alpha0) hs alphas.
Proof. exact history_4. Qed.
Theorem C03_history_4p : forall T, tnum_laws T -> forall hs evs alphas, rect T alphas -> length alphas = length hs ->
  snd (call T (fast4p_cell T) (no_base T) (no_base T) hs (run T (fast4p_cell T) (no_base T) (no_base T) hs evs) alphas)
  = slow_tensor T (slow_code4p T) hs alphas.
Proof. exact history_4p. Qed.

Theorem C03_cache_invariant : forall T cell dup ddn hs evs, Inv T dup ddn hs (run T cell dup ddn hs evs).
Proof. exact Inv_run. Qed.

Print Assumptions C03_code0_anchors.
Print Assumptions C03_code1_anchors.
Print Assumptions C03_code2_anchors.
Print Assumptions C03_code4_anchors.
Print Assumptions C03_code4_default_anchors.
Print Assumptions C03_code4p_anchors.
Print Assumptions C03_code0_continuous.
Print Assumptions C03_code1_continuous.
Print Assumptions C03_code2_continuous.
Print Assumptions C03_code4_continuous.
Print Assumptions C03_code4p_continuous.
Print Assumptions C03_code4_C1.
Print Assumptions C03_code4_C2.
Print Assumptions C03_code4_twice_differentiable.
Print Assumptions C03_code4p_C1.
Print Assumptions C03_code4p_C2.
Print Assumptions C03_code4p_twice_differentiable.
Print Assumptions C03_code2_C1.
Print Assumptions C03_A_inverse_correct.
Print Assumptions C03_code4_conditions.
Print Assumptions C03_code0_beyond.
Print Assumptions C03_code1_beyond.
Print Assumptions C03_code2_beyond.
Print Assumptions C03_code2_slopes.
Print Assumptions C03_code4_beyond.
Print Assumptions C03_code4p_beyond.
Print Assumptions C03_fast_eq_slow_0.
Print Assumptions C03_fast_eq_slow_1.
Print Assumptions C03_fast_eq_slow_2.
Print Assumptions C03_fast_eq_slow_4.
Print Assumptions C03_fast_eq_slow_4p.
Print Assumptions C03_laws_hold.
Print Assumptions C03_call_history_independent.
Print Assumptions C03_history_0.
Print Assumptions C03_history_1.
Print Assumptions C03_history_2.
Print Assumptions C03_history_4.
Print Assumptions C03_history_4p.
Print Assumptions C03_cache_invariant.
