(* C06 - property theorems only.  `teststat` is the transcription of pyhf.infer.test_statistics with the two
   fits as arbitrary functions; `ratio mu e` is the raw difference of the two fitted 2*NLL values. *)
From Coq Require Import Reals List.
Require Import PV.Num PV.TestStat PV.gen.TestStatGen PV.TieTestStat.
Import ListNotations.
Local Open Scope R_scope.

Theorem C06_value_cases : forall Env fit fixed_poi_fit poi_index poi_lower (e : Env) i, poi_index e = Some i ->
  forall s mu, value_of RNum (teststat RNum Env fit fixed_poi_fit poi_index poi_lower s mu e) = Some (match s with
    | ST | STtilde => Rmax 0 (ratio Env fit fixed_poi_fit mu e)
    | SQ | SQtilde => if Rlt_dec mu (poi_of RNum Env poi_index e (fst (fit e))) then 0 else Rmax 0 (ratio Env fit fixed_poi_fit mu e)
    | SQ0 => if Rlt_dec (poi_of RNum Env poi_index e (fst (fit e))) 0 then 0 else Rmax 0 (ratio Env fit fixed_poi_fit 0 e)
    end).
Proof. exact value_cases. Qed.

Theorem C06_teststat_nonneg : forall Env fit fixed_poi_fit poi_index poi_lower (e : Env) i, poi_index e = Some i ->
  forall s mu, exists v, value_of RNum (teststat RNum Env fit fixed_poi_fit poi_index poi_lower s mu e) = Some v /\ 0 <= v.
Proof. exact teststat_nonneg. Qed.

Theorem C06_pars_are_the_fits : forall (N : Num) Env fit fixed_poi_fit poi_index poi_lower s mu (e : Env) i, poi_index e = Some i ->
  pars_of N (teststat N Env fit fixed_poi_fit poi_index poi_lower s mu e)
  = Some (fst (fixed_poi_fit (match s with SQ0 => n0 N | _ => mu end) e), fst (fit e)).
Proof. exact pars_are_the_fits. Qed.

Theorem C06_qmu_zero_above : forall Env fit fixed_poi_fit poi_index poi_lower (e : Env) i, poi_index e = Some i ->
  forall s mu, s = SQ \/ s = SQtilde ->
  (mu < poi_of RNum Env poi_index e (fst (fit e)) ->
     value_of RNum (teststat RNum Env fit fixed_poi_fit poi_index poi_lower s mu e) = Some 0) /\
  (poi_of RNum Env poi_index e (fst (fit e)) <= mu ->
     value_of RNum (teststat RNum Env fit fixed_poi_fit poi_index poi_lower s mu e) = Some (Rmax 0 (ratio Env fit fixed_poi_fit mu e))).
Proof. exact qmu_zero_above. Qed.

Theorem C06_q0_zero_below : forall Env fit fixed_poi_fit poi_index poi_lower (e : Env) i, poi_index e = Some i ->
  forall mu,
  (poi_of RNum Env poi_index e (fst (fit e)) < 0 ->
     value_of RNum (teststat RNum Env fit fixed_poi_fit poi_index poi_lower SQ0 mu e) = Some 0) /\
  (0 <= poi_of RNum Env poi_index e (fst (fit e)) ->
     value_of RNum (teststat RNum Env fit fixed_poi_fit poi_index poi_lower SQ0 mu e) = Some (Rmax 0 (ratio Env fit fixed_poi_fit 0 e))).
Proof. exact q0_zero_below. Qed.

Theorem C06_q0_tests_zero : forall Env fit fixed_poi_fit poi_index poi_lower (e : Env) i, poi_index e = Some i ->
  forall mu,
  value_of RNum (teststat RNum Env fit fixed_poi_fit poi_index poi_lower SQ0 mu e)
  = value_of RNum (teststat RNum Env fit fixed_poi_fit poi_index poi_lower SQ0 0 e) /\
  pars_of RNum (teststat RNum Env fit fixed_poi_fit poi_index poi_lower SQ0 mu e) = Some (fst (fixed_poi_fit 0 e), fst (fit e)).
Proof. exact q0_tests_zero. Qed.

Theorem C06_tmu_no_zeroing : forall Env fit fixed_poi_fit poi_index poi_lower (e : Env) i, poi_index e = Some i ->
  forall s mu, s = ST \/ s = STtilde ->
  value_of RNum (teststat RNum Env fit fixed_poi_fit poi_index poi_lower s mu e) = Some (Rmax 0 (ratio Env fit fixed_poi_fit mu e)).
Proof. exact tmu_no_zeroing. Qed.

Theorem C06_exact_fits_need_no_clip : forall Env fit fixed_poi_fit (e : Env) (obj : list R -> R) (feasible : list R -> Prop),
  (forall p, feasible p -> snd (fit e) <= obj p) ->
  (forall mu, feasible (fst (fixed_poi_fit mu e))) ->
  (forall mu, snd (fixed_poi_fit mu e) = obj (fst (fixed_poi_fit mu e))) ->
  forall mu, 0 <= ratio Env fit fixed_poi_fit mu e /\ Rmax 0 (ratio Env fit fixed_poi_fit mu e) = ratio Env fit fixed_poi_fit mu e.
Proof. exact exact_fits_need_no_clip. Qed.

Theorem C06_zero_at_best_fit : forall Env fit fixed_poi_fit poi_index poi_lower (e : Env) i, poi_index e = Some i ->
  forall s mu, s <> SQ0 -> snd (fixed_poi_fit mu e) = snd (fit e) ->
  value_of RNum (teststat RNum Env fit fixed_poi_fit poi_index poi_lower s mu e) = Some 0.
Proof. exact zero_at_best_fit. Qed.

Theorem C06_no_poi_refused : forall (N : Num) Env fit fixed_poi_fit poi_index poi_lower s mu (e : Env),
  poi_index e = None -> teststat N Env fit fixed_poi_fit poi_index poi_lower s mu e = inl EUnspecifiedPOI.
Proof. exact no_poi_refused. Qed.

(* one-bin counting model n ~ Pois(mu s + b), POI range [lo, hi] *)
Theorem C06_counting_argmin : forall n s b lo hi C, 0 <= n -> 0 < s -> lo <= hi -> 0 < lo * s + b ->
  forall mu, lo <= mu <= hi -> tnll n s b C (muhat_c n s b lo hi) <= tnll n s b C mu.
Proof. exact muhat_c_is_argmin. Qed.

Theorem C06_q_closed_form_counting : forall n s b lo hi C, 0 <= n -> 0 < s -> lo <= hi -> 0 < lo * s + b ->
  forall st mu, lo <= mu <= hi -> (st = SQ0 -> lo <= 0 <= hi) ->
  value_of RNum (teststat RNum unit (cfit n s b lo hi C) (cfixed n s b C) (fun _ => Some 0%nat) (fun _ => lo) st mu tt)
  = Some (match st with
    | ST | STtilde => t_closed n s b lo hi mu
    | SQ | SQtilde => if Rlt_dec mu (muhat_c n s b lo hi) then 0 else t_closed n s b lo hi mu
    | SQ0 => if Rlt_dec (muhat_c n s b lo hi) 0 then 0 else t_closed n s b lo hi 0
    end).
Proof. exact q_closed_form_counting. Qed.

Theorem C06_q_zero_at_best_fit_counting : forall n s b lo hi C, 0 <= n -> 0 < s -> lo <= hi -> 0 < lo * s + b ->
  forall st, st <> SQ0 ->
  value_of RNum (teststat RNum unit (cfit n s b lo hi C) (cfixed n s b C) (fun _ => Some 0%nat) (fun _ => lo) st (muhat_c n s b lo hi) tt) = Some 0.
Proof. exact q_zero_at_best_fit_counting. Qed.

(* --- tie to the source: pyhf/infer/test_statistics.py is translated to PV.gen.TestStatGen on every run (harness/props/c06.py:
   extract); the translated functions ARE the transcription the theorems above are about.  gen_f is f(.., return_fitted_pars=True),
   gen_f_value is f(.., return_fitted_pars=False). --- *)
Theorem C06_source_is_model_tmu_like : forall (N : Num) Env fit fixed_poi_fit poi_index poi_lower mu (e : Env),
  gen_tmu_like N Env fit fixed_poi_fit poi_index poi_lower mu e = tmu_like N Env fit fixed_poi_fit mu e.
Proof. exact tie_tmu_like. Qed.
Theorem C06_source_is_model_qmu_like : forall (N : Num) Env fit fixed_poi_fit poi_index poi_lower mu (e : Env),
  gen_qmu_like N Env fit fixed_poi_fit poi_index poi_lower mu e = qmu_like N Env fit fixed_poi_fit poi_index mu e.
Proof. exact tie_qmu_like. Qed.
Theorem C06_source_is_model_qmu : forall (N : Num) Env fit fixed_poi_fit poi_index poi_lower mu (e : Env),
  gen_qmu N Env fit fixed_poi_fit poi_index poi_lower mu e = qmu N Env fit fixed_poi_fit poi_index poi_lower mu e.
Proof. exact tie_qmu. Qed.
Theorem C06_source_is_model_qmu_tilde : forall (N : Num) Env fit fixed_poi_fit poi_index poi_lower mu (e : Env),
  gen_qmu_tilde N Env fit fixed_poi_fit poi_index poi_lower mu e = qmu_tilde N Env fit fixed_poi_fit poi_index poi_lower mu e.
Proof. exact tie_qmu_tilde. Qed.
Theorem C06_source_is_model_tmu : forall (N : Num) Env fit fixed_poi_fit poi_index poi_lower mu (e : Env),
  gen_tmu N Env fit fixed_poi_fit poi_index poi_lower mu e = tmu N Env fit fixed_poi_fit poi_index poi_lower mu e.
Proof. exact tie_tmu. Qed.
Theorem C06_source_is_model_tmu_tilde : forall (N : Num) Env fit fixed_poi_fit poi_index poi_lower mu (e : Env),
  gen_tmu_tilde N Env fit fixed_poi_fit poi_index poi_lower mu e = tmu_tilde N Env fit fixed_poi_fit poi_index poi_lower mu e.
Proof. exact tie_tmu_tilde. Qed.
(* q0: the source sets mu = 0.0 only `if mu != 0.0`; equal to the model's unconditional mu := 0 when `==` of the number
   instance decides equality, which holds for the executed rationals and for the reals *)
Theorem C06_source_is_model_q0 : forall (N : Num) Env fit fixed_poi_fit poi_index poi_lower, neqb_sound N -> forall mu (e : Env),
  gen_q0 N Env fit fixed_poi_fit poi_index poi_lower mu e = q0 N Env fit fixed_poi_fit poi_index mu e.
Proof. exact tie_q0. Qed.
Theorem C06_source_is_model_q0_rationals : forall Env fit fixed_poi_fit poi_index poi_lower mu (e : Env),
  gen_q0 QcNum Env fit fixed_poi_fit poi_index poi_lower mu e = q0 QcNum Env fit fixed_poi_fit poi_index mu e.
Proof. exact tie_q0_Qc. Qed.
Theorem C06_source_is_model_q0_reals : forall Env fit fixed_poi_fit poi_index poi_lower mu (e : Env),
  gen_q0 RNum Env fit fixed_poi_fit poi_index poi_lower mu e = q0 RNum Env fit fixed_poi_fit poi_index mu e.
Proof. exact tie_q0_R. Qed.
(* the calls without return_fitted_pars return the first component, with the same exception and warnings *)
Theorem C06_source_is_model_value_only : forall (N : Num) Env fit fixed_poi_fit poi_index poi_lower mu (e : Env),
  gen_tmu_like_value N Env fit fixed_poi_fit poi_index poi_lower mu e = fst (tmu_like N Env fit fixed_poi_fit mu e) /\
  gen_qmu_like_value N Env fit fixed_poi_fit poi_index poi_lower mu e = fst (qmu_like N Env fit fixed_poi_fit poi_index mu e) /\
  gen_qmu_value N Env fit fixed_poi_fit poi_index poi_lower mu e = value_only N (qmu N Env fit fixed_poi_fit poi_index poi_lower mu e) /\
  gen_qmu_tilde_value N Env fit fixed_poi_fit poi_index poi_lower mu e = value_only N (qmu_tilde N Env fit fixed_poi_fit poi_index poi_lower mu e) /\
  gen_tmu_value N Env fit fixed_poi_fit poi_index poi_lower mu e = value_only N (tmu N Env fit fixed_poi_fit poi_index poi_lower mu e) /\
  gen_tmu_tilde_value N Env fit fixed_poi_fit poi_index poi_lower mu e = value_only N (tmu_tilde N Env fit fixed_poi_fit poi_index poi_lower mu e) /\
  (neqb_sound N -> gen_q0_value N Env fit fixed_poi_fit poi_index poi_lower mu e = value_only N (q0 N Env fit fixed_poi_fit poi_index mu e)).
Proof. exact tie_value_only_all. Qed.

(* both fits behind every statistic are run on the caller's problem: the statistic at e depends on the fits through their results at e only *)
Theorem C06_fits_run_on_callers_problem : forall (N : Num) Env (fit fit' : Env -> list (V N) * V N) (fixed fixed' : V N -> Env -> list (V N) * V N)
  poi_index poi_lower s mu (e : Env), fit e = fit' e -> (forall m, fixed m e = fixed' m e) ->
  teststat N Env fit fixed poi_index poi_lower s mu e = teststat N Env fit' fixed' poi_index poi_lower s mu e.
Proof. exact fits_consulted_at_callers_env. Qed.

Print Assumptions C06_value_cases.
Print Assumptions C06_teststat_nonneg.
Print Assumptions C06_pars_are_the_fits.
Print Assumptions C06_qmu_zero_above.
Print Assumptions C06_q0_zero_below.
Print Assumptions C06_q0_tests_zero.
Print Assumptions C06_tmu_no_zeroing.
Print Assumptions C06_exact_fits_need_no_clip.
Print Assumptions C06_zero_at_best_fit.
Print Assumptions C06_no_poi_refused.
Print Assumptions C06_counting_argmin.
Print Assumptions C06_q_closed_form_counting.
Print Assumptions C06_q_zero_at_best_fit_counting.
Print Assumptions C06_source_is_model_tmu_like.
Print Assumptions C06_source_is_model_qmu_like.
Print Assumptions C06_source_is_model_qmu.
Print Assumptions C06_source_is_model_qmu_tilde.
Print Assumptions C06_source_is_model_tmu.
Print Assumptions C06_source_is_model_tmu_tilde.
Print Assumptions C06_source_is_model_q0.
Print Assumptions C06_source_is_model_q0_rationals.
Print Assumptions C06_source_is_model_q0_reals.
Print Assumptions C06_source_is_model_value_only.
Print Assumptions C06_fits_run_on_callers_problem.
