(* C20 - property theorems only: what every ACCEPTED specification satisfies (contrapositive of each refusal class). *)
From Coq Require Import String List Arith.
Require Import PV.Num PV.Sort PV.Spec PV.Impl PV.Wf.
Import ListNotations.

Theorem C20_accepted_distinct_channels : forall N (sp : spec N) m, build N sp = Ok m -> NoDup (map c_name (channels sp)).
Proof. exact accepted_distinct_channels. Qed.
Theorem C20_accepted_distinct_samples : forall N (sp : spec N) m c, build N sp = Ok m -> In c (channels sp) -> NoDup (map s_name (c_samples c)).
Proof. exact accepted_distinct_samples. Qed.
Theorem C20_accepted_distinct_modifiers : forall N (sp : spec N) m c s,
  build N sp = Ok m -> In c (channels sp) -> In s (c_samples c) -> NoDup (map mkey (s_mods s)).
Proof. exact accepted_distinct_modifiers. Qed.
Theorem C20_accepted_shapesys_unique : forall N (sp : spec N) m, build N sp = Ok m -> NoDup (shapesys_names_listed N sp).
Proof. exact accepted_shapesys_unique. Qed.
Theorem C20_accepted_cell_lengths : forall N (sp : spec N) m cn sn s, build N sp = Ok m ->
  In cn (cfg_channels N sp) -> In sn (cfg_samples N sp) -> cell N sp cn sn = Some s -> length (s_data s) = nbins N sp cn.
Proof. exact accepted_cell_lengths. Qed.
Theorem C20_accepted_modifier_lengths : forall N (sp : spec N) m cn sn k md, build N sp = Ok m ->
  In cn (cfg_channels N sp) -> In sn (cfg_samples N sp) -> cellmod N sp cn sn k = Some md ->
  (In k (mods_of (cfg_modifiers N sp) Histosys) -> length (mdlo N md) = nbins N sp cn /\ length (mdhi N md) = nbins N sp cn) /\
  (In k (mods_of (cfg_modifiers N sp) Shapesys) -> length (mdlist N md) = nbins N sp cn) /\
  (In k (mods_of (cfg_modifiers N sp) Staterror) -> length (mdlist N md) = nbins N sp cn).
Proof. exact accepted_modifier_lengths. Qed.
Theorem C20_accepted_poi_defined : forall N (sp : spec N) m nm, build N sp = Ok m -> poi sp = Some nm -> nm <> ""%string ->
  exists p, find_pset N (md_psets N m) nm = Some p /\ p_n N p <= 1 /\ md_poi N m = Some (p_start N p).
Proof. exact accepted_poi_defined. Qed.
Theorem C20_accepted_one_config_per_parameter : forall N (sp : spec N) m, build N sp = Ok m -> NoDup (map pc_name (parameters sp)).
Proof. exact accepted_one_config_per_parameter. Qed.
Theorem C20_accepted_has_parameters : forall N (sp : spec N) m, build N sp = Ok m -> md_psets N m <> [].
Proof. exact accepted_has_parameters. Qed.
(* parameter reconciliation: one name = one constraint type and size; required settings present; override lengths *)
Theorem C20_paramset_consistent : forall N (sp : spec N) name rs start p, reduce_one N sp name rs start = Ok p ->
  agree ptype_eqb (map (r_type N) rs) = true /\ agree Nat.eqb (map (r_n N) rs) = true /\
  agree Bool.eqb (map (r_scalar N) rs) = true /\
  p_inits N p <> PyNone /\ p_bounds N p <> PyNone /\ p_aux N p <> PyNone /\ p_var N p <> PyNone.
Proof. exact reduce_one_consistent. Qed.
Theorem C20_shapefactor_size_conflict : forall N n n', n <> n' ->
  agree Nat.eqb (map (r_n N) [req_shapefactor N n; req_shapefactor N n']) = false.
Proof. exact req_shapefactor_size_conflict. Qed.
Theorem C20_override_lengths_checked : forall N (sp : spec N) name r0 rs start p u,
  reduce_one N sp name (r0 :: rs) start = Ok p -> find_user N sp name = Some u ->
  (forall l dl, pc_inits u = Some l -> r_inits N r0 = Val dl -> dl <> [] -> length l = length dl) /\
  (forall l dl, pc_bounds u = Some l -> r_bounds N r0 = Val dl -> dl <> [] -> length l = length dl) /\
  (forall l dl, pc_auxdata u = Some l -> r_aux N r0 = Val dl -> dl <> [] -> length l = length dl) /\
  (forall l dl, pc_factors u = Some l -> r_factors N r0 = Val dl -> dl <> [] -> length l = length dl) /\
  (forall l, pc_inits u = Some l -> r_inits N r0 = PyNone -> length l = r_n N r0) /\
  (forall l, pc_auxdata u = Some l -> r_aux N r0 = PyNone -> length l = r_n N r0) /\
  (forall l, pc_sigmas u = Some l -> r_var N r0 = PyNone -> length l = r_n N r0).
Proof. exact override_lengths_checked. Qed.

Print Assumptions C20_accepted_distinct_channels.
Print Assumptions C20_accepted_distinct_samples.
Print Assumptions C20_accepted_distinct_modifiers.
Print Assumptions C20_accepted_shapesys_unique.
Print Assumptions C20_accepted_cell_lengths.
Print Assumptions C20_accepted_modifier_lengths.
Print Assumptions C20_accepted_poi_defined.
Print Assumptions C20_accepted_one_config_per_parameter.
Print Assumptions C20_accepted_has_parameters.
Print Assumptions C20_paramset_consistent.
Print Assumptions C20_shapefactor_size_conflict.
Print Assumptions C20_override_lengths_checked.
