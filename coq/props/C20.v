(* C20 - property theorems only: what every ACCEPTED specification satisfies (contrapositive of each refusal class). *)
From Coq Require Import String List Arith.
Require Import PV.Num PV.Sort PV.Spec PV.Impl PV.Wf.
Import ListNotations.

Theorem C20_accepted_distinct_channels : forall N (sp : spec N) m, build N sp = Ok m -> NoDup (map c_name (channels sp)).
Proof. exact accepted_distinct_channels. Qed.
Theorem C20_accepted_distinct_samples : forall N (sp : spec N) m c, build N sp = Ok m -> In c (channels sp) -> NoDup (map s_name (c_samples c)).
Proof. exact accepted_distinct_samples. Qed.
Theorem C20_accepted_distinct_modifiers : forall N (sp : spec N) m c s,
  build N sp = Ok m -> In c (channels sp) -> In s (c_samples c) -> NoDup (map mkey (s_mods s)).
Proof. exact accepted_distinct_modifiers. Qed.
Theorem C20_accepted_shapesys_unique : forall N (sp : spec N) m, build N sp = Ok m -> NoDup (shapesys_names_listed N sp).
Proof. exact accepted_shapesys_unique. Qed.
Theorem C20_accepted_cell_lengths : forall N (sp : spec N) m cn sn s, build N sp = Ok m ->
  In cn (cfg_channels N sp) -> In sn (cfg_samples N sp) -> cell N sp cn sn = Some s -> length (s_data s) = nbins N sp cn.
Proof. exact accepted_cell_lengths. Qed.
Theorem C20_accepted_modifier_lengths : forall N (sp : spec N) m cn sn k md, build N sp = Ok m ->
  In cn (cfg_channels N sp) -> In sn (cfg_samples N sp) -> cellmod N sp cn sn k = Some md ->
  (In k (mods_of (cfg_modifiers N sp) Histosys) -> length (mdlo N md) = nbins N sp cn /\ length (mdhi N md) = nbins N sp cn) /\
  (In k (mods_of (cfg_modifiers N sp) Shapesys) -> length (mdlist N md) = nbins N sp cn) /\
  (In k (mods_of (cfg_modifiers N sp) Staterror) -> length (mdlist N md) = nbins N sp cn).
Proof. exact accepted_modifier_lengths. Qed.
Theorem C20_accepted_poi_defined : forall N (sp : spec N) m nm, build N sp = Ok m -> poi sp = Some nm -> nm <> ""%string ->
  exists p, find_pset N (md_psets N m) nm = Some p /\ p_n N p <= 1 /\ md_poi N m = Some (p_start N p).
Proof. exact accepted_poi_defined. Qed.
Theorem C20_accepted_one_config_per_parameter : forall N (sp : spec N) m, build N sp = Ok m -> NoDup (map pc_name (parameters sp)).
Proof. exact accepted_one_config_per_parameter. Qed.
Theorem C20_accepted_has_parameters : forall N (sp : spec N) m, build N sp = Ok m -> md_psets N m <> [].
Proof. exact accepted_has_parameters. Qed.
(* parameter reconciliation: one name = one constraint type and size; required settings present; override lengths *)
Theorem C20_paramset_consistent : forall N (sp : spec N) name rs start p, reduce_one N sp name rs start = Ok p ->
  agree ptype_eqb (map (r_type N) rs) = true /\ agree Nat.eqb (map (r_n N) rs) = true /\
  agree Bool.eqb (map (r_scalar N) rs) = true /\
  p_inits N p <> PyNone /\ p_bounds N p <> PyNone /\ p_aux N p <> PyNone /\ p_var N p <> PyNone.
Proof. exact reduce_one_consistent. Qed.
Theorem C20_shapefactor_size_conflict : forall N n n', n <> n' ->
  agree Nat.eqb (map (r_n N) [req_shapefactor N n; req_shapefactor N n']) = false.
Proof. exact req_shapefactor_size_conflict. Qed.
Theorem C20_override_lengths_checked : forall N (sp : spec N) name r0 rs start p u,
  reduce_one N sp name (r0 :: rs) start = Ok p -> find_user N sp name = Some u ->
  (forall l dl, pc_inits u = Some l -> r_inits N r0 = Val dl -> dl <> [] -> length l = length dl) /\
  (forall l dl, pc_bounds u = Some l -> r_bounds N r0 = Val dl -> dl <> [] -> length l = length dl) /\
  (forall l dl, pc_auxdata u = Some l -> r_aux N r0 = Val dl -> dl <> [] -> length l = length dl) /\
  (forall l dl, pc_factors u = Some l -> r_factors N r0 = Val dl -> dl <> [] -> length l = length dl) /\
  (forall l, pc_inits u = Some l -> r_inits N r0 = PyNone -> length l = r_n N r0) /\
  (forall l, pc_auxdata u = Some l -> r_aux N r0 = PyNone -> length l = r_n N r0) /\
  (forall l, pc_sigmas u = Some l -> r_var N r0 = PyNone -> length l = r_n N r0).
Proof. exact override_lengths_checked. Qed.

Print Assumptions C20_accepted_distinct_channels.
Print Assumptions C20_accepted_distinct_samples.
Print Assumptions C20_accepted_distinct_modifiers.
Print Assumptions C20_accepted_shapesys_unique.
Print Assumptions C20_accepted_cell_lengths.
Print Assumptions C20_accepted_modifier_lengths.
Print Assumptions C20_accepted_poi_defined.
Print Assumptions C20_accepted_one_config_per_parameter.
Print Assumptions C20_accepted_has_parameters.
Print Assumptions C20_paramset_consistent.
Print Assumptions C20_shapefactor_size_conflict.
Print Assumptions C20_override_lengths_checked.

(* ---- the other half (WfTotal.v): construction is total up to pyhf's own exceptions; accepted iff well-formed.
   No premise on the specification, not even the schema-level ones. ---- *)
From Coq Require Import Bool.
Require Import PV.Ref PV.RefineParams PV.WfTotal.
Theorem C20_build_never_python_exception : forall N (sp : spec N) s, build N sp <> Err (EPy s).
Proof. exact build_never_python_exception. Qed.
Theorem C20_build_error_is_pyhf_exception : forall N (sp : spec N) e, build N sp = Err e -> is_pyhf_exception e = true.
Proof. exact build_error_is_pyhf_exception. Qed.
Theorem C20_build_char : forall N (sp : spec N),
  match build N sp with Ok _ => wf_spec N sp = true | Err e => is_pyhf_exception e = true /\ wf_spec N sp = false end.
Proof. exact build_char. Qed.
Theorem C20_accepted_implies_wf : forall N (sp : spec N) md, build N sp = Ok md -> wf_spec N sp = true.
Proof. exact accepted_implies_wf. Qed.
Theorem C20_wf_implies_accepted : forall N (sp : spec N), wf_spec N sp = true -> exists md, build N sp = Ok md.
Proof. exact wf_implies_accepted. Qed.
Theorem C20_refused_iff_not_wf : forall N (sp : spec N), (exists e, build N sp = Err e) <-> wf_spec N sp = false.
Proof. exact refused_iff_not_wf. Qed.
Theorem C20_refused_with_pyhf_exception : forall N (sp : spec N), wf_spec N sp = false ->
  exists e, build N sp = Err e /\ is_pyhf_exception e = true.
Proof. exact refused_with_pyhf_exception. Qed.
(* wf_spec is the conjunction of the consistency classes *)
Theorem C20_wf_spec_classes : forall N (sp : spec N), wf_spec N sp =
  wf_channels_distinct N sp && wf_samples_distinct N sp && wf_modifiers_distinct N sp && wf_shapesys_unique N sp && wf_sample_lengths N sp &&
  wf_modifier_lengths N sp && wf_staterror_masks N sp && wf_one_config_per_parameter N sp && wf_requirements_agree N sp &&
  wf_settings_present N sp && wf_overrides_fit N sp && wf_has_parameters N sp && wf_poi N sp.
Proof. reflexivity. Qed.
(* per class, whatever else the specification contains *)
Theorem C20_dup_channel_refused : forall N (sp : spec N), ~ NoDup (map c_name (channels sp)) -> refused N sp.
Proof. exact dup_channel_refused. Qed.
Theorem C20_dup_sample_refused : forall N (sp : spec N) c, In c (channels sp) -> ~ NoDup (map s_name (c_samples c)) -> refused N sp.
Proof. exact dup_sample_refused. Qed.
Theorem C20_dup_modifier_refused : forall N (sp : spec N) c s, In c (channels sp) -> In s (c_samples c) ->
  ~ NoDup (map mkey (s_mods s)) -> refused N sp.
Proof. exact dup_modifier_refused. Qed.
Theorem C20_shapesys_reuse_refused : forall N (sp : spec N), ~ NoDup (shapesys_names_listed N sp) -> refused N sp.
Proof. exact shapesys_reuse_refused. Qed.
Theorem C20_sample_length_mismatch_refused : forall N (sp : spec N) cn sn s, In cn (cfg_channels N sp) -> In sn (cfg_samples N sp) ->
  cell N sp cn sn = Some s -> length (s_data s) <> nbins N sp cn -> refused N sp.
Proof. exact sample_length_mismatch_refused. Qed.
Theorem C20_modifier_length_mismatch_refused : forall N (sp : spec N) t f cn sn k m,
  (t = Histosys /\ (f = mdlo N \/ f = mdhi N)) \/ ((t = Shapesys \/ t = Staterror) /\ f = mdlist N) ->
  In k (mods_of (cfg_modifiers N sp) t) -> In sn (cfg_samples N sp) -> In cn (cfg_channels N sp) ->
  cellmod N sp cn sn k = Some m -> length (f m) <> nbins N sp cn -> refused N sp.
Proof. exact modifier_length_mismatch_refused. Qed.
Theorem C20_staterror_mask_mismatch_refused : forall N (sp : spec N), wf_staterror_masks N sp = false -> refused N sp.
Proof. exact staterror_mask_mismatch_refused. Qed.
Theorem C20_shared_shapefactor_size_refused : forall N (sp : spec N) c s m c' s' m', listed N sp c s m -> listed N sp c' s' m' ->
  m_type m = Shapefactor -> m_type m' = Shapefactor -> m_name m = m_name m' -> chan_nbins N c <> chan_nbins N c' -> refused N sp.
Proof. exact shared_shapefactor_size_refused. Qed.
Theorem C20_conflicting_paramset_refused : forall N (sp : spec N) name rs,
  In (name, rs) (required_all N sp (cfg_channels N sp) (cfg_samples N sp) (cfg_modifiers N sp)) -> agree_all N rs = false -> refused N sp.
Proof. exact conflicting_paramset_refused. Qed.
Theorem C20_duplicate_parameter_config_refused : forall N (sp : spec N), ~ NoDup (map pc_name (parameters sp)) -> refused N sp.
Proof. exact duplicate_parameter_config_refused. Qed.
Theorem C20_override_misfit_refused : forall N (sp : spec N) name r0 rs,
  In (name, r0 :: rs) (required_all N sp (cfg_channels N sp) (cfg_samples N sp) (cfg_modifiers N sp)) ->
  overrides_fit N sp name r0 = false -> refused N sp.
Proof. exact override_misfit_refused. Qed.
Theorem C20_missing_setting_refused : forall N (sp : spec N) name r0 rs,
  In (name, r0 :: rs) (required_all N sp (cfg_channels N sp) (cfg_samples N sp) (cfg_modifiers N sp)) ->
  settings_present N sp name r0 = false -> refused N sp.
Proof. exact missing_setting_refused. Qed.
Theorem C20_lumi_without_settings_refused : forall N (sp : spec N) c s m, listed N sp c s m -> m_type m = Lumi ->
  find_user N sp (m_name m) = None -> refused N sp.
Proof. exact lumi_without_settings_refused. Qed.
Theorem C20_undefined_poi_refused : forall N (sp : spec N) nm, poi sp = Some nm -> nm <> ""%string ->
  (forall c s m, listed N sp c s m -> m_name m <> nm) -> refused N sp.
Proof. exact poi_not_a_modifier_refused. Qed.
Theorem C20_nonscalar_poi_refused : forall N (sp : spec N) nm r0 rs, poi sp = Some nm -> nm <> ""%string ->
  In (nm, r0 :: rs) (required_all N sp (cfg_channels N sp) (cfg_samples N sp) (cfg_modifiers N sp)) -> 1 < r_n N r0 -> refused N sp.
Proof. exact nonscalar_poi_refused. Qed.
Theorem C20_no_parameters_refused : forall N (sp : spec N),
  required_all N sp (cfg_channels N sp) (cfg_samples N sp) (cfg_modifiers N sp) = [] -> refused N sp.
Proof. exact no_parameters_refused. Qed.

Print Assumptions C20_build_never_python_exception.
Print Assumptions C20_build_error_is_pyhf_exception.
Print Assumptions C20_build_char.
Print Assumptions C20_accepted_implies_wf.
Print Assumptions C20_wf_implies_accepted.
Print Assumptions C20_refused_iff_not_wf.
Print Assumptions C20_refused_with_pyhf_exception.
Print Assumptions C20_wf_spec_classes.
Print Assumptions C20_dup_channel_refused.
Print Assumptions C20_dup_sample_refused.
Print Assumptions C20_dup_modifier_refused.
Print Assumptions C20_shapesys_reuse_refused.
Print Assumptions C20_sample_length_mismatch_refused.
Print Assumptions C20_modifier_length_mismatch_refused.
Print Assumptions C20_staterror_mask_mismatch_refused.
Print Assumptions C20_shared_shapefactor_size_refused.
Print Assumptions C20_conflicting_paramset_refused.
Print Assumptions C20_duplicate_parameter_config_refused.
Print Assumptions C20_override_misfit_refused.
Print Assumptions C20_missing_setting_refused.
Print Assumptions C20_lumi_without_settings_refused.
Print Assumptions C20_undefined_poi_refused.
Print Assumptions C20_nonscalar_poi_refused.
Print Assumptions C20_no_parameters_refused.
