(* C01 - property theorems only. *)
From Coq Require Import String List Ring.
Require Import PV.Num PV.Sort PV.Spec PV.Impl PV.Ref PV.InterpQ PV.RefineRates PV.RefineTop PV.EngineRun PV.RefineWitness.
Import ListNotations.

(* For EVERY accepted specification (any channels/samples/bins, any subset of the seven modifier types, any sharing of
   names), every parameter vector, any interpolation functions and any commutative ring of numbers: the expected data
   of the mega-channel implementation model is the HistFactory template -- per channel in sorted order, per bin: the sum
   over that channel's samples of (product of the sample's own multiplicative factors) x (nominal + sum of its own additive
   shifts), each addressed by the NAME of its parameter, per-sample then per-bin clip.  Premises: the schema's data shapes,
   the per-sample clip not positive (see the refuted statement below), and the access-field layout premise that the
   check evaluates in Coq for every generated model (deriving it from build = Ok is future work: hence _partial). *)
Theorem C01_expected_data_refines_partial : forall N,
  ring_theory (n0 N) (n1 N) (nadd N) (nmul N) (nsub N) (nopp N) eq ->
  forall interp_add interp_mul (sp : spec N) st md pars,
  build N sp = Ok md -> shape_ok N sp -> clip_guard N st -> layout_okb N sp md = true ->
  expected_actualdata N interp_add interp_mul sp st md pars =
  ref_expected N interp_add interp_mul (normsys_code N st) (histosys_code N st) (clip_sample N st) (clip_bin N st) sp
               (theta N md (parf N pars)).
Proof. exact expected_refines_accepted. Qed.
(* the executed instance (exact rationals) and the analytic instance (reals) *)
Theorem C01_expected_data_refines_Qc : forall ia im (sp : spec QcNum) st md pars,
  build QcNum sp = Ok md -> shape_ok QcNum sp -> clip_guard QcNum st -> layout_okb QcNum sp md = true ->
  expected_actualdata QcNum ia im sp st md pars =
  ref_expected QcNum ia im (normsys_code QcNum st) (histosys_code QcNum st) (clip_sample QcNum st) (clip_bin QcNum st) sp (theta QcNum md (parf QcNum pars)).
Proof. exact expected_refines_Qc. Qed.
Theorem C01_expected_data_refines_R : forall ia im (sp : spec RNum) st md pars,
  build RNum sp = Ok md -> shape_ok RNum sp -> clip_guard RNum st -> layout_okb RNum sp md = true ->
  expected_actualdata RNum ia im sp st md pars =
  ref_expected RNum ia im (normsys_code RNum st) (histosys_code RNum st) (clip_sample RNum st) (clip_bin RNum st) sp (theta RNum md (parf RNum pars)).
Proof. exact expected_refines_R. Qed.
(* per cell, for any channel of the spec and any bin: the rate formula *)
Theorem C01_rate_refines : forall N, ring_theory (n0 N) (n1 N) (nadd N) (nmul N) (nsub N) (nopp N) eq ->
  forall interp_add interp_mul (sp : spec N) st md par,
  NoDup (map c_name (channels sp)) ->
  (forall c, In c (channels sp) -> NoDup (map s_name (c_samples c))) ->
  (forall c s, In c (channels sp) -> In s (c_samples c) -> NoDup (map mkey (s_mods s))) ->
  shape_ok N sp -> clip_guard N st -> layout_ok N sp md ->
  forall c, In c (channels sp) -> forall b, b < chan_nbins N c ->
  rate N interp_add interp_mul sp (cfg_channels N sp) (cfg_samples N sp) (cfg_modifiers N sp) st md par (c_name c) b =
  ref_rate N interp_add interp_mul (normsys_code N st) (histosys_code N st) (clip_sample N st) (clip_bin N st) sp (theta N md par) c b.
Proof. exact rate_refines. Qed.
(* the unguarded statement is false: positive per-sample clip and a sample absent from a channel *)
Theorem C01_clip_absent_sample_refuted :
  exists md, build QcNum clip_witness_spec = Ok md /\
    expected_actualdata QcNum q_interp_add (interp_mul_q []) clip_witness_spec clip_witness_st md clip_witness_pars
    <> ref_expected QcNum q_interp_add (interp_mul_q []) (normsys_code QcNum clip_witness_st) (histosys_code QcNum clip_witness_st)
                    (clip_sample QcNum clip_witness_st) (clip_bin QcNum clip_witness_st) clip_witness_spec
                    (theta QcNum md (parf QcNum clip_witness_pars)).
Proof. exact clip_absent_sample_refuted. Qed.
(* sorted(set(.)) is insensitive to the listing order of its input *)
Theorem C01_sorted_channels_listing_invariant : forall (l l' : list string),
  (forall x, In x l <-> In x l') -> sort_uniq l = sort_uniq l'.
Proof. exact sort_uniq_ext. Qed.

Print Assumptions C01_expected_data_refines_partial.
Print Assumptions C01_expected_data_refines_Qc.
Print Assumptions C01_expected_data_refines_R.
Print Assumptions C01_rate_refines.
Print Assumptions C01_clip_absent_sample_refuted.
Print Assumptions C01_sorted_channels_listing_invariant.
