(* C01 - property theorems only (grows as the refinement proofs land). *)
From Coq Require Import String List.
Require Import PV.Num PV.Sort PV.Spec PV.Impl PV.Ref.
Import ListNotations.

(* sorted(set(.)) is insensitive to the listing order of its input *)
Theorem C01_sorted_channels_listing_invariant : forall (l l' : list string),
  (forall x, In x l <-> In x l') -> sort_uniq l = sort_uniq l'.
Proof. exact sort_uniq_ext. Qed.
Print Assumptions C01_sorted_channels_listing_invariant.
