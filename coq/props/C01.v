(* C01 - property theorems only. *)
From Coq Require Import String List Ring.
Require Import PV.Num PV.Sort PV.Spec PV.Impl PV.Ref PV.InterpQ PV.RefineRates PV.RefineTop PV.RefineLayout PV.EngineRun PV.RefineWitness.
Import ListNotations.

(* For EVERY accepted specification (any channels/samples/bins, any subset of the seven modifier types, any sharing of
   names), every parameter vector, any interpolation functions and any commutative ring of numbers: the expected data
   of the mega-channel implementation model is the HistFactory template -- per channel in sorted order, per bin: the sum
   over that channel's samples of (product of the sample's own multiplicative factors) x (nominal + sum of its own additive
   shifts), each addressed by the NAME of its parameter, per-sample then per-bin clip.  Premises: acceptance (build = Ok),
   the schema's data shapes, and the per-sample clip not positive (see the refuted statement below).  The access-field
   layout is no longer a premise: it is derived from acceptance (C01_accepted_layout, RefineParams.v / RefineLayout.v). *)
Theorem C01_expected_data_refines : forall N,
  ring_theory (n0 N) (n1 N) (nadd N) (nmul N) (nsub N) (nopp N) eq ->
  forall interp_add interp_mul (sp : spec N) st md pars,
  build N sp = Ok md -> shape_ok N sp -> clip_guard N st ->
  expected_actualdata N interp_add interp_mul sp st md pars =
  ref_expected N interp_add interp_mul (normsys_code N st) (histosys_code N st) (clip_sample N st) (clip_bin N st) sp
               (theta N md (parf N pars)).
Proof. exact expected_refines_accepted_full. Qed.
(* the executed instance (exact rationals) and the analytic instance (reals) *)
Theorem C01_expected_data_refines_Qc : forall ia im (sp : spec QcNum) st md pars,
  build QcNum sp = Ok md -> shape_ok QcNum sp -> clip_guard QcNum st ->
  expected_actualdata QcNum ia im sp st md pars =
  ref_expected QcNum ia im (normsys_code QcNum st) (histosys_code QcNum st) (clip_sample QcNum st) (clip_bin QcNum st) sp (theta QcNum md (parf QcNum pars)).
Proof. exact expected_refines_full_Qc. Qed.
Theorem C01_expected_data_refines_R : forall ia im (sp : spec RNum) st md pars,
  build RNum sp = Ok md -> shape_ok RNum sp -> clip_guard RNum st ->
  expected_actualdata RNum ia im sp st md pars =
  ref_expected RNum ia im (normsys_code RNum st) (histosys_code RNum st) (clip_sample RNum st) (clip_bin RNum st) sp (theta RNum md (parf RNum pars)).
Proof. exact expected_refines_full_R. Qed.
(* every accepted specification has the access-field layout the template addresses: shapefactor / shapesys entries are
   pstart name + b, staterror entries pstart name + (bins of the declaring channels sorting before the channel) + b;
   boolean form = what the check still evaluates for every generated model (now a cross-check of this theorem) *)
Theorem C01_accepted_layout : forall N (sp : spec N) md, build N sp = Ok md -> layout_ok N sp md.
Proof. exact accepted_layout. Qed.
Theorem C01_accepted_layout_bool : forall N (sp : spec N) md, build N sp = Ok md -> layout_okb N sp md = true.
Proof. exact layout_okb_accepted. Qed.
(* non-vacuity: a 3-channel specification (2/3/2 bins) with a staterror shared by two samples over two channels of different
   bin counts, a shapefactor shared by two channels, a shapesys, normsys, histosys, lumi, normfactor is accepted, with this
   parameter layout *)
Theorem C01_layout_example_accepted :
  exists md, build QcNum layout_example_spec = Ok md /\ md_npars QcNum md = 13 /\
    map (fun p => (p_name QcNum p, p_start QcNum p, p_n QcNum p)) (md_psets QcNum md) =
    [("hs", 0, 1); ("lumi", 1, 1); ("mu", 2, 1); ("ns", 3, 1); ("sf", 4, 2); ("uncorr", 6, 2); ("mcstat", 8, 5)]%string.
Proof. exact layout_example_accepted. Qed.
(* per cell, for any channel of the spec and any bin: the rate formula *)
Theorem C01_rate_refines : forall N, ring_theory (n0 N) (n1 N) (nadd N) (nmul N) (nsub N) (nopp N) eq ->
  forall interp_add interp_mul (sp : spec N) st md par,
  NoDup (map c_name (channels sp)) ->
  (forall c, In c (channels sp) -> NoDup (map s_name (c_samples c))) ->
  (forall c s, In c (channels sp) -> In s (c_samples c) -> NoDup (map mkey (s_mods s))) ->
  shape_ok N sp -> clip_guard N st -> layout_ok N sp md ->
  forall c, In c (channels sp) -> forall b, b < chan_nbins N c ->
  rate N interp_add interp_mul sp (cfg_channels N sp) (cfg_samples N sp) (cfg_modifiers N sp) st md par (c_name c) b =
  ref_rate N interp_add interp_mul (normsys_code N st) (histosys_code N st) (clip_sample N st) (clip_bin N st) sp (theta N md par) c b.
Proof. exact rate_refines. Qed.
(* the unguarded statement is false: positive per-sample clip and a sample absent from a channel *)
Theorem C01_clip_absent_sample_refuted :
  exists md, build QcNum clip_witness_spec = Ok md /\
    expected_actualdata QcNum q_interp_add (interp_mul_q []) clip_witness_spec clip_witness_st md clip_witness_pars
    <> ref_expected QcNum q_interp_add (interp_mul_q []) (normsys_code QcNum clip_witness_st) (histosys_code QcNum clip_witness_st)
                    (clip_sample QcNum clip_witness_st) (clip_bin QcNum clip_witness_st) clip_witness_spec
                    (theta QcNum md (parf QcNum clip_witness_pars)).
Proof. exact clip_absent_sample_refuted. Qed.
(* sorted(set(.)) is insensitive to the listing order of its input *)
Theorem C01_sorted_channels_listing_invariant : forall (l l' : list string),
  (forall x, In x l <-> In x l') -> sort_uniq l = sort_uniq l'.
Proof. exact sort_uniq_ext. Qed.

Print Assumptions C01_expected_data_refines.
Print Assumptions C01_expected_data_refines_Qc.
Print Assumptions C01_expected_data_refines_R.
Print Assumptions C01_accepted_layout.
Print Assumptions C01_accepted_layout_bool.
Print Assumptions C01_layout_example_accepted.
Print Assumptions C01_rate_refines.
Print Assumptions C01_clip_absent_sample_refuted.
Print Assumptions C01_sorted_channels_listing_invariant.
