(* C12 - property theorems only. *)
From Coq Require Import String List.
Require Import PV.Num PV.Sort PV.Spec PV.Impl PV.Config.
Import ListNotations.

(* parameter slices registered by the running index tile the parameter vector in par_order *)
Theorem C12_par_slices_tile : forall N (sp : spec N) l start ps, reduce_all N sp l start = Ok ps -> tiles N start ps.
Proof. exact par_slices_tile. Qed.
Theorem C12_par_slice_offsets : forall N ps start, tiles N start ps ->
  forall i p, nth_error ps i = Some p -> p_start N p = (start + total N (firstn i ps))%nat.
Proof. exact tiles_spec. Qed.
Theorem C12_par_order_is_requirement_order : forall N (sp : spec N) l start ps,
  reduce_all N sp l start = Ok ps -> map (p_name N) ps = map fst l.
Proof. exact par_order_is_requirement_order. Qed.
(* channel slices tile the main data in the reported channel order *)
Theorem C12_channel_slices_tile : forall N (sp : spec N) i cn ab, nth_error (channel_slices N sp) i = Some (cn, ab) ->
  nth_error (cfg_channels N sp) i = Some cn /\
  fst ab = fold_right Nat.add O (firstn i (map (nbins N sp) (cfg_channels N sp))) /\
  snd ab = (fst ab + nbins N sp cn)%nat.
Proof. exact channel_slices_tile. Qed.
(* measurement-level settings appear verbatim, defaults otherwise *)
Theorem C12_overrides_verbatim : forall N (sp : spec N) name rs start p u,
  reduce_one N sp name rs start = Ok p -> find_user N sp name = Some u ->
  (forall l, pc_inits u = Some l -> p_inits N p = Val l) /\
  (forall l, pc_bounds u = Some l -> p_bounds N p = Val l) /\
  (forall l, pc_auxdata u = Some l -> p_aux N p = Val l) /\
  (forall l, pc_factors u = Some l -> p_factors N p = Val l) /\
  (forall l, pc_sigmas u = Some l -> p_var N p = Val (map (fun s => nmul N s s) l)) /\
  (forall b, pc_fixed u = Some b -> p_fixed N p = FBool b).
Proof. exact overrides_verbatim. Qed.
Theorem C12_defaults_otherwise : forall N (sp : spec N) name r0 rs start p,
  reduce_one N sp name (r0 :: rs) start = Ok p -> find_user N sp name = None ->
  p_inits N p = r_inits N r0 /\ p_bounds N p = r_bounds N r0 /\ p_aux N p = r_aux N r0 /\
  p_factors N p = r_factors N r0 /\ p_var N p = r_var N r0 /\ p_fixed N p = r_fixed N r0.
Proof. exact defaults_otherwise. Qed.
(* the sorted configuration lists do not depend on the listing order *)
Theorem C12_sorted_lists_listing_invariant : forall (l l' : list string),
  (forall x, In x l <-> In x l') -> sort_uniq l = sort_uniq l'.
Proof. exact sort_uniq_ext. Qed.

Print Assumptions C12_par_slices_tile.
Print Assumptions C12_par_slice_offsets.
Print Assumptions C12_par_order_is_requirement_order.
Print Assumptions C12_channel_slices_tile.
Print Assumptions C12_overrides_verbatim.
Print Assumptions C12_defaults_otherwise.
Print Assumptions C12_sorted_lists_listing_invariant.

(* ---- the whole construction does not depend on the listing order (ConfigPerm.v): channels, the samples of a channel, the
   modifiers of a sample and the measurement's parameter configurations may each be listed in any order; the result of
   build (the model record, or the error) is literally the same.  No distinct-name premise. ---- *)
Require Import PV.ConfigPerm.
Theorem C12_build_listing_invariant : forall N (sp sp' : spec N), spec_perm N sp sp' -> build N sp' = build N sp.
Proof. exact build_listing_invariant. Qed.
Theorem C12_spec_perm_is : forall N (sp sp' : spec N), spec_perm N sp sp' <->
  (exists cs, Forall2 (fun c c' => c_name c = c_name c' /\
                 exists ss, Forall2 (fun s s' => s_name s = s_name s' /\ s_data s = s_data s' /\ Permutation.Permutation (s_mods s) (s_mods s'))
                                    (c_samples c) ss /\ Permutation.Permutation ss (c_samples c'))
              (channels sp) cs /\ Permutation.Permutation cs (channels sp')) /\
  Permutation.Permutation (parameters sp) (parameters sp') /\ poi sp = poi sp'.
Proof. intros N sp sp'. reflexivity. Qed.
Theorem C12_spec_perm_sym : forall N (sp sp' : spec N), spec_perm N sp sp' -> spec_perm N sp' sp.
Proof. exact spec_perm_sym. Qed.
(* the sorted configuration lists of a reordered specification *)
Theorem C12_config_lists_listing_invariant : forall N (sp sp' : spec N), spec_perm N sp sp' ->
  cfg_channels N sp' = cfg_channels N sp /\ cfg_samples N sp' = cfg_samples N sp /\ cfg_modifiers N sp' = cfg_modifiers N sp.
Proof. intros N sp sp' H. exact (conj (cfg_channels_perm N sp sp' H) (conj (cfg_samples_perm N sp sp' H) (cfg_modifiers_perm N sp sp' H))). Qed.

Print Assumptions C12_build_listing_invariant.
Print Assumptions C12_spec_perm_is.
Print Assumptions C12_spec_perm_sym.
Print Assumptions C12_config_lists_listing_invariant.

(* ---- the parameter of interest is addressed through the slice layout (ConfigPoi.v): poi_index is the start of the POI's
   slice = the sum of the sizes of the sets registered before it, for every kind of one-component parameter (normfactor,
   alpha, lumi, one-bin shapefactor / shapesys / staterror); a POI with several components or without a defining modifier
   is refused with InvalidModel ---- *)
Require Import PV.ConfigPoi.
Theorem C12_poi_index_is_slice_start : forall N (sp : spec N) ps start i, tiles N start ps -> set_poi N sp ps = Ok (Some i) ->
  exists nm k p, poi sp = Some nm /\ nth_error ps k = Some p /\ p_name N p = nm /\ p_n N p <= 1 /\
                 i = p_start N p /\ i = (start + total N (firstn k ps))%nat /\
                 forall j q, j < k -> nth_error ps j = Some q -> p_name N q <> nm.
Proof. exact poi_index_is_slice_start. Qed.
Theorem C12_accepted_poi_index : forall N (sp : spec N) md i, build N sp = Ok md -> md_poi N md = Some i ->
  exists nm k p, poi sp = Some nm /\ nth_error (md_psets N md) k = Some p /\ p_name N p = nm /\ p_n N p <= 1 /\
                 i = p_start N p /\ i = total N (firstn k (md_psets N md)) /\ (i + p_n N p <= md_npars N md)%nat.
Proof. exact accepted_poi_index. Qed.
Theorem C12_poi_refusal : forall N (sp : spec N) ps e, set_poi N sp ps = Err e -> e = EInvalidModel /\
  exists nm, poi sp = Some nm /\ (find_pset N ps nm = None \/ exists p, find_pset N ps nm = Some p /\ 1 < p_n N p).
Proof. exact set_poi_refusal. Qed.
Theorem C12_poi_example_index :
  match build QcNum poi_example_spec with
  | Ok md => md_poi QcNum md = Some 4 /\ map (p_name QcNum) (md_psets QcNum md) = ["JES"; "sf_shape"; "sf2"]%string /\
             map (p_start QcNum) (md_psets QcNum md) = [0; 1; 4] /\ md_npars QcNum md = 5
  | Err _ => False end.
Proof. exact poi_example_index. Qed.
Print Assumptions C12_poi_index_is_slice_start.
Print Assumptions C12_accepted_poi_index.
Print Assumptions C12_poi_refusal.
Print Assumptions C12_poi_example_index.

(* ---- tie to the source: _ChannelSummaryMixin.__init__ of pyhf/mixins.py translated to Gallina on every run (coq/gen/ConfigGen.v, written by
   harness/props/c12_tie.py; the reading of the python values is stated in the header of that file) computes the configuration lists of the
   model: the sorted duplicate-free channel / sample / (modifier name, type) lists, channel_nbins (the last channel listed under a name counts)
   and channel_slices (running sum over the sorted channels) ---- *)
Require Import PV.gen.ConfigGen PV.TieConfig.
Theorem C12_source_is_model_channel_summary : forall N (sp : spec N),
  gen_channel_summary N (channels sp) =
  (cfg_channels N sp, cfg_samples N sp, cfg_modifiers N sp, map (fun c => (c, nbins N sp c)) (cfg_channels N sp), channel_slices N sp).
Proof. exact tie_channel_summary. Qed.
Print Assumptions C12_source_is_model_channel_summary.
