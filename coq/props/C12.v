(* C12 - property theorems only. *)
From Coq Require Import String List.
Require Import PV.Num PV.Sort PV.Spec PV.Impl PV.Config.
Import ListNotations.

(* parameter slices registered by the running index tile the parameter vector in par_order *)
Theorem C12_par_slices_tile : forall N (sp : spec N) l start ps, reduce_all N sp l start = Ok ps -> tiles N start ps.
Proof. exact par_slices_tile. Qed.
Theorem C12_par_slice_offsets : forall N ps start, tiles N start ps ->
  forall i p, nth_error ps i = Some p -> p_start N p = (start + total N (firstn i ps))%nat.
Proof. exact tiles_spec. Qed.
Theorem C12_par_order_is_requirement_order : forall N (sp : spec N) l start ps,
  reduce_all N sp l start = Ok ps -> map (p_name N) ps = map fst l.
Proof. exact par_order_is_requirement_order. Qed.
(* channel slices tile the main data in the reported channel order *)
Theorem C12_channel_slices_tile : forall N (sp : spec N) i cn ab, nth_error (channel_slices N sp) i = Some (cn, ab) ->
  nth_error (cfg_channels N sp) i = Some cn /\
  fst ab = fold_right Nat.add O (firstn i (map (nbins N sp) (cfg_channels N sp))) /\
  snd ab = (fst ab + nbins N sp cn)%nat.
Proof. exact channel_slices_tile. Qed.
(* measurement-level settings appear verbatim, defaults otherwise *)
Theorem C12_overrides_verbatim : forall N (sp : spec N) name rs start p u,
  reduce_one N sp name rs start = Ok p -> find_user N sp name = Some u ->
  (forall l, pc_inits u = Some l -> p_inits N p = Val l) /\
  (forall l, pc_bounds u = Some l -> p_bounds N p = Val l) /\
  (forall l, pc_auxdata u = Some l -> p_aux N p = Val l) /\
  (forall l, pc_factors u = Some l -> p_factors N p = Val l) /\
  (forall l, pc_sigmas u = Some l -> p_var N p = Val (map (fun s => nmul N s s) l)) /\
  (forall b, pc_fixed u = Some b -> p_fixed N p = FBool b).
Proof. exact overrides_verbatim. Qed.
Theorem C12_defaults_otherwise : forall N (sp : spec N) name r0 rs start p,
  reduce_one N sp name (r0 :: rs) start = Ok p -> find_user N sp name = None ->
  p_inits N p = r_inits N r0 /\ p_bounds N p = r_bounds N r0 /\ p_aux N p = r_aux N r0 /\
  p_factors N p = r_factors N r0 /\ p_var N p = r_var N r0 /\ p_fixed N p = r_fixed N r0.
Proof. exact defaults_otherwise. Qed.
(* the sorted configuration lists do not depend on the listing order *)
Theorem C12_sorted_lists_listing_invariant : forall (l l' : list string),
  (forall x, In x l <-> In x l') -> sort_uniq l = sort_uniq l'.
Proof. exact sort_uniq_ext. Qed.

Print Assumptions C12_par_slices_tile.
Print Assumptions C12_par_slice_offsets.
Print Assumptions C12_par_order_is_requirement_order.
Print Assumptions C12_channel_slices_tile.
Print Assumptions C12_overrides_verbatim.
Print Assumptions C12_defaults_otherwise.
Print Assumptions C12_sorted_lists_listing_invariant.
