(* C13 - property theorems only. *)
From Coq Require Import Reals List.
From Coquelicot Require Import Coquelicot.
Require Import PV.Num PV.FitWrap PV.FitRate PV.Grad.
Import ListNotations.
Local Open Scope R_scope.

(* chain rule through stitching: the derivative of  free |-> f (stitch fixed free)  along free coordinate j is the
   partial derivative of f along coordinate variable_idx[j] at the stitched point *)
Theorem C13_stitched_gradient :
  forall (npars : nat) (fv : list (nat * R)), NoDup (map fst fv) -> (forall i, In i (map fst fv) -> (i < npars)%nat) ->
  forall (f : list R -> R) (free : list R) (j : nat) (d : R),
  length free = length (variable_idx npars (map fst fv)) -> (j < length (variable_idx npars (map fst fv)))%nat ->
  let x := stitched npars fv free in let i := nth j (variable_idx npars (map fst fv)) 0%nat in
  is_derive (fun t => f (upd i (nth i x 0 + t) x)) 0 d ->
  is_derive (fun t => f (stitched npars fv (upd j (nth j free 0 + t) free))) 0 d.
Proof. exact stitched_gradient. Qed.

Theorem C13_stitched_perturb :
  forall (npars : nat) (fv : list (nat * R)), NoDup (map fst fv) -> (forall i, In i (map fst fv) -> (i < npars)%nat) ->
  forall free j t, length free = length (variable_idx npars (map fst fv)) -> (j < length (variable_idx npars (map fst fv)))%nat ->
  stitched npars fv (upd j (nth j free 0 + t) free) =
  upd (nth j (variable_idx npars (map fst fv)) 0%nat)
      (nth (nth j (variable_idx npars (map fst fv)) 0%nat) (stitched npars fv free) 0 + t) (stitched npars fv free).
Proof. exact stitched_perturb. Qed.

(* the dual-number instance of Num computes value and exact directional derivative of every + - * / expression *)
Theorem C13_dual_is_derivative : forall env dir e, defined env e ->
  is_derive (fun t => evalR (fun i => env i + t * dir i) e) 0 (snd (evalD env dir e)).
Proof. exact dual_is_derivative. Qed.
Theorem C13_dual_value : forall env dir e, fst (evalD env dir e) = evalR env e.
Proof. exact evalD_value. Qed.
Theorem C13_dual_product_rule : forall a b : R * R, d_mul RNum a b = (fst a * fst b, snd a * fst b + fst a * snd b).
Proof. exact dual_product_rule. Qed.
Theorem C13_dual_quotient_rule : forall a b : R * R,
  d_div RNum a b = (fst a / fst b, (snd a * fst b - fst a * snd b) / (fst b * fst b)).
Proof. exact dual_quotient_rule. Qed.

Theorem C13_dlogpois : forall n lam lg, 0 < lam -> is_derive (fun l => n * ln l - l - lg) lam (n / lam - 1).
Proof. exact dlogpois. Qed.
Theorem C13_dlognorm : forall x mu sigma, 0 < sigma ->
  is_derive (fun m => - ((x - m) * (x - m)) / (2 * (sigma * sigma)) - ln sigma - ln (2 * PI) / 2) mu ((x - mu) / (sigma * sigma)).
Proof. exact dlognorm. Qed.
Theorem C13_twice_nll_pois_chain : forall (lam : R -> R) (dlam n lg : R), is_derive lam 0 dlam -> 0 < lam 0 ->
  is_derive (fun t => -2 * (n * ln (lam t) - lam t - lg)) 0 (2 * (1 - n / lam 0) * dlam).
Proof. exact twice_nll_pois_chain. Qed.
Theorem C13_twice_nll_norm_chain : forall (m : R -> R) (dm x sigma : R), is_derive m 0 dm -> 0 < sigma ->
  is_derive (fun t => -2 * (- ((x - m t) * (x - m t)) / (2 * (sigma * sigma)) - ln sigma - ln (2 * PI) / 2)) 0
            (2 * (/ (sigma * sigma)) * (m 0 - x) * dm).
Proof. exact twice_nll_norm_chain. Qed.

(* the gradient the check evaluates: for bins whose samples carry no histosys piece the rate is a + * expression of the
   parameters and the dual evaluation of the rate model yields (rate, partial derivative along coordinate j).
   partial: cells with histosys pieces additionally rest on the derivative of the interpolation code in the selected
   regime (C03) and are covered by the correspondence only *)
Theorem C13_rate_dual_is_derivative_partial : forall (x : list R) (j : nat) (cells : list (cell RNum)), List.Forall plain cells ->
  fst (rate_dual RNum x j cells) = bin_rate RNum x cells /\
  is_derive (fun t => bin_rate RNum (moved_from 0 j t x) cells) 0 (snd (rate_dual RNum x j cells)).
Proof. exact rate_dual_is_derivative_partial. Qed.

Print Assumptions C13_rate_dual_is_derivative_partial.
Print Assumptions C13_stitched_gradient.
Print Assumptions C13_stitched_perturb.
Print Assumptions C13_dual_is_derivative.
Print Assumptions C13_dual_value.
Print Assumptions C13_dual_product_rule.
Print Assumptions C13_dual_quotient_rule.
Print Assumptions C13_dlogpois.
Print Assumptions C13_dlognorm.
Print Assumptions C13_twice_nll_pois_chain.
Print Assumptions C13_twice_nll_norm_chain.
