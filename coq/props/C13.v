(* C13 - property theorems only. *)
From Coq Require Import Reals List.
From Coquelicot Require Import Coquelicot.
Require Import PV.Num PV.TNum PV.gen.InterpGen PV.FitWrap PV.FitCert PV.FitRate PV.Grad PV.GradInterp.
Import ListNotations.
Local Open Scope R_scope.

(* chain rule through stitching: the derivative of  free |-> f (stitch fixed free)  along free coordinate j is the
   partial derivative of f along coordinate variable_idx[j] at the stitched point *)
Theorem C13_stitched_gradient :
  forall (npars : nat) (fv : list (nat * R)), NoDup (map fst fv) -> (forall i, In i (map fst fv) -> (i < npars)%nat) ->
  forall (f : list R -> R) (free : list R) (j : nat) (d : R),
  length free = length (variable_idx npars (map fst fv)) -> (j < length (variable_idx npars (map fst fv)))%nat ->
  let x := stitched npars fv free in let i := nth j (variable_idx npars (map fst fv)) 0%nat in
  is_derive (fun t => f (upd i (nth i x 0 + t) x)) 0 d ->
  is_derive (fun t => f (stitched npars fv (upd j (nth j free 0 + t) free))) 0 d.
Proof. exact stitched_gradient. Qed.

Theorem C13_stitched_perturb :
  forall (npars : nat) (fv : list (nat * R)), NoDup (map fst fv) -> (forall i, In i (map fst fv) -> (i < npars)%nat) ->
  forall free j t, length free = length (variable_idx npars (map fst fv)) -> (j < length (variable_idx npars (map fst fv)))%nat ->
  stitched npars fv (upd j (nth j free 0 + t) free) =
  upd (nth j (variable_idx npars (map fst fv)) 0%nat)
      (nth (nth j (variable_idx npars (map fst fv)) 0%nat) (stitched npars fv free) 0 + t) (stitched npars fv free).
Proof. exact stitched_perturb. Qed.

(* the dual-number instance of Num computes value and exact directional derivative of every + - * / expression *)
Theorem C13_dual_is_derivative : forall env dir e, defined env e ->
  is_derive (fun t => evalR (fun i => env i + t * dir i) e) 0 (snd (evalD env dir e)).
Proof. exact dual_is_derivative. Qed.
Theorem C13_dual_value : forall env dir e, fst (evalD env dir e) = evalR env e.
Proof. exact evalD_value. Qed.
Theorem C13_dual_product_rule : forall a b : R * R, d_mul RNum a b = (fst a * fst b, snd a * fst b + fst a * snd b).
Proof. exact dual_product_rule. Qed.
Theorem C13_dual_quotient_rule : forall a b : R * R,
  d_div RNum a b = (fst a / fst b, (snd a * fst b - fst a * snd b) / (fst b * fst b)).
Proof. exact dual_quotient_rule. Qed.

Theorem C13_dlogpois : forall n lam lg, 0 < lam -> is_derive (fun l => n * ln l - l - lg) lam (n / lam - 1).
Proof. exact dlogpois. Qed.
Theorem C13_dlognorm : forall x mu sigma, 0 < sigma ->
  is_derive (fun m => - ((x - m) * (x - m)) / (2 * (sigma * sigma)) - ln sigma - ln (2 * PI) / 2) mu ((x - mu) / (sigma * sigma)).
Proof. exact dlognorm. Qed.
Theorem C13_twice_nll_pois_chain : forall (lam : R -> R) (dlam n lg : R), is_derive lam 0 dlam -> 0 < lam 0 ->
  is_derive (fun t => -2 * (n * ln (lam t) - lam t - lg)) 0 (2 * (1 - n / lam 0) * dlam).
Proof. exact twice_nll_pois_chain. Qed.
Theorem C13_twice_nll_norm_chain : forall (m : R -> R) (dm x sigma : R), is_derive m 0 dm -> 0 < sigma ->
  is_derive (fun t => -2 * (- ((x - m t) * (x - m t)) / (2 * (sigma * sigma)) - ln sigma - ln (2 * PI) / 2)) 0
            (2 * (/ (sigma * sigma)) * (m 0 - x) * dm).
Proof. exact twice_nll_norm_chain. Qed.

(* ---- interpolation pieces (GradInterp.v): every theorem is about the real instance of the definitions translated from
   pyhf's source on this run (gen/InterpGen.v) ---- *)
(* codes 2, 4p, 4: differentiable for every alpha, breakpoints +-1 / +-alpha0 included; on the breakpoints of code 4 the
   polynomial's derivative equals the exponential's *)
Theorem C13_dcode_smooth :
  (forall lo nom hi a, is_derive (slow_code2 RT lo nom hi) a (dcode2 lo nom hi a)) /\
  (forall lo nom hi a, is_derive (slow_code4p RT lo nom hi) a (dcode4p lo nom hi a)) /\
  (forall a0 lo nom hi, 0 < a0 -> 0 < lo -> 0 < nom -> 0 < hi -> forall a, is_derive (slow_code4 RT a0 lo nom hi) a (dcode4 a0 lo nom hi a)) /\
  (forall a0 lo nom hi, 0 < a0 -> dcode4 a0 lo nom hi a0 = ln (hi / nom) * exp (a0 * ln (hi / nom)) /\
                                  dcode4 a0 lo nom hi (- a0) = - ln (lo / nom) * exp (a0 * ln (lo / nom))).
Proof. exact (conj dcode2_derive (conj dcode4p_derive (conj dcode4_derive dcode4_at_breakpoints))). Qed.
(* codes 0, 1: differentiable for every alpha <> 0; at the kink the two one-sided derivatives; the branch the comparison
   `0 < alpha` selects there is the alpha <= 0 one (dcodeK 0 is the LEFT derivative); no derivative exists when they differ *)
Theorem C13_dcode0 : forall lo nom hi,
  (forall a, a <> 0 -> is_derive (slow_code0 RT lo nom hi) a (dcode0 lo nom hi a)) /\
  right_derive (slow_code0 RT lo nom hi) 0 (hi - nom) /\ left_derive (slow_code0 RT lo nom hi) 0 (nom - lo) /\
  dcode0 lo nom hi 0 = nom - lo /\
  (hi - nom <> nom - lo -> forall l, ~ is_derive (slow_code0 RT lo nom hi) 0 l).
Proof. exact (fun lo nom hi => conj (dcode0_derive lo nom hi) (conj (dcode0_right lo nom hi) (conj (dcode0_left lo nom hi)
              (conj (proj1 (dcode0_at_kink lo nom hi)) (code0_kink lo nom hi))))). Qed.
Theorem C13_dcode1 : forall lo nom hi, 0 < lo -> 0 < nom -> 0 < hi ->
  (forall a, a <> 0 -> is_derive (slow_code1 RT lo nom hi) a (dcode1 lo nom hi a)) /\
  right_derive (slow_code1 RT lo nom hi) 0 (ln (hi / nom)) /\ left_derive (slow_code1 RT lo nom hi) 0 (- ln (lo / nom)) /\
  dcode1 lo nom hi 0 = - ln (lo / nom) /\
  (ln (hi / nom) <> - ln (lo / nom) -> forall l, ~ is_derive (slow_code1 RT lo nom hi) 0 l).
Proof. exact (fun lo nom hi Hlo Hnom Hhi => conj (dcode1_derive lo nom hi Hlo Hnom Hhi) (conj (dcode1_right lo nom hi Hlo Hnom Hhi)
              (conj (dcode1_left lo nom hi Hlo Hnom) (conj (proj1 (dcode1_at_kink lo nom hi Hlo Hnom)) (code1_kink lo nom hi Hlo Hnom Hhi))))). Qed.

(* the histosys pieces of the rate model the check executes are the translated codes, and their dual evaluation is dcodeK *)
Theorem C13_delta_dual_is_dcode : forall (h : hsys RNum) nom a da,
  delta RNum h nom a = slow_of h nom a /\
  delta (DualNum RNum) (inj_hsys RNum h) (inj RNum nom) (a, da) = (delta RNum h nom a, ddelta h nom a * da).
Proof. exact (fun h nom a da => conj (delta_slow h nom a) (delta_dual h nom a da)). Qed.

(* the gradient the check evaluates (full version of the former C13_rate_dual_is_derivative_partial): for bins whose cells carry
   histosys pieces of codes 0, 2, 4p the dual evaluation of the rate model yields (rate, partial derivative along coordinate j)
   at every point where that derivative exists - every regime, the breakpoints +-1 included; the only points without a
   derivative are kinks of code-0 pieces driven by parameter j, and there (as everywhere) the same number is the left derivative *)
Theorem C13_rate_dual_is_derivative : forall (x : list R) (j : nat) (cells : list (cell RNum)), kink_free x j cells ->
  fst (rate_dual RNum x j cells) = bin_rate RNum x cells /\
  is_derive (fun t => bin_rate RNum (moved_from 0 j t x) cells) 0 (snd (rate_dual RNum x j cells)).
Proof. exact rate_dual_is_derivative. Qed.
Theorem C13_rate_dual_left_derivative : forall (x : list R) (j : nat) (cells : list (cell RNum)),
  left_derive (fun t => bin_rate RNum (moved_from 0 j t x) cells) 0 (snd (rate_dual RNum x j cells)).
Proof. exact rate_dual_left_derivative. Qed.
(* cells extended by normsys factors (codes 1 and 4): product / sum rule with dcodeK at the cell's alpha *)
Theorem C13_xrate_dual_is_derivative : forall (x : list R) (j : nat) (cells : list xcell), xwf cells -> xkink_free x j cells ->
  fst (xrate_dual x j cells) = xbin_rate x cells /\
  is_derive (fun t => xbin_rate (moved_from 0 j t x) cells) 0 (snd (xrate_dual x j cells)).
Proof. exact xrate_dual_is_derivative. Qed.
Theorem C13_xrate_dual_left_derivative : forall (x : list R) (j : nat) (cells : list xcell), xwf cells ->
  left_derive (fun t => xbin_rate (moved_from 0 j t x) cells) 0 (snd (xrate_dual x j cells)).
Proof. exact xrate_dual_left_derivative. Qed.
(* the whole objective (2 * nll = twice_nll up to a parameter-independent constant): Grad.grad_coord - the text executed over
   Qc duals - and its extension by normsys factors, evaluated through interval goals *)
Theorem C13_grad_coord_is_derivative : forall (M : model RNum) (x : list R) (j : nat), (j < length x)%nat -> mpos M x ->
  List.Forall (fun nb => kink_free x j (snd nb)) (m_bins RNum M) ->
  is_derive (fun t => 2 * nllM M (moved_from 0 j t x)) 0 (grad_coord RNum M x j).
Proof. exact grad_coord_is_derivative. Qed.
Theorem C13_grad_coord_left_derivative : forall (M : model RNum) (x : list R) (j : nat), (j < length x)%nat -> mpos M x ->
  left_derive (fun t => 2 * nllM M (moved_from 0 j t x)) 0 (grad_coord RNum M x j).
Proof. exact grad_coord_left_derivative. Qed.
Theorem C13_xgrad_is_derivative : forall (M : xmodel) (x : list R) (j : nat), xpos M x -> xmodel_wf M -> xmodel_kink_free M x j ->
  is_derive (fun t => 2 * xnll M (moved_from 0 j t x)) 0 (xgrad M x j).
Proof. exact xgrad_is_derivative. Qed.
Theorem C13_xgrad_left_derivative : forall (M : xmodel) (x : list R) (j : nat), xpos M x -> xmodel_wf M ->
  left_derive (fun t => 2 * xnll M (moved_from 0 j t x)) 0 (xgrad M x j).
Proof. exact xgrad_left_derivative. Qed.

Print Assumptions C13_dcode_smooth.
Print Assumptions C13_dcode0.
Print Assumptions C13_dcode1.
Print Assumptions C13_delta_dual_is_dcode.
Print Assumptions C13_rate_dual_is_derivative.
Print Assumptions C13_rate_dual_left_derivative.
Print Assumptions C13_xrate_dual_is_derivative.
Print Assumptions C13_xrate_dual_left_derivative.
Print Assumptions C13_grad_coord_is_derivative.
Print Assumptions C13_grad_coord_left_derivative.
Print Assumptions C13_xgrad_is_derivative.
Print Assumptions C13_xgrad_left_derivative.
Print Assumptions C13_stitched_gradient.
Print Assumptions C13_stitched_perturb.
Print Assumptions C13_dual_is_derivative.
Print Assumptions C13_dual_value.
Print Assumptions C13_dual_product_rule.
Print Assumptions C13_dual_quotient_rule.
Print Assumptions C13_dlogpois.
Print Assumptions C13_dlognorm.
Print Assumptions C13_twice_nll_pois_chain.
Print Assumptions C13_twice_nll_norm_chain.
