(* C18 - property theorems only.  Generic statements (any field with decidable equality) are stated at both
   instances: Qc (the model the correspondence run executes) and R. *)
From Coq Require Import String List QArith Qcanon Reals.
Require Import PV.Num PV.Json PV.Xml PV.XmlThms PV.XmlCache PV.XmlInst.
Import ListNotations.

(* export then import: channels, samples, yields, observations, POI, names, constant flags, lumi value and sigma,
   normfactor settings; modifier data as `expected_channel` says (equal where the yield is non-zero) *)
Theorem C18_roundtrip_model_Qc : forall ws x file,
  write QcNum ws = inl (x, file) -> w_obs QcNum ws <> [] -> stat_ok QcNum ws -> names_ok QcNum ws ->
  exists ws', read QcNum x file = inl ws' /\
    w_channels QcNum ws' = map (expected_channel QcNum) (w_channels QcNum ws) /\
    w_obs QcNum ws' = map (fun c => (c_name QcNum c, obs_of QcNum ws (c_name QcNum c))) (w_channels QcNum ws) /\
    Forall2 (meas_recovered QcNum (all_cfgs QcNum ws)) (w_meas QcNum ws) (w_meas QcNum ws').
Proof. exact roundtrip_model_Qc. Qed.
Theorem C18_roundtrip_model_R : forall ws x file,
  write RNum ws = inl (x, file) -> w_obs RNum ws <> [] -> stat_ok RNum ws -> names_ok RNum ws ->
  exists ws', read RNum x file = inl ws' /\
    w_channels RNum ws' = map (expected_channel RNum) (w_channels RNum ws) /\
    w_obs RNum ws' = map (fun c => (c_name RNum c, obs_of RNum ws (c_name RNum c))) (w_channels RNum ws) /\
    Forall2 (meas_recovered RNum (all_cfgs RNum ws)) (w_meas RNum ws) (w_meas RNum ws').
Proof. exact roundtrip_model_R. Qed.
(* the relative <-> absolute conversions lose nothing where every bin with an uncertainty has a non-zero yield *)
Theorem C18_modifier_data_survive_R : forall d nom, Forall2 (fun a b => b <> 0%R \/ a = 0%R) d nom ->
  stat_abs RNum (to_rel RNum d nom) nom = d /\ shape_abs RNum nom (to_rel RNum d nom) = d.
Proof. intros d nom H. rewrite (stat_roundtrip RNum Rfield R_eqb_spec), (shape_roundtrip RNum Rfield R_eqb_spec).
  split; apply (mask_id RNum R_eqb_spec); exact H. Qed.
Theorem C18_normfactor_recovered_R : forall ws x file ws',
  write RNum ws = inl (x, file) -> w_obs RNum ws <> [] -> stat_ok RNum ws -> names_ok RNum ws -> read RNum x file = inl ws' ->
  forall c s mo v l h, In c (w_channels RNum ws) -> In s (c_samples RNum c) -> In mo (s_mods RNum s) ->
    m_data RNum mo = DNormfactor -> m_name RNum mo <> "lumi"%string -> nf_settings RNum ws (m_name RNum mo) = inl (v, l, h) ->
    Forall (fun m' => exists q, In q (me_params RNum m') /\ p_name RNum q = m_name RNum mo /\ p_inits RNum q = Some [v]
                                /\ p_bounds RNum q = Some [(l, h)]) (w_meas RNum ws').
Proof. exact normfactor_recovered_R. Qed.
(* Val/Low/High of a NormFactor element: from the first measurement's parameter config, 1 / 0 / 10 when it has none *)
Theorem C18_normfactor_settings_default_R : forall ws m0 ms n, w_meas RNum ws = m0 :: ms ->
  Forall (fun p => String.eqb (p_name RNum p) n = false) (me_params RNum m0) ->
  nf_settings RNum ws n = inl (1%R, 0%R, 10%R).
Proof. exact (nf_settings_default RNum). Qed.
Theorem C18_normfactor_settings_custom_R : forall ws m0 ms n pre p post v vs l h bs,
  w_meas RNum ws = m0 :: ms -> me_params RNum m0 = pre ++ p :: post ->
  Forall (fun q => String.eqb (p_name RNum q) n = false) pre -> Forall (fun q => String.eqb (p_name RNum q) n = false) post ->
  p_name RNum p = n -> p_inits RNum p = Some (v :: vs) -> p_bounds RNum p = Some ((l, h) :: bs) ->
  nf_settings RNum ws n = inl (v, l, h).
Proof. exact (nf_settings_custom RNum). Qed.
Theorem C18_roundtrip_likelihood_partial_R : forall ws x file,
  write RNum ws = inl (x, file) -> w_obs RNum ws <> [] -> stat_ok RNum ws -> names_ok RNum ws -> canonical_ws RNum ws ->
  exists ws', read RNum x file = inl ws' /\ w_channels RNum ws' = w_channels RNum ws /\
    w_obs RNum ws' = map (fun c => (c_name RNum c, obs_of RNum ws (c_name RNum c))) (w_channels RNum ws) /\
    Forall2 (meas_recovered RNum (all_cfgs RNum ws)) (w_meas RNum ws) (w_meas RNum ws').
Proof. exact roundtrip_likelihood_partial_R. Qed.
(* the hypotheses are satisfiable (lumi 2 +- 1/5, all modifier types, two measurements, fixed parameters) *)
Theorem C18_roundtrip_nonvacuous :
  (exists x f, write QcNum demo_ws = inl (x, f)) /\ w_obs QcNum demo_ws <> [] /\ stat_ok QcNum demo_ws /\ names_ok QcNum demo_ws.
Proof. exact roundtrip_nonvacuous. Qed.
(* the name guard is the code's own: ROOT prefixes alpha_/Lumi/none are read back; gamma_ (fixed shapesys/staterror) is refused *)
Theorem C18_name_guard : forall mt n,
  n = "lumi"%string \/
  (exists ty, dict_get n mt = Some ty /\
     ((prefix_of ty = "alpha_"%string /\ n <> ""%string) \/
      (prefix_of ty = ""%string /\ strip_prefix "gamma_" n = None /\ strip_prefix "alpha_" n = None /\ n <> "Lumi"%string))) ->
  name_guard mt n.
Proof. exact name_guard_intro. Qed.

(* no history of exports, imports, cache clears and removals makes a parse return anything but the files on disk *)
Theorem C18_import_reads_current_file : forall (X C R : Type) (rd : X -> C -> R) (nofile : R) ops st0 dir, inv X C st0 ->
  fst (import X C R rd nofile (open_file X C) (run X C R rd nofile (open_file X C) ops st0) dir)
  = fresh X C R rd nofile (run X C R rd nofile (open_file X C) ops st0) dir.
Proof. exact import_reads_current_file. Qed.
Theorem C18_import_after_export : forall (X C R : Type) (rd : X -> C -> R) (nofile : R) ops1 ops2 st0 dir x c, inv X C st0 ->
  forallb (fun o => negb (touches X C dir o)) ops2 = true ->
  fst (import X C R rd nofile (open_file X C) (run X C R rd nofile (open_file X C) (ops1 ++ Export X C dir x c :: ops2) st0) dir) = rd x c.
Proof. exact import_after_export. Qed.

(* the two defects of the pinned tree, on its formulas *)
Theorem C18_roundtrip_lumi_refuted_old :
  exists ws x f ws', write_gen QcNum false ws = inl (x, f) /\ w_obs QcNum ws <> [] /\ stat_ok QcNum ws /\ names_ok QcNum ws /\
                     read QcNum x f = inl ws' /\ sigmas_of ws' <> sigmas_of ws.
Proof. exact roundtrip_lumi_refuted_old. Qed.
Theorem C18_import_reads_current_file_refuted_old :
  exists ops dir, let st := run unit nat nat (fun _ c => c) 0%nat (open_file_old unit nat) ops (init unit nat [] 0%nat) in
    fst (import unit nat nat (fun _ c => c) 0%nat (open_file_old unit nat) st dir) <> fresh unit nat nat (fun _ c => c) 0%nat st dir.
Proof. exact import_reads_current_file_refuted_old. Qed.

Print Assumptions C18_roundtrip_model_Qc.
Print Assumptions C18_roundtrip_model_R.
Print Assumptions C18_modifier_data_survive_R.
Print Assumptions C18_normfactor_recovered_R.
Print Assumptions C18_normfactor_settings_default_R.
Print Assumptions C18_normfactor_settings_custom_R.
Print Assumptions C18_roundtrip_likelihood_partial_R.
Print Assumptions C18_roundtrip_nonvacuous.
Print Assumptions C18_name_guard.
Print Assumptions C18_import_reads_current_file.
Print Assumptions C18_import_after_export.
Print Assumptions C18_roundtrip_lumi_refuted_old.
Print Assumptions C18_import_reads_current_file_refuted_old.

(* ======================= the likelihood half (XmlLik.v) ======================= *)
Require PV.Spec PV.Impl PV.Ref PV.RefineTop PV.RefineTerms PV.RefineRates PV.RefineTermsTop.
Require Import PV.XmlLik.

(* the model specification of the re-imported workspace (measurement k) is the original one as far as the likelihood template
   can see: relation spec_rt of XmlLik.v.  lik_guard: lumi is the name of exactly the lumi-typed modifiers, one modifier per
   (name, type) in a sample, distinct channel names, staterror named staterror_<channel> with absolute uncertainty surviving the
   relative form (mask d nom = d, implied by the code's guard nom <> 0, C18_modifier_data_survive_R); NO condition on shapesys.
   cfg_guard: one configuration per parameter, `sigmas` only on lumi, a lumi modifier comes with its configuration. *)
Theorem C18_roundtrip_spec_R : forall ws x file k,
  write RNum ws = inl (x, file) -> w_obs RNum ws <> [] -> stat_ok RNum ws -> names_ok RNum ws ->
  lik_guard RNum ws -> (k < length (w_meas RNum ws))%nat -> cfg_guard RNum ws (nth k (w_meas RNum ws) (no_meas RNum)) ->
  exists ws', read RNum x file = inl ws' /\ length (w_meas RNum ws') = length (w_meas RNum ws) /\
    w_obs RNum ws' = map (fun c => (c_name RNum c, obs_of RNum ws (c_name RNum c))) (w_channels RNum ws) /\
    spec_rt RNum (to_spec RNum ws k) (to_spec RNum ws' k).
Proof. exact roundtrip_spec_R. Qed.
(* hence the template: same multiset of Poisson / Gaussian terms at every parameter point, observation and auxiliary datum,
   for all interpolation functions and codes and every clip setting *)
Theorem C18_roundtrip_likelihood_R : forall ws x file k,
  write RNum ws = inl (x, file) -> w_obs RNum ws <> [] -> stat_ok RNum ws -> names_ok RNum ws ->
  lik_guard RNum ws -> (k < length (w_meas RNum ws))%nat -> cfg_guard RNum ws (nth k (w_meas RNum ws) (no_meas RNum)) ->
  exists ws', read RNum x file = inl ws' /\
    forall ia im nc hc cs cb theta obs aux,
      Permutation.Permutation (Ref.ref_terms RNum ia im nc hc cs cb (to_spec RNum ws' k) theta obs aux)
                              (Ref.ref_terms RNum ia im nc hc cs cb (to_spec RNum ws k) theta obs aux).
Proof. exact roundtrip_likelihood_R. Qed.
Theorem C18_roundtrip_likelihood_Qc : forall ws x file k,
  write QcNum ws = inl (x, file) -> w_obs QcNum ws <> [] -> stat_ok QcNum ws -> names_ok QcNum ws ->
  lik_guard QcNum ws -> (k < length (w_meas QcNum ws))%nat -> cfg_guard QcNum ws (nth k (w_meas QcNum ws) (no_meas QcNum)) ->
  exists ws', read QcNum x file = inl ws' /\
    forall ia im nc hc cs cb theta obs aux,
      Permutation.Permutation (Ref.ref_terms QcNum ia im nc hc cs cb (to_spec QcNum ws' k) theta obs aux)
                              (Ref.ref_terms QcNum ia im nc hc cs cb (to_spec QcNum ws k) theta obs aux).
Proof. exact roundtrip_likelihood_Qc. Qed.
(* ... and, through the C02 refinement on both sides, the IMPLEMENTATION model: when both specifications are accepted by build,
   the log-likelihood of the re-imported workspace equals that of the original at parameter points and data that agree by name
   (component j of the parameter called n, bin b of the channel called c, auxiliary datum j of the parameter called n),
   for any log-density primitives and interpolation functions *)
Theorem C18_roundtrip_loglik_R : forall ws x file k,
  write RNum ws = inl (x, file) -> w_obs RNum ws <> [] -> stat_ok RNum ws -> names_ok RNum ws ->
  lik_guard RNum ws -> (k < length (w_meas RNum ws))%nat -> cfg_guard RNum ws (nth k (w_meas RNum ws) (no_meas RNum)) ->
  exists ws', read RNum x file = inl ws' /\
    forall ia im st md md' logpois lognorm pars pars' data data' l l',
    Impl.build RNum (to_spec RNum ws k) = Impl.Ok md -> Impl.build RNum (to_spec RNum ws' k) = Impl.Ok md' -> RefineTop.clip_guard RNum st ->
    Impl.logpdf_terms RNum ia im (to_spec RNum ws k) st md pars data = Impl.Ok l ->
    Impl.logpdf_terms RNum ia im (to_spec RNum ws' k) st md' pars' data' = Impl.Ok l' ->
    (forall n j, RefineRates.theta RNum md' (Impl.parf RNum pars') n j = RefineRates.theta RNum md (Impl.parf RNum pars) n j) ->
    (forall c b, RefineTermsTop.obs_by_name RNum (to_spec RNum ws' k) data' c b = RefineTermsTop.obs_by_name RNum (to_spec RNum ws k) data c b) ->
    (forall n j, RefineTermsTop.aux_of_data RNum (to_spec RNum ws' k) md' data' n j = RefineTermsTop.aux_of_data RNum (to_spec RNum ws k) md data n j) ->
    RefineTerms.sumlog RNum logpois lognorm l' = RefineTerms.sumlog RNum logpois lognorm l.
Proof. exact roundtrip_loglik_R. Qed.
(* a workspace already in the shape the XML dictates (canonical_ws): same log-likelihood at the SAME parameter vector and the
   SAME data vector (the parameter layouts of the two models are derived to coincide).  This is the full version of
   C18_roundtrip_likelihood_partial_R. *)
Theorem C18_roundtrip_loglik_canonical_R : forall ws x file k,
  write RNum ws = inl (x, file) -> w_obs RNum ws <> [] -> stat_ok RNum ws -> names_ok RNum ws -> canonical_ws RNum ws ->
  (k < length (w_meas RNum ws))%nat -> cfg_guard RNum ws (nth k (w_meas RNum ws) (no_meas RNum)) ->
  exists ws', read RNum x file = inl ws' /\ w_channels RNum ws' = w_channels RNum ws /\
    forall ia im st md md' logpois lognorm pars data l l',
    Impl.build RNum (to_spec RNum ws k) = Impl.Ok md -> Impl.build RNum (to_spec RNum ws' k) = Impl.Ok md' -> RefineTop.clip_guard RNum st ->
    Impl.logpdf_terms RNum ia im (to_spec RNum ws k) st md pars data = Impl.Ok l ->
    Impl.logpdf_terms RNum ia im (to_spec RNum ws' k) st md' pars data = Impl.Ok l' ->
    RefineTerms.sumlog RNum logpois lognorm l' = RefineTerms.sumlog RNum logpois lognorm l.
Proof. exact roundtrip_loglik_canonical_R. Qed.
(* any listing order of the modifiers (lumi anywhere), provided no shapesys carries an uncertainty on a bin without yield
   (shape_guard: the same nom <> 0 guard as for staterror): same log-likelihood at the SAME parameter vector and data vector;
   the coincidence of the two parameter layouts is derived (build is independent of the listing order, C12) *)
Theorem C18_roundtrip_loglik_same_vector_R : forall ws x file k,
  write RNum ws = inl (x, file) -> w_obs RNum ws <> [] -> stat_ok RNum ws -> names_ok RNum ws ->
  lik_guard RNum ws -> shape_guard RNum ws -> (k < length (w_meas RNum ws))%nat -> cfg_guard RNum ws (nth k (w_meas RNum ws) (no_meas RNum)) ->
  exists ws', read RNum x file = inl ws' /\
    forall ia im st md md' logpois lognorm pars data l l',
    Impl.build RNum (to_spec RNum ws k) = Impl.Ok md -> Impl.build RNum (to_spec RNum ws' k) = Impl.Ok md' -> RefineTop.clip_guard RNum st ->
    Impl.logpdf_terms RNum ia im (to_spec RNum ws k) st md pars data = Impl.Ok l ->
    Impl.logpdf_terms RNum ia im (to_spec RNum ws' k) st md' pars data = Impl.Ok l' ->
    RefineTerms.sumlog RNum logpois lognorm l' = RefineTerms.sumlog RNum logpois lognorm l.
Proof. exact roundtrip_loglik_same_vector_R. Qed.
(* same vectors for ANY pair of specifications related by spec_rt (in particular every round trip of C18_roundtrip_spec_R), with
   the coincidence of the two parameter layouts as an explicit, decidable premise.
   PARTIAL: what is missing is the derivation of same_layout from the two `build = Ok` in the one case the theorems above do
   not cover -- a shapesys with an uncertainty on a bin without yield (the required parameter set is the same, since such a
   bin is invalid either way, but the proof through Impl.required_all for modifier data that differ is not done).
   lik_ws below is such a workspace and satisfies same_layout by computation. *)
Theorem C18_roundtrip_loglik_same_vector_partial_R : forall sp sp', spec_rt RNum sp sp' ->
  RefineTermsFinal.list_shape_ok RNum sp -> RefineTop.shape_ok RNum sp -> RefineTermsFinal.list_shape_ok RNum sp' -> RefineTop.shape_ok RNum sp' ->
  forall ia im st md md' logpois lognorm pars data l l',
  Impl.build RNum sp = Impl.Ok md -> Impl.build RNum sp' = Impl.Ok md' -> RefineTop.clip_guard RNum st -> same_layout RNum md md' ->
  Impl.logpdf_terms RNum ia im sp st md pars data = Impl.Ok l ->
  Impl.logpdf_terms RNum ia im sp' st md' pars data = Impl.Ok l' ->
  RefineTerms.sumlog RNum logpois lognorm l' = RefineTerms.sumlog RNum logpois lognorm l.
Proof. exact spec_rt_loglik_same_vector_R. Qed.
(* Workspace.data: the re-imported workspace lists the same main data (observations in the model's channel order) *)
Theorem C18_roundtrip_main_data_R : forall ws x file,
  write RNum ws = inl (x, file) -> w_obs RNum ws <> [] -> stat_ok RNum ws -> names_ok RNum ws -> NoDup (map fst (w_obs RNum ws)) ->
  exists ws', read RNum x file = inl ws' /\ main_data RNum ws' = main_data RNum ws.
Proof. exact (roundtrip_main_data RNum Rfield R_eqb_spec). Qed.
(* non-vacuity: lik_ws (two channels, lumi 2 +- 1/5 not listed first, fixed parameters, staterror, shapesys with an uncertainty on an
   empty bin, histosys, shared normsys, shapefactor, normfactor with custom bounds, two measurements) meets every premise ... *)
Theorem C18_roundtrip_likelihood_nonvacuous : forall k, (k < 2)%nat ->
  (exists x f, write QcNum lik_ws = inl (x, f)) /\ w_obs QcNum lik_ws <> [] /\ stat_ok QcNum lik_ws /\ names_ok QcNum lik_ws /\
  lik_guard QcNum lik_ws /\ (k < length (w_meas QcNum lik_ws))%nat /\ cfg_guard QcNum lik_ws (nth k (w_meas QcNum lik_ws) (no_meas QcNum)).
Proof. exact roundtrip_likelihood_nonvacuous. Qed.
(* ... both specifications are accepted by build, the log-likelihood is defined at the same parameter vector and the workspace's
   own data vector (which is also the re-imported workspace's data vector), and the layouts coincide *)
Theorem C18_roundtrip_loglik_nonvacuous : forall k, (k < 2)%nat ->
  exists x f ws' md md' pars data l l',
    write QcNum lik_ws = inl (x, f) /\ read QcNum x f = inl ws' /\
    Impl.build QcNum (to_spec QcNum lik_ws k) = Impl.Ok md /\ Impl.build QcNum (to_spec QcNum ws' k) = Impl.Ok md' /\
    RefineTop.clip_guard QcNum demo_st /\ same_layout QcNum md md' /\ data = to_data QcNum lik_ws md /\ to_data QcNum ws' md' = data /\
    Impl.logpdf_terms QcNum demo_ia demo_im (to_spec QcNum lik_ws k) demo_st md pars data = Impl.Ok l /\
    Impl.logpdf_terms QcNum demo_ia demo_im (to_spec QcNum ws' k) demo_st md' pars data = Impl.Ok l'.
Proof. exact roundtrip_loglik_nonvacuous. Qed.
(* ... and lik_ws2 (no shapesys uncertainty on the empty bin) meets the premises of C18_roundtrip_loglik_same_vector_R, with both
   specifications accepted and the log-likelihood defined (demo_impl_check) *)
Theorem C18_roundtrip_loglik_same_vector_nonvacuous : forall k, (k < 2)%nat ->
  ((exists x f, write QcNum lik_ws2 = inl (x, f)) /\ w_obs QcNum lik_ws2 <> [] /\ stat_ok QcNum lik_ws2 /\ names_ok QcNum lik_ws2 /\
   lik_guard QcNum lik_ws2 /\ (k < length (w_meas QcNum lik_ws2))%nat /\ cfg_guard QcNum lik_ws2 (nth k (w_meas QcNum lik_ws2) (no_meas QcNum))) /\
  shape_guard QcNum lik_ws2 /\ demo_impl_check lik_ws2 k = true.
Proof. exact roundtrip_loglik_same_vector_nonvacuous. Qed.

Print Assumptions C18_roundtrip_spec_R.
Print Assumptions C18_roundtrip_likelihood_R.
Print Assumptions C18_roundtrip_likelihood_Qc.
Print Assumptions C18_roundtrip_loglik_R.
Print Assumptions C18_roundtrip_loglik_canonical_R.
Print Assumptions C18_roundtrip_loglik_same_vector_R.
Print Assumptions C18_roundtrip_loglik_same_vector_partial_R.
Print Assumptions C18_roundtrip_main_data_R.
Print Assumptions C18_roundtrip_likelihood_nonvacuous.
Print Assumptions C18_roundtrip_loglik_nonvacuous.
Print Assumptions C18_roundtrip_loglik_same_vector_nonvacuous.

(* ======================= tie to the source (gen/XmlGen.v is translated from pyhf on every run; proofs in TieXml.v) =======================
   The hand model the theorems above are about IS what pyhf/writexml.py, pyhf/readxml.py and pyhf/compat.py say, function by function,
   for every number record N (the reading of the python values is stated in the header of gen/XmlGen.v). *)
Require PV.gen.XmlGen PV.TieXml.

(* writexml._make_hist_name: "hist" + the non-empty parts joined by "_" + suffix *)
Theorem C18_source_is_model_make_hist_name : forall c s m sfx, XmlGen.gen_make_hist_name c s m "hist" sfx = hist_name [c; s; m] sfx.
Proof. exact TieXml.tie_make_hist_name. Qed.
(* writexml._export_root_histogram: refuses a key that is present, stores the contents under the key otherwise *)
Theorem C18_source_is_model_export_root_histogram : forall N f k d, XmlGen.gen_export_root_histogram N f k d = export_one N (inl f) (k, d).
Proof. exact TieXml.tie_export_root_histogram. Qed.
(* writexml.build_modifier: which attributes per modifier type, Val/Low/High of a NormFactor from the FIRST measurement, the absolute ->
   relative conversion of staterror / shapesys with its nom <> 0 guard, which histogram lands under which key *)
Theorem C18_source_is_model_build_modifier : forall N ws m c s d, XmlGen.gen_build_modifier N ws m c s d = build_modifier N ws c s d m.
Proof. exact TieXml.tie_build_modifier. Qed.
Theorem C18_source_is_model_build_sample : forall N ws s c, XmlGen.gen_build_sample N ws s c = build_sample N ws c s.
Proof. exact TieXml.tie_build_sample. Qed.
Theorem C18_source_is_model_build_data : forall N ws c,
  (if XmlGen.lnonempty (w_obs N ws)
   then match XmlGen.gen_build_data N (w_obs N ws) c with inl r => inl (Some (fst r), snd r) | inr e => inr e end
   else inl (None, [])) = build_data N ws c.
Proof. exact TieXml.tie_build_data. Qed.
Theorem C18_source_is_model_build_channel : forall N ws ch, XmlGen.gen_build_channel N ws ch (w_obs N ws) = build_channel N ws ch.
Proof. exact TieXml.tie_build_channel. Qed.
(* writexml.build_measurement: Lumi, LumiRelErr = sigma / lumi, the ROOT names of the constant parameters, POI *)
Theorem C18_source_is_model_build_measurement : forall N m mt, XmlGen.gen_build_measurement N m mt = build_measurement N mt m.
Proof. exact TieXml.tie_build_measurement. Qed.
(* compat.interpret_rootname as process_measurements uses it (name of a scalar parameter, ValueError otherwise): prefixes alpha_ / gamma_, Lumi *)
Theorem C18_source_is_model_interpret_rootname : forall rxg s,
  interp s = match XmlGen.gen_interpret_rootname rxg s with
             | inl i => if XmlGen.tri_truth (XmlGen.i_is_scalar i) then inl (XmlGen.i_name i) else inr ENonScalar
             | inr e => inr (if XmlGen.starts_with "gamma_" s then ENonScalar else e)
             end.
Proof. exact TieXml.tie_interpret_rootname. Qed.
(* readxml.import_root_histogram: which key is looked up (on files none of whose keys starts with "/": all the writer produces) ... *)
Theorem C18_source_is_model_root_lookup : forall N f name, TieXml.keys_ok N f -> XmlGen.gen_root_lookup N f name = lookup_hist N f name.
Proof. exact TieXml.tie_root_lookup. Qed.
(* ... and when the file is opened again: the __FILECACHE__ logic is open_file of XmlCache.v (the signature test of the repaired code) *)
Theorem C18_source_is_model_import_root_histogram : forall N (X : Type) (st : state X (rootfile N)) dir name,
  XmlGen.gen_import_root_histogram N X st dir name =
  match open_file X (rootfile N) st dir with
  | None => inr ENoFile
  | Some (c, cache') => match XmlGen.gen_root_lookup N c name with inl v => inl (v, cache') | inr e => inr e end
  end.
Proof. exact TieXml.tie_import_root_histogram. Qed.
(* readxml.process_sample: modifier type per element, relative -> absolute conversion, NormFactor configs collected *)
Theorem C18_source_is_model_process_sample : forall N file cname xs, TieXml.keys_ok N file ->
  XmlGen.gen_process_sample N file cname xs = process_sample N file cname xs.
Proof. exact TieXml.tie_process_sample. Qed.
Theorem C18_source_is_model_process_data : forall N file h, TieXml.keys_ok N file -> XmlGen.gen_process_data N file h = lookup_hist N file h.
Proof. exact TieXml.tie_process_data. Qed.
Theorem C18_source_is_model_process_channel : forall N file xc, TieXml.keys_ok N file ->
  XmlGen.gen_process_channel N file xc = process_channel N file xc.
Proof. exact TieXml.tie_process_channel. Qed.
(* readxml.process_measurements: lumi config (auxdata, sigmas = relerr * lumi, inits, bounds), ParamSetting Const through interpret_rootname,
   the channel-level configs merged into every measurement - up to which of python's two ValueErrors a gamma_ name raises *)
Theorem C18_source_is_model_process_measurements : forall N rxg doc others,
  TieXml.map_err TieXml.verr (XmlGen.gen_process_measurements N rxg doc others)
  = TieXml.map_err TieXml.verr (mapM (process_measurement N others) (x_meas N doc)).
Proof. exact TieXml.tie_process_measurements. Qed.
(* readxml.dedupe_parameters: python compares every config of a name with the first of that name, the hand model every pair of equal names;
   N any number record whose equality test decides equality (both instances used: Qc_eqb_spec, R_eqb_spec of XmlInst.v) *)
Theorem C18_source_is_model_dedupe_parameters : forall N, (forall a b : V N, neqb N a b = true <-> a = b) ->
  forall l, XmlGen.gen_dedupe_parameters N l = dedupe N l.
Proof. exact TieXml.tie_dedupe_parameters. Qed.
Theorem C18_source_is_model_dedupe_parameters_Qc : forall l, XmlGen.gen_dedupe_parameters QcNum l = dedupe QcNum l.
Proof. exact TieXml.tie_dedupe_parameters_Qc. Qed.
(* compat.paramset_to_rootnames (no model of its own in Xml.v: the writer has its own prefix table): what it returns, and that interpret_rootname
   (the hand model interp) inverts it on scalar parameter sets under the guard of C18_name_guard *)
Theorem C18_source_is_model_paramset_to_rootnames : forall name sc co n,
  XmlGen.gen_paramset_to_rootnames name sc co n = TieXml.rootnames_spec name sc co n.
Proof. exact TieXml.tie_paramset_to_rootnames. Qed.
Theorem C18_paramset_rootname_inverted : forall name co n,
  name = "lumi"%string \/ (co = true /\ name <> ""%string) \/
  (co = false /\ strip_prefix "alpha_" name = None /\ strip_prefix "gamma_" name = None /\ name <> "Lumi"%string) ->
  match XmlGen.gen_paramset_to_rootnames name true co n with inl rn => interp rn = inl name | inr _ => False end.
Proof. exact TieXml.paramset_rootname_inverted. Qed.
(* readxml.clear_filecache is the Clear step of the state machine *)
Theorem C18_source_is_model_clear_filecache : forall N (X R : Type) (rd : X -> rootfile N -> R) nofile opn st,
  XmlGen.gen_clear_filecache N X st = step X (rootfile N) R rd nofile opn st (Clear X (rootfile N)).
Proof. exact TieXml.tie_clear_filecache. Qed.
(* the hypothesis keys_ok is met by a written file *)
Theorem C18_source_is_model_nonvacuous : exists x f, write QcNum demo_ws = inl (x, f) /\ TieXml.keys_ok QcNum f.
Proof. exact TieXml.ex_keys_ok. Qed.

Print Assumptions C18_source_is_model_make_hist_name.
Print Assumptions C18_source_is_model_export_root_histogram.
Print Assumptions C18_source_is_model_build_modifier.
Print Assumptions C18_source_is_model_build_sample.
Print Assumptions C18_source_is_model_build_data.
Print Assumptions C18_source_is_model_build_channel.
Print Assumptions C18_source_is_model_build_measurement.
Print Assumptions C18_source_is_model_interpret_rootname.
Print Assumptions C18_source_is_model_root_lookup.
Print Assumptions C18_source_is_model_import_root_histogram.
Print Assumptions C18_source_is_model_process_sample.
Print Assumptions C18_source_is_model_process_data.
Print Assumptions C18_source_is_model_process_channel.
Print Assumptions C18_source_is_model_process_measurements.
Print Assumptions C18_source_is_model_dedupe_parameters.
Print Assumptions C18_source_is_model_dedupe_parameters_Qc.
Print Assumptions C18_source_is_model_paramset_to_rootnames.
Print Assumptions C18_paramset_rootname_inverted.
Print Assumptions C18_source_is_model_clear_filecache.
Print Assumptions C18_source_is_model_nonvacuous.
