(* C18 - property theorems only.  Generic statements (any field with decidable equality) are stated at both
   instances: Qc (the model the correspondence run executes) and R. *)
From Coq Require Import String List QArith Qcanon Reals.
Require Import PV.Num PV.Json PV.Xml PV.XmlThms PV.XmlCache PV.XmlInst.
Import ListNotations.

(* export then import: channels, samples, yields, observations, POI, names, constant flags, lumi value and sigma,
   normfactor settings; modifier data as `expected_channel` says (equal where the yield is non-zero) *)
Theorem C18_roundtrip_model_Qc : forall ws x file,
  write QcNum ws = inl (x, file) -> w_obs QcNum ws <> [] -> stat_ok QcNum ws -> names_ok QcNum ws ->
  exists ws', read QcNum x file = inl ws' /\
    w_channels QcNum ws' = map (expected_channel QcNum) (w_channels QcNum ws) /\
    w_obs QcNum ws' = map (fun c => (c_name QcNum c, obs_of QcNum ws (c_name QcNum c))) (w_channels QcNum ws) /\
    Forall2 (meas_recovered QcNum (all_cfgs QcNum ws)) (w_meas QcNum ws) (w_meas QcNum ws').
Proof. exact roundtrip_model_Qc. Qed.
Theorem C18_roundtrip_model_R : forall ws x file,
  write RNum ws = inl (x, file) -> w_obs RNum ws <> [] -> stat_ok RNum ws -> names_ok RNum ws ->
  exists ws', read RNum x file = inl ws' /\
    w_channels RNum ws' = map (expected_channel RNum) (w_channels RNum ws) /\
    w_obs RNum ws' = map (fun c => (c_name RNum c, obs_of RNum ws (c_name RNum c))) (w_channels RNum ws) /\
    Forall2 (meas_recovered RNum (all_cfgs RNum ws)) (w_meas RNum ws) (w_meas RNum ws').
Proof. exact roundtrip_model_R. Qed.
(* the relative <-> absolute conversions lose nothing where every bin with an uncertainty has a non-zero yield *)
Theorem C18_modifier_data_survive_R : forall d nom, Forall2 (fun a b => b <> 0%R \/ a = 0%R) d nom ->
  stat_abs RNum (to_rel RNum d nom) nom = d /\ shape_abs RNum nom (to_rel RNum d nom) = d.
Proof. intros d nom H. rewrite (stat_roundtrip RNum Rfield R_eqb_spec), (shape_roundtrip RNum Rfield R_eqb_spec).
  split; apply (mask_id RNum R_eqb_spec); exact H. Qed.
Theorem C18_normfactor_recovered_R : forall ws x file ws',
  write RNum ws = inl (x, file) -> w_obs RNum ws <> [] -> stat_ok RNum ws -> names_ok RNum ws -> read RNum x file = inl ws' ->
  forall c s mo v l h, In c (w_channels RNum ws) -> In s (c_samples RNum c) -> In mo (s_mods RNum s) ->
    m_data RNum mo = DNormfactor -> m_name RNum mo <> "lumi"%string -> nf_settings RNum ws (m_name RNum mo) = inl (v, l, h) ->
    Forall (fun m' => exists q, In q (me_params RNum m') /\ p_name RNum q = m_name RNum mo /\ p_inits RNum q = Some [v]
                                /\ p_bounds RNum q = Some [(l, h)]) (w_meas RNum ws').
Proof. exact normfactor_recovered_R. Qed.
(* Val/Low/High of a NormFactor element: from the first measurement's parameter config, 1 / 0 / 10 when it has none *)
Theorem C18_normfactor_settings_default_R : forall ws m0 ms n, w_meas RNum ws = m0 :: ms ->
  Forall (fun p => String.eqb (p_name RNum p) n = false) (me_params RNum m0) ->
  nf_settings RNum ws n = inl (1%R, 0%R, 10%R).
Proof. exact (nf_settings_default RNum). Qed.
Theorem C18_normfactor_settings_custom_R : forall ws m0 ms n pre p post v vs l h bs,
  w_meas RNum ws = m0 :: ms -> me_params RNum m0 = pre ++ p :: post ->
  Forall (fun q => String.eqb (p_name RNum q) n = false) pre -> Forall (fun q => String.eqb (p_name RNum q) n = false) post ->
  p_name RNum p = n -> p_inits RNum p = Some (v :: vs) -> p_bounds RNum p = Some ((l, h) :: bs) ->
  nf_settings RNum ws n = inl (v, l, h).
Proof. exact (nf_settings_custom RNum). Qed.
Theorem C18_roundtrip_likelihood_partial_R : forall ws x file,
  write RNum ws = inl (x, file) -> w_obs RNum ws <> [] -> stat_ok RNum ws -> names_ok RNum ws -> canonical_ws RNum ws ->
  exists ws', read RNum x file = inl ws' /\ w_channels RNum ws' = w_channels RNum ws /\
    w_obs RNum ws' = map (fun c => (c_name RNum c, obs_of RNum ws (c_name RNum c))) (w_channels RNum ws) /\
    Forall2 (meas_recovered RNum (all_cfgs RNum ws)) (w_meas RNum ws) (w_meas RNum ws').
Proof. exact roundtrip_likelihood_partial_R. Qed.
(* the hypotheses are satisfiable (lumi 2 +- 1/5, all modifier types, two measurements, fixed parameters) *)
Theorem C18_roundtrip_nonvacuous :
  (exists x f, write QcNum demo_ws = inl (x, f)) /\ w_obs QcNum demo_ws <> [] /\ stat_ok QcNum demo_ws /\ names_ok QcNum demo_ws.
Proof. exact roundtrip_nonvacuous. Qed.
(* the name guard is the code's own: ROOT prefixes alpha_/Lumi/none are read back; gamma_ (fixed shapesys/staterror) is refused *)
Theorem C18_name_guard : forall mt n,
  n = "lumi"%string \/
  (exists ty, dict_get n mt = Some ty /\
     ((prefix_of ty = "alpha_"%string /\ n <> ""%string) \/
      (prefix_of ty = ""%string /\ strip_prefix "gamma_" n = None /\ strip_prefix "alpha_" n = None /\ n <> "Lumi"%string))) ->
  name_guard mt n.
Proof. exact name_guard_intro. Qed.

(* no history of exports, imports, cache clears and removals makes a parse return anything but the files on disk *)
Theorem C18_import_reads_current_file : forall (X C R : Type) (rd : X -> C -> R) (nofile : R) ops st0 dir, inv X C st0 ->
  fst (import X C R rd nofile (open_file X C) (run X C R rd nofile (open_file X C) ops st0) dir)
  = fresh X C R rd nofile (run X C R rd nofile (open_file X C) ops st0) dir.
Proof. exact import_reads_current_file. Qed.
Theorem C18_import_after_export : forall (X C R : Type) (rd : X -> C -> R) (nofile : R) ops1 ops2 st0 dir x c, inv X C st0 ->
  forallb (fun o => negb (touches X C dir o)) ops2 = true ->
  fst (import X C R rd nofile (open_file X C) (run X C R rd nofile (open_file X C) (ops1 ++ Export X C dir x c :: ops2) st0) dir) = rd x c.
Proof. exact import_after_export. Qed.

(* the two defects of the pinned tree, on its formulas *)
Theorem C18_roundtrip_lumi_refuted_old :
  exists ws x f ws', write_gen QcNum false ws = inl (x, f) /\ w_obs QcNum ws <> [] /\ stat_ok QcNum ws /\ names_ok QcNum ws /\
                     read QcNum x f = inl ws' /\ sigmas_of ws' <> sigmas_of ws.
Proof. exact roundtrip_lumi_refuted_old. Qed.
Theorem C18_import_reads_current_file_refuted_old :
  exists ops dir, let st := run unit nat nat (fun _ c => c) 0%nat (open_file_old unit nat) ops (init unit nat [] 0%nat) in
    fst (import unit nat nat (fun _ c => c) 0%nat (open_file_old unit nat) st dir) <> fresh unit nat nat (fun _ c => c) 0%nat st dir.
Proof. exact import_reads_current_file_refuted_old. Qed.

Print Assumptions C18_roundtrip_model_Qc.
Print Assumptions C18_roundtrip_model_R.
Print Assumptions C18_modifier_data_survive_R.
Print Assumptions C18_normfactor_recovered_R.
Print Assumptions C18_normfactor_settings_default_R.
Print Assumptions C18_normfactor_settings_custom_R.
Print Assumptions C18_roundtrip_likelihood_partial_R.
Print Assumptions C18_roundtrip_nonvacuous.
Print Assumptions C18_name_guard.
Print Assumptions C18_import_reads_current_file.
Print Assumptions C18_import_after_export.
Print Assumptions C18_roundtrip_lumi_refuted_old.
Print Assumptions C18_import_reads_current_file_refuted_old.
