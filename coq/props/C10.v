(* C10 - property theorems only. *)
From Coq Require Import String List Arith.
Require Import PV.Num PV.Sort PV.Spec PV.Impl PV.Batch.
Import ListNotations.

(* flat index arithmetic of the (N, npars) tensor: entry r * npars + i of the flattened tensor is entry i of row r *)
Theorem C10_flat_index : forall (A : Type) (d : A) n (rows : list (list A)) r i,
  (forall row, In row rows -> length row = n) -> r < length rows -> i < n ->
  nth (r * n + i) (concat rows) d = nth i (nth r rows []) d.
Proof. exact @nth_concat_rows. Qed.
(* for every batch size and all rows: the batched expected data is the row-wise map of the unbatched one,
   provided every parameter index the model reads lies inside the row (a decidable condition on the built model
   that the check evaluates for every generated model; proving it from build = Ok is future work: _partial) *)
Theorem C10_batched_expected_data_partial : forall N interp_add interp_mul (sp : spec N) (st : settings N) (md : model N) rows,
  reads_in_range N sp (cfg_channels N sp) (cfg_samples N sp) (cfg_modifiers N sp) md = true ->
  (forall row, In row rows -> length row = md_npars N md) ->
  expected_actualdata_batched N interp_add interp_mul sp st md rows = map (expected_actualdata N interp_add interp_mul sp st md) rows.
Proof. exact batched_expected_data. Qed.
Print Assumptions C10_flat_index.
Print Assumptions C10_batched_expected_data_partial.
