(* C10 - property theorems only. *)
From Coq Require Import String List Arith.
Require Import PV.Num PV.Sort PV.Spec PV.Impl PV.Batch PV.RefineParams PV.RefineLayout.
Import ListNotations.

(* flat index arithmetic of the (N, npars) tensor: entry r * npars + i of the flattened tensor is entry i of row r *)
Theorem C10_flat_index : forall (A : Type) (d : A) n (rows : list (list A)) r i,
  (forall row, In row rows -> length row = n) -> r < length rows -> i < n ->
  nth (r * n + i) (concat rows) d = nth i (nth r rows []) d.
Proof. exact @nth_concat_rows. Qed.
(* for every accepted specification, every batch size and all rows of the right length: the batched expected data is the
   row-wise map of the unbatched one (no per-model premise: every parameter index read through a declared cell lies inside
   the row by RefineParams.v / RefineLayout.v, and masked-out reads never reach the result) *)
Theorem C10_batched_expected_data : forall N interp_add interp_mul (sp : spec N) (st : settings N) (md : model N),
  build N sp = Ok md -> forall rows,
  (forall row, In row rows -> length row = md_npars N md) ->
  expected_actualdata_batched N interp_add interp_mul sp st md rows = map (expected_actualdata N interp_add interp_mul sp st md) rows.
Proof. exact batched_expected_data_full. Qed.
(* the same for the likelihood term lists (main Poisson terms, then the constraint terms): row r of the batched model is the
   unbatched model on row r of the parameters and row r of the data, including its refusals (wrong data length) *)
Theorem C10_batched_logpdf_terms : forall N interp_add interp_mul (sp : spec N) (st : settings N) (md : model N),
  build N sp = Ok md -> forall rows,
  (forall row, In row rows -> length row = md_npars N md) -> forall datas,
  logpdf_terms_batched N interp_add interp_mul sp st md rows datas =
  map (fun r => logpdf_terms N interp_add interp_mul sp st md (nth r rows []) (nth r datas [])) (seq 0 (length rows)).
Proof. exact batched_logpdf_terms_full. Qed.
Theorem C10_batched_logpdf_terms_rows : forall N interp_add interp_mul (sp : spec N) (st : settings N) (md : model N),
  build N sp = Ok md -> forall rows,
  (forall row, In row rows -> length row = md_npars N md) -> forall datas, length datas = length rows ->
  logpdf_terms_batched N interp_add interp_mul sp st md rows datas =
  map (fun rd => logpdf_terms N interp_add interp_mul sp st md (fst rd) (snd rd)) (combine rows datas).
Proof. exact batched_logpdf_terms_rows. Qed.
(* the decidable all-reads premise that the check still evaluates for every generated model (now a cross-check): it holds for
   every accepted specification with a non-empty parameter vector, in particular under the schema rule "sample data is not
   empty"; without that it is false of the model (witness: an empty sample, which pyhf's schema refuses) *)
Theorem C10_reads_in_range_accepted : forall N (sp : spec N) md, build N sp = Ok md -> 0 < md_npars N md ->
  reads_in_range N sp (cfg_channels N sp) (cfg_samples N sp) (cfg_modifiers N sp) md = true.
Proof. exact accepted_reads_in_range. Qed.
Theorem C10_reads_in_range_schema : forall N (sp : spec N) md, build N sp = Ok md -> data_nonempty N sp ->
  reads_in_range N sp (cfg_channels N sp) (cfg_samples N sp) (cfg_modifiers N sp) md = true.
Proof. exact accepted_reads_in_range_schema. Qed.
Theorem C10_reads_in_range_refuted :
  exists md, build QcNum empty_sample_spec = Ok md /\ md_npars QcNum md = 0 /\
    reads_in_range QcNum empty_sample_spec (cfg_channels QcNum empty_sample_spec) (cfg_samples QcNum empty_sample_spec)
                   (cfg_modifiers QcNum empty_sample_spec) md = false.
Proof. exact reads_in_range_refuted. Qed.
(* non-vacuity of the batched theorem on the 3-channel example of RefineLayout.v (13 parameters) *)
Theorem C10_layout_example_batched : forall ia im md rows, build QcNum layout_example_spec = Ok md ->
  (forall row, In row rows -> length row = 13) ->
  expected_actualdata_batched QcNum ia im layout_example_spec layout_example_st md rows =
  map (expected_actualdata QcNum ia im layout_example_spec layout_example_st md) rows.
Proof. exact layout_example_batched. Qed.
(* the auxiliary part (expected values of the constraint terms, in auxdata order) and the whole of Model.expected_data
   (main part ++ auxiliary part) of the batched model: row r is the unbatched model on row r, for every accepted specification,
   every combination of constrained modifier families, every batch size (BatchAux.v) *)
Require Import PV.BatchAux.
Theorem C10_batched_expected_auxdata : forall N (sp : spec N) (md : model N), build N sp = Ok md -> forall rows,
  (forall row, In row rows -> length row = md_npars N md) ->
  expected_auxdata_batched N md rows = map (expected_auxdata N md) rows.
Proof. exact batched_expected_auxdata. Qed.
Theorem C10_batched_expected_data_whole : forall N interp_add interp_mul (sp : spec N) (st : settings N) (md : model N),
  build N sp = Ok md -> forall rows,
  (forall row, In row rows -> length row = md_npars N md) ->
  expected_data_batched N interp_add interp_mul sp st md rows = map (expected_data N interp_add interp_mul sp st md) rows.
Proof. exact batched_expected_data_whole. Qed.
Theorem C10_batch_dimension_leading : forall N interp_add interp_mul (sp : spec N) (st : settings N) (md : model N) rows,
  length (expected_data_batched N interp_add interp_mul sp st md rows) = length rows.
Proof. exact batched_expected_data_rows. Qed.
Theorem C10_layout_example_batched_whole : forall ia im md rows, build QcNum layout_example_spec = Ok md ->
  (forall row, In row rows -> length row = 13) ->
  expected_data_batched QcNum ia im layout_example_spec layout_example_st md rows =
  map (expected_data QcNum ia im layout_example_spec layout_example_st md) rows.
Proof. exact layout_example_batched_whole. Qed.
Print Assumptions C10_flat_index.
Print Assumptions C10_batched_expected_data.
Print Assumptions C10_batched_logpdf_terms.
Print Assumptions C10_batched_logpdf_terms_rows.
Print Assumptions C10_reads_in_range_accepted.
Print Assumptions C10_reads_in_range_schema.
Print Assumptions C10_reads_in_range_refuted.
Print Assumptions C10_layout_example_batched.
Print Assumptions C10_batched_expected_auxdata.
Print Assumptions C10_batched_expected_data_whole.
Print Assumptions C10_batch_dimension_leading.
Print Assumptions C10_layout_example_batched_whole.
