(* C19 - property theorems only.  The fact table cli_options is regenerated from src/pyhf/cli/*.py on every run. *)
From Coq Require Import String List.
Require Import PV.Sort PV.Json PV.Cli PV.gen.FactsC19 PV.gen.CliGen PV.TieCli.
Import ListNotations.

(* every declared option / argument of every subcommand is consumed by the command body *)
Theorem C19_every_option_consumed : forall o, In o cli_options -> o_used o = true.
Proof. apply every_consumed_spec. apply every_consumed_unconsumed. exact every_option_consumed. Qed.
(* each option the property names flows into the documented argument of the library call *)
Theorem C19_option_reaches_documented_argument : not_reaching cli_options documented = [].
Proof. exact option_reaches_documented_argument. Qed.
Theorem C19_all_commands_present : forallb (has_cmd cli_options) commands_expected = true.
Proof. exact all_commands_present. Qed.
Theorem C19_documented_options_declared : forallb (fun d => declared cli_options (fst d) (snd d)) documented_decls = true.
Proof. exact documented_options_declared. Qed.
(* the optimiser/optconf reach the call that is last to set the global backend state (cls, fit) *)
Theorem C19_optimizer_state_set_last : forallb (last_carries cli_state_order) last_state_documented = true.
Proof. exact optimizer_state_set_last. Qed.
(* repeatable options consumed in a loop are folded over all their values (json2xml --patch) *)
Theorem C19_multiple_options_accumulate : non_accumulating cli_multi_loops = [].
Proof. exact multiple_options_accumulate. Qed.
(* model level *)
Theorem C19_file_equals_stdout : forall dumps newline (I E : Type) (library : I -> json + E) inp f,
  exit_code (run_cmd dumps newline I E library inp None) = 0 ->
  exists txt, files (run_cmd dumps newline I E library inp (Some f)) = [(f, txt)] /\
              stdout (run_cmd dumps newline I E library inp None) = (txt ++ newline)%string.
Proof. exact file_equals_stdout. Qed.
Theorem C19_exit_iff_library_ok : forall dumps newline (I E : Type) (library : I -> json + E) inp out,
  exit_code (run_cmd dumps newline I E library inp out) = 0 <-> exists j, library inp = inl j.
Proof. exact exit_iff_library_ok. Qed.
Theorem C19_render_key_order_insensitive : forall dumps a b, wfj a -> wfj b -> jsame a b = true -> render dumps a = render dumps b.
Proof. exact render_key_order_insensitive. Qed.


(* --- tie to the source: the bodies of the click commands are TRANSLATED to PV.gen.CliGen on every run (harness/props/c19_tie.py); coq/TieCli.v
   proves each translated command equal to Cli.run_cmd of a hand-written library composition (or to an explicit outcome), for ALL meanings of the
   opaque library functions: which function, which arguments, in which order (relative to patching and to set_backend), what goes to the file / stdout.
   cli/spec.py:inspect is not translated. --- *)
Local Open Scope list_scope.
Local Open Scope string_scope.
(* fit: --backend, then --optimizer/--optconf on the tensorlib current then, then the workspace, the PATCHED model, the data of that model, the fit; what is printed or dumped is the fit result *)
Theorem C19_source_is_model_fit :
  forall (E B TL Opt OptCls Conf Model Data Tensor FitR PSpec Slice P PS Patch Mount : Type) (newline : string) (dumps : json -> string)
           (show_nat : nat -> string) (type_error : E) (read_json : string -> res E json) (mkws : json -> res E json)
           (ws_prune : json -> list string -> list string -> list string -> list string -> list string -> res E json)
           (ws_rename : json -> list (string * string) -> list (string * string) -> list (string * string) -> list (string * string) -> res E json)
           (ws_combine : json -> json -> string -> bool -> res E json) (ws_sorted : json -> res E json) (digest : json -> string -> res E string)
           (set_backend_named : B -> string -> option string -> B) (set_backend_obj : B -> TL -> Opt -> B) (get_tensorlib : B -> TL)
           (dict_union : list Conf -> Conf) (get_optimizer : string -> option OptCls) (make_optimizer : OptCls -> Conf -> res E Opt)
           (ws_model : B -> json -> option string -> option (list json) -> option json -> res E Model) (ws_data : B -> json -> Model -> res E Data)
           (mle_fit : B -> Data -> Model -> bool -> res E FitR) (fit_as_tensor fit_first fit_last : FitR -> Tensor)
           (par_map : Model -> list (string * PSpec)) (ps_slice : PSpec -> Slice) (tensor_slice : Tensor -> Slice -> Tensor)
           (tolist : TL -> Tensor -> json) (hypotest : B -> P -> Data -> Model -> string -> string -> res E (Tensor * list Tensor))
           (mkps : json -> res E PS) (ps_getitem : PS -> option string -> res E Patch) (patch_metadata patch_ops : Patch -> json)
           (ps_metadata : PS -> json) (jupdate : json -> json -> json) (ps_apply : PS -> json -> option string -> res E json)
           (ps_verify : PS -> json -> res E unit) (ps_patches : PS -> list Patch) (patch_name : Patch -> string)
           (xml_parse : string -> string -> list Mount -> bool -> bool -> res E json) (path_join : string -> string -> string)
           (jsonpatch_apply : json -> json -> res E json) (writexml : json -> string -> string -> string -> res E string) (workspace : string)
           (output_file measurement : option string) (patch : list string) (value : bool) (backend optimizer : string) (optconf : list Conf) 
           (bk : B),
         outcome_of
           (gen_cli_fit E B TL Opt OptCls Conf Model Data Tensor FitR PSpec Slice P PS Patch Mount newline dumps show_nat type_error read_json mkws
              ws_prune ws_rename ws_combine ws_sorted digest set_backend_named set_backend_obj get_tensorlib dict_union get_optimizer make_optimizer
              ws_model ws_data mle_fit fit_as_tensor fit_first fit_last par_map ps_slice tensor_slice tolist hypotest mkps ps_getitem patch_metadata
              patch_ops ps_metadata jupdate ps_apply ps_verify ps_patches patch_name xml_parse path_join jsonpatch_apply writexml workspace output_file
              measurement patch value backend optimizer optconf bk) =
         run_cmd dumps newline (string * option string * list string * bool * string * string * list Conf) E
           (library_fit E B TL Opt OptCls Conf Model Data Tensor FitR PSpec Slice type_error read_json mkws set_backend_named set_backend_obj
              get_tensorlib dict_union get_optimizer make_optimizer ws_model ws_data mle_fit fit_as_tensor fit_first fit_last par_map ps_slice
              tensor_slice tolist bk) (workspace, measurement, patch, value, backend, optimizer, optconf) output_file.
Proof. exact tie_cli_fit. Qed.
(* cls: the patched model first (code4 / code4p), then backend and optimizer, then the data of that model and hypotest at the POI exactly as given *)
Theorem C19_source_is_model_cls :
  forall (E B TL Opt OptCls Conf Model Data Tensor FitR PSpec Slice P PS Patch Mount : Type) (newline : string) (dumps : json -> string)
           (show_nat : nat -> string) (type_error : E) (read_json : string -> res E json) (mkws : json -> res E json)
           (ws_prune : json -> list string -> list string -> list string -> list string -> list string -> res E json)
           (ws_rename : json -> list (string * string) -> list (string * string) -> list (string * string) -> list (string * string) -> res E json)
           (ws_combine : json -> json -> string -> bool -> res E json) (ws_sorted : json -> res E json) (digest : json -> string -> res E string)
           (set_backend_named : B -> string -> option string -> B) (set_backend_obj : B -> TL -> Opt -> B) (get_tensorlib : B -> TL)
           (dict_union : list Conf -> Conf) (get_optimizer : string -> option OptCls) (make_optimizer : OptCls -> Conf -> res E Opt)
           (ws_model : B -> json -> option string -> option (list json) -> option json -> res E Model) (ws_data : B -> json -> Model -> res E Data)
           (mle_fit : B -> Data -> Model -> bool -> res E FitR) (fit_as_tensor fit_first fit_last : FitR -> Tensor)
           (par_map : Model -> list (string * PSpec)) (ps_slice : PSpec -> Slice) (tensor_slice : Tensor -> Slice -> Tensor)
           (tolist : TL -> Tensor -> json) (hypotest : B -> P -> Data -> Model -> string -> string -> res E (Tensor * list Tensor))
           (mkps : json -> res E PS) (ps_getitem : PS -> option string -> res E Patch) (patch_metadata patch_ops : Patch -> json)
           (ps_metadata : PS -> json) (jupdate : json -> json -> json) (ps_apply : PS -> json -> option string -> res E json)
           (ps_verify : PS -> json -> res E unit) (ps_patches : PS -> list Patch) (patch_name : Patch -> string)
           (xml_parse : string -> string -> list Mount -> bool -> bool -> res E json) (path_join : string -> string -> string)
           (jsonpatch_apply : json -> json -> res E json) (writexml : json -> string -> string -> string -> res E string) (workspace : string)
           (output_file measurement : option string) (patch : list string) (test_poi : P) (test_stat backend optimizer calctype : string)
           (optconf : list Conf) (bk : B),
         outcome_of
           (gen_cli_cls E B TL Opt OptCls Conf Model Data Tensor FitR PSpec Slice P PS Patch Mount newline dumps show_nat type_error read_json mkws
              ws_prune ws_rename ws_combine ws_sorted digest set_backend_named set_backend_obj get_tensorlib dict_union get_optimizer make_optimizer
              ws_model ws_data mle_fit fit_as_tensor fit_first fit_last par_map ps_slice tensor_slice tolist hypotest mkps ps_getitem patch_metadata
              patch_ops ps_metadata jupdate ps_apply ps_verify ps_patches patch_name xml_parse path_join jsonpatch_apply writexml workspace output_file
              measurement patch test_poi test_stat backend optimizer calctype optconf bk) =
         run_cmd dumps newline (string * option string * list string * P * string * string * string * string * list Conf) E
           (library_cls E B TL Opt OptCls Conf Model Data Tensor P type_error read_json mkws set_backend_named set_backend_obj get_tensorlib dict_union
              get_optimizer make_optimizer ws_model ws_data tolist hypotest bk)
           (workspace, measurement, patch, test_poi, test_stat, backend, optimizer, calctype, optconf) output_file.
Proof. exact tie_cli_cls. Qed.
(* prune *)
Theorem C19_source_is_model_prune :
  forall (E B TL Opt OptCls Conf Model Data Tensor FitR PSpec Slice P PS Patch Mount : Type) (newline : string) (dumps : json -> string)
           (show_nat : nat -> string) (type_error : E) (read_json : string -> res E json) (mkws : json -> res E json)
           (ws_prune : json -> list string -> list string -> list string -> list string -> list string -> res E json)
           (ws_rename : json -> list (string * string) -> list (string * string) -> list (string * string) -> list (string * string) -> res E json)
           (ws_combine : json -> json -> string -> bool -> res E json) (ws_sorted : json -> res E json) (digest : json -> string -> res E string)
           (set_backend_named : B -> string -> option string -> B) (set_backend_obj : B -> TL -> Opt -> B) (get_tensorlib : B -> TL)
           (dict_union : list Conf -> Conf) (get_optimizer : string -> option OptCls) (make_optimizer : OptCls -> Conf -> res E Opt)
           (ws_model : B -> json -> option string -> option (list json) -> option json -> res E Model) (ws_data : B -> json -> Model -> res E Data)
           (mle_fit : B -> Data -> Model -> bool -> res E FitR) (fit_as_tensor fit_first fit_last : FitR -> Tensor)
           (par_map : Model -> list (string * PSpec)) (ps_slice : PSpec -> Slice) (tensor_slice : Tensor -> Slice -> Tensor)
           (tolist : TL -> Tensor -> json) (hypotest : B -> P -> Data -> Model -> string -> string -> res E (Tensor * list Tensor))
           (mkps : json -> res E PS) (ps_getitem : PS -> option string -> res E Patch) (patch_metadata patch_ops : Patch -> json)
           (ps_metadata : PS -> json) (jupdate : json -> json -> json) (ps_apply : PS -> json -> option string -> res E json)
           (ps_verify : PS -> json -> res E unit) (ps_patches : PS -> list Patch) (patch_name : Patch -> string)
           (xml_parse : string -> string -> list Mount -> bool -> bool -> res E json) (path_join : string -> string -> string)
           (jsonpatch_apply : json -> json -> res E json) (writexml : json -> string -> string -> string -> res E string) (workspace : string)
           (output_file : option string) (channel sample modifier modifier_type measurement : list string) (bk : B),
         outcome_of
           (gen_cli_prune E B TL Opt OptCls Conf Model Data Tensor FitR PSpec Slice P PS Patch Mount newline dumps show_nat type_error read_json mkws
              ws_prune ws_rename ws_combine ws_sorted digest set_backend_named set_backend_obj get_tensorlib dict_union get_optimizer make_optimizer
              ws_model ws_data mle_fit fit_as_tensor fit_first fit_last par_map ps_slice tensor_slice tolist hypotest mkps ps_getitem patch_metadata
              patch_ops ps_metadata jupdate ps_apply ps_verify ps_patches patch_name xml_parse path_join jsonpatch_apply writexml workspace output_file
              channel sample modifier modifier_type measurement bk) =
         run_cmd dumps newline (string * list string * list string * list string * list string * list string) E
           (library_prune E read_json mkws ws_prune) (workspace, channel, sample, modifier, modifier_type, measurement) output_file.
Proof. exact tie_cli_prune. Qed.
(* rename: each repeatable PATTERN REPLACE option becomes a dict (a later pair for the same pattern wins) *)
Theorem C19_source_is_model_rename :
  forall (E B TL Opt OptCls Conf Model Data Tensor FitR PSpec Slice P PS Patch Mount : Type) (newline : string) (dumps : json -> string)
           (show_nat : nat -> string) (type_error : E) (read_json : string -> res E json) (mkws : json -> res E json)
           (ws_prune : json -> list string -> list string -> list string -> list string -> list string -> res E json)
           (ws_rename : json -> list (string * string) -> list (string * string) -> list (string * string) -> list (string * string) -> res E json)
           (ws_combine : json -> json -> string -> bool -> res E json) (ws_sorted : json -> res E json) (digest : json -> string -> res E string)
           (set_backend_named : B -> string -> option string -> B) (set_backend_obj : B -> TL -> Opt -> B) (get_tensorlib : B -> TL)
           (dict_union : list Conf -> Conf) (get_optimizer : string -> option OptCls) (make_optimizer : OptCls -> Conf -> res E Opt)
           (ws_model : B -> json -> option string -> option (list json) -> option json -> res E Model) (ws_data : B -> json -> Model -> res E Data)
           (mle_fit : B -> Data -> Model -> bool -> res E FitR) (fit_as_tensor fit_first fit_last : FitR -> Tensor)
           (par_map : Model -> list (string * PSpec)) (ps_slice : PSpec -> Slice) (tensor_slice : Tensor -> Slice -> Tensor)
           (tolist : TL -> Tensor -> json) (hypotest : B -> P -> Data -> Model -> string -> string -> res E (Tensor * list Tensor))
           (mkps : json -> res E PS) (ps_getitem : PS -> option string -> res E Patch) (patch_metadata patch_ops : Patch -> json)
           (ps_metadata : PS -> json) (jupdate : json -> json -> json) (ps_apply : PS -> json -> option string -> res E json)
           (ps_verify : PS -> json -> res E unit) (ps_patches : PS -> list Patch) (patch_name : Patch -> string)
           (xml_parse : string -> string -> list Mount -> bool -> bool -> res E json) (path_join : string -> string -> string)
           (jsonpatch_apply : json -> json -> res E json) (writexml : json -> string -> string -> string -> res E string) (workspace : string)
           (output_file : option string) (channel sample modifier measurement : list (string * string)) (bk : B),
         outcome_of
           (gen_cli_rename E B TL Opt OptCls Conf Model Data Tensor FitR PSpec Slice P PS Patch Mount newline dumps show_nat type_error read_json mkws
              ws_prune ws_rename ws_combine ws_sorted digest set_backend_named set_backend_obj get_tensorlib dict_union get_optimizer make_optimizer
              ws_model ws_data mle_fit fit_as_tensor fit_first fit_last par_map ps_slice tensor_slice tolist hypotest mkps ps_getitem patch_metadata
              patch_ops ps_metadata jupdate ps_apply ps_verify ps_patches patch_name xml_parse path_join jsonpatch_apply writexml workspace output_file
              channel sample modifier measurement bk) =
         run_cmd dumps newline (string * list (string * string) * list (string * string) * list (string * string) * list (string * string)) E
           (library_rename E read_json mkws ws_rename) (workspace, channel, sample, modifier, measurement) output_file.
Proof. exact tie_cli_rename. Qed.
(* combine: both files are read before either is validated *)
Theorem C19_source_is_model_combine :
  forall (E B TL Opt OptCls Conf Model Data Tensor FitR PSpec Slice P PS Patch Mount : Type) (newline : string) (dumps : json -> string)
           (show_nat : nat -> string) (type_error : E) (read_json : string -> res E json) (mkws : json -> res E json)
           (ws_prune : json -> list string -> list string -> list string -> list string -> list string -> res E json)
           (ws_rename : json -> list (string * string) -> list (string * string) -> list (string * string) -> list (string * string) -> res E json)
           (ws_combine : json -> json -> string -> bool -> res E json) (ws_sorted : json -> res E json) (digest : json -> string -> res E string)
           (set_backend_named : B -> string -> option string -> B) (set_backend_obj : B -> TL -> Opt -> B) (get_tensorlib : B -> TL)
           (dict_union : list Conf -> Conf) (get_optimizer : string -> option OptCls) (make_optimizer : OptCls -> Conf -> res E Opt)
           (ws_model : B -> json -> option string -> option (list json) -> option json -> res E Model) (ws_data : B -> json -> Model -> res E Data)
           (mle_fit : B -> Data -> Model -> bool -> res E FitR) (fit_as_tensor fit_first fit_last : FitR -> Tensor)
           (par_map : Model -> list (string * PSpec)) (ps_slice : PSpec -> Slice) (tensor_slice : Tensor -> Slice -> Tensor)
           (tolist : TL -> Tensor -> json) (hypotest : B -> P -> Data -> Model -> string -> string -> res E (Tensor * list Tensor))
           (mkps : json -> res E PS) (ps_getitem : PS -> option string -> res E Patch) (patch_metadata patch_ops : Patch -> json)
           (ps_metadata : PS -> json) (jupdate : json -> json -> json) (ps_apply : PS -> json -> option string -> res E json)
           (ps_verify : PS -> json -> res E unit) (ps_patches : PS -> list Patch) (patch_name : Patch -> string)
           (xml_parse : string -> string -> list Mount -> bool -> bool -> res E json) (path_join : string -> string -> string)
           (jsonpatch_apply : json -> json -> res E json) (writexml : json -> string -> string -> string -> res E string)
           (workspace_one workspace_two join : string) (output_file : option string) (merge_channels : bool) (bk : B),
         outcome_of
           (gen_cli_combine E B TL Opt OptCls Conf Model Data Tensor FitR PSpec Slice P PS Patch Mount newline dumps show_nat type_error read_json mkws
              ws_prune ws_rename ws_combine ws_sorted digest set_backend_named set_backend_obj get_tensorlib dict_union get_optimizer make_optimizer
              ws_model ws_data mle_fit fit_as_tensor fit_first fit_last par_map ps_slice tensor_slice tolist hypotest mkps ps_getitem patch_metadata
              patch_ops ps_metadata jupdate ps_apply ps_verify ps_patches patch_name xml_parse path_join jsonpatch_apply writexml workspace_one
              workspace_two join output_file merge_channels bk) =
         run_cmd dumps newline (string * string * string * bool) E (library_combine E read_json mkws ws_combine)
           (workspace_one, workspace_two, join, merge_channels) output_file.
Proof. exact tie_cli_combine. Qed.
(* digest: one digest per algorithm in order; --json a sorted JSON object, otherwise algorithm:digest lines *)
Theorem C19_source_is_model_digest :
  forall (E B TL Opt OptCls Conf Model Data Tensor FitR PSpec Slice P PS Patch Mount : Type) (newline : string) (dumps : json -> string)
           (show_nat : nat -> string) (type_error : E) (read_json : string -> res E json) (mkws : json -> res E json)
           (ws_prune : json -> list string -> list string -> list string -> list string -> list string -> res E json)
           (ws_rename : json -> list (string * string) -> list (string * string) -> list (string * string) -> list (string * string) -> res E json)
           (ws_combine : json -> json -> string -> bool -> res E json) (ws_sorted : json -> res E json) (digest : json -> string -> res E string)
           (set_backend_named : B -> string -> option string -> B) (set_backend_obj : B -> TL -> Opt -> B) (get_tensorlib : B -> TL)
           (dict_union : list Conf -> Conf) (get_optimizer : string -> option OptCls) (make_optimizer : OptCls -> Conf -> res E Opt)
           (ws_model : B -> json -> option string -> option (list json) -> option json -> res E Model) (ws_data : B -> json -> Model -> res E Data)
           (mle_fit : B -> Data -> Model -> bool -> res E FitR) (fit_as_tensor fit_first fit_last : FitR -> Tensor)
           (par_map : Model -> list (string * PSpec)) (ps_slice : PSpec -> Slice) (tensor_slice : Tensor -> Slice -> Tensor)
           (tolist : TL -> Tensor -> json) (hypotest : B -> P -> Data -> Model -> string -> string -> res E (Tensor * list Tensor))
           (mkps : json -> res E PS) (ps_getitem : PS -> option string -> res E Patch) (patch_metadata patch_ops : Patch -> json)
           (ps_metadata : PS -> json) (jupdate : json -> json -> json) (ps_apply : PS -> json -> option string -> res E json)
           (ps_verify : PS -> json -> res E unit) (ps_patches : PS -> list Patch) (patch_name : Patch -> string)
           (xml_parse : string -> string -> list Mount -> bool -> bool -> res E json) (path_join : string -> string -> string)
           (jsonpatch_apply : json -> json -> res E json) (writexml : json -> string -> string -> string -> res E string) (workspace : string)
           (algorithm : list string) (output_json : bool) (bk : B),
         outcome_of
           (gen_cli_digest E B TL Opt OptCls Conf Model Data Tensor FitR PSpec Slice P PS Patch Mount newline dumps show_nat type_error read_json mkws
              ws_prune ws_rename ws_combine ws_sorted digest set_backend_named set_backend_obj get_tensorlib dict_union get_optimizer make_optimizer
              ws_model ws_data mle_fit fit_as_tensor fit_first fit_last par_map ps_slice tensor_slice tolist hypotest mkps ps_getitem patch_metadata
              patch_ops ps_metadata jupdate ps_apply ps_verify ps_patches patch_name xml_parse path_join jsonpatch_apply writexml workspace algorithm
              output_json bk) =
         match library_digests E read_json mkws digest (workspace, algorithm) with
         | Ok ds =>
             if output_json
             then emit dumps newline None (JObj (map (fun kv : string * string => (fst kv, JStr (snd kv))) ds))
             else
              {|
                exit_code := 0; stdout := String.concat newline (map (fun kv : string * string => fst kv ++ ":" ++ snd kv) ds) ++ newline; files := []
              |}
         | Err _ => {| exit_code := 1; stdout := ""; files := [] |}
         end.
Proof. exact tie_cli_digest. Qed.
(* sort: the SORTED workspace is what is printed and what is dumped *)
Theorem C19_source_is_model_sort :
  forall (E B TL Opt OptCls Conf Model Data Tensor FitR PSpec Slice P PS Patch Mount : Type) (newline : string) (dumps : json -> string)
           (show_nat : nat -> string) (type_error : E) (read_json : string -> res E json) (mkws : json -> res E json)
           (ws_prune : json -> list string -> list string -> list string -> list string -> list string -> res E json)
           (ws_rename : json -> list (string * string) -> list (string * string) -> list (string * string) -> list (string * string) -> res E json)
           (ws_combine : json -> json -> string -> bool -> res E json) (ws_sorted : json -> res E json) (digest : json -> string -> res E string)
           (set_backend_named : B -> string -> option string -> B) (set_backend_obj : B -> TL -> Opt -> B) (get_tensorlib : B -> TL)
           (dict_union : list Conf -> Conf) (get_optimizer : string -> option OptCls) (make_optimizer : OptCls -> Conf -> res E Opt)
           (ws_model : B -> json -> option string -> option (list json) -> option json -> res E Model) (ws_data : B -> json -> Model -> res E Data)
           (mle_fit : B -> Data -> Model -> bool -> res E FitR) (fit_as_tensor fit_first fit_last : FitR -> Tensor)
           (par_map : Model -> list (string * PSpec)) (ps_slice : PSpec -> Slice) (tensor_slice : Tensor -> Slice -> Tensor)
           (tolist : TL -> Tensor -> json) (hypotest : B -> P -> Data -> Model -> string -> string -> res E (Tensor * list Tensor))
           (mkps : json -> res E PS) (ps_getitem : PS -> option string -> res E Patch) (patch_metadata patch_ops : Patch -> json)
           (ps_metadata : PS -> json) (jupdate : json -> json -> json) (ps_apply : PS -> json -> option string -> res E json)
           (ps_verify : PS -> json -> res E unit) (ps_patches : PS -> list Patch) (patch_name : Patch -> string)
           (xml_parse : string -> string -> list Mount -> bool -> bool -> res E json) (path_join : string -> string -> string)
           (jsonpatch_apply : json -> json -> res E json) (writexml : json -> string -> string -> string -> res E string) (workspace : string)
           (output_file : option string) (bk : B),
         outcome_of
           (gen_cli_sort E B TL Opt OptCls Conf Model Data Tensor FitR PSpec Slice P PS Patch Mount newline dumps show_nat type_error read_json mkws
              ws_prune ws_rename ws_combine ws_sorted digest set_backend_named set_backend_obj get_tensorlib dict_union get_optimizer make_optimizer
              ws_model ws_data mle_fit fit_as_tensor fit_first fit_last par_map ps_slice tensor_slice tolist hypotest mkps ps_getitem patch_metadata
              patch_ops ps_metadata jupdate ps_apply ps_verify ps_patches patch_name xml_parse path_join jsonpatch_apply writexml workspace output_file
              bk) = run_cmd dumps newline string E (library_sort E read_json mkws ws_sorted) workspace output_file.
Proof. exact tie_cli_sort. Qed.
(* patchset extract (a file is written only for a non-empty --output-file) *)
Theorem C19_source_is_model_patchset_extract :
  forall (E B TL Opt OptCls Conf Model Data Tensor FitR PSpec Slice P PS Patch Mount : Type) (newline : string) (dumps : json -> string)
           (show_nat : nat -> string) (type_error : E) (read_json : string -> res E json) (mkws : json -> res E json)
           (ws_prune : json -> list string -> list string -> list string -> list string -> list string -> res E json)
           (ws_rename : json -> list (string * string) -> list (string * string) -> list (string * string) -> list (string * string) -> res E json)
           (ws_combine : json -> json -> string -> bool -> res E json) (ws_sorted : json -> res E json) (digest : json -> string -> res E string)
           (set_backend_named : B -> string -> option string -> B) (set_backend_obj : B -> TL -> Opt -> B) (get_tensorlib : B -> TL)
           (dict_union : list Conf -> Conf) (get_optimizer : string -> option OptCls) (make_optimizer : OptCls -> Conf -> res E Opt)
           (ws_model : B -> json -> option string -> option (list json) -> option json -> res E Model) (ws_data : B -> json -> Model -> res E Data)
           (mle_fit : B -> Data -> Model -> bool -> res E FitR) (fit_as_tensor fit_first fit_last : FitR -> Tensor)
           (par_map : Model -> list (string * PSpec)) (ps_slice : PSpec -> Slice) (tensor_slice : Tensor -> Slice -> Tensor)
           (tolist : TL -> Tensor -> json) (hypotest : B -> P -> Data -> Model -> string -> string -> res E (Tensor * list Tensor))
           (mkps : json -> res E PS) (ps_getitem : PS -> option string -> res E Patch) (patch_metadata patch_ops : Patch -> json)
           (ps_metadata : PS -> json) (jupdate : json -> json -> json) (ps_apply : PS -> json -> option string -> res E json)
           (ps_verify : PS -> json -> res E unit) (ps_patches : PS -> list Patch) (patch_name : Patch -> string)
           (xml_parse : string -> string -> list Mount -> bool -> bool -> res E json) (path_join : string -> string -> string)
           (jsonpatch_apply : json -> json -> res E json) (writexml : json -> string -> string -> string -> res E string) (patchset : string)
           (name output_file : option string) (with_metadata : bool) (bk : B),
         outcome_of
           (gen_cli_patchset_extract E B TL Opt OptCls Conf Model Data Tensor FitR PSpec Slice P PS Patch Mount newline dumps show_nat type_error
              read_json mkws ws_prune ws_rename ws_combine ws_sorted digest set_backend_named set_backend_obj get_tensorlib dict_union get_optimizer
              make_optimizer ws_model ws_data mle_fit fit_as_tensor fit_first fit_last par_map ps_slice tensor_slice tolist hypotest mkps ps_getitem
              patch_metadata patch_ops ps_metadata jupdate ps_apply ps_verify ps_patches patch_name xml_parse path_join jsonpatch_apply writexml
              patchset name output_file with_metadata bk) =
         run_cmd dumps newline (string * option string * bool) E
           (library_extract E PS Patch read_json mkps ps_getitem patch_metadata patch_ops ps_metadata jupdate) (patchset, name, with_metadata)
           (truthy output_file).
Proof. exact tie_cli_patchset_extract. Qed.
(* patchset apply: PatchSet.apply (which verifies the digests) on the validated background-only workspace *)
Theorem C19_source_is_model_patchset_apply :
  forall (E B TL Opt OptCls Conf Model Data Tensor FitR PSpec Slice P PS Patch Mount : Type) (newline : string) (dumps : json -> string)
           (show_nat : nat -> string) (type_error : E) (read_json : string -> res E json) (mkws : json -> res E json)
           (ws_prune : json -> list string -> list string -> list string -> list string -> list string -> res E json)
           (ws_rename : json -> list (string * string) -> list (string * string) -> list (string * string) -> list (string * string) -> res E json)
           (ws_combine : json -> json -> string -> bool -> res E json) (ws_sorted : json -> res E json) (digest : json -> string -> res E string)
           (set_backend_named : B -> string -> option string -> B) (set_backend_obj : B -> TL -> Opt -> B) (get_tensorlib : B -> TL)
           (dict_union : list Conf -> Conf) (get_optimizer : string -> option OptCls) (make_optimizer : OptCls -> Conf -> res E Opt)
           (ws_model : B -> json -> option string -> option (list json) -> option json -> res E Model) (ws_data : B -> json -> Model -> res E Data)
           (mle_fit : B -> Data -> Model -> bool -> res E FitR) (fit_as_tensor fit_first fit_last : FitR -> Tensor)
           (par_map : Model -> list (string * PSpec)) (ps_slice : PSpec -> Slice) (tensor_slice : Tensor -> Slice -> Tensor)
           (tolist : TL -> Tensor -> json) (hypotest : B -> P -> Data -> Model -> string -> string -> res E (Tensor * list Tensor))
           (mkps : json -> res E PS) (ps_getitem : PS -> option string -> res E Patch) (patch_metadata patch_ops : Patch -> json)
           (ps_metadata : PS -> json) (jupdate : json -> json -> json) (ps_apply : PS -> json -> option string -> res E json)
           (ps_verify : PS -> json -> res E unit) (ps_patches : PS -> list Patch) (patch_name : Patch -> string)
           (xml_parse : string -> string -> list Mount -> bool -> bool -> res E json) (path_join : string -> string -> string)
           (jsonpatch_apply : json -> json -> res E json) (writexml : json -> string -> string -> string -> res E string)
           (background_only patchset : string) (name output_file : option string) (bk : B),
         outcome_of
           (gen_cli_patchset_apply E B TL Opt OptCls Conf Model Data Tensor FitR PSpec Slice P PS Patch Mount newline dumps show_nat type_error
              read_json mkws ws_prune ws_rename ws_combine ws_sorted digest set_backend_named set_backend_obj get_tensorlib dict_union get_optimizer
              make_optimizer ws_model ws_data mle_fit fit_as_tensor fit_first fit_last par_map ps_slice tensor_slice tolist hypotest mkps ps_getitem
              patch_metadata patch_ops ps_metadata jupdate ps_apply ps_verify ps_patches patch_name xml_parse path_join jsonpatch_apply writexml
              background_only patchset name output_file bk) =
         run_cmd dumps newline (string * string * option string) E (library_apply E PS read_json mkws mkps ps_apply) (background_only, patchset, name)
           (truthy output_file).
Proof. exact tie_cli_patchset_apply. Qed.
(* patchset verify *)
Theorem C19_source_is_model_patchset_verify :
  forall (E B TL Opt OptCls Conf Model Data Tensor FitR PSpec Slice P PS Patch Mount : Type) (newline : string) (dumps : json -> string)
           (show_nat : nat -> string) (type_error : E) (read_json : string -> res E json) (mkws : json -> res E json)
           (ws_prune : json -> list string -> list string -> list string -> list string -> list string -> res E json)
           (ws_rename : json -> list (string * string) -> list (string * string) -> list (string * string) -> list (string * string) -> res E json)
           (ws_combine : json -> json -> string -> bool -> res E json) (ws_sorted : json -> res E json) (digest : json -> string -> res E string)
           (set_backend_named : B -> string -> option string -> B) (set_backend_obj : B -> TL -> Opt -> B) (get_tensorlib : B -> TL)
           (dict_union : list Conf -> Conf) (get_optimizer : string -> option OptCls) (make_optimizer : OptCls -> Conf -> res E Opt)
           (ws_model : B -> json -> option string -> option (list json) -> option json -> res E Model) (ws_data : B -> json -> Model -> res E Data)
           (mle_fit : B -> Data -> Model -> bool -> res E FitR) (fit_as_tensor fit_first fit_last : FitR -> Tensor)
           (par_map : Model -> list (string * PSpec)) (ps_slice : PSpec -> Slice) (tensor_slice : Tensor -> Slice -> Tensor)
           (tolist : TL -> Tensor -> json) (hypotest : B -> P -> Data -> Model -> string -> string -> res E (Tensor * list Tensor))
           (mkps : json -> res E PS) (ps_getitem : PS -> option string -> res E Patch) (patch_metadata patch_ops : Patch -> json)
           (ps_metadata : PS -> json) (jupdate : json -> json -> json) (ps_apply : PS -> json -> option string -> res E json)
           (ps_verify : PS -> json -> res E unit) (ps_patches : PS -> list Patch) (patch_name : Patch -> string)
           (xml_parse : string -> string -> list Mount -> bool -> bool -> res E json) (path_join : string -> string -> string)
           (jsonpatch_apply : json -> json -> res E json) (writexml : json -> string -> string -> string -> res E string)
           (background_only patchset : string) (bk : B),
         outcome_of
           (gen_cli_patchset_verify E B TL Opt OptCls Conf Model Data Tensor FitR PSpec Slice P PS Patch Mount newline dumps show_nat type_error
              read_json mkws ws_prune ws_rename ws_combine ws_sorted digest set_backend_named set_backend_obj get_tensorlib dict_union get_optimizer
              make_optimizer ws_model ws_data mle_fit fit_as_tensor fit_first fit_last par_map ps_slice tensor_slice tolist hypotest mkps ps_getitem
              patch_metadata patch_ops ps_metadata jupdate ps_apply ps_verify ps_patches patch_name xml_parse path_join jsonpatch_apply writexml
              background_only patchset bk) =
         match library_verify E PS read_json mkws mkps ps_verify (background_only, patchset) with
         | Ok _ => {| exit_code := 0; stdout := "All good." ++ newline; files := [] |}
         | Err _ => {| exit_code := 1; stdout := ""; files := [] |}
         end.
Proof. exact tie_cli_patchset_verify. Qed.
(* patchset inspect *)
Theorem C19_source_is_model_patchset_inspect :
  forall (E B TL Opt OptCls Conf Model Data Tensor FitR PSpec Slice P PS Patch Mount : Type) (newline : string) (dumps : json -> string)
           (show_nat : nat -> string) (type_error : E) (read_json : string -> res E json) (mkws : json -> res E json)
           (ws_prune : json -> list string -> list string -> list string -> list string -> list string -> res E json)
           (ws_rename : json -> list (string * string) -> list (string * string) -> list (string * string) -> list (string * string) -> res E json)
           (ws_combine : json -> json -> string -> bool -> res E json) (ws_sorted : json -> res E json) (digest : json -> string -> res E string)
           (set_backend_named : B -> string -> option string -> B) (set_backend_obj : B -> TL -> Opt -> B) (get_tensorlib : B -> TL)
           (dict_union : list Conf -> Conf) (get_optimizer : string -> option OptCls) (make_optimizer : OptCls -> Conf -> res E Opt)
           (ws_model : B -> json -> option string -> option (list json) -> option json -> res E Model) (ws_data : B -> json -> Model -> res E Data)
           (mle_fit : B -> Data -> Model -> bool -> res E FitR) (fit_as_tensor fit_first fit_last : FitR -> Tensor)
           (par_map : Model -> list (string * PSpec)) (ps_slice : PSpec -> Slice) (tensor_slice : Tensor -> Slice -> Tensor)
           (tolist : TL -> Tensor -> json) (hypotest : B -> P -> Data -> Model -> string -> string -> res E (Tensor * list Tensor))
           (mkps : json -> res E PS) (ps_getitem : PS -> option string -> res E Patch) (patch_metadata patch_ops : Patch -> json)
           (ps_metadata : PS -> json) (jupdate : json -> json -> json) (ps_apply : PS -> json -> option string -> res E json)
           (ps_verify : PS -> json -> res E unit) (ps_patches : PS -> list Patch) (patch_name : Patch -> string)
           (xml_parse : string -> string -> list Mount -> bool -> bool -> res E json) (path_join : string -> string -> string)
           (jsonpatch_apply : json -> json -> res E json) (writexml : json -> string -> string -> string -> res E string) (patchset : string) 
           (bk : B),
         outcome_of
           (gen_cli_patchset_inspect E B TL Opt OptCls Conf Model Data Tensor FitR PSpec Slice P PS Patch Mount newline dumps show_nat type_error
              read_json mkws ws_prune ws_rename ws_combine ws_sorted digest set_backend_named set_backend_obj get_tensorlib dict_union get_optimizer
              make_optimizer ws_model ws_data mle_fit fit_as_tensor fit_first fit_last par_map ps_slice tensor_slice tolist hypotest mkps ps_getitem
              patch_metadata patch_ops ps_metadata jupdate ps_apply ps_verify ps_patches patch_name xml_parse path_join jsonpatch_apply writexml
              patchset bk) =
         match match read_json patchset with
               | Ok j => mkps j
               | Err e => Err e
               end with
         | Ok ps =>
             {|
               exit_code := 0;
               stdout :=
                 String.concat ""
                   ([((newline ++ "    ") ++ show_nat (Datatypes.length (ps_patches ps)) ++ " patches found in Patchset") ++ newline;
                     ("---------------------------------" ++ newline) ++ newline] ++ map (fun p : Patch => patch_name p ++ newline) (ps_patches ps));
               files := []
             |}
         | Err _ => {| exit_code := 1; stdout := ""; files := [] |}
         end.
Proof. exact tie_cli_patchset_inspect. Qed.
(* xml2json *)
Theorem C19_source_is_model_xml2json :
  forall (E B TL Opt OptCls Conf Model Data Tensor FitR PSpec Slice P PS Patch Mount : Type) (newline : string) (dumps : json -> string)
           (show_nat : nat -> string) (type_error : E) (read_json : string -> res E json) (mkws : json -> res E json)
           (ws_prune : json -> list string -> list string -> list string -> list string -> list string -> res E json)
           (ws_rename : json -> list (string * string) -> list (string * string) -> list (string * string) -> list (string * string) -> res E json)
           (ws_combine : json -> json -> string -> bool -> res E json) (ws_sorted : json -> res E json) (digest : json -> string -> res E string)
           (set_backend_named : B -> string -> option string -> B) (set_backend_obj : B -> TL -> Opt -> B) (get_tensorlib : B -> TL)
           (dict_union : list Conf -> Conf) (get_optimizer : string -> option OptCls) (make_optimizer : OptCls -> Conf -> res E Opt)
           (ws_model : B -> json -> option string -> option (list json) -> option json -> res E Model) (ws_data : B -> json -> Model -> res E Data)
           (mle_fit : B -> Data -> Model -> bool -> res E FitR) (fit_as_tensor fit_first fit_last : FitR -> Tensor)
           (par_map : Model -> list (string * PSpec)) (ps_slice : PSpec -> Slice) (tensor_slice : Tensor -> Slice -> Tensor)
           (tolist : TL -> Tensor -> json) (hypotest : B -> P -> Data -> Model -> string -> string -> res E (Tensor * list Tensor))
           (mkps : json -> res E PS) (ps_getitem : PS -> option string -> res E Patch) (patch_metadata patch_ops : Patch -> json)
           (ps_metadata : PS -> json) (jupdate : json -> json -> json) (ps_apply : PS -> json -> option string -> res E json)
           (ps_verify : PS -> json -> res E unit) (ps_patches : PS -> list Patch) (patch_name : Patch -> string)
           (xml_parse : string -> string -> list Mount -> bool -> bool -> res E json) (path_join : string -> string -> string)
           (jsonpatch_apply : json -> json -> res E json) (writexml : json -> string -> string -> string -> res E string)
           (entrypoint_xml basedir : string) (mount : list Mount) (output_file : option string) (track_progress validation_as_error : bool) 
           (bk : B),
         outcome_of
           (gen_cli_xml2json E B TL Opt OptCls Conf Model Data Tensor FitR PSpec Slice P PS Patch Mount newline dumps show_nat type_error read_json
              mkws ws_prune ws_rename ws_combine ws_sorted digest set_backend_named set_backend_obj get_tensorlib dict_union get_optimizer
              make_optimizer ws_model ws_data mle_fit fit_as_tensor fit_first fit_last par_map ps_slice tensor_slice tolist hypotest mkps ps_getitem
              patch_metadata patch_ops ps_metadata jupdate ps_apply ps_verify ps_patches patch_name xml_parse path_join jsonpatch_apply writexml
              entrypoint_xml basedir mount output_file track_progress validation_as_error bk) =
         run_cmd dumps newline (string * string * list Mount * bool * bool) E (library_xml2json E Mount xml_parse)
           (entrypoint_xml, basedir, mount, track_progress, validation_as_error) output_file.
Proof. exact tie_cli_xml2json. Qed.
(* json2xml: EVERY --patch applied in order, each to the result of the previous one *)
Theorem C19_source_is_model_json2xml :
  forall (E B TL Opt OptCls Conf Model Data Tensor FitR PSpec Slice P PS Patch Mount : Type) (newline : string) (dumps : json -> string)
           (show_nat : nat -> string) (type_error : E) (read_json : string -> res E json) (mkws : json -> res E json)
           (ws_prune : json -> list string -> list string -> list string -> list string -> list string -> res E json)
           (ws_rename : json -> list (string * string) -> list (string * string) -> list (string * string) -> list (string * string) -> res E json)
           (ws_combine : json -> json -> string -> bool -> res E json) (ws_sorted : json -> res E json) (digest : json -> string -> res E string)
           (set_backend_named : B -> string -> option string -> B) (set_backend_obj : B -> TL -> Opt -> B) (get_tensorlib : B -> TL)
           (dict_union : list Conf -> Conf) (get_optimizer : string -> option OptCls) (make_optimizer : OptCls -> Conf -> res E Opt)
           (ws_model : B -> json -> option string -> option (list json) -> option json -> res E Model) (ws_data : B -> json -> Model -> res E Data)
           (mle_fit : B -> Data -> Model -> bool -> res E FitR) (fit_as_tensor fit_first fit_last : FitR -> Tensor)
           (par_map : Model -> list (string * PSpec)) (ps_slice : PSpec -> Slice) (tensor_slice : Tensor -> Slice -> Tensor)
           (tolist : TL -> Tensor -> json) (hypotest : B -> P -> Data -> Model -> string -> string -> res E (Tensor * list Tensor))
           (mkps : json -> res E PS) (ps_getitem : PS -> option string -> res E Patch) (patch_metadata patch_ops : Patch -> json)
           (ps_metadata : PS -> json) (jupdate : json -> json -> json) (ps_apply : PS -> json -> option string -> res E json)
           (ps_verify : PS -> json -> res E unit) (ps_patches : PS -> list Patch) (patch_name : Patch -> string)
           (xml_parse : string -> string -> list Mount -> bool -> bool -> res E json) (path_join : string -> string -> string)
           (jsonpatch_apply : json -> json -> res E json) (writexml : json -> string -> string -> string -> res E string)
           (workspace output_dir specroot dataroot resultprefix : string) (patch : list string) (bk : B),
         gen_cli_json2xml E B TL Opt OptCls Conf Model Data Tensor FitR PSpec Slice P PS Patch Mount newline dumps show_nat type_error read_json mkws
           ws_prune ws_rename ws_combine ws_sorted digest set_backend_named set_backend_obj get_tensorlib dict_union get_optimizer make_optimizer
           ws_model ws_data mle_fit fit_as_tensor fit_first fit_last par_map ps_slice tensor_slice tolist hypotest mkps ps_getitem patch_metadata
           patch_ops ps_metadata jupdate ps_apply ps_verify ps_patches patch_name xml_parse path_join jsonpatch_apply writexml workspace output_dir
           specroot dataroot resultprefix patch bk =
         match read_json workspace with
         | Ok j =>
             match apply_patches E read_json jsonpatch_apply j patch with
             | Ok spec =>
                 match writexml spec (path_join output_dir specroot) (path_join output_dir dataroot) resultprefix with
                 | Ok xml =>
                     Ok
                       (bk, [],
                        [MkDir output_dir; MkDir (path_join output_dir specroot); MkDir (path_join output_dir dataroot);
                         Write (path_join output_dir (resultprefix ++ ".xml")) xml])
                 | Err e => Err e
                 end
             | Err e => Err e
             end
         | Err e => Err e
         end.
Proof. exact tie_cli_json2xml. Qed.

Print Assumptions C19_every_option_consumed.
Print Assumptions C19_option_reaches_documented_argument.
Print Assumptions C19_all_commands_present.
Print Assumptions C19_documented_options_declared.
Print Assumptions C19_optimizer_state_set_last.
Print Assumptions C19_multiple_options_accumulate.
Print Assumptions C19_file_equals_stdout.
Print Assumptions C19_exit_iff_library_ok.
Print Assumptions C19_render_key_order_insensitive.
Print Assumptions C19_source_is_model_fit.
Print Assumptions C19_source_is_model_cls.
Print Assumptions C19_source_is_model_prune.
Print Assumptions C19_source_is_model_rename.
Print Assumptions C19_source_is_model_combine.
Print Assumptions C19_source_is_model_digest.
Print Assumptions C19_source_is_model_sort.
Print Assumptions C19_source_is_model_patchset_extract.
Print Assumptions C19_source_is_model_patchset_apply.
Print Assumptions C19_source_is_model_patchset_verify.
Print Assumptions C19_source_is_model_patchset_inspect.
Print Assumptions C19_source_is_model_xml2json.
Print Assumptions C19_source_is_model_json2xml.
