(* C19 - property theorems only.  The fact table cli_options is regenerated from src/pyhf/cli/*.py on every run. *)
From Coq Require Import String List.
Require Import PV.Json PV.Cli PV.gen.FactsC19.
Import ListNotations.

(* every declared option / argument of every subcommand is consumed by the command body *)
Theorem C19_every_option_consumed : forall o, In o cli_options -> o_used o = true.
Proof. apply every_consumed_spec. apply every_consumed_unconsumed. exact every_option_consumed. Qed.
(* each option the property names flows into the documented argument of the library call *)
Theorem C19_option_reaches_documented_argument : not_reaching cli_options documented = [].
Proof. exact option_reaches_documented_argument. Qed.
Theorem C19_all_commands_present : forallb (has_cmd cli_options) commands_expected = true.
Proof. exact all_commands_present. Qed.
Theorem C19_documented_options_declared : forallb (fun d => declared cli_options (fst d) (snd d)) documented_decls = true.
Proof. exact documented_options_declared. Qed.
(* the optimiser/optconf reach the call that is last to set the global backend state (cls, fit) *)
Theorem C19_optimizer_state_set_last : forallb (last_carries cli_state_order) last_state_documented = true.
Proof. exact optimizer_state_set_last. Qed.
(* repeatable options consumed in a loop are folded over all their values (json2xml --patch) *)
Theorem C19_multiple_options_accumulate : non_accumulating cli_multi_loops = [].
Proof. exact multiple_options_accumulate. Qed.
(* model level *)
Theorem C19_file_equals_stdout : forall dumps newline (I E : Type) (library : I -> json + E) inp f,
  exit_code (run_cmd dumps newline I E library inp None) = 0 ->
  exists txt, files (run_cmd dumps newline I E library inp (Some f)) = [(f, txt)] /\
              stdout (run_cmd dumps newline I E library inp None) = (txt ++ newline)%string.
Proof. exact file_equals_stdout. Qed.
Theorem C19_exit_iff_library_ok : forall dumps newline (I E : Type) (library : I -> json + E) inp out,
  exit_code (run_cmd dumps newline I E library inp out) = 0 <-> exists j, library inp = inl j.
Proof. exact exit_iff_library_ok. Qed.
Theorem C19_render_key_order_insensitive : forall dumps a b, wfj a -> wfj b -> jsame a b = true -> render dumps a = render dumps b.
Proof. exact render_key_order_insensitive. Qed.

Print Assumptions C19_every_option_consumed.
Print Assumptions C19_option_reaches_documented_argument.
Print Assumptions C19_all_commands_present.
Print Assumptions C19_documented_options_declared.
Print Assumptions C19_optimizer_state_set_last.
Print Assumptions C19_multiple_options_accumulate.
Print Assumptions C19_file_equals_stdout.
Print Assumptions C19_exit_iff_library_ok.
Print Assumptions C19_render_key_order_insensitive.
