(* C02 - property theorems only (grows as the refinement proofs land). *)
From Coq Require Import String List.
Require Import PV.Num PV.Sort PV.Spec PV.Impl PV.Config.
Import ListNotations.

(* the constraint terms walk auxdata_order with one running index: the auxiliary data are consumed slice by slice *)
Theorem C02_par_slices_tile : forall N (sp : spec N) l start ps, reduce_all N sp l start = Ok ps -> tiles N start ps.
Proof. exact par_slices_tile. Qed.
Print Assumptions C02_par_slices_tile.
