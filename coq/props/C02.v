(* C02 - property theorems only.
   The likelihood term list of the implementation model (Impl.logpdf_terms: one Poisson term per main bin, then the constraint
   terms walking the parameter sets with ONE running index over the auxiliary data) is the HistFactory template's term list
   (Ref.ref_terms, addressed by NAMES), for every number instance with ring laws, sound boolean equality and a / b = a * /b,
   every accepted specification, every parameter vector and EVERY data vector (arbitrary auxiliary data). *)
From Coq Require Import String Permutation Ring QArith Qcanon List.
Require Import PV.Num PV.Sort PV.Spec PV.Impl PV.Ref PV.Config PV.RefineRates PV.RefineTop
               PV.RefineTerms PV.RefineTermsBlocks PV.RefineTermsTop PV.RefineTermsFinal PV.RefineTermsFull PV.RefineTermsExample.
Import ListNotations.
Local Open Scope nat_scope.

(* the constraint terms walk auxdata_order with one running index: the auxiliary data are consumed slice by slice *)
Theorem C02_par_slices_tile : forall N (sp : spec N) l start ps, reduce_all N sp l start = Ok ps -> tiles N start ps.
Proof. exact par_slices_tile. Qed.

(* exactly one constraint term per constrained parameter component, in par_order; component i of a constrained set is paired
   with the auxiliary datum at (total size of the constrained sets before it) + i *)
Theorem C02_cterms_structure : forall N par aux ps, NoDup (map (p_name N) ps) ->
  cterms N par ps aux O =
  flat_map (fun p => tab (p_n N p) (term_of N par aux (aux_offset N ps (p_name N p)) p)) (filter (constrained N) ps).
Proof. exact cterms_structure. Qed.
Theorem C02_cterms_length : forall N par aux ps k, length (cterms N par ps aux k) = ctotal N ps.
Proof. exact cterms_length. Qed.
(* ... which for accepted specifications is the number of auxiliary data of the configuration (sizes 0 excluded, see the
   refuted corner below) *)
Theorem C02_length_cterms_auxdata : forall N, (forall a b : V N, neqb N a b = true -> a = b) ->
  forall (sp : spec N) md, build N sp = Ok md -> forall par auxd k,
  (forall p, In p (md_psets N md) -> constrained N p = true -> p_n N p <> O) ->
  length (cterms N par (md_psets N md) auxd k) = length (md_auxdata N md).
Proof. exact length_cterms_auxdata. Qed.
Theorem C02_auxdata_length_refuted : exists md, build QcNum zero_bin_aux_spec = Ok md /\
  length (cterms QcNum (fun _ => 0%Qc) (md_psets QcNum md) [] O) <> length (md_auxdata QcNum md).
Proof. exact auxdata_length_refuted. Qed.
(* the data of the constraint terms are the auxiliary data, in the configuration's order *)
Theorem C02_auxdata_layout : forall N par aux ps, length aux = ctotal N ps -> map (term_datum N) (cterms N par ps aux O) = aux.
Proof. exact auxdata_layout. Qed.
(* expected_auxdata: the means of the Gaussian terms / the rates of the Poisson terms, in the same order *)
Theorem C02_expected_auxdata_spec : forall N md pars aux,
  expected_auxdata N md pars = map (term_center N) (cterms N (parf N pars) (md_psets N md) aux O).
Proof. exact expected_auxdata_spec. Qed.

(* main terms: Poisson(datum of the channel's slice of the data | template rate), channels in sorted order *)
Theorem C02_main_terms_refine : forall N interp_add interp_mul (sp : spec N) st md par,
  ring_theory (n0 N) (n1 N) (nadd N) (nmul N) (nsub N) (nopp N) eq ->
  NoDup (map c_name (channels sp)) ->
  (forall c, In c (channels sp) -> NoDup (map s_name (c_samples c))) ->
  (forall c s, In c (channels sp) -> In s (c_samples c) -> NoDup (map mkey (s_mods s))) ->
  (forall c s m, In c (channels sp) -> In s (c_samples c) -> In m (s_mods s) ->
     match m_type m with
     | Histosys => exists lo hi, m_data m = MDHisto lo hi
     | Normsys => exists lo hi, m_data m = MDNorm lo hi
     | _ => True end) ->
  match clip_sample N st with None => True | Some c => nltb N (n0 N) c = false end ->
  layout_ok N sp md ->
  forall data, nmaindata N sp <= length data ->
  main_terms N interp_add interp_mul sp (cfg_channels N sp) (cfg_samples N sp) (cfg_modifiers N sp) st md par (firstn (nmaindata N sp) data) =
  ref_main_terms N interp_add interp_mul (normsys_code N st) (histosys_code N st) (clip_sample N st) (clip_bin N st) sp
                 (theta N md par) (obs_of N sp data).
Proof. exact main_terms_refine. Qed.

(* full log-density = main-only + constraint-only, for any log-density primitives; sums do not depend on the order of the terms *)
Theorem C02_main_plus_constraint : forall N, ring_theory (n0 N) (n1 N) (nadd N) (nmul N) (nsub N) (nopp N) eq ->
  forall logpois lognorm interp_add interp_mul sp st md pars data l,
  logpdf_terms N interp_add interp_mul sp st md pars data = Ok l ->
  let mainl := main_terms N interp_add interp_mul sp (cfg_channels N sp) (cfg_samples N sp) (cfg_modifiers N sp) st md (parf N pars)
                          (firstn (nmaindata N sp) data) in
  let consl := cterms N (parf N pars) (md_psets N md) (skipn (nmaindata N sp) data) O in
  l = mainl ++ consl /\ sumlog N logpois lognorm l = nadd N (sumlog N logpois lognorm mainl) (sumlog N logpois lognorm consl) /\
  length pars = md_npars N md /\ length data = nmaindata N sp + length (md_auxdata N md).
Proof. exact main_plus_constraint. Qed.
Theorem C02_sumlog_perm : forall N, ring_theory (n0 N) (n1 N) (nadd N) (nmul N) (nsub N) (nopp N) eq ->
  forall logpois lognorm l l', Permutation l l' -> sumlog N logpois lognorm l = sumlog N logpois lognorm l'.
Proof. exact sumlog_perm. Qed.

(* user overrides (auxdata, sigmas, factors, ...) reach the parameter set verbatim *)
Theorem C02_overrides_verbatim : forall N (sp : spec N) name rs start p u,
  reduce_one N sp name rs start = Ok p -> find_user N sp name = Some u ->
  (forall l, pc_inits u = Some l -> p_inits N p = Val l) /\
  (forall l, pc_bounds u = Some l -> p_bounds N p = Val l) /\
  (forall l, pc_auxdata u = Some l -> p_aux N p = Val l) /\
  (forall l, pc_factors u = Some l -> p_factors N p = Val l) /\
  (forall l, pc_sigmas u = Some l -> p_var N p = Val (map (fun s => nmul N s s) l)) /\
  (forall b, pc_fixed u = Some b -> p_fixed N p = FBool b).
Proof. exact overrides_verbatim. Qed.

(* the constraint part, for EVERY accepted specification (no further premise than the JSON schema's shape of shapesys /
   staterror data): the model's constraint terms are a permutation of the template's -- unit Gaussians for normsys/histosys
   parameters, Gaussian(aux | lumi, configured sigma), Gaussian(aux_k | gamma_k, delta_k) with delta_k the quadrature sum of the
   relative MC uncertainties of the channel's carrying samples (zero -> 1; user sigmas override), Poisson(aux_b | gamma_b tau_b)
   with tau_b = (nominal_b/uncertainty_b)^2 (user factors override) -- each paired with the auxiliary datum at the position
   the configuration assigns to that parameter component; for every parameter vector and every auxiliary data vector *)
Theorem C02_constraint_terms_refine : forall N,
  ring_theory (n0 N) (n1 N) (nadd N) (nmul N) (nsub N) (nopp N) eq ->
  (forall a b : V N, neqb N a b = true -> a = b) -> (forall a b : V N, ndiv N a b = nmul N a (ninv N b)) ->
  forall (sp : spec N) md, build N sp = Ok md -> list_shape_ok N sp -> forall par auxd,
  Permutation (cterms N par (md_psets N md) auxd O)
              (ref_cterms N sp (theta N md par) (aux_by_name N (md_psets N md) auxd)).
Proof. exact accepted_cterms_perm. Qed.

(* the same with the layout premise kept in its decidable form (superseded by C02_logpdf_terms_refines below; kept because the
   checks evaluate layout_okb per generated model as a cross-check).  _partial: the only premise that is not a schema shape or the documented clip guard is the access-field layout
   premise of the C01 refinement (layout_okb, evaluated per generated model by the C01/C02 checks; its derivation from
   build = Ok is RefineLayout.v).  All four constraint families are proved. *)
Theorem C02_logpdf_terms_refines_partial : forall N,
  ring_theory (n0 N) (n1 N) (nadd N) (nmul N) (nsub N) (nopp N) eq ->
  (forall a b : V N, neqb N a b = true -> a = b) -> (forall a b : V N, ndiv N a b = nmul N a (ninv N b)) ->
  forall interp_add interp_mul (sp : spec N) st md pars data l,
  build N sp = Ok md -> list_shape_ok N sp -> shape_ok N sp -> clip_guard N st -> layout_okb N sp md = true ->
  logpdf_terms N interp_add interp_mul sp st md pars data = Ok l ->
  Permutation l (ref_terms N interp_add interp_mul (normsys_code N st) (histosys_code N st) (clip_sample N st) (clip_bin N st) sp
                           (theta N md (parf N pars)) (obs_by_name N sp data) (aux_of_data N sp md data)).
Proof. exact logpdf_terms_refines_partial. Qed.
(* hence Impl.logpdf = Ref.logpdf for any log-density primitives (what those are is property C04) *)
Theorem C02_logpdf_refines_partial : forall N,
  ring_theory (n0 N) (n1 N) (nadd N) (nmul N) (nsub N) (nopp N) eq ->
  (forall a b : V N, neqb N a b = true -> a = b) -> (forall a b : V N, ndiv N a b = nmul N a (ninv N b)) ->
  forall interp_add interp_mul (sp : spec N) st md logpois lognorm pars data l,
  build N sp = Ok md -> list_shape_ok N sp -> shape_ok N sp -> clip_guard N st -> layout_okb N sp md = true ->
  logpdf_terms N interp_add interp_mul sp st md pars data = Ok l ->
  sumlog N logpois lognorm l =
  sumlog N logpois lognorm (ref_terms N interp_add interp_mul (normsys_code N st) (histosys_code N st) (clip_sample N st) (clip_bin N st) sp
                                      (theta N md (parf N pars)) (obs_by_name N sp data) (aux_of_data N sp md data)).
Proof. exact logpdf_refines_partial. Qed.
(* the executed instance (exact rationals) and the analytic instance (reals) satisfy the three number laws *)
Theorem C02_logpdf_terms_refines_Qc : forall ia im (sp : spec QcNum) st md pars data l,
  build QcNum sp = Ok md -> list_shape_ok QcNum sp -> shape_ok QcNum sp -> clip_guard QcNum st -> layout_ok QcNum sp md ->
  logpdf_terms QcNum ia im sp st md pars data = Ok l ->
  Permutation l (ref_terms QcNum ia im (normsys_code QcNum st) (histosys_code QcNum st) (clip_sample QcNum st) (clip_bin QcNum st) sp
                           (theta QcNum md (parf QcNum pars)) (obs_by_name QcNum sp data) (aux_of_data QcNum sp md data)).
Proof. exact logpdf_terms_refines_layout_Qc. Qed.
Theorem C02_logpdf_terms_refines_R : forall ia im (sp : spec RNum) st md pars data l,
  build RNum sp = Ok md -> list_shape_ok RNum sp -> shape_ok RNum sp -> clip_guard RNum st -> layout_ok RNum sp md ->
  logpdf_terms RNum ia im sp st md pars data = Ok l ->
  Permutation l (ref_terms RNum ia im (normsys_code RNum st) (histosys_code RNum st) (clip_sample RNum st) (clip_bin RNum st) sp
                           (theta RNum md (parf RNum pars)) (obs_by_name RNum sp data) (aux_of_data RNum sp md data)).
Proof. exact logpdf_terms_refines_layout_R. Qed.

(* the goal, premise-free: the access-field layout is derived from build = Ok (RefineLayout.accepted_layout); what remains are the
   JSON-schema shapes of modifier data and the documented guard on the per-sample clip (C01 known finding) *)
Theorem C02_logpdf_terms_refines : forall N,
  ring_theory (n0 N) (n1 N) (nadd N) (nmul N) (nsub N) (nopp N) eq ->
  (forall a b : V N, neqb N a b = true -> a = b) -> (forall a b : V N, ndiv N a b = nmul N a (ninv N b)) ->
  forall interp_add interp_mul (sp : spec N) st md pars data l,
  build N sp = Ok md -> list_shape_ok N sp -> shape_ok N sp -> clip_guard N st ->
  logpdf_terms N interp_add interp_mul sp st md pars data = Ok l ->
  Permutation l (ref_terms N interp_add interp_mul (normsys_code N st) (histosys_code N st) (clip_sample N st) (clip_bin N st) sp
                           (theta N md (parf N pars)) (obs_by_name N sp data) (aux_of_data N sp md data)).
Proof. exact logpdf_terms_refines. Qed.
Theorem C02_logpdf_refines : forall N,
  ring_theory (n0 N) (n1 N) (nadd N) (nmul N) (nsub N) (nopp N) eq ->
  (forall a b : V N, neqb N a b = true -> a = b) -> (forall a b : V N, ndiv N a b = nmul N a (ninv N b)) ->
  forall interp_add interp_mul (sp : spec N) st md logpois lognorm pars data l,
  build N sp = Ok md -> list_shape_ok N sp -> shape_ok N sp -> clip_guard N st ->
  logpdf_terms N interp_add interp_mul sp st md pars data = Ok l ->
  sumlog N logpois lognorm l =
  sumlog N logpois lognorm (ref_terms N interp_add interp_mul (normsys_code N st) (histosys_code N st) (clip_sample N st) (clip_bin N st) sp
                                      (theta N md (parf N pars)) (obs_by_name N sp data) (aux_of_data N sp md data)).
Proof. exact logpdf_refines. Qed.
Theorem C02_logpdf_terms_refines_full_Qc : forall ia im (sp : spec QcNum) st md pars data l,
  build QcNum sp = Ok md -> list_shape_ok QcNum sp -> shape_ok QcNum sp -> clip_guard QcNum st ->
  logpdf_terms QcNum ia im sp st md pars data = Ok l ->
  Permutation l (ref_terms QcNum ia im (normsys_code QcNum st) (histosys_code QcNum st) (clip_sample QcNum st) (clip_bin QcNum st) sp
                           (theta QcNum md (parf QcNum pars)) (obs_by_name QcNum sp data) (aux_of_data QcNum sp md data)).
Proof. exact logpdf_terms_refines_Qc. Qed.
Theorem C02_logpdf_terms_refines_full_R : forall ia im (sp : spec RNum) st md pars data l,
  build RNum sp = Ok md -> list_shape_ok RNum sp -> shape_ok RNum sp -> clip_guard RNum st ->
  logpdf_terms RNum ia im sp st md pars data = Ok l ->
  Permutation l (ref_terms RNum ia im (normsys_code RNum st) (histosys_code RNum st) (clip_sample RNum st) (clip_bin RNum st) sp
                           (theta RNum md (parf RNum pars)) (obs_by_name RNum sp data) (aux_of_data RNum sp md data)).
Proof. exact logpdf_terms_refines_R. Qed.

(* non-vacuity: a concrete two-channel specification with all four constraint families meets every hypothesis *)
Theorem C02_refines_nonvacuous :
  exists md l, build QcNum ex_spec = Ok md /\ list_shape_ok QcNum ex_spec /\ shape_ok QcNum ex_spec /\ clip_guard QcNum ex_st /\
    layout_ok QcNum ex_spec md /\ logpdf_terms QcNum ex_ia ex_im ex_spec ex_st md ex_pars ex_data = Ok l /\
    length l = 10%nat /\ length (md_auxdata QcNum md) = 7%nat /\ cblocks_okb QcNum ex_spec (md_psets QcNum md) = true /\
    Permutation l (ref_terms QcNum ex_ia ex_im (normsys_code QcNum ex_st) (histosys_code QcNum ex_st) (clip_sample QcNum ex_st)
                             (clip_bin QcNum ex_st) ex_spec (theta QcNum md (parf QcNum ex_pars))
                             (obs_by_name QcNum ex_spec ex_data) (aux_of_data QcNum ex_spec md ex_data)).
Proof. exact logpdf_terms_refines_nonvacuous. Qed.

Print Assumptions C02_par_slices_tile.
Print Assumptions C02_cterms_structure.
Print Assumptions C02_cterms_length.
Print Assumptions C02_length_cterms_auxdata.
Print Assumptions C02_auxdata_length_refuted.
Print Assumptions C02_auxdata_layout.
Print Assumptions C02_expected_auxdata_spec.
Print Assumptions C02_main_terms_refine.
Print Assumptions C02_main_plus_constraint.
Print Assumptions C02_sumlog_perm.
Print Assumptions C02_overrides_verbatim.
Print Assumptions C02_constraint_terms_refine.
Print Assumptions C02_logpdf_terms_refines_partial.
Print Assumptions C02_logpdf_refines_partial.
Print Assumptions C02_logpdf_terms_refines_Qc.
Print Assumptions C02_logpdf_terms_refines_R.
Print Assumptions C02_logpdf_terms_refines.
Print Assumptions C02_logpdf_refines.
Print Assumptions C02_logpdf_terms_refines_full_Qc.
Print Assumptions C02_logpdf_terms_refines_full_R.
Print Assumptions C02_refines_nonvacuous.
