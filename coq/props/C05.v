(* C05 - property theorems only. *)
From Coq Require Import QArith Qcanon Reals List.
Require Import PV.Num PV.Fit PV.FitTransfer.
Import ListNotations.
Local Open Scope R_scope.

(* do_stitch=True: for every mask, whatever the optimiser answers (of the dimension it was asked for), the returned
   vector holds the supplied value exactly at every fixed index, the optimiser's values in order elsewhere *)
Theorem C05_stitched_fixed_exact :
  forall (A : Type) (zero : A) (F : Type) (leb : A -> A -> bool)
         (optimiser : bool -> (list A -> F) -> kwargs A -> optres A F)
         (objective : list A -> F) (npars : nat) (init : list A) (bounds : list (A * A)) (mask : list bool),
  length init = npars -> length mask = npars ->
  forall (do_grad : bool) (res : fitres A F),
  (forall g f kw, length (o_x A F (optimiser g f kw)) = length (k_x0 A kw)) ->
  fit A zero F leb optimiser objective npars init bounds mask do_grad true = inr res ->
  let '(kw, sp) := shim A zero npars init bounds (fvals_from A 0 init mask) true in
  let r := optimiser do_grad (wrapped A F objective sp) kw in
  length (r_x A F res) = npars /\
  (forall i, (i < npars)%nat -> nth i mask false = true -> nth i (r_x A F res) zero = nth i init zero) /\
  gather A zero (r_x A F res) (free_positions npars mask) = o_x A F r /\
  k_x0 A kw = gather A zero init (free_positions npars mask) /\
  r_fun A F res = o_fun A F r.
Proof. exact stitched_fixed_exact. Qed.

Theorem C05_fixed_poi_stitched_exact :
  forall (A : Type) (zero : A) (F : Type) (leb : A -> A -> bool)
         (optimiser : bool -> (list A -> F) -> kwargs A -> optres A F)
         objective npars init bounds mask p poi_val do_grad res,
  length init = npars -> length mask = npars -> (p < npars)%nat ->
  (forall g f kw, length (o_x A F (optimiser g f kw)) = length (k_x0 A kw)) ->
  fixed_poi_fit A zero F leb optimiser (Some p) poi_val objective npars init bounds mask do_grad true = inr res ->
  (length (r_x A F res) = npars /\ nth p (r_x A F res) zero = poi_val /\
   (forall i, (i < npars)%nat -> i <> p -> nth i mask false = true -> nth i (r_x A F res) zero = nth i init zero) /\
   in_bounds A leb poi_val (nth p bounds (zero, zero)) = true) \/ (length bounds <= p)%nat.
Proof. exact fixed_poi_stitched_exact. Qed.

(* do_stitch=False: the same, given that the optimiser holds the fixed values it is handed *)
Theorem C05_nostitch_fixed_exact :
  forall (A : Type) (zero : A) (F : Type) (leb : A -> A -> bool)
         (optimiser : bool -> (list A -> F) -> kwargs A -> optres A F)
         objective npars init bounds mask, length init = npars -> length mask = npars ->
  forall do_grad res,
  (forall g f kw i v, In (i, v) (k_fixed A kw) -> nth i (o_x A F (optimiser g f kw)) zero = v) ->
  fit A zero F leb optimiser objective npars init bounds mask do_grad false = inr res ->
  forall i, (i < npars)%nat -> nth i mask false = true -> nth i (r_x A F res) zero = nth i init zero.
Proof. exact nostitch_fixed_exact. Qed.

(* the reported objective is the objective at the returned vector when the optimiser reports func at its own x *)
Theorem C05_fun_honest :
  forall (A : Type) (zero : A) (F : Type) (leb : A -> A -> bool)
         (optimiser : bool -> (list A -> F) -> kwargs A -> optres A F)
         objective npars init bounds mask do_grad res,
  (forall g f kw, o_fun A F (optimiser g f kw) = f (o_x A F (optimiser g f kw))) ->
  forall do_stitch, fit A zero F leb optimiser objective npars init bounds mask do_grad do_stitch = inr res ->
  r_fun A F res = objective (r_x A F res).
Proof. exact stitched_fun_honest. Qed.

Theorem C05_stitched_unc_zero :
  forall (A : Type) (zero : A) (F : Type) (leb : A -> A -> bool)
         (optimiser : bool -> (list A -> F) -> kwargs A -> optres A F)
         objective npars init bounds mask, length init = npars -> length mask = npars ->
  forall do_grad res u,
  (forall g f kw, length (o_x A F (optimiser g f kw)) = length (k_x0 A kw)) ->
  (forall g f kw u, o_unc A F (optimiser g f kw) = Some u -> length u = length (k_x0 A kw)) ->
  fit A zero F leb optimiser objective npars init bounds mask do_grad true = inr res -> r_unc A F res = Some u ->
  length u = npars /\ forall i, (i < npars)%nat -> nth i mask false = true -> nth i u zero = zero.
Proof. exact stitched_unc_zero. Qed.

(* the stitch of _TensorViewer places datum p at target index (concat indices)[p] for every partition of 0..n-1 *)
Theorem C05_stitch_places :
  forall (A : Type) (zero : A) indices data n, Permutation.Permutation (concat indices) (seq 0 n) ->
  placed A zero (concat indices) (concat data) (stitch A zero (mk_viewer indices) data).
Proof. exact stitch_places. Qed.

(* a reported point is eps-optimal against every feasible point, eps exactly computable *)
Theorem C05_kkt_certificate :
  forall (terms : list (term RNum)) (star : list R) (box : list (R * R)),
  Forall (fun t => length (coefs RNum t) = length star) terms ->
  in_box star box -> Forall (fun t => term_ok t star) terms ->
  forall theta, in_box theta box -> Forall (fun t => term_ok t theta) terms ->
  fR terms star - fR terms theta <= eps RNum terms star box.
Proof. exact kkt_certificate. Qed.

Theorem C05_kkt_certificate_witness :
  forall (terms : list (term RNum)) (star w : list R) (box : list (R * R)),
  Forall (fun t => length (coefs RNum t) = length star) terms ->
  in_box star box -> Forall (fun t => term_ok t star) terms ->
  in_box w box -> Forall (fun t => term_ok t w) terms ->
  forall theta, in_box theta box -> Forall (fun t => term_ok t theta) terms ->
  fR terms star - fR terms theta <= eps_witness RNum terms star w box.
Proof. exact kkt_certificate_witness. Qed.

(* the form evaluated by the check on every fit: term-by-term first-order bound to a witness + KKT residual of the witness *)
Theorem C05_kkt_certificate_gap :
  forall (terms : list (term RNum)) (star w : list R) (box : list (R * R)),
  Forall (fun t => length (coefs RNum t) = length w) terms ->
  Forall (fun t => term_ok t star) terms ->
  in_box w box -> Forall (fun t => term_ok t w) terms ->
  forall theta, in_box theta box -> Forall (fun t => term_ok t theta) terms ->
  fR terms star - fR terms theta <= gapbound RNum terms star w + eps RNum terms w box.
Proof. exact kkt_certificate_gap. Qed.

(* the same at the level of the rate model (sum over samples of nominal x product of parameters): on the box that pins the
   fixed coordinates, the reduction to affine terms is exact, hence the certificate bounds the model's own NLL *)
Theorem C05_kkt_certificate_model :
  forall m mask ref (M : model RNum) terms star w box,
  idx_ok m M -> affine_terms RNum m mask ref M = Some terms ->
  length star = m -> length w = m -> agree mask ref star -> agree mask ref w ->
  Forall (fun t => term_ok t star) terms -> in_box w box -> Forall (fun t => term_ok t w) terms ->
  forall theta, agree mask ref theta -> in_box theta box -> Forall (fun t => term_ok t theta) terms ->
  nllM M star - nllM M theta <= gapbound RNum terms star w + eps RNum terms w box.
Proof. exact kkt_certificate_model. Qed.

(* the rational number the check computes (vm_compute at Qc) IS such a bound over R: Qc2R commutes with the generic text,
   and the boolean side conditions the check evaluates imply the premises above *)
Theorem C05_checked_certificate :
  forall (terms : list (term QcNum)) (star w : list Qc) (box : list (Qc * Qc)),
  shapes_okb QcNum (length w) terms = true ->
  rates_posb QcNum terms star = true -> rates_posb QcNum terms w = true -> in_boxb QcNum w box = true ->
  forall theta, in_box theta (hbox box) -> Forall (fun t => term_ok t theta) (map hterm terms) ->
  fR (map hterm terms) (hv star) - fR (map hterm terms) theta <= Qc2R (gapbound QcNum terms star w + eps QcNum terms w box)%Qc.
Proof. exact checked_certificate. Qed.

Theorem C05_nllterm_tangent : forall n lam lam', 0 <= n -> 0 < lam -> 0 < lam' ->
  nllterm n lam >= nllterm n lam' + (lam - lam') * (1 - n / lam').
Proof. exact nllterm_tangent. Qed.

Theorem C05_closed_form_counting : forall n s b lo hi,
  0 <= n -> 0 < s -> lo <= hi -> 0 < lo * s + b ->
  let muhat := clip lo hi ((n - b) / s) in
  lo <= muhat <= hi /\ forall mu, lo <= mu <= hi -> counting_nll n s b muhat <= counting_nll n s b mu.
Proof. exact closed_form_counting. Qed.

Print Assumptions C05_stitched_fixed_exact.
Print Assumptions C05_fixed_poi_stitched_exact.
Print Assumptions C05_nostitch_fixed_exact.
Print Assumptions C05_fun_honest.
Print Assumptions C05_stitched_unc_zero.
Print Assumptions C05_stitch_places.
Print Assumptions C05_kkt_certificate.
Print Assumptions C05_kkt_certificate_witness.
Print Assumptions C05_kkt_certificate_gap.
Print Assumptions C05_kkt_certificate_model.
Print Assumptions C05_checked_certificate.
Print Assumptions C05_nllterm_tangent.
Print Assumptions C05_closed_form_counting.
