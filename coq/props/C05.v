(* C05 - property theorems only. *)
From Coq Require Import QArith Qcanon Reals List.
Require Import PV.Num PV.Fit PV.FitTransfer PV.gen.FitGen PV.TieFit.
Import ListNotations.
Local Open Scope R_scope.

(* do_stitch=True: for every mask, whatever the optimiser answers (of the dimension it was asked for), the returned
   vector holds the supplied value exactly at every fixed index, the optimiser's values in order elsewhere *)
Theorem C05_stitched_fixed_exact :
  forall (A : Type) (zero : A) (F : Type) (leb : A -> A -> bool)
         (optimiser : bool -> (list A -> F) -> kwargs A -> optres A F)
         (objective : list A -> F) (npars : nat) (init : list A) (bounds : list (A * A)) (mask : list bool),
  length init = npars -> length mask = npars ->
  forall (do_grad : bool) (res : fitres A F),
  (forall g f kw, length (o_x A F (optimiser g f kw)) = length (k_x0 A kw)) ->
  fit A zero F leb optimiser objective npars init bounds mask do_grad true = inr res ->
  let '(kw, sp) := shim A zero npars init bounds (fvals_from A 0 init mask) true in
  let r := optimiser do_grad (wrapped A F objective sp) kw in
  length (r_x A F res) = npars /\
  (forall i, (i < npars)%nat -> nth i mask false = true -> nth i (r_x A F res) zero = nth i init zero) /\
  gather A zero (r_x A F res) (free_positions npars mask) = o_x A F r /\
  k_x0 A kw = gather A zero init (free_positions npars mask) /\
  r_fun A F res = o_fun A F r.
Proof. exact stitched_fixed_exact. Qed.

Theorem C05_fixed_poi_stitched_exact :
  forall (A : Type) (zero : A) (F : Type) (leb : A -> A -> bool)
         (optimiser : bool -> (list A -> F) -> kwargs A -> optres A F)
         objective npars init bounds mask p poi_val do_grad res,
  length init = npars -> length mask = npars -> (p < npars)%nat ->
  (forall g f kw, length (o_x A F (optimiser g f kw)) = length (k_x0 A kw)) ->
  fixed_poi_fit A zero F leb optimiser (Some p) poi_val objective npars init bounds mask do_grad true = inr res ->
  (length (r_x A F res) = npars /\ nth p (r_x A F res) zero = poi_val /\
   (forall i, (i < npars)%nat -> i <> p -> nth i mask false = true -> nth i (r_x A F res) zero = nth i init zero) /\
   in_bounds A leb poi_val (nth p bounds (zero, zero)) = true) \/ (length bounds <= p)%nat.
Proof. exact fixed_poi_stitched_exact. Qed.

(* do_stitch=False: the same, given that the optimiser holds the fixed values it is handed *)
Theorem C05_nostitch_fixed_exact :
  forall (A : Type) (zero : A) (F : Type) (leb : A -> A -> bool)
         (optimiser : bool -> (list A -> F) -> kwargs A -> optres A F)
         objective npars init bounds mask, length init = npars -> length mask = npars ->
  forall do_grad res,
  (forall g f kw i v, In (i, v) (k_fixed A kw) -> nth i (o_x A F (optimiser g f kw)) zero = v) ->
  fit A zero F leb optimiser objective npars init bounds mask do_grad false = inr res ->
  forall i, (i < npars)%nat -> nth i mask false = true -> nth i (r_x A F res) zero = nth i init zero.
Proof. exact nostitch_fixed_exact. Qed.

(* the reported objective is the objective at the returned vector when the optimiser reports func at its own x *)
Theorem C05_fun_honest :
  forall (A : Type) (zero : A) (F : Type) (leb : A -> A -> bool)
         (optimiser : bool -> (list A -> F) -> kwargs A -> optres A F)
         objective npars init bounds mask do_grad res,
  (forall g f kw, o_fun A F (optimiser g f kw) = f (o_x A F (optimiser g f kw))) ->
  forall do_stitch, fit A zero F leb optimiser objective npars init bounds mask do_grad do_stitch = inr res ->
  r_fun A F res = objective (r_x A F res).
Proof. exact stitched_fun_honest. Qed.

Theorem C05_stitched_unc_zero :
  forall (A : Type) (zero : A) (F : Type) (leb : A -> A -> bool)
         (optimiser : bool -> (list A -> F) -> kwargs A -> optres A F)
         objective npars init bounds mask, length init = npars -> length mask = npars ->
  forall do_grad res u,
  (forall g f kw, length (o_x A F (optimiser g f kw)) = length (k_x0 A kw)) ->
  (forall g f kw u, o_unc A F (optimiser g f kw) = Some u -> length u = length (k_x0 A kw)) ->
  fit A zero F leb optimiser objective npars init bounds mask do_grad true = inr res -> r_unc A F res = Some u ->
  length u = npars /\ forall i, (i < npars)%nat -> nth i mask false = true -> nth i u zero = zero.
Proof. exact stitched_unc_zero. Qed.

(* the stitch of _TensorViewer places datum p at target index (concat indices)[p] for every partition of 0..n-1 *)
Theorem C05_stitch_places :
  forall (A : Type) (zero : A) indices data n, Permutation.Permutation (concat indices) (seq 0 n) ->
  placed A zero (concat indices) (concat data) (stitch A zero (mk_viewer indices) data).
Proof. exact stitch_places. Qed.

(* a reported point is eps-optimal against every feasible point, eps exactly computable *)
Theorem C05_kkt_certificate :
  forall (terms : list (term RNum)) (star : list R) (box : list (R * R)),
  Forall (fun t => length (coefs RNum t) = length star) terms ->
  in_box star box -> Forall (fun t => term_ok t star) terms ->
  forall theta, in_box theta box -> Forall (fun t => term_ok t theta) terms ->
  fR terms star - fR terms theta <= eps RNum terms star box.
Proof. exact kkt_certificate. Qed.

Theorem C05_kkt_certificate_witness :
  forall (terms : list (term RNum)) (star w : list R) (box : list (R * R)),
  Forall (fun t => length (coefs RNum t) = length star) terms ->
  in_box star box -> Forall (fun t => term_ok t star) terms ->
  in_box w box -> Forall (fun t => term_ok t w) terms ->
  forall theta, in_box theta box -> Forall (fun t => term_ok t theta) terms ->
  fR terms star - fR terms theta <= eps_witness RNum terms star w box.
Proof. exact kkt_certificate_witness. Qed.

(* the form evaluated by the check on every fit: term-by-term first-order bound to a witness + KKT residual of the witness *)
Theorem C05_kkt_certificate_gap :
  forall (terms : list (term RNum)) (star w : list R) (box : list (R * R)),
  Forall (fun t => length (coefs RNum t) = length w) terms ->
  Forall (fun t => term_ok t star) terms ->
  in_box w box -> Forall (fun t => term_ok t w) terms ->
  forall theta, in_box theta box -> Forall (fun t => term_ok t theta) terms ->
  fR terms star - fR terms theta <= gapbound RNum terms star w + eps RNum terms w box.
Proof. exact kkt_certificate_gap. Qed.

(* the same at the level of the rate model (sum over samples of nominal x product of parameters): on the box that pins the
   fixed coordinates, the reduction to affine terms is exact, hence the certificate bounds the model's own NLL *)
Theorem C05_kkt_certificate_model :
  forall m mask ref (M : model RNum) terms star w box,
  idx_ok m M -> affine_terms RNum m mask ref M = Some terms ->
  length star = m -> length w = m -> agree mask ref star -> agree mask ref w ->
  Forall (fun t => term_ok t star) terms -> in_box w box -> Forall (fun t => term_ok t w) terms ->
  forall theta, agree mask ref theta -> in_box theta box -> Forall (fun t => term_ok t theta) terms ->
  nllM M star - nllM M theta <= gapbound RNum terms star w + eps RNum terms w box.
Proof. exact kkt_certificate_model. Qed.

(* the rational number the check computes (vm_compute at Qc) IS such a bound over R: Qc2R commutes with the generic text,
   and the boolean side conditions the check evaluates imply the premises above *)
Theorem C05_checked_certificate :
  forall (terms : list (term QcNum)) (star w : list Qc) (box : list (Qc * Qc)),
  shapes_okb QcNum (length w) terms = true ->
  rates_posb QcNum terms star = true -> rates_posb QcNum terms w = true -> in_boxb QcNum w box = true ->
  forall theta, in_box theta (hbox box) -> Forall (fun t => term_ok t theta) (map hterm terms) ->
  fR (map hterm terms) (hv star) - fR (map hterm terms) theta <= Qc2R (gapbound QcNum terms star w + eps QcNum terms w box)%Qc.
Proof. exact checked_certificate. Qed.

Theorem C05_nllterm_tangent : forall n lam lam', 0 <= n -> 0 < lam -> 0 < lam' ->
  nllterm n lam >= nllterm n lam' + (lam - lam') * (1 - n / lam').
Proof. exact nllterm_tangent. Qed.

Theorem C05_closed_form_counting : forall n s b lo hi,
  0 <= n -> 0 < s -> lo <= hi -> 0 < lo * s + b ->
  let muhat := clip lo hi ((n - b) / s) in
  lo <= muhat <= hi /\ forall mu, lo <= mu <= hi -> counting_nll n s b muhat <= counting_nll n s b mu.
Proof. exact closed_form_counting. Qed.

(* ---- tie to the source: the definitions of coq/gen/FitGen.v, translated on every run from pyhf/optimize/common.py, mixins.py,
   opt_numpy.py, opt_jax.py, opt_pytorch.py, opt_tflow.py and infer/mle.py, are the hand model of FitWrap.v ---- *)
Theorem C05_source_is_model_make_stitch_pars : forall (A : Type) (zero : A) tv fv,
  gen_make_stitch_pars A zero tv fv = make_stitch_pars A zero (pair_opt A tv fv).
Proof. exact tie_make_stitch_pars. Qed.

(* shim: fixed_idx / fixed_values / variable_idx, the stripped x0 / bounds / fixed_vals, the stitch closure; `fixed_vals or []` *)
Theorem C05_source_is_model_shim : forall (A : Type) (zero : A) npars init bounds ofv ds,
  gen_shim A zero npars init bounds ofv ds = shim A zero npars init bounds (opt_list ofv) ds.
Proof. exact tie_shim. Qed.
Theorem C05_source_is_model_shim_jit_pieces : forall (A : Type) (zero : A) npars (ofv : option (list (nat * A))),
  gen_shim_fixed_idx A zero npars ofv = map fst (opt_list ofv) /\
  gen_shim_variable_idx A zero npars ofv = variable_idx npars (map fst (opt_list ofv)) /\
  gen_shim_fixed_values A zero npars ofv = map snd (opt_list ofv).
Proof. exact tie_shim_pieces. Qed.

(* the function handed to the optimiser is objective o stitch_pars: numpy (refused with do_grad), pytorch / tensorflow without
   gradient, jax (the jit-compiled objective run on the pieces shim hands over) *)
Theorem C05_source_is_model_wrap_objective_numpy : forall (A F : Type) objective sp do_grad,
  gen_wrap_objective_numpy A F objective sp do_grad = if do_grad then None else Some (wrapped A F objective sp).
Proof. exact tie_wrap_numpy. Qed.
Theorem C05_source_is_model_wrap_objective_pytorch_nograd : forall (A F : Type) objective sp,
  gen_wrap_objective_pytorch_nograd A F objective sp = Some (wrapped A F objective sp).
Proof. exact tie_wrap_pytorch_nograd. Qed.
Theorem C05_source_is_model_wrap_objective_tflow_nograd : forall (A F : Type) objective sp,
  gen_wrap_objective_tflow_nograd A F objective sp = Some (wrapped A F objective sp).
Proof. exact tie_wrap_tflow_nograd. Qed.
Theorem C05_source_is_model_final_objective_jax : forall (A : Type) (zero : A) (F : Type) objective npars init bounds ofv ds pars,
  gen_final_objective_jax A zero F objective pars (gen_shim_fixed_values A zero npars ofv) (gen_shim_fixed_idx A zero npars ofv)
                          (gen_shim_variable_idx A zero npars ofv) ds
  = wrapped A F objective (snd (shim A zero npars init bounds (opt_list ofv) ds)) pars.
Proof. exact tie_final_objective_jax. Qed.

(* OptimizerMixin.minimize with _internal_minimize / _internal_postprocess inlined, for every combination of return flags translated:
   failed minimisation, stitching of the fitted values, zeroed uncertainties of fixed parameters, assembly of the returned tuple *)
Theorem C05_source_is_model_minimize : forall (A : Type) (zero : A) (F : Type) (optimiser : bool -> (list A -> F) -> kwargs A -> optres A F)
    objective npars init bounds ofv dg ds,
  let m := minimize A zero F optimiser objective npars init bounds (opt_list ofv) dg ds in
  let nocorr := fun _ : optres A F => @None (list (list A)) in
  gen_minimize_pars A zero F optimiser (wrapped A F) nocorr objective npars init bounds ofv dg ds = lift (r_x A F) m /\
  gen_minimize_val A zero F optimiser (wrapped A F) nocorr objective npars init bounds ofv dg ds = lift (fun res => (r_x A F res, r_fun A F res)) m /\
  gen_minimize_obj A zero F optimiser (wrapped A F) nocorr objective npars init bounds ofv dg ds = lift (fun res => (r_x A F res, (res, None))) m /\
  gen_minimize_corr_val_obj A zero F optimiser (wrapped A F) nocorr objective npars init bounds ofv dg ds
    = lift (fun res => (r_x A F res, None, r_fun A F res, (res, None))) m /\
  gen_minimize_unc A zero F optimiser (wrapped A F) nocorr objective npars init bounds ofv dg ds = lift unc_view m.
Proof. exact tie_minimize_all. Qed.

(* ... and with correlations reported by the optimiser: rows and columns of the fixed parameters stitched in as zeros *)
Theorem C05_source_is_model_minimize_correlations : forall (A : Type) (zero : A) (F : Type) (optimiser : bool -> (list A -> F) -> kwargs A -> optres A F)
    corr_of objective npars init bounds ofv dg ds,
  gen_minimize_corr_val_obj A zero F optimiser (wrapped A F) corr_of objective npars init bounds ofv dg ds
  = minimize_corr A zero F optimiser corr_of objective npars init bounds (opt_list ofv) dg ds.
Proof. exact tie_minimize_with_corr. Qed.

(* mle.fit: defaults (`x or pdf.config.suggested_x()`), refusal of a starting point outside its bounds (with its index), fixed_vals from the mask *)
Theorem C05_source_is_model_fit : forall (A : Type) (zero : A) (F : Type) (leb : A -> A -> bool) (optimiser : bool -> (list A -> F) -> kwargs A -> optres A F)
    objective npars si sb sm oi ob om dg ds,
  let m := fit A zero F leb optimiser objective npars (por oi si) (por ob sb) (por om sm) dg ds in
  let nocorr := fun _ : optres A F => @None (list (list A)) in
  gen_fit_pars A zero F leb optimiser (wrapped A F) nocorr objective npars si sb sm oi ob om dg ds = lift (r_x A F) m /\
  gen_fit_val A zero F leb optimiser (wrapped A F) nocorr objective npars si sb sm oi ob om dg ds = lift (fun res => (r_x A F res, r_fun A F res)) m /\
  gen_fit_obj A zero F leb optimiser (wrapped A F) nocorr objective npars si sb sm oi ob om dg ds = lift (fun res => (r_x A F res, (res, None))) m /\
  gen_fit_corr_val_obj A zero F leb optimiser (wrapped A F) nocorr objective npars si sb sm oi ob om dg ds
    = lift (fun res => (r_x A F res, None, r_fun A F res, (res, None))) m /\
  gen_fit_unc A zero F leb optimiser (wrapped A F) nocorr objective npars si sb sm oi ob om dg ds = lift unc_view m.
Proof. exact tie_fit_all. Qed.
Theorem C05_source_is_model_fit_explicit : forall (A : Type) (zero : A) (F : Type) (leb : A -> A -> bool) (optimiser : bool -> (list A -> F) -> kwargs A -> optres A F)
    objective npars si sb sm init bounds mask dg ds, init <> [] -> bounds <> [] -> mask <> [] ->
  gen_fit_val A zero F leb optimiser (wrapped A F) (fun _ => None) objective npars si sb sm (Some init) (Some bounds) (Some mask) dg ds
  = lift (fun res => (r_x A F res, r_fun A F res)) (fit A zero F leb optimiser objective npars init bounds mask dg ds).
Proof. exact tie_fit_explicit. Qed.

(* mle.fixed_poi_fit: refusal without POI; init_pars[poi_index] = poi_val and fixed_params[poi_index] = True on copies of the defaulted lists *)
Theorem C05_source_is_model_fixed_poi_fit : forall (A : Type) (zero : A) (F : Type) (leb : A -> A -> bool) (optimiser : bool -> (list A -> F) -> kwargs A -> optres A F)
    objective npars si sb sm poi_index poi_val oi ob om dg ds, por oi si <> [] -> por om sm <> [] ->
  let m := fixed_poi_fit A zero F leb optimiser poi_index poi_val objective npars (por oi si) (por ob sb) (por om sm) dg ds in
  let nocorr := fun _ : optres A F => @None (list (list A)) in
  gen_fixed_poi_fit_pars A zero F leb optimiser (wrapped A F) nocorr objective npars si sb sm poi_index poi_val oi ob om dg ds = lift (r_x A F) m /\
  gen_fixed_poi_fit_val A zero F leb optimiser (wrapped A F) nocorr objective npars si sb sm poi_index poi_val oi ob om dg ds
    = lift (fun res => (r_x A F res, r_fun A F res)) m /\
  gen_fixed_poi_fit_obj A zero F leb optimiser (wrapped A F) nocorr objective npars si sb sm poi_index poi_val oi ob om dg ds
    = lift (fun res => (r_x A F res, (res, None))) m /\
  gen_fixed_poi_fit_corr_val_obj A zero F leb optimiser (wrapped A F) nocorr objective npars si sb sm poi_index poi_val oi ob om dg ds
    = lift (fun res => (r_x A F res, None, r_fun A F res, (res, None))) m /\
  gen_fixed_poi_fit_unc A zero F leb optimiser (wrapped A F) nocorr objective npars si sb sm poi_index poi_val oi ob om dg ds = lift unc_view m.
Proof. exact tie_fixed_poi_fit_all. Qed.
Theorem C05_source_is_model_fixed_poi_fit_refuses : forall (A : Type) (zero : A) (F : Type) (leb : A -> A -> bool) optimiser wrap corr_of objective npars si sb sm poi_val oi ob om dg ds,
  gen_fixed_poi_fit_val A zero F leb optimiser wrap corr_of objective npars si sb sm None poi_val oi ob om dg ds = inl (GE UnspecifiedPOI).
Proof. exact tie_fixed_poi_fit_refuses. Qed.


Print Assumptions C05_stitched_fixed_exact.
Print Assumptions C05_fixed_poi_stitched_exact.
Print Assumptions C05_nostitch_fixed_exact.
Print Assumptions C05_fun_honest.
Print Assumptions C05_stitched_unc_zero.
Print Assumptions C05_stitch_places.
Print Assumptions C05_kkt_certificate.
Print Assumptions C05_kkt_certificate_witness.
Print Assumptions C05_kkt_certificate_gap.
Print Assumptions C05_kkt_certificate_model.
Print Assumptions C05_checked_certificate.
Print Assumptions C05_nllterm_tangent.
Print Assumptions C05_closed_form_counting.
Print Assumptions C05_source_is_model_make_stitch_pars.
Print Assumptions C05_source_is_model_shim.
Print Assumptions C05_source_is_model_shim_jit_pieces.
Print Assumptions C05_source_is_model_wrap_objective_numpy.
Print Assumptions C05_source_is_model_wrap_objective_pytorch_nograd.
Print Assumptions C05_source_is_model_wrap_objective_tflow_nograd.
Print Assumptions C05_source_is_model_final_objective_jax.
Print Assumptions C05_source_is_model_minimize.
Print Assumptions C05_source_is_model_minimize_correlations.
Print Assumptions C05_source_is_model_fit.
Print Assumptions C05_source_is_model_fit_explicit.
Print Assumptions C05_source_is_model_fixed_poi_fit.
Print Assumptions C05_source_is_model_fixed_poi_fit_refuses.
