(* C17 - property theorems only. *)
From Coq Require Import String List.
Require Import PV.Json PV.PatchSet PV.gen.FactsC17.
Import ListNotations.

(* tie to the source: the lookup table starts empty, digests are taken of the key-sorted dump *)
Lemma C17_init_empty : patchset_init_keys = [].
Proof. reflexivity. Qed.
Lemma C17_digest_sorts_keys : digest_sort_keys = true.
Proof. reflexivity. Qed.

Theorem C17_accepts_iff_distinct : forall n ps,
  (exists t, construct patchset_init_keys n ps = inl t) <-> (distinct_names ps /\ distinct_values ps /\ lengths_ok n ps).
Proof. rewrite C17_init_empty. exact accepts_iff_distinct. Qed.
Theorem C17_lookup_exact : forall n ps t j p, construct patchset_init_keys n ps = inl t -> nth_error ps j = Some p ->
  getitem t (KName (ps_name p)) = GPatch j /\ getitem t (KVals (ps_values p)) = GPatch j.
Proof. rewrite C17_init_empty. exact lookup_exact. Qed.
Theorem C17_other_key_raises : forall n ps t k, construct patchset_init_keys n ps = inl t ->
  (forall p, In p ps -> k <> KName (ps_name p) /\ k <> KVals (ps_values p)) -> getitem t k = GLookupError.
Proof. rewrite C17_init_empty. exact other_key_raises. Qed.
Theorem C17_verify_iff : forall H ds ws, verify H ds ws = None <-> forall alg d, In (alg, d) ds -> digest H alg ws = d.
Proof. exact verify_iff. Qed.
Theorem C17_digest_key_order_insensitive : forall H alg a b, wfj a -> wfj b -> jsame a b = true -> digest H alg a = digest H alg b.
Proof. exact digest_key_order_insensitive. Qed.
Theorem C17_digest_value_sensitive : forall H, (forall alg a b, H alg a = H alg b -> a = b) ->
  forall alg a b, wfj a -> wfj b -> digest H alg a = digest H alg b -> jsame a b = true.
Proof. exact digest_value_sensitive. Qed.
Theorem C17_verify_recorded_iff_same : forall H, (forall alg a b, H alg a = H alg b -> a = b) ->
  forall algs ws0 ws, algs <> [] -> wfj ws0 -> wfj ws -> (verify H (record H algs ws0) ws = None <-> jsame ws0 ws = true).
Proof. exact verify_recorded_iff_same. Qed.
Theorem C17_canon_idempotent : forall a, wfj a -> canon (canon a) = canon a.
Proof. exact canon_idem. Qed.

Print Assumptions C17_accepts_iff_distinct.
Print Assumptions C17_lookup_exact.
Print Assumptions C17_other_key_raises.
Print Assumptions C17_verify_iff.
Print Assumptions C17_digest_key_order_insensitive.
Print Assumptions C17_digest_value_sensitive.
Print Assumptions C17_verify_recorded_iff_same.
Print Assumptions C17_canon_idempotent.
