(* C17 - property theorems only. *)
From Coq Require Import String List.
Require Import PV.Json PV.PatchSet PV.gen.FactsC17 PV.gen.PatchSetGen PV.TiePatchSet.
Import ListNotations.

(* tie to the source: the lookup table starts empty, digests are taken of the key-sorted dump *)
Lemma C17_init_empty : patchset_init_keys = [].
Proof. reflexivity. Qed.
Lemma C17_digest_sorts_keys : digest_sort_keys = true.
Proof. reflexivity. Qed.

Theorem C17_accepts_iff_distinct : forall n ps,
  (exists t, construct patchset_init_keys n ps = inl t) <-> (distinct_names ps /\ distinct_values ps /\ lengths_ok n ps).
Proof. rewrite C17_init_empty. exact accepts_iff_distinct. Qed.
Theorem C17_lookup_exact : forall n ps t j p, construct patchset_init_keys n ps = inl t -> nth_error ps j = Some p ->
  getitem t (KName (ps_name p)) = GPatch j /\ getitem t (KVals (ps_values p)) = GPatch j.
Proof. rewrite C17_init_empty. exact lookup_exact. Qed.
Theorem C17_other_key_raises : forall n ps t k, construct patchset_init_keys n ps = inl t ->
  (forall p, In p ps -> k <> KName (ps_name p) /\ k <> KVals (ps_values p)) -> getitem t k = GLookupError.
Proof. rewrite C17_init_empty. exact other_key_raises. Qed.
Theorem C17_verify_iff : forall H ds ws, verify H ds ws = None <-> forall alg d, In (alg, d) ds -> digest H alg ws = d.
Proof. exact verify_iff. Qed.
Theorem C17_digest_key_order_insensitive : forall H alg a b, wfj a -> wfj b -> jsame a b = true -> digest H alg a = digest H alg b.
Proof. exact digest_key_order_insensitive. Qed.
Theorem C17_digest_value_sensitive : forall H, (forall alg a b, H alg a = H alg b -> a = b) ->
  forall alg a b, wfj a -> wfj b -> digest H alg a = digest H alg b -> jsame a b = true.
Proof. exact digest_value_sensitive. Qed.
Theorem C17_verify_recorded_iff_same : forall H, (forall alg a b, H alg a = H alg b -> a = b) ->
  forall algs ws0 ws, algs <> [] -> wfj ws0 -> wfj ws -> (verify H (record H algs ws0) ws = None <-> jsame ws0 ws = true).
Proof. exact verify_recorded_iff_same. Qed.
Theorem C17_canon_idempotent : forall a, wfj a -> canon (canon a) = canon a.
Proof. exact canon_idem. Qed.


(* ---- tie to the source: the functions of pyhf/patchset.py and pyhf/utils.py translated to Gallina on every run (coq/gen/PatchSetGen.v,
   written by harness/props/c17_tie.py; the reading of the python values is stated in the header of that file) are the hand model ---- *)
(* utils.digest: the hash of the key-sorted tree; ValueError exactly for an algorithm hashlib does not provide *)
Theorem C17_source_is_model_digest : forall (H : string -> json -> string) (known : string -> bool) obj alg,
  gen_digest H known obj alg = if known alg then Ok (digest H alg obj) else Err PyValueError.
Proof. exact tie_digest. Qed.
(* PatchSet.__init__: the loop over the patch documents with its three refusals, both keys registered per patch *)
Theorem C17_source_is_model_patchset_init : forall labels ps,
  gen_patchset_init labels ps = init_view (length ps) (construct patchset_init_keys (length labels) ps).
Proof. rewrite C17_init_empty. exact tie_patchset_init. Qed.
(* PatchSet.__getitem__: list keys looked up as tuples, any miss is InvalidPatchLookup *)
Theorem C17_source_is_model_getitem : forall t k,
  got_view (gen_getitem t k) = getitem t (key_of k) /\ (forall e, gen_getitem t k = Err e -> e = InvalidPatchLookup).
Proof. exact tie_getitem. Qed.
(* PatchSet.verify: every recorded digest compared in order, first mismatch raises (all listed algorithms known: the model's verify) *)
Theorem C17_source_is_model_verify : forall (H : string -> json -> string) (known : string -> bool) ds ws,
  gen_verify H known ds ws = verify_x H known ds ws /\
  ((forall a d, In (a, d) ds -> known a = true) ->
   gen_verify H known ds ws = match verify H ds ws with None => Ok tt | Some _ => Err PatchSetVerificationError end).
Proof. intros H known ds ws. split; [apply tie_verify|apply tie_verify_model]. Qed.
(* Patch.apply: jsonpatch on a private deep copy of the stored operations, never in place (both enforced by the translator) *)
Theorem C17_source_is_model_patch_apply : forall jpatch ops obj, gen_patch_apply jpatch ops obj = jpatch ops obj.
Proof. exact tie_patch_apply. Qed.
(* PatchSet.apply: verify, then look up, then patch the verified workspace, then Workspace(..) *)
Theorem C17_source_is_model_apply : forall H known jpatch mkws ps ds t ws k,
  gen_apply H known jpatch mkws ps ds t ws k = apply_model H known jpatch mkws ps ds t ws k.
Proof. exact tie_apply. Qed.
Theorem C17_apply_is_patch_of_verified : forall H known jpatch mkws ps ds t ws k w, (forall a d, In (a, d) ds -> known a = true) ->
  gen_apply H known jpatch mkws ps ds t ws k = Ok w ->
  verify H ds ws = None /\
  exists i d, getitem t (key_of k) = GPatch i /\ jpatch (ps_ops (nth i ps dflt_pspec)) ws = Ok d /\ mkws d = Ok w.
Proof. exact apply_is_patch_of_verified. Qed.
Theorem C17_apply_refuses_unverified : forall H known jpatch mkws ps ds t ws k alg, (forall a d, In (a, d) ds -> known a = true) ->
  verify H ds ws = Some alg -> gen_apply H known jpatch mkws ps ds t ws k = Err PatchSetVerificationError.
Proof. exact apply_refuses_unverified. Qed.

Print Assumptions C17_accepts_iff_distinct.
Print Assumptions C17_lookup_exact.
Print Assumptions C17_other_key_raises.
Print Assumptions C17_verify_iff.
Print Assumptions C17_digest_key_order_insensitive.
Print Assumptions C17_digest_value_sensitive.
Print Assumptions C17_verify_recorded_iff_same.
Print Assumptions C17_canon_idempotent.
Print Assumptions C17_source_is_model_digest.
Print Assumptions C17_source_is_model_patchset_init.
Print Assumptions C17_source_is_model_getitem.
Print Assumptions C17_source_is_model_verify.
Print Assumptions C17_source_is_model_patch_apply.
Print Assumptions C17_source_is_model_apply.
Print Assumptions C17_apply_is_patch_of_verified.
Print Assumptions C17_apply_refuses_unverified.
