(* C15 - property theorems only: invariances of the likelihood template (Ref level); C01 lifts them to the implementation. *)
From Coq Require Import String List Permutation Ring Field Reals.
Require Import PV.Num PV.Sort PV.Spec PV.Impl PV.Ref PV.Invariance PV.Config PV.InterpQ PV.EngineRun PV.RefineRates PV.RefineTop
               PV.InvarianceSpec PV.InvarianceRewrite PV.InvarianceReorder PV.InvarianceRename PV.InvarianceSplit
               PV.InvarianceProfile PV.InvarianceExamples.
Import ListNotations.

Theorem C15_sample_rate_perm_modifiers : forall N, ring_theory (n0 N) (n1 N) (nadd N) (nmul N) (nsub N) (nopp N) eq ->
  forall ia im nc hc cs (sp : spec N) theta c s s' b,
  s_name s = s_name s' -> s_data s = s_data s' -> Permutation (s_mods s) (s_mods s') ->
  sample_rate N ia im nc hc cs sp theta c s b = sample_rate N ia im nc hc cs sp theta c s' b.
Proof. exact sample_rate_perm_modifiers. Qed.
Theorem C15_ref_rate_perm_samples : forall N, ring_theory (n0 N) (n1 N) (nadd N) (nmul N) (nsub N) (nopp N) eq ->
  forall ia im nc hc cs cb (sp : spec N) theta c c' b,
  c_name c = c_name c' -> Permutation (c_samples c) (c_samples c') ->
  (forall s, In s (c_samples c) -> length (s_data s) = chan_nbins N c) -> chan_nbins N c = chan_nbins N c' ->
  ref_rate N ia im nc hc cs cb sp theta c b = ref_rate N ia im nc hc cs cb sp theta c' b.
Proof. exact ref_rate_perm_samples. Qed.
Theorem C15_zero_sample_invariant : forall N, ring_theory (n0 N) (n1 N) (nadd N) (nmul N) (nsub N) (nopp N) eq ->
  forall ia im nc hc cs cb (sp : spec N) theta c s0 b rest,
  c_samples c = s0 :: rest -> s_mods s0 = [] -> nth b (s_data s0) (n0 N) = n0 N ->
  match cs with None => True | Some cv => nltb N (n0 N) cv = false end ->
  ref_rate N ia im nc hc cs cb sp theta c b = rclip N cb (rsum N (map (fun s => sample_rate N ia im nc hc cs sp theta c s b) rest)).
Proof. exact zero_sample_invariant. Qed.
Theorem C15_neutral_modifier_invariant : forall N, ring_theory (n0 N) (n1 N) (nadd N) (nmul N) (nsub N) (nopp N) eq ->
  forall ia im nc hc cs (sp : spec N) theta c s m b rest,
  s_mods s = m :: rest -> mod_factor N im nc sp theta c s m b = n1 N -> mod_delta N ia hc theta s m b = n0 N ->
  sample_rate N ia im nc hc cs sp theta c s b =
  rclip N cs (nmul N (rprod N (map (fun m => mod_factor N im nc sp theta c s m b) rest))
                     (nadd N (nth b (s_data s) (n0 N)) (rsum N (map (fun m => mod_delta N ia hc theta s m b) rest)))).
Proof. exact neutral_modifier_invariant. Qed.
Theorem C15_signal_rescale_cell : forall N,
  field_theory (n0 N) (n1 N) (nadd N) (nmul N) (nsub N) (nopp N) (ndiv N) (ninv N) eq ->
  forall theta_mu nom k other, k <> n0 N ->
  nmul N (nmul N (ndiv N theta_mu k) other) (nmul N k nom) = nmul N (nmul N theta_mu other) nom.
Proof. exact signal_rescale_cell. Qed.
(* the sorted configuration does not depend on listing order *)
Theorem C15_sorted_lists_listing_invariant : forall (l l' : list string),
  (forall x, In x l <-> In x l') -> sort_uniq l = sort_uniq l'.
Proof. exact sort_uniq_ext. Qed.

(* ================= specification level: ANY specification of any size, any ring of numbers, any interpolation functions ================= *)

(* 1. Listing order.  sp' is sp with its channel list, every sample list, every modifier list and the measurement's
   parameter list permuted (spec_reorder: Permutation + pairwise pairing).  The expected data are EQUAL LISTS (channels are
   laid out in sorted name order) and the likelihood terms are the same multiset.  Premises: distinct channel names, every
   sample of a channel has the channel's bin count; for the terms: one modifier per (name, type) in a sample and one
   configuration per parameter (all four are guaranteed for accepted specifications, Wf.v). *)
Theorem C15_reorder_invariant : forall N, ring_theory (n0 N) (n1 N) (nadd N) (nmul N) (nsub N) (nopp N) eq ->
  forall ia im nc hc cs cb (sp sp' : spec N), spec_reorder N sp sp' ->
  NoDup (map c_name (channels sp)) ->
  (forall c s, In c (channels sp) -> In s (c_samples c) -> length (s_data s) = chan_nbins N c) ->
  (forall theta, ref_expected N ia im nc hc cs cb sp' theta = ref_expected N ia im nc hc cs cb sp theta) /\
  ((forall c s, In c (channels sp) -> In s (c_samples c) -> NoDup (map mkey (s_mods s))) -> NoDup (map pc_name (parameters sp)) ->
   forall theta obs aux, Permutation (ref_terms N ia im nc hc cs cb sp' theta obs aux) (ref_terms N ia im nc hc cs cb sp theta obs aux)).
Proof. exact reorder_invariant. Qed.
(* ... and through C01: the implementation models of sp and of any re-listing sp' compute the same expected data at
   parameter vectors that agree by parameter NAME (same premises as C01, for both specifications) *)
Theorem C15_reorder_invariant_impl : forall N, ring_theory (n0 N) (n1 N) (nadd N) (nmul N) (nsub N) (nopp N) eq ->
  forall ia im (sp sp' : spec N) st md md' pars pars',
  spec_reorder N sp sp' ->
  build N sp = Ok md -> build N sp' = Ok md' ->
  shape_ok N sp -> shape_ok N sp' -> clip_guard N st -> layout_okb N sp md = true -> layout_okb N sp' md' = true ->
  (forall n k, theta N md (parf N pars) n k = theta N md' (parf N pars') n k) ->
  expected_actualdata N ia im sp st md pars = expected_actualdata N ia im sp' st md' pars'.
Proof. exact reorder_invariant_impl. Qed.
(* every specification has a non-trivial re-listing: all lists reversed *)
Theorem C15_reverse_is_reorder : forall N (sp : spec N), spec_reorder N sp (rev_spec N sp).
Proof. exact rev_spec_reorder. Qed.

(* 2a. Injective renaming f of the modifier (= parameter) names, applied to the modifiers, the measurement's parameter
   configurations and the POI: equal expected data and EQUAL term lists (a fortiori the same multiset) whenever the
   parameter and auxiliary-data functions are renamed along (theta' (f n) = theta n, aux' (f n) = aux n). *)
Theorem C15_rename_parameters_invariant : forall N ia im nc hc cs cb (f : string -> string), (forall a b, f a = f b -> a = b) ->
  forall (sp : spec N) theta theta', (forall n k, theta' (f n) k = theta n k) ->
  ref_expected N ia im nc hc cs cb (rename_parameters N f sp) theta' = ref_expected N ia im nc hc cs cb sp theta /\
  forall obs aux aux', (forall n k, aux' (f n) k = aux n k) ->
    ref_terms N ia im nc hc cs cb (rename_parameters N f sp) theta' obs aux' = ref_terms N ia im nc hc cs cb sp theta obs aux /\
    Permutation (ref_terms N ia im nc hc cs cb (rename_parameters N f sp) theta' obs aux') (ref_terms N ia im nc hc cs cb sp theta obs aux).
Proof. exact rename_parameters_invariant. Qed.
(* 2b. Renaming g of the channel names: every channel keeps its rates, the expected data are the same blocks in the order
   of the new names (Permutation), the terms the same multiset when the observations are renamed along.  Premise
   stat_local: no staterror parameter is shared between channels (pyhf's own naming: staterror_<channel>); without it the
   statement is false, see the refutation below.  Injectivity of g is not needed at the template level. *)
Theorem C15_rename_channels_invariant : forall N ia im nc hc cs cb (g : string -> string) (sp : spec N), stat_local N sp ->
  forall theta : string -> nat -> V N,
  (forall c b, In c (channels sp) -> ref_rate N ia im nc hc cs cb (rename_channels N g sp) theta (renc N g c) b = ref_rate N ia im nc hc cs cb sp theta c b) /\
  Permutation (ref_expected N ia im nc hc cs cb (rename_channels N g sp) theta) (ref_expected N ia im nc hc cs cb sp theta) /\
  forall obs obs' aux : string -> nat -> V N, (forall c b, In c (channels sp) -> obs' (g (c_name c)) b = obs (c_name c) b) ->
    Permutation (ref_terms N ia im nc hc cs cb (rename_channels N g sp) theta obs' aux) (ref_terms N ia im nc hc cs cb sp theta obs aux).
Proof. exact rename_channels_invariant. Qed.
Theorem C15_rename_channels_shared_staterror_refuted :
  exists c b theta, In c (channels ex_shared) /\
    ref_rate QcNum ia im "code1" "code0" None None (rename_channels QcNum ex_flip ex_shared) theta (renc QcNum ex_flip c) b
    <> ref_rate QcNum ia im "code1" "code0" None None ex_shared theta c b.
Proof. exact rename_channels_shared_staterror_refuted. Qed.

(* 3. A sample with all-zero yields of the channel's length and no modifiers added to one channel (at the head of its
   sample list; any other position by C15_reorder_invariant): expected data equal, terms the same multiset.  Guard as at
   cell level: per-sample clip absent or not positive. *)
Theorem C15_zero_sample_invariant_spec : forall N, ring_theory (n0 N) (n1 N) (nadd N) (nmul N) (nsub N) (nopp N) eq ->
  forall ia im nc hc cs cb (sp : spec N) pre post c0 s0,
  channels sp = pre ++ c0 :: post -> NoDup (map c_name (channels sp)) ->
  s_mods s0 = [] -> length (s_data s0) = chan_nbins N c0 -> (forall b, nth b (s_data s0) (n0 N) = n0 N) ->
  match cs with Some cv => nltb N (n0 N) cv = false | None => True end ->
  forall theta obs aux,
  ref_expected N ia im nc hc cs cb (with_channels sp (pre ++ add_sample N s0 c0 :: post)) theta = ref_expected N ia im nc hc cs cb sp theta /\
  Permutation (ref_terms N ia im nc hc cs cb (with_channels sp (pre ++ add_sample N s0 c0 :: post)) theta obs aux)
              (ref_terms N ia im nc hc cs cb sp theta obs aux).
Proof. exact zero_sample_invariant_spec. Qed.

(* 4. A null systematic added to one sample: a normsys whose factor is 1 at every alpha or a histosys whose shift is 0 in
   every bin at every alpha (null_mod; C03 proves both for lo = hi = nominal).  Expected data equal; the terms gain exactly
   the constraint term TNorm (aux n 0) (theta n 0) 1 when the name n is new among the normsys/histosys names, nothing otherwise. *)
Theorem C15_null_systematic_invariant_spec : forall N, ring_theory (n0 N) (n1 N) (nadd N) (nmul N) (nsub N) (nopp N) eq ->
  forall ia im nc hc cs cb (sp : spec N) pre post c0 spre spost s1 m0,
  channels sp = pre ++ c0 :: post -> c_samples c0 = spre ++ s1 :: spost -> NoDup (map c_name (channels sp)) ->
  null_mod N ia im nc hc s1 m0 ->
  forall theta obs aux,
  let sp' := with_channels sp (pre ++ with_samples c0 (spre ++ add_mod N m0 s1 :: spost) :: post) in
  ref_expected N ia im nc hc cs cb sp' theta = ref_expected N ia im nc hc cs cb sp theta /\
  (In (m_name m0) (alpha_names N sp) ->
     Permutation (ref_terms N ia im nc hc cs cb sp' theta obs aux) (ref_terms N ia im nc hc cs cb sp theta obs aux)) /\
  (~ In (m_name m0) (alpha_names N sp) ->
     Permutation (ref_terms N ia im nc hc cs cb sp' theta obs aux)
                 (TNorm (aux (m_name m0) O) (theta (m_name m0) O) (n1 N) :: ref_terms N ia im nc hc cs cb sp theta obs aux)).
Proof. exact null_systematic_invariant_spec. Qed.

(* 5. A channel cut after its first k bins into two channels (samples, bin-wise data and histosys variations cut along):
   the Poisson terms of the main measurement are the same multiset.  PARTIAL: proved for channels whose modifiers carry no
   per-bin parameter (no staterror, shapesys, shapefactor; for those the parameter itself would have to be split and the
   component layout of every channel sharing a staterror would move) and for the main terms; the constraint terms of such
   a channel are not touched by the cut but that is not part of this statement. *)
Theorem C15_split_channel_invariant_partial : forall N ia im nc hc cs cb k (sp : spec N) pre post c0 n1' n2' theta,
  channels sp = pre ++ c0 :: post -> k <= chan_nbins N c0 ->
  (forall s m, In s (c_samples c0) -> In m (s_mods s) -> bin_free N m) ->
  forall obs obs' : string -> nat -> V N,
  (forall b, obs' n1' b = obs (c_name c0) b) -> (forall b, obs' n2' b = obs (c_name c0) (k + b)) ->
  (forall c b, In c (pre ++ post) -> obs' (c_name c) b = obs (c_name c) b) ->
  Permutation (ref_main_terms N ia im nc hc cs cb (with_channels sp (pre ++ cut_channel N (firstn k) n1' c0 :: cut_channel N (skipn k) n2' c0 :: post)) theta obs')
              (ref_main_terms N ia im nc hc cs cb sp theta obs).
Proof. exact split_channel_invariant. Qed.

(* 6. Two adjacent samples of one channel with identical modifier lists, no histosys, equal lengths and no per-sample clip
   replaced by one sample with the summed yields: the channel's rates, the expected data and the main Poisson terms are
   unchanged (distributivity).  (Any two samples can be made adjacent by C15_reorder_invariant.  The MC-statistical
   constraint terms of the two samples are a different likelihood and are not claimed.) *)
Theorem C15_merge_identical_samples_invariant : forall N, ring_theory (n0 N) (n1 N) (nadd N) (nmul N) (nsub N) (nopp N) eq ->
  forall ia im nc hc cb (sp : spec N) pre post c0 spre spost s1 s2,
  channels sp = pre ++ c0 :: post -> c_samples c0 = spre ++ s1 :: s2 :: spost -> NoDup (map c_name (channels sp)) ->
  s_mods s2 = s_mods s1 -> length (s_data s1) = length (s_data s2) -> (forall m, In m (s_mods s1) -> m_type m <> Histosys) ->
  forall theta obs,
  let c0' := with_samples c0 (spre ++ merged N s1 s2 :: spost) in
  (forall b, ref_rate N ia im nc hc None cb sp theta c0' b = ref_rate N ia im nc hc None cb sp theta c0 b) /\
  ref_expected N ia im nc hc None cb (with_channels sp (pre ++ c0' :: post)) theta = ref_expected N ia im nc hc None cb sp theta /\
  ref_main_terms N ia im nc hc None cb (with_channels sp (pre ++ c0' :: post)) theta obs = ref_main_terms N ia im nc hc None cb sp theta obs.
Proof. exact merge_identical_samples_invariant. Qed.

(* 7. Yields of every sample carrying the normfactor mu multiplied by k <> 0, theta mu divided by k: expected data and main
   terms unchanged.  Premises: the name mu is used for that normfactor only, at most once per sample, and the signal
   samples carry no histosys (whose variations would have to be rescaled as well). *)
Theorem C15_signal_rescale_covariant_spec : forall N,
  field_theory (n0 N) (n1 N) (nadd N) (nmul N) (nsub N) (nopp N) (ndiv N) (ninv N) eq ->
  forall ia im nc hc cs cb (mu : string) (k : V N), k <> n0 N ->
  forall (sp : spec N) (theta : string -> nat -> V N),
  NoDup (map c_name (channels sp)) ->
  (forall c s m, In c (channels sp) -> In s (c_samples c) -> In m (s_mods s) -> m_name m = mu -> m_type m = Normfactor) ->
  (forall c s, In c (channels sp) -> In s (c_samples c) -> has_mod N s mu Normfactor = true -> NoDup (map mkey (s_mods s))) ->
  (forall c s m, In c (channels sp) -> In s (c_samples c) -> has_mod N s mu Normfactor = true -> In m (s_mods s) -> m_type m <> Histosys) ->
  forall obs,
  ref_expected N ia im nc hc cs cb (rescale_signal N mu k sp) (rescale_theta N mu k theta) = ref_expected N ia im nc hc cs cb sp theta /\
  ref_main_terms N ia im nc hc cs cb (rescale_signal N mu k sp) (rescale_theta N mu k theta) obs = ref_main_terms N ia im nc hc cs cb sp theta obs.
Proof. exact signal_rescale_covariant_spec. Qed.

(* 8. Statistics defined through infima: phi carries the feasible set S onto S' and the constrained set A onto A', and
   L' (phi x) = L x + c on S.  Then the infima differ by c and 2 (inf_A' L' - inf_S' L') = 2 (inf_A L - inf_S L); with
   explicit minimisers: phi carries minimisers to minimisers and the statistic is equal. *)
Theorem C15_profile_invariant : forall (X Y : Type) (L : X -> R) (L' : Y -> R) (phi : X -> Y) (c : R)
  (S A : X -> Prop) (S' A' : Y -> Prop),
  (forall x, S x -> S' (phi x)) -> (forall y, S' y -> exists x, S x /\ phi x = y) ->
  (forall x, A x -> S x) -> (forall x, A x -> A' (phi x)) -> (forall y, A' y -> exists x, A x /\ phi x = y) ->
  (forall x, S x -> L' (phi x) = (L x + c)%R) ->
  forall a m a' m', is_inf A L a -> is_inf S L m -> is_inf A' L' a' -> is_inf S' L' m' ->
  m' = (m + c)%R /\ a' = (a + c)%R /\ (2 * (a' - m') = 2 * (a - m))%R.
Proof. exact profile_invariant. Qed.
Theorem C15_profile_invariant_argmin : forall (X Y : Type) (L : X -> R) (L' : Y -> R) (phi : X -> Y) (c : R)
  (S A : X -> Prop) (S' A' : Y -> Prop),
  (forall x, S x -> S' (phi x)) -> (forall y, S' y -> exists x, S x /\ phi x = y) ->
  (forall x, A x -> S x) -> (forall x, A x -> A' (phi x)) -> (forall y, A' y -> exists x, A x /\ phi x = y) ->
  (forall x, S x -> L' (phi x) = (L x + c)%R) ->
  forall xa xs, is_argmin A L xa -> is_argmin S L xs ->
  is_argmin A' L' (phi xa) /\ is_argmin S' L' (phi xs) /\ (2 * (L' (phi xa) - L' (phi xs)) = 2 * (L xa - L xs))%R.
Proof. exact profile_invariant_argmin. Qed.

Print Assumptions C15_sample_rate_perm_modifiers.
Print Assumptions C15_ref_rate_perm_samples.
Print Assumptions C15_zero_sample_invariant.
Print Assumptions C15_neutral_modifier_invariant.
Print Assumptions C15_signal_rescale_cell.
Print Assumptions C15_sorted_lists_listing_invariant.
Print Assumptions C15_reorder_invariant.
Print Assumptions C15_reorder_invariant_impl.
Print Assumptions C15_reverse_is_reorder.
Print Assumptions C15_rename_parameters_invariant.
Print Assumptions C15_rename_channels_invariant.
Print Assumptions C15_rename_channels_shared_staterror_refuted.
Print Assumptions C15_zero_sample_invariant_spec.
Print Assumptions C15_null_systematic_invariant_spec.
Print Assumptions C15_split_channel_invariant_partial.
Print Assumptions C15_merge_identical_samples_invariant.
Print Assumptions C15_signal_rescale_covariant_spec.
Print Assumptions C15_profile_invariant.
Print Assumptions C15_profile_invariant_argmin.

(* ================= additions: constraint terms of merge / rescale, implementation-level corollaries (InvarianceMore*.v) ================= *)
Require Import PV.RefineRates PV.RefineTermsFinal PV.RefineTermsTop PV.InvarianceMore PV.InvarianceMoreImpl PV.InvarianceMoreExamples
               PV.InvarianceMoreSplit PV.InvarianceMoreSplitEx.

(* 6'. Merge with ALL likelihood terms.  Two adjacent samples carrying the same modifiers (mod_sim: same name, type and data, except
   that each sample lists its own MC-statistical uncertainties) are replaced by one sample sm with the summed yields, the same
   modifiers, and staterror uncertainties that are the quadrature sums -- stated through the square, no square root:
   u(sm)^2 = u(s1)^2 + u(s2)^2 in every bin for every staterror the samples carry.  Expected data equal, all terms (main Poisson terms,
   staterror constraint terms with their widths, every other constraint term) the same multiset.  Samples with a histosys (variations
   would have to be added as well) or a shapesys (a shapesys name belongs to ONE sample, wf_spec conjunct 6, so two samples never
   carry the same shapesys) are outside the premise. *)
Theorem C15_merge_samples_invariant : forall N, ring_theory (n0 N) (n1 N) (nadd N) (nmul N) (nsub N) (nopp N) eq ->
  (forall a b : V N, ndiv N a b = nmul N a (ninv N b)) ->
  forall ia im nc hc cb (sp : spec N) pre post c0 spre spost s1 s2 sm,
  channels sp = pre ++ c0 :: post -> c_samples c0 = spre ++ s1 :: s2 :: spost -> NoDup (map c_name (channels sp)) ->
  Forall2 (mod_sim N) (s_mods s1) (s_mods s2) -> Forall2 (mod_sim N) (s_mods s1) (s_mods sm) ->
  s_data sm = vadd N (s_data s1) (s_data s2) -> length (s_data s1) = length (s_data s2) ->
  (forall m, In m (s_mods s1) -> m_type m <> Histosys /\ m_type m <> Shapesys) ->
  (forall n b, has_mod N s1 n Staterror = true -> b < length (s_data s1) ->
     nmul N (stat_unc N sm n b) (stat_unc N sm n b) =
     nadd N (nmul N (stat_unc N s1 n b) (stat_unc N s1 n b)) (nmul N (stat_unc N s2 n b) (stat_unc N s2 n b))) ->
  (forall s, In s (c_samples c0) -> length (s_data s) = chan_nbins N c0) ->
  forall theta obs aux,
  let c0' := with_samples c0 (spre ++ sm :: spost) in
  (forall b, ref_rate N ia im nc hc None cb sp theta c0' b = ref_rate N ia im nc hc None cb sp theta c0 b) /\
  ref_expected N ia im nc hc None cb (with_channels sp (pre ++ c0' :: post)) theta = ref_expected N ia im nc hc None cb sp theta /\
  Permutation (ref_terms N ia im nc hc None cb (with_channels sp (pre ++ c0' :: post)) theta obs aux) (ref_terms N ia im nc hc None cb sp theta obs aux).
Proof. exact merge_samples_invariant_full. Qed.
(* ... and the rewrite `merged` of theorem 6 (first sample's modifier list, summed yields) when the samples carry no staterror: all terms *)
Theorem C15_merge_identical_samples_invariant_terms : forall N, ring_theory (n0 N) (n1 N) (nadd N) (nmul N) (nsub N) (nopp N) eq ->
  (forall a b : V N, ndiv N a b = nmul N a (ninv N b)) ->
  forall ia im nc hc cb (sp : spec N) pre post c0 spre spost s1 s2,
  channels sp = pre ++ c0 :: post -> c_samples c0 = spre ++ s1 :: s2 :: spost -> NoDup (map c_name (channels sp)) ->
  s_mods s2 = s_mods s1 -> length (s_data s1) = length (s_data s2) ->
  (forall m, In m (s_mods s1) -> m_type m <> Histosys /\ m_type m <> Shapesys /\ m_type m <> Staterror) ->
  (forall s, In s (c_samples c0) -> length (s_data s) = chan_nbins N c0) ->
  forall theta obs aux,
  let c0' := with_samples c0 (spre ++ merged N s1 s2 :: spost) in
  Permutation (ref_terms N ia im nc hc None cb (with_channels sp (pre ++ c0' :: post)) theta obs aux) (ref_terms N ia im nc hc None cb sp theta obs aux).
Proof. exact merge_identical_samples_invariant_terms. Qed.

(* 7'. Signal rescaling with ALL terms: when the samples carrying the normfactor mu have no histosys, no staterror and no shapesys, the
   constraint terms of the rescaled specification at the rescaled parameters are LITERALLY the same list, hence so is the whole term list. *)
Theorem C15_signal_rescale_covariant_terms : forall N,
  field_theory (n0 N) (n1 N) (nadd N) (nmul N) (nsub N) (nopp N) (ndiv N) (ninv N) eq ->
  forall ia im nc hc cs cb (mu : string) (k : V N), k <> n0 N ->
  forall (sp : spec N) (theta : string -> nat -> V N),
  NoDup (map c_name (channels sp)) ->
  (forall c s m, In c (channels sp) -> In s (c_samples c) -> In m (s_mods s) -> m_name m = mu -> m_type m = Normfactor) ->
  (forall c s, In c (channels sp) -> In s (c_samples c) -> has_mod N s mu Normfactor = true -> NoDup (map mkey (s_mods s))) ->
  (forall c s m, In c (channels sp) -> In s (c_samples c) -> has_mod N s mu Normfactor = true -> In m (s_mods s) ->
     m_type m <> Histosys /\ m_type m <> Staterror /\ m_type m <> Shapesys) ->
  forall obs aux,
  ref_expected N ia im nc hc cs cb (rescale_signal N mu k sp) (rescale_theta N mu k theta) = ref_expected N ia im nc hc cs cb sp theta /\
  ref_cterms N (rescale_signal N mu k sp) (rescale_theta N mu k theta) aux = ref_cterms N sp theta aux /\
  ref_terms N ia im nc hc cs cb (rescale_signal N mu k sp) (rescale_theta N mu k theta) obs aux = ref_terms N ia im nc hc cs cb sp theta obs aux.
Proof. exact signal_rescale_covariant_terms. Qed.

(* Implementation level, through C01 (expected_refines_accepted_full) and C02 (logpdf_terms_refines).  Common shape: sp and the
   rewritten sp' are both accepted by `build`, the JSON-schema shapes hold for both, the documented clip guard holds; the two runs are fed
   parameters and data that agree BY NAME on the components the original specification reads (agree_on: every (parameter name,
   component) in read_list sp; obs_agree: every bin of every channel of sp).  Then expected_actualdata is equal and the term lists
   returned by logpdf_terms are the same multiset. *)
Theorem C15_zero_sample_invariant_impl : forall N, ring_theory (n0 N) (n1 N) (nadd N) (nmul N) (nsub N) (nopp N) eq ->
  (forall a b : V N, neqb N a b = true -> a = b) -> (forall a b : V N, ndiv N a b = nmul N a (ninv N b)) ->
  forall ia im (st : settings N), clip_guard N st ->
  forall (sp : spec N) pre post c0 s0 md md' pars pars',
  let sp' := with_channels sp (pre ++ add_sample N s0 c0 :: post) in
  channels sp = pre ++ c0 :: post -> s_mods s0 = [] -> length (s_data s0) = chan_nbins N c0 -> (forall b, nth b (s_data s0) (n0 N) = n0 N) ->
  build N sp = Ok md -> build N sp' = Ok md' -> shape_ok N sp -> shape_ok N sp' ->
  same_pars N sp md md' pars pars' ->
  expected_actualdata N ia im sp' st md' pars' = expected_actualdata N ia im sp st md pars /\
  forall data data' l l', list_shape_ok N sp -> list_shape_ok N sp' ->
    logpdf_terms N ia im sp st md pars data = Ok l -> logpdf_terms N ia im sp' st md' pars' data' = Ok l' ->
    same_data N sp sp' md md' data data' -> Permutation l' l.
Proof. exact zero_sample_invariant_impl. Qed.
Theorem C15_null_systematic_invariant_impl : forall N, ring_theory (n0 N) (n1 N) (nadd N) (nmul N) (nsub N) (nopp N) eq ->
  (forall a b : V N, neqb N a b = true -> a = b) -> (forall a b : V N, ndiv N a b = nmul N a (ninv N b)) ->
  forall ia im (st : settings N), clip_guard N st ->
  forall (sp : spec N) pre post c0 spre spost s1 m0 md md' pars pars',
  let sp' := with_channels sp (pre ++ with_samples c0 (spre ++ add_mod N m0 s1 :: spost) :: post) in
  channels sp = pre ++ c0 :: post -> c_samples c0 = spre ++ s1 :: spost ->
  null_mod N ia im (normsys_code N st) (histosys_code N st) s1 m0 ->
  build N sp = Ok md -> build N sp' = Ok md' -> shape_ok N sp -> shape_ok N sp' ->
  same_pars N sp md md' pars pars' ->
  expected_actualdata N ia im sp' st md' pars' = expected_actualdata N ia im sp st md pars /\
  forall data data' l l', list_shape_ok N sp -> list_shape_ok N sp' ->
    logpdf_terms N ia im sp st md pars data = Ok l -> logpdf_terms N ia im sp' st md' pars' data' = Ok l' ->
    same_data N sp sp' md md' data data' ->
    (In (m_name m0) (alpha_names N sp) -> Permutation l' l) /\
    (~ In (m_name m0) (alpha_names N sp) ->
       Permutation l' (TNorm (aux_of_data N sp' md' data' (m_name m0) O) (theta N md' (parf N pars') (m_name m0) O) (n1 N) :: l)).
Proof. exact null_systematic_invariant_impl. Qed.
Theorem C15_merge_samples_invariant_impl : forall N, ring_theory (n0 N) (n1 N) (nadd N) (nmul N) (nsub N) (nopp N) eq ->
  (forall a b : V N, neqb N a b = true -> a = b) -> (forall a b : V N, ndiv N a b = nmul N a (ninv N b)) ->
  forall ia im (st : settings N), clip_guard N st ->
  forall (sp : spec N) pre post c0 spre spost s1 s2 sm md md' pars pars',
  let sp' := with_channels sp (pre ++ with_samples c0 (spre ++ sm :: spost) :: post) in
  clip_sample N st = None ->
  channels sp = pre ++ c0 :: post -> c_samples c0 = spre ++ s1 :: s2 :: spost ->
  Forall2 (mod_sim N) (s_mods s1) (s_mods s2) -> Forall2 (mod_sim N) (s_mods s1) (s_mods sm) ->
  s_data sm = vadd N (s_data s1) (s_data s2) ->
  (forall m, In m (s_mods s1) -> m_type m <> Histosys /\ m_type m <> Shapesys) ->
  (forall n b, has_mod N s1 n Staterror = true -> b < length (s_data s1) ->
     nmul N (stat_unc N sm n b) (stat_unc N sm n b) =
     nadd N (nmul N (stat_unc N s1 n b) (stat_unc N s1 n b)) (nmul N (stat_unc N s2 n b) (stat_unc N s2 n b))) ->
  build N sp = Ok md -> build N sp' = Ok md' -> shape_ok N sp -> shape_ok N sp' ->
  same_pars N sp md md' pars pars' ->
  expected_actualdata N ia im sp' st md' pars' = expected_actualdata N ia im sp st md pars /\
  forall data data' l l', list_shape_ok N sp -> list_shape_ok N sp' ->
    logpdf_terms N ia im sp st md pars data = Ok l -> logpdf_terms N ia im sp' st md' pars' data' = Ok l' ->
    same_data N sp sp' md md' data data' -> Permutation l' l.
Proof. exact merge_samples_invariant_impl. Qed.
(* the rescaled model is fed theta mu / k (component 0 of mu; all other read components unchanged) *)
Theorem C15_signal_rescale_covariant_impl : forall N,
  field_theory (n0 N) (n1 N) (nadd N) (nmul N) (nsub N) (nopp N) (ndiv N) (ninv N) eq ->
  (forall a b : V N, neqb N a b = true -> a = b) ->
  forall ia im (st : settings N), clip_guard N st ->
  forall (mu : string) (k : V N), k <> n0 N ->
  forall (sp : spec N) md md' pars pars',
  let sp' := rescale_signal N mu k sp in
  (forall c s m, In c (channels sp) -> In s (c_samples c) -> In m (s_mods s) -> m_name m = mu -> m_type m = Normfactor) ->
  (forall c s m, In c (channels sp) -> In s (c_samples c) -> has_mod N s mu Normfactor = true -> In m (s_mods s) ->
     m_type m <> Histosys /\ m_type m <> Staterror /\ m_type m <> Shapesys) ->
  build N sp = Ok md -> build N sp' = Ok md' -> shape_ok N sp -> shape_ok N sp' ->
  agree_on N sp (theta N md' (parf N pars')) (rescale_theta N mu k (theta N md (parf N pars))) ->
  expected_actualdata N ia im sp' st md' pars' = expected_actualdata N ia im sp st md pars /\
  forall data data' l l', list_shape_ok N sp -> list_shape_ok N sp' ->
    logpdf_terms N ia im sp st md pars data = Ok l -> logpdf_terms N ia im sp' st md' pars' data' = Ok l' ->
    obs_agree N sp (obs_by_name N sp' data') (obs_by_name N sp data) ->
    agree_on N sp (aux_of_data N sp' md' data') (aux_of_data N sp md data) ->
    Permutation l' l.
Proof. exact signal_rescale_covariant_impl. Qed.
(* the renamed model is fed, under the name f n, what the original is fed under n *)
Theorem C15_rename_parameters_invariant_impl : forall N, ring_theory (n0 N) (n1 N) (nadd N) (nmul N) (nsub N) (nopp N) eq ->
  (forall a b : V N, neqb N a b = true -> a = b) -> (forall a b : V N, ndiv N a b = nmul N a (ninv N b)) ->
  forall ia im (st : settings N), clip_guard N st ->
  forall (f : string -> string) (sp : spec N) md md' pars pars',
  let sp' := rename_parameters N f sp in
  (forall a b, f a = f b -> a = b) ->
  build N sp = Ok md -> build N sp' = Ok md' -> shape_ok N sp -> shape_ok N sp' ->
  (forall n k, In (n, k) (read_list N sp) -> theta N md' (parf N pars') (f n) k = theta N md (parf N pars) n k) ->
  expected_actualdata N ia im sp' st md' pars' = expected_actualdata N ia im sp st md pars /\
  forall data data' l l', list_shape_ok N sp -> list_shape_ok N sp' ->
    logpdf_terms N ia im sp st md pars data = Ok l -> logpdf_terms N ia im sp' st md' pars' data' = Ok l' ->
    obs_agree N sp (obs_by_name N sp' data') (obs_by_name N sp data) ->
    (forall n k, In (n, k) (read_list N sp) -> aux_of_data N sp' md' data' (f n) k = aux_of_data N sp md data n k) ->
    Permutation l' l.
Proof. exact rename_parameters_invariant_impl. Qed.

(* 5'. Split of a channel, full form (replaces the restriction of C15_split_channel_invariant_partial above: channels WITH staterror /
   shapesys / shapefactor, main AND constraint terms).  c0 is cut after its first k bins into c1 = cutren_channel (firstn k) r1 n1' c0 and
   c2 = cutren_channel (skipn k) r2 n2' c0: samples, bin-wise data and histosys variations cut along, every bin-wise modifier renamed by
   r1 in c1 and by r2 in c2 (the parameter becomes two parameters carrying the two halves).  split_corr theta' theta states the
   correspondence on the components the template reads (comp: shapefactor/shapesys = local bin; staterror = stat_offset + local bin,
   each computed in its own specification, so staterrors shared with other channels are covered): scalar parameters unchanged at
   component 0; bin-wise parameters of the other channels unchanged at the component read for each bin; for a bin-wise parameter n of c0
   the component read by c1 for bin b < k under the name r1 n, and by c2 for bin b under the name r2 n, is the component c0 reads for
   bin b, resp. k + b.  Same correspondence for the auxiliary data; observations renamed along.  Further premises: r1, r2 injective;
   the measurement does not override widths/factors of the bin-wise parameters (nor of the new names).  Then ALL likelihood terms
   (Poisson terms, staterror and shapesys constraint terms of both parts, all other constraint terms) are the same multiset.
   For a channel without bin-wise modifiers cutren_channel renames nothing and split_corr reduces to equality at component 0. *)
Theorem C15_split_channel_invariant : forall N ia im nc hc cs cb k (r1 r2 : string -> string) (sp : spec N) pre post c0 n1' n2',
  channels sp = pre ++ c0 :: post -> k <= chan_nbins N c0 ->
  forall theta theta' : string -> nat -> V N, split_corr N k r1 r2 sp pre post c0 n1' n2' theta' theta ->
  forall obs obs' : string -> nat -> V N,
  (forall b, obs' n1' b = obs (c_name c0) b) -> (forall b, obs' n2' b = obs (c_name c0) (k + b)) ->
  (forall c b, In c (pre ++ post) -> obs' (c_name c) b = obs (c_name c) b) ->
  forall aux aux' : string -> nat -> V N, split_corr N k r1 r2 sp pre post c0 n1' n2' aux' aux ->
  (forall a b, r1 a = r1 b -> a = b) -> (forall a b, r2 a = r2 b -> a = b) ->
  (forall c s m, In c (channels sp) -> In s (c_samples c) -> In m (s_mods s) -> binwise N m = true ->
     user_cfg N sp (m_name m) = None /\ user_cfg N sp (r1 (m_name m)) = None /\ user_cfg N sp (r2 (m_name m)) = None) ->
  Permutation (ref_terms N ia im nc hc cs cb
                 (with_channels sp (pre ++ cutren_channel N (firstn k) r1 n1' c0 :: cutren_channel N (skipn k) r2 n2' c0 :: post)) theta' obs' aux')
              (ref_terms N ia im nc hc cs cb sp theta obs aux).
Proof. exact split_binwise_terms. Qed.

Print Assumptions C15_merge_samples_invariant.
Print Assumptions C15_merge_identical_samples_invariant_terms.
Print Assumptions C15_signal_rescale_covariant_terms.
Print Assumptions C15_zero_sample_invariant_impl.
Print Assumptions C15_null_systematic_invariant_impl.
Print Assumptions C15_merge_samples_invariant_impl.
Print Assumptions C15_signal_rescale_covariant_impl.
Print Assumptions C15_rename_parameters_invariant_impl.
Print Assumptions C15_split_channel_invariant.
