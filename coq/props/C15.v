(* C15 - property theorems only: invariances of the likelihood template (Ref level); C01 lifts them to the implementation. *)
From Coq Require Import String List Permutation Ring Field Reals.
Require Import PV.Num PV.Sort PV.Spec PV.Impl PV.Ref PV.Invariance PV.Config PV.InterpQ PV.EngineRun PV.RefineRates PV.RefineTop
               PV.InvarianceSpec PV.InvarianceRewrite PV.InvarianceReorder PV.InvarianceRename PV.InvarianceSplit
               PV.InvarianceProfile PV.InvarianceExamples.
Import ListNotations.

Theorem C15_sample_rate_perm_modifiers : forall N, ring_theory (n0 N) (n1 N) (nadd N) (nmul N) (nsub N) (nopp N) eq ->
  forall ia im nc hc cs (sp : spec N) theta c s s' b,
  s_name s = s_name s' -> s_data s = s_data s' -> Permutation (s_mods s) (s_mods s') ->
  sample_rate N ia im nc hc cs sp theta c s b = sample_rate N ia im nc hc cs sp theta c s' b.
Proof. exact sample_rate_perm_modifiers. Qed.
Theorem C15_ref_rate_perm_samples : forall N, ring_theory (n0 N) (n1 N) (nadd N) (nmul N) (nsub N) (nopp N) eq ->
  forall ia im nc hc cs cb (sp : spec N) theta c c' b,
  c_name c = c_name c' -> Permutation (c_samples c) (c_samples c') ->
  (forall s, In s (c_samples c) -> length (s_data s) = chan_nbins N c) -> chan_nbins N c = chan_nbins N c' ->
  ref_rate N ia im nc hc cs cb sp theta c b = ref_rate N ia im nc hc cs cb sp theta c' b.
Proof. exact ref_rate_perm_samples. Qed.
Theorem C15_zero_sample_invariant : forall N, ring_theory (n0 N) (n1 N) (nadd N) (nmul N) (nsub N) (nopp N) eq ->
  forall ia im nc hc cs cb (sp : spec N) theta c s0 b rest,
  c_samples c = s0 :: rest -> s_mods s0 = [] -> nth b (s_data s0) (n0 N) = n0 N ->
  match cs with None => True | Some cv => nltb N (n0 N) cv = false end ->
  ref_rate N ia im nc hc cs cb sp theta c b = rclip N cb (rsum N (map (fun s => sample_rate N ia im nc hc cs sp theta c s b) rest)).
Proof. exact zero_sample_invariant. Qed.
Theorem C15_neutral_modifier_invariant : forall N, ring_theory (n0 N) (n1 N) (nadd N) (nmul N) (nsub N) (nopp N) eq ->
  forall ia im nc hc cs (sp : spec N) theta c s m b rest,
  s_mods s = m :: rest -> mod_factor N im nc sp theta c s m b = n1 N -> mod_delta N ia hc theta s m b = n0 N ->
  sample_rate N ia im nc hc cs sp theta c s b =
  rclip N cs (nmul N (rprod N (map (fun m => mod_factor N im nc sp theta c s m b) rest))
                     (nadd N (nth b (s_data s) (n0 N)) (rsum N (map (fun m => mod_delta N ia hc theta s m b) rest)))).
Proof. exact neutral_modifier_invariant. Qed.
Theorem C15_signal_rescale_cell : forall N,
  field_theory (n0 N) (n1 N) (nadd N) (nmul N) (nsub N) (nopp N) (ndiv N) (ninv N) eq ->
  forall theta_mu nom k other, k <> n0 N ->
  nmul N (nmul N (ndiv N theta_mu k) other) (nmul N k nom) = nmul N (nmul N theta_mu other) nom.
Proof. exact signal_rescale_cell. Qed.
(* the sorted configuration does not depend on listing order *)
Theorem C15_sorted_lists_listing_invariant : forall (l l' : list string),
  (forall x, In x l <-> In x l') -> sort_uniq l = sort_uniq l'.
Proof. exact sort_uniq_ext. Qed.

(* ================= specification level: ANY specification of any size, any ring of numbers, any interpolation functions ================= *)

(* 1. Listing order.  sp' is sp with its channel list, every sample list, every modifier list and the measurement's
   parameter list permuted (spec_reorder: Permutation + pairwise pairing).  The expected data are EQUAL LISTS (channels are
   laid out in sorted name order) and the likelihood terms are the same multiset.  Premises: distinct channel names, every
   sample of a channel has the channel's bin count; for the terms: one modifier per (name, type) in a sample and one
   configuration per parameter (all four are guaranteed for accepted specifications, Wf.v). *)
Theorem C15_reorder_invariant : forall N, ring_theory (n0 N) (n1 N) (nadd N) (nmul N) (nsub N) (nopp N) eq ->
  forall ia im nc hc cs cb (sp sp' : spec N), spec_reorder N sp sp' ->
  NoDup (map c_name (channels sp)) ->
  (forall c s, In c (channels sp) -> In s (c_samples c) -> length (s_data s) = chan_nbins N c) ->
  (forall theta, ref_expected N ia im nc hc cs cb sp' theta = ref_expected N ia im nc hc cs cb sp theta) /\
  ((forall c s, In c (channels sp) -> In s (c_samples c) -> NoDup (map mkey (s_mods s))) -> NoDup (map pc_name (parameters sp)) ->
   forall theta obs aux, Permutation (ref_terms N ia im nc hc cs cb sp' theta obs aux) (ref_terms N ia im nc hc cs cb sp theta obs aux)).
Proof. exact reorder_invariant. Qed.
(* ... and through C01: the implementation models of sp and of any re-listing sp' compute the same expected data at
   parameter vectors that agree by parameter NAME (same premises as C01, for both specifications) *)
Theorem C15_reorder_invariant_impl : forall N, ring_theory (n0 N) (n1 N) (nadd N) (nmul N) (nsub N) (nopp N) eq ->
  forall ia im (sp sp' : spec N) st md md' pars pars',
  spec_reorder N sp sp' ->
  build N sp = Ok md -> build N sp' = Ok md' ->
  shape_ok N sp -> shape_ok N sp' -> clip_guard N st -> layout_okb N sp md = true -> layout_okb N sp' md' = true ->
  (forall n k, theta N md (parf N pars) n k = theta N md' (parf N pars') n k) ->
  expected_actualdata N ia im sp st md pars = expected_actualdata N ia im sp' st md' pars'.
Proof. exact reorder_invariant_impl. Qed.
(* every specification has a non-trivial re-listing: all lists reversed *)
Theorem C15_reverse_is_reorder : forall N (sp : spec N), spec_reorder N sp (rev_spec N sp).
Proof. exact rev_spec_reorder. Qed.

(* 2a. Injective renaming f of the modifier (= parameter) names, applied to the modifiers, the measurement's parameter
   configurations and the POI: equal expected data and EQUAL term lists (a fortiori the same multiset) whenever the
   parameter and auxiliary-data functions are renamed along (theta' (f n) = theta n, aux' (f n) = aux n). *)
Theorem C15_rename_parameters_invariant : forall N ia im nc hc cs cb (f : string -> string), (forall a b, f a = f b -> a = b) ->
  forall (sp : spec N) theta theta', (forall n k, theta' (f n) k = theta n k) ->
  ref_expected N ia im nc hc cs cb (rename_parameters N f sp) theta' = ref_expected N ia im nc hc cs cb sp theta /\
  forall obs aux aux', (forall n k, aux' (f n) k = aux n k) ->
    ref_terms N ia im nc hc cs cb (rename_parameters N f sp) theta' obs aux' = ref_terms N ia im nc hc cs cb sp theta obs aux /\
    Permutation (ref_terms N ia im nc hc cs cb (rename_parameters N f sp) theta' obs aux') (ref_terms N ia im nc hc cs cb sp theta obs aux).
Proof. exact rename_parameters_invariant. Qed.
(* 2b. Renaming g of the channel names: every channel keeps its rates, the expected data are the same blocks in the order
   of the new names (Permutation), the terms the same multiset when the observations are renamed along.  Premise
   stat_local: no staterror parameter is shared between channels (pyhf's own naming: staterror_<channel>); without it the
   statement is false, see the refutation below.  Injectivity of g is not needed at the template level. *)
Theorem C15_rename_channels_invariant : forall N ia im nc hc cs cb (g : string -> string) (sp : spec N), stat_local N sp ->
  forall theta : string -> nat -> V N,
  (forall c b, In c (channels sp) -> ref_rate N ia im nc hc cs cb (rename_channels N g sp) theta (renc N g c) b = ref_rate N ia im nc hc cs cb sp theta c b) /\
  Permutation (ref_expected N ia im nc hc cs cb (rename_channels N g sp) theta) (ref_expected N ia im nc hc cs cb sp theta) /\
  forall obs obs' aux : string -> nat -> V N, (forall c b, In c (channels sp) -> obs' (g (c_name c)) b = obs (c_name c) b) ->
    Permutation (ref_terms N ia im nc hc cs cb (rename_channels N g sp) theta obs' aux) (ref_terms N ia im nc hc cs cb sp theta obs aux).
Proof. exact rename_channels_invariant. Qed.
Theorem C15_rename_channels_shared_staterror_refuted :
  exists c b theta, In c (channels ex_shared) /\
    ref_rate QcNum ia im "code1" "code0" None None (rename_channels QcNum ex_flip ex_shared) theta (renc QcNum ex_flip c) b
    <> ref_rate QcNum ia im "code1" "code0" None None ex_shared theta c b.
Proof. exact rename_channels_shared_staterror_refuted. Qed.

(* 3. A sample with all-zero yields of the channel's length and no modifiers added to one channel (at the head of its
   sample list; any other position by C15_reorder_invariant): expected data equal, terms the same multiset.  Guard as at
   cell level: per-sample clip absent or not positive. *)
Theorem C15_zero_sample_invariant_spec : forall N, ring_theory (n0 N) (n1 N) (nadd N) (nmul N) (nsub N) (nopp N) eq ->
  forall ia im nc hc cs cb (sp : spec N) pre post c0 s0,
  channels sp = pre ++ c0 :: post -> NoDup (map c_name (channels sp)) ->
  s_mods s0 = [] -> length (s_data s0) = chan_nbins N c0 -> (forall b, nth b (s_data s0) (n0 N) = n0 N) ->
  match cs with Some cv => nltb N (n0 N) cv = false | None => True end ->
  forall theta obs aux,
  ref_expected N ia im nc hc cs cb (with_channels sp (pre ++ add_sample N s0 c0 :: post)) theta = ref_expected N ia im nc hc cs cb sp theta /\
  Permutation (ref_terms N ia im nc hc cs cb (with_channels sp (pre ++ add_sample N s0 c0 :: post)) theta obs aux)
              (ref_terms N ia im nc hc cs cb sp theta obs aux).
Proof. exact zero_sample_invariant_spec. Qed.

(* 4. A null systematic added to one sample: a normsys whose factor is 1 at every alpha or a histosys whose shift is 0 in
   every bin at every alpha (null_mod; C03 proves both for lo = hi = nominal).  Expected data equal; the terms gain exactly
   the constraint term TNorm (aux n 0) (theta n 0) 1 when the name n is new among the normsys/histosys names, nothing otherwise. *)
Theorem C15_null_systematic_invariant_spec : forall N, ring_theory (n0 N) (n1 N) (nadd N) (nmul N) (nsub N) (nopp N) eq ->
  forall ia im nc hc cs cb (sp : spec N) pre post c0 spre spost s1 m0,
  channels sp = pre ++ c0 :: post -> c_samples c0 = spre ++ s1 :: spost -> NoDup (map c_name (channels sp)) ->
  null_mod N ia im nc hc s1 m0 ->
  forall theta obs aux,
  let sp' := with_channels sp (pre ++ with_samples c0 (spre ++ add_mod N m0 s1 :: spost) :: post) in
  ref_expected N ia im nc hc cs cb sp' theta = ref_expected N ia im nc hc cs cb sp theta /\
  (In (m_name m0) (alpha_names N sp) ->
     Permutation (ref_terms N ia im nc hc cs cb sp' theta obs aux) (ref_terms N ia im nc hc cs cb sp theta obs aux)) /\
  (~ In (m_name m0) (alpha_names N sp) ->
     Permutation (ref_terms N ia im nc hc cs cb sp' theta obs aux)
                 (TNorm (aux (m_name m0) O) (theta (m_name m0) O) (n1 N) :: ref_terms N ia im nc hc cs cb sp theta obs aux)).
Proof. exact null_systematic_invariant_spec. Qed.

(* 5. A channel cut after its first k bins into two channels (samples, bin-wise data and histosys variations cut along):
   the Poisson terms of the main measurement are the same multiset.  PARTIAL: proved for channels whose modifiers carry no
   per-bin parameter (no staterror, shapesys, shapefactor; for those the parameter itself would have to be split and the
   component layout of every channel sharing a staterror would move) and for the main terms; the constraint terms of such
   a channel are not touched by the cut but that is not part of this statement. *)
Theorem C15_split_channel_invariant_partial : forall N ia im nc hc cs cb k (sp : spec N) pre post c0 n1' n2' theta,
  channels sp = pre ++ c0 :: post -> k <= chan_nbins N c0 ->
  (forall s m, In s (c_samples c0) -> In m (s_mods s) -> bin_free N m) ->
  forall obs obs' : string -> nat -> V N,
  (forall b, obs' n1' b = obs (c_name c0) b) -> (forall b, obs' n2' b = obs (c_name c0) (k + b)) ->
  (forall c b, In c (pre ++ post) -> obs' (c_name c) b = obs (c_name c) b) ->
  Permutation (ref_main_terms N ia im nc hc cs cb (with_channels sp (pre ++ cut_channel N (firstn k) n1' c0 :: cut_channel N (skipn k) n2' c0 :: post)) theta obs')
              (ref_main_terms N ia im nc hc cs cb sp theta obs).
Proof. exact split_channel_invariant. Qed.

(* 6. Two adjacent samples of one channel with identical modifier lists, no histosys, equal lengths and no per-sample clip
   replaced by one sample with the summed yields: the channel's rates, the expected data and the main Poisson terms are
   unchanged (distributivity).  (Any two samples can be made adjacent by C15_reorder_invariant.  The MC-statistical
   constraint terms of the two samples are a different likelihood and are not claimed.) *)
Theorem C15_merge_identical_samples_invariant : forall N, ring_theory (n0 N) (n1 N) (nadd N) (nmul N) (nsub N) (nopp N) eq ->
  forall ia im nc hc cb (sp : spec N) pre post c0 spre spost s1 s2,
  channels sp = pre ++ c0 :: post -> c_samples c0 = spre ++ s1 :: s2 :: spost -> NoDup (map c_name (channels sp)) ->
  s_mods s2 = s_mods s1 -> length (s_data s1) = length (s_data s2) -> (forall m, In m (s_mods s1) -> m_type m <> Histosys) ->
  forall theta obs,
  let c0' := with_samples c0 (spre ++ merged N s1 s2 :: spost) in
  (forall b, ref_rate N ia im nc hc None cb sp theta c0' b = ref_rate N ia im nc hc None cb sp theta c0 b) /\
  ref_expected N ia im nc hc None cb (with_channels sp (pre ++ c0' :: post)) theta = ref_expected N ia im nc hc None cb sp theta /\
  ref_main_terms N ia im nc hc None cb (with_channels sp (pre ++ c0' :: post)) theta obs = ref_main_terms N ia im nc hc None cb sp theta obs.
Proof. exact merge_identical_samples_invariant. Qed.

(* 7. Yields of every sample carrying the normfactor mu multiplied by k <> 0, theta mu divided by k: expected data and main
   terms unchanged.  Premises: the name mu is used for that normfactor only, at most once per sample, and the signal
   samples carry no histosys (whose variations would have to be rescaled as well). *)
Theorem C15_signal_rescale_covariant_spec : forall N,
  field_theory (n0 N) (n1 N) (nadd N) (nmul N) (nsub N) (nopp N) (ndiv N) (ninv N) eq ->
  forall ia im nc hc cs cb (mu : string) (k : V N), k <> n0 N ->
  forall (sp : spec N) (theta : string -> nat -> V N),
  NoDup (map c_name (channels sp)) ->
  (forall c s m, In c (channels sp) -> In s (c_samples c) -> In m (s_mods s) -> m_name m = mu -> m_type m = Normfactor) ->
  (forall c s, In c (channels sp) -> In s (c_samples c) -> has_mod N s mu Normfactor = true -> NoDup (map mkey (s_mods s))) ->
  (forall c s m, In c (channels sp) -> In s (c_samples c) -> has_mod N s mu Normfactor = true -> In m (s_mods s) -> m_type m <> Histosys) ->
  forall obs,
  ref_expected N ia im nc hc cs cb (rescale_signal N mu k sp) (rescale_theta N mu k theta) = ref_expected N ia im nc hc cs cb sp theta /\
  ref_main_terms N ia im nc hc cs cb (rescale_signal N mu k sp) (rescale_theta N mu k theta) obs = ref_main_terms N ia im nc hc cs cb sp theta obs.
Proof. exact signal_rescale_covariant_spec. Qed.

(* 8. Statistics defined through infima: phi carries the feasible set S onto S' and the constrained set A onto A', and
   L' (phi x) = L x + c on S.  Then the infima differ by c and 2 (inf_A' L' - inf_S' L') = 2 (inf_A L - inf_S L); with
   explicit minimisers: phi carries minimisers to minimisers and the statistic is equal. *)
Theorem C15_profile_invariant : forall (X Y : Type) (L : X -> R) (L' : Y -> R) (phi : X -> Y) (c : R)
  (S A : X -> Prop) (S' A' : Y -> Prop),
  (forall x, S x -> S' (phi x)) -> (forall y, S' y -> exists x, S x /\ phi x = y) ->
  (forall x, A x -> S x) -> (forall x, A x -> A' (phi x)) -> (forall y, A' y -> exists x, A x /\ phi x = y) ->
  (forall x, S x -> L' (phi x) = (L x + c)%R) ->
  forall a m a' m', is_inf A L a -> is_inf S L m -> is_inf A' L' a' -> is_inf S' L' m' ->
  m' = (m + c)%R /\ a' = (a + c)%R /\ (2 * (a' - m') = 2 * (a - m))%R.
Proof. exact profile_invariant. Qed.
Theorem C15_profile_invariant_argmin : forall (X Y : Type) (L : X -> R) (L' : Y -> R) (phi : X -> Y) (c : R)
  (S A : X -> Prop) (S' A' : Y -> Prop),
  (forall x, S x -> S' (phi x)) -> (forall y, S' y -> exists x, S x /\ phi x = y) ->
  (forall x, A x -> S x) -> (forall x, A x -> A' (phi x)) -> (forall y, A' y -> exists x, A x /\ phi x = y) ->
  (forall x, S x -> L' (phi x) = (L x + c)%R) ->
  forall xa xs, is_argmin A L xa -> is_argmin S L xs ->
  is_argmin A' L' (phi xa) /\ is_argmin S' L' (phi xs) /\ (2 * (L' (phi xa) - L' (phi xs)) = 2 * (L xa - L xs))%R.
Proof. exact profile_invariant_argmin. Qed.

Print Assumptions C15_sample_rate_perm_modifiers.
Print Assumptions C15_ref_rate_perm_samples.
Print Assumptions C15_zero_sample_invariant.
Print Assumptions C15_neutral_modifier_invariant.
Print Assumptions C15_signal_rescale_cell.
Print Assumptions C15_sorted_lists_listing_invariant.
Print Assumptions C15_reorder_invariant.
Print Assumptions C15_reorder_invariant_impl.
Print Assumptions C15_reverse_is_reorder.
Print Assumptions C15_rename_parameters_invariant.
Print Assumptions C15_rename_channels_invariant.
Print Assumptions C15_rename_channels_shared_staterror_refuted.
Print Assumptions C15_zero_sample_invariant_spec.
Print Assumptions C15_null_systematic_invariant_spec.
Print Assumptions C15_split_channel_invariant_partial.
Print Assumptions C15_merge_identical_samples_invariant.
Print Assumptions C15_signal_rescale_covariant_spec.
Print Assumptions C15_profile_invariant.
Print Assumptions C15_profile_invariant_argmin.
