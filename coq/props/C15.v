(* C15 - property theorems only: invariances of the likelihood template (Ref level); C01 lifts them to the implementation. *)
From Coq Require Import String List Permutation Ring Field.
Require Import PV.Num PV.Sort PV.Spec PV.Impl PV.Ref PV.Invariance PV.Config.
Import ListNotations.

Theorem C15_sample_rate_perm_modifiers : forall N, ring_theory (n0 N) (n1 N) (nadd N) (nmul N) (nsub N) (nopp N) eq ->
  forall ia im nc hc cs (sp : spec N) theta c s s' b,
  s_name s = s_name s' -> s_data s = s_data s' -> Permutation (s_mods s) (s_mods s') ->
  sample_rate N ia im nc hc cs sp theta c s b = sample_rate N ia im nc hc cs sp theta c s' b.
Proof. exact sample_rate_perm_modifiers. Qed.
Theorem C15_ref_rate_perm_samples : forall N, ring_theory (n0 N) (n1 N) (nadd N) (nmul N) (nsub N) (nopp N) eq ->
  forall ia im nc hc cs cb (sp : spec N) theta c c' b,
  c_name c = c_name c' -> Permutation (c_samples c) (c_samples c') ->
  (forall s, In s (c_samples c) -> length (s_data s) = chan_nbins N c) -> chan_nbins N c = chan_nbins N c' ->
  ref_rate N ia im nc hc cs cb sp theta c b = ref_rate N ia im nc hc cs cb sp theta c' b.
Proof. exact ref_rate_perm_samples. Qed.
Theorem C15_zero_sample_invariant : forall N, ring_theory (n0 N) (n1 N) (nadd N) (nmul N) (nsub N) (nopp N) eq ->
  forall ia im nc hc cs cb (sp : spec N) theta c s0 b rest,
  c_samples c = s0 :: rest -> s_mods s0 = [] -> nth b (s_data s0) (n0 N) = n0 N ->
  match cs with None => True | Some cv => nltb N (n0 N) cv = false end ->
  ref_rate N ia im nc hc cs cb sp theta c b = rclip N cb (rsum N (map (fun s => sample_rate N ia im nc hc cs sp theta c s b) rest)).
Proof. exact zero_sample_invariant. Qed.
Theorem C15_neutral_modifier_invariant : forall N, ring_theory (n0 N) (n1 N) (nadd N) (nmul N) (nsub N) (nopp N) eq ->
  forall ia im nc hc cs (sp : spec N) theta c s m b rest,
  s_mods s = m :: rest -> mod_factor N im nc sp theta c s m b = n1 N -> mod_delta N ia hc theta s m b = n0 N ->
  sample_rate N ia im nc hc cs sp theta c s b =
  rclip N cs (nmul N (rprod N (map (fun m => mod_factor N im nc sp theta c s m b) rest))
                     (nadd N (nth b (s_data s) (n0 N)) (rsum N (map (fun m => mod_delta N ia hc theta s m b) rest)))).
Proof. exact neutral_modifier_invariant. Qed.
Theorem C15_signal_rescale_cell : forall N,
  field_theory (n0 N) (n1 N) (nadd N) (nmul N) (nsub N) (nopp N) (ndiv N) (ninv N) eq ->
  forall theta_mu nom k other, k <> n0 N ->
  nmul N (nmul N (ndiv N theta_mu k) other) (nmul N k nom) = nmul N (nmul N theta_mu other) nom.
Proof. exact signal_rescale_cell. Qed.
(* the sorted configuration does not depend on listing order *)
Theorem C15_sorted_lists_listing_invariant : forall (l l' : list string),
  (forall x, In x l <-> In x l') -> sort_uniq l = sort_uniq l'.
Proof. exact sort_uniq_ext. Qed.

Print Assumptions C15_sample_rate_perm_modifiers.
Print Assumptions C15_ref_rate_perm_samples.
Print Assumptions C15_zero_sample_invariant.
Print Assumptions C15_neutral_modifier_invariant.
Print Assumptions C15_signal_rescale_cell.
Print Assumptions C15_sorted_lists_listing_invariant.
