(* C09 - property theorems only. *)
From Coq Require Import QArith Qcanon Reals String Sorting.Sorted List.
Require Import PV.Num PV.UpperLimit PV.gen.FactsC09 PV.gen.UpperLimitGen PV.TieUpperLimit.
Import ListNotations.
Local Open Scope string_scope.

(* tie to the source: what upper_limit hands to the two scan functions, and how they use it (extracted on every run) *)
Lemma C09_grid_gets_level : assoc "level" ul_grid_bind = Some "param:level".
Proof. reflexivity. Qed.
Lemma C09_toms_gets_level : assoc "level" ul_toms_bind = Some "param:level".
Proof. reflexivity. Qed.
Lemma C09_alias_passes_level : assoc "level" dep_ul_bind = Some "param:level".
Proof. reflexivity. Qed.
Lemma C09_level_used : level_path_ok level_use_facts = true.
Proof. reflexivity. Qed.
Lemma C09_upper_loop_runs_while_ge : toms_upper_loop_ge = true.
Proof. reflexivity. Qed.
Lemma C09_options_forwarded : ul_grid_starkw = ["hypotest_kwargs"] /\ ul_toms_starkw = ["hypotest_kwargs"] /\ dep_ul_starkw = ["hypotest_kwargs"].
Proof. repeat split; reflexivity. Qed.

Theorem C09_level_forwarded_both_modes : forall (N : Num) H toms ge dg dt fuel bounds scan level,
  @eff_level N ul_grid_bind dg level = Some level /\ @eff_level N ul_toms_bind dt level = Some level /\
  @upper_limit N H toms ge ul_grid_bind ul_toms_bind dg dt fuel bounds scan level = upper_limit_spec N H toms ge fuel bounds scan level.
Proof. intros N H toms. exact (level_forwarded_of_tables N H toms _ _ C09_grid_gets_level C09_toms_gets_level). Qed.

Theorem C09_grid_limit_is_linear_interp : forall (H : R -> hres RNum) level k s1 s2 a b,
  (k < 6)%nat -> StronglySorted Rgt (curve H k (s1 ++ a :: b :: s2)) ->
  (comp k (H b) <= level < comp k (H a))%R ->
  let t := chord_cross a (comp k (H a)) b (comp k (H b)) level in
  nth k (fst (@linear_grid_scan RNum H (s1 ++ a :: b :: s2) level)) None = Some t /\
  ((t - a) * (comp k (H b) - comp k (H a)) = (level - comp k (H a)) * (b - a))%R /\
  (a <> b -> (comp k (H a) + (comp k (H b) - comp k (H a)) / (b - a) * (t - a))%R = level).
Proof. exact grid_limit_is_linear_interp. Qed.

Theorem C09_grid_limit_in_crossing_cell : forall (H : R -> hres RNum) level k s1 s2 a b,
  (k < 6)%nat -> StronglySorted Rgt (curve H k (s1 ++ a :: b :: s2)) ->
  (comp k (H b) <= level < comp k (H a))%R ->
  exists t, nth k (fst (@linear_grid_scan RNum H (s1 ++ a :: b :: s2) level)) None = Some t /\
            (Rmin a b <= t <= Rmax a b)%R /\ ((a < b)%R -> (a < t <= b)%R).
Proof. exact grid_limit_in_crossing_cell. Qed.

Theorem C09_best_bracket_valid : forall (N : Num) (c : cache N) level k,
  (forall a b, best_bracket c level k = Some (a, b) ->
     exists ra rb, In (a, ra) c /\ In (b, rb) c /\
                   nleb N (n0 N) (gval N level k ra) = true /\ nltb N (gval N level k rb) (n0 N) = true) /\
  ((exists e, In e c /\ nleb N (n0 N) (gval N level k (snd e)) = true) ->
   (exists e, In e c /\ nltb N (gval N level k (snd e)) (n0 N) = true) ->
   exists a b, best_bracket c level k = Some (a, b)).
Proof. exact best_bracket_valid. Qed.

Theorem C09_auto_limit_solves : forall (H : R -> hres RNum) toms tol L ge fuel lo up level o,
  toms_post toms tol -> (forall k, (k < 6)%nat -> lipschitz L (fun p => comp k (H p))) ->
  @toms748_scan RNum H toms ge fuel lo up level = Some o ->
  forall k, (k < 6)%nat ->
    let x := nth k (so_obs o :: so_exp o) 0%R in (Rabs (comp k (H x) - level) <= L * tol x)%R.
Proof. exact auto_limit_solves. Qed.

Theorem C09_results_are_hypotests : forall (N : Num) H toms ge gb tb dg dt fuel bounds scan level o,
  @upper_limit N H toms ge gb tb dg dt fuel bounds scan level = Some o ->
  so_results o = map H (so_points o) /\ length (so_exp o) = 5%nat /\ (forall s, scan = Some s -> so_points o = s).
Proof. exact results_are_hypotests. Qed.

Theorem C09_expected_limits_ordered : forall (f g : R -> R) level a b,
  (forall x, (f x <= g x)%R) -> (forall x y, (x < y)%R -> (g y < g x)%R) -> f a = level -> g b = level -> (a <= b)%R.
Proof. exact expected_limits_ordered. Qed.

Theorem C09_expected_limits_ordered_approx : forall (f g : R -> R) level delta m a b,
  (forall x, (f x <= g x)%R) -> (0 < m)%R -> (forall x y, (x <= y)%R -> (m * (y - x) <= g x - g y)%R) ->
  (Rabs (f a - level) <= delta)%R -> (Rabs (g b - level) <= delta)%R -> (a <= b + 2 * delta / m)%R.
Proof. exact expected_limits_ordered_approx. Qed.

(* the values computed by vm_compute in the correspondence are those of the real-number model the theorems speak about *)
Theorem C09_model_executed_is_real : forall (x : Qc) xp fp,
  option_map q2r (@np_interp QcNum x xp fp) = @np_interp RNum (q2r x) (map q2r xp) (map q2r fp).
Proof. exact np_interp_q2r. Qed.

Theorem C09_grid_limit_same_cell_ordered : forall a b ca cb da db level,
  (a <= b)%R -> (ca <= da)%R -> (cb <= db)%R -> (cb <= level < ca)%R -> (db <= level < da)%R ->
  (chord_cross a ca b cb level <= chord_cross a da b db level)%R.
Proof. exact expected_limits_ordered_same_cell. Qed.

(* the automatic scan can only fail by not leaving its extension loops - provided the upper loop runs while any curve is >= level *)
Theorem C09_auto_scan_total : forall (H : R -> hres RNum) toms fuel lo up level,
  (forall p, length (snd (H p)) = 5%nat) ->
  @toms748_scan RNum H toms toms_upper_loop_ge fuel lo up level = None ->
  let c0 := fst (@f_cached RNum H [] lo) in
  @extend_low RNum H fuel level c0 lo (H lo) = None \/
  exists c1 lo', @extend_low RNum H fuel level c0 lo (H lo) = Some (c1, lo') /\
                 @extend_up RNum H toms_upper_loop_ge fuel level (fst (@f_cached RNum H c1 up)) up (H up) = None.
Proof. rewrite C09_upper_loop_runs_while_ge. exact auto_scan_total. Qed.

(* ... and does fail with the strict comparison when a curve meets the level exactly at the final upper bound *)
Theorem C09_auto_scan_exact_hit_refuted :
  exists (H : Qc -> hres QcNum) toms lo up level,
    (exists c lo', @extend_low QcNum H 16 level (fst (@f_cached QcNum H [] lo)) lo (H lo) = Some (c, lo') /\
       exists c' up', @extend_up QcNum H false 16 level (fst (@f_cached QcNum H c up)) up (H up) = Some (c', up')) /\
    @toms748_scan QcNum H toms false 16 lo up level = None /\
    @toms748_scan QcNum H toms true 16 lo up level <> None.
Proof. exact auto_scan_exact_hit_refuted. Qed.

(* ---- tie to the source: the definitions of coq/gen/UpperLimitGen.v, translated on every run from pyhf/infer/intervals/upper_limits.py,
   are the hand model of UpperLimit.v.  neqb_refl N: `==` of the number instance is reflexive (holds of the rationals and of the reals). ---- *)
Theorem C09_source_is_model_interp : forall (N : Num) x xp fp, gen_interp N x xp fp = np_interp x xp fp.
Proof. exact tie_interp. Qed.

(* linear_grid_scan: which arrays are interpolated against which, in reversed order, observed first then the five expected curves *)
Theorem C09_source_is_model_linear_grid_scan : forall (N : Num) (H : V N -> hres N) scan level,
  gen_linear_grid_scan_results N H scan level = (let '(limits, sr) := linear_grid_scan H scan level in ((nth 0 limits None, tl limits), sr)) /\
  gen_linear_grid_scan N H scan level = (let limits := fst (linear_grid_scan H scan level) in (nth 0 limits None, tl limits)).
Proof. exact tie_linear_grid_scan_both. Qed.

(* toms748_scan, its nested functions: the cache keyed by the tested value, the objective, the choice of the bracketing cache entries *)
Theorem C09_source_is_model_f_cached : forall (N : Num) (H : V N -> hres N), neqb_refl N -> forall c p,
  gen_f_cached N H c p = f_cached H c p.
Proof. exact tie_f_cached. Qed.
Theorem C09_source_is_model_f : forall (N : Num) (H : V N -> hres N), neqb_refl N -> forall c poi level k,
  gen_f N H c poi level k = f_obj N H c poi level k.
Proof. exact tie_f. Qed.
Theorem C09_source_is_model_best_bracket : forall (N : Num) c level k, gen_best_bracket N c level k = best_bracket c level k.
Proof. exact tie_best_bracket. Qed.

(* ... its two extension loops: condition, /2 and *2, re-evaluation through the cache *)
Theorem C09_source_is_model_extension_loops : forall (N : Num) (H : V N -> hres N), neqb_refl N -> forall fuel level c b r,
  option_map (fun w : cache N * V N * hres N => (fst (fst w), snd (fst w))) (gen_while_1 N H fuel level c b r) = extend_low H fuel level c b r /\
  option_map (fun w : cache N * V N * hres N => (fst (fst w), snd (fst w))) (gen_while_2 N H fuel level c b r) = extend_up H true fuel level c b r.
Proof. exact tie_extension_loops. Qed.

(* ... what is handed to toms748 and what comes back through the cache *)
Theorem C09_source_is_model_run_toms : forall (N : Num) (H : V N -> hres N) toms, neqb_refl N -> forall c level k a b,
  run_toms_with N (fun c poi => gen_f N H c poi level k) toms c k a b = run_toms H toms c level k a b.
Proof. exact tie_run_toms. Qed.

(* ... and the whole function, with and without the per-point results *)
Theorem C09_source_is_model_toms748_scan : forall (N : Num) (H : V N -> hres N) toms, neqb_refl N -> forall fuel lo up level,
  gen_toms748_scan_results N H toms fuel lo up level = option_map scan_view (toms748_scan H toms true fuel lo up level) /\
  gen_toms748_scan N H toms fuel lo up level = option_map scan_limits (toms748_scan H toms true fuel lo up level).
Proof. exact tie_toms748_scan_both. Qed.

(* upper_limit: dispatch on `scan is None`, the caller's level and the POI bounds handed on, the returned tuple *)
Theorem C09_source_is_model_upper_limit : forall (N : Num) (H : V N -> hres N) toms, neqb_refl N -> forall fuel bounds scan level,
  match gen_upper_limit_results N H toms fuel bounds scan level with inl (o, e, pr) => grid_view N o e pr | inr r => r end
    = option_map scan_view (upper_limit_spec N H toms true fuel bounds scan level) /\
  match gen_upper_limit N H toms fuel bounds scan level with inl (o, e) => option_map fst (grid_view N o e ([], [])) | inr r => r end
    = option_map scan_limits (upper_limit_spec N H toms true fuel bounds scan level).
Proof. exact tie_upper_limit_both. Qed.
Theorem C09_source_is_model_rationals_and_reals : neqb_refl QcNum /\ neqb_refl RNum.
Proof. exact (conj neqb_refl_Qc neqb_refl_R). Qed.


Print Assumptions C09_level_forwarded_both_modes.
Print Assumptions C09_grid_limit_is_linear_interp.
Print Assumptions C09_grid_limit_in_crossing_cell.
Print Assumptions C09_best_bracket_valid.
Print Assumptions C09_auto_limit_solves.
Print Assumptions C09_results_are_hypotests.
Print Assumptions C09_expected_limits_ordered.
Print Assumptions C09_expected_limits_ordered_approx.
Print Assumptions C09_model_executed_is_real.
Print Assumptions C09_grid_limit_same_cell_ordered.
Print Assumptions C09_auto_scan_total.
Print Assumptions C09_auto_scan_exact_hit_refuted.
Print Assumptions C09_source_is_model_interp.
Print Assumptions C09_source_is_model_linear_grid_scan.
Print Assumptions C09_source_is_model_f_cached.
Print Assumptions C09_source_is_model_f.
Print Assumptions C09_source_is_model_best_bracket.
Print Assumptions C09_source_is_model_extension_loops.
Print Assumptions C09_source_is_model_run_toms.
Print Assumptions C09_source_is_model_toms748_scan.
Print Assumptions C09_source_is_model_upper_limit.
Print Assumptions C09_source_is_model_rationals_and_reals.
