(* C07 - property theorems only.  `run_obs`/`run_exp` are teststatistic ; distributions ; pvalues /
   expected_pvalues of the transcribed AsymptoticCalculator at the real instance, for an arbitrary cdf Phi. *)
From Coq Require Import Reals List.
From Coquelicot Require Import Coquelicot.
Require Import PV.Num PV.Asympt PV.AsymptPhi PV.Gauss.
Import ListNotations.
Local Open Scope R_scope.

(* --- what is computed: Phi(-x); hypothesis-free --- *)
Theorem C07_clsb_q_computed : forall Phi k b q qA, k <> KQtilde -> known b -> 0 <= q -> 0 <= qA ->
  CLsb_of RNum (run_obs RNum Phi sqrt k b q qA) = Some (Phi (- sqrt q)).
Proof. exact clsb_q_neg. Qed.
Theorem C07_clb_q_computed : forall Phi k b q qA, k <> KQtilde -> known b -> 0 <= q -> 0 <= qA ->
  CLb_of RNum (run_obs RNum Phi sqrt k b q qA) = Some (Phi (- (sqrt q - sqrt qA))).
Proof. exact clb_q_neg. Qed.
Theorem C07_clsb_qtilde_low_computed : forall Phi b q qA, known b -> 0 <= q -> 0 <= qA -> q <= qA ->
  CLsb_of RNum (run_obs RNum Phi sqrt KQtilde b q qA) = Some (Phi (- sqrt q)).
Proof. exact clsb_qtilde_low_neg. Qed.
Theorem C07_clb_qtilde_low_computed : forall Phi b q qA, known b -> 0 <= q -> 0 <= qA -> q <= qA ->
  CLb_of RNum (run_obs RNum Phi sqrt KQtilde b q qA) = Some (Phi (- (sqrt q - sqrt qA))).
Proof. exact clb_qtilde_low_neg. Qed.
Theorem C07_clsb_qtilde_high_computed : forall Phi b q qA, known b -> 0 < qA -> qA < q ->
  CLsb_of RNum (run_obs RNum Phi sqrt KQtilde b q qA) = Some (Phi (- ((q + qA) / (2 * sqrt qA)))).
Proof. exact clsb_qtilde_high_neg. Qed.
Theorem C07_clb_qtilde_high_computed : forall Phi b q qA, known b -> 0 < qA -> qA < q ->
  CLb_of RNum (run_obs RNum Phi sqrt KQtilde b q qA) = Some (Phi (- ((q - qA) / (2 * sqrt qA)))).
Proof. exact clb_qtilde_high_neg. Qed.

(* --- the formulae as printed in arXiv:1007.1727 (1 - Phi); need only the symmetry of Phi --- *)
Theorem C07_clsb_q : forall Phi, cdf_symmetric Phi -> forall k b q qA, k <> KQtilde -> known b -> 0 <= q -> 0 <= qA ->
  CLsb_of RNum (run_obs RNum Phi sqrt k b q qA) = Some (1 - Phi (sqrt q)).
Proof. exact clsb_q. Qed.
Theorem C07_clb_q : forall Phi, cdf_symmetric Phi -> forall k b q qA, k <> KQtilde -> known b -> 0 <= q -> 0 <= qA ->
  CLb_of RNum (run_obs RNum Phi sqrt k b q qA) = Some (1 - Phi (sqrt q - sqrt qA)).
Proof. exact clb_q. Qed.
Theorem C07_clsb_qtilde_low : forall Phi, cdf_symmetric Phi -> forall b q qA, known b -> 0 <= q -> 0 <= qA -> q <= qA ->
  CLsb_of RNum (run_obs RNum Phi sqrt KQtilde b q qA) = Some (1 - Phi (sqrt q)).
Proof. exact clsb_qtilde_low. Qed.
Theorem C07_clb_qtilde_low : forall Phi, cdf_symmetric Phi -> forall b q qA, known b -> 0 <= q -> 0 <= qA -> q <= qA ->
  CLb_of RNum (run_obs RNum Phi sqrt KQtilde b q qA) = Some (1 - Phi (sqrt q - sqrt qA)).
Proof. exact clb_qtilde_low. Qed.
Theorem C07_clsb_qtilde_high : forall Phi, cdf_symmetric Phi -> forall b q qA, known b -> 0 < qA -> qA < q ->
  CLsb_of RNum (run_obs RNum Phi sqrt KQtilde b q qA) = Some (1 - Phi ((q + qA) / (2 * sqrt qA))).
Proof. exact clsb_qtilde_high. Qed.
Theorem C07_clb_qtilde_high : forall Phi, cdf_symmetric Phi -> forall b q qA, known b -> 0 < qA -> qA < q ->
  CLb_of RNum (run_obs RNum Phi sqrt KQtilde b q qA) = Some (1 - Phi ((q - qA) / (2 * sqrt qA))).
Proof. exact clb_qtilde_high. Qed.

Theorem C07_branches_agree_at_seam : forall qA, 0 < qA ->
  (qA + qA) / (2 * sqrt qA) = sqrt qA /\ (qA - qA) / (2 * sqrt qA) = sqrt qA - sqrt qA /\
  false_case RNum (sqrt qA) (sqrt qA) = true_case RNum (sqrt qA) (sqrt qA).
Proof. exact branches_agree_at_seam. Qed.
Theorem C07_seam_gap : forall q qA, 0 < qA -> qA < q ->
  tstat KQtilde q qA - (sqrt q - sqrt qA) = (sqrt q - sqrt qA) * (sqrt q - sqrt qA) / (2 * sqrt qA).
Proof. exact seam_gap. Qed.
(* the same for every number instance that is a field (in particular the executed rational one) *)
Theorem C07_branches_agree_at_seam_generic : forall N : Num,
  field_theory (n0 N) (n1 N) (nadd N) (nmul N) (nsub N) (nopp N) (ndiv N) (ninv N) eq ->
  nadd N (n1 N) (n1 N) <> n0 N -> forall sA : V N, sA <> n0 N -> false_case N sA sA = true_case N sA sA.
Proof. exact branches_agree_at_seam_gen. Qed.

Theorem C07_cls_is_ratio : forall Phi k b q qA, known b -> 0 <= q -> 0 <= qA ->
  exists sb bb, CLsb_of RNum (run_obs RNum Phi sqrt k b q qA) = Some sb /\ CLb_of RNum (run_obs RNum Phi sqrt k b q qA) = Some bb /\
                CLs_of RNum (run_obs RNum Phi sqrt k b q qA) = Some (sb / bb).
Proof. exact cls_is_ratio. Qed.

Theorem C07_expected_N : forall Phi k q qA,
  band_of (run_exp RNum Phi sqrt k BNormal q qA) 0 = map (fun n => Some (Phi (- n - sqrt qA))) [2; 1; 0; -1; -2] /\
  band_of (run_exp RNum Phi sqrt k BNormal q qA) 1 = map (fun n => Some (Phi (- n))) [2; 1; 0; -1; -2] /\
  band_of (run_exp RNum Phi sqrt k BNormal q qA) 2 = map (fun n => Some (Phi (- n - sqrt qA) / Phi (- n))) [2; 1; 0; -1; -2].
Proof. exact expected_N. Qed.
Theorem C07_expected_N_clipped : forall Phi k q qA,
  let x n := Rmax n (- sqrt qA) in
  band_of (run_exp RNum Phi sqrt k BClipped q qA) 0 = map (fun n => Some (Phi (- x n - sqrt qA))) [2; 1; 0; -1; -2] /\
  band_of (run_exp RNum Phi sqrt k BClipped q qA) 1 = map (fun n => Some (Phi (- x n))) [2; 1; 0; -1; -2] /\
  band_of (run_exp RNum Phi sqrt k BClipped q qA) 2 = map (fun n => Some (Phi (- x n - sqrt qA) / Phi (- x n))) [2; 1; 0; -1; -2].
Proof. exact expected_N_clipped. Qed.

Theorem C07_clipped_never_negative_stat : forall Phi sA n sb b,
  distributions RNum (Some sA) BClipped = inr (sb, b) ->
  0 <= expected_value RNum b n - shift sb /\ pvalue RNum Phi sb (expected_value RNum b n) <> None
  /\ pvalue RNum Phi b (expected_value RNum b n) <> None.
Proof. exact clipped_never_negative_stat. Qed.
Theorem C07_clipped_else_unchanged : forall Phi sA n sbc bc sbn bn,
  distributions RNum (Some sA) BClipped = inr (sbc, bc) ->
  distributions RNum (Some sA) BNormal = inr (sbn, bn) ->
  (0 <= n + sA ->
     expected_value RNum bc n = expected_value RNum bn n /\
     pvalues RNum Phi (expected_value RNum bc n) sbc bc = pvalues RNum Phi (expected_value RNum bn n) sbn bn) /\
  (forall x, - sA <= x -> pvalues RNum Phi x sbc bc = pvalues RNum Phi x sbn bn).
Proof. exact clipped_else_unchanged. Qed.
Theorem C07_clipped_observed_unchanged : forall Phi k q qA, 0 <= q -> 0 <= qA ->
  run_obs RNum Phi sqrt k BClipped q qA = run_obs RNum Phi sqrt k BNormal q qA.
Proof. exact clipped_observed_unchanged. Qed.

(* --- consequences, from the named facts about the normal cdf --- *)
Theorem C07_ordering : forall Phi, cdf_symmetric Phi -> cdf_increasing Phi -> cdf_positive Phi ->
  forall k b q qA, known b -> 0 <= q -> 0 <= qA ->
  exists sb bb s, run_obs RNum Phi sqrt k b q qA = inr (Some sb, Some bb, Some s) /\
    0 <= sb /\ sb <= bb /\ bb <= 1 /\ 0 <= s /\ s <= 1.
Proof. exact ordering. Qed.
Theorem C07_band_monotone : forall Phi, cdf_increasing Phi -> cdf_positive Phi -> cdf_logconcave Phi ->
  forall k b q qA, known b -> 0 <= qA ->
  nondecr (band_of (run_exp RNum Phi sqrt k b q qA) 0) /\ nondecr (band_of (run_exp RNum Phi sqrt k b q qA) 1) /\
  nondecr (band_of (run_exp RNum Phi sqrt k b q qA) 2).
Proof. exact band_monotone. Qed.

(* --- the concrete standard normal cdf NPhi x = 1/2 + int_0^x exp(-t^2/2)/sqrt(2 pi) dt --- *)
Theorem C07_normal_cdf_symmetric : cdf_symmetric NPhi.
Proof. exact NPhi_sym. Qed.
Theorem C07_normal_cdf_increasing : cdf_increasing NPhi.
Proof. exact NPhi_increasing. Qed.
(* from the Gaussian integral alone (gauss_total_stmt: NPhi tends to 0 at minus infinity) *)
Theorem C07_normal_cdf_positive : gauss_total_stmt -> cdf_positive NPhi.
Proof. exact NPhi_positive. Qed.
Theorem C07_normal_cdf_mills : gauss_total_stmt -> forall x, 0 <= nphi x + x * NPhi x.
Proof. exact mills_all. Qed.
Theorem C07_normal_cdf_logconcave : gauss_total_stmt -> cdf_logconcave NPhi.
Proof. exact NPhi_logconcave. Qed.

(* the printed formulae for the concrete cdf: no premise about the cdf is left *)
Theorem C07_clsb_q_normal : forall k b q qA, k <> KQtilde -> known b -> 0 <= q -> 0 <= qA ->
  CLsb_of RNum (run_obs RNum NPhi sqrt k b q qA) = Some (1 - NPhi (sqrt q)).
Proof. exact clsb_q_concrete. Qed.
Theorem C07_clb_q_normal : forall k b q qA, k <> KQtilde -> known b -> 0 <= q -> 0 <= qA ->
  CLb_of RNum (run_obs RNum NPhi sqrt k b q qA) = Some (1 - NPhi (sqrt q - sqrt qA)).
Proof. exact clb_q_concrete. Qed.
Theorem C07_clsb_qtilde_low_normal : forall b q qA, known b -> 0 <= q -> 0 <= qA -> q <= qA ->
  CLsb_of RNum (run_obs RNum NPhi sqrt KQtilde b q qA) = Some (1 - NPhi (sqrt q)).
Proof. exact clsb_qtilde_low_concrete. Qed.
Theorem C07_clb_qtilde_low_normal : forall b q qA, known b -> 0 <= q -> 0 <= qA -> q <= qA ->
  CLb_of RNum (run_obs RNum NPhi sqrt KQtilde b q qA) = Some (1 - NPhi (sqrt q - sqrt qA)).
Proof. exact clb_qtilde_low_concrete. Qed.
Theorem C07_clsb_qtilde_high_normal : forall b q qA, known b -> 0 < qA -> qA < q ->
  CLsb_of RNum (run_obs RNum NPhi sqrt KQtilde b q qA) = Some (1 - NPhi ((q + qA) / (2 * sqrt qA))).
Proof. exact clsb_qtilde_high_concrete. Qed.
Theorem C07_clb_qtilde_high_normal : forall b q qA, known b -> 0 < qA -> qA < q ->
  CLb_of RNum (run_obs RNum NPhi sqrt KQtilde b q qA) = Some (1 - NPhi ((q - qA) / (2 * sqrt qA))).
Proof. exact clb_qtilde_high_concrete. Qed.

(* the consequences for the concrete cdf: the Gaussian integral is the only premise *)
Theorem C07_ordering_normal : gauss_total_stmt -> forall k b q qA, known b -> 0 <= q -> 0 <= qA ->
  exists sb bb s, run_obs RNum NPhi sqrt k b q qA = inr (Some sb, Some bb, Some s) /\
    0 <= sb /\ sb <= bb /\ bb <= 1 /\ 0 <= s /\ s <= 1.
Proof. exact ordering_concrete. Qed.
Theorem C07_band_monotone_normal : gauss_total_stmt -> forall k b q qA, known b -> 0 <= qA ->
  nondecr (band_of (run_exp RNum NPhi sqrt k b q qA) 0) /\ nondecr (band_of (run_exp RNum NPhi sqrt k b q qA) 1) /\
  nondecr (band_of (run_exp RNum NPhi sqrt k b q qA) 2).
Proof. exact band_monotone_concrete. Qed.

(* --- the Gaussian integral is a theorem (Gauss.v): the `_unconditional` versions have no premise about the cdf left --- *)
Theorem C07_gauss_integral : is_lim (fun t => RInt (fun x => exp (- (x * x))) 0 t) p_infty (sqrt PI / 2).
Proof. exact gauss_integral. Qed.
Theorem C07_gauss_total : gauss_total_stmt.
Proof. exact gauss_total. Qed.
Theorem C07_normal_density_half_integral : is_lim (fun x => RInt nphi 0 x) p_infty (1 / 2).
Proof. exact nphi_half_integral. Qed.
Theorem C07_normal_cdf_limit_p : is_lim NPhi p_infty 1.
Proof. exact NPhi_limit_p. Qed.
Theorem C07_normal_cdf_limit_m : is_lim NPhi m_infty 0.
Proof. exact NPhi_limit_m. Qed.
Theorem C07_normal_cdf_bounds : forall x, 0 < NPhi x < 1.
Proof. exact NPhi_bounds. Qed.
Theorem C07_normal_cdf_upper_tail : forall x, 0 <= x -> 1 - 2 / PI * exp (- (x * x) / 2) <= NPhi x <= 1.
Proof. exact NPhi_upper_tail. Qed.
Theorem C07_normal_cdf_lower_tail : forall x, 0 <= x -> 0 <= NPhi (- x) <= 2 / PI * exp (- (x * x) / 2).
Proof. exact NPhi_lower_tail. Qed.
Theorem C07_normal_cdf_positive_unconditional : cdf_positive NPhi.
Proof. exact NPhi_positive_unconditional. Qed.
Theorem C07_normal_cdf_mills_unconditional : forall x, 0 <= nphi x + x * NPhi x.
Proof. exact mills_unconditional. Qed.
Theorem C07_normal_cdf_logconcave_unconditional : cdf_logconcave NPhi.
Proof. exact NPhi_logconcave_unconditional. Qed.
Theorem C07_ordering_normal_unconditional : forall k b q qA, known b -> 0 <= q -> 0 <= qA ->
  exists sb bb s, run_obs RNum NPhi sqrt k b q qA = inr (Some sb, Some bb, Some s) /\
    0 <= sb /\ sb <= bb /\ bb <= 1 /\ 0 <= s /\ s <= 1.
Proof. exact ordering_unconditional. Qed.
Theorem C07_band_monotone_normal_unconditional : forall k b q qA, known b -> 0 <= qA ->
  nondecr (band_of (run_exp RNum NPhi sqrt k b q qA) 0) /\ nondecr (band_of (run_exp RNum NPhi sqrt k b q qA) 1) /\
  nondecr (band_of (run_exp RNum NPhi sqrt k b q qA) 2).
Proof. exact band_monotone_unconditional. Qed.

(* --- tie to the source: the formula / decision methods of pyhf/infer/calculators.py are translated to PV.gen.AsymptGen on every
   run (harness/props/c07.py:extract); the translated definitions ARE the transcription (Asympt.v) the theorems above are about --- *)
Require Import PV.gen.AsymptGen PV.TieAsympt.
Theorem C07_source_is_model_cdf : forall (N : Num) Phi sq (d : dist N) value, gen_cdf N Phi sq d value = cdf N Phi d value.
Proof. exact tie_cdf. Qed.
Theorem C07_source_is_model_pvalue : forall (N : Num) Phi sq (d : dist N) value, gen_pvalue N Phi sq d value = pvalue N Phi d value.
Proof. exact tie_pvalue. Qed.
Theorem C07_source_is_model_expected_value : forall (N : Num) Phi sq (d : dist N) nsigma,
  gen_expected_value N Phi sq d nsigma = expected_value N d nsigma.
Proof. exact tie_expected_value. Qed.
Theorem C07_source_is_model_distributions : forall (N : Num) Phi sq sqrtqmuA_v b,
  gen_distributions N Phi sq sqrtqmuA_v b = distributions N sqrtqmuA_v b.
Proof. exact tie_distributions. Qed.
Theorem C07_source_is_model_true_case : forall (N : Num) Phi sq s sA, gen_true_case N Phi sq s sA = true_case N s sA.
Proof. exact tie_true_case. Qed.
Theorem C07_source_is_model_false_case : forall (N : Num) Phi sq s sA, gen_false_case N Phi sq s sA = false_case N s sA.
Proof. exact tie_false_case. Qed.
Theorem C07_source_is_model_teststatistic : forall (N : Num) Phi sq k qmu_v qmuA_v,
  gen_teststatistic N Phi sq k qmu_v qmuA_v = teststatistic N sq k qmu_v qmuA_v.
Proof. exact tie_teststatistic. Qed.
Theorem C07_source_is_model_teststatistic_branch : forall (N : Num) Phi sq qmu_v qmuA_v,
  fst (gen_teststatistic N Phi sq KQtilde qmu_v qmuA_v)
  = if nleb N (sq qmu_v) (sq qmuA_v) then gen_true_case N Phi sq (sq qmu_v) (sq qmuA_v) else gen_false_case N Phi sq (sq qmu_v) (sq qmuA_v).
Proof. exact tie_teststatistic_branch. Qed.
Theorem C07_source_is_model_pvalues : forall (N : Num) Phi sq teststat (sb b : dist N),
  gen_pvalues N Phi sq teststat sb b = pvalues N Phi teststat sb b.
Proof. exact tie_pvalues. Qed.
Theorem C07_source_is_model_expected_pvalues : forall (N : Num) Phi sq (sb b : dist N),
  gen_expected_pvalues N Phi sq sb b = expected_pvalues N Phi sb b.
Proof. exact tie_expected_pvalues. Qed.

Print Assumptions C07_clsb_q_computed.
Print Assumptions C07_clb_q_computed.
Print Assumptions C07_clsb_qtilde_low_computed.
Print Assumptions C07_clb_qtilde_low_computed.
Print Assumptions C07_clsb_qtilde_high_computed.
Print Assumptions C07_clb_qtilde_high_computed.
Print Assumptions C07_clsb_q.
Print Assumptions C07_clb_q.
Print Assumptions C07_clsb_qtilde_low.
Print Assumptions C07_clb_qtilde_low.
Print Assumptions C07_clsb_qtilde_high.
Print Assumptions C07_clb_qtilde_high.
Print Assumptions C07_branches_agree_at_seam.
Print Assumptions C07_seam_gap.
Print Assumptions C07_branches_agree_at_seam_generic.
Print Assumptions C07_cls_is_ratio.
Print Assumptions C07_expected_N.
Print Assumptions C07_expected_N_clipped.
Print Assumptions C07_clipped_never_negative_stat.
Print Assumptions C07_clipped_else_unchanged.
Print Assumptions C07_clipped_observed_unchanged.
Print Assumptions C07_ordering.
Print Assumptions C07_band_monotone.
Print Assumptions C07_normal_cdf_symmetric.
Print Assumptions C07_normal_cdf_increasing.
Print Assumptions C07_normal_cdf_positive.
Print Assumptions C07_normal_cdf_mills.
Print Assumptions C07_normal_cdf_logconcave.
Print Assumptions C07_clsb_q_normal.
Print Assumptions C07_clb_q_normal.
Print Assumptions C07_clsb_qtilde_low_normal.
Print Assumptions C07_clb_qtilde_low_normal.
Print Assumptions C07_clsb_qtilde_high_normal.
Print Assumptions C07_clb_qtilde_high_normal.
Print Assumptions C07_ordering_normal.
Print Assumptions C07_band_monotone_normal.
Print Assumptions C07_gauss_integral.
Print Assumptions C07_gauss_total.
Print Assumptions C07_normal_density_half_integral.
Print Assumptions C07_normal_cdf_limit_p.
Print Assumptions C07_normal_cdf_limit_m.
Print Assumptions C07_normal_cdf_bounds.
Print Assumptions C07_normal_cdf_upper_tail.
Print Assumptions C07_normal_cdf_lower_tail.
Print Assumptions C07_normal_cdf_positive_unconditional.
Print Assumptions C07_normal_cdf_mills_unconditional.
Print Assumptions C07_normal_cdf_logconcave_unconditional.
Print Assumptions C07_ordering_normal_unconditional.
Print Assumptions C07_band_monotone_normal_unconditional.
Print Assumptions C07_source_is_model_cdf.
Print Assumptions C07_source_is_model_pvalue.
Print Assumptions C07_source_is_model_expected_value.
Print Assumptions C07_source_is_model_distributions.
Print Assumptions C07_source_is_model_true_case.
Print Assumptions C07_source_is_model_false_case.
Print Assumptions C07_source_is_model_teststatistic.
Print Assumptions C07_source_is_model_teststatistic_branch.
Print Assumptions C07_source_is_model_pvalues.
Print Assumptions C07_source_is_model_expected_pvalues.
