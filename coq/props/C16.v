(* C16 - property theorems only. *)
From Coq Require Import String List.
Require Import PV.Json PV.Workspace PV.WorkspaceRun PV.gen.FactsC16.
Import ListNotations.

(* tie to the source: the join names accepted by combine; modifier types are checked against the types of all (name, type) pairs *)
Lemma C16_valid_joins : map join_of_string ws_valid_joins = [Some JNone; Some JOuter; Some JLeft; Some JRight].
Proof. reflexivity. Qed.
Lemma C16_types_check : prune_types_via_dict = false.
Proof. reflexivity. Qed.
