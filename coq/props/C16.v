(* C16 - property theorems only. *)
From Coq Require Import String List.
Require Import PV.Json PV.Workspace.
Import ListNotations.
