(* C16 - property theorems only. *)
From Coq Require Import String List Permutation QArith Qcanon.
Require Import PV.Json PV.Workspace PV.WorkspaceRun PV.WorkspaceThms PV.WorkspacePrune PV.WorkspaceSort PV.WorkspaceLik PV.WorkspaceJson PV.gen.FactsC16 PV.gen.WorkspaceGen PV.TieWorkspace.
Import ListNotations.

(* tie to the source: the join names accepted by combine; modifier types are checked against the types of all (name, type) pairs *)
Lemma C16_valid_joins : map join_of_string ws_valid_joins = [Some JNone; Some JOuter; Some JLeft; Some JRight].
Proof. reflexivity. Qed.
Lemma C16_types_check : prune_types_via_dict = false.
Proof. reflexivity. Qed.

Theorem C16_combine_none_disjoint : forall l r v,
  schema_ok l = true -> schema_ok r = true ->
  names_disjoint (map c_name (w_channels l)) (map c_name (w_channels r)) ->
  names_disjoint (map o_name (w_observations l)) (map o_name (w_observations r)) ->
  names_disjoint (map me_name (w_measurements l)) (map me_name (w_measurements r)) ->
  combine l r "none" false v = Ok (ws_app l r).
Proof. exact combine_none_disjoint. Qed.

Theorem C16_combine_refuses_iff : forall l r js merge v,
  wf_names l -> wf_names r -> schema_ok l = true -> schema_ok r = true ->
  (refuses (combine l r js merge v) <->
   match join_of_string js with None => True | Some j => refusal_spec j merge l r end).
Proof. exact combine_refuses_iff. Qed.

Theorem C16_combine_result_valid : forall j l r merge w, schema_ok l = true -> schema_ok r = true ->
  combine_pre j l r merge = Ok w -> schema_ok w = true.
Proof. exact combine_pre_schema_ok. Qed.

Theorem C16_combine_main_likelihood_adds :
  forall (V : Type) (zero one : V) (add mul : V -> V -> V),
  (forall a b c, add a (add b c) = add (add a b) c) -> (forall a, add zero a = a) ->
  forall (ofQ : Qc -> V) (factor delta : modifier -> nat -> V) (logdens : Qc -> V -> V) l r v w,
  combine l r "none" false v = Ok w -> obs_complete l -> obs_complete r ->
  main_ll V zero one add mul ofQ factor delta logdens w =
  add (main_ll V zero one add mul ofQ factor delta logdens l) (main_ll V zero one add mul ofQ factor delta logdens r).
Proof. exact combine_main_likelihood_adds. Qed.

Theorem C16_combine_constraints_once :
  forall (V : Type) (zero : V) (add : V -> V -> V),
  (forall a b, add a b = add b a) -> (forall a b c, add a (add b c) = add (add a b) c) -> (forall a, add zero a = a) ->
  forall (factor delta : modifier -> nat -> V) (cterm : string -> V) l r v w,
  combine l r "none" false v = Ok w ->
  NoDup (constrained_names w) /\
  (forall n, In n (constrained_names w) <-> In n (constrained_names l) \/ In n (constrained_names r)) /\
  add (constraint_ll V zero add cterm w) (sum V zero add cterm (shared_constrained l r)) =
  add (constraint_ll V zero add cterm l) (constraint_ll V zero add cterm r).
Proof. exact combine_constraints_once. Qed.

Theorem C16_prune_exact : forall w mods types samples chans meas w',
  prune prune_types_via_dict w mods types samples chans meas = Ok w' -> w' = prune_ref w mods types samples chans meas.
Proof. exact (prune_exact prune_types_via_dict). Qed.

Theorem C16_prune_removes_named : forall w mods types samples chans meas,
  let w' := prune_ref w mods types samples chans meas in
  (forall c, In c (w_channels w') -> ~ In (c_name c) chans) /\
  (forall o, In o (w_observations w') -> ~ In (o_name o) chans) /\
  (forall s, In s (all_samples w') -> ~ In (s_name s) samples) /\
  (forall m, In m (all_mods w') -> ~ In (m_name m) mods /\ ~ In (m_type m) types) /\
  (forall m, In m (w_measurements w') -> ~ In (me_name m) meas /\ forall p, In p (me_params m) -> ~ In (p_name p) mods).
Proof. exact prune_ref_removed. Qed.

Theorem C16_prune_preserves_rest : forall w mods types samples chans meas,
  let w' := prune_ref w mods types samples chans meas in
  (forall c, In c (w_channels w) -> channel_untouched mods types samples chans c -> In c (w_channels w')) /\
  (forall o, In o (w_observations w) -> ~ In (o_name o) chans -> In o (w_observations w')) /\
  (forall m, In m (w_measurements w) -> ~ In (me_name m) meas -> (forall p, In p (me_params m) -> ~ In (p_name p) mods) -> In m (w_measurements w')) /\
  (forall c, In c (w_channels w) -> ~ In (c_name c) chans -> exists c', In c' (w_channels w') /\ c_name c' = c_name c) /\
  map c_name (w_channels w') = filter (fun n => negb (mem_str n chans)) (map c_name (w_channels w)) /\
  map o_name (w_observations w') = filter (fun n => negb (mem_str n chans)) (map o_name (w_observations w)) /\
  map me_name (w_measurements w') = filter (fun n => negb (mem_str n meas)) (map me_name (w_measurements w)) /\
  (forall m, In m (w_measurements w') -> exists m0, In m0 (w_measurements w) /\ me_name m = me_name m0 /\ me_poi m = me_poi m0) /\
  w_version w' = w_version w.
Proof. exact prune_preserves_rest. Qed.

Theorem C16_prune_accepts_iff : forall w mods types samples chans meas,
  (exists w', prune prune_types_via_dict w mods types samples chans meas = Ok w') <->
  (all_names_known w mods types samples chans meas /\ schema_ok (prune_ref w mods types samples chans meas) = true).
Proof. rewrite C16_types_check. exact prune_accepts_iff. Qed.

Theorem C16_rename_inverse : forall w rm rs rc rme w',
  schema_ok w = true ->
  rename_injective rm -> rename_injective rs -> rename_injective rc -> rename_injective rme -> rename_fresh w rm rs rc rme ->
  rename w rm rs rc rme = Ok w' ->
  rename w' (inv rm) (inv rs) (inv rc) (inv rme) = Ok w.
Proof. exact rename_inverse. Qed.

Theorem C16_sorted_idempotent : forall w w1, sorted w = Ok w1 -> sorted w1 = Ok w1.
Proof. exact sorted_idempotent. Qed.

Theorem C16_sorted_total : forall w, schema_ok w = true -> sorted w = Ok (sorted_spec w) /\ schema_ok (sorted_spec w) = true.
Proof. exact sorted_total. Qed.

Theorem C16_sorted_canonical : forall w w', ws_rel w w' -> sorted w = sorted w'.
Proof. exact sorted_canonical. Qed.

Theorem C16_sorted_preserves_likelihood :
  forall (V : Type) (zero one : V) (add mul : V -> V -> V),
  (forall a b, add a b = add b a) -> (forall a b c, add a (add b c) = add (add a b) c) ->
  (forall a b, mul a b = mul b a) -> (forall a b c, mul a (mul b c) = mul (mul a b) c) ->
  forall (ofQ : Qc -> V) (factor delta : modifier -> nat -> V) (logdens : Qc -> V -> V) (cterm : string -> V) w w',
  sorted w = Ok w' -> NoDup (map o_name (w_observations w)) ->
  main_ll V zero one add mul ofQ factor delta logdens w' = main_ll V zero one add mul ofQ factor delta logdens w /\
  constraint_ll V zero add cterm w' = constraint_ll V zero add cterm w.
Proof. exact sorted_preserves_likelihood. Qed.

Theorem C16_prune_likelihood_of_remainder :
  forall (V : Type) (zero one : V) (add mul : V -> V -> V) (ofQ : Qc -> V) (factor delta : modifier -> nat -> V)
         (logdens : Qc -> V -> V) w mods types samples chans meas,
  main_ll V zero one add mul ofQ factor delta logdens (prune_ref w mods types samples chans meas) =
  sum V zero add (fun c => chan_ll V zero one add mul ofQ factor delta logdens w (prune_channel_ref mods types samples c))
      (filter (fun c => negb (mem_str (c_name c) chans)) (w_channels w)).
Proof. exact prune_likelihood_of_remainder. Qed.

Theorem C16_rename_preserves_main_likelihood :
  forall (V : Type) (zero one : V) (add mul : V -> V -> V) (ofQ : Qc -> V) (factor delta factor' delta' : modifier -> nat -> V)
         (logdens : Qc -> V -> V) (rm rs rc rme : list (string * string)),
  (forall m b, factor' (pr_modifier rm m) b = factor m b) -> (forall m b, delta' (pr_modifier rm m) b = delta m b) ->
  forall w, (forall c, In c (w_channels w) -> inj_on rc (c_name c :: map o_name (w_observations w))) ->
  main_ll V zero one add mul ofQ factor' delta' logdens (rn_spec w rm rs rc rme) = main_ll V zero one add mul ofQ factor delta logdens w.
Proof. exact rename_preserves_main_likelihood. Qed.

(* the typed AST loses nothing: its JSON document is canonical (key-sorted) and determines the workspace *)
Theorem C16_document_determines_workspace : forall a b, canon (json_of_ws a) = canon (json_of_ws b) -> a = b.
Proof. exact canon_json_of_ws_inj. Qed.
Theorem C16_document_canonical : forall w, canon (json_of_ws w) = json_of_ws w.
Proof. exact json_of_ws_canonical. Qed.


(* ---- tie to the source: the functions of pyhf/workspace.py translated to Gallina on every run (coq/gen/WorkspaceGen.v, written by
   harness/props/c16_tie.py; the reading of the python values is stated in the header of that file) are the hand model, as functions on the
   workspace AST ---- *)
(* _join_items at the item types it is called with, all four join texts; deep: deep_merge_key='samples' *)
Theorem C16_source_is_model_join_items : forall j,
  (forall l r, gen_join_items_channel j l r = join_items channel c_name channel_eqb None j l r) /\
  (forall l r, gen_join_items_channel_deep j l r = join_items channel c_name channel_eqb (Some merge_samples) j l r) /\
  (forall l r, gen_join_items_observation j l r = join_items observation o_name observation_eqb None j l r) /\
  (forall l r, gen_join_items_measurement j l r = join_items measurement me_name measurement_eqb None j l r) /\
  (forall l r, gen_join_items_sample_left l r = join_items sample s_name sample_eqb None JLeft l r) /\
  (forall l r, gen_join_items_pconfig_outer l r = join_items pconfig p_name pconfig_eqb None JOuter l r).
Proof. intros j. repeat split; intros l r; [apply tie_join_items_channel|apply tie_join_items_channel_deep|apply tie_join_items_observation|
  apply tie_join_items_measurement|apply tie_join_items_sample_left|apply tie_join_items_pconfig_outer]. Qed.
Theorem C16_source_is_model_join_versions : forall j lv rv, gen_join_versions lv rv = join_versions j lv rv.
Proof. exact tie_join_versions. Qed.
Theorem C16_source_is_model_join_channels : forall j l r merge, gen_join_channels j l r merge = join_channels j l r merge.
Proof. exact tie_join_channels. Qed.
Theorem C16_source_is_model_join_observations : forall j l r, gen_join_observations j l r = join_observations j l r.
Proof. exact tie_join_observations. Qed.
Theorem C16_source_is_model_join_parameter_configs : forall l r, gen_join_parameter_configs l r = join_parameter_configs l r.
Proof. exact tie_join_parameter_configs. Qed.
Theorem C16_source_is_model_join_measurements : forall j l r, gen_join_measurements j l r = join_measurements j l r.
Proof. exact tie_join_measurements. Qed.
(* Workspace.combine: the refusal checks, which section is joined with which arguments (left / right order), the new document *)
Theorem C16_source_is_model_combine : forall l r js merge validate, gen_combine l r js merge validate = combine l r js merge validate.
Proof. exact tie_combine. Qed.
(* _prune_and_rename / prune / rename (a selection that is None is the empty one); modifier types checked against the types of all pairs *)
Theorem C16_source_is_model_prune_and_rename : forall w pm pt ps pc pme rm rs rc rme,
  gen_prune_and_rename w pm pt ps pc pme rm rs rc rme
  = prune_and_rename prune_types_via_dict w (od pm) (od pt) (od ps) (od pc) (od pme) (od rm) (od rs) (od rc) (od rme).
Proof. rewrite C16_types_check. exact tie_prune_and_rename. Qed.
Theorem C16_source_is_model_prune : forall w mods types samples chans meas,
  gen_prune w mods types samples chans meas = prune prune_types_via_dict w (od mods) (od types) (od samples) (od chans) (od meas).
Proof. rewrite C16_types_check. exact tie_prune. Qed.
Theorem C16_source_is_model_rename : forall w mods samples chans meas,
  gen_rename w mods samples chans meas = rename w (od mods) (od samples) (od chans) (od meas).
Proof. exact tie_rename. Qed.
(* Workspace.sorted: which lists are sorted by which key, on a deep copy *)
Theorem C16_source_is_model_sorted : forall w, gen_sorted w = sorted w.
Proof. exact tie_sorted. Qed.

Print Assumptions C16_combine_none_disjoint.
Print Assumptions C16_combine_refuses_iff.
Print Assumptions C16_combine_result_valid.
Print Assumptions C16_combine_main_likelihood_adds.
Print Assumptions C16_combine_constraints_once.
Print Assumptions C16_prune_exact.
Print Assumptions C16_prune_removes_named.
Print Assumptions C16_prune_preserves_rest.
Print Assumptions C16_prune_accepts_iff.
Print Assumptions C16_rename_inverse.
Print Assumptions C16_sorted_idempotent.
Print Assumptions C16_sorted_total.
Print Assumptions C16_sorted_canonical.
Print Assumptions C16_sorted_preserves_likelihood.
Print Assumptions C16_prune_likelihood_of_remainder.
Print Assumptions C16_rename_preserves_main_likelihood.
Print Assumptions C16_document_determines_workspace.
Print Assumptions C16_document_canonical.
Print Assumptions C16_source_is_model_join_items.
Print Assumptions C16_source_is_model_join_versions.
Print Assumptions C16_source_is_model_join_channels.
Print Assumptions C16_source_is_model_join_observations.
Print Assumptions C16_source_is_model_join_parameter_configs.
Print Assumptions C16_source_is_model_join_measurements.
Print Assumptions C16_source_is_model_combine.
Print Assumptions C16_source_is_model_prune_and_rename.
Print Assumptions C16_source_is_model_prune.
Print Assumptions C16_source_is_model_rename.
Print Assumptions C16_source_is_model_sorted.
