(* C16 - property theorems only. *)
From Coq Require Import String List Permutation QArith Qcanon.
Require Import PV.Json PV.Workspace PV.WorkspaceRun PV.WorkspaceThms PV.WorkspacePrune PV.WorkspaceSort PV.WorkspaceLik PV.WorkspaceJson PV.gen.FactsC16.
Import ListNotations.

(* tie to the source: the join names accepted by combine; modifier types are checked against the types of all (name, type) pairs *)
Lemma C16_valid_joins : map join_of_string ws_valid_joins = [Some JNone; Some JOuter; Some JLeft; Some JRight].
Proof. reflexivity. Qed.
Lemma C16_types_check : prune_types_via_dict = false.
Proof. reflexivity. Qed.

Theorem C16_combine_none_disjoint : forall l r v,
  schema_ok l = true -> schema_ok r = true ->
  names_disjoint (map c_name (w_channels l)) (map c_name (w_channels r)) ->
  names_disjoint (map o_name (w_observations l)) (map o_name (w_observations r)) ->
  names_disjoint (map me_name (w_measurements l)) (map me_name (w_measurements r)) ->
  combine l r "none" false v = Ok (ws_app l r).
Proof. exact combine_none_disjoint. Qed.

Theorem C16_combine_refuses_iff : forall l r js merge v,
  wf_names l -> wf_names r -> schema_ok l = true -> schema_ok r = true ->
  (refuses (combine l r js merge v) <->
   match join_of_string js with None => True | Some j => refusal_spec j merge l r end).
Proof. exact combine_refuses_iff. Qed.

Theorem C16_combine_result_valid : forall j l r merge w, schema_ok l = true -> schema_ok r = true ->
  combine_pre j l r merge = Ok w -> schema_ok w = true.
Proof. exact combine_pre_schema_ok. Qed.

Theorem C16_combine_main_likelihood_adds :
  forall (V : Type) (zero one : V) (add mul : V -> V -> V),
  (forall a b c, add a (add b c) = add (add a b) c) -> (forall a, add zero a = a) ->
  forall (ofQ : Qc -> V) (factor delta : modifier -> nat -> V) (logdens : Qc -> V -> V) l r v w,
  combine l r "none" false v = Ok w -> obs_complete l -> obs_complete r ->
  main_ll V zero one add mul ofQ factor delta logdens w =
  add (main_ll V zero one add mul ofQ factor delta logdens l) (main_ll V zero one add mul ofQ factor delta logdens r).
Proof. exact combine_main_likelihood_adds. Qed.

Theorem C16_combine_constraints_once :
  forall (V : Type) (zero : V) (add : V -> V -> V),
  (forall a b, add a b = add b a) -> (forall a b c, add a (add b c) = add (add a b) c) -> (forall a, add zero a = a) ->
  forall (factor delta : modifier -> nat -> V) (cterm : string -> V) l r v w,
  combine l r "none" false v = Ok w ->
  NoDup (constrained_names w) /\
  (forall n, In n (constrained_names w) <-> In n (constrained_names l) \/ In n (constrained_names r)) /\
  add (constraint_ll V zero add cterm w) (sum V zero add cterm (shared_constrained l r)) =
  add (constraint_ll V zero add cterm l) (constraint_ll V zero add cterm r).
Proof. exact combine_constraints_once. Qed.

Theorem C16_prune_exact : forall w mods types samples chans meas w',
  prune prune_types_via_dict w mods types samples chans meas = Ok w' -> w' = prune_ref w mods types samples chans meas.
Proof. exact (prune_exact prune_types_via_dict). Qed.

Theorem C16_prune_removes_named : forall w mods types samples chans meas,
  let w' := prune_ref w mods types samples chans meas in
  (forall c, In c (w_channels w') -> ~ In (c_name c) chans) /\
  (forall o, In o (w_observations w') -> ~ In (o_name o) chans) /\
  (forall s, In s (all_samples w') -> ~ In (s_name s) samples) /\
  (forall m, In m (all_mods w') -> ~ In (m_name m) mods /\ ~ In (m_type m) types) /\
  (forall m, In m (w_measurements w') -> ~ In (me_name m) meas /\ forall p, In p (me_params m) -> ~ In (p_name p) mods).
Proof. exact prune_ref_removed. Qed.

Theorem C16_prune_preserves_rest : forall w mods types samples chans meas,
  let w' := prune_ref w mods types samples chans meas in
  (forall c, In c (w_channels w) -> channel_untouched mods types samples chans c -> In c (w_channels w')) /\
  (forall o, In o (w_observations w) -> ~ In (o_name o) chans -> In o (w_observations w')) /\
  (forall m, In m (w_measurements w) -> ~ In (me_name m) meas -> (forall p, In p (me_params m) -> ~ In (p_name p) mods) -> In m (w_measurements w')) /\
  (forall c, In c (w_channels w) -> ~ In (c_name c) chans -> exists c', In c' (w_channels w') /\ c_name c' = c_name c) /\
  map c_name (w_channels w') = filter (fun n => negb (mem_str n chans)) (map c_name (w_channels w)) /\
  map o_name (w_observations w') = filter (fun n => negb (mem_str n chans)) (map o_name (w_observations w)) /\
  map me_name (w_measurements w') = filter (fun n => negb (mem_str n meas)) (map me_name (w_measurements w)) /\
  (forall m, In m (w_measurements w') -> exists m0, In m0 (w_measurements w) /\ me_name m = me_name m0 /\ me_poi m = me_poi m0) /\
  w_version w' = w_version w.
Proof. exact prune_preserves_rest. Qed.

Theorem C16_prune_accepts_iff : forall w mods types samples chans meas,
  (exists w', prune prune_types_via_dict w mods types samples chans meas = Ok w') <->
  (all_names_known w mods types samples chans meas /\ schema_ok (prune_ref w mods types samples chans meas) = true).
Proof. rewrite C16_types_check. exact prune_accepts_iff. Qed.

Theorem C16_rename_inverse : forall w rm rs rc rme w',
  schema_ok w = true ->
  rename_injective rm -> rename_injective rs -> rename_injective rc -> rename_injective rme -> rename_fresh w rm rs rc rme ->
  rename w rm rs rc rme = Ok w' ->
  rename w' (inv rm) (inv rs) (inv rc) (inv rme) = Ok w.
Proof. exact rename_inverse. Qed.

Theorem C16_sorted_idempotent : forall w w1, sorted w = Ok w1 -> sorted w1 = Ok w1.
Proof. exact sorted_idempotent. Qed.

Theorem C16_sorted_total : forall w, schema_ok w = true -> sorted w = Ok (sorted_spec w) /\ schema_ok (sorted_spec w) = true.
Proof. exact sorted_total. Qed.

Theorem C16_sorted_canonical : forall w w', ws_rel w w' -> sorted w = sorted w'.
Proof. exact sorted_canonical. Qed.

Theorem C16_sorted_preserves_likelihood :
  forall (V : Type) (zero one : V) (add mul : V -> V -> V),
  (forall a b, add a b = add b a) -> (forall a b c, add a (add b c) = add (add a b) c) ->
  (forall a b, mul a b = mul b a) -> (forall a b c, mul a (mul b c) = mul (mul a b) c) ->
  forall (ofQ : Qc -> V) (factor delta : modifier -> nat -> V) (logdens : Qc -> V -> V) (cterm : string -> V) w w',
  sorted w = Ok w' -> NoDup (map o_name (w_observations w)) ->
  main_ll V zero one add mul ofQ factor delta logdens w' = main_ll V zero one add mul ofQ factor delta logdens w /\
  constraint_ll V zero add cterm w' = constraint_ll V zero add cterm w.
Proof. exact sorted_preserves_likelihood. Qed.

Theorem C16_prune_likelihood_of_remainder :
  forall (V : Type) (zero one : V) (add mul : V -> V -> V) (ofQ : Qc -> V) (factor delta : modifier -> nat -> V)
         (logdens : Qc -> V -> V) w mods types samples chans meas,
  main_ll V zero one add mul ofQ factor delta logdens (prune_ref w mods types samples chans meas) =
  sum V zero add (fun c => chan_ll V zero one add mul ofQ factor delta logdens w (prune_channel_ref mods types samples c))
      (filter (fun c => negb (mem_str (c_name c) chans)) (w_channels w)).
Proof. exact prune_likelihood_of_remainder. Qed.

Theorem C16_rename_preserves_main_likelihood :
  forall (V : Type) (zero one : V) (add mul : V -> V -> V) (ofQ : Qc -> V) (factor delta factor' delta' : modifier -> nat -> V)
         (logdens : Qc -> V -> V) (rm rs rc rme : list (string * string)),
  (forall m b, factor' (pr_modifier rm m) b = factor m b) -> (forall m b, delta' (pr_modifier rm m) b = delta m b) ->
  forall w, (forall c, In c (w_channels w) -> inj_on rc (c_name c :: map o_name (w_observations w))) ->
  main_ll V zero one add mul ofQ factor' delta' logdens (rn_spec w rm rs rc rme) = main_ll V zero one add mul ofQ factor delta logdens w.
Proof. exact rename_preserves_main_likelihood. Qed.

(* the typed AST loses nothing: its JSON document is canonical (key-sorted) and determines the workspace *)
Theorem C16_document_determines_workspace : forall a b, canon (json_of_ws a) = canon (json_of_ws b) -> a = b.
Proof. exact canon_json_of_ws_inj. Qed.
Theorem C16_document_canonical : forall w, canon (json_of_ws w) = json_of_ws w.
Proof. exact json_of_ws_canonical. Qed.

Print Assumptions C16_combine_none_disjoint.
Print Assumptions C16_combine_refuses_iff.
Print Assumptions C16_combine_result_valid.
Print Assumptions C16_combine_main_likelihood_adds.
Print Assumptions C16_combine_constraints_once.
Print Assumptions C16_prune_exact.
Print Assumptions C16_prune_removes_named.
Print Assumptions C16_prune_preserves_rest.
Print Assumptions C16_prune_accepts_iff.
Print Assumptions C16_rename_inverse.
Print Assumptions C16_sorted_idempotent.
Print Assumptions C16_sorted_total.
Print Assumptions C16_sorted_canonical.
Print Assumptions C16_sorted_preserves_likelihood.
Print Assumptions C16_prune_likelihood_of_remainder.
Print Assumptions C16_rename_preserves_main_likelihood.
Print Assumptions C16_document_determines_workspace.
Print Assumptions C16_document_canonical.
