(* Execution of the engine at the Qc instance, printable observables for the correspondence. *)
From Coq Require Import Bool Arith ZArith QArith Qcanon String List.
Require Import PV.Num PV.Sort PV.Spec PV.Impl PV.InterpQ PV.Run.
Import ListNotations.
Local Open Scope list_scope.

Notation QV := (V QcNum).
Definition qspec := spec QcNum.
Definition q_interp_add := interp_add_gen QcNum.
Definition err_code (e : err) : string :=
  match e with
  | EInvalidModel => "InvalidModel" | EInvalidModifier => "InvalidModifier" | EInvalidNameReuse => "InvalidNameReuse"
  | EInvalidPdfParameters => "InvalidPdfParameters" | EInvalidPdfData => "InvalidPdfData" | EPy w => append "Py" w end.

Definition fixed_list (p : pset QcNum) : list bool :=
  match p_fixed QcNum p with FBool b => repeat b (p_n QcNum p) | FList l => l end.
Definition optl {A} (o : optv (list A)) : list A := match o with Val l => l | _ => [] end.
Definition ptype_code (t : ptype) : string := match t with PUnconstrained => "unconstrained" | PNormal => "normal" | PPoisson => "poisson" end.

Record cfgobs := {
  o_channels : list string; o_samples : list string; o_modifiers : list (string * string);
  o_nbins : list nat; o_slices : list (string * (nat * nat));
  o_pars : list (string * (nat * nat) * string * bool);        (* name, (start, n), constraint type, is_scalar *)
  o_npars : nat; o_inits : list (Z * positive); o_bounds : list ((Z * positive) * (Z * positive));
  o_fixed : list bool; o_auxdata : list (Z * positive); o_aux_order : list string; o_poi : Z;
  o_vars : list (string * list (Z * positive)); o_factors : list (string * list (Z * positive)) }.

Definition observe_config (sp : qspec) (m : model QcNum) : cfgobs :=
  let ps := md_psets QcNum m in
  {| o_channels := cfg_channels QcNum sp; o_samples := cfg_samples QcNum sp; o_modifiers := cfg_modifiers QcNum sp;
     o_nbins := map (nbins QcNum sp) (cfg_channels QcNum sp); o_slices := channel_slices QcNum sp;
     o_pars := map (fun p => (p_name QcNum p, (p_start QcNum p, p_n QcNum p), ptype_code (p_type QcNum p), p_scalar QcNum p)) ps;
     o_npars := md_npars QcNum m;
     o_inits := qouts (flat_map (fun p => optl (p_inits QcNum p)) ps);
     o_bounds := map (fun b => (qout (fst b), qout (snd b))) (flat_map (fun p => optl (p_bounds QcNum p)) ps);
     o_fixed := flat_map fixed_list ps;
     o_auxdata := qouts (md_auxdata QcNum m);
     o_aux_order := map (p_name QcNum) (filter (constrained QcNum) ps);
     o_poi := match md_poi QcNum m with Some i => Z.of_nat i | None => (-1)%Z end;
     o_vars := flat_map (fun p => match p_var QcNum p with Val l => [(p_name QcNum p, qouts l)] | _ => [] end) ps;
     o_factors := flat_map (fun p => match p_factors QcNum p with Val l => [(p_name QcNum p, qouts l)] | _ => [] end) ps |}.

Definition term_out (t : term QcNum) : Z * list (Z * positive) :=
  match t with TPois n lam => (0%Z, [qout n; qout lam]) | TNorm x mu var => (1%Z, [qout x; qout mu; qout var]) end.

Inductive evalobs :=
| EvalOk (exp : list (Z * positive)) (bysample : list (list (Z * positive))) (expaux : list (Z * positive))
         (terms : string + list (Z * list (Z * positive))).

Definition observe_eval (tbl : itbl) (sp : qspec) (st : settings QcNum) (m : model QcNum) (pars data : list Qc) : evalobs :=
  let ia := q_interp_add in let im := interp_mul_q tbl in
  EvalOk (qouts (expected_actualdata QcNum ia im sp st m pars))
         (qoutss (expected_by_sample QcNum ia im sp st m pars))
         (qouts (expected_auxdata QcNum m pars))
         (match logpdf_terms QcNum ia im sp st m pars data with
          | Ok ts => inr (map term_out ts) | Err e => inl (err_code e) end).

(* one case: build, observe the configuration, evaluate at several (pars, data) points *)
Definition cfg_tuple (o : cfgobs) :=
  (o_channels o, o_samples o, o_modifiers o, o_nbins o, o_slices o, o_pars o, o_npars o, o_inits o, o_bounds o,
   o_fixed o, o_auxdata o, o_aux_order o, o_poi o, o_vars o, o_factors o).
Definition run_case (tbl : itbl) (sp : qspec) (st : settings QcNum) (points : list (list Qc * list Qc))
  :=
  match build QcNum sp with
  | Err e => inl (err_code e)
  | Ok m => inr (cfg_tuple (observe_config sp m), map (fun pd => observe_eval tbl sp st m (fst pd) (snd pd)) points)
  end.
Definition run_build (sp : qspec) : string :=
  match build QcNum sp with Err e => err_code e | Ok _ => "ok" end.

(* ---- reference side (PV.Ref) at Qc ---- *)
Require Import PV.Ref.
Definition theta_of (tb : list (string * list Qc)) (name : string) (k : nat) : Qc :=
  match find (fun e => String.eqb (fst e) name) tb with Some e => nth k (snd e) 0%Qc | None => 0%Qc end.
Definition run_ref (tbl : itbl) (sp : qspec) (st : settings QcNum) (thetas : list (list (string * list Qc))) :=
  map (fun tb => qouts (ref_expected QcNum q_interp_add (interp_mul_q tbl) (normsys_code QcNum st) (histosys_code QcNum st)
                                     (clip_sample QcNum st) (clip_bin QcNum st) sp (theta_of tb))) thetas.

(* reference likelihood terms; obs and aux are addressed by name through tables built by the harness from the
   implementation's reported layout (channel order / auxdata_order) *)
Definition run_ref_terms (tbl : itbl) (sp : qspec) (st : settings QcNum)
           (cases : list (list (string * list Qc) * list (string * list Qc) * list (string * list Qc))) :=
  map (fun c => let '(tb, ob, ax) := c in
       map term_out (ref_terms QcNum q_interp_add (interp_mul_q tbl) (normsys_code QcNum st) (histosys_code QcNum st)
                               (clip_sample QcNum st) (clip_bin QcNum st) sp (theta_of tb) (theta_of ob) (theta_of ax))) cases.

(* ---- batched model (C10) ---- *)
Require Import PV.Batch.
Definition run_batched (tbl : itbl) (sp : qspec) (st : settings QcNum) (rows : list (list Qc)) :=
  match build QcNum sp with
  | Err e => inl (err_code e)
  | Ok m => inr (reads_in_range QcNum sp (cfg_channels QcNum sp) (cfg_samples QcNum sp) (cfg_modifiers QcNum sp) m,
                 qoutss (expected_actualdata_batched QcNum q_interp_add (interp_mul_q tbl) sp st m rows))
  end.

(* ---- premises of the refinement theorem, evaluated per generated model ---- *)
Require Import PV.RefineTop.
Definition run_layout (sp : qspec) : string :=
  match build QcNum sp with
  | Err e => err_code e
  | Ok m => if layout_okb QcNum sp m then "layout-ok" else "layout-NOT-ok" end.

(* the positive per-sample clip on a sample absent from a channel: Impl <> Ref (known finding) *)
Definition clip_witness_spec : qspec :=
  Build_spec (N:=QcNum)
    [ Build_channel (N:=QcNum) "A" [ Build_sample (N:=QcNum) "s1" [mkq 10 1] [Build_modifier (N:=QcNum) "mu" Normfactor (@MDNone QcNum)] ];
      Build_channel (N:=QcNum) "B" [ Build_sample (N:=QcNum) "s2" [mkq 20 1] [] ] ] [] None.
Definition clip_witness_st : settings QcNum := Build_settings QcNum "code4" "code4p" (Some (mkq 1 1)) None.
Definition clip_witness_pars : list Qc := [mkq 1 1].
